(* C03: the ten scan entry points of the inner tree and the wrapper's four bounded, filtered scans, stated
   against the sorted map: on every well-formed ordered tree, for every pivot (present, absent, below the
   minimum, above the maximum), every stop bound, every callback, every filter and every limit. *)
From Coq Require Import ZArith List Lia Bool Sorting.Sorted.
Require Import C03_Model C03_Spec C03_Scan.
Import ListNotations.
Open Scope Z_scope.

(* ---------- the stop bound cuts the scan where the selected items end ---------- *)
Definition cutv {A} (p : item -> bool) (visit : A -> item -> A * bool) (a : A) (x : item) : A * bool :=
  if p x then visit a x else (a, false).

Lemma feed_ext {A} (v w : A -> item -> A * bool) : (forall a x, v a x = w a x) -> forall l a, feed v l a = feed w l a.
Proof. intros E. induction l as [|x l IH]; intros a; cbn; [reflexivity|]. rewrite E. destruct (w a x) as [a' c]. destruct c; [apply IH|reflexivity]. Qed.

Lemma feed_cut {A} (R : item -> item -> Prop) (p : item -> bool) (visit : A -> item -> A * bool) :
  (forall x y, R x y -> p x = false -> p y = false) ->
  forall L a, StronglySorted R L -> fst (feed (cutv p visit) L a) = fst (feed visit (filter p L) a).
Proof.
  intros Hp. induction L as [|x L IH]; intros a Hs; [reflexivity|].
  inversion Hs as [|? ? Hs' Hf]; subst. cbn [feed filter]. unfold cutv at 1. destruct (p x) eqn:Ex.
  - cbn [feed]. destruct (visit a x) as [a' c]. destruct c; [apply IH; exact Hs'|reflexivity].
  - cbn [fst]. assert (Hn : filter p L = []).
    { apply filter_none. rewrite Forall_forall in *. intros y Hy. apply (Hp x y (Hf y Hy) Ex). }
    rewrite Hn. reflexivity.
Qed.

Lemma ss_filter {B} (R : B -> B -> Prop) (f : B -> bool) l : StronglySorted R l -> StronglySorted R (filter f l).
Proof.
  induction 1 as [|a l Hs IH Hf]; cbn [filter]; [constructor|]. destruct (f a); [|exact IH].
  constructor; [exact IH|]. apply Forall_forall. intros x Hx. apply filter_In in Hx. destruct Hx as [Hx _].
  rewrite Forall_forall in Hf. apply Hf, Hx.
Qed.
Lemma filter_filter {B} (f g : B -> bool) l : filter g (filter f l) = filter (fun x => f x && g x) l.
Proof. induction l as [|x l IH]; cbn; [reflexivity|]. destruct (f x); cbn; [destruct (g x); now rewrite IH|exact IH]. Qed.
Lemma filter_ext' {B} (f g : B -> bool) l : (forall x, f x = g x) -> filter f l = filter g l.
Proof. intros E. induction l as [|x l IH]; cbn; [reflexivity|]. now rewrite E, IH. Qed.

Definition stop_a (stop : option Z) (x : item) : bool := match stop with Some s => key x <? s | None => true end.
Definition stop_d (stop : option Z) (x : item) : bool := match stop with Some s => s <? key x | None => true end.
Lemma svisit_a_cut {A} (visit : A -> item -> A * bool) stop a x : svisit_a A visit stop a x = cutv (stop_a stop) visit a x.
Proof. unfold svisit_a, cutv, stop_a. destruct stop; reflexivity. Qed.
Lemma svisit_d_cut {A} (visit : A -> item -> A * bool) stop a x : svisit_d A visit stop a x = cutv (stop_d stop) visit a x.
Proof. unfold svisit_d, cutv, stop_d. destruct stop; reflexivity. Qed.

(* node.iterate, both directions, with start / includeStart / stop and any callback, against the in-order list *)
Theorem iterate_asc_spec A (visit : A -> item -> A * bool) start stop incl f n a :
  iwf f n -> StronglySorted klt (iflat f n) ->
  scan_acc (asc A visit start stop incl f n false a)
  = fst (feed visit (filter (fun x => keep start incl x && stop_a stop x) (iflat f n)) a).
Proof.
  intros Hwf Hs. pose proof (ascend_scan_correct A visit start stop incl f n a Hwf Hs) as H. cbn zeta in H.
  apply (f_equal fst) in H. cbn [fst] in H. unfold scan_acc. rewrite H.
  rewrite (feed_ext _ _ (svisit_a_cut visit stop)).
  rewrite (feed_cut klt (stop_a stop) visit).
  - rewrite filter_filter. reflexivity.
  - intros x y Hxy. unfold stop_a, klt in *. destruct stop as [s|]; [|discriminate]. rewrite !Z.ltb_ge. lia.
  - apply ss_filter, Hs.
Qed.
Theorem iterate_desc_spec A (visit : A -> item -> A * bool) start stop incl f n a :
  iwf f n -> StronglySorted klt (iflat f n) ->
  scan_acc (desc A visit start stop incl f n false a)
  = fst (feed visit (filter (fun x => keepd start incl x && stop_d stop x) (rev (iflat f n))) a).
Proof.
  intros Hwf Hs. pose proof (descend_scan_correct A visit start stop incl f n a Hwf Hs) as H. cbn zeta in H.
  apply (f_equal fst) in H. cbn [fst] in H. unfold scan_acc. rewrite H.
  rewrite (feed_ext _ _ (svisit_d_cut visit stop)).
  rewrite (feed_cut kgt (stop_d stop) visit).
  - rewrite filter_filter. reflexivity.
  - intros x y Hxy. unfold stop_d, kgt in *. destruct stop as [s|]; [|discriminate]. rewrite !Z.ltb_ge. lia.
  - apply ss_filter, ss_rev, Hs.
Qed.

(* what the pivot filters mean *)
Lemma keep_meaning start incl x :
  keep start incl x = match start with Some k => if incl then k <=? key x else k <? key x | None => true end.
Proof.
  unfold keep, lt_s, le_s. destruct start as [k|]; [|destruct incl; reflexivity]. destruct incl; cbn [orb negb andb].
  - rewrite andb_true_r. rewrite Z.leb_antisym. reflexivity.
  - destruct (key x <? k) eqn:E1; destruct (key x <=? k) eqn:E2; destruct (k <? key x) eqn:E3; cbn; try reflexivity;
      rewrite ?Z.ltb_lt, ?Z.ltb_ge, ?Z.leb_le, ?Z.leb_gt in *; lia.
Qed.
Lemma keepd_meaning start incl x :
  keepd start incl x = match start with Some k => if incl then key x <=? k else key x <? k | None => true end.
Proof.
  unfold keepd, gt_s, ge_s. destruct start as [k|]; [|destruct incl; reflexivity]. destruct incl; cbn [orb negb andb].
  - rewrite andb_true_r. rewrite Z.leb_antisym. reflexivity.
  - destruct (k <? key x) eqn:E1; destruct (k <=? key x) eqn:E2; destruct (key x <? k) eqn:E3; cbn; try reflexivity;
      rewrite ?Z.ltb_lt, ?Z.ltb_ge, ?Z.leb_le, ?Z.leb_gt in *; lia.
Qed.

(* ---------- the ten entry points ---------- *)
Definition tree_wf (t : itree) : Prop :=
  match iroot t with None => True | Some r => iwf IFUEL r /\ StronglySorted klt (iflat IFUEL r) end.

Theorem itree_scan_spec A (visit : A -> item -> A * bool) e p q t a :
  tree_wf t -> itree_scan visit e p q t a = fst (feed visit (s_scan e p q (itree_list t)) a).
Proof.
  unfold tree_wf, itree_scan, itree_list, s_scan. destruct (iroot t) as [r|]; [|intros _; destruct e; reflexivity].
  intros [Hwf Hs].
  destruct e; cbn [entry_desc];
    first [ rewrite (iterate_asc_spec A visit _ _ _ IFUEL r a Hwf Hs) | rewrite (iterate_desc_spec A visit _ _ _ IFUEL r a Hwf Hs) ];
    f_equal; f_equal; apply filter_ext'; intros x; rewrite ?keep_meaning, ?keepd_meaning; unfold stop_a, stop_d, entry_sel;
    rewrite ?andb_true_r; try reflexivity; apply andb_comm.
Qed.

(* a callback that collects and stops after m items (m <= 0: never stops) *)
Lemma collect_feed m : forall L acc, (m <= 0 \/ Z.of_nat (length acc) < m) ->
  fst (feed (collect_visit m) L acc) = acc ++ (if m <=? 0 then L else firstn (Z.to_nat m - length acc) L).
Proof.
  induction L as [|x L IH]; intros acc Hm.
  - cbn [feed fst]. destruct (m <=? 0); rewrite ?firstn_nil, app_nil_r; reflexivity.
  - cbn [feed]. unfold collect_visit at 1. destruct (m <=? 0) eqn:E0.
    + cbn [orb]. rewrite IH by (left; apply Z.leb_le, E0). rewrite <- app_assoc. reflexivity.
    + cbn [orb]. apply Z.leb_gt in E0. destruct Hm as [Hm|Hm]; [lia|].
      destruct (Z.of_nat (length acc) + 1 <? m) eqn:E1.
      * apply Z.ltb_lt in E1. rewrite IH by (right; rewrite app_length; cbn [length]; lia).
        rewrite app_length. cbn [length].
        replace (Z.to_nat m - length acc)%nat with (S (Z.to_nat m - (length acc + 1)))%nat by lia.
        cbn [firstn]. rewrite <- app_assoc. reflexivity.
      * apply Z.ltb_ge in E1. cbn [fst]. assert (Hl : (Z.to_nat m - length acc = 1)%nat) by lia. rewrite Hl.
        cbn [firstn]. reflexivity.
Qed.

Theorem itree_scan_collect e p q m t :
  tree_wf t -> itree_scan (collect_visit m) e p q t [] = s_collect m (s_scan e p q (itree_list t)).
Proof.
  intros Hwf. rewrite (itree_scan_spec _ (collect_visit m) e p q t [] Hwf).
  rewrite collect_feed by (cbn [length]; lia). cbn [app length]. unfold s_collect.
  destruct (m <=? 0) eqn:E; [reflexivity|]. rewrite Nat.sub_0_r. reflexivity.
Qed.

(* ---------- the wrapper's iterWalk ---------- *)
Lemma walk_feed n flt : 0 <= n -> forall L acc, (length acc <= Z.to_nat n)%nat ->
  fst (feed (walk_visit n flt) L acc) = firstn (Z.to_nat n) (acc ++ filter flt L).
Proof.
  intros Hn. induction L as [|x L IH]; intros acc Hacc.
  - cbn [feed filter fst]. rewrite app_nil_r. symmetry. apply firstn_all2. exact Hacc.
  - cbn [feed filter]. unfold walk_visit at 1. destruct (n <=? Z.of_nat (length acc)) eqn:E.
    + apply Z.leb_le in E. cbn [fst]. rewrite firstn_app. replace (Z.to_nat n - length acc)%nat with 0%nat by lia. cbn [firstn]. rewrite app_nil_r.
      symmetry. apply firstn_all2. lia.
    + apply Z.leb_gt in E. destruct (flt x).
      * rewrite IH by (rewrite app_length; cbn [length]; lia). rewrite <- app_assoc. reflexivity.
      * rewrite IH by lia. reflexivity.
Qed.

(* AscendGte / AscendGt / DescendLte / DescendLt with any filter and any limit:
   exactly the first n matching items of the sorted map in scan order; n = 0 gives nothing, n < 0 panics *)
Theorem iter_walk_spec t w k f n : tree_wf t -> iter_walk t w k f n = s_walk w k f n (itree_list t).
Proof.
  intros Hwf. unfold iter_walk, s_walk. destruct (n =? 0) eqn:E0; [reflexivity|]. destruct (n <? 0) eqn:E1; [reflexivity|].
  apply Z.ltb_ge in E1. f_equal. rewrite (itree_scan_spec _ _ _ _ _ _ _ Hwf). rewrite walk_feed by (cbn [length]; lia). reflexivity.
Qed.
