(* C18: Combine, and the remaining clauses of the property as separate statements *)
From Coq Require Import List Bool ZArith Lia Arith.
Require Import C18.
Import ListNotations.

(* gormx.Combine(fns...) is one step that runs fns in order and stops at the first error; a panic unwinds
   through it.  Run as the only step of Transact it yields the events of the sub-steps. *)
Definition transact_comb (c : cfg) : list event * result :=
  if negb (begin_ok c) then ([EBeginFail], RBeginErr)
  else
    let '(ev, r) := run_steps 0 (steps c) in
    match r with
    | RNil => (EBegin :: ev ++ [ECommit], if commit_ok c then RNil else RCommitErr)
    | RTxDone => (EBegin :: ev, RTxDone)
    | _ => (EBegin :: ev ++ [ERollback], r)
    end.

Lemma combine_spec_lem c : steps c <> [] -> transact_comb c = transact c.
Proof. intros H. unfold transact_comb, transact. destruct (steps c); [congruence|reflexivity]. Qed.

Lemma combine_empty_lem c : steps c = [] -> begin_ok c = true ->
  transact_comb c = ([EBegin; ECommit], if commit_ok c then RNil else RCommitErr).
Proof. intros H Hb. unfold transact_comb. rewrite H, Hb. reflexivity. Qed.

(* result clause: nil only if the commit succeeded; otherwise the first failing step's error / the panic / begin / commit error *)
Definition expected_result (c : cfg) : result :=
  match steps c with
  | [] => RNil
  | _ => if negb (begin_ok c) then RBeginErr
         else match first_bad 0 (steps c) with
              | None => if commit_ok c then RNil else RCommitErr
              | Some (_, s) => res_of s
              end
  end.

Lemma result_spec_lem c : snd (transact c) = expected_result c.
Proof.
  pose proof (model_holds c) as H. unfold holds in H. unfold expected_result.
  destruct (steps c) eqn:E.
  - apply andb_prop in H as [_ H]. apply result_eqb_eq in H. exact H.
  - destruct (begin_ok c); cbn [negb] in *.
    + repeat (apply andb_prop in H as [H ?]).
      destruct (first_bad 0 (s :: l)) as [[i s0]|].
      * match goal with H1 : _ && _ = true |- _ => apply andb_prop in H1 as [_ H1]; apply result_eqb_eq in H1; exact H1 end.
      * match goal with H1 : _ && _ = true |- _ => apply andb_prop in H1 as [_ H1]; apply result_eqb_eq in H1; exact H1 end.
    + repeat (apply andb_prop in H as [H ?]).
      match goal with H1 : result_eqb _ _ = true |- _ => apply result_eqb_eq in H1; exact H1 end.
Qed.

Lemma nil_only_if_committed_lem c : steps c <> [] -> snd (transact c) = RNil ->
  begin_ok c = true /\ all_ok (steps c) = true /\ commit_ok c = true.
Proof.
  intros Hs Hr. rewrite result_spec_lem in Hr. unfold expected_result in Hr.
  destruct (steps c) eqn:E; [congruence|].
  destruct (begin_ok c); cbn [negb] in Hr; [|discriminate].
  pose proof (run_steps_spec (s :: l) 0) as H. destruct (run_steps 0 (s :: l)) as [ev r].
  destruct H as (_ & _ & _ & H).
  destruct (first_bad 0 (s :: l)) as [[i s0]|].
  - destruct H as (_ & _ & Hres & Hn & _). subst r. congruence.
  - destruct H as (_ & _ & Ha). destruct (commit_ok c); [auto|discriminate].
Qed.

(* no later step runs after the first failing one: exactly i+1 steps are executed *)
Lemma no_step_after_failure_lem c i s : begin_ok c = true -> first_bad 0 (steps c) = Some (i, s) ->
  count is_exec (fst (transact c)) = S i.
Proof.
  intros Hb Hf. pose proof (model_holds c) as H. unfold holds in H.
  destruct (steps c) eqn:E; [cbn in Hf; discriminate|].
  rewrite Hb in H. cbn [negb] in H. rewrite Hf in H.
  repeat (apply andb_prop in H as [H ?]).
  match goal with H1 : _ && _ = true |- _ => apply andb_prop in H1 as [H1 _]; apply Nat.eqb_eq in H1; exact H1 end.
Qed.

Lemma all_steps_run_when_ok_lem c : begin_ok c = true -> steps c <> [] -> first_bad 0 (steps c) = None ->
  count is_exec (fst (transact c)) = length (steps c).
Proof.
  intros Hb Hs Hf. pose proof (model_holds c) as H. unfold holds in H.
  destruct (steps c) eqn:E; [congruence|].
  rewrite Hb in H. cbn [negb] in H. rewrite Hf in H.
  repeat (apply andb_prop in H as [H ?]).
  match goal with H1 : _ && _ = true |- _ => apply andb_prop in H1 as [H1 _]; apply Nat.eqb_eq in H1; exact H1 end.
Qed.

(* non-vacuity *)
Example ex_fail_second : let c := {| begin_ok := true; commit_ok := true; rollback_ok := false; steps := [SOk; SFail 7; SOk] |} in
  transact c = ([EBegin; EExec 0; EExec 1; ERollback], RStepErr 7) /\ first_bad 0 (steps c) = Some (1, SFail 7).
Proof. split; reflexivity. Qed.
Example ex_panic_first : transact {| begin_ok := true; commit_ok := true; rollback_ok := true; steps := [SPanic 3; SOk] |}
  = ([EBegin; EExec 0; ERollback], RPanicErr 3).
Proof. reflexivity. Qed.

(* a last step that finishes the transaction itself and returns nil: nothing is committed and the caller is told *)
Example ex_step_ends_tx : transact {| begin_ok := true; commit_ok := true; rollback_ok := true; steps := [SOk; SDoneRb] |}
  = ([EBegin; EExec 0; EExec 1; ERollback], RTxDone).
Proof. reflexivity. Qed.

Lemma finished_tx_is_reported_lem c : begin_ok c = true -> (exists i, first_bad 0 (steps c) = Some (i, SDoneRb)) ->
  snd (transact c) = RTxDone /\ count is_commit (fst (transact c)) = 0.
Proof.
  intros Hb [i Hf]. split.
  - rewrite result_spec_lem. unfold expected_result. destruct (steps c) eqn:E; [cbn in Hf; discriminate|].
    rewrite Hb. cbn [negb]. rewrite Hf. reflexivity.
  - assert (Hs : steps c <> []) by (destruct (steps c); [cbn in Hf; discriminate|discriminate]).
    pose proof (commit_iff_all_ok c Hs Hb) as [H1 _].
    destruct (Nat.eq_dec (count is_commit (fst (transact c))) 1) as [E1|N1].
    + specialize (H1 E1). pose proof (run_steps_spec (steps c) 0) as R. destruct (run_steps 0 (steps c)) as [ev r].
      destruct R as (_ & _ & _ & R). rewrite Hf in R. destruct R as (_ & _ & _ & _ & Ha). congruence.
    + pose proof (transact_finished_once c Hs Hb) as F. pose proof (model_holds c) as MH.
      (* the count is 0 or 1: finished exactly once *) lia.
Qed.
