(* C10: large values (64 KiB and more) without large literals: the source bytes are given as segments, some of them
   expanded from a two-counter byte generator; observed byte strings are compared through a digest *)
From Coq Require Import ZArith List Lia Bool.
Require Import LE Varint C10_Model C10_Monitor C10_Codec C10_Proofs C10_Stream.
Import ListNotations.
Open Scope Z_scope.

(* byte i = (x_i + c_i) mod 256 where x advances by step (mod 256) and c advances by one every 251 bytes: the period
   is not a power of two, so equal-looking 64 KiB blocks do not occur (the harness has the same generator in Go) *)
Definition wrap256 (y : Z) : Z := if y <? 256 then y else y - 256.
Fixpoint gen_bytes (n : nat) (x step c k : Z) : list Z :=
  match n with
  | O => []
  | S n' => wrap256 (x + c) :: gen_bytes n' (wrap256 (x + step)) step (if k =? 0 then wrap256 (c + 1) else c) (if k =? 0 then 250 else k - 1)
  end.

Inductive seg := SLit (l : list Z) | SGen (n x step : Z).
Definition expand_seg (s : seg) : list Z :=
  match s with SLit l => l | SGen n x step => gen_bytes (Z.to_nat n) (x mod 256) (step mod 256) 0 250 end.
Definition expand (ss : list seg) : list Z := flat_map expand_seg ss.

(* the chunks of the source: the given sizes one after the other, then whatever is left *)
Fixpoint split_sizes (sizes : list Z) (l : list Z) : list (list Z) :=
  match sizes with
  | [] => match l with [] => [] | _ => [l] end
  | k :: r => firstn (Z.to_nat k) l :: split_sizes r (skipn (Z.to_nat k) l)
  end.
Lemma split_sizes_concat : forall sizes l, concat (split_sizes sizes l) = l.
Proof.
  induction sizes as [|k r IH]; intros l; cbn [split_sizes].
  - destruct l; cbn; [reflexivity|now rewrite app_nil_r].
  - cbn [concat]. rewrite IH. apply firstn_skipn.
Qed.

(* digest of an outcome: a byte string is represented by its length, its first and last eight bytes, the sum of its
   bytes and the sum of the prefix sums (position-sensitive); everything else is itself *)
Inductive dout := DOut (o : outcome) | DBytes (len : Z) (head tail : list Z) (s1 s2 : Z).
Definition cksum (l : list Z) : Z * Z := fold_left (fun '(a, s) b => let a' := a + b in (a', s + a')) l (0, 0).
Definition dig (o : outcome) : dout :=
  match o with
  | OBytes l => let '(s1, s2) := cksum l in DBytes (zlen l) (firstn 8 l) (skipn (length l - 8) l) s1 s2
  | _ => DOut o
  end.
Definition dout_eqb (a b : dout) : bool :=
  match a, b with
  | DOut x, DOut y => outcome_eqb x y
  | DBytes n h t s1 s2, DBytes n' h' t' s1' s2' => (n =? n') && zl_eqb h h' && zl_eqb t t' && (s1 =? s1') && (s2 =? s2')
  | _, _ => false
  end.
Fixpoint douts_eqb (x y : list dout) : bool :=
  match x, y with [], [] => true | a :: x', b :: y' => dout_eqb a b && douts_eqb x' y' | _, _ => false end.
Lemma dout_eqb_eq a b : dout_eqb a b = true -> a = b.
Proof.
  destruct a, b; cbn [dout_eqb]; try discriminate; intros H.
  - apply outcome_eqb_eq in H. now subst.
  - repeat (apply andb_prop in H as [H ?]).
    repeat match goal with
           | E : (_ =? _) = true |- _ => apply Z.eqb_eq in E
           | E : zl_eqb _ _ = true |- _ => apply zl_eqb_eq in E
           end. now subst.
Qed.
Lemma dout_eqb_refl a : dout_eqb a a = true.
Proof. destruct a; cbn [dout_eqb]; [apply outcome_eqb_refl|]. now rewrite !Z.eqb_refl, !zl_eqb_refl. Qed.
Lemma douts_eqb_eq : forall x y, douts_eqb x y = true -> x = y.
Proof.
  induction x as [|a x IH]; destruct y as [|b y]; cbn; try discriminate; auto.
  intros H. apply andb_prop in H as [H1 H2]. apply dout_eqb_eq in H1. subst. f_equal. auto.
Qed.

(* the stream reader decodes what the buffer reader decodes, seen through the digests *)
Definition d_is_err (d : dout) : bool := match d with DOut (OErr _) => true | _ => false end.
Definition d_is_panic (d : dout) : bool := match d with DOut OPanic => true | _ => false end.
Definition dsim (a b : dout) : bool := negb (d_is_panic a) && (dout_eqb a b || (d_is_err a && d_is_err b)).
Fixpoint dsims (x y : list dout) : bool :=
  match x, y with [], [] => true | a :: x', b :: y' => dsim a b && dsims x' y' | _, _ => false end.
Definition large_ok (obs_r : list dout) (rest_r : dout) (obs_b : list dout) (rest_b : dout) : bool :=
  dsims obs_r obs_b && dout_eqb rest_r rest_b.

Lemma dig_panic o : d_is_panic (dig o) = is_panic o.
Proof. destruct o; cbn [dig]; try reflexivity. now destruct (cksum l). Qed.
Lemma dig_err o : d_is_err (dig o) = is_err o.
Proof. destruct o; cbn [dig]; try reflexivity. now destruct (cksum l). Qed.
Lemma sim_dsim a b : sim a b = true -> dsim (dig a) (dig b) = true.
Proof.
  unfold sim, dsim. intros H. apply andb_prop in H as [H1 H2]. rewrite dig_panic, H1. cbn [andb].
  apply orb_prop in H2 as [H2|H2].
  - apply outcome_eqb_eq in H2. subst. now rewrite dout_eqb_refl.
  - rewrite !dig_err, H2. apply orb_true_r.
Qed.
Lemma sims_dsims : forall x y, sims x y = true -> dsims (map dig x) (map dig y) = true.
Proof.
  induction x as [|a x IH]; destruct y as [|b y]; cbn [sims map dsims]; try discriminate; auto.
  intros H. apply andb_prop in H as [H1 H2]. now rewrite (sim_dsim a b H1), (IH y H2).
Qed.

(* what the model produces satisfies the monitor *)
Lemma large_sound data sizes eofl ops :
  forallb stream_op ops = true -> forallb byte_okb data = true ->
  large_ok (map dig (fst (rrun (split_sizes sizes data, eofl) ops)))
           (dig (OBytes (src_bytes (snd (rrun (split_sizes sizes data, eofl) ops)))))
           (map dig (fst (brun data ops))) (dig (OBytes (snd (brun data ops)))) = true.
Proof.
  intros Hs Hb. set (s0 := (split_sizes sizes data, eofl)).
  assert (E0 : src_bytes s0 = data) by apply split_sizes_concat.
  assert (Hok : bytes_ok (src_bytes s0)) by (rewrite E0; now apply bytes_okb_spec).
  destruct (run_agree ops s0 Hs Hok) as [H1 H2]. rewrite E0 in H1, H2.
  unfold large_ok. rewrite (sims_dsims _ _ H1), H2. apply dout_eqb_refl.
Qed.
