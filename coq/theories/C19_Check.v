(* C19: what the driver evaluates on every observed case *)
From Coq Require Import ZArith NArith List Bool Lia String Ascii.
Require Import Cases_Common.
Require Export C19_Model C19_Spec C19_Fast.
Require Import C19_Sound C19_Nonce.
Import ListNotations.
Open Scope Z_scope.

Inductive case :=
| CHist (c : cfg) (items : list item)                          (* one service instance, one history, from the empty cache *)
| CHistR (c : cfg) (segs : list (N * item))                    (* the same in run-length form: (n, it) = n consecutive identical items *)
| CNonce (base : string) (n : Z) (raw : bool) (targets bounds : list Z) (out : option string)
                                                               (* VerifGenNonceStr with a scripted draw function *)
| CSample (n : Z) (codes : list string).                       (* codes drawn by the real generator through a real-sender service *)

(* the observed behaviour is exactly a behaviour of the model *)
Definition case_accept (x : case) : bool :=
  match x with
  | CHist c items => conforms_run c [] items
  | CHistR c segs => conforms_run c [] (expand segs)
  | CNonce base n raw targets bounds out =>
    (Z.of_nat (List.length targets) =? Z.max 0 n)
    && zlist_eqb (fst (nonce_run (nonce_bound base) base raw targets)) bounds
    && ostr_eqb (snd (nonce_run (nonce_bound base) base raw targets)) out
  | CSample n codes => sample_holds n codes                    (* nothing to model: the draws are the generator's own *)
  end.

(* the property's clauses on the observed behaviour *)
Definition case_holds (x : case) : bool :=
  match x with
  | CHist c items => holds c items
  | CHistR c segs => holds_fast c (expand segs)                (* = holds c (expand segs), in one pass *)
  | CNonce base n raw targets bounds out => nonce_holds base n targets out
  | CSample n codes => sample_holds n codes
  end.

Theorem case_sound : forall x, case_accept x = true -> case_holds x = true.
Proof.
  intros [c items|c segs|base n raw targets bounds out|n codes]; cbn [case_accept case_holds]; intros H.
  - apply model_holds, H.
  - rewrite holds_fast_eq. apply model_holds, H.
  - apply andb_prop in H as [H H3]. apply andb_prop in H as [H1 H2].
    apply Z.eqb_eq in H1. apply ostr_eqb_eq in H3. rewrite <- H3. apply nonce_model_holds, H1.
  - exact H.
Qed.
