(* C04 LRU caches: capacity bound, exact recency eviction, size accounting.
   The property clause by clause, for every history of the nine operations over arbitrary keys, item sizes and
   capacities in [0, B] (B = 2^62 - 1: the range in which the int64 size field cannot wrap), for cache.LRUCache
   (VStd), cache/tiny.LRUCache (VTiny) and per shard for the wide variants with any shard count and any routing.
   Models: C04_Model.v (machine level: int64 arithmetic, nil dereference, the tiny code paths, the wide facade),
   LRUOps.v (ideal LRU: recency list + trim).  This file contains statements closed by `exact` only. *)
From Coq Require Import ZArith List Lia Bool Permutation.
Require Import LRU Shard LRUOps C04_Model C04_Refine C04_Wide C04_Theorems C04_Check C04_Burst C04_Sia C04_Rem C04_Stat C04_First C04_Churn.
Import ListNotations.
Open Scope Z_scope.

(* whatever the driver accepts satisfies the monitor *)
Theorem c04_case_sound : forall c, case_accept c = true -> case_holds c = true.
Proof. exact case_sound. Qed.

(* "the cache holds exactly the entries an ideal LRU of the same capacity would hold ... the values reported as
   removed always agree": every outcome of every call (hit/miss and value, Delete's boolean, the removed values of
   SetAndGetRemoved in eviction order; never a panic) and the resulting contents, capacity and eviction counter *)
Theorem c04_refines_ideal : forall v cp ops, cap_dom cp -> Forall op_dom ops ->
  snd (mrun v (new_lru cp) ops) = map Some (snd (irun (new_istate cp) (map (norm v) ops))) /\
  abs (fst (mrun v (new_lru cp) ops)) = fst (irun (new_istate cp) (map (norm v) ops)).
Proof. exact refines_ideal. Qed.

(* the same from any reachable state, one operation at a time (machine-level step vs ideal step) *)
Theorem c04_step_refines : forall v c o, MInv v c -> op_ok o -> op_fit o ->
  abs (fst (mstep v c o)) = fst (istep (abs c) (norm v o)) /\
  snd (mstep v c o) = Some (snd (istep (abs c) (norm v o))) /\
  MInv v (fst (mstep v c o)).
Proof. exact mstep_refines. Qed.

(* "Keys/Items list entries from most to least recently used. Length, Size, Evictions ... always agree" *)
Theorem c04_observables_agree : forall v cp ops, cap_dom cp -> Forall op_dom ops ->
  let c := fst (mrun v (new_lru cp) ops) in
  let s := fst (irun (new_istate cp) (map (norm v) ops)) in
  keys_of c = ikeys s /\ items_of c = iitems s /\ stats_of c = istats s.
Proof. exact observables_agree. Qed.

(* "the summed item size never exceeds the capacity after an operation returns"; the running size field is the
   sum of the entries' sizes (the entry count in tiny); keys are distinct *)
Theorem c04_size_bound : forall v cp ops, cap_dom cp -> Forall op_dom ops ->
  let c := fst (mrun v (new_lru cp) ops) in
  size c = total (lst c) /\ size c <= cap c /\ NoDup (keys_of c) /\
  (v = VTiny -> size c = Z.of_nat (length (lst c))).
Proof. exact size_bound. Qed.

Theorem c04_no_panic : forall v cp ops, cap_dom cp -> Forall op_dom ops ->
  Forall (fun x => x <> None) (snd (mrun v (new_lru cp) ops)).
Proof. exact no_panic. Qed.

(* "evictions take strictly the least recently used entries": the ideal cache keeps the longest prefix of the
   recency list that fits; the evicted part is a suffix, and its most recent entry would not have fitted *)
Theorem c04_ideal_keeps_longest_prefix : forall (l : list E) cp, nonneg l -> 0 <= cp ->
  l = trim cp l ++ dropped cp l /\ total (trim cp l) <= cp /\
  (forall x d, dropped cp l = x :: d -> cp < total (trim cp l) + snd x).
Proof. exact ideal_keeps_longest_prefix. Qed.

(* the loop of checkCapacity / checkCapacityAndGetRemoved (int64 size field, nil test) computes exactly that:
   kept entries, their summed size, the evicted entries least recently used first, and it does not panic *)
Theorem c04_eviction_loop : forall (l : list E) sz cp ev, nonneg l -> sz = total l -> total l <= MaxI64 -> 0 <= cp ->
  gchk l sz cp ev =
  ({| lst := trim cp l; size := total (trim cp l); cap := cp; evs := ev + Z.of_nat (length (dropped cp l)) |},
   rev (dropped cp l), false).
Proof. exact gchk_spec. Qed.

(* SetAndGetRemoved, fully explicit: contents, running size, eviction counter, removed values *)
Theorem c04_set_and_get_removed : forall c k v sz, Inv c -> cap c <= B -> 0 <= sz <= B ->
  let l' := touch k v sz (lst c) in
  gstep c (SetAndGetRemoved k v sz) =
  ({| lst := trim (cap c) l'; size := total (trim (cap c) l'); cap := cap c;
      evs := evs c + Z.of_nat (length (dropped (cap c) l')) |},
   Some (RList (map valof (rev (dropped (cap c) l'))))).
Proof. exact set_and_get_removed_spec. Qed.

(* "Get/Set refresh recency, Peek/Exist do not" *)
Theorem c04_get_refreshes : forall v c k e, lookup k (lst c) = Some e ->
  lst (fst (mstep v c (Get k))) = e :: remove_key k (lst c) /\ snd (mstep v c (Get k)) = Some (RVal (Some (valof e))).
Proof. exact get_front. Qed.
Theorem c04_peek_exist_do_not : forall v c k, fst (mstep v c (Peek k)) = c /\ fst (mstep v c (Exist k)) = c.
Proof. exact peek_exist_unchanged. Qed.
Theorem c04_set_if_absent_present : forall v c k x sz e, lookup k (lst c) = Some e ->
  mstep v c (SetIfAbsent k x sz) = (front c e k, Some RUnit).
Proof. exact set_if_absent_present. Qed.

(* "items larger than the whole capacity": the item evicts everything, itself included *)
Theorem c04_oversize_item : forall c k v sz, Inv c -> cap c <= B -> cap c < sz <= B ->
  lst (fst (gstep c (Set_ k v sz))) = [] /\ size (fst (gstep c (Set_ k v sz))) = 0.
Proof. exact oversize_empties. Qed.

(* tiny: the code paths that differ from the sized cache *)
Theorem c04_tiny_is_unit_sized : forall c o, TInv c -> cap c <= B -> tstep c o = gstep c (unit_op o).
Proof. exact tstep_eq. Qed.
Theorem c04_tiny_update_in_place : forall c k x sz e, lookup k (lst c) = Some e ->
  tstep c (SetAndGetRemoved k x sz) = (tupdate c k x, Some (RList [])).
Proof. exact tiny_update_in_place. Qed.

(* in the domain the machine-level model (int64 wrap, nil dereference) is the unbounded model of LRUOps.v *)
Theorem c04_machine_level : forall c o, Inv c -> cap c <= B -> op_ok o -> op_fit o ->
  gstep c o = (fst (step c o), Some (snd (step c o))).
Proof. exact gstep_eq. Qed.

(* "per shard for the wide variants with any shard count": every answer of the wide cache is the answer of the
   family of ideal LRUs of capacity capacity/shards+1; shard i is the single cache run on the calls routed to i;
   every shard respects its bound.  For every routing function. *)
Theorem c04_wide_refines_ideal : forall v route capacity n h, wide_dom capacity n -> Forall wop_dom h ->
  snd (wide_run v route (wide_init capacity n) h) = map Some (snd (iwide_run v route (iwide_init capacity n) h)) /\
  forall i, abs (fst (wide_run v route (wide_init capacity n) h) i) = fst (iwide_run v route (iwide_init capacity n) h) i.
Proof. exact wide_refines. Qed.
Theorem c04_wide_shard_is_single : forall v route capacity n h i,
  fst (wide_run v route (wide_init capacity n) h) i =
  fst (mrun v (new_lru (shard_cap capacity n)) (map to_op (sub Z wop wkey route i h))).
Proof. exact wide_shard_is_single. Qed.
Theorem c04_ideal_wide_shard_is_single : forall v route capacity n h i,
  fst (iwide_run v route (iwide_init capacity n) h) i =
  fst (irun (new_istate (shard_cap capacity n)) (map (fun o => norm v (to_op o)) (sub Z wop wkey route i h))).
Proof. exact iwide_shard_is_single. Qed.
Theorem c04_wide_shard_bound : forall v route capacity n h i, wide_dom capacity n -> Forall wop_dom h ->
  let c := fst (wide_run v route (wide_init capacity n) h) i in
  size c = total (lst c) /\ size c <= cap c /\ cap c = shard_cap capacity n /\ NoDup (map keyof (lst c)).
Proof. exact wide_shard_bound. Qed.
Theorem c04_simple_route_in_range : forall n k, 1 <= n -> (route_simple n k < Z.to_nat n)%nat.
Proof. exact route_simple_range. Qed.

(* "also when operations are issued concurrently ... for all interleavings of concurrent callers": every exported
   method is one critical section (checked by the lint on every run), so a concurrent execution is the sequential
   execution of the interleaving chosen by the schedule; for every schedule that interleaving is refined *)
Theorem c04_every_schedule : forall v cp ts sched m, cap_dom cp -> Forall (Forall op_dom) ts -> merge ts sched = Some m ->
  snd (mrun v (new_lru cp) m) = map Some (snd (irun (new_istate cp) (map (norm v) m))) /\
  abs (fst (mrun v (new_lru cp) m)) = fst (irun (new_istate cp) (map (norm v) m)) /\
  (let c := fst (mrun v (new_lru cp) m) in size c = total (lst c) /\ size c <= cap c).
Proof. exact every_schedule. Qed.
Theorem c04_demo_schedule :
  merge [[Set_ 1 10 1; Get 2]; [Set_ 2 20 1; Get 1]] [0; 1; 1; 0]%nat = Some [Set_ 1 10 1; Set_ 2 20 1; Get 1; Get 2].
Proof. exact demo_schedule. Qed.

(* same-key bursts observed only at quiescence: for EVERY linearisation of the burst (every order of the issued calls:
   set-like calls are the burst's writes, no Clear / SetCapacity, Delete only if the burst deletes, every write occurs) the
   state the model reaches passes the quiescent-state monitor the driver evaluates on burst cases (no duplicate keys,
   Length = len Keys, Size = sum of listed sizes <= Capacity, listed items were written, Exist / Peek agree with Items,
   nothing evicted and nothing lost when the distinct keys written fit).  So a burst that fails the monitor has no
   linearisation.  The writes the harness describes are well formed. *)
Theorem c04_burst_every_linearisation : forall v W del univ cap0 ops,
  cap_dom cap0 -> wfW W univ -> Forall op_dom ops -> Forall (lin_op v W del) ops -> complete W ops ->
  let c := fst (mrun v (new_lru cap0) ops) in
  burst_single_ok cap0 W del univ false
    (map (fun k => (k, is_some (lookup k (lst c)), option_map valof (lookup k (lst c)))) univ) (snap_of c) = true.
Proof. exact burst_every_linearisation. Qed.
Theorem c04_burst_writes_wf : forall v univ sizes progs, NoDup univ -> Forall (fun z => 0 <= z) sizes ->
  wfW (all_writes v 0 univ sizes progs) univ.
Proof. exact all_writes_wf. Qed.

(* SetIfAbsent-only bursts: when the only writes are SetIfAbsent calls (values as the variant sees them, sizes in [0, smax])
   and the capacity holds every key of the universe with the largest value, EVERY linearisation behaves as a
   first-insert-wins map: every outcome is that map's, at quiescence every key holds the pair of its first SetIfAbsent,
   nothing was evicted, Size = sum of the entries' sizes; and that map never replaces a present key.  Hence per key all
   reads that followed a SetIfAbsent and the value at quiescence are one and the same (the monitor sia_ok). *)
Theorem c04_sia_every_linearisation : forall v univ smax cap0 ops,
  cap_dom cap0 -> 0 <= smax -> Z.of_nat (length univ) * smax <= cap0 ->
  Forall op_dom ops -> Forall (sia_op v univ smax) ops ->
  let c := fst (mrun v (new_lru cap0) ops) in
  let m := fst (frun [] (map (norm v) ops)) in
  snd (mrun v (new_lru cap0) ops) = map Some (snd (frun [] (map (norm v) ops))) /\
  (forall k, option_map pairof (lookup k (lst c)) = assoc k m) /\
  evs c = 0 /\ cap c = cap0 /\ size c = total (lst c) /\ size c <= cap0 /\ NoDup (keys_of c).
Proof. exact sia_every_linearisation. Qed.
Theorem c04_first_insert_is_never_replaced : forall ops m k p, assoc k m = Some p -> assoc k (fst (frun m ops)) = Some p.
Proof. exact frun_stable. Qed.

(* "the values reported as removed always agree ... also when operations are issued concurrently": SetAndGetRemoved of
   pairwise distinct fresh keys, in EVERY order of the calls: the inserted values are, as a multiset, the values reported as
   removed together with the values still cached (each value is reported by exactly one call or is still there), and the
   eviction counter counts the reported values.  The model is value-semantic: a reported list is a value and cannot change
   later (the monitors held_ok / rem_ok compare every slice a caller kept with its copy taken at return time). *)
Theorem c04_rem_every_linearisation : forall v cap0 ops,
  cap_dom cap0 -> Forall op_dom ops -> Forall sagr_op ops -> NoDup (map okey ops) ->
  let c := fst (mrun v (new_lru cap0) ops) in
  let reported := flat_map rvals (snd (mrun v (new_lru cap0) ops)) in
  Permutation (map oval ops) (reported ++ map valof (lst c)) /\
  evs c = Z.of_nat (length reported) /\ size c = total (lst c) /\ size c <= cap c /\ NoDup (keys_of c).
Proof. exact rem_every_linearisation. Qed.

(* Stats() read while others write items that all have size c: every state of every history has Size = c * Length <=
   capacity, so an answer that is one state of the cache satisfies it (the tiny cache: Size = Length, c04_size_bound) *)
Theorem c04_uniform_size : forall cap0 c ops, cap_dom cap0 -> Forall op_dom ops -> Forall (op_sized c) ops ->
  let cc := fst (mrun VStd (new_lru cap0) ops) in
  size cc = c * Z.of_nat (length (lst cc)) /\ size cc <= cap cc.
Proof. exact uniform_size. Qed.

(* first touches of a fresh wide cache: calls that only Set pairwise distinct keys (and read), every shard able to hold what
   is Set into it: in EVERY order of the calls, for any routing and shard count, every item Set is in its shard at the end
   with its value and size (single cache: c04_sets_all_present) - the final state the monitor first_ok expects *)
Theorem c04_sets_all_present : forall v cap0 ops, cap_dom cap0 -> Forall op_dom ops -> Forall fop ops ->
  NoDup (map wkeyw (flat_map (wr v) ops)) -> zsum (map snd (flat_map (wr v) ops)) <= cap0 ->
  forall w, In w (flat_map (wr v) ops) -> In w (lst (fst (mrun v (new_lru cap0) ops))).
Proof. exact sets_all_present. Qed.
Theorem c04_wide_first_touch : forall v route capacity n h i,
  wide_dom capacity n -> Forall wop_dom h -> Forall (fun o => fop (to_op o)) h ->
  let ops := map to_op (sub Z wop wkey route i h) in
  NoDup (map wkeyw (flat_map (wr v) ops)) -> zsum (map snd (flat_map (wr v) ops)) <= shard_cap capacity n ->
  forall w, In w (flat_map (wr v) ops) -> In w (lst (fst (wide_run v route (wide_init capacity n) h) i)).
Proof. exact wide_first_touch. Qed.

(* own-key churn, with Delete: when every key of the universe fits with the largest size it is ever given, nothing is ever
   evicted and the cache is an unbounded map: key by key, what it holds after ANY order of the calls is what the calls on
   that key, in their order, leave in the map; so two linearisations that order the calls on every key alike (disjoint
   per-goroutine key sets: always) end with the same contents *)
Theorem c04_churn_key_local : forall v univ bnd cap0 ops,
  cap_dom cap0 -> (forall k, 0 <= bnd k) -> zsum (map bnd univ) <= cap0 ->
  Forall op_dom ops -> Forall (chop v univ bnd) ops ->
  let c := fst (mrun v (new_lru cap0) ops) in
  (forall k, option_map pairof (lookup k (lst c)) = assoc k (crun [] (filter (on k) (map (norm v) ops)))) /\
  evs c = 0 /\ cap c = cap0 /\ size c = total (lst c) /\ NoDup (keys_of c).
Proof. exact churn_key_local. Qed.
Theorem c04_churn_interleaving_independent : forall v univ bnd cap0 ops1 ops2,
  cap_dom cap0 -> (forall k, 0 <= bnd k) -> zsum (map bnd univ) <= cap0 ->
  Forall op_dom ops1 -> Forall (chop v univ bnd) ops1 -> Forall op_dom ops2 -> Forall (chop v univ bnd) ops2 ->
  (forall k, filter (on k) (map (norm v) ops1) = filter (on k) (map (norm v) ops2)) ->
  forall k, option_map pairof (lookup k (lst (fst (mrun v (new_lru cap0) ops1)))) =
            option_map pairof (lookup k (lst (fst (mrun v (new_lru cap0) ops2)))).
Proof. exact churn_interleaving_independent. Qed.

(* non-vacuity: the hypotheses are satisfiable and the operations do evict (sized, tiny, wide) *)
Theorem c04_demo_sized :
  let ops := [Set_ 1 10 2; Set_ 2 20 2; Get 1; Set_ 3 30 2; Peek 1; Exist 2; SetAndGetRemoved 1 11 4; Set_ 4 40 9; Set_ 5 50 1; Set_ 6 60 1;
              SetIfAbsent 5 0 1; Delete 6; SetCapacity 0; Clear] in
  Forall op_ok ops /\ snd (run (new_lru 5) ops) =
    [RUnit; RUnit; RVal (Some 10); RUnit; RVal (Some 10); RBool false; RList [30]; RUnit; RUnit; RUnit; RUnit; RBool true; RUnit; RUnit].
Proof. exact demo. Qed.
Theorem c04_demo_tiny :
  let ops := [Set_ 1 10 1; Set_ 2 20 1; Get 1; Set_ 3 30 1; SetAndGetRemoved 1 11 1; SetAndGetRemoved 4 40 1; SetAndGetRemoved 5 50 1; SetCapacity 1; Delete 5] in
  Forall op_dom ops /\
  snd (mrun VTiny (new_lru 3) ops) =
    map Some [RUnit; RUnit; RVal (Some 10); RUnit; RList []; RList [20]; RList [30]; RUnit; RBool true] /\
  stats_of (fst (mrun VTiny (new_lru 3) ops)) = (0, 0, 1, 4).
Proof. exact demo_tiny. Qed.
Theorem c04_demo_wide :
  let h := [WSet 1 10 1; WSet 3 30 1; WSet 5 50 1; WSet 2 20 2; WGet 1; WGet 3; WExist 2] in
  wide_dom 3 2 /\ Forall wop_dom h /\ shard_cap 3 2 = 2 /\
  snd (wide_run VStd (route_simple 2) (wide_init 3 2) h) =
    map Some [RUnit; RUnit; RUnit; RUnit; RVal None; RVal (Some 30); RBool true].
Proof. exact demo_wide. Qed.

(* the guard sz <= B is needed: one item of size 2^63-1 next to a small one wraps the int64 size field, nothing is
   evicted and the summed size exceeds the capacity (outside the property's meaningful domain; see the report) *)
Theorem c04_guard_needed :
  let c := fst (mrun VStd (new_lru 10) [Set_ 1 0 5; Set_ 2 0 MaxI64]) in
  keys_of c = [2; 1] /\ size c < 0 /\ cap c = 10.
Proof. exact guard_needed. Qed.

Print Assumptions c04_case_sound.
Print Assumptions c04_refines_ideal.
Print Assumptions c04_step_refines.
Print Assumptions c04_observables_agree.
Print Assumptions c04_size_bound.
Print Assumptions c04_no_panic.
Print Assumptions c04_ideal_keeps_longest_prefix.
Print Assumptions c04_eviction_loop.
Print Assumptions c04_set_and_get_removed.
Print Assumptions c04_get_refreshes.
Print Assumptions c04_peek_exist_do_not.
Print Assumptions c04_set_if_absent_present.
Print Assumptions c04_oversize_item.
Print Assumptions c04_tiny_is_unit_sized.
Print Assumptions c04_tiny_update_in_place.
Print Assumptions c04_machine_level.
Print Assumptions c04_wide_refines_ideal.
Print Assumptions c04_wide_shard_is_single.
Print Assumptions c04_ideal_wide_shard_is_single.
Print Assumptions c04_wide_shard_bound.
Print Assumptions c04_simple_route_in_range.
Print Assumptions c04_every_schedule.
Print Assumptions c04_demo_schedule.
Print Assumptions c04_burst_every_linearisation.
Print Assumptions c04_burst_writes_wf.
Print Assumptions c04_sia_every_linearisation.
Print Assumptions c04_first_insert_is_never_replaced.
Print Assumptions c04_rem_every_linearisation.
Print Assumptions c04_uniform_size.
Print Assumptions c04_sets_all_present.
Print Assumptions c04_wide_first_touch.
Print Assumptions c04_churn_key_local.
Print Assumptions c04_churn_interleaving_independent.
Print Assumptions c04_demo_sized.
Print Assumptions c04_demo_tiny.
Print Assumptions c04_demo_wide.
Print Assumptions c04_guard_needed.
