(* C12: the concurrent class "add versus close".
   One round = a fresh queue, a few adder goroutines, one goroutine that calls Close and then drains (PopAnyway / TryPop until
   the queue reports closed-and-empty), all released from a barrier, and a final drain at quiescence.  Every call is recorded with
   the result it returned and two ticks of one atomic counter: taken before the call (invocation) and after it returned (response).
   Call a really precedes call b when resp a < inv b.

   r_holds: clauses of the property that hold for EVERY linearisation of atomic operations, evaluated on the observations only:
     - no call panicked / hung / returned a foreign value;
     - a closed queue refuses every add: an add invoked after a Close had returned is not accepted (SyncQueue: its item is never handed out);
     - once a draining pop has reported closed-and-empty, no pop invoked later hands out an item and no add invoked later is accepted
       (an item found in a queue that had already reported closed-and-empty was accepted by a closed queue);
     - nothing invented, nothing duplicated; when the final drain reported closed-and-empty after every add had returned, nothing lost
       (SyncQueue: every Push that returned before Close was invoked is handed out);
     - first-in-first-out under real time: two accepted ordinary adds to the same level, the first returned before the second was
       invoked, are never handed out in the opposite real-time order.
   r_lin_ok: the harness' witness - a permutation of the calls that respects real-time precedence and that the SEQUENTIAL model
   (p_step / m_step / s_step) replays with exactly the observed results, i.e. the round is linearisable with respect to the model.
   r_accept = r_lin_ok && r_holds (for this class case_sound is by this conjunction; the sequential classes have the simulation proof). *)
From Coq Require Import ZArith List Bool Lia.
Require Import C12_Base C12_Pipe C12_MQ C12_Sync.
Import ListNotations.

Section Race.
  Context {S O : Type}.
  Variable step : S -> O -> S * res.
  Variable add_of : O -> option (Z * bool * bool).   (* an add: (item, level: false = control / the only list, true = request, ordinary (not prior)) *)
  Variable is_close : O -> bool.
  Variable is_drain : O -> bool.                     (* a pop whose "closed" answer means closed AND empty *)
  Variable silent : bool.                            (* SyncQueue: a refused Push is not visible in its result *)

  Definition rcall := (O * res * Z * Z)%type.        (* call, result, invocation tick, response tick *)
  Definition c_op (c : rcall) : O := fst (fst (fst c)).
  Definition c_res (c : rcall) : res := snd (fst (fst c)).
  Definition c_inv (c : rcall) : Z := snd (fst c).
  Definition c_resp (c : rcall) : Z := snd c.

  (* ---- the witness linearisation ---- *)
  Definition pick (cs : list rcall) (lin : list nat) : list rcall :=
    flat_map (fun i => match nth_error cs i with Some c => [c] | None => [] end) lin.
  Definition perm_ok (n : nat) (lin : list nat) : bool :=
    Nat.eqb (length lin) n && forallb (fun i => Nat.eqb (count_occ Nat.eq_dec lin i) 1) (seq 0 n).
  Fixpoint rt_ok (l : list rcall) : bool :=       (* nobody placed later had already returned before an earlier one was invoked *)
    match l with
    | [] => true
    | c :: b => forallb (fun d => negb (c_resp d <? c_inv c)%Z) b && rt_ok b
    end.
  Definition r_lin_ok (s0 : S) (cs : list rcall) (lin : list nat) : bool :=
    perm_ok (length cs) lin && rt_ok (pick cs lin) &&
    h_accept step s0 (map (fun c => (c_op c, c_res c)) (pick cs lin)).

  (* ---- the monitor ---- *)
  Definition memZ (x : Z) (l : list Z) : bool := existsb (Z.eqb x) l.
  Fixpoint nodupZ (l : list Z) : bool := match l with [] => true | x :: r => negb (memZ x r) && nodupZ r end.
  Definition is_item (r : res) : bool := match r with RItem _ => true | _ => false end.
  Definition is_other (r : res) : bool := match r with ROther _ => true | _ => false end.
  Definition handed (cs : list rcall) : list Z := flat_map (fun c => match c_res c with RItem x => [x] | _ => [] end) cs.
  Definition add_item (c : rcall) : option Z := match add_of (c_op c) with Some (x, _, _) => Some x | None => None end.
  (* this add was (visibly) accepted *)
  Definition accepted (cs : list rcall) (c : rcall) : bool :=
    match add_item c with
    | Some x => if silent then memZ x (handed cs) else res_eqb (c_res c) RDone
    | None => false
    end.
  Definition reports_empty (c : rcall) : bool := is_drain (c_op c) && res_eqb (c_res c) RClosed.

  Definition cl_no_other (cs : list rcall) : bool := forallb (fun c => negb (is_other (c_res c))) cs.
  Definition cl_closed_refuses (cs : list rcall) : bool :=
    forallb (fun k => negb (is_close (c_op k)) ||
                      forallb (fun c => negb (c_resp k <? c_inv c)%Z || negb (accepted cs c)) cs) cs.
  Definition cl_after_empty (cs : list rcall) : bool :=
    forallb (fun p => negb (reports_empty p) ||
                      forallb (fun c => negb (c_resp p <? c_inv c)%Z || (negb (is_item (c_res c)) && negb (accepted cs c))) cs) cs.
  Definition offered (cs : list rcall) : list Z :=
    flat_map (fun c => match add_item c with
                       | Some x => if silent then [x] else (if res_eqb (c_res c) RDone then [x] else [])
                       | None => [] end) cs.
  Definition final_empty (cs : list rcall) : bool :=
    existsb (fun p => reports_empty p &&
                      forallb (fun c => match add_item c with Some _ => (c_resp c <? c_inv p)%Z | None => true end) cs) cs.
  Definition must_be_handed (cs : list rcall) (c : rcall) : bool :=
    match add_item c with
    | Some _ => if silent
                then forallb (fun k => negb (is_close (c_op k)) || (c_resp c <? c_inv k)%Z) cs   (* returned before any Close began *)
                else res_eqb (c_res c) RDone
    | None => false
    end.
  Definition cl_conservation (cs : list rcall) : bool :=
    nodupZ (handed cs) && forallb (fun x => memZ x (offered cs)) (handed cs) &&
    (negb (final_empty cs) ||
     forallb (fun c => negb (must_be_handed cs c) || match add_item c with Some x => memZ x (handed cs) | None => true end) cs).
  (* the pop that handed out x *)
  Definition pop_of (cs : list rcall) (x : Z) : option rcall :=
    find (fun c => match c_res c with RItem y => Z.eqb x y | _ => false end) cs.
  Definition cl_fifo (cs : list rcall) : bool :=
    forallb (fun a => forallb (fun b =>
      match add_of (c_op a), add_of (c_op b) with
      | Some (x, la, true), Some (y, lb, true) =>
          if Bool.eqb la lb && (c_resp a <? c_inv b)%Z && accepted cs a && accepted cs b
          then match pop_of cs x, pop_of cs y with
               | Some pa, Some pb => negb (c_resp pb <? c_inv pa)%Z
               | _, _ => true
               end
          else true
      | _, _ => true
      end) cs) cs.

  Definition r_holds (cs : list rcall) : bool :=
    cl_no_other cs && cl_closed_refuses cs && cl_after_empty cs && cl_conservation cs && cl_fifo cs.
  Definition r_accept (s0 : S) (cs : list rcall) (lin : list nat) : bool := r_lin_ok s0 cs lin && r_holds cs.

  Lemma r_accept_holds s0 cs lin : r_accept s0 cs lin = true -> r_holds cs = true.
  Proof. unfold r_accept. intros H. apply andb_prop in H. tauto. Qed.

End Race.

(* instances *)
Definition p_add_of (o : pop) : option (Z * bool * bool) :=
  match o with PAdd x | PAddAnyway x => Some (x, false, true) | PPrior x => Some (x, false, false) | _ => None end.
Definition p_is_close (o : pop) : bool := match o with PClose => true | _ => false end.
Definition p_is_drain (o : pop) : bool := match o with PPopAnyway => true | _ => false end.
Definition m_add_of (o : mop) : option (Z * bool * bool) :=
  match o with
  | MAddCtrl x | MAddCtrlAnyway x => Some (x, false, true) | MPriorCtrl x => Some (x, false, false)
  | MAddReq x | MAddReqAnyway x => Some (x, true, true) | MPriorReq x => Some (x, true, false)
  | _ => None end.
Definition m_is_close (o : mop) : bool := match o with MClose => true | _ => false end.
Definition m_is_drain (o : mop) : bool := match o with MPopAnyway => true | _ => false end.
Definition s_add_of (o : sop) : option (Z * bool * bool) := match o with SPush x => Some (x, false, true) | _ => None end.
Definition s_is_close (o : sop) : bool := match o with SClose => true | _ => false end.
Definition s_is_drain (o : sop) : bool := match o with SPop | STryPop => true | _ => false end.

Definition pr_accept (k : pkind) (n : Z) cs lin := r_accept p_step p_add_of p_is_close p_is_drain false (p_new k n) cs lin.
Definition pr_holds cs := @r_holds pop p_add_of p_is_close p_is_drain false cs.
Definition mr_accept (cm rm : Z) cs lin := r_accept m_step m_add_of m_is_close m_is_drain false (m_new cm rm) cs lin.
Definition mr_holds cs := @r_holds mop m_add_of m_is_close m_is_drain false cs.
Definition sr_accept cs lin := r_accept s_step s_add_of s_is_close s_is_drain true s_new cs lin.
Definition sr_holds cs := @r_holds sop s_add_of s_is_close s_is_drain true cs.

Lemma pr_accept_spec k n cs lin : pr_accept k n cs lin = true ->
  r_lin_ok p_step (p_new k n) cs lin = true /\ pr_holds cs = true.
Proof. intros H. unfold pr_accept, r_accept in H. apply andb_prop in H. exact H. Qed.

(* non-vacuity: the round of seeded change r3-m1 (an AddReq overlapping Close returns nil after the drain had reported
   closed-and-empty; the item is found by the final drain) is rejected; the same calls with the add refused are accepted *)
Example ex_race_m1_rejected :
  pr_holds [(PAdd 7%Z, RDone, 1%Z, 6%Z); (PClose, RDone, 2%Z, 3%Z); (PPopAnyway, RClosed, 4%Z, 5%Z);
            (PPopAnyway, RItem 7%Z, 7%Z, 8%Z); (PPopAnyway, RClosed, 9%Z, 10%Z)] = false.
Proof. vm_compute. reflexivity. Qed.
Example ex_race_refused_accepted :
  pr_accept KMux 0%Z [(PAdd 7%Z, RClosed, 1%Z, 6%Z); (PClose, RDone, 2%Z, 3%Z); (PPopAnyway, RClosed, 4%Z, 5%Z);
                      (PPopAnyway, RClosed, 7%Z, 8%Z)] [1; 2; 0; 3]%nat = true.
Proof. vm_compute. reflexivity. Qed.
Example ex_race_before_close_accepted :
  pr_accept KMux 0%Z [(PAdd 7%Z, RDone, 1%Z, 4%Z); (PClose, RDone, 2%Z, 3%Z); (PPopAnyway, RItem 7%Z, 5%Z, 6%Z);
                      (PPopAnyway, RClosed, 7%Z, 8%Z); (PPopAnyway, RClosed, 9%Z, 10%Z)] [0; 1; 2; 3; 4]%nat = true.
Proof. vm_compute. reflexivity. Qed.
(* a witness that contradicts real time is not a witness *)
Example ex_race_bad_witness :
  pr_accept KMux 0%Z [(PClose, RDone, 1%Z, 2%Z); (PAdd 7%Z, RDone, 3%Z, 4%Z); (PPopAnyway, RItem 7%Z, 5%Z, 6%Z)] [1; 0; 2]%nat = false.
Proof. vm_compute. reflexivity. Qed.
