(* C04: the machine-level models of C04_Model.v refine the ideal LRU of LRUOps.v.
   gstep (int64 arithmetic, nil dereference) = LRUOps.step, without panic, whenever capacity and item sizes are
   in [0, B]; tstep (tiny) = gstep on unit sizes; hence both refine istep on every history. *)
From Coq Require Import ZArith List Lia Bool.
Require Import LRU Shard LRUOps C04_Model.
Import ListNotations.
Open Scope Z_scope.

(* ---------------- int64 ---------------- *)
Lemma wrap64_id x : - P63 <= x < P63 -> wrap64 x = x.
Proof. intros H. unfold wrap64, P63, P64 in *. rewrite Z.mod_small by lia. lia. Qed.

(* ---------------- the eviction loop ---------------- *)
Lemma gcheck_S f l size cap removed :
  gcheck (S f) l size cap removed =
  if cap <? size then
    match rev l with
    | [] => (l, size, removed, true)
    | last :: _ => gcheck f (removelast l) (wrap64 (size - snd last)) cap (removed ++ [last])
    end
  else (l, size, removed, false).
Proof. reflexivity. Qed.

Lemma cc_S f (l : list E) size cap removed :
  check_capacity KV (S f) l size cap removed =
  if cap <? size then
    match rev l with
    | [] => (l, size, removed)
    | last :: _ => check_capacity KV f (removelast l) (size - snd last) cap (removed ++ [last])
    end
  else (l, size, removed).
Proof. reflexivity. Qed.

(* no wrap, no nil dereference: the loop is the loop of LRU.v *)
Lemma gcheck_eq : forall (l : list E) cp (removed : list E), nonneg l -> total l <= MaxI64 -> 0 <= cp ->
  gcheck (S (length l)) l (total l) cp removed = (check_capacity KV (length l) l (total l) cp removed, false).
Proof.
  intros l. induction l as [|x l IH] using rev_ind; intros cp removed Hn Ht Hc.
  - cbn [length]. rewrite gcheck_S. cbn [check_capacity]. change (total []) with 0.
    replace (cp <? 0) with false by (symmetry; apply Z.ltb_ge; lia). reflexivity.
  - apply Forall_app in Hn as [Hl Hx]. inversion Hx as [|? ? Hx0 _]; subst.
    rewrite app_length. cbn [length]. replace (length l + 1)%nat with (S (length l)) by lia.
    rewrite gcheck_S, cc_S. rewrite total_app in *. change (total [x]) with (snd x + 0) in *.
    pose proof (total_nonneg KV l Hl) as Hl0.
    destruct (cp <? total l + (snd x + 0)) eqn:E; [|reflexivity].
    rewrite rev_app_distr. cbn [rev app]. rewrite removelast_last.
    replace (total l + (snd x + 0) - snd x) with (total l) by lia.
    rewrite wrap64_id by (unfold P63, MaxI64 in *; lia).
    apply IH; [exact Hl|lia|exact Hc].
Qed.

Lemma gchk_eq (l : list E) sz cp ev : nonneg l -> sz = total l -> total l <= MaxI64 -> 0 <= cp ->
  gchk l sz cp ev = (check l sz cp ev, false).
Proof.
  intros Hn -> Ht Hc. unfold gchk, check. rewrite (gcheck_eq l cp [] Hn Ht Hc). unfold E in *.
  destruct (check_capacity KV (length l) l (total l) cp []) as [[l' s'] removed]. reflexivity.
Qed.

Lemma gchk_spec (l : list E) sz cp ev : nonneg l -> sz = total l -> total l <= MaxI64 -> 0 <= cp ->
  gchk l sz cp ev =
  ({| lst := trim cp l; size := total (trim cp l); cap := cp; evs := ev + Z.of_nat (length (dropped cp l)) |},
   rev (dropped cp l), false).
Proof. intros Hn Hs Ht Hc. rewrite gchk_eq by assumption. rewrite check_spec by assumption. reflexivity. Qed.

Lemma dropped_fits (l : list E) cp : nonneg l -> 0 <= cp -> total l <= cp -> dropped cp l = [].
Proof. intros Hn Hc Ht. unfold dropped. rewrite (trim_fits KV l cp Hn Hc Ht). apply skipn_all. Qed.

(* a list that fits is left alone *)
Lemma gchk_noop (l : list E) sz cp ev : nonneg l -> sz = total l -> total l <= cp -> 0 <= cp -> cp <= MaxI64 ->
  gchk l sz cp ev = ({| lst := l; size := sz; cap := cp; evs := ev |}, [], false).
Proof.
  intros Hn Hs Ht Hc Hm. rewrite gchk_spec by (try assumption; lia).
  rewrite (dropped_fits l cp Hn Hc Ht), (trim_fits KV l cp Hn Hc Ht). cbn [length rev Z.of_nat].
  rewrite Z.add_0_r, <- Hs. reflexivity.
Qed.

(* ---------------- domain ---------------- *)
(* beyond op_ok (sizes >= 0, capacities >= 0): nothing so large that the int64 size field could wrap *)
Definition op_fit (o : op) : Prop :=
  match o with Set_ _ _ sz | SetAndGetRemoved _ _ sz | SetIfAbsent _ _ sz => sz <= B | SetCapacity c => c <= B | _ => True end.

Lemma B_vals : B = 4611686018427387903 /\ MaxI64 = 9223372036854775807 /\ P63 = 9223372036854775808.
Proof. repeat split; reflexivity. Qed.

Lemma entry_bounds c k e : Inv c -> lookup k (lst c) = Some e ->
  0 <= snd e /\ total (lst c) = snd e + total (remove_key k (lst c)) /\ 0 <= total (remove_key k (lst c)).
Proof.
  intros (Hsz & Hn & Hnd & Hc & Hle) El. destruct (lookup_some _ _ _ El) as [Hin Hk].
  split; [unfold LRU.nonneg in Hn; rewrite Forall_forall in Hn; apply Hn, Hin|].
  split; [apply total_remove; assumption|]. apply (total_nonneg KV), nonneg_remove, Hn.
Qed.

Lemma gset_like_eq c k v sz : Inv c -> cap c <= B -> 0 <= sz <= B ->
  gset_like c k v sz = (set_like c k v sz, false).
Proof.
  intros HI Hb Hs. pose proof HI as (Hsz & Hn & Hnd & Hc & Hle). destruct B_vals as (EB & EM & EP).
  unfold gset_like, set_like. destruct (lookup k (lst c)) as [e|] eqn:El.
  - destruct (entry_bounds c k e HI El) as (He0 & Ht & Hr0).
    rewrite (wrap64_id (sz - snd e)) by lia. rewrite wrap64_id by lia.
    apply gchk_eq.
    + constructor; [cbn [snd]; lia|apply nonneg_remove, Hn].
    + unfold touch. rewrite total_cons. cbn [snd]. lia.
    + unfold touch. rewrite total_cons. cbn [snd]. lia.
    + exact Hc.
  - pose proof (total_nonneg KV (lst c) Hn) as Ht0. rewrite wrap64_id by lia.
    apply gchk_eq.
    + constructor; [cbn [snd]; lia|exact Hn].
    + rewrite total_cons. cbn [snd]. lia.
    + rewrite total_cons. cbn [snd]. lia.
    + exact Hc.
Qed.

Lemma fin_ok (x : lru * list E) r : fin (x, false) r = (fst x, Some (r (snd x))).
Proof. destruct x as [c rem]. reflexivity. Qed.

(* in the domain of the property the Go-level model is the unbounded model of LRUOps.v and never panics *)
Theorem gstep_eq c o : Inv c -> cap c <= B -> op_ok o -> op_fit o ->
  gstep c o = (fst (step c o), Some (snd (step c o))).
Proof.
  intros HI Hb Hok Hfit. pose proof HI as (Hsz & Hn & Hnd & Hc & Hle). destruct B_vals as (EB & EM & EP).
  destruct o as [k|k|k|k v sz|k v sz|k v sz|k| |cp]; cbn [gstep step op_ok op_fit] in *.
  - destruct (lookup k (lst c)); reflexivity.
  - reflexivity.
  - reflexivity.
  - rewrite gset_like_eq by (try assumption; lia). rewrite fin_ok. reflexivity.
  - rewrite gset_like_eq by (try assumption; lia). rewrite fin_ok.
    destruct (set_like c k v sz) as [c' rem]. reflexivity.
  - destruct (lookup k (lst c)) as [e|] eqn:El; [reflexivity|].
    pose proof (gset_like_eq c k v sz HI Hb ltac:(lia)) as H. unfold gset_like, set_like in H. rewrite El in H.
    rewrite H, fin_ok. reflexivity.
  - destruct (lookup k (lst c)) as [e|] eqn:El; [|reflexivity].
    destruct (entry_bounds c k e HI El) as (He0 & Ht & Hr0). rewrite wrap64_id by lia. reflexivity.
  - reflexivity.
  - rewrite gchk_eq by (try assumption; lia). rewrite fin_ok. reflexivity.
Qed.

Lemma check_cap l sz cp ev : cap (fst (check l sz cp ev)) = cp.
Proof. unfold check. destruct (check_capacity KV (length l) l sz cp []) as [[l' s'] r]. reflexivity. Qed.

Lemma step_cap c o : cap (fst (step c o)) = match o with SetCapacity cp => cp | _ => cap c end.
Proof.
  destruct o as [k|k|k|k v sz|k v sz|k v sz|k| |cp]; cbn [step]; try reflexivity.
  - destruct (lookup k (lst c)); reflexivity.
  - unfold set_like. destruct (lookup k (lst c)); apply check_cap.
  - unfold set_like. destruct (lookup k (lst c)).
    + destruct (check (touch k v sz (lst c)) (size c + (sz - snd e)) (cap c) (evs c)) as [c' rem] eqn:Ec.
      change c' with (fst (c', rem)). rewrite <- Ec. apply check_cap.
    + destruct (check (((k, v), sz) :: lst c) (size c + sz) (cap c) (evs c)) as [c' rem] eqn:Ec.
      change c' with (fst (c', rem)). rewrite <- Ec. apply check_cap.
  - destruct (lookup k (lst c)); [reflexivity|apply check_cap].
  - destruct (lookup k (lst c)); reflexivity.
  - apply check_cap.
Qed.

Lemma step_cap_le c o : cap c <= B -> op_fit o -> cap (fst (step c o)) <= B.
Proof. intros Hb Hf. rewrite step_cap. destruct o; cbn [op_fit] in Hf; assumption. Qed.

(* ---------------- tiny ---------------- *)
Definition units (l : list E) : Prop := Forall (fun e => snd e = 1) l.
Definition TInv (c : lru) : Prop := Inv c /\ units (lst c).

Lemma units_lookup k l e : units l -> lookup k l = Some e -> snd e = 1.
Proof. intros Hu El. destruct (lookup_some _ _ _ El) as [Hin _]. unfold units in Hu. rewrite Forall_forall in Hu. apply Hu, Hin. Qed.

(* on a cache whose entries all have size 1 the tiny code does what the sized code does with size 1 *)
Theorem tstep_eq c o : TInv c -> cap c <= B -> tstep c o = gstep c (unit_op o).
Proof.
  intros [HI Hu] Hb. pose proof HI as (Hsz & Hn & Hnd & Hc & Hle). destruct B_vals as (EB & EM & EP).
  assert (Hupd : forall k v e, lookup k (lst c) = Some e ->
            gchk (touch k v 1 (lst c)) (wrap64 (size c + wrap64 (1 - snd e))) (cap c) (evs c) = (tupdate c k v, [], false)).
  { intros k v e El. rewrite (units_lookup k (lst c) e Hu El). destruct (entry_bounds c k e HI El) as (He0 & Ht & Hr0).
    rewrite (units_lookup k (lst c) e Hu El) in Ht.
    change (1 - 1) with 0. rewrite (wrap64_id 0) by lia. rewrite Z.add_0_r. rewrite wrap64_id by lia.
    unfold tupdate, touch. apply gchk_noop.
    - constructor; [cbn [snd]; lia|apply nonneg_remove, Hn].
    - rewrite total_cons. cbn [snd]. lia.
    - rewrite total_cons. cbn [snd]. lia.
    - exact Hc.
    - lia. }
  destruct o as [k|k|k|k v sz|k v sz|k v sz|k| |cp]; cbn [tstep gstep unit_op]; try reflexivity.
  - unfold gset_like, tadd. destruct (lookup k (lst c)) as [e|] eqn:El; [|reflexivity].
    rewrite (Hupd k v e El). reflexivity.
  - unfold gset_like, tadd. destruct (lookup k (lst c)) as [e|] eqn:El; [|reflexivity].
    rewrite (Hupd k v e El). reflexivity.
  - destruct (lookup k (lst c)) as [e|] eqn:El; [|reflexivity].
    rewrite (units_lookup k (lst c) e Hu El). reflexivity.
Qed.

Lemma units_remove k l : units l -> units (remove_key k l).
Proof. unfold units, remove_key. intros H. apply Forall_forall. intros e He. apply filter_In in He. rewrite Forall_forall in H. apply H, He. Qed.
Lemma units_trim cp l : units l -> units (trim cp l).
Proof. unfold units. intros H. rewrite (trim_dropped cp l) in H. apply Forall_app in H. tauto. Qed.

Lemma istep_units l cp ev o : units l -> units (ilist (fst (istep (l, cp, ev) (unit_op o)))).
Proof.
  intros Hu. unfold ilist.
  assert (Hfront : forall k e, lookup k l = Some e -> units (e :: remove_key k l)).
  { intros k e El. constructor; [apply (units_lookup k l e Hu El)|apply units_remove, Hu]. }
  assert (Htouch : forall k v, units (touch k v 1 l)) by (intros; constructor; [reflexivity|apply units_remove, Hu]).
  destruct o as [k|k|k|k v sz|k v sz|k v sz|k| |c0]; cbn [istep unit_op settle fst snd].
  - destruct (lookup k l) as [e|] eqn:El; cbn [fst]; [apply Hfront, El|exact Hu].
  - exact Hu.
  - exact Hu.
  - apply units_trim, Htouch.
  - apply units_trim, Htouch.
  - destruct (lookup k l) as [e|] eqn:El; cbn [fst]; [apply Hfront, El|apply units_trim, Htouch].
  - destruct (lookup k l) as [e|] eqn:El; cbn [fst]; [apply units_remove, Hu|exact Hu].
  - constructor.
  - apply units_trim, Hu.
Qed.

Lemma op_ok_unit o : op_ok o -> op_ok (unit_op o).
Proof. destruct o; cbn; auto; lia. Qed.
Lemma op_fit_unit o : op_fit o -> op_fit (unit_op o).
Proof. destruct o; cbn; auto; intros _; vm_compute; discriminate. Qed.

(* ---------------- both variants ---------------- *)
Definition MInv (v : variant) (c : lru) : Prop :=
  match v with VStd => Inv c | VTiny => TInv c end /\ cap c <= B.
Lemma MInv_Inv v c : MInv v c -> Inv c.
Proof. destruct v; intros [H _]; [exact H|exact (proj1 H)]. Qed.

Lemma abs_lst c s : abs c = s -> lst c = ilist s.
Proof. intros <-. reflexivity. Qed.

Theorem mstep_refines v c o : MInv v c -> op_ok o -> op_fit o ->
  abs (fst (mstep v c o)) = fst (istep (abs c) (norm v o)) /\
  snd (mstep v c o) = Some (snd (istep (abs c) (norm v o))) /\
  MInv v (fst (mstep v c o)).
Proof.
  intros [HI Hb] Hok Hfit. destruct v; cbn [mstep norm].
  - rewrite (gstep_eq c o HI Hb Hok Hfit). cbn [fst snd].
    destruct (step_refines c o HI Hok) as (A & R & I).
    split; [exact A|]. split; [now rewrite R|]. split; [exact I|apply step_cap_le; assumption].
  - destruct HI as [HI Hu]. rewrite (tstep_eq c o (conj HI Hu) Hb).
    pose proof (op_ok_unit o Hok) as Hok'. pose proof (op_fit_unit o Hfit) as Hfit'.
    rewrite (gstep_eq c (unit_op o) HI Hb Hok' Hfit'). cbn [fst snd].
    destruct (step_refines c (unit_op o) HI Hok') as (A & R & I).
    split; [exact A|]. split; [now rewrite R|]. split; [|apply step_cap_le; assumption].
    split; [exact I|]. rewrite (abs_lst _ _ A). unfold abs. apply istep_units, Hu.
Qed.

(* ---------------- every history ---------------- *)
Fixpoint mrun (v : variant) (c : lru) (ops : list op) : lru * list gout :=
  match ops with
  | [] => (c, [])
  | o :: r => let '(c1, x) := mstep v c o in let '(c2, xs) := mrun v c1 r in (c2, x :: xs)
  end.

Definition op_dom (o : op) : Prop := op_ok o /\ op_fit o.

Theorem mrun_refines v ops : forall c, MInv v c -> Forall op_dom ops ->
  abs (fst (mrun v c ops)) = fst (irun (abs c) (map (norm v) ops)) /\
  snd (mrun v c ops) = map Some (snd (irun (abs c) (map (norm v) ops))) /\
  MInv v (fst (mrun v c ops)).
Proof.
  induction ops as [|o ops IH]; intros c HI Hd; [cbn; auto|].
  inversion Hd as [|? ? [Hok Hfit] Hd']; subst.
  destruct (mstep_refines v c o HI Hok Hfit) as (A & R & I).
  cbn [mrun irun map]. destruct (mstep v c o) as [c1 x]. destruct (istep (abs c) (norm v o)) as [s1 y].
  cbn [fst snd] in A, R, I. subst s1 x.
  destruct (IH c1 I Hd') as (A' & R' & I'). destruct (mrun v c1 ops) as [c2 xs].
  destruct (irun (abs c1) (map (norm v) ops)) as [s2 ys]. cbn [fst snd map] in *. subst. auto.
Qed.

Lemma new_MInv v cp : 0 <= cp <= B -> MInv v (new_lru cp).
Proof.
  intros H. split; [|cbn; lia]. destruct v; [apply new_inv; lia|]. split; [apply new_inv; lia|constructor].
Qed.

(* ---------------- what the accessors return (definitions in C04_Model.v) ---------------- *)
Lemma observables_abs c : size c = total (lst c) ->
  keys_of c = ikeys (abs c) /\ items_of c = iitems (abs c) /\ stats_of c = istats (abs c).
Proof. intros H. unfold keys_of, items_of, stats_of, ikeys, iitems, istats, ilist, abs. cbn [fst snd]. rewrite H. auto. Qed.

Lemma units_total l : units l -> total l = Z.of_nat (length l).
Proof. induction 1 as [|e l He _ IH]; [reflexivity|]. rewrite total_cons, He, IH. cbn [length]. lia. Qed.

(* ---------------- facts about the ideal cache itself ---------------- *)
(* what is kept is the longest prefix (most recently used entries) that fits: the first dropped entry does not fit *)
Lemma trim_maximal : forall l cp x d, nonneg l -> 0 <= cp -> dropped cp l = x :: d -> cp < total (trim cp l) + snd x.
Proof.
  induction l as [|y l IH]; intros cp x d Hn Hc Hd.
  - unfold dropped in Hd. cbn in Hd. discriminate.
  - inversion Hn as [|? ? Hy Hn']; subst. unfold dropped in Hd. cbn [LRU.trim] in *.
    destruct (snd y <=? cp) eqn:Ey.
    + apply Z.leb_le in Ey. cbn [length skipn] in Hd. rewrite total_cons.
      specialize (IH (cp - snd y) x d Hn' ltac:(lia) Hd). lia.
    + apply Z.leb_gt in Ey. cbn [length skipn] in Hd. inversion Hd; subst. cbn. lia.
Qed.

(* the eviction counter grows exactly by the number of evicted entries; evicted values come least recently used first *)
Lemma settle_spec l cp ev :
  settle l cp ev = ((trim cp l, cp, ev + Z.of_nat (length (dropped cp l))), rev (dropped cp l)) /\ l = trim cp l ++ dropped cp l.
Proof. split; [reflexivity|apply trim_dropped]. Qed.

(* recency: a hit of Get puts the entry first; Peek and Exist leave the cache as it is *)
Lemma get_front v c k e : lookup k (lst c) = Some e ->
  lst (fst (mstep v c (Get k))) = e :: remove_key k (lst c) /\ snd (mstep v c (Get k)) = Some (RVal (Some (valof e))).
Proof. intros El. destruct v; cbn [mstep gstep tstep]; rewrite El; auto. Qed.
Lemma peek_exist_unchanged v c k : fst (mstep v c (Peek k)) = c /\ fst (mstep v c (Exist k)) = c.
Proof. destruct v; auto. Qed.

(* an item larger than the capacity evicts everything including itself (sized cache) *)
Lemma oversize_empties c k v sz : Inv c -> cap c <= B -> cap c < sz <= B ->
  lst (fst (gstep c (Set_ k v sz))) = [] /\ size (fst (gstep c (Set_ k v sz))) = 0.
Proof.
  intros HI Hb Hs. pose proof HI as (Hsz & Hn & Hnd & Hc & Hle).
  assert (Hok : op_ok (Set_ k v sz)) by (cbn; lia). assert (Hfit : op_fit (Set_ k v sz)) by (cbn; lia).
  destruct (mstep_refines VStd c (Set_ k v sz) (conj HI Hb) Hok Hfit) as (A & _ & I).
  cbn [mstep norm] in A, I. destruct I as [I _].
  assert (El : lst (fst (gstep c (Set_ k v sz))) = []).
  { rewrite (abs_lst _ _ A). unfold abs, ilist. cbn [istep settle fst]. apply oversize. lia. }
  split; [exact El|]. destruct I as (Hs' & _). rewrite Hs', El. reflexivity.
Qed.

(* outside the domain the bound is lost: one item of size 2^63-1 next to a small one wraps the running size *)
Example guard_needed :
  let c := fst (mrun VStd (new_lru 10) [Set_ 1 0 5; Set_ 2 0 MaxI64]) in
  keys_of c = [2; 1] /\ size c < 0 /\ cap c = 10.
Proof. vm_compute. repeat split; reflexivity. Qed.

Print Assumptions mrun_refines.
