(* C08 core: the dense and the sparse traversal of one word give the first min(n, Len) members *)
From Coq Require Import List Bool ZArith Lia Arith.
Import ListNotations.

Definition getb (w : list bool) (i : nat) : bool := nth i w false.
Fixpoint clearb (w : list bool) (i : nat) : list bool :=
  match w, i with
  | [], _ => []
  | _ :: r, O => false :: r
  | b :: r, S j => b :: clearb r j
  end.
Definition is_zero (w : list bool) : bool := forallb negb w.
Fixpoint ctz (w : list bool) : nat := match w with [] => O | true :: _ => O | false :: r => S (ctz r) end.
Fixpoint popcount (w : list bool) : nat := match w with [] => O | b :: r => (if b then 1 else 0) + popcount r end.

Open Scope Z_scope.

(* for i := 0; i < 64; i++ { if w&tab[i] != 0 { if c >= n || c >= l {break}; emit i; c++; w &^= tab[i]; if w == 0 {break} } } *)
Fixpoint dense_loop (fuel i : nat) (w : list bool) (n l c : Z) (acc : list nat) : list nat * Z :=
  match fuel with
  | O => (acc, c)
  | S f =>
    if getb w i then
      if (c >=? n) || (c >=? l) then (acc, c)
      else let w' := clearb w i in
           if is_zero w' then (acc ++ [i], c + 1) else dense_loop f (S i) w' n l (c + 1) (acc ++ [i])
    else dense_loop f (S i) w n l c acc
  end.

(* for w != 0 { i = ctz(w); if c >= n || c >= l {break}; emit i; c++; w &^= tab[i] } *)
Fixpoint sparse_loop (fuel : nat) (w : list bool) (n l c : Z) (acc : list nat) : list nat * Z :=
  match fuel with
  | O => (acc, c)
  | S f =>
    if is_zero w then (acc, c) else
    let i := ctz w in
    if (c >=? n) || (c >=? l) then (acc, c)
    else sparse_loop f (clearb w i) n l (c + 1) (acc ++ [i])
  end.

Definition iter_fwd (magic : Z) (w : list bool) (n : Z) : list nat * Z :=
  let l := Z.of_nat (popcount w) in
  if l =? 0 then ([], 0)
  else if magic <? l then dense_loop (length w) 0 w n l 0 [] else sparse_loop (length w) w n l 0 [].

(* members from index i on, ascending *)
Fixpoint members_from (i : nat) (w : list bool) : list nat :=
  match w with [] => [] | b :: r => (if b then [i] else []) ++ members_from (S i) r end.
Definition members w := members_from 0 w.

Definition take (k : Z) (l : list nat) := firstn (Z.to_nat k) l.

(* ---------- facts about the bit-list primitives ---------- *)
Lemma is_zero_app a b : is_zero (a ++ b) = is_zero a && is_zero b.
Proof. unfold is_zero. apply forallb_app. Qed.

Lemma is_zero_members i w : is_zero w = true <-> members_from i w = [].
Proof.
  revert i; induction w as [|b r IH]; intros i; cbn; [tauto|].
  destruct b; cbn.
  - split; discriminate.
  - apply IH.
Qed.

Lemma popcount_members i w : popcount w = length (members_from i w).
Proof. revert i; induction w as [|b r IH]; intros i; cbn; [reflexivity|]. destruct b; cbn; now rewrite (IH (S i)). Qed.

Lemma getb_app pre b r : getb (pre ++ b :: r) (length pre) = b.
Proof. unfold getb. rewrite app_nth2 by lia. now rewrite Nat.sub_diag. Qed.

Lemma clearb_app pre b r : clearb (pre ++ b :: r) (length pre) = pre ++ false :: r.
Proof. induction pre as [|p pre IH]; cbn; [reflexivity|]. now rewrite IH. Qed.

Lemma is_zero_false_prefix pre : Forall (fun b => b = false) pre -> is_zero pre = true.
Proof. unfold is_zero. induction 1 as [|b pre Hb _ IH]; cbn; [reflexivity|]. now rewrite Hb, IH. Qed.

Lemma take_nonpos k l : k <= 0 -> take k l = [].
Proof. intros H. unfold take. replace (Z.to_nat k) with O by lia. reflexivity. Qed.
Lemma take_cons k x l : 1 <= k -> take k (x :: l) = x :: take (k - 1) l.
Proof. intros H. unfold take. replace (Z.to_nat k) with (S (Z.to_nat (k - 1))) by lia. reflexivity. Qed.

(* ---------- the dense traversal ---------- *)
Lemma geb_false c l : c < l -> (c >=? l) = false.
Proof. intros H. rewrite Z.geb_leb. apply Z.leb_gt. exact H. Qed.

Lemma dense_spec : forall rest pre n l c acc,
  Forall (fun b => b = false) pre ->
  l = c + Z.of_nat (length (members_from (length pre) rest)) ->
  dense_loop (length rest) (length pre) (pre ++ rest) n l c acc =
  (acc ++ take (n - c) (members_from (length pre) rest),
   c + Z.of_nat (length (take (n - c) (members_from (length pre) rest)))).
Proof.
  induction rest as [|b r IH]; intros pre n l c acc Hpre Hl.
  - cbn [length dense_loop members_from]. unfold take. rewrite firstn_nil, app_nil_r. cbn [length]. f_equal. lia.
  - cbn [length dense_loop]. rewrite getb_app.
    assert (Hpre' : Forall (fun b => b = false) (pre ++ [false])) by (apply Forall_app; split; auto).
    assert (Hlen : length (pre ++ [false]) = S (length pre)) by (rewrite app_length; cbn; lia).
    assert (Hw : pre ++ false :: r = (pre ++ [false]) ++ r) by now rewrite <- app_assoc.
    destruct b.
    + cbn [members_from app] in *. set (M := members_from (S (length pre)) r) in *.
      cbn [length] in Hl.
      destruct (c >=? n) eqn:Ecn.
      * cbn [orb]. apply Z.geb_le in Ecn. rewrite take_nonpos by lia. rewrite app_nil_r. cbn. f_equal. lia.
      * rewrite geb_false by lia. cbn [orb].
        rewrite Z.geb_leb in Ecn. apply Z.leb_gt in Ecn.
        rewrite take_cons by lia. rewrite clearb_app.
        rewrite is_zero_app, (is_zero_false_prefix pre Hpre). cbn [andb is_zero forallb negb].
        fold (is_zero r).
        destruct (is_zero r) eqn:Ez.
        -- apply (is_zero_members (S (length pre))) in Ez. fold M in Ez. rewrite Ez.
           unfold take. rewrite firstn_nil. cbn. reflexivity.
        -- rewrite Hw. rewrite <- Hlen. rewrite IH; auto.
           ++ rewrite Hlen. fold M. replace (n - (c + 1)) with (n - c - 1) by lia.
              rewrite <- app_assoc. cbn [app length]. f_equal. lia.
           ++ rewrite Hlen. fold M. lia.
    + cbn [members_from app] in *. rewrite Hw. rewrite <- Hlen. rewrite IH; auto; rewrite Hlen; auto.
Qed.

(* ---------- the sparse traversal ---------- *)
Lemma members_ctz : forall w i, is_zero w = false ->
  members_from i w = (i + ctz w)%nat :: members_from i (clearb w (ctz w)).
Proof.
  induction w as [|b r IH]; intros i Hz; [discriminate|].
  destruct b; cbn [ctz clearb members_from app].
  - now rewrite Nat.add_0_r.
  - cbn in Hz. rewrite (IH (S i) Hz). f_equal. lia.
Qed.

Lemma sparse_spec : forall fuel w n l c acc,
  (length (members w) <= fuel)%nat ->
  l = c + Z.of_nat (length (members w)) ->
  sparse_loop fuel w n l c acc =
  (acc ++ take (n - c) (members w), c + Z.of_nat (length (take (n - c) (members w)))).
Proof.
  induction fuel as [|f IH]; intros w n l c acc Hf Hl; cbn [sparse_loop].
  - destruct (members w); [|cbn in Hf; lia]. unfold take. rewrite firstn_nil, app_nil_r. cbn. f_equal. lia.
  - destruct (is_zero w) eqn:Ez.
    + apply (is_zero_members 0) in Ez. unfold members. rewrite Ez. unfold take. rewrite firstn_nil, app_nil_r. cbn. f_equal. lia.
    + unfold members in *. rewrite (members_ctz w 0 Ez) in *. cbn [Nat.add] in *.
      set (M := members_from 0 (clearb w (ctz w))) in *. cbn [length] in Hf, Hl.
      destruct (c >=? n) eqn:Ecn.
      * cbn [orb]. apply Z.geb_le in Ecn. rewrite take_nonpos by lia. rewrite app_nil_r. cbn. f_equal. lia.
      * rewrite geb_false by lia. cbn [orb]. rewrite Z.geb_leb in Ecn. apply Z.leb_gt in Ecn.
        rewrite take_cons by lia. rewrite IH; [| fold M; lia | fold M; lia].
        fold M. replace (n - (c + 1)) with (n - c - 1) by lia.
        rewrite <- app_assoc. cbn [app length]. f_equal. lia.
Qed.

(* ---------- the property for one word: both branches, every n, every threshold ---------- *)
Theorem iter_fwd_spec magic w n :
  iter_fwd magic w n = (take n (members w), Z.of_nat (length (take n (members w)))).
Proof.
  unfold iter_fwd.
  assert (Hp : popcount w = length (members w)) by apply popcount_members.
  destruct (Z.of_nat (popcount w) =? 0) eqn:E0.
  - apply Z.eqb_eq in E0. destruct (members w); [|cbn in Hp; lia]. unfold take. now rewrite firstn_nil.
  - destruct (magic <? Z.of_nat (popcount w)).
    + pose proof (dense_spec w [] n (Z.of_nat (popcount w)) 0 [] (Forall_nil _)) as H.
      cbn [length app] in H. rewrite H by (fold (members w); lia).
      fold (members w). now rewrite Z.sub_0_r.
    + rewrite sparse_spec; [now rewrite Z.sub_0_r | rewrite <- Hp | lia].
      clear. induction w as [|b r IH]; cbn; [lia|]. destruct b; lia.
Qed.

Corollary iter_fwd_magic_independent m1 m2 w n : iter_fwd m1 w n = iter_fwd m2 w n.
Proof. now rewrite !iter_fwd_spec. Qed.

Corollary iter_fwd_count magic w n :
  snd (iter_fwd magic w n) = Z.min (Z.max n 0) (Z.of_nat (popcount w)).
Proof.
  rewrite iter_fwd_spec. cbn [snd]. unfold take, members. rewrite firstn_length, <- popcount_members. lia.
Qed.
Print Assumptions iter_fwd_spec.
