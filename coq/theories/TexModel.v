(* C11: the concrete model of tex.Buffer (tex/buffer.go): storage, read offset, last-read kind, capacity, the five
   grow paths, and every public operation, branch for branch.  Panics are first-class outcomes (status 900) and the
   state a recovered panic leaves behind is modelled too, because callers (and the harness) keep using the buffer. *)
From Coq Require Import ZArith List Lia Bool Arith.
Import ListNotations.
Require Import ReWrite C11_Utf8.

(* bytes = b.buf[0:len]; off = b.off; lastr = b.lastRead (-1 opRead, 0 opInvalid, 1..4 opReadRuneN);
   cap = cap(b.buf); isnil = (b.buf == nil) *)
Record buf := { bytes : list Z; off : nat; lastr : Z; cap : nat; isnil : bool }.

Inductive op :=
  | Write (p : list Z) | WriteString (p : list Z) | WriteByte (c : Z) | WriteRune (r : Z)
  | Read (n : nat) | ReadByte | ReadRune | UnreadByte | UnreadRune | Next (n : Z)
  | Truncate (n : Z) | Reset | Grow (n : Z)
  | ReadFrom (script : list (list Z * Z))   (* what the reader answers call by call: (bytes, e); e = 0 nil, 1 io.EOF,
                                               -1 a negative count, other = the caller's error number e; after the
                                               script the reader answers (0, io.EOF) *)
  | WriteTo (m : Z) (e : Z)                 (* what the writer answers: count m and error number e (0 = nil) *)
  | OLen | OBytes | OString | OCap          (* queries *)
  | ReWrite (pos : Z) (p : list Z)
  | ONil (m : Z).                           (* a method called on a NIL *Buffer (the buffer under test is not touched):
                                               m = 0 String(), which answers "<nil>"; otherwise Len() - a nil dereference *)

(* observable result of one call: status and data.
   status: 0 ok, 901 io.EOF, 902 the Unread* error, 903 io.ErrShortWrite, 1000+e the caller's error e;
   a panic is classed by its value: 900 a runtime index / slice-bounds error, 904 ErrTooLarge, 905 Grow's
   "negative count", 906 "truncation out of range", 907 errNegativeRead, 908 "invalid Write count" *)
Definition obs := (Z * list Z)%type.
Definition st_ok : Z := 0.
Definition st_panic : Z := 900.
Definition st_too_large : Z := 904.
Definition st_neg_count : Z := 905.
Definition st_trunc : Z := 906.
Definition st_neg_read : Z := 907.
Definition st_bad_write : Z := 908.
Definition st_runtime : Z := 909.            (* any other runtime error, e.g. a nil pointer dereference *)
Definition nil_string : list Z := [60; 110; 105; 108; 62]%Z.   (* "<nil>" *)
(* the largest int, and the size beyond which make([]byte, n) certainly fails (runtime maxAlloc: 2^48 on
   linux/amd64; a parameter of the model - the harness only generates sizes that are far on either side) *)
Definition max_int : Z := 9223372036854775807.
Definition max_alloc : Z := 281474976710656.
Definition st_eof : Z := 901.
Definition st_unread : Z := 902.
Definition st_short : Z := 903.
Definition st_user (e : Z) : Z := (1000 + e)%Z.
Definition zn (n : nat) : Z := Z.of_nat n.

Definition blen (b : buf) := (length (bytes b) - off b)%nat.
Definition live (b : buf) := skipn (off b) (bytes b).
Definition reset (b : buf) := {| bytes := []; off := 0; lastr := 0%Z; cap := cap b; isnil := isnil b |}.
Definition zeros (n : nat) := repeat 0%Z n.
Definition min_read : nat := 512.
Definition small_buffer_size : nat := 64.

(* grow(n): returns the buffer with len = m + n and the write index m *)
Definition grow (b0 : buf) (n : nat) : buf * nat :=
  let m := blen b0 in
  let b := if Nat.eqb m 0 && negb (Nat.eqb (off b0) 0) then reset b0 else b0 in
  let l := length (bytes b) in
  if Nat.leb n (cap b - l) then                                                    (* reslice *)
    ({| bytes := bytes b ++ zeros n; off := off b; lastr := lastr b; cap := cap b; isnil := isnil b |}, l)
  else if isnil b && Nat.leb n small_buffer_size then                               (* small first allocation *)
    ({| bytes := zeros n; off := 0; lastr := lastr b; cap := small_buffer_size; isnil := false |}, O)
  else
    let c := cap b in
    if Nat.leb n (c / 2 - m) then                                                   (* slide down *)
      ({| bytes := live b ++ zeros n; off := 0; lastr := lastr b; cap := c; isnil := isnil b |}, m)
    else                                                                            (* reallocate 2c+n *)
      ({| bytes := live b ++ zeros n; off := 0; lastr := lastr b; cap := 2 * c + n; isnil := false |}, m).

(* grow(n) panics with ErrTooLarge instead of returning: after the reset-if-empty step (b is the buffer after it)
   none of reslice / small allocation / slide applies and either the overflow guard `c > maxInt-c-n` fires or
   makeSlice(2c+n) fails (its deferred recover turns the runtime panic of make into ErrTooLarge).
   Everything is compared in Z: n may be far beyond anything a nat should hold. *)
Definition reset_if_empty (b : buf) : buf :=
  if Nat.eqb (blen b) 0 && negb (Nat.eqb (off b) 0) then reset b else b.
Definition too_large (b : buf) (n : Z) : bool :=
  let c := Z.of_nat (cap b) in
  negb (n <=? Z.of_nat (cap b - length (bytes b)))%Z
  && negb (isnil b && (n <=? Z.of_nat small_buffer_size)%Z)
  && negb (n <=? Z.of_nat (cap b / 2 - blen b))%Z
  && ((max_int - c - n <? c)%Z || (max_alloc <? 2 * c + n)%Z).

(* Write, WriteByte, WriteString, WriteRune try the reslice FIRST and call grow only when it fails:
   an emptied buffer whose offset is not 0 is therefore NOT reset by a write that still fits *)
Definition grow_for_write (b : buf) (n : nat) : buf * nat :=
  let l := length (bytes b) in
  if Nat.leb n (cap b - l)
  then ({| bytes := bytes b ++ zeros n; off := off b; lastr := lastr b; cap := cap b; isnil := isnil b |}, l)
  else grow b n.

Definition set_bytes (b : buf) (l : list Z) := {| bytes := l; off := off b; lastr := lastr b; cap := cap b; isnil := isnil b |}.
Definition write_at (b : buf) (m : nat) (p : list Z) : buf := set_bytes b (firstn m (bytes b) ++ p).
Definition set_last (b : buf) (v : Z) := {| bytes := bytes b; off := off b; lastr := v; cap := cap b; isnil := isnil b |}.
Definition set_off (b : buf) (o : nat) (v : Z) := {| bytes := bytes b; off := o; lastr := v; cap := cap b; isnil := isnil b |}.

(* the loop of ReadFrom: grow(MinRead), offer buf[i:cap] to the reader, keep what it delivered *)
Fixpoint read_from (b : buf) (sc : list (list Z * Z)) (n : Z) : buf * obs :=
  let '(b1, i) := grow b min_read in
  let b2 := set_bytes b1 (firstn i (bytes b1)) in
  match sc with
  | [] => (b2, (st_ok, [n]))                                          (* (0, io.EOF): return n, nil *)
  | (chunk, e) :: sc' =>
    if (e =? -1)%Z then (b2, (st_neg_read, []))                       (* m < 0: panic(errNegativeRead) *)
    else
      let k := Nat.min (length chunk) (cap b2 - i) in                 (* the reader copies into buf[i:cap] *)
      let b3 := set_bytes b2 (bytes b2 ++ firstn k chunk) in
      let n' := (n + zn k)%Z in
      if (e =? 1)%Z then (b3, (st_ok, [n']))
      else if (e =? 0)%Z then read_from b3 sc' n'
      else (b3, (st_user e, [n']))
  end.

(* WriteRune: a rune the test classifies as a single byte goes through WriteByte(byte(r)) *)
Definition write_rune (is_byte : Z -> bool) (b : buf) (r : Z) : buf * obs :=
  if is_byte r then
    let '(b1, m) := grow_for_write (set_last b 0%Z) 1 in (write_at b1 m [(r mod 256)%Z], (st_ok, [1%Z]))
  else
    let '(b1, m) := grow_for_write (set_last b 0%Z) 4 in                                 (* utf8.UTFMax *)
    let enc := encode_rune r in
    (write_at b1 m enc, (st_ok, [zn (length enc)])).
(* the code after commit 6078bb8: `if uint32(r) < utf8.RuneSelf` *)
Definition rune_is_byte (r : Z) : bool := (uint32 r <? 128)%Z.
(* the code before it: `if r < utf8.RuneSelf`, a signed comparison (kept for write_rune_signed_refuted) *)
Definition rune_is_byte_signed (r : Z) : bool := (r <? 128)%Z.

Definition step_gen (is_byte : Z -> bool) (b : buf) (o : op) : buf * obs :=
  match o with
  | Write p | WriteString p =>
      let '(b1, m) := grow_for_write (set_last b 0%Z) (length p) in (write_at b1 m p, (st_ok, [zn (length p)]))
  | WriteByte c =>
      let '(b1, m) := grow_for_write (set_last b 0%Z) 1 in (write_at b1 m [c], (st_ok, []))
  | WriteRune r => write_rune is_byte b r
  | Read n =>
      let b := set_last b 0%Z in
      if Nat.eqb (blen b) 0 then (reset b, (if Nat.eqb n 0 then st_ok else st_eof, [0%Z]))
      else let k := Nat.min n (blen b) in
           (set_off b (off b + k) (if Nat.eqb k 0 then 0%Z else (-1)%Z), (st_ok, zn k :: firstn k (live b)))
  | ReadByte =>
      if Nat.eqb (blen b) 0 then (reset b, (st_eof, [0%Z]))
      else (set_off b (S (off b)) (-1)%Z, (st_ok, firstn 1 (live b)))
  | ReadRune =>
      if Nat.eqb (blen b) 0 then (reset b, (st_eof, [0%Z; 0%Z]))
      else
        let c := hd 0%Z (live b) in
        if (c <? 128)%Z then (set_off b (S (off b)) 1%Z, (st_ok, [c; 1%Z]))
        else let '(r, n) := decode_rune (live b) in
             (set_off b (off b + n) (zn n), (st_ok, [r; zn n]))
  | UnreadByte =>
      if (lastr b =? 0)%Z then (b, (st_unread, []))
      else (set_off b (if Nat.eqb (off b) 0 then 0 else off b - 1) 0%Z, (st_ok, []))
  | UnreadRune =>
      if (lastr b <=? 0)%Z then (b, (st_unread, []))
      else (set_off b (if (lastr b <=? zn (off b))%Z then off b - Z.to_nat (lastr b) else off b) 0%Z, (st_ok, []))
  | Next n =>
      if (n <? 0)%Z then (set_last b 0%Z, (st_panic, []))
      else let k := Nat.min (Z.to_nat n) (blen b) in
           (set_off b (off b + k) (if Nat.eqb k 0 then 0%Z else (-1)%Z), (st_ok, firstn k (live b)))
  | Truncate n =>
      if (n =? 0)%Z then (reset b, (st_ok, []))
      else if (n <? 0)%Z || (zn (blen b) <? n)%Z then (set_last b 0%Z, (st_trunc, []))
      else ({| bytes := firstn (off b + Z.to_nat n) (bytes b); off := off b; lastr := 0%Z; cap := cap b; isnil := isnil b |}, (st_ok, []))
  | Reset => (reset b, (st_ok, []))
  | Grow n =>
      if (n <? 0)%Z then (b, (st_neg_count, []))
      else if too_large (reset_if_empty b) n then (reset_if_empty b, (st_too_large, []))    (* panic(ErrTooLarge) inside grow *)
      else let '(b1, m) := grow b (Z.to_nat n) in (set_bytes b1 (firstn m (bytes b1)), (st_ok, []))
  | ReadFrom sc => read_from (set_last b 0%Z) sc 0%Z
  | WriteTo m e =>
      let b := set_last b 0%Z in
      let nb := blen b in
      if Nat.eqb nb 0 then (reset b, (st_ok, [0%Z]))                                       (* the writer is not called *)
      else if (zn nb <? m)%Z then (b, (st_bad_write, (-1)%Z :: live b))                     (* invalid Write count *)
      else
        let b' := set_off b (off b + Z.to_nat m) 0%Z in
        if negb (e =? 0)%Z then (b', (st_user e, m :: live b))
        else if negb (m =? zn nb)%Z then (b', (st_short, m :: live b))
        else (reset b', (st_ok, m :: live b))
  | OLen => (b, (st_ok, [zn (blen b)]))
  | OBytes | OString => (b, (st_ok, live b))
  | OCap => (b, (st_ok, []))                                                               (* Cap() is not compared *)
  | ReWrite pos p =>
      match rewrite_at (bytes b) pos p with
      | Done l => (set_bytes b l, (st_ok, []))
      | Panic => (b, (st_panic, []))
      end
  | ONil m => (b, if (m =? 0)%Z then (st_ok, nil_string) else (st_runtime, []))
  end.

Definition step := step_gen rune_is_byte.
Definition step_prefix := step_gen rune_is_byte_signed.      (* tex.Buffer before commit 6078bb8 *)

Definition zero_buf := {| bytes := []; off := 0; lastr := 0%Z; cap := 0; isnil := true |}.
Definition new_buf (data : list Z) (c : nat) (nl : bool) := {| bytes := data; off := 0; lastr := 0%Z; cap := c; isnil := nl |}.

(* how a buffer comes into being.  The capacity a constructor ends up with is read off the implementation
   (Cap() right after construction) and fed to the model as an input: it is decided by the Go runtime
   (size classes of []byte(s)), and only its lower bound is part of the property (NewSizedBuffer). *)
Inductive init :=
  | IZero                                               (* var b tex.Buffer *)
  | INew (data : list Z) (c : nat) (nl : bool)          (* NewBuffer(s) with len(s) = |data|, cap(s) = c, s == nil iff nl *)
  | INewString (data : list Z) (c : nat) (nl : bool)    (* NewBufferString; c = Cap(), nl = (Bytes() == nil) as observed *)
  | INewSized (size : Z) (c : option nat).              (* NewSizedBuffer(size); None = it panicked *)

Definition init_panics (i : init) : bool := match i with INewSized size _ => (size <? 0)%Z | _ => false end.
Definition init_panicked (i : init) : bool := match i with INewSized _ None => true | _ => false end.
Definition init_wf (i : init) : bool :=
  match i with
  | IZero => true
  | INew data c nl => Nat.leb (length data) c && (negb nl || (Nat.eqb (length data) 0 && Nat.eqb c 0))
  | INewString data c nl => Nat.leb (length data) c && (negb nl || (Nat.eqb (length data) 0 && Nat.eqb c 0))
  | INewSized size _ => true
  end.
Definition init_buf (i : init) : buf :=
  match i with
  | IZero => zero_buf
  | INew data c nl => new_buf data c nl
  | INewString data c nl => new_buf data c nl
  | INewSized _ (Some c) => new_buf [] c false
  | INewSized _ None => zero_buf
  end.
Definition init_data (i : init) : list Z :=
  match i with INew data _ _ | INewString data _ _ => data | _ => [] end.

(* what a caller sees after each call: the result, Len() and Bytes() *)
Definition view := (obs * (nat * list Z))%type.
Fixpoint run_gen (is_byte : Z -> bool) (b : buf) (l : list op) : list view :=
  match l with [] => [] | o :: r => let '(b', ob) := step_gen is_byte b o in (ob, (blen b', live b')) :: run_gen is_byte b' r end.
Definition run := run_gen rune_is_byte.
