(* C11: the concrete model of tex.Buffer (storage, read offset, last-read kind, capacity, the five grow paths) *)
From Coq Require Import ZArith List Lia Bool Arith.
Import ListNotations.

Record buf := { bytes : list Z; off : nat; lastr : Z; cap : nat; isnil : bool }.
Inductive op := Write (p : list Z) | WriteByte (c : Z) | Read (n : nat) | ReadByte | Next (n : Z)
              | UnreadByte | Truncate (n : Z) | Reset | Grow (n : Z).
(* observable result of one call: a tag and data; 900 = panic *)
Definition obs := (Z * list Z)%type.

Definition blen (b : buf) := (length (bytes b) - off b)%nat.
Definition live (b : buf) := skipn (off b) (bytes b).
Definition reset (b : buf) := {| bytes := []; off := 0; lastr := 0%Z; cap := cap b; isnil := isnil b |}.
Definition zeros (n : nat) := repeat 0%Z n.

(* grow(n): returns the buffer with len = m + n and the write index m *)
Definition grow (b0 : buf) (n : nat) : buf * nat :=
  let m := blen b0 in
  let b := if Nat.eqb m 0 && negb (Nat.eqb (off b0) 0) then reset b0 else b0 in
  let l := length (bytes b) in
  if Nat.leb n (cap b - l) then                                                    (* reslice *)
    ({| bytes := bytes b ++ zeros n; off := off b; lastr := lastr b; cap := cap b; isnil := isnil b |}, l)
  else if isnil b && Nat.leb n 64 then                                              (* small first allocation *)
    ({| bytes := zeros n; off := 0; lastr := lastr b; cap := 64; isnil := false |}, O)
  else
    let c := cap b in
    if Nat.leb n (c / 2 - m) then                                                   (* slide down *)
      ({| bytes := live b ++ zeros n; off := 0; lastr := lastr b; cap := c; isnil := isnil b |}, m)
    else                                                                            (* reallocate 2c+n *)
      ({| bytes := live b ++ zeros n; off := 0; lastr := lastr b; cap := 2 * c + n; isnil := false |}, m).

(* Write, WriteByte, WriteString, WriteRune try the reslice FIRST and call grow only when it fails:
   an emptied buffer whose offset is not 0 is therefore NOT reset by a write that still fits *)
Definition grow_for_write (b : buf) (n : nat) : buf * nat :=
  let l := length (bytes b) in
  if Nat.leb n (cap b - l)
  then ({| bytes := bytes b ++ zeros n; off := off b; lastr := lastr b; cap := cap b; isnil := isnil b |}, l)
  else grow b n.

Definition write_at (b : buf) (m : nat) (p : list Z) : buf :=
  {| bytes := firstn m (bytes b) ++ p; off := off b; lastr := lastr b; cap := cap b; isnil := isnil b |}.
Definition set_last (b : buf) (v : Z) := {| bytes := bytes b; off := off b; lastr := v; cap := cap b; isnil := isnil b |}.
Definition set_off (b : buf) (o : nat) (v : Z) := {| bytes := bytes b; off := o; lastr := v; cap := cap b; isnil := isnil b |}.

Definition tag (z : Z) (d : list Z) : obs := (z, d).
Definition step (b : buf) (o : op) : buf * obs :=
  match o with
  | Write p => let '(b1, m) := grow_for_write (set_last b 0%Z) (length p) in (write_at b1 m p, tag (Z.of_nat (length p)) [])
  | WriteByte c => let '(b1, m) := grow_for_write (set_last b 0%Z) 1 in (write_at b1 m [c], tag 0%Z [])
  | Read n =>
      let b := set_last b 0%Z in
      if Nat.eqb (blen b) 0 then (reset b, tag (if Nat.eqb n 0 then 0%Z else 901%Z) [])     (* 901 = io.EOF *)
      else let k := Nat.min n (blen b) in
           (set_off b (off b + k) (if Nat.eqb k 0 then 0%Z else (-1)%Z), tag (Z.of_nat k) (firstn k (live b)))
  | ReadByte =>
      if Nat.eqb (blen b) 0 then (reset b, tag 901%Z [])
      else (set_off b (S (off b)) (-1)%Z, tag 0%Z (firstn 1 (live b)))
  | Next n =>
      if (n <? 0)%Z then (set_last b 0%Z, tag 900%Z [])
      else let k := Nat.min (Z.to_nat n) (blen b) in
           (set_off b (off b + k) (if Nat.eqb k 0 then 0%Z else (-1)%Z), tag 0%Z (firstn k (live b)))
  | UnreadByte =>
      if (lastr b =? 0)%Z then (b, tag 902%Z [])                                          (* 902 = error *)
      else (set_off b (if Nat.eqb (off b) 0 then 0 else off b - 1) 0%Z, tag 0%Z [])
  | Truncate n =>
      if (n =? 0)%Z then (reset b, tag 0%Z [])
      else if (n <? 0)%Z || (Z.of_nat (blen b) <? n)%Z then (set_last b 0%Z, tag 900%Z [])
      else ({| bytes := firstn (off b + Z.to_nat n) (bytes b); off := off b; lastr := 0%Z; cap := cap b; isnil := isnil b |}, tag 0%Z [])
  | Reset => (reset b, tag 0%Z [])
  | Grow n =>
      if (n <? 0)%Z then (b, tag 900%Z [])
      else let '(b1, m) := grow b (Z.to_nat n) in
           ({| bytes := firstn m (bytes b1); off := off b1; lastr := lastr b1; cap := cap b1; isnil := isnil b1 |}, tag 0%Z [])
  end.

Definition zero_buf := {| bytes := []; off := 0; lastr := 0%Z; cap := 0; isnil := true |}.
Definition new_buf (data : list Z) (nil : bool) := {| bytes := data; off := 0; lastr := 0%Z; cap := length data; isnil := nil |}.

(* a case: initial data (None = zero value), then steps with the observed (obs, Len, Cap, Bytes) *)
Definition seen := (obs * (nat * nat * list Z))%type.
Fixpoint list_eqb (x y : list Z) : bool := match x, y with [], [] => true | a :: x', b :: y' => (a =? b)%Z && list_eqb x' y' | _, _ => false end.
Definition seen_eqb (a b : seen) : bool :=
  let '((t1, d1), (l1, c1, y1)) := a in let '((t2, d2), (l2, c2, y2)) := b in
  (t1 =? t2)%Z && list_eqb d1 d2 && Nat.eqb l1 l2 && Nat.eqb c1 c2 && list_eqb y1 y2.
Fixpoint check (b : buf) (l : list (op * seen)) (i : nat) : option nat :=
  match l with
  | [] => None
  | (o, s) :: r => let '(b', ob) := step b o in
                   if seen_eqb (ob, (blen b', cap b', live b')) s then check b' r (S i) else Some i
  end.
