(* C14 actor lanes (line.Line, mline.MultiLine, async.RunnerQ, async.ProcChan, pipe.NormalizeSlotIndex): the property,
   clause by clause.  Every statement about a lane is over ALL label sequences (all schedules: any number of callers,
   any placement of Stop and of context cancellation), all queue sizes, all three kinds of lane; every statement about
   an executor is over all label sequences of the lane family, all lane counts, all 64-bit hashes.
   This file contains statements closed by `exact` only. *)
From Coq Require Import List Bool Arith ZArith Lia.
Require Import Slot C14_Exec C14_Multi C14_Case C14_Sound C14_Check.
Import ListNotations.

(* ---------------- slot routing: every integer hash ---------------- *)

(* the lane index lies in [0, lanes) for every 64-bit hash, the minimum integer included, and every lane count >= 1 *)
Theorem c14_slot_in_range : forall index n, in64 index -> (1 <= n <= MaxInt)%Z -> (0 <= slot_new index n < n)%Z.
Proof. exact slot_in_range. Qed.

(* the repaired order of operations computes what the pinned code computed on every hash but the minimum integer *)
Theorem c14_slot_same_as_pinned : forall index n, in64 index -> index <> MinInt -> (1 <= n <= MaxInt)%Z -> slot_new index n = slot_old index n.
Proof. exact slot_same. Qed.

(* the pinned code on the minimum integer with 509 lanes: a negative index (defect 10, repaired) *)
Theorem c14_slot_minint_refuted : slot_old MinInt 509 = (-151)%Z /\ slot_new MinInt 509 = 151%Z.
Proof. exact slot_minint_refuted. Qed.

(* ---------------- one lane of any executor, every schedule ---------------- *)

(* calls on one lane never overlap: the callee's record is Start c, End c, Start c', End c', ... *)
Theorem c14_lane_serial : forall val k n ls s, run val (new_lane k n) ls = Some s -> serial (events s) None.
Proof. exact lane_serial. Qed.

(* the worker takes calls in the order they were accepted; the calls it starts are the ones it took, in that order, minus
   those it passed over; a call is passed over only by a runner (RunnerQ, ProcChan) and only when its context was done *)
Theorem c14_lane_fifo : forall val k n ls s, run val (new_lane k n) ls = Some s ->
  accepted s = map fst (poplog s) ++ queue s /\ started s = map fst (filter snd (poplog s)) /\
  (forall c, In (c, false) (poplog s) -> cancelled s c = true /\ k <> KLine).
Proof. exact lane_fifo. Qed.

(* Line and every MultiLine lane: calls start in exactly the order they were accepted *)
Theorem c14_line_fifo_start : forall val k n ls s, run val (new_lane k n) ls = Some s -> k = KLine -> accepted s = started s ++ queue s.
Proof. exact line_fifo_start. Qed.

(* an accepted call is executed at most once ... *)
Theorem c14_call_at_most_once : forall val k n ls s, run val (new_lane k n) ls = Some s -> NoDup (started s).
Proof. exact call_at_most_once. Qed.

(* ... and nothing but accepted calls is executed *)
Theorem c14_started_accepted : forall val k n ls s, run val (new_lane k n) ls = Some s -> forall c, In c (started s) -> In c (accepted s).
Proof. exact started_accepted. Qed.

(* a caller receives the result of its OWN completed call or its OWN context's error - never another call's result
   (ProcChan only: or ErrClosed, and then Stop was called) *)
Theorem c14_result_routed : forall val k n ls s, run val (new_lane k n) ls = Some s -> forall c a, got s c = Some a ->
  In c (accepted s) /\
  match a with
  | Val v => v = val c /\ In c (finished s)
  | CtxErr c' => c' = c /\ cancelled s c = true
  | StopErr => k = KProc /\ closed s = true
  | Weird _ => False
  end.
Proof. exact result_routed. Qed.

(* after Stop no new call is accepted - ProcChan included (defect 11, repaired) *)
Theorem c14_stop_refuses : forall val s c s', closed s = true ->
  step val s (Submit c) = Some s' -> accepted s' = accepted s /\ queue s' = queue s /\ outcome s' c = Some SClosed.
Proof. exact stop_refuses. Qed.

(* a call is accepted exactly when its caller was told so *)
Theorem c14_outcome_accepted : forall val k n ls s, run val (new_lane k n) ls = Some s -> forall c, outcome s c = Some SAcc <-> In c (accepted s).
Proof. exact outcome_accepted. Qed.

(* all queue sizes: the queue never exceeds its size (0 = unbounded) *)
Theorem c14_queue_bounded : forall val k n ls s, run val (new_lane k n) ls = Some s -> n = 0 \/ length (queue s) <= n.
Proof. exact queue_bounded. Qed.

(* RunnerQ (all three call forms share run) and ProcChan do not execute a call whose context is done when the worker takes it *)
Theorem c14_runner_checks_ctx : forall val k n ls s, run val (new_lane k n) ls = Some s -> forall s' c, k <> KLine ->
  step val s Pop = Some s' -> worker s' = Some c -> cancelled s c = false.
Proof. exact runner_checks_ctx. Qed.

(* Line / MultiLine / RunnerQ: every call accepted before Stop still completes and the lane goroutine terminates: the lane's
   own steps strictly decrease a measure (so they cannot go on for ever), and in a stopped lane where none of them is
   enabled the goroutine has exited, nothing is queued, the worker took every accepted call, and every call it started
   has completed *)
Theorem c14_internal_steps_terminate : forall val s l s', (l = Pop \/ l = Skip \/ l = Done \/ l = Exit) -> step val s l = Some s' -> measure s' < measure s.
Proof. exact internal_steps_terminate. Qed.

Theorem c14_internal_run_bounded : forall val ls s s', forallb internal ls = true -> run val s ls = Some s' -> length ls + measure s' <= measure s.
Proof. exact internal_run_bounded. Qed.

Theorem c14_stop_drains : forall val k n ls s, run val (new_lane k n) ls = Some s -> k <> KProc -> closed s = true ->
  step val s Pop = None -> step val s Skip = None -> step val s Done = None -> step val s Exit = None ->
  exited s = true /\ queue s = [] /\ accepted s = map fst (poplog s) /\ started s = finished s.
Proof. exact stop_drains. Qed.

(* for Line / MultiLine that is: every accepted call has been executed to completion *)
Theorem c14_line_stop_drains : forall val k n ls s, run val (new_lane k n) ls = Some s -> k = KLine -> closed s = true ->
  step val s Pop = None -> step val s Skip = None -> step val s Done = None -> step val s Exit = None ->
  exited s = true /\ finished s = accepted s.
Proof. exact line_stop_drains. Qed.

(* ProcChan: the goroutine terminates after Stop (calls may be left in the channel: the statement exempts ProcChan from
   "accepted before Stop completes") *)
Theorem c14_proc_stop_terminates : forall val k n ls s, run val (new_lane k n) ls = Some s -> k = KProc -> closed s = true ->
  step val s Pop = None -> step val s Skip = None -> step val s Done = None -> step val s Exit = None -> exited s = true.
Proof. exact proc_stop_terminates. Qed.

(* the pinned ProcChan (select over send / stopChan / default): a call submitted after Stop is accepted and executed *)
Theorem c14_procchan_accept_after_stop_refuted : exists s, run_prefix v2 (new_lane KProc 4) [Submit 1; Pop; Stop; Submit 2; Done; Pop; Done] = Some s
  /\ closed s = true /\ accepted s = [1; 2] /\ finished s = [1; 2].
Proof. exact procchan_accept_after_stop_refuted. Qed.

(* ---------------- the executor as a family of lanes: all lane counts, all hashes ---------------- *)

(* every lane of every reachable executor state is a reachable state of the single lane: each clause above holds lane by lane *)
Theorem c14_multi_lane_reach : forall val k lanes qsize hash_of ls F i,
  mrun val lanes hash_of (init k qsize) ls = Some F -> exists ls_i, run val (new_lane k qsize) ls_i = Some (F i).
Proof. exact multi_lane_reach. Qed.

(* a call is only ever found on the lane its hash selects: calls with equal hash always run on the same lane *)
Theorem c14_multi_routed : forall val k lanes qsize hash_of ls F i c,
  mrun val lanes hash_of (init k qsize) ls = Some F -> In c (accepted (F i)) -> i = lane_of lanes hash_of c.
Proof. exact multi_routed. Qed.

Theorem c14_multi_same_hash : forall lanes hash_of c c', hash_of c = hash_of c' -> lane_of lanes hash_of c = lane_of lanes hash_of c'.
Proof. exact multi_same_hash. Qed.

(* the goroutine that runs call c - whose index is what the callee is passed - is the lane the hash selects, and that index
   lies in [0, lanes) for every 64-bit hash (negative ones, the minimum integer) and every lane count *)
Theorem c14_multi_callee_lane : forall val k lanes qsize hash_of ls F i c, in64 (hash_of c) -> (1 <= lanes <= MaxInt)%Z ->
  mrun val lanes hash_of (init k qsize) ls = Some F -> In (EStart c) (events (F i)) -> i = lane_of lanes hash_of c /\ i < nlanes lanes.
Proof. exact multi_callee_lane. Qed.

Theorem c14_multi_serial : forall val k lanes qsize hash_of ls F i, mrun val lanes hash_of (init k qsize) ls = Some F -> serial (events (F i)) None.
Proof. exact multi_serial. Qed.

Theorem c14_multi_at_most_once : forall val k lanes qsize hash_of ls F i, mrun val lanes hash_of (init k qsize) ls = Some F -> NoDup (started (F i)).
Proof. exact multi_at_most_once. Qed.

(* no call is executed on two lanes *)
Theorem c14_multi_one_lane : forall val k lanes qsize hash_of ls F i j c,
  mrun val lanes hash_of (init k qsize) ls = Some F -> In c (started (F i)) -> In c (started (F j)) -> i = j.
Proof. exact multi_one_lane. Qed.

Theorem c14_multi_line_fifo_start : forall val k lanes qsize hash_of ls F i, k = KLine ->
  mrun val lanes hash_of (init k qsize) ls = Some F -> accepted (F i) = started (F i) ++ queue (F i).
Proof. exact multi_line_fifo_start. Qed.

Theorem c14_multi_result_routed : forall val k lanes qsize hash_of ls F i c a, mrun val lanes hash_of (init k qsize) ls = Some F ->
  got (F i) c = Some a ->
  In c (accepted (F i)) /\
  match a with
  | Val v => v = val c /\ In c (finished (F i))
  | CtxErr c' => c' = c /\ cancelled (F i) c = true
  | StopErr => k = KProc /\ closed (F i) = true
  | Weird _ => False
  end.
Proof. exact multi_result_routed. Qed.

(* Stop closes every lane, and from then on, whatever happens, no lane accepts anything *)
Theorem c14_multi_stop_closes : forall val lanes hash_of f f', mstep val lanes hash_of f MStop = Some f' -> all_closed f'.
Proof. exact multi_stop_closes. Qed.

Theorem c14_multi_stop_refuses : forall val lanes hash_of ls f f', all_closed f -> mrun val lanes hash_of f ls = Some f' ->
  all_closed f' /\ forall i, accepted (f' i) = accepted (f i).
Proof. exact multi_stop_refuses. Qed.

(* ---------------- the correspondence check ---------------- *)

(* whatever the driver accepts satisfies the monitor: for every executor, lane count, queue size, call table and trace, a
   trace that is a complete run of the lane family with the observations the model prescribes passes the monitor *)
Theorem c14_accept_sound : forall c, case_accept c = true -> case_holds c = true.
Proof. exact case_sound. Qed.

Theorem c14_matches_holds : forall x lanes qsize fifo calls tr,
  model_matches x lanes qsize calls tr = true -> holds_run x lanes fifo calls tr = true.
Proof. exact matches_holds. Qed.

(* for NormalizeSlotIndex the monitor follows from agreement with the model alone *)
Theorem c14_slot_matches_holds : forall h n r, case_matches (CSlot h n r) = true -> case_holds (CSlot h n r) = true.
Proof. exact slot_matches_holds. Qed.

Print Assumptions c14_slot_in_range.
Print Assumptions c14_slot_same_as_pinned.
Print Assumptions c14_slot_minint_refuted.
Print Assumptions c14_lane_serial.
Print Assumptions c14_lane_fifo.
Print Assumptions c14_line_fifo_start.
Print Assumptions c14_call_at_most_once.
Print Assumptions c14_started_accepted.
Print Assumptions c14_result_routed.
Print Assumptions c14_stop_refuses.
Print Assumptions c14_outcome_accepted.
Print Assumptions c14_queue_bounded.
Print Assumptions c14_runner_checks_ctx.
Print Assumptions c14_internal_steps_terminate.
Print Assumptions c14_internal_run_bounded.
Print Assumptions c14_stop_drains.
Print Assumptions c14_line_stop_drains.
Print Assumptions c14_proc_stop_terminates.
Print Assumptions c14_procchan_accept_after_stop_refuted.
Print Assumptions c14_multi_lane_reach.
Print Assumptions c14_multi_routed.
Print Assumptions c14_multi_same_hash.
Print Assumptions c14_multi_callee_lane.
Print Assumptions c14_multi_serial.
Print Assumptions c14_multi_at_most_once.
Print Assumptions c14_multi_one_lane.
Print Assumptions c14_multi_line_fifo_start.
Print Assumptions c14_multi_result_routed.
Print Assumptions c14_multi_stop_closes.
Print Assumptions c14_multi_stop_refuses.
Print Assumptions c14_accept_sound.
Print Assumptions c14_matches_holds.
Print Assumptions c14_slot_matches_holds.
