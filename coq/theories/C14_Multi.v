(* C14: an executor as a family of lanes.  mline.MultiLine = `lanes` Line lanes, a call is routed by
   NormalizeSlotIndex(hash, lanes) (Slot.slot_new), Stop closes every queue, lane goroutine i passes i to the callee.
   The single-lane executors (Line, RunnerQ, ProcChan) are the family with one lane.
   Every lane of every reachable family state is a reachable state of the single lane (C14_Exec), so each clause proved
   there holds lane by lane; calls with equal hash are only ever found on one lane, whose index is in [0, lanes). *)
From Coq Require Import List Bool Arith ZArith Lia.
Require Import Slot C14_Exec.
Import ListNotations.
Close Scope Z_scope.

Section Multi.
Variable val : nat -> nat.
Variable k : kind.
Variable lanes : Z.
Variable qsize : nat.
Variable hash_of : nat -> Z.

Definition nlanes : nat := Z.to_nat lanes.
Definition lane_of (c : nat) : nat := Z.to_nat (slot_new (hash_of c) lanes).

Inductive mlabel := MSub (c : nat) | MOn (i : nat) (l : label) | MStop.
Definition fam := nat -> lane.
Definition init : fam := fun _ => new_lane k qsize.

(* labels a lane goroutine or a caller performs on one lane; Submit goes through the router, Stop through MStop *)
Definition lane_local (l : label) : bool := match l with Submit _ => false | Stop => false | _ => true end.

Definition on (f : fam) (i : nat) (l : label) : option fam :=
  match step val (f i) l with Some s' => Some (upd f i s') | None => None end.

Definition mstep (f : fam) (l : mlabel) : option fam :=
  match l with
  | MSub c => on f (lane_of c) (Submit c)
  | MOn i l => if lane_local l && Nat.ltb i nlanes then on f i l else None
  | MStop => Some (fun i => close (f i))
  end.

Definition mrun (f : fam) (ls : list mlabel) : option fam :=
  fold_left (fun o l => match o with Some f => mstep f l | None => None end) ls (Some f).

Lemma mfold_none ls : fold_left (fun o l => match o with Some f => mstep f l | None => None end) ls None = None.
Proof. induction ls as [|l ls IH]; [reflexivity|exact IH]. Qed.

(* one family step moves each lane by at most one lane step *)
Lemma mstep_lane f l f' i : mstep f l = Some f' -> f' i = f i \/ exists lb, step val (f i) lb = Some (f' i).
Proof.
  assert (Hon : forall j lb, on f j lb = Some f' -> f' i = f i \/ exists lb, step val (f i) lb = Some (f' i)).
  { intros j lb H. unfold on in H. destruct (step val (f j) lb) as [s'|] eqn:E; [|discriminate]. inversion H; subst f'.
    destruct (upd_cases f j s' i) as [[-> E2]|[Hne E2]]; rewrite E2; [right; exists lb; exact E|left; reflexivity]. }
  destruct l as [c|j lb|]; cbn [mstep]; intros H.
  - apply (Hon _ _ H).
  - destruct (lane_local lb && Nat.ltb j nlanes); [apply (Hon _ _ H)|discriminate].
  - inversion H; subst f'. right. exists Stop. reflexivity.
Qed.

Lemma run_cons s l s1 ls s' : step val s l = Some s1 -> run val s1 ls = Some s' -> run val s (l :: ls) = Some s'.
Proof. intros E H. unfold run in *. cbn [fold_left]. rewrite E. exact H. Qed.

(* projection: lane i of a reachable family state is reached by the single lane under some label sequence *)
Theorem multi_projection ls : forall f f' i, mrun f ls = Some f' -> exists ls_i, run val (f i) ls_i = Some (f' i).
Proof.
  induction ls as [|l ls IH]; intros f f' i H; unfold mrun in H; cbn [fold_left] in H.
  - inversion H; subst. exists []. reflexivity.
  - destruct (mstep f l) as [f1|] eqn:E; [|rewrite mfold_none in H; discriminate].
    destruct (IH f1 f' i H) as [ls1 H1]. destruct (mstep_lane f l f1 i E) as [Eq|[lb Hs]].
    + rewrite Eq in H1. exists ls1. exact H1.
    + exists (lb :: ls1). apply (run_cons _ _ _ _ _ Hs H1).
Qed.

Theorem multi_lane_reach ls F i : mrun init ls = Some F -> exists ls_i, run val (new_lane k qsize) ls_i = Some (F i).
Proof. intros H. apply (multi_projection ls init F i H). Qed.

Theorem multi_lane_inv ls F i : mrun init ls = Some F -> Inv val (F i).
Proof. intros H. destruct (multi_lane_reach ls F i H) as [ls_i Hi]. apply (run_inv val ls_i _ _ (new_inv val k qsize) Hi). Qed.

(* ---- routing ---- *)
Lemma step_accepted s l s' : step val s l = Some s' ->
  (forall x, In x (accepted s') -> In x (accepted s) \/ l = Submit x) /\ (lane_local l = true -> accepted s' = accepted s).
Proof.
  destruct l as [c| | | | | |c|c fs]; cbn [step lane_local]; intros H.
  - split; [|discriminate]. destruct (mem c (seen s)); [discriminate|].
    destruct (closed s); [inversion H; subst; cbn; auto|]. destruct (full s); inversion H; subst; cbn [accepted refuse enqueue]; auto.
    intros x Hx. apply in_app_or in Hx. destruct Hx as [Hx|[->|[]]]; auto.
  - destruct (worker s); [discriminate|]. destruct (exited s); [discriminate|]. destruct (queue s) as [|c q]; [discriminate|].
    destruct (is_line (kd s) || negb (cancelled s c)); inversion H; subst; cbn; auto.
  - destruct (worker s); [discriminate|]. destruct (exited s); [discriminate|]. destruct (queue s) as [|c q]; [discriminate|].
    destruct (negb (is_line (kd s)) && cancelled s c); inversion H; subst; cbn; auto.
  - destruct (worker s); inversion H; subst; cbn; auto.
  - inversion H; subst; cbn; auto.
  - destruct (worker s); [discriminate|]. destruct (closed s); [|discriminate]. destruct (exited s); [discriminate|].
    destruct (queue s); [inversion H; subst; cbn; auto|]. destruct (is_proc (kd s)); inversion H; subst; cbn; auto.
  - inversion H; subst; cbn; auto.
  - destruct (mem c (accepted s)); [|discriminate]. destruct (got s c); [discriminate|]. destruct (ready s c fs); inversion H; subst; cbn; auto.
Qed.

Definition routed (f : fam) : Prop := forall i c, In c (accepted (f i)) -> i = lane_of c.

Lemma routed_step f l f' : routed f -> mstep f l = Some f' -> routed f'.
Proof.
  intros R H i c Hin. destruct l as [c0|j lb|]; cbn [mstep] in H.
  - unfold on in H. destruct (step val (f (lane_of c0)) (Submit c0)) as [s'|] eqn:E; [|discriminate]. inversion H; subst f'.
    destruct (upd_cases f (lane_of c0) s' i) as [[-> E2]|[Hne E2]]; rewrite E2 in Hin; [|apply R, Hin].
    destruct (step_accepted _ _ _ E) as [A _]. destruct (A c Hin) as [X|X]; [apply R, X|]. inversion X; subst. reflexivity.
  - destruct (lane_local lb && Nat.ltb j nlanes) eqn:Eg; [|discriminate]. apply andb_prop in Eg. destruct Eg as [El _].
    unfold on in H. destruct (step val (f j) lb) as [s'|] eqn:E; [|discriminate]. inversion H; subst f'.
    destruct (upd_cases f j s' i) as [[-> E2]|[Hne E2]]; rewrite E2 in Hin; [|apply R, Hin].
    destruct (step_accepted _ _ _ E) as [_ B]. rewrite (B El) in Hin. apply R, Hin.
  - inversion H; subst f'. cbn [accepted close] in Hin. apply R, Hin.
Qed.

Lemma routed_run ls : forall f f', routed f -> mrun f ls = Some f' -> routed f'.
Proof.
  induction ls as [|l ls IH]; intros f f' R H; unfold mrun in H; cbn [fold_left] in H.
  - inversion H; subst. exact R.
  - destruct (mstep f l) as [f1|] eqn:E; [|rewrite mfold_none in H; discriminate]. apply (IH f1 f' (routed_step f l f1 R E) H).
Qed.

(* a call is only ever found on the lane its hash selects *)
Theorem multi_routed ls F i c : mrun init ls = Some F -> In c (accepted (F i)) -> i = lane_of c.
Proof. intros H. apply (routed_run ls init F); [|exact H]. intros j x []. Qed.

Lemma pairs_start l c : In (EStart c) (pairs l) -> In c l.
Proof.
  induction l as [|x l IH]; cbn [pairs]; intros Hin; [destruct Hin|]. destruct Hin as [Hin|[Hin|Hin]].
  - inversion Hin. left. reflexivity.
  - discriminate.
  - right. apply IH, Hin.
Qed.

Lemma events_started s c : Inv val s -> In (EStart c) (events s) -> In c (started s).
Proof.
  intros (_ & I2 & I3 & _) Hin. rewrite I2. rewrite I3 in Hin. apply in_or_app. apply in_app_or in Hin. destruct Hin as [Hin|Hin].
  - left. apply pairs_start, Hin.
  - right. destruct (worker s) as [w|]; cbn [open_of cur] in *; [|destruct Hin]. destruct Hin as [Hin|[]]. inversion Hin. left. reflexivity.
Qed.

(* the lane whose goroutine runs call c - the index that goroutine passes to the callee - is the one the hash selects,
   and it lies in [0, lanes) for every 64-bit hash *)
Theorem multi_callee_lane ls F i c : in64 (hash_of c) -> (1 <= lanes <= MaxInt)%Z ->
  mrun init ls = Some F -> In (EStart c) (events (F i)) -> i = lane_of c /\ i < nlanes.
Proof.
  intros Hh Hl H Hin. assert (E : i = lane_of c).
  { apply (multi_routed ls F i c H). destruct (multi_lane_reach ls F i H) as [ls_i Hi].
    apply (started_accepted val k qsize ls_i (F i) Hi). apply events_started; [apply (multi_lane_inv ls F i H)|exact Hin]. }
  split; [exact E|]. subst i. unfold lane_of, nlanes. pose proof (slot_in_range (hash_of c) lanes Hh Hl) as B. lia.
Qed.

(* equal hash, same lane *)
Theorem multi_same_hash c c' : hash_of c = hash_of c' -> lane_of c = lane_of c'.
Proof. unfold lane_of. intros ->. reflexivity. Qed.

(* lane by lane, for every reachable family state: the single-lane clauses *)
Theorem multi_serial ls F i : mrun init ls = Some F -> serial (events (F i)) None.
Proof. intros H. destruct (multi_lane_reach ls F i H) as [ls_i Hi]. apply (lane_serial val k qsize ls_i (F i) Hi). Qed.

Theorem multi_at_most_once ls F i : mrun init ls = Some F -> NoDup (started (F i)).
Proof. intros H. destruct (multi_lane_reach ls F i H) as [ls_i Hi]. apply (call_at_most_once val k qsize ls_i (F i) Hi). Qed.

(* no call runs on two lanes *)
Theorem multi_one_lane ls F i j c : mrun init ls = Some F -> In c (started (F i)) -> In c (started (F j)) -> i = j.
Proof.
  intros H Hi Hj. destruct (multi_lane_reach ls F i H) as [li Ri]. destruct (multi_lane_reach ls F j H) as [lj Rj].
  rewrite (multi_routed ls F i c H (started_accepted val k qsize li (F i) Ri c Hi)).
  rewrite (multi_routed ls F j c H (started_accepted val k qsize lj (F j) Rj c Hj)). reflexivity.
Qed.

Theorem multi_fifo ls F i : mrun init ls = Some F ->
  accepted (F i) = map fst (poplog (F i)) ++ queue (F i) /\ started (F i) = map fst (filter snd (poplog (F i))) /\
  (forall c, In (c, false) (poplog (F i)) -> cancelled (F i) c = true /\ k <> KLine).
Proof. intros H. destruct (multi_lane_reach ls F i H) as [ls_i Hi]. apply (lane_fifo val k qsize ls_i (F i) Hi). Qed.

Theorem multi_line_fifo_start ls F i : k = KLine -> mrun init ls = Some F -> accepted (F i) = started (F i) ++ queue (F i).
Proof. intros Hk H. destruct (multi_lane_reach ls F i H) as [ls_i Hi]. apply (line_fifo_start val k qsize ls_i (F i) Hi Hk). Qed.

Theorem multi_result_routed ls F i c a : mrun init ls = Some F -> got (F i) c = Some a ->
  In c (accepted (F i)) /\
  match a with
  | Val v => v = val c /\ In c (finished (F i))
  | CtxErr c' => c' = c /\ cancelled (F i) c = true
  | StopErr => k = KProc /\ closed (F i) = true
  | Weird _ => False
  end.
Proof. intros H. destruct (multi_lane_reach ls F i H) as [ls_i Hi]. apply (result_routed val k qsize ls_i (F i) Hi). Qed.

(* after Stop every lane is closed and stays closed: nothing is accepted any more *)
Lemma step_closed s l s' : step val s l = Some s' -> closed s = true -> closed s' = true.
Proof.
  destruct l as [c| | | | | |c|c fs]; cbn [step]; intros H Hc.
  - destruct (mem c (seen s)); [discriminate|]. rewrite Hc in H. inversion H; subst; cbn; exact Hc.
  - destruct (worker s); [discriminate|]. destruct (exited s); [discriminate|]. destruct (queue s) as [|c q]; [discriminate|].
    destruct (is_line (kd s) || negb (cancelled s c)); inversion H; subst; cbn; exact Hc.
  - destruct (worker s); [discriminate|]. destruct (exited s); [discriminate|]. destruct (queue s) as [|c q]; [discriminate|].
    destruct (negb (is_line (kd s)) && cancelled s c); inversion H; subst; cbn; exact Hc.
  - destruct (worker s); inversion H; subst; cbn; exact Hc.
  - inversion H; subst; cbn; reflexivity.
  - destruct (worker s); [discriminate|]. rewrite Hc in H. destruct (exited s); [discriminate|].
    destruct (queue s); [inversion H; subst; cbn; reflexivity|]. destruct (is_proc (kd s)); inversion H; subst; cbn; reflexivity.
  - inversion H; subst; cbn; exact Hc.
  - destruct (mem c (accepted s)); [|discriminate]. destruct (got s c); [discriminate|]. destruct (ready s c fs); inversion H; subst; cbn; exact Hc.
Qed.

Definition all_closed (f : fam) : Prop := forall i, closed (f i) = true.

Lemma all_closed_step f l f' : all_closed f -> mstep f l = Some f' -> all_closed f' /\ (forall i, accepted (f' i) = accepted (f i)).
Proof.
  intros C H.
  assert (Hon : forall j lb, on f j lb = Some f' -> all_closed f' /\ (forall i, accepted (f' i) = accepted (f i))).
  { intros j lb Ho. unfold on in Ho. destruct (step val (f j) lb) as [s'|] eqn:E; [|discriminate]. inversion Ho; subst f'. split.
    - intros i. destruct (upd_cases f j s' i) as [[-> E2]|[Hne E2]]; rewrite E2; [apply (step_closed _ _ _ E (C j))|apply C].
    - intros i. destruct (upd_cases f j s' i) as [[-> E2]|[Hne E2]]; rewrite E2; [|reflexivity].
      destruct lb as [c| | | | | |c|c fs]; try (destruct (step_accepted _ _ _ E) as [_ B]; apply B; reflexivity).
      + cbn [step] in E. destruct (mem c (seen (f j))); [discriminate|]. rewrite (C j) in E. inversion E; subst; reflexivity.
      + cbn [step] in E. inversion E; subst; reflexivity. }
  destruct l as [c|j lb|]; cbn [mstep] in H.
  - apply (Hon _ _ H).
  - destruct (lane_local lb && Nat.ltb j nlanes); [apply (Hon _ _ H)|discriminate].
  - inversion H; subst f'. split; [intros i; reflexivity|intros i; reflexivity].
Qed.

Theorem multi_stop_refuses ls : forall f f', all_closed f -> mrun f ls = Some f' -> all_closed f' /\ forall i, accepted (f' i) = accepted (f i).
Proof.
  induction ls as [|l ls IH]; intros f f' C H; unfold mrun in H; cbn [fold_left] in H.
  - inversion H; subst. split; [exact C|reflexivity].
  - destruct (mstep f l) as [f1|] eqn:E; [|rewrite mfold_none in H; discriminate].
    destruct (all_closed_step f l f1 C E) as [C1 A1]. destruct (IH f1 f' C1 H) as [C2 A2]. split; [exact C2|].
    intros i. rewrite A2, A1. reflexivity.
Qed.

Theorem multi_stop_closes f f' : mstep f MStop = Some f' -> all_closed f'.
Proof. cbn [mstep]. intros H. inversion H; subst. intros i. reflexivity. Qed.
End Multi.

Print Assumptions multi_callee_lane.
Print Assumptions multi_stop_refuses.
