(* C06 id generators: unique, strictly increasing under any clock history.
   The property clause by clause, for every layout (node width, node position, epoch), every node number, every
   restart point, every sequence of clock readings and every schedule of callers.  The only guard is the 63-bit
   format itself: `hard_dom` / `nano_dom` / mono readings below 2^(51-nb) say that no timestamp leaves the range the
   layout can represent (DESIGN section 8); `c06_hard_dom_sufficient` gives it from a plain bound on the readings.
   This file contains statements closed by `exact` only. *)
From Coq Require Import ZArith List Bool Sorted.
Require Import Gen GenId C06_Model C06_Hist C06_More C06_Check C06_Ex.
Import ListNotations.
Open Scope Z_scope.

(* ---- correspondence ---- *)

(* whatever the driver accepts satisfies the monitor *)
Theorem c06_case_sound : forall x, case_accept x = true -> case_holds x = true.
Proof. exact case_sound. Qed.

(* what the HardNode model produces satisfies the monitor, for every layout, node, restart id and clock history *)
Theorem c06_hard_model_holds : forall c node min clocks, node_valid c node = true ->
  hard_clauses c node min (id_fields c min) clocks (hard_model_obs c node (seed c min) clocks) = true.
Proof. exact hard_model_holds. Qed.

(* ---- HardNode (wall clock) ---- *)

(* clause 1: every id is strictly greater than every id returned before (and than the id the node was seeded from),
   whatever the clock does; StronglySorted = each element below all later ones *)
Theorem c06_hard_strictly_increasing : forall c node s0 clocks,
  node_ok c node -> wf s0 -> hard_dom c s0 clocks = true ->
  StronglySorted Z.lt (id_x c node s0 :: hard_ids c node s0 clocks).
Proof. exact hard_strictly_increasing. Qed.

(* uniqueness *)
Theorem c06_hard_unique : forall c node s0 clocks,
  node_ok c node -> wf s0 -> hard_dom c s0 clocks = true -> NoDup (hard_ids c node s0 clocks).
Proof. exact hard_unique. Qed.

(* clauses 3 and 4 at once: IDFields of the k-th id is (t, configured node, step) with t >= k-th reading - epoch *)
Theorem c06_hard_fields : forall c node s0 clocks,
  node_ok c node -> wf s0 -> hard_dom c s0 clocks = true ->
  Forall2 (fun k id => exists t stp, id_fields c id = (t, node, stp) /\ k - epoch c <= t /\ 0 <= stp <= 4095)
          clocks (hard_ids c node s0 clocks).
Proof. exact hard_fields. Qed.

(* clause 3: no id carries a timestamp (IDParse: time field + epoch) earlier than the clock reading of its call *)
Theorem c06_hard_time_not_before_clock : forall c node s0 clocks,
  node_ok c node -> wf s0 -> hard_dom c s0 clocks = true ->
  Forall2 (fun k id => k <= f_time (id_fields c id) + epoch c) clocks (hard_ids c node s0 clocks).
Proof. exact hard_time_not_before_clock. Qed.

(* clause 4: the node field always equals the configured node *)
Theorem c06_hard_node_field : forall c node s0 clocks,
  node_ok c node -> wf s0 -> hard_dom c s0 clocks = true ->
  Forall (fun id => f_node (id_fields c id) = node) (hard_ids c node s0 clocks).
Proof. exact hard_node_field. Qed.

(* clause 2: NewNode with the last id issued (at any point h1 of any history) yields the state the node stopped in;
   what it issues afterwards is what the uninterrupted node would have issued, above every earlier id *)
Theorem c06_hard_restart : forall c node s0 h1 h2,
  node_ok c node -> wf s0 -> hard_dom c s0 (h1 ++ h2) = true ->
  let last_id := last (hard_ids c node s0 h1) (id_x c node s0) in
  exists s1, new_node c node last_id = Some s1
    /\ hard_ids c node s0 (h1 ++ h2) = hard_ids c node s0 h1 ++ hard_ids c node s1 h2
    /\ Forall (fun id' => Forall (fun id => id < id') (id_x c node s0 :: hard_ids c node s0 h1)) (hard_ids c node s1 h2).
Proof. exact hard_restart. Qed.

Theorem c06_restart_state : forall c node s, cfg_ok c -> node_ok c node -> wf s -> time_ok c s ->
  new_node c node (id_x c node s) = Some s.
Proof. exact restart_state. Qed.

(* any non-negative int64 carrying this node's number is the id of the state NewNode seeds from it *)
Theorem c06_seed_id : forall c node min, cfg_ok c -> 0 <= min < 9223372036854775808 ->
  f_node (id_fields c min) = node ->
  node_ok c node /\ time_ok c (seed c min) /\ id_x c node (seed c min) = min.
Proof. exact seed_id. Qed.

(* concurrent callers: Generate is one critical section (checked by the lint on every run), so an execution is a list
   of (caller, clock reading) labels in lock order.  For every such list: ids pairwise distinct, increasing in lock
   order, and every caller sees its own ids strictly increasing *)
Theorem c06_hard_any_schedule : forall c node s0 labels,
  node_ok c node -> wf s0 -> hard_dom c s0 (map snd labels) = true ->
  let out := sched_run c node s0 labels in
  map fst out = map fst labels
  /\ StronglySorted Z.lt (map snd out)
  /\ NoDup (map snd out)
  /\ forall g, StronglySorted Z.lt (ids_of g out).
Proof. exact hard_any_schedule. Qed.

(* the guard from a plain bound: readings below L ms after the epoch and
   (max (seed time + 1) L) * 4096 + number of calls below 2^(63 - node bits) *)
Theorem c06_hard_dom_sufficient : forall c s0 clocks L, cfg_ok c -> wf s0 -> 0 <= time s0 ->
  Forall (fun k => -9223372036854775808 <= k - epoch c < L) clocks ->
  Z.max (time s0 + 1) L * 4096 + Z.of_nat (length clocks) < 2 ^ (63 - nb c) ->
  hard_dom c s0 clocks = true.
Proof. exact hard_dom_sufficient. Qed.

(* ---- configurations ---- *)

(* whatever options Setup is given (UseNodeMode maps every other value to 10), the node width stays 8, 9 or 10, so
   every configuration reachable through the public API satisfies the cfg_ok premise of the theorems above *)
Theorem c06_setup_width_ok : forall opts c, width_ok c -> width_ok (setup c opts).
Proof. exact setup_width_ok. Qed.

Theorem c06_width_cfg_ok : forall c, width_ok c -> cfg_ok c.
Proof. exact width_cfg_ok. Qed.

(* ---- the 63-bit layout, both node positions ---- *)

(* inside the range the int64 expression  time<<timeShift | node<<nodeShift | step<<stepShift  is the sum of its fields *)
Theorem c06_id_is_sum_of_fields : forall c node s, cfg_ok c -> node_ok c node -> wf s -> time_ok c s ->
  id_x c node s = id_ideal c node s.
Proof. exact id_x_ideal. Qed.

Theorem c06_fields_read_back : forall c node s, cfg_ok c -> node_ok c node -> wf s ->
  id_fields c (id_ideal c node s) = (time s, node, step s).
Proof. exact fields_of_ideal. Qed.

(* for a fixed node the id order is the (time, step) order, node at the lowest bits or not *)
Theorem c06_id_order : forall c node s1 s2, cfg_ok c -> node_ok c node -> wf s1 -> wf s2 ->
  (id_ideal c node s1 < id_ideal c node s2 <-> key s1 < key s2).
Proof. exact ideal_order. Qed.

Theorem c06_fields_compose : forall c id, cfg_ok c -> 0 <= id ->
  let f := id_fields c id in
  id = id_ideal c (f_node f) {| time := f_time f; step := f_step f |}
  /\ node_ok c (f_node f) /\ wf {| time := f_time f; step := f_step f |} /\ 0 <= f_time f.
Proof. exact fields_compose. Qed.

(* the exact (wrapping) step is the ideal step whenever nothing leaves int64 *)
Theorem c06_hard_generate_ideal : forall c s clk,
  -9223372036854775808 <= clk - epoch c < 9223372036854775808 ->
  -9223372036854775808 <= time s + 1 < 9223372036854775808 ->
  hard_generate c s clk = generate s (clk - epoch c).
Proof. exact hard_generate_ideal. Qed.

(* the round-0 prototypes (Appendix I / AI): the ideal machine and the default layout *)
Theorem c06_ideal_ids_strictly_increasing : forall clock s, wf s ->
  Forall (fun s' => key s < key s') (run s clock) /\
  (forall pre x post, run s clock = pre ++ x :: post -> Forall (fun y => key x < key y) (run x (skipn (S (length pre)) clock))).
Proof. exact ids_strictly_increasing. Qed.

Theorem c06_default_layout_restart_continues : forall nb node, 0 <= nb -> 0 <= node < 2 ^ nb -> forall s now, wf s ->
  restart nb (id_of nb node s) = s /\ id_of nb node s < id_of nb node (generate (restart nb (id_of nb node s)) now).
Proof. exact restart_continues. Qed.

(* ---- the defect repaired by fix 16 stays refuted ---- *)
Theorem c06_unixnano_read_refuted :
  exists c s clk, hard_dom c s [clk] = true /\ wf s /\
    time (hard_generate_prefix c s clk) < clk - epoch c /\ clk - epoch c <= time (hard_generate c s clk).
Proof. exact hard_time_not_before_clock_unixnano_refuted. Qed.

(* ---- MonoNode (monotonic clock, spin on wrap) ---- *)

(* under readings that never go back (Go's monotonic clock; every reading <= every later one, spin readings
   included) every id exceeds all earlier ids and IDFields reads back (reading, configured node, step) *)
Theorem c06_mono_strictly_increasing : forall c node ins s l, cfg_ok c -> node_ok c node -> wf s -> time_ok c s ->
  StronglySorted Z.le (time s :: flat ins) -> Forall (fun r => r < 2 ^ (51 - nb c)) (flat ins) ->
  mono_states s ins = Some l ->
  StronglySorted Z.lt (map (id_x c node) (s :: l))
  /\ Forall (fun s' => id_fields c (id_x c node s') = (time s', node, step s')) l.
Proof. exact mono_strictly_increasing. Qed.

Theorem c06_mono_model_holds : forall c node ts sts, node_valid c node = true -> mono_dom c ts = true ->
  mono_states mono_init (map (fun t => (t, [])) ts) = Some sts ->
  mono_clauses node (mono_model_obs c node sts) = true.
Proof. exact mono_model_holds. Qed.

(* the same with the premise in its usual form: the list of all readings is sorted *)
Theorem c06_mono_strictly_increasing_sorted : forall c node ins s l, cfg_ok c -> node_ok c node -> wf s -> time_ok c s ->
  Sorted Z.le (time s :: flat ins) -> Forall (fun r => r < 2 ^ (51 - nb c)) (flat ins) ->
  mono_states s ins = Some l ->
  StronglySorted Z.lt (map (id_x c node) (s :: l)).
Proof. exact mono_strictly_increasing_sorted. Qed.

(* the spin loop returns as soon as some later reading exceeds the current millisecond: Generate never diverges on
   a clock that advances *)
Theorem c06_mono_generate_total : forall s now sp, (exists r, In r sp /\ time s < r) -> exists s', mono_generate s now sp = Some s'.
Proof. exact mono_generate_total. Qed.

(* ---- UnixNanoID ---- *)

(* every id above the starting value and above every earlier id, and never below the supplied timestamp *)
Theorem c06_nano_strictly_increasing : forall cur tss, nano_dom cur tss = true ->
  StronglySorted Z.lt (cur :: nano_run cur tss) /\ Forall2 (fun ts id => ts <= id) tss (nano_run cur tss).
Proof. exact nano_strictly_increasing. Qed.

(* concurrent callers of GenIDByTS (one critical section each): for every lock order of every number of callers the
   ids are pairwise distinct, increasing in lock order and per caller *)
Theorem c06_nano_any_schedule : forall cur labels, nano_dom cur (map snd labels) = true ->
  let out := nano_sched cur labels in
  map fst out = map fst labels
  /\ StronglySorted Z.lt (cur :: map snd out)
  /\ NoDup (map snd out)
  /\ forall g, StronglySorted Z.lt (ids_of g out).
Proof. exact nano_any_schedule. Qed.

(* ---- non-vacuity ---- *)
Theorem c06_guard_satisfiable : hard_dom ex_cfg ex_s0 ex_clock = true /\ hard_dom ex_cfg_low ex_s0 ex_clock = true.
Proof. exact ex_dom. Qed.

Theorem c06_wrap_carries_into_time :
  nth 4095 (hard_states ex_cfg ex_s0 ex_clock) ex_s0 = {| time := 180569600000; step := 4095 |} /\
  nth 4096 (hard_states ex_cfg ex_s0 ex_clock) ex_s0 = {| time := 180569600001; step := 0 |}.
Proof. exact ex_wrap_carries. Qed.

Theorem c06_monitor_discriminates :
  case_holds (ex_case [O4 757363795558420480 180569600000 5 0; O4 1 0 5 1; O4 1 0 5 2]) = true /\
  case_accept (ex_case [O4 757363795558420480 180569600000 5 0; O4 1 0 5 1; O4 1 0 5 2]) = true /\
  case_holds (ex_case [O4 757363795558420480 180569600000 5 0; O4 0 0 5 0; O4 1 0 5 1]) = false /\
  case_holds (ex_case [O4 757363795554226176 180569599999 5 0; O4 1 0 5 1; O4 1 0 5 2]) = false /\
  case_holds (ex_case [O4 757363795558420480 180569600000 6 0; O4 1 0 6 1; O4 1 0 6 2]) = false /\
  case_holds (CHard ex_cfg 5 757363795558420485 (180569600000, 5, 5) [1790000000000] false []
                [[O4 757363795558420481 180569600000 5 1]]) = false /\
  case_holds (CNano 10 [] [[P2 10 10; P2 0 1]]) = false /\
  case_holds (CNano 10 [] [[P2 10 11; P2 0 1]]) = true /\
  case_holds (CMono ex_cfg 5 false [] [[O4 757363795558420480 180569600000 5 0; O4 0 0 5 0]]) = false.
Proof. exact ex_monitor. Qed.

Print Assumptions c06_case_sound.
Print Assumptions c06_hard_model_holds.
Print Assumptions c06_hard_strictly_increasing.
Print Assumptions c06_hard_unique.
Print Assumptions c06_hard_fields.
Print Assumptions c06_hard_time_not_before_clock.
Print Assumptions c06_hard_node_field.
Print Assumptions c06_hard_restart.
Print Assumptions c06_restart_state.
Print Assumptions c06_seed_id.
Print Assumptions c06_hard_any_schedule.
Print Assumptions c06_hard_dom_sufficient.
Print Assumptions c06_setup_width_ok.
Print Assumptions c06_width_cfg_ok.
Print Assumptions c06_id_is_sum_of_fields.
Print Assumptions c06_fields_read_back.
Print Assumptions c06_id_order.
Print Assumptions c06_fields_compose.
Print Assumptions c06_hard_generate_ideal.
Print Assumptions c06_ideal_ids_strictly_increasing.
Print Assumptions c06_default_layout_restart_continues.
Print Assumptions c06_unixnano_read_refuted.
Print Assumptions c06_mono_strictly_increasing.
Print Assumptions c06_mono_model_holds.
Print Assumptions c06_mono_strictly_increasing_sorted.
Print Assumptions c06_mono_generate_total.
Print Assumptions c06_nano_strictly_increasing.
Print Assumptions c06_nano_any_schedule.
Print Assumptions c06_guard_satisfiable.
Print Assumptions c06_wrap_carries_into_time.
Print Assumptions c06_monitor_discriminates.
