(* C09: the four Reverse methods of the block types - a new block over the same Start holding the complement of the
   receiver within the block, the receiver untouched - and the soundness of the two kinds of case that observe them *)
From Coq Require Import ZArith List Bool Lia Sorted.
Require Import Cases_Common LE Marshal C09_Model C09_Lists C09_Bits C09_Case C09_Sound C09_Thms.
Import ListNotations.
Open Scope Z_scope.

(* ------------------------------------------------------------------ one word, one bitmap *)
Lemma rev64_bound w : 0 <= rev64 w < 2 ^ 64.
Proof. unfold rev64. apply Z.mod_pos_bound. lia. Qed.
Lemma rev64_bit w m : 0 <= m < 64 -> Z.testbit (rev64 w) m = negb (Z.testbit w m).
Proof. intros Hm. unfold rev64. rewrite Z.mod_pow2_bits_low by lia. apply Z.lnot_spec. lia. Qed.

Lemma brev_length b : length (brev b) = length b.
Proof. unfold brev. apply map_length. Qed.
Lemma nth_brev b k : (k < length b)%nat -> nth k (brev b) 0 = rev64 (nth k b 0).
Proof. intros H. unfold brev. rewrite (nth_indep _ 0 (rev64 0)) by (now rewrite map_length). apply map_nth. Qed.

Theorem member_brev b j : length b = 16%nat -> in_range j -> member (brev b) j = negb (member b j).
Proof.
  intros Hl Hj. rewrite !member_bit by exact Hj. unfold bit. unfold in_range in Hj.
  assert (0 <= j / 64 < 16) by (split; [apply Z.div_pos; lia|apply Z.div_lt_upper_bound; lia]).
  rewrite nth_brev by lia. apply rev64_bit. apply Z.mod_pos_bound. lia.
Qed.
Theorem brev_wf b : length b = 16%nat -> wf (brev b).
Proof.
  intros Hl. split; [now rewrite brev_length|]. unfold brev. apply Forall_forall. intros w Hw.
  apply in_map_iff in Hw. destruct Hw as (u & <- & _). apply rev64_bound.
Qed.
(* reversing twice gives the bitmap back *)
Theorem brev_involutive b : wf b -> brev (brev b) = b.
Proof.
  intros Hw. pose proof Hw as [Hl _]. apply member_ext; [apply brev_wf; now rewrite brev_length|exact Hw|].
  intros j Hj. rewrite !member_brev by (try rewrite brev_length; assumption). apply negb_involutive.
Qed.

Lemma bequal_eq : forall a b, bequal a b = true -> a = b.
Proof.
  induction a as [|u a IH]; intros [|v b] H; cbn in H; try discriminate; [reflexivity|].
  apply andb_prop in H. destruct H as [H1 H2]. apply Z.eqb_eq in H1. subst. f_equal. now apply IH.
Qed.
Lemma bequal_refl a : bequal a a = true.
Proof. induction a as [|u a IH]; cbn; [reflexivity|]. rewrite Z.eqb_refl. exact IH. Qed.
Lemma bequal_brev b : length b = 16%nat -> bequal b (brev b) = false.
Proof.
  intros Hl. destruct (bequal b (brev b)) eqn:E; [|reflexivity]. apply bequal_eq in E.
  assert (Hr : in_range 0) by (unfold in_range; lia).
  pose proof (member_brev b 0 Hl Hr) as H. rewrite <- E in H. destruct (member b 0); discriminate.
Qed.

(* ------------------------------------------------------------------ the reversed block *)
Theorem block_reverse_spec b : length (bits b) = 16%nat ->
  start (block_reverse b) = start b /\
  wf (bits (block_reverse b)) /\
  (forall j, in_range j -> member (bits (block_reverse b)) j = negb (member (bits b) j)) /\
  (forall x, In x (block_values (block_reverse b)) <->
             exists m, in_range m /\ member (bits b) m = false /\ x = m + 1024 * start b) /\
  (forall u, (exists b', big_set (block_reverse b) u = Some b') <-> (0 <= u < MAXI64 /\ u / 1024 = start b)) /\
  (forall u, (exists b', tip_set (block_reverse b) u = Some b') <-> u / 1024 = start b).
Proof.
  intros Hl. cbn [block_reverse start bits].
  split; [reflexivity|]. split; [apply brev_wf, Hl|]. split; [intros j Hj; apply member_brev; assumption|].
  split.
  - intros x. rewrite block_values_in. cbn [start bits]. split.
    + intros (m & Hm & ->). cbn [block_reverse bits start] in Hm |- *. pose proof (member_range _ _ Hm) as Hr. rewrite member_brev in Hm by assumption.
      exists m. split; [exact Hr|]. split; [now apply negb_true_iff|reflexivity].
    + intros (m & Hr & Hm & ->). exists m. cbn [block_reverse bits start]. split; [|reflexivity]. rewrite member_brev by assumption. now rewrite Hm.
  - split; [intros u; apply (big_accepts_iff {| start := start b; bits := brev (bits b) |} u)
           |intros u; apply (tip_accepts_iff {| start := start b; bits := brev (bits b) |} u)].
Qed.
Theorem block_reverse_involutive b : wf (bits b) -> block_reverse (block_reverse b) = b.
Proof. intros Hw. destruct b as [s bs]. unfold block_reverse. cbn [start bits] in *. now rewrite brev_involutive. Qed.
Theorem blocks_reverse_spec bl : length (blocks_reverse bl) = length bl /\
  forall k d, (k < length bl)%nat -> nth k (blocks_reverse bl) (block_reverse d) = block_reverse (nth k bl d).
Proof. unfold blocks_reverse. split; [apply map_length|]. intros k d _. apply map_nth. Qed.

(* ------------------------------------------------------------------ the monitor's helpers *)
Lemma members_are_intro b p : (forall j, in_range j -> member b j = p j) -> members_are b p = true.
Proof.
  intros H. unfold members_are. apply forallb_forall. intros j Hj. apply in_z1024 in Hj. rewrite H by exact Hj. apply Bool.eqb_reflx.
Qed.
Lemma pos_ok_range ms : forallb pos_ok ms = true -> Forall in_range ms.
Proof.
  intros H. apply Forall_forall. intros m Hm. rewrite forallb_forall in H. specialize (H m Hm). unfold pos_ok in H.
  apply andb_prop in H. destruct H as [H1 H2]. apply Z.leb_le in H1. apply Z.leb_le in H2. unfold in_range. lia.
Qed.
Lemma member_mk st ms j : Forall in_range ms -> member (bits (mk_block st ms)) j = memz j ms.
Proof. intros H. cbn [mk_block bits]. rewrite member_fold_set by (auto; reflexivity). now rewrite member_zero. Qed.
Lemma in_complement ms j : In j (complement ms) <-> in_range j /\ memz j ms = false.
Proof. unfold complement. rewrite filter_In, in_z1024, negb_true_iff. unfold in_range. tauto. Qed.

(* ------------------------------------------------------------------ one reversed block, any block type *)
Section RevBlock.
  Variable ok : Z -> Z -> bool.
  Variable setf : block -> Z -> option block.
  Hypothesis st_spec : forall b u,
    setf b u = if ok (start b) u then Some {| start := start b; bits := set_i16 (bits b) (u mod 1024) |} else None.
  Variable gn : bool -> block -> Z -> iobs.
  Variable st : Z.
  Hypothesis ok_block : forall u, ok st u = true -> u / 1024 = st.
  Hypothesis gn_spec : forall rv b k, 0 <= k -> length (bits b) = 16%nat -> start b = st ->
    gn rv b k = IList (map (fun m => m + 1024 * st) (take k (if rv then rev (members (bits b)) else members (bits b)))).

  Let modl (l : list Z) := map (fun u => u mod 1024) (filter (ok st) l).
  Lemma modl_range l : Forall in_range (modl l).
  Proof. apply Forall_forall. intros y Hy. apply in_map_iff in Hy. destruct Hy as (u & <- & _). unfold in_range. apply Z.mod_pos_bound. lia. Qed.

  Lemma rev_run_holds ms x y us n : Forall in_range ms ->
    rev_holds ok st ms x y us n (reverse_run setf gn st ms x y us n) = true.
  Proof.
    intros Hms. unfold reverse_run. rewrite !(sets_spec ok setf st_spec). cbn [start bits mk_block block_reverse].
    set (B := fold_left set_i16 ms zero).
    assert (HlB : length B = 16%nat) by (unfold B; now rewrite fold_set_length).
    assert (HmB : forall j, member B j = memz j ms) by (intros j; apply (member_mk st ms j Hms)).
    fold (modl [x]). fold (modl us). fold (modl [y]).
    set (R1 := fold_left set_i16 (modl [x]) (brev B)).
    set (RF := fold_left set_i16 (modl us) R1).
    assert (HlR1 : length R1 = 16%nat) by (unfold R1; now rewrite fold_set_length, brev_length).
    assert (HlRF : length RF = 16%nat) by (unfold RF; now rewrite fold_set_length).
    assert (HmRB : forall j, in_range j -> member (brev B) j = negb (memz j ms)) by (intros j Hj; now rewrite member_brev, HmB).
    assert (HmR1 : forall j, in_range j -> member R1 j = negb (memz j ms) || memz j (modl [x])).
    { intros j Hj. unfold R1. rewrite member_fold_set by (try apply modl_range; now rewrite brev_length). now rewrite HmRB. }
    assert (HmRF : forall j, in_range j -> member RF j = negb (memz j ms) || memz j (modl (x :: us))).
    { intros j Hj. unfold RF. rewrite member_fold_set by (try apply modl_range; exact HlR1). rewrite HmR1 by exact Hj.
      rewrite <- orb_assoc. f_equal. unfold modl, memz. cbn [filter]. destruct (ok st x); cbn [map existsb orb]; [now rewrite orb_false_r|reflexivity]. }
    unfold rev_holds. cbn [map hd].
    rewrite Z.eqb_refl, (members_are_intro (brev B) _ HmRB), (members_are_intro B (fun j => memz j ms) (fun j _ => HmB j)).
    rewrite (bequal_brev B HlB), bequal_refl, !Bool.eqb_reflx, boollist_eqb_refl. cbn [andb negb].
    replace (members_are R1 (fun j => negb (memz j ms) || (ok st x && (j =? x mod 1024)))) with true.
    2:{ symmetry. apply members_are_intro. intros j Hj. rewrite HmR1 by exact Hj. f_equal.
        unfold modl, memz. cbn [filter]. destruct (ok st x); cbn [map existsb andb]; [now rewrite orb_false_r|reflexivity]. }
    cbn [andb]. destruct (n <? 0) eqn:En; [reflexivity|]. apply Z.ltb_ge in En. cbn [orb].
    (* the result's members as positions *)
    unfold getn. replace (n <? 0) with false by (symmetry; apply Z.ltb_ge; lia).
    rewrite (iter1024_fwd idz (brev B) 0 n) by (now rewrite brev_length).
    rewrite (iter1024_rev idz (brev B) 0 n) by (now rewrite brev_length).
    assert (Hid : forall l : list Z, map (fun m => idz (m + 0)) l = l)
      by (intros l; rewrite <- (map_id l) at 2; apply map_ext; intros m; unfold idz; lia).
    rewrite !Hid.
    rewrite !gn_spec by (auto; reflexivity). cbn [bits].
    rewrite (first_n_sound Z.ltb Z.lt ltb_of (complement ms) n (members (brev B)) En (members_sorted _)).
    2:{ intros j. rewrite in_members, in_complement. split.
        - intros Hm. pose proof (member_range _ _ Hm) as Hr. split; [exact Hr|]. rewrite HmRB in Hm by exact Hr. now apply negb_true_iff.
        - intros [Hr Hm]. rewrite HmRB by exact Hr. now rewrite Hm. }
    cbn [andb].
    rewrite (first_n_sound Z.gtb Z.gt gtb_of (complement ms) n (rev (members (brev B))) En (sorted_rev _ (members_sorted _))).
    2:{ intros j. rewrite <- in_rev, in_members, in_complement. split.
        - intros Hm. pose proof (member_range _ _ Hm) as Hr. split; [exact Hr|]. rewrite HmRB in Hm by exact Hr. now apply negb_true_iff.
        - intros [Hr Hm]. rewrite HmRB by exact Hr. now rewrite Hm. }
    cbn [andb].
    set (ss := map (fun j => j + 1024 * st) (complement ms) ++ filter (ok st) (x :: us)).
    set (M := map (fun m => m + 1024 * st) (members RF)).
    assert (HM : StronglySorted Z.lt M) by (apply (sorted_map (R:=Z.lt)); [intros a b; lia|apply members_sorted]).
    assert (Hmem : forall v, In v M <-> In v ss).
    { intros v. unfold M, ss. rewrite in_map_iff, in_app_iff, in_map_iff. split.
      - intros (m & <- & Hm). apply in_members in Hm. pose proof (member_range _ _ Hm) as Hr. rewrite HmRF in Hm by exact Hr.
        apply orb_prop in Hm. destruct Hm as [Hm|Hm].
        + left. exists m. split; [reflexivity|]. apply in_complement. split; [exact Hr|now apply negb_true_iff].
        + right. apply memz_In in Hm. unfold modl in Hm. apply in_map_iff in Hm. destruct Hm as (u & <- & Hu).
          replace (u mod 1024 + 1024 * st) with u; [exact Hu|]. apply filter_In in Hu. destruct Hu as [_ Hu]. apply ok_block in Hu.
          pose proof (Z.div_mod u 1024 ltac:(lia)). lia.
      - intros [(m & <- & Hm)|Hu].
        + apply in_complement in Hm. destruct Hm as [Hr Hm]. exists m. split; [reflexivity|]. apply in_members. rewrite HmRF by exact Hr. now rewrite Hm.
        + exists (v mod 1024). pose proof Hu as Hu'. apply filter_In in Hu'. destruct Hu' as [_ Hok]. apply ok_block in Hok. split.
          * pose proof (Z.div_mod v 1024 ltac:(lia)). lia.
          * assert (Hr : in_range (v mod 1024)) by (unfold in_range; apply Z.mod_pos_bound; lia).
            apply in_members. rewrite HmRF by exact Hr. apply orb_true_intro. right. apply memz_In. unfold modl. apply in_map_iff. exists v. tauto. }
    rewrite <- !take_map. fold M. rewrite map_rev. fold M.
    rewrite (first_n_sound Z.ltb Z.lt ltb_of ss n M En HM Hmem). cbn [andb].
    apply (first_n_sound Z.gtb Z.gt gtb_of ss n (rev M) En (sorted_rev M HM)).
    intros v. rewrite <- in_rev. apply Hmem.
  Qed.
End RevBlock.

Theorem rev_case_sound tip st ms x y us n o : case_matches (CRev tip st ms x y us n o) = true -> case_holds (CRev tip st ms x y us n o) = true.
Proof.
  cbn [case_matches case_holds]. intros H. apply andb_prop in H. destruct H as [H H3]. apply andb_prop in H. destruct H as [H1 H2].
  apply robs_eqb_eq in H3. subst o. apply pos_ok_range in H2. unfold model_reverse_run. destruct tip.
  - apply andb_prop in H1. destruct H1 as [Ha Hb]. apply Z.leb_le in Ha. apply Z.leb_le in Hb.
    apply (rev_run_holds ok_tip tip_set tip_set_spec tip_getn st).
    + intros u Hu. unfold ok_tip in Hu. now apply Z.eqb_eq.
    + intros rv b k Hk Hl Hs. rewrite <- Hs. apply tip_getn_spec'; [rewrite Hs; lia|exact Hk|exact Hl].
    + exact H2.
  - apply (rev_run_holds ok_big big_set big_set_spec big_getn st).
    + intros u Hu. unfold ok_big in Hu. apply andb_prop in Hu. destruct Hu as [_ Hu]. now apply Z.eqb_eq.
    + intros rv b k. apply big_getn_spec.
    + exact H2.
Qed.

(* ------------------------------------------------------------------ the list forms *)
Lemma blk_ok_range x : blk_ok x = true -> Forall in_range (snd x).
Proof. unfold blk_ok. intros H. apply andb_prop in H. destruct H as [_ H]. now apply pos_ok_range. Qed.

Lemma revs_model_holds bl : forallb blk_ok bl = true ->
  revs_holds bl (map (fun b => (start b, bits b)) (blocks_reverse (map (fun x => mk_block (fst x) (snd x)) bl)))
             (map (fun b => (start b, bits b)) (map (fun x => mk_block (fst x) (snd x)) bl)) = true.
Proof.
  induction bl as [|[st ms] bl IH]; intros H; [reflexivity|]. cbn [forallb] in H. apply andb_prop in H. destruct H as [H1 H2].
  apply blk_ok_range in H1. cbn [fst snd] in H1. cbn [map blocks_reverse revs_holds fst snd]. fold (blocks_reverse (map (fun x => mk_block (fst x) (snd x)) bl)).
  cbn [block_reverse start]. rewrite !Z.eqb_refl. cbn [andb].
  assert (Hl : length (bits (mk_block st ms)) = 16%nat) by apply mk_block_length.
  rewrite (members_are_intro (bits (block_reverse (mk_block st ms))) (fun j => negb (memz j ms))).
  2:{ intros j Hj. cbn [block_reverse bits]. rewrite member_brev by assumption. now rewrite member_mk. }
  rewrite (members_are_intro (bits (mk_block st ms)) (fun j => memz j ms)) by (intros j _; now apply member_mk).
  cbn [andb]. apply IH, H2.
Qed.

Theorem revs_case_sound tip bl res recv : case_matches (CRevs tip bl res recv) = true -> case_holds (CRevs tip bl res recv) = true.
Proof.
  cbn [case_matches case_holds]. intros H. apply andb_prop in H. destruct H as [H H3]. apply andb_prop in H. destruct H as [H1 H2].
  apply (list_eqb_eq zpair_eqb zpair_eqb_eq) in H2. apply (list_eqb_eq zpair_eqb zpair_eqb_eq) in H3. subst res recv.
  apply revs_model_holds, H1.
Qed.

(* ------------------------------------------------------------------ dense lists *)
Lemma members_dense st ms : Forall in_range ms -> members (bits (dense_block (st, ms))) = complement ms.
Proof.
  intros Hms. unfold members, complement. apply filter_ext_in'. intros j Hj. apply in_z1024 in Hj.
  unfold dense_block. cbn [fst snd block_reverse bits]. rewrite member_brev by (try apply mk_block_length; exact Hj).
  now rewrite member_mk.
Qed.
Lemma dense_block_length x : length (bits (dense_block x)) = 16%nat.
Proof. unfold dense_block. cbn [block_reverse bits]. rewrite brev_length. apply mk_block_length. Qed.
Lemma zlen_dir_members (rv : bool) b : zlen (if rv then rev (members b) else members b) <= 1024.
Proof. destruct rv; [rewrite zlen_rev|]; apply zlen_members_le. Qed.

Lemma big_iter_dense rv x : Forall in_range (snd x) ->
  big_iter rv (dense_block x) 1024 = if rv then rev (dense_vals x) else dense_vals x.
Proof.
  destruct x as [st ms]. cbn [snd]. intros Hms. unfold big_iter, dense_vals. cbn [fst snd].
  pose proof (dense_block_length (st, ms)) as Hl. pose proof (members_dense st ms Hms) as Hm.
  assert (Hst : start (dense_block (st, ms)) = st) by reflexivity. rewrite Hst.
  destruct rv; [rewrite iter1024_rev by exact Hl|rewrite iter1024_fwd by exact Hl];
    rewrite take_all by (try rewrite zlen_rev; apply zlen_members_le); rewrite Hm; try rewrite <- map_rev;
    apply map_ext; intros m; unfold idz; lia.
Qed.
Lemma tip_iter_dense rv x : 0 <= fst x <= MAXTIP -> Forall in_range (snd x) ->
  tip_iter rv (dense_block x) 1024 = if rv then rev (dense_vals x) else dense_vals x.
Proof.
  destruct x as [st ms]. cbn [fst snd]. intros Hs Hms. rewrite maxtip_val in Hs. unfold tip_iter, dense_vals. cbn [fst snd].
  pose proof (dense_block_length (st, ms)) as Hl. pose proof (members_dense st ms Hms) as Hm.
  assert (Hst : start (dense_block (st, ms)) = st) by reflexivity. rewrite Hst.
  assert (Hin : forall m, In m (complement ms) -> in_range m) by (intros m H; apply in_complement in H; tauto).
  destruct rv; [rewrite iter1024_rev by exact Hl|rewrite iter1024_fwd by exact Hl];
    rewrite take_all by (try rewrite zlen_rev; apply zlen_members_le); rewrite Hm; try rewrite <- map_rev;
    apply map_ext_in; intros m Hmm0; assert (Hmm : in_range m) by (first [apply Hin; exact Hmm0|apply Hin; apply in_rev; exact Hmm0]); unfold in_range in Hmm;
    unfold u32; rewrite (Z.mod_small (st * 1024)) by lia; rewrite Z.mod_small by lia; lia.
Qed.

Lemma tipblk_ok_spec x : tipblk_ok x = true -> 0 <= fst x <= MAXTIP /\ Forall in_range (snd x).
Proof.
  unfold tipblk_ok. intros H. apply andb_prop in H. destruct H as [H H3]. apply andb_prop in H. destruct H as [H1 H2].
  apply Z.leb_le in H1. apply Z.leb_le in H2. split; [lia|now apply pos_ok_range].
Qed.

Lemma dense_concat (it : bool -> block -> Z -> list Z) rv bl :
  (forall x, In x bl -> it rv (dense_block x) 1024 = if rv then rev (dense_vals x) else dense_vals x) ->
  flat_map (fun b => it rv b 1024) (map dense_block bl) = concat (map (fun x => if rv then rev (dense_vals x) else dense_vals x) bl).
Proof.
  intros H. rewrite flat_map_map', concat_map_flat_map. apply flat_map_ext_in. exact H.
Qed.

Theorem dense_case_sound tip bl n fw rv : case_matches (CDense tip bl n fw rv) = true -> case_holds (CDense tip bl n fw rv) = true.
Proof.
  cbn [case_matches case_holds]. intros H. destruct (n <? 0) eqn:En; [reflexivity|]. apply Z.ltb_ge in En. cbn [orb].
  replace (map (fun x => frev (dense_vals x)) bl) with (map (fun x => rev (dense_vals x)) bl)
    by (apply map_ext; intros x; symmetry; apply frev_rev).
  replace (map (fun x => frev (dense_vals x)) (rev bl)) with (map (fun x => rev (dense_vals x)) (rev bl))
    by (apply map_ext; intros x; symmetry; apply frev_rev).
  assert (Hlen : forall b, In b (map dense_block bl) -> length (bits b) = 16%nat).
  { intros b Hb. apply in_map_iff in Hb. destruct Hb as (x & <- & _). apply dense_block_length. }
  destruct tip.
  - apply andb_prop in H. destruct H as [H H3]. apply andb_prop in H. destruct H as [H1 H2].
    apply sobs_eqb_eq in H2. apply sobs_eqb_eq in H3. subst fw rv. rewrite forallb_forall in H1.
    rewrite !tips_concat by (try exact En; apply Forall_forall; exact Hlen). cbn [summ_of].
    rewrite <- map_rev.
    rewrite (dense_concat tip_iter false bl), (dense_concat tip_iter true (rev bl)).
    + rewrite !sobs_eqb_refl. cbn [andb]. apply orb_true_r.
    + intros x Hx. apply in_rev in Hx. destruct (tipblk_ok_spec x (H1 x Hx)). now apply tip_iter_dense.
    + intros x Hx. destruct (tipblk_ok_spec x (H1 x Hx)). now apply tip_iter_dense.
  - apply andb_prop in H. destruct H as [H H3]. apply andb_prop in H. destruct H as [H1 H2].
    apply sobs_eqb_eq in H2. apply sobs_eqb_eq in H3. subst fw rv. rewrite forallb_forall in H1.
    rewrite !bigs_concat by (try exact En; apply Forall_forall; exact Hlen). cbn [summ_of].
    rewrite (dense_concat big_iter false bl), (dense_concat big_iter true bl).
    + rewrite !sobs_eqb_refl. reflexivity.
    + intros x Hx. apply big_iter_dense. apply blk_ok_range. now apply H1.
    + intros x Hx. apply big_iter_dense. apply blk_ok_range. now apply H1.
Qed.

(* ------------------------------------------------------------------ every kind of case *)
Theorem matches_holds c : case_matches c = true -> case_holds c = true.
Proof.
  destruct c; [apply marshal_case_sound|apply unm_case_sound|apply big_case_sound|apply tip_case_sound|apply bigs_case_sound|apply tips_case_sound
              |apply rev_case_sound|apply revs_case_sound|apply dense_case_sound].
Qed.

(* ------------------------------------------------------------------ grouped as C09_Props.v states it *)
Theorem reverse_props :
  (forall b, length (bits b) = 16%nat ->
     start (block_reverse b) = start b /\
     wf (bits (block_reverse b)) /\
     (forall j, in_range j -> member (bits (block_reverse b)) j = negb (member (bits b) j)) /\
     (forall x, In x (block_values (block_reverse b)) <->
                exists m, in_range m /\ member (bits b) m = false /\ x = m + 1024 * start b) /\
     (forall u, (exists b', big_set (block_reverse b) u = Some b') <-> (0 <= u < MAXI64 /\ u / 1024 = start b)) /\
     (forall u, (exists b', tip_set (block_reverse b) u = Some b') <-> u / 1024 = start b)) /\
  (forall b, wf (bits b) -> block_reverse (block_reverse b) = b) /\
  (forall bl, length (blocks_reverse bl) = length bl /\
              forall k d, (k < length bl)%nat -> nth k (blocks_reverse bl) (block_reverse d) = block_reverse (nth k bl d)) /\
  (forall tip st ms x y us n, Forall in_range ms -> (tip = true -> 0 <= st <= MAXTIP) -> (tip = false -> 0 <= st < 2 ^ 32) ->
     C09_Case.case_holds (CRev tip st ms x y us n (model_reverse_run tip st ms x y us n)) = true).
Proof.
  split; [exact block_reverse_spec|]. split; [exact block_reverse_involutive|]. split; [exact blocks_reverse_spec|].
  intros tip st ms x y us n Hms Hst1 Hst0. apply rev_case_sound. cbn [case_matches].
  assert (Hrefl : forall o, robs_eqb o o = true).
  { intros [|]; cbn [robs_eqb]; [reflexivity|]. now rewrite Z.eqb_refl, !zlist_eqb_refl, !Bool.eqb_reflx, !iobs_eqb_refl, boollist_eqb_refl. }
  rewrite Hrefl, andb_true_r. apply andb_true_intro. split.
  - destruct tip; [specialize (Hst1 eq_refl); apply andb_true_intro; split; apply Z.leb_le; lia|specialize (Hst0 eq_refl); unfold in_u32; apply andb_true_intro; split; [apply Z.leb_le|apply Z.ltb_lt]; lia].
  - apply forallb_forall. intros m Hm. rewrite Forall_forall in Hms. specialize (Hms m Hm). unfold in_range in Hms. unfold pos_ok.
    apply andb_true_intro. split; apply Z.leb_le; lia.
Qed.
