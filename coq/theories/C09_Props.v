(* C09 bitmap1024: serialisation and block-integer mapping - the property, clause by clause, over all bitmaps,
   all byte strings, all integers, all counts and all block lists.  Statements closed by `exact` only.
   A Bit1024 is the list of its 16 words; wf b = 16 words each below 2^64; member b j = bit j is set;
   members b = the members ascending; card b = their number; denoted bs = the set a byte string denotes
   (None = nothing: must be refused); block_values b = the integers a block holds, ascending. *)
From Coq Require Import ZArith List Bool Sorted.
Require Bit64 C08_Model C08_Spec.
Require Import LE Marshal C09_Model C09_Lists C09_Bits C09_Case C09_Sound C09_Thms C09_Word C09_Rev C09_Check.
Import ListNotations.
Open Scope Z_scope.

(* whatever the driver accepts satisfies the monitor (case_accept = observation equals the model, nothing else) *)
Theorem c09_case_sound : forall c, case_accept c = true -> case_holds c = true.
Proof. exact case_sound. Qed.

(* ---- Marshal / Unmarshal ---- *)
(* every bitmap, both encodings: unmarshalling Marshal's bytes into a fresh bitmap reproduces the bitmap exactly *)
Theorem c09_marshal_unmarshal : forall b, wf b -> unmarshal zero (marshal b) = UOk b.
Proof. exact marshal_unmarshal. Qed.
(* the form chosen by the member count: nothing for the empty set, two little-endian bytes per member (ascending)
   below 64 members, the 128-byte form from 64 members on *)
Theorem c09_marshal_form : forall b, wf b ->
  zlen (marshal b) = (if card b <? 64 then 2 * card b else 128) /\
  (card b = 0 -> marshal b = []) /\
  (0 < card b < 64 -> marshal b = encode_sparse (members b)) /\
  (64 <= card b -> marshal b = dense b) /\
  bytes_ok (marshal b).
Proof. exact marshal_form. Qed.
(* arbitrary bytes of every length: never a panic; refused exactly when they denote nothing, otherwise a
   well-formed bitmap with exactly the denoted members *)
Theorem c09_unmarshal_total : forall bs, bytes_ok bs ->
  unmarshal zero bs <> UPanic /\
  (forall b, unmarshal zero bs = UOk b -> wf b) /\
  match denoted bs with
  | None => unmarshal zero bs = UErr
  | Some dn => exists b, unmarshal zero bs = UOk b /\ wf b /\ forall j, in_range j -> member b j = dn j
  end.
Proof. exact unmarshal_total. Qed.
(* a well-formed bitmap is determined by its members, so "exactly the denoted set" fixes the result *)
Theorem c09_member_ext : forall a b, wf a -> wf b -> (forall j, in_range j -> member a j = member b j) -> a = b.
Proof. exact member_ext. Qed.

(* ---- the 16-word iteration: the first n members ascending / descending, for every count and offset ---- *)
Theorem c09_iter1024 : forall wr b add n, length b = 16%nat ->
  iter1024 false wr b add n = map (fun m => wr (m + add)) (take n (members b)) /\
  iter1024 true wr b add n = map (fun m => wr (m + add)) (take n (rev (members b))) /\
  StronglySorted Z.lt (members b) /\
  (forall j, In j (members b) <-> member b j = true).
Proof. exact iter1024_spec. Qed.

(* the iteration of one word, which the model takes as "the first n set positions ascending", is what the two
   traversals of Bit64.IterAs* (C08's mirrored dense and sparse loops, Bit64.v) compute, for every threshold *)
Theorem c09_word_iter_forward : forall magic wr w add n,
  witer false wr w add n = map (fun i => wr (Z.of_nat i + add)) (fst (Bit64.iter_fwd magic (bools w) n)).
Proof. exact word_iter_forward. Qed.

(* both directions, every element type, every threshold, through C08's iterator theorems (C08_Iter.v iter64_spec /
   iter1024_spec): what C08's loop-by-loop model of Bit64.IterAsT / RIterAsT and of the Bit1024 chain writes into the
   slice is exactly the list the C09 model's witer / iter1024 returns - so the C09 model abstracts nothing unproved *)
Theorem c09_iterators_c08 :
  (forall ty add rev magic w s pos n, C08_Spec.wfw w = true ->
     C08_Model.iter64 ty add rev magic w s pos n =
     let vals := witer rev (C08_Model.norm ty) (Z.of_N w) add n in
     match vals with
     | [] => C08_Model.Ok s 0
     | _ => if (0 <=? pos) && (pos + zlen vals <=? zlen s) then C08_Model.Ok (C08_Spec.splice s pos vals) (zlen vals) else C08_Model.Panic
     end) /\
  (forall ty rev magic ws s pos add n, C08_Spec.wfws ws = true ->
     C08_Model.iter1024 ty rev magic ws s pos add n =
     let vals := iter1024 rev (C08_Model.norm ty) (zwords ws) add n in
     match vals with
     | [] => C08_Model.Ok s 0
     | _ => if (0 <=? pos) && (pos + zlen vals <=? zlen s) then C08_Model.Ok (C08_Spec.splice s pos vals) (zlen vals) else C08_Model.Panic
     end).
Proof. exact iterators_c08. Qed.

(* ---- 64-bit blocks ---- *)
(* every integer up to 2^32*1024-1025 comes back alone, in both directions, for every count >= 1; others are refused *)
Theorem c09_big_build : forall v,
  (0 <= v < MAXI64 -> forall n, 1 <= n ->
    exists b, big_new v = Some b /\ start b = v / 1024 /\ big_getn false b n = IList [v] /\ big_getn true b n = IList [v]) /\
  (~ (0 <= v < MAXI64) -> big_new v = None).
Proof. exact big_build. Qed.
(* a further integer is accepted exactly when it belongs to the block; then exactly its position is added *)
Theorem c09_big_accepts : forall b u, length (bits b) = 16%nat ->
  ((exists b', big_set b u = Some b') <-> (0 <= u < MAXI64 /\ u / 1024 = start b)) /\
  (forall b', big_set b u = Some b' -> start b' = start b /\ forall j, member (bits b') j = member (bits b) j || (j =? u mod 1024)).
Proof. exact big_accepts. Qed.
(* forward iteration ascending, reverse descending, both the first n of the block's values; negative counts panic *)
Theorem c09_big_iteration : forall b n, length (bits b) = 16%nat ->
  (0 <= n ->
   big_getn false b n = IList (take n (block_values b)) /\ StronglySorted Z.lt (take n (block_values b)) /\
   big_getn true b n = IList (take n (rev (block_values b))) /\ StronglySorted Z.gt (take n (rev (block_values b)))) /\
  (n < 0 -> big_getn false b n = IPanic /\ big_getn true b n = IPanic) /\
  (forall x, In x (block_values b) <-> exists m, member (bits b) m = true /\ x = m + 1024 * start b).
Proof. exact big_iteration. Qed.
(* a block built from v and offered any further integers: every clause of the monitor holds of what the model produces *)
Theorem c09_big_model_holds : forall v us n,
  C09_Case.case_holds (CBig v us n (model_block_run (big_new v) big_set big_getn us n)) = true.
Proof. exact big_model_holds. Qed.

(* ---- 32-bit blocks, all of uint32 ---- *)
Theorem c09_tip_roundtrip : forall v n, 0 <= v < 2 ^ 32 -> 1 <= n ->
  start (tip_new v) = v / 1024 /\ tip_getn false (tip_new v) n = IList [v] /\ tip_getn true (tip_new v) n = IList [v].
Proof. exact tip_roundtrip. Qed.
Theorem c09_tip_accepts : forall b u, length (bits b) = 16%nat ->
  ((exists b', tip_set b u = Some b') <-> u / 1024 = start b) /\
  (forall b', tip_set b u = Some b' -> start b' = start b /\ forall j, member (bits b') j = member (bits b) j || (j =? u mod 1024)).
Proof. exact tip_accepts. Qed.
Theorem c09_tip_order : forall b n, 0 <= start b <= MAXTIP -> length (bits b) = 16%nat -> 0 <= n ->
  tip_getn false b n = IList (take n (block_values b)) /\ StronglySorted Z.lt (take n (block_values b)) /\
  tip_getn true b n = IList (take n (rev (block_values b))) /\ StronglySorted Z.gt (take n (rev (block_values b))).
Proof. exact tip_order. Qed.
Theorem c09_tip_model_holds : forall v us n, 0 <= v < 2 ^ 32 -> Forall (fun u => 0 <= u < 2 ^ 32) us ->
  C09_Case.case_holds (CTip v us n (model_block_run (Some (tip_new v)) tip_set tip_getn us n)) = true.
Proof. exact tip_model_holds. Qed.

(* ---- Reverse of a block / of a list of blocks: a new block over the same Start holding the complement within the block
   (so every block theorem above applies to it: it accepts exactly its block's integers and iterates exactly the
   complement, ascending / descending); reversing twice gives the block back; the list form is element-wise; and every
   clause of the monitor for the observed run (result fresh, receiver unchanged, Equal tells them apart) holds of the model ---- *)
Theorem c09_reverse :
  (forall b, length (bits b) = 16%nat ->
     start (block_reverse b) = start b /\
     wf (bits (block_reverse b)) /\
     (forall j, in_range j -> member (bits (block_reverse b)) j = negb (member (bits b) j)) /\
     (forall x, In x (block_values (block_reverse b)) <->
                exists m, in_range m /\ member (bits b) m = false /\ x = m + 1024 * start b) /\
     (forall u, (exists b', big_set (block_reverse b) u = Some b') <-> (0 <= u < MAXI64 /\ u / 1024 = start b)) /\
     (forall u, (exists b', tip_set (block_reverse b) u = Some b') <-> u / 1024 = start b)) /\
  (forall b, wf (bits b) -> block_reverse (block_reverse b) = b) /\
  (forall bl, length (blocks_reverse bl) = length bl /\
              forall k d, (k < length bl)%nat -> nth k (blocks_reverse bl) (block_reverse d) = block_reverse (nth k bl d)) /\
  (forall tip st ms x y us n, Forall in_range ms -> (tip = true -> 0 <= st <= MAXTIP) -> (tip = false -> 0 <= st < 2 ^ 32) ->
     C09_Case.case_holds (CRev tip st ms x y us n (model_reverse_run tip st ms x y us n)) = true).
Proof. exact reverse_props. Qed.

(* ---- list forms: the per-block iterations concatenated in the coded block order, truncated to n ---- *)
Theorem c09_lists_concat : forall rv bl n, Forall (fun b => length (bits b) = 16%nat) bl -> 0 <= n ->
  bigs_getn rv bl n = IList (take n (flat_map (fun b => big_iter rv b 1024) bl)) /\
  tips_getn rv bl n = IList (take n (flat_map (fun b => tip_iter rv b 1024) (if rv then rev bl else bl))).
Proof. exact lists_concat. Qed.

(* ---- the two repaired defects stay refuted (uint32 product; swapped dispatch) ---- *)
Theorem c09_prefix_refuted :
  (exists v b, 0 <= v < MAXI64 /\ big_new v = Some b /\ big_iter_prefix false b 3 <> [v]) /\
  (exists b, tip_set (tip_new 5) 7 = Some b /\ tip_getn_prefix false b 5 = IList [7; 5] /\ tip_getn false b 5 = IList [5; 7]).
Proof. exact prefix_refuted. Qed.

(* ---- non-vacuity: the boundary member counts 0, 1, 63, 64, 65, 1024 ---- *)
Theorem c09_boundary_counts :
  map (fun k => (card (first_k k), zlen (marshal (first_k k)), ures_eqb (unmarshal zero (marshal (first_k k))) (UOk (first_k k))))
      [0; 1; 63; 64; 65; 1024]
  = [(0, 0, true); (1, 2, true); (63, 126, true); (64, 128, true); (65, 128, true); (1024, 128, true)].
Proof. exact boundary_counts. Qed.

Print Assumptions c09_case_sound.
Print Assumptions c09_marshal_unmarshal.
Print Assumptions c09_marshal_form.
Print Assumptions c09_unmarshal_total.
Print Assumptions c09_member_ext.
Print Assumptions c09_iter1024.
Print Assumptions c09_word_iter_forward.
Print Assumptions c09_iterators_c08.
Print Assumptions c09_big_build.
Print Assumptions c09_big_accepts.
Print Assumptions c09_big_iteration.
Print Assumptions c09_big_model_holds.
Print Assumptions c09_tip_roundtrip.
Print Assumptions c09_tip_accepts.
Print Assumptions c09_tip_order.
Print Assumptions c09_tip_model_holds.
Print Assumptions c09_reverse.
Print Assumptions c09_lists_concat.
Print Assumptions c09_prefix_refuted.
Print Assumptions c09_boundary_counts.
