(* C03, layer H: Clear(addNodesToFreelist).  node.reset walks the whole tree of the cleared handle and releases, through
   copyOnWriteContext.freeNode, exactly the nodes the handle's context owns (until the free list is full); everything
   else in the store is left as it is.  Together with the ownership invariant of the family (a node owned by a
   handle's context is in no other handle's tree, C03_HeapWorld.v) this is what keeps Clear from touching a clone. *)
From Coq Require Import ZArith List Lia Bool.
Require Import C03_Model C03_Cow C03_Heap C03_HeapLib C03_HeapIns C03_HeapRem C03_HeapTree.
Import ListNotations.
Open Scope nat_scope.

(* from s to s' nothing happened but the removal of nodes of A owned by c *)
Definition del_step (c : ctx) (A : list addr) (s s' : hst) : Prop :=
  forall x, hp s' x = hp s x \/ (hp s' x = None /\ In x A /\ exists n, hp s x = Some n /\ own n = c).

Lemma del_refl c A s : del_step c A s s.
Proof. intros x. left. reflexivity. Qed.
Lemma del_mono c A A' s s' : incl A A' -> del_step c A s s' -> del_step c A' s s'.
Proof. intros Hi H x. destruct (H x) as [E|(E & Hin & Hn)]; [left; exact E|right; split; [exact E|split; [apply Hi, Hin|exact Hn]]]. Qed.
Lemma del_trans c A s s1 s2 : del_step c A s s1 -> del_step c A s1 s2 -> del_step c A s s2.
Proof.
  intros H1 H2 x. destruct (H2 x) as [E2|(E2 & Hin & n & Hn & Ho)].
  - destruct (H1 x) as [E1|(E1 & Hin & Hn)]; [left; congruence|right; split; [congruence|auto]].
  - right. split; [exact E2|split; [exact Hin|]]. destruct (H1 x) as [E1|(E1 & _)]; [exists n; split; [congruence|exact Ho]|congruence].
Qed.
Lemma del_wr c A s s' : del_step c A s s' -> wr c A (hp s) (hp s').
Proof.
  intros H x. destruct (H x) as [E|(E & Hin & Hn)]; [left; exact E|]. right. split; [right; split; [exact Hin|exact Hn]|].
  intros n' Hn'. congruence.
Qed.
(* what is still there was there *)
Definition sub (h h0 : heap) : Prop := forall x n, h x = Some n -> h0 x = Some n.
Lemma del_sub c A s s' h0 : del_step c A s s' -> sub (hp s) h0 -> sub (hp s') h0.
Proof. intros H Hs x n Hx. destruct (H x) as [E|(E & _)]; [apply Hs; congruence|congruence]. Qed.

Definition reset_ok (c : ctx) (h0 : heap) (f : nat) : Prop :=
  forall s a, good_alloc s -> sub (hp s) h0 ->
    good_alloc (fst (h_reset f c s a)) /\ del_step c (addrs f h0 a) s (fst (h_reset f c s a)).

Lemma reset_list_spec c h0 f : reset_ok c h0 f -> forall ks s, good_alloc s -> sub (hp s) h0 ->
  good_alloc (fst (reset_list (h_reset f c) ks s)) /\ del_step c (flat_map (addrs f h0) ks) s (fst (reset_list (h_reset f c) ks s)).
Proof.
  intros IH. induction ks as [|k r IHk]; intros s Hg Hs; cbn [reset_list flat_map].
  - split; [exact Hg|apply del_refl].
  - destruct (IH s k Hg Hs) as [G1 D1]. destruct (h_reset f c s k) as [s1 go] eqn:E. cbn [fst] in G1, D1.
    assert (D1' : del_step c (addrs f h0 k ++ flat_map (addrs f h0) r) s s1) by (apply (del_mono c _ _ _ _ (incl_appl _ (incl_refl _)) D1)).
    destruct go; [|cbn [fst]; auto].
    destruct (IHk s1 G1 (del_sub c _ s s1 h0 D1 Hs)) as [G2 D2]. split; [exact G2|].
    apply (del_trans c _ s s1 _ D1'). apply (del_mono c _ _ _ _ (incl_appr _ (incl_refl _)) D2).
Qed.

Lemma h_reset_spec c h0 : forall f, reset_ok c h0 f.
Proof.
  induction f as [|f IH]; intros s a Hg Hs; cbn [h_reset].
  - cbn [fst]. split; [exact Hg|apply del_refl].
  - destruct (reset_list_spec c h0 f IH (kids (getn s a)) s Hg Hs) as [G1 D1].
    destruct (reset_list (h_reset f c) (kids (getn s a)) s) as [s1 go] eqn:E. cbn [fst] in G1, D1.
    destruct (hp s a) as [n|] eqn:Ea.
    + rewrite (getn_some s a n Ea) in D1. pose proof (Hs a n Ea) as H0. cbn [addrs]. rewrite H0.
      assert (D1' : del_step c (a :: flat_map (addrs f h0) (kids n)) s s1) by (apply (del_mono c _ _ _ _ (incl_tl a (incl_refl _)) D1)).
      destruct go; [|cbn [fst]; auto]. cbn [fst].
      destruct (h_free_spec c s1 a G1) as (G2 & Hoth & Hm). split; [exact G2|].
      apply (del_trans c _ s s1 _ D1'). intros x. destruct (Nat.eq_dec x a) as [->|Hne]; [|left; apply Hoth, Hne].
      destruct Hm as [Hm|(nm & Hnm & Ho & Hm)]; [left; exact Hm|]. right. split; [exact Hm|]. split; [left; reflexivity|]. exists nm. auto.
    + (* the node is not there: nothing happens *)
      assert (En : kids (getn s a) = []) by (unfold getn; rewrite Ea; reflexivity).
      rewrite En in E. cbn [reset_list] in E. inversion E; subst s1 go. cbn [fst].
      assert (Ef : h_free s c a = s) by (unfold h_free; rewrite Ea; reflexivity). rewrite Ef.
      split; [exact Hg|apply del_refl].
Qed.

(* Clear on one handle *)
Theorem h_clear_sim s hd b : good_alloc s ->
  good_alloc (fst (h_clear s hd b)) /\ habs (hp (fst (h_clear s hd b))) (snd (h_clear s hd b)) = Some iempty /\
  hctx (snd (h_clear s hd b)) = hctx hd /\
  step_ok (hctx hd) (hfp (hp s) hd) (hp s) (hp (fst (h_clear s hd b))) (hfp (hp (fst (h_clear s hd b))) (snd (h_clear s hd b))).
Proof.
  intros Hg. unfold h_clear. cbn [fst snd]. unfold habs, hfp. cbn [hroot hctx hlen].
  assert (Hnone : forall s', good_alloc s' -> wr (hctx hd) (match hroot hd with None => [] | Some r => addrs IFUEL (hp s) r end) (hp s) (hp s') ->
            good_alloc s' /\ Some {| iroot := None; ilen := 0 |} = Some iempty /\ hctx hd = hctx hd /\
            step_ok (hctx hd) (match hroot hd with None => [] | Some r => addrs IFUEL (hp s) r end) (hp s) (hp s') []).
  { intros s' G W. split; [exact G|]. split; [reflexivity|]. split; [reflexivity|]. split; [exact W|intros x []]. }
  destruct (hroot hd) as [r|]; [|apply Hnone; [exact Hg|apply wr_refl]].
  destruct b; [|apply Hnone; [exact Hg|apply wr_refl]].
  destruct (h_reset_spec (hctx hd) (hp s) IFUEL s r Hg (fun x n H => H)) as [G D].
  apply Hnone; [exact G|apply del_wr, D].
Qed.
