(* C14: the cases the driver evaluates (definitions; C14_Check.v adds case_accept and case_sound).
   A case is either one direct call of pipe.NormalizeSlotIndex, or one forced schedule of one executor: the list of
   things the harness did and saw, in the order of a global atomic counter (submit with the outcome the caller was
   told, callee start/end with the lane index it was passed, Stop, context cancellation, what each caller received,
   WaitStop / wait group returned), interleaved with the labels the harness resolved itself (Skip, Exit, which ready
   select case a caller took).
   case_matches: the sequence is a run of the lane-family LTS (C14_Multi over C14_Exec), every observation equals what the
                 model state says, and the run is complete.
   case_holds:   a monitor over the OBSERVED items only - the clauses of C14 as the property states them. *)
From Coq Require Import List Bool Arith ZArith Lia.
Require Export Slot C14_Exec C14_Multi.
Import ListNotations.
Close Scope Z_scope.

Inductive exec := XLine | XMulti | XRunner | XProc.
Definition kind_of (x : exec) : kind := match x with XLine => KLine | XMulti => KLine | XRunner => KRunner | XProc => KProc end.

Inductive item :=
| ISub (c : nat) (r : subres)              (* observed: what AsyncCall's enqueue told caller c *)
| IStart (i : Z) (c : nat)                 (* observed: the callee of c was entered; i = lane index it was passed (0 for single-lane executors) *)
| IEnd (i : Z) (c : nat)                   (* observed: the callee of c returned *)
| ISkip (i : nat) (c : nat)                (* resolved: the worker took c with a done context and did not call it *)
| IStop                                    (* the harness called Stop *)
| ICancel (c : nat)                        (* the harness cancelled the context of c *)
| IGot (c : nat) (from : src) (a : answer) (* observed: caller c returned a; resolved: which select case *)
| IExit (i : nat)                          (* resolved: lane goroutine i returned *)
| IWait                                    (* observed: WaitStop / the wait group returned *)
| IHang (what : nat).                      (* observed: something that had to happen did not happen within the bound *)

(* id, hash, the callee returns an error, IndexOf(hash) as the executor reports it (0 for single-lane executors) *)
Definition callinfo := (nat * Z * bool * Z)%type.
Definition ci_id (x : callinfo) : nat := fst (fst (fst x)).
Definition ci_hash (x : callinfo) : Z := snd (fst (fst x)).
Definition ci_fail (x : callinfo) : bool := snd (fst x).
Definition ci_idx (x : callinfo) : Z := snd x.

Inductive case :=
| CSlot (h n : Z) (r : option Z)           (* NormalizeSlotIndex(h, n) returned r; None = panicked *)
| CRun (x : exec) (lanes : Z) (qsize : nat) (fifo : bool) (calls : list callinfo) (tr : list item).

(* ---------------- NormalizeSlotIndex ---------------- *)
Definition slot_model (h n : Z) : option Z := if (n =? 0)%Z then None else Some (slot_new h n).
Definition in64b (x : Z) : bool := ((MinInt <=? x) && (x <=? MaxInt))%Z.
Definition optz_eqb (a b : option Z) : bool :=
  match a, b with Some x, Some y => (x =? y)%Z | None, None => true | _, _ => false end.
Definition slot_holds (h n : Z) (r : option Z) : bool :=
  if (1 <=? n)%Z then match r with Some v => ((0 <=? v) && (v <? n))%Z | None => false end else true.

(* ---------------- tables ---------------- *)
Fixpoint find_call (calls : list callinfo) (c : nat) : option callinfo :=
  match calls with [] => None | x :: r => if Nat.eqb (ci_id x) c then Some x else find_call r c end.
Definition hash_of (x : exec) (calls : list callinfo) (c : nat) : Z :=
  match x with XMulti => match find_call calls c with Some ci => ci_hash ci | None => 0%Z end | _ => 0%Z end.
Definition valf (calls : list callinfo) (c : nat) : nat :=
  2 * c + match find_call calls c with Some ci => if ci_fail ci then 1 else 0 | None => 0 end.
Definition idx_of (calls : list callinfo) (c : nat) : Z :=
  match find_call calls c with Some ci => ci_idx ci | None => (-1)%Z end.

Definition subres_eqb (a b : subres) : bool :=
  match a, b with SAcc, SAcc => true | SFull, SFull => true | SClosed, SClosed => true | _, _ => false end.
Definition answer_eqb (a b : answer) : bool :=
  match a, b with
  | Val x, Val y => Nat.eqb x y | CtxErr x, CtxErr y => Nat.eqb x y | StopErr, StopErr => true | Weird x, Weird y => Nat.eqb x y
  | _, _ => false
  end.
Definition memb (c : nat) (l : list nat) : bool := existsb (Nat.eqb c) l.
Fixpoint nodupb (l : list nat) : bool := match l with [] => true | x :: r => negb (memb x r) && nodupb r end.

(* ---------------- the replay in the model ---------------- *)
Section Replay.
Variables (x : exec) (lanes : Z) (qsize : nat) (calls : list callinfo).
Let val := valf calls.
Let hf := hash_of x calls.
Let ms := mstep val lanes hf.
Let ln (c : nat) : nat := lane_of lanes hf c.

Definition interest : list nat := 0 :: map (fun ci => ln (ci_id ci)) calls.

Definition replay_item (F : fam) (it : item) : option fam :=
  match it with
  | ISub c r =>
      match find_call calls c, ms F (MSub c) with
      | Some _, Some F' => match outcome (F' (ln c)) c with Some r' => if subres_eqb r r' then Some F' else None | None => None end
      | _, _ => None
      end
  | IStart i c =>
      if (0 <=? i)%Z then
        match ms F (MOn (Z.to_nat i) Pop) with
        | Some F' => match worker (F' (Z.to_nat i)) with Some c' => if Nat.eqb c c' then Some F' else None | None => None end
        | None => None
        end
      else None
  | IEnd i c =>
      if (0 <=? i)%Z then
        match worker (F (Z.to_nat i)) with
        | Some c' => if Nat.eqb c c' then ms F (MOn (Z.to_nat i) Done) else None
        | None => None
        end
      else None
  | ISkip j c =>
      match queue (F j) with
      | c' :: _ => if Nat.eqb c c' then ms F (MOn j Skip) else None
      | [] => None
      end
  | IStop => ms F MStop
  | ICancel c => match find_call calls c with Some _ => ms F (MOn (ln c) (Cancel c)) | None => None end
  | IGot c fr a =>
      match ms F (MOn (ln c) (Recv c fr)) with
      | Some F' => match got (F' (ln c)) c with Some a' => if answer_eqb a a' then Some F' else None | None => None end
      | None => None
      end
  | IExit j => ms F (MOn j Exit)
  | IWait => if forallb (fun j => exited (F j)) interest then Some F else None
  | IHang _ => None
  end.

Definition replay (tr : list item) : option fam :=
  fold_left (fun o it => match o with Some F => replay_item F it | None => None end) tr (Some (init (kind_of x) qsize)).

Definition is_wait (it : item) : bool := match it with IWait => true | _ => false end.

Definition table_ok : bool :=
  nodupb (map ci_id calls) && in64b lanes && (1 <=? lanes)%Z &&
  forallb (fun ci => in64b (ci_hash ci) &&
                     match x with XMulti => (ci_idx ci =? slot_new (ci_hash ci) lanes)%Z | _ => (ci_idx ci =? 0)%Z end) calls &&
  match x with XMulti => true | _ => (lanes =? 1)%Z end.

(* the sequence is a run of the model, every observation agrees with it, the run is complete: WaitStop returned,
   every lane a call was routed to has exited, every caller of an accepted call has returned *)
Definition model_matches (tr : list item) : bool :=
  table_ok &&
  match replay tr with
  | Some F =>
      existsb is_wait tr &&
      forallb (fun j => exited (F j)) interest &&
      forallb (fun ci => let c := ci_id ci in
                 match outcome (F (ln c)) c with
                 | Some SAcc => match got (F (ln c)) c with Some _ => true | None => false end
                 | _ => true
                 end) calls
  | None => false
  end.
End Replay.

(* ---------------- the monitor: the clauses of C14 on what was observed ---------------- *)
Record mon := {
  m_ok : bool;
  m_stopped : bool;                 (* Stop was called *)
  m_subm : list nat;                (* calls submitted *)
  m_acc : list nat;                 (* calls whose caller was told "accepted", in that order *)
  m_pend : list nat;                (* accepted, not yet seen starting (and not passed over), in acceptance order *)
  m_canc : list nat;                (* calls whose context the harness has cancelled *)
  m_begun : list nat;               (* calls whose callee was entered *)
  m_ended : list nat;               (* calls whose callee returned *)
  m_got : list nat;                 (* callers that have returned *)
  m_open : list (Z * nat);          (* lane index -> the call running on it *)
  m_waited : bool
}.
Definition mon0 : mon :=
  {| m_ok := true; m_stopped := false; m_subm := []; m_acc := []; m_pend := []; m_canc := []; m_begun := []; m_ended := [];
     m_got := []; m_open := []; m_waited := false |}.
Definition bad (m : mon) : mon :=
  {| m_ok := false; m_stopped := m_stopped m; m_subm := m_subm m; m_acc := m_acc m; m_pend := m_pend m; m_canc := m_canc m;
     m_begun := m_begun m; m_ended := m_ended m; m_got := m_got m; m_open := m_open m; m_waited := m_waited m |}.

Fixpoint split_at (c : nat) (l : list nat) : option (list nat * list nat) :=
  match l with
  | [] => None
  | y :: r => if Nat.eqb y c then Some ([], r) else match split_at c r with Some (a, b) => Some (y :: a, b) | None => None end
  end.
Definition lane_busy (i : Z) (o : list (Z * nat)) : bool := existsb (fun e => (fst e =? i)%Z) o.
Definition open_has (i : Z) (c : nat) (o : list (Z * nat)) : bool := existsb (fun e => (fst e =? i)%Z && Nat.eqb (snd e) c) o.
Definition open_del (i : Z) (o : list (Z * nat)) : list (Z * nat) := filter (fun e => negb (fst e =? i)%Z) o.

Section Monitor.
Variables (x : exec) (lanes : Z) (fifo : bool) (calls : list callinfo).
Let val := valf calls.
Let idx := idx_of calls.
Definition may_skip : bool := match x with XRunner => true | XProc => true | _ => false end.
Definition is_xproc : bool := match x with XProc => true | _ => false end.

Definition mon_step (m : mon) (it : item) : mon :=
  match it with
  | ISub c r =>
      if negb (match find_call calls c with Some _ => true | None => false end) || memb c (m_subm m) then bad m else
      match r with
      | SAcc =>
          (* after Stop no new call is accepted *)
          if m_stopped m then bad m else
          {| m_ok := m_ok m; m_stopped := m_stopped m; m_subm := c :: m_subm m; m_acc := m_acc m ++ [c]; m_pend := m_pend m ++ [c];
             m_canc := m_canc m; m_begun := m_begun m; m_ended := m_ended m; m_got := m_got m; m_open := m_open m; m_waited := m_waited m |}
      | _ =>
          {| m_ok := m_ok m; m_stopped := m_stopped m; m_subm := c :: m_subm m; m_acc := m_acc m; m_pend := m_pend m;
             m_canc := m_canc m; m_begun := m_begun m; m_ended := m_ended m; m_got := m_got m; m_open := m_open m; m_waited := m_waited m |}
      end
  | IStart i c =>
      (* only an accepted call runs, at most once, on the lane its hash selects, whose index is in range and is the one passed;
         the lane is not running anything else *)
      if negb (memb c (m_acc m)) || memb c (m_begun m) || negb (i =? idx c)%Z || negb ((0 <=? i) && (i <? lanes))%Z || lane_busy i (m_open m)
      then bad m else
      (* calls on one lane start in the order they were accepted (a runner may pass over calls whose context was done) *)
      let pend' :=
        if fifo then
          match split_at c (m_pend m) with
          | Some (before, after) =>
              if forallb (fun d => negb (idx d =? i)%Z || (may_skip && memb d (m_canc m))) before
              then Some (filter (fun d => negb (idx d =? i)%Z) before ++ after) else None
          | None => None
          end
        else Some (m_pend m) in
      match pend' with
      | Some p =>
          {| m_ok := m_ok m; m_stopped := m_stopped m; m_subm := m_subm m; m_acc := m_acc m; m_pend := p;
             m_canc := m_canc m; m_begun := c :: m_begun m; m_ended := m_ended m; m_got := m_got m; m_open := (i, c) :: m_open m; m_waited := m_waited m |}
      | None => bad m
      end
  | IEnd i c =>
      if open_has i c (m_open m) then
          {| m_ok := m_ok m; m_stopped := m_stopped m; m_subm := m_subm m; m_acc := m_acc m; m_pend := m_pend m;
             m_canc := m_canc m; m_begun := m_begun m; m_ended := c :: m_ended m; m_got := m_got m; m_open := open_del i (m_open m); m_waited := m_waited m |}
      else bad m
  | ISkip _ _ => m
  | IExit _ => m
  | IStop =>
          {| m_ok := m_ok m; m_stopped := true; m_subm := m_subm m; m_acc := m_acc m; m_pend := m_pend m;
             m_canc := m_canc m; m_begun := m_begun m; m_ended := m_ended m; m_got := m_got m; m_open := m_open m; m_waited := m_waited m |}
  | ICancel c =>
          {| m_ok := m_ok m; m_stopped := m_stopped m; m_subm := m_subm m; m_acc := m_acc m; m_pend := m_pend m;
             m_canc := c :: m_canc m; m_begun := m_begun m; m_ended := m_ended m; m_got := m_got m; m_open := m_open m; m_waited := m_waited m |}
  | IGot c _ a =>
      (* the caller of an accepted call receives, once, the result of its own completed call or its own context's error
         (ProcChan: or ErrClosed once Stop was called) *)
      if negb (memb c (m_acc m)) || memb c (m_got m) ||
         negb (match a with
               | Val v => Nat.eqb v (val c) && memb c (m_ended m)
               | CtxErr c' => Nat.eqb c' c && memb c (m_canc m)
               | StopErr => is_xproc && m_stopped m
               | Weird _ => false
               end)
      then bad m else
          {| m_ok := m_ok m; m_stopped := m_stopped m; m_subm := m_subm m; m_acc := m_acc m; m_pend := m_pend m;
             m_canc := m_canc m; m_begun := m_begun m; m_ended := m_ended m; m_got := c :: m_got m; m_open := m_open m; m_waited := m_waited m |}
  | IWait =>
      if m_stopped m then
          {| m_ok := m_ok m; m_stopped := m_stopped m; m_subm := m_subm m; m_acc := m_acc m; m_pend := m_pend m;
             m_canc := m_canc m; m_begun := m_begun m; m_ended := m_ended m; m_got := m_got m; m_open := m_open m; m_waited := true |}
      else bad m
  | IHang _ => bad m
  end.

Definition same_hash_same_lane : bool :=
  forallb (fun a => forallb (fun b => negb (ci_hash a =? ci_hash b)%Z || (ci_idx a =? ci_idx b)%Z) calls) calls.

Definition holds_run (tr : list item) : bool :=
  let m := fold_left mon_step tr mon0 in
  m_ok m && nodupb (map ci_id calls) && same_hash_same_lane &&
  (* the lane goroutines terminated, nothing is still running *)
  m_waited m && match m_open m with [] => true | _ => false end &&
  (* every caller of an accepted call has returned; Line / MultiLine / RunnerQ: every accepted call completed
     (a runner does not call a call whose context was done: that call's caller has its context's error) *)
  forallb (fun c => memb c (m_got m) &&
                    (is_xproc || memb c (m_ended m) || (may_skip && memb c (m_canc m) && negb (memb c (m_begun m))))) (m_acc m).
End Monitor.

Definition case_holds (c : case) : bool :=
  match c with
  | CSlot h n r => slot_holds h n r
  | CRun x lanes qsize fifo calls tr => holds_run x lanes fifo calls tr
  end.

Definition case_matches (c : case) : bool :=
  match c with
  | CSlot h n r => in64b h && in64b n && optz_eqb r (slot_model h n)
  | CRun x lanes qsize fifo calls tr => model_matches x lanes qsize calls tr
  end.

(* for NormalizeSlotIndex the monitor follows from the model alone: slot_in_range *)
Theorem slot_matches_holds h n r : case_matches (CSlot h n r) = true -> case_holds (CSlot h n r) = true.
Proof.
  cbn [case_matches case_holds]. unfold slot_holds, slot_model, in64b. intros H.
  apply andb_prop in H. destruct H as [H Hr]. apply andb_prop in H. destruct H as [Hh Hn].
  destruct (1 <=? n)%Z eqn:E1; [|reflexivity]. apply Z.leb_le in E1.
  replace (n =? 0)%Z with false in Hr by (symmetry; apply Z.eqb_neq; lia).
  destruct r as [v|]; cbn [optz_eqb] in Hr; [|discriminate]. apply Z.eqb_eq in Hr. subst v.
  apply andb_prop in Hh. destruct Hh as [Hh1 Hh2]. apply andb_prop in Hn. destruct Hn as [Hn1 Hn2].
  apply Z.leb_le in Hh1, Hh2, Hn1, Hn2.
  assert (B : (0 <= slot_new h n < n)%Z) by (apply slot_in_range; unfold in64; lia).
  apply andb_true_intro. split; [apply Z.leb_le; lia|apply Z.ltb_lt; lia].
Qed.

