(* C13, condition-variable queues with thread identities and item values.
   One executable LTS for q.Q / async.Q / mux.Q (KPipe), mq.MQ (KMQ) and syncq.SyncQueue (KSync), at mutex
   granularity: one label per critical section (a call of a non-blocking method, the first pass of a pop loop,
   the pass of the loop a woken consumer runs after re-taking the lock).  Consumer threads are numbered; a thread
   makes one pop call (Idle -> (Waiting <-> Woken)* -> Done r).
   The abstract count model of CondQ.v is the shadow of this one (waiting / woken counts, number of items). *)
From Coq Require Import List Bool ZArith Arith Lia.
Import ListNotations.

Inductive kind := KPipe | KMQ | KSync.
Definition is_sync (k : kind) := match k with KSync => true | _ => false end.
Definition is_mq (k : kind) := match k with KMQ => true | _ => false end.

(* reqmax / ctrlmax: 0 = unbounded (WithSize / NewQ(size) / reqMaxNum / ctrlMaxNum); nthr: number of consumer threads *)
Record cfg := { knd : kind; reqmax : nat; ctrlmax : nat; nthr : nat }.

(* what a pop call returns: an item, or "closed" (ErrClosed; nil for SyncQueue).  RBogus stands for anything else an
   implementation might return (ErrSync, a nil item ...): the model never produces it *)
Inductive res := RItem (x : Z) | RClosed | RBogus.

(* a consumer thread; the flag is "anyway" (PopAnyway, or SyncQueue.Pop which also drains a closed queue) *)
Inductive cst := Idle | Waiting (a : bool) | Woken (a : bool) | Done (r : res).

(* added / taken are ghost history (accepted items in order of acceptance; items removed by TryPop) *)
Record st := { ctrl : list Z; req : list Z; closed : bool; cs : list cst; added : list Z; taken : list Z }.

(* ABogus: any other error an implementation might return; the model never produces it *)
Inductive ares := AOk | AClosed | AFull | ABogus.
Inductive out := ONone | OAdd (r : ares) | OBool (b : bool) | OTry (r : option res).

Inductive label :=
| LPop (t : nat) (a : bool)        (* thread t calls Pop (a = false) / PopAnyway (a = true): first pass of the loop under the lock *)
| LResume (t : nat)                (* woken thread t has re-taken the lock inside cond.Wait and runs the loop test again *)
| LAdd (x : Z) (w : option nat)    (* AddReq / Add / Push; w = the waiter Signal wakes (SyncQueue only; Broadcast wakes all) *)
| LAddPrior (x : Z)                (* AddPriorReq / AddPrior: front of the request list, no bound *)
| LAddCtrl (x : Z)                 (* MQ.AddCtrl *)
| LAddPriorCtrl (x : Z)            (* MQ.AddPriorCtrl *)
| LClose
| LTryClose                        (* MQ.TryClose *)
| LTryPop                          (* SyncQueue.TryPop *)
| LTryClear.                       (* MQ.TryClear: true exactly on a closed and drained queue (then it closes clearChan);
                                      "closed and empty" can never be left again, so the answer does not depend on
                                      the cleared flag and the queue state the consumers see is untouched *)
(* AddReqAnyway / AddAnyway / AddCtrlAnyway are retry loops (sleep, try again) around AddReq / Add / AddCtrl: every
   attempt is an LAdd / LAddCtrl; an attempt answered "full" leaves the state as it is (full_add_is_noop in
   C13_CondMore.v), so a trace lists only the last attempt of such a call *)

Definition getc (t : nat) (l : list cst) : cst := nth t l Idle.
Fixpoint upd (t : nat) (v : cst) (l : list cst) : list cst :=
  match l with
  | [] => []
  | a :: r => match t with O => v :: r | S t' => a :: upd t' v r end
  end.

Definition is_waiting (c : cst) := match c with Waiting _ => true | _ => false end.
Definition is_woken (c : cst) := match c with Woken _ => true | _ => false end.
Definition wake1 (c : cst) := match c with Waiting a => Woken a | _ => c end.

Definition set_cs (s : st) (c : list cst) : st :=
  {| ctrl := ctrl s; req := req s; closed := closed s; cs := c; added := added s; taken := taken s |}.
Definition wake_all (s : st) : st := set_cs s (map wake1 (cs s)).
Definition set_closed (s : st) : st :=
  {| ctrl := ctrl s; req := req s; closed := true; cs := cs s; added := added s; taken := taken s |}.
Definition set_lists (s : st) (c r : list Z) : st :=
  {| ctrl := c; req := r; closed := closed s; cs := cs s; added := added s; taken := taken s |}.
Definition note_added (s : st) (x : Z) : st :=
  {| ctrl := ctrl s; req := req s; closed := closed s; cs := cs s; added := added s ++ [x]; taken := taken s |}.
Definition note_taken (s : st) (x : Z) : st :=
  {| ctrl := ctrl s; req := req s; closed := closed s; cs := cs s; added := added s; taken := taken s ++ [x] |}.

(* may a consumer with flag a take an item in state s?  Pop of a pipe queue refuses once the queue is closed *)
Definition take_ok (k : kind) (a : bool) (s : st) : bool := negb (closed s) || a || is_sync k.

(* one pass of `for empty { if closed return ErrClosed; Wait }` followed by the tail of pop, run by thread t *)
Definition pop_body (k : kind) (a : bool) (t : nat) (s : st) : st :=
  match ctrl s, req s with
  | [], [] => if closed s then set_cs s (upd t (Done RClosed) (cs s)) else set_cs s (upd t (Waiting a) (cs s))
  | c :: cr, r => if take_ok k a s then set_cs (set_lists s cr r) (upd t (Done (RItem c)) (cs s))
                  else set_cs s (upd t (Done RClosed) (cs s))
  | [], r :: rr => if take_ok k a s then set_cs (set_lists s [] rr) (upd t (Done (RItem r)) (cs s))
                   else set_cs s (upd t (Done RClosed) (cs s))
  end.

Definition full (m : nat) (l : list Z) : bool := Nat.ltb 0 m && Nat.leb m (length l).

Definition step (c : cfg) (s : st) (l : label) : option (st * out) :=
  let k := knd c in
  match l with
  | LPop t a =>
      if Nat.ltb t (length (cs s)) then
        match getc t (cs s) with Idle => Some (pop_body k a t s, ONone) | _ => None end
      else None
  | LResume t =>
      match getc t (cs s) with Woken a => Some (pop_body k a t s, ONone) | _ => None end
  | LAdd x w =>
      if is_sync k then
        (* SyncQueue.Push: silently dropped once closed; Signal wakes one waiter *)
        if closed s then match w with None => Some (s, ONone) | Some _ => None end
        else
          let s1 := note_added (set_lists s (ctrl s) (req s ++ [x])) x in
          match w with
          | None => if existsb is_waiting (cs s) then None else Some (s1, ONone)
          | Some t => match getc t (cs s) with
                      | Waiting a => Some (set_cs s1 (upd t (Woken a) (cs s)), ONone)
                      | _ => None
                      end
          end
      else
        match w with
        | Some _ => None
        | None =>
            if closed s then Some (s, OAdd AClosed)
            else if full (reqmax c) (req s) then Some (s, OAdd AFull)
            else Some (wake_all (note_added (set_lists s (ctrl s) (req s ++ [x])) x), OAdd AOk)
        end
  | LAddPrior x =>
      if is_sync k then None
      else if closed s then Some (s, OAdd AClosed)
      else Some (wake_all (note_added (set_lists s (ctrl s) (x :: req s)) x), OAdd AOk)
  | LAddCtrl x =>
      if negb (is_mq k) then None
      else if closed s then Some (s, OAdd AClosed)
      else if full (ctrlmax c) (ctrl s) then Some (s, OAdd AFull)
      else Some (wake_all (note_added (set_lists s (ctrl s ++ [x]) (req s)) x), OAdd AOk)
  | LAddPriorCtrl x =>
      if negb (is_mq k) then None
      else if closed s then Some (s, OAdd AClosed)
      else Some (wake_all (note_added (set_lists s (x :: ctrl s) (req s)) x), OAdd AOk)
  | LClose =>
      if closed s then Some (s, ONone) else Some (wake_all (set_closed s), ONone)
  | LTryClose =>
      if negb (is_mq k) then None
      else if closed s then Some (s, OBool true)
      else match ctrl s, req s with
           | [], [] => Some (wake_all (set_closed s), OBool true)
           | _, _ => Some (s, OBool false)
           end
  | LTryPop =>
      if negb (is_sync k) then None
      else match req s with
           | x :: r => Some (note_taken (set_lists s (ctrl s) r) x, OTry (Some (RItem x)))
           | [] => if closed s then Some (s, OTry (Some RClosed)) else Some (s, OTry None)
           end
  | LTryClear =>
      if negb (is_mq k) then None
      else Some (s, OBool (closed s && match ctrl s, req s with [], [] => true | _, _ => false end))
  end.

Fixpoint run (c : cfg) (s : st) (ls : list label) : option st :=
  match ls with
  | [] => Some s
  | l :: r => match step c s l with Some (s', _) => run c s' r | None => None end
  end.

Definition init (c : cfg) : st :=
  {| ctrl := []; req := []; closed := false; cs := repeat Idle (nthr c); added := []; taken := [] |}.

(* ---------------- derived views ---------------- *)
Definition items (s : st) : list Z := ctrl s ++ req s.
Definition nwaiting (s : st) : nat := length (filter is_waiting (cs s)).
Definition nwoken (s : st) : nat := length (filter is_woken (cs s)).
Definition quiescent (s : st) : bool := negb (existsb is_woken (cs s)).

(* threads in a given condition, in thread order *)
Fixpoint tids_from (i : nat) (p : cst -> bool) (l : list cst) : list nat :=
  match l with [] => [] | c :: r => if p c then i :: tids_from (S i) p r else tids_from (S i) p r end.
Fixpoint dones_from (i : nat) (l : list cst) : list (nat * res) :=
  match l with [] => [] | Done r :: l' => (i, r) :: dones_from (S i) l' | _ :: l' => dones_from (S i) l' end.
Definition parked_of (s : st) : list nat := tids_from 0 is_waiting (cs s).
Definition dones_of (s : st) : list (nat * res) := dones_from 0 (cs s).
Definition res_items (l : list (nat * res)) : list Z :=
  flat_map (fun p => match snd p with RItem x => [x] | _ => [] end) l.

(* ---------------- traces: resolved labels with the observed call results, and quiescent observations ---------------- *)
Record obs := { o_ret : list (nat * res);      (* every consumer that has returned so far, with what it returned *)
                o_parked : list nat;           (* consumers seen parked in sync.Cond.Wait inside the queue's package *)
                o_stuck : list nat;            (* consumers neither returned nor parked after the generous bound *)
                o_len : option nat;            (* SyncQueue.Len() *)
                o_closed : option bool;        (* IsClosed() where the type has it *)
                o_wc : option bool }.          (* mux.Q / mq.MQ: has the goroutine blocked in WaitClose(ctx) returned?
                                                  (otherwise it was seen parked in WaitClose's select) *)
Inductive event := ELab (l : label) (o : out) | EObs (ob : obs).

Definition res_eqb (a b : res) : bool :=
  match a, b with RItem x, RItem y => Z.eqb x y | RClosed, RClosed => true | RBogus, RBogus => true | _, _ => false end.
Definition ares_eqb (a b : ares) : bool :=
  match a, b with AOk, AOk | AClosed, AClosed | AFull, AFull | ABogus, ABogus => true | _, _ => false end.
Definition out_eqb (a b : out) : bool :=
  match a, b with
  | ONone, ONone => true
  | OAdd x, OAdd y => ares_eqb x y
  | OBool x, OBool y => Bool.eqb x y
  | OTry None, OTry None => true
  | OTry (Some x), OTry (Some y) => res_eqb x y
  | _, _ => false
  end.
Fixpoint nats_eqb (x y : list nat) : bool :=
  match x, y with [], [] => true | a :: x', b :: y' => Nat.eqb a b && nats_eqb x' y' | _, _ => false end.
Fixpoint rets_eqb (x y : list (nat * res)) : bool :=
  match x, y with
  | [], [] => true
  | (a, r) :: x', (b, q) :: y' => Nat.eqb a b && res_eqb r q && rets_eqb x' y'
  | _, _ => false
  end.
Definition is_nil {A} (l : list A) : bool := match l with [] => true | _ => false end.

(* the model state agrees with a quiescent observation *)
Definition obs_ok (s : st) (ob : obs) : bool :=
  quiescent s
  && rets_eqb (dones_of s) (o_ret ob)
  && nats_eqb (parked_of s) (o_parked ob)
  && is_nil (o_stuck ob)
  && match o_len ob with Some n => Nat.eqb n (length (items s)) | None => true end
  && match o_closed ob with Some b => Bool.eqb b (closed s) | None => true end
  && match o_wc ob with Some b => Bool.eqb b (closed s) | None => true end.

(* replay: the resolved label sequence is a run of the model, every call returned what the model says, every
   quiescent observation is the model's *)
Fixpoint replay (c : cfg) (s : st) (tr : list event) : bool :=
  match tr with
  | [] => true
  | ELab l o :: r => match step c s l with
                     | Some (s', o') => out_eqb o o' && replay c s' r
                     | None => false
                     end
  | EObs ob :: r => obs_ok s ob && replay c s r
  end.

(* ---------------- the monitor: the property's clauses on the observations alone ---------------- *)
Record mon := { m_added : list Z;     (* items whose add was accepted (for SyncQueue.Push, which returns nothing: attempted) *)
                m_taken : list Z;     (* items handed out by TryPop *)
                m_closed : bool }.    (* a Close call (or a successful TryClose) has been made *)
Definition mon0 := {| m_added := []; m_taken := []; m_closed := false |}.

Definition mon_lab (k : kind) (m : mon) (l : label) (o : out) : mon :=
  match l, o with
  | LAdd x _, OAdd AOk | LAddPrior x, OAdd AOk | LAddCtrl x, OAdd AOk | LAddPriorCtrl x, OAdd AOk =>
      {| m_added := m_added m ++ [x]; m_taken := m_taken m; m_closed := m_closed m |}
  | LAdd x _, ONone => if is_sync k then {| m_added := m_added m ++ [x]; m_taken := m_taken m; m_closed := m_closed m |} else m
  | LClose, _ => {| m_added := m_added m; m_taken := m_taken m; m_closed := true |}
  | LTryClose, OBool true => {| m_added := m_added m; m_taken := m_taken m; m_closed := true |}
  | LTryPop, OTry (Some (RItem x)) => {| m_added := m_added m; m_taken := m_taken m ++ [x]; m_closed := m_closed m |}
  | _, _ => m
  end.

Fixpoint zmem (x : Z) (l : list Z) : bool := match l with [] => false | y :: r => Z.eqb x y || zmem x r end.
Fixpoint znodup (l : list Z) : bool := match l with [] => true | x :: r => negb (zmem x r) && znodup r end.
Definition zincl (a b : list Z) : bool := forallb (fun x => zmem x b) a.

Definition good_res (m : mon) (p : nat * res) : bool :=
  match snd p with RItem _ => true | RClosed => m_closed m | RBogus => false end.

(* at a quiescent point:
   - nobody is stuck; every return is an item or "closed" after a close was requested;
   - the items handed out are pairwise distinct and were added (k consumers, k distinct items);
   - if a consumer is parked then no close was requested, the queue does not report IsClosed, and no accepted item
     is still undelivered (no lost wake-up; close releases everybody) *)
Definition mon_obs (k : kind) (m : mon) (ob : obs) : bool :=
  let got := res_items (o_ret ob) ++ m_taken m in
  is_nil (o_stuck ob)
  && forallb (good_res m) (o_ret ob)
  && znodup got
  && zincl got (m_added m)
  && (is_nil (o_parked ob)
      || (negb (m_closed m)
          && match o_len ob with
             | Some n => Nat.eqb n 0
             | None => Nat.leb (length (m_added m)) (length got)
             end
          && match o_closed ob with Some true => false | _ => true end))
  (* a goroutine blocked in WaitClose returns exactly when a close was requested *)
  && match o_wc ob with Some b => Bool.eqb b (m_closed m) | None => true end.

Fixpoint monitor (k : kind) (m : mon) (tr : list event) : bool :=
  match tr with
  | [] => true
  | ELab l o :: r => monitor k (mon_lab k m l o) r
  | EObs ob :: r => mon_obs k m ob && monitor k m r
  end.

(* the harness uses distinct item values; the monitor's "distinct items" clause needs it *)
Fixpoint lab_items (tr : list event) : list Z :=
  match tr with
  | [] => []
  | ELab (LAdd x _) _ :: r | ELab (LAddPrior x) _ :: r | ELab (LAddCtrl x) _ :: r | ELab (LAddPriorCtrl x) _ :: r => x :: lab_items r
  | _ :: r => lab_items r
  end.

Definition cond_accept (c : cfg) (tr : list event) : bool := znodup (lab_items tr) && replay c (init c) tr.
Definition cond_holds (c : cfg) (tr : list event) : bool := monitor (knd c) mon0 tr.
