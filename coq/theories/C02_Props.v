(* C02 keylock: per-key RW mutual exclusion, key independence, ordered multi-key acquisition, reclaim.
   The property clause by clause, for EVERY label sequence of the complete locker model (C02_Model.v: the
   reference-counted table of lock objects on top of the per-object RWMutex machine of KeyLTS.v), for every
   routing function sh (any shard count, modulo or xxhash: the model only uses sh as a function key -> index;
   the single lockers are sh constant).  This file contains statements closed by `exact` only. *)
From Coq Require Import List Bool Arith ZArith Sorting.Sorted.
Require Import Progress KeyLTS KeyAgree KeyConv C02_Model C02_Table C02_Inv C02_Safety C02_Progress C02_Case C02_Sound C02_Complete C02_Check.
Import ListNotations.
Local Open Scope nat_scope.

(* ---- the tie: whatever the driver accepts satisfies the monitor ---- *)
Theorem c02_case_sound : forall c, case_accept c = true -> case_holds c = true.
Proof. exact case_sound. Qed.

(* THE MODEL MATCH IMPLIES THE WHOLE MONITOR: every clause of case_holds (hook counts and entry count, exclusion, returned is
   live, independence, progress of ordered programs, nothing blocked) follows from the replayed run; `drained` only says that
   the action list releases everybody (completion), which no run of a model can promise on the harness's behalf *)
Theorem c02_model_matches_holds : forall c, model_matches c = true -> drained c = true -> case_holds c = true.
Proof. exact model_matches_holds. Qed.

(* the model match ALONE implies two clauses of the monitor on every round: whoever has returned is a live caller, and
   among returned callers a key of a writer is a key of nobody else (all keys of a returned multi-key caller count) *)
Theorem c02_model_matches_safety : forall c, model_matches c = true -> safety_holds c = true.
Proof. exact model_matches_safety. Qed.

(* ---- the invariant of every reachable state (RWMutex objects, table, callers' own view) ---- *)
Theorem keylock_invariant : forall sh ls s, frun sh finit ls = Some s -> FInv s.
Proof. exact reachable_finv. Qed.

(* ---- same object: between registration and unlock of key k a caller works with the table's CURRENT object for k,
        and is counted in its mode: the entry is never freed while somebody uses or waits for it ---- *)
Theorem keylock_same_object : forall sh ls s t q k o, frun sh finit ls = Some s -> thr s t = Some q -> In (k, o) (tregd q) ->
  exists e, tmap (tb s) k = Some e /\ eobj e = o /\ 1 <= cnt (tw q) e.
Proof. exact same_object. Qed.

(* the unlock section never faults: lockMap[key] is non-nil, is the object this caller locked, its count is positive *)
Theorem keylock_unlock_never_faults : forall sh ls s t q, frun sh finit ls = Some s -> thr s t = Some q -> tstage q = SRel ->
  exists s', fstep sh s (FUnlock t) = Some s'.
Proof. exact unlock_enabled. Qed.

(* ---- exclusion: a key write-held by one caller is held by no other caller in any mode; read holds are shared only
        among readers ---- *)
Theorem keylock_exclusion : forall sh ls s t1 t2 k w1 w2, frun sh finit ls = Some s -> t1 <> t2 ->
  holds_key s t1 k w1 -> holds_key s t2 k w2 -> w1 = false /\ w2 = false.
Proof. exact key_exclusion. Qed.

(* a caller whose Lock/RLock/Locks/RLocks has returned holds ALL its keys at once: two returned callers that share a
   key are both readers *)
Theorem keylock_returned_hold_all : forall sh ls s t1 t2 q1 q2 k o1 o2, frun sh finit ls = Some s -> t1 <> t2 ->
  returned s t1 = true -> returned s t2 = true -> thr s t1 = Some q1 -> thr s t2 = Some q2 ->
  In (k, o1) (tregd q1) -> In (k, o2) (tregd q2) -> tw q1 = false /\ tw q2 = false.
Proof. exact returned_callers_exclude. Qed.

(* exclusion at the level of one RWMutex object, for every label sequence of the RWMutex machine *)
Theorem keylock_rwmutex_exclusion : forall ls s t1 t2 r1 r2 k, run init ls = Some s -> t1 <> t2 ->
  reqs s t1 = Some r1 -> reqs s t2 = Some r2 -> has_key r1 k -> has_key r2 k -> rwrite r1 = false /\ rwrite r2 = false.
Proof. exact exclusion. Qed.

(* ---- key independence ---- *)
(* distinct keys have distinct lock objects ... *)
Theorem keylock_distinct_objects : forall sh ls s t1 q1 t2 q2 k1 k2 o, frun sh finit ls = Some s ->
  thr s t1 = Some q1 -> thr s t2 = Some q2 -> In (k1, o) (tregd q1) -> In (k2, o) (tregd q2) -> k1 = k2.
Proof. exact keys_have_distinct_objects. Qed.
(* ... every step touches at most one lock object ... *)
Theorem keylock_one_object_per_step : forall sh s l s', fstep sh s l = Some s' ->
  exists o0, forall o, o <> o0 -> locks (base s') o = locks (base s) o.
Proof. exact one_object_per_step. Qed.
(* ... and a caller whose next lock nobody holds or waits for gets it by its own steps, whatever the state of every
   other lock (no table mutex is held across a blocking step: the model has no such lock to wait for) *)
Theorem keylock_uncontended_write : forall s t r n k,
  running s t = true -> reqs s t = Some r -> rphase r = Acq n -> nth_error (rkeys r) n = Some k -> rwrite r = true ->
  writer (locks s k) = None -> pending (locks s k) = None -> readers (locks s k) = [] -> tokens (locks s k) = 0 ->
  exists s1 s2, step s (Arrive t) = Some s1 /\ step s1 (Grant k) = Some s2 /\
                writer (locks s2 k) = Some t /\ reqs s2 t = Some (with_phase r (Acq (S n))) /\ running s2 t = true.
Proof. exact uncontended_write. Qed.
Theorem keylock_uncontended_read : forall s t r n k,
  running s t = true -> reqs s t = Some r -> rphase r = Acq n -> nth_error (rkeys r) n = Some k -> rwrite r = false ->
  writer (locks s k) = None -> pending (locks s k) = None ->
  exists s1, step s (Arrive t) = Some s1 /\ In t (readers (locks s1 k)) /\ reqs s1 t = Some (with_phase r (Acq (S n))) /\ running s1 t = true.
Proof. exact uncontended_read. Qed.

(* at a quiet state (no internal step enabled) a caller that has not returned shares a key, in a conflicting mode, with
   ANOTHER live caller: a caller on a key nobody else holds or waits for has returned, whatever else is locked *)
Theorem keylock_independence : forall sh ls s t q, frun sh finit ls = Some s -> fquiet s -> thr s t = Some q -> returned s t = false ->
  exists t' q' k o o', t' <> t /\ thr s t' = Some q' /\ In (k, o) (tregd q) /\ In (k, o') (tregd q') /\ (tw q = true \/ tw q' = true).
Proof. exact quiet_independence. Qed.

(* ---- ordered multi-key calls ---- *)
(* NO DEADLOCK, on the LTS itself: if every call's list is increasing in the key order then in every reachable quiet state
   with somebody inside the locker somebody has returned (and can unlock) - any number of callers (below some bound nt on
   the ids in use), any keys, any routing function, the strict RWMutex rules (readers blocked behind announced writers) *)
Theorem keylock_no_deadlock : forall sh ls s nt, frun sh finit ls = Some s -> Forall ordered_label ls -> fquiet s ->
  (forall t, nt <= t -> thr s t = None) -> (exists t, thr s t <> None) -> exists t, returned s t = true.
Proof. exact quiet_progress. Qed.
(* the RWMutex machine's converse invariants (holders are live requests, parked callers are queued, token bounds) *)
Theorem keylock_rwmutex_converse : forall s l s', Conv s -> step s l = Some s' -> Conv s'.
Proof. exact conv_step. Qed.

(* caller lists increasing in the key order are acquired, by every locker and for every routing, in an order that is
   increasing in ONE global order, (shard index, key); for the single lockers it is the list itself *)
Theorem keylock_group_order : forall sh l, StronglySorted lt l -> StronglySorted (lexlt sh) (acq_order sh l).
Proof. exact acq_order_sorted. Qed.
Theorem keylock_single_order : forall sh l, (forall a b, sh a = sh b) -> acq_order sh l = l.
Proof. exact acq_order_single. Qed.
(* progress: among requests that take their keys in increasing order either one holds everything (and can unlock) or
   some grant is enabled - under the strictest rule for readers, hence under every weaker one *)
Theorem keylock_ordered_no_deadlock : forall ts : list Progress.thr, ts <> [] -> (forall t, In t ts -> Progress.wf t) ->
  (exists t, In t ts /\ Progress.holding_all t) \/ (exists t, In t ts /\ Progress.can_grant ts t = true).
Proof. exact ordered_no_deadlock. Qed.
(* the precondition is necessary: rotated key orders do deadlock (what RandCrazyB* exhibits) *)
Theorem keylock_rotated_deadlocks :
  let ts := [ {| Progress.keys := [1; 2]%Z; Progress.pos := 1; Progress.wr := true |};
              {| Progress.keys := [2; 1]%Z; Progress.pos := 1; Progress.wr := true |} ] in
  forallb (fun t => negb (Progress.can_grant ts t)) ts = true /\
  forallb (fun t => negb (Nat.eqb (Progress.pos t) (length (Progress.keys t)))) ts = true.
Proof. exact rotated_order_deadlocks. Qed.

(* the lock queues agree with the threads' own view: whoever a lock is about to wake is parked on it, in that mode *)
Theorem keylock_grant_guard_redundant : forall ls s k w, run init ls = Some s -> pending (locks s k) = Some w ->
  exists r n, waits_on s w k true = Some (r, n).
Proof. exact grant_guard_redundant. Qed.
Theorem keylock_token_guard_redundant : forall ls s k i x, run init ls = Some s -> nth_error (rblocked (locks s k)) i = Some x ->
  exists r n, waits_on s x k false = Some (r, n).
Proof. exact token_guard_redundant. Qed.

(* ---- reclaim: per-key state exists exactly while some caller is registered on the key; none when all are released ---- *)
Theorem keylock_entry_iff_registered : forall sh ls s k, frun sh finit ls = Some s ->
  (tmap (tb s) k <> None <-> exists t q o, thr s t = Some q /\ In (k, o) (tregd q)).
Proof. exact entry_iff_registered. Qed.
Theorem keylock_reclaim : forall sh ls s, frun sh finit ls = Some s -> (forall t, thr s t = None) -> forall k, tmap (tb s) k = None.
Proof. exact reclaim. Qed.

(* ---- non-vacuity: a run of a two-shard group with waiting writer and reader, ending with an empty table ---- *)
Theorem keylock_demo : exists s, frun demo_sh finit
  [FCall 1 [0; 1] true; FReg 1; FReg 1; FArrive 1; FGrant 0; FArrive 1; FGrant 1; FArrive 1;
   FCall 2 [1] true; FReg 2; FArrive 2; FCall 3 [0] false; FReg 3; FArrive 3;
   FRelease 1; FUnlock 1; FAnnounce 0 0; FGrant 0; FArrive 2; FUnlock 1; FToken 1 0; FArrive 3;
   FRelease 2; FUnlock 2; FRelease 3; FUnlock 3] = Some s
  /\ (forall k, k < 4 -> tmap (tb s) k = None) /\ tregs (tb s) = [] /\ tnext (tb s) = 2.
Proof. exact demo_full. Qed.

Print Assumptions c02_case_sound.
Print Assumptions c02_model_matches_holds.
Print Assumptions c02_model_matches_safety.
Print Assumptions keylock_invariant.
Print Assumptions keylock_same_object.
Print Assumptions keylock_unlock_never_faults.
Print Assumptions keylock_exclusion.
Print Assumptions keylock_returned_hold_all.
Print Assumptions keylock_rwmutex_exclusion.
Print Assumptions keylock_distinct_objects.
Print Assumptions keylock_one_object_per_step.
Print Assumptions keylock_uncontended_write.
Print Assumptions keylock_uncontended_read.
Print Assumptions keylock_independence.
Print Assumptions keylock_no_deadlock.
Print Assumptions keylock_rwmutex_converse.
Print Assumptions keylock_group_order.
Print Assumptions keylock_single_order.
Print Assumptions keylock_ordered_no_deadlock.
Print Assumptions keylock_rotated_deadlocks.
Print Assumptions keylock_grant_guard_redundant.
Print Assumptions keylock_token_guard_redundant.
Print Assumptions keylock_entry_iff_registered.
Print Assumptions keylock_reclaim.
Print Assumptions keylock_demo.
