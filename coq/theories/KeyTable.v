(* C02 core: the reference-counted table of per-key lock objects - no object is freed while in use, none is kept *)
From Coq Require Import ZArith List Bool Lia Arith.
Import ListNotations.

Record reg := { rt : nat; rk : Z; ro : nat }.                  (* thread, key, lock object *)
Record st := { table : Z -> option (nat * nat); regs : list reg; next : nat }.   (* key -> (object, count) *)

Definition updt (m : Z -> option (nat * nat)) (k : Z) (v : option (nat * nat)) := fun x => if Z.eqb x k then v else m x.
Definition countk (k : Z) (l : list reg) : nat := length (filter (fun r => Z.eqb (rk r) k) l).

(* the table section of Lock/RLock/getWriteLocks for one key: create or reuse, count++ *)
Definition reg1 (s : st) (t : nat) (k : Z) : st :=
  match table s k with
  | Some (o, c) => {| table := updt (table s) k (Some (o, S c)); regs := {| rt := t; rk := k; ro := o |} :: regs s; next := next s |}
  | None => {| table := updt (table s) k (Some (next s, 1)); regs := {| rt := t; rk := k; ro := next s |} :: regs s; next := S (next s) |}
  end.

Fixpoint remove_reg (t : nat) (k : Z) (l : list reg) : list reg :=
  match l with
  | [] => []
  | r :: l' => if Nat.eqb (rt r) t && Z.eqb (rk r) k then l' else r :: remove_reg t k l'
  end.

(* the table section of Unlock/RUnlock for one key: count--, tryFree *)
Definition unl1 (s : st) (t : nat) (k : Z) : option st :=
  match table s k with
  | None => None                                   (* the Go code would dereference a nil entry *)
  | Some (o, c) =>
    Some {| table := updt (table s) k (match c with 1 => None | _ => Some (o, pred c) end);
            regs := remove_reg t k (regs s); next := next s |}
  end.

Definition Inv (s : st) : Prop :=
  forall k, match table s k with
            | Some (o, c) => 1 <= c /\ c = countk k (regs s) /\ (forall r, In r (regs s) -> rk r = k -> ro r = o) /\ o < next s
            | None => countk k (regs s) = 0
            end.

Lemma countk_cons k r l : countk k (r :: l) = (if Z.eqb (rk r) k then 1 else 0) + countk k l.
Proof. unfold countk. cbn. destruct (Z.eqb (rk r) k); reflexivity. Qed.

Lemma reg1_inv s t k : Inv s -> Inv (reg1 s t k).
Proof.
  intros H x. unfold reg1. pose proof (H k) as Hk. pose proof (H x) as Hx.
  destruct (table s k) as [[o c]|] eqn:Ek; cbn [table regs next]; unfold updt;
    destruct (Z.eqb_spec x k) as [->|Hne].
  - rewrite countk_cons. cbn [rk]. rewrite Z.eqb_refl. destruct Hk as (H1 & H2 & H3 & H4).
    repeat split; try lia. intros r [<-|Hr] Hrk; cbn; auto.
  - rewrite countk_cons. cbn [rk]. replace (Z.eqb k x) with false by (symmetry; apply Z.eqb_neq; congruence).
    destruct (table s x) as [[o' c']|]; cbn; auto.
    destruct Hx as (H1 & H2 & H3 & H4). repeat split; auto. intros r [<-|Hr] Hrk; cbn in *; [congruence|auto].
  - rewrite countk_cons. cbn [rk]. rewrite Z.eqb_refl. rewrite Hk. repeat split; try lia.
    intros r [<-|Hr] Hrk; cbn; auto. exfalso.
    unfold countk in Hk. assert (In r (filter (fun r0 => Z.eqb (rk r0) k) (regs s))) by (apply filter_In; split; auto; now apply Z.eqb_eq).
    destruct (filter _ (regs s)); [contradiction|discriminate].
  - rewrite countk_cons. cbn [rk]. replace (Z.eqb k x) with false by (symmetry; apply Z.eqb_neq; congruence).
    destruct (table s x) as [[o' c']|]; cbn; auto.
    destruct Hx as (H1 & H2 & H3 & H4). repeat split; auto; try lia. intros r [<-|Hr] Hrk; cbn in *; [congruence|auto].
Qed.

Lemma countk_remove_same t k l : (exists r, In r l /\ rt r = t /\ rk r = k) -> S (countk k (remove_reg t k l)) = countk k l.
Proof.
  induction l as [|r l IH]; intros (r0 & Hin & Ht & Hk); [destruct Hin|]. cbn [remove_reg].
  destruct (Nat.eqb (rt r) t && Z.eqb (rk r) k) eqn:E.
  - apply andb_prop in E as [_ E]. rewrite countk_cons, E. reflexivity.
  - rewrite !countk_cons. destruct Hin as [->|Hin].
    + rewrite Ht, Hk, Nat.eqb_refl, Z.eqb_refl in E. discriminate.
    + rewrite <- IH by eauto. lia.
Qed.
Lemma countk_remove_other t k x l : x <> k -> countk x (remove_reg t k l) = countk x l.
Proof.
  intros Hne. induction l as [|r l IH]; [reflexivity|]. cbn [remove_reg].
  destruct (Nat.eqb (rt r) t && Z.eqb (rk r) k) eqn:E.
  - apply andb_prop in E as [_ E]. apply Z.eqb_eq in E. rewrite countk_cons.
    replace (Z.eqb (rk r) x) with false by (symmetry; apply Z.eqb_neq; congruence). reflexivity.
  - rewrite !countk_cons, IH. reflexivity.
Qed.
Lemma in_remove_reg t k r l : In r (remove_reg t k l) -> In r l.
Proof.
  induction l as [|r0 l IH]; cbn; auto. destruct (Nat.eqb (rt r0) t && Z.eqb (rk r0) k); cbn; [auto|].
  intros [->|H]; auto.
Qed.

Lemma unl1_inv s t k s' : Inv s -> (exists r, In r (regs s) /\ rt r = t /\ rk r = k) -> unl1 s t k = Some s' -> Inv s'.
Proof.
  intros H Hreg Hu x. unfold unl1 in Hu. pose proof (H k) as Hk. pose proof (H x) as Hx.
  destruct (table s k) as [[o c]|] eqn:Ek; [|discriminate]. inversion Hu; subst; clear Hu. cbn [table regs next]. unfold updt.
  destruct Hk as (H1 & H2 & H3 & H4). pose proof (countk_remove_same t k (regs s) Hreg) as Hc.
  destruct (Z.eqb_spec x k) as [->|Hne].
  - destruct c as [|[|c]]; [lia| |].
    + lia.
    + cbn [pred]. repeat split; try lia. intros r Hr Hrk. apply H3; auto. eapply in_remove_reg; eauto.
  - rewrite (countk_remove_other t k x _ Hne).
    destruct (table s x) as [[o' c']|]; auto. destruct Hx as (A & B & C & D). repeat split; auto.
    intros r Hr Hrk. apply C; auto. eapply in_remove_reg; eauto.
Qed.

(* a registered thread always finds the entry, and it is the object it registered with *)
Theorem same_object s r : Inv s -> In r (regs s) -> exists c, table s (rk r) = Some (ro r, c) /\ 1 <= c.
Proof.
  intros H Hin. pose proof (H (rk r)) as Hk. destruct (table s (rk r)) as [[o c]|].
  - destruct Hk as (H1 & _ & H3 & _). rewrite (H3 r Hin eq_refl). eauto.
  - exfalso. unfold countk in Hk.
    assert (In r (filter (fun r0 => Z.eqb (rk r0) (rk r)) (regs s))) by (apply filter_In; split; auto; apply Z.eqb_refl).
    destruct (filter _ (regs s)); [contradiction|discriminate].
Qed.

(* reclaim: when nobody is registered the table is empty *)
Theorem reclaim s : Inv s -> regs s = [] -> forall k, table s k = None.
Proof.
  intros H Hr k. pose proof (H k) as Hk. destruct (table s k) as [[o c]|]; auto.
  destruct Hk as (H1 & H2 & _). rewrite Hr in H2. cbn in H2. lia.
Qed.
Print Assumptions unl1_inv.
Print Assumptions same_object.
