(* C14: one serial lane (bounded queue, one worker draining it with PopAnyway, a private result slot per call,
   Stop = close the queue).  Over all label sequences: calls never overlap, start in acceptance order, run at
   most once, every caller gets its own result or its own context's error, nothing is accepted after Stop,
   and after Stop the lane drains and its goroutine exits *)
From Coq Require Import List Bool Arith Lia.
Import ListNotations.

Inductive event := EStart (c : nat) | EEnd (c : nat).
Inductive answer := Val (v : nat) | CtxErr.

Record lane := {
  cap : nat;                      (* queue size; 0 = unbounded *)
  queue : list nat;               (* accepted and not yet started, oldest first *)
  closed : bool;                  (* Stop has closed the queue *)
  worker : option nat;            (* the call the lane goroutine is executing *)
  exited : bool;                  (* the lane goroutine has returned *)
  slot : nat -> option nat;       (* the buffered result channel of call c *)
  cancelled : nat -> bool;        (* the context of call c is done *)
  got : nat -> option answer;     (* what the caller of c has received *)
  seen : list nat;                (* every call id ever submitted (accepted or refused) *)
  accepted : list nat;            (* ghost: calls whose enqueue succeeded, in order *)
  started : list nat;             (* ghost: calls the worker has started, in order *)
  finished : list nat;            (* ghost: calls the worker has completed, in order *)
  events : list event             (* ghost: what the callee records *)
}.

Definition new_lane (n : nat) : lane :=
  {| cap := n; queue := []; closed := false; worker := None; exited := false; slot := fun _ => None;
     cancelled := fun _ => false; got := fun _ => None; seen := []; accepted := []; started := []; finished := []; events := [] |}.

(* the value the callee computes for call c: any injective tagging would do; the identity makes routing visible *)
Definition val (c : nat) : nat := c.

Inductive label := Submit (c : nat) | Pop | Done | Stop | Exit | Cancel (c : nat) | Recv (c : nat) (fromslot : bool).

Definition upd {A} (f : nat -> A) (k : nat) (v : A) : nat -> A := fun x => if Nat.eqb x k then v else f x.
Definition mem (c : nat) (l : list nat) : bool := existsb (Nat.eqb c) l.

Definition step (s : lane) (l : label) : option lane :=
  match l with
  | Submit c =>
      if mem c (seen s) then None else
      if closed s || (Nat.ltb 0 (cap s) && Nat.leb (cap s) (length (queue s)))
      then (* refused: closed, or a bounded queue (size > 0) is full *)
        Some {| cap := cap s; queue := queue s; closed := closed s; worker := worker s; exited := exited s; slot := slot s;
                cancelled := cancelled s; got := got s; seen := c :: seen s; accepted := accepted s; started := started s;
                finished := finished s; events := events s |}
      else
        Some {| cap := cap s; queue := queue s ++ [c]; closed := closed s; worker := worker s; exited := exited s; slot := slot s;
                cancelled := cancelled s; got := got s; seen := c :: seen s; accepted := accepted s ++ [c]; started := started s;
                finished := finished s; events := events s |}
  | Pop =>
      match worker s, exited s, queue s with
      | None, false, c :: q =>
        Some {| cap := cap s; queue := q; closed := closed s; worker := Some c; exited := false; slot := slot s;
                cancelled := cancelled s; got := got s; seen := seen s; accepted := accepted s; started := started s ++ [c];
                finished := finished s; events := events s ++ [EStart c] |}
      | _, _, _ => None
      end
  | Done =>
      match worker s with
      | Some c =>
        Some {| cap := cap s; queue := queue s; closed := closed s; worker := None; exited := exited s; slot := upd (slot s) c (Some (val c));
                cancelled := cancelled s; got := got s; seen := seen s; accepted := accepted s; started := started s;
                finished := finished s ++ [c]; events := events s ++ [EEnd c] |}
      | None => None
      end
  | Stop =>
        Some {| cap := cap s; queue := queue s; closed := true; worker := worker s; exited := exited s; slot := slot s;
                cancelled := cancelled s; got := got s; seen := seen s; accepted := accepted s; started := started s;
                finished := finished s; events := events s |}
  | Exit =>
      match worker s, queue s, closed s, exited s with
      | None, [], true, false =>
        Some {| cap := cap s; queue := []; closed := true; worker := None; exited := true; slot := slot s;
                cancelled := cancelled s; got := got s; seen := seen s; accepted := accepted s; started := started s;
                finished := finished s; events := events s |}
      | _, _, _, _ => None
      end
  | Cancel c =>
        Some {| cap := cap s; queue := queue s; closed := closed s; worker := worker s; exited := exited s; slot := slot s;
                cancelled := upd (cancelled s) c true; got := got s; seen := seen s; accepted := accepted s; started := started s;
                finished := finished s; events := events s |}
  | Recv c fromslot =>
      (* the caller's select: either ready case may be taken *)
      if mem c (accepted s) then
        match got s c with
        | Some _ => None
        | None =>
            let a := if fromslot then match slot s c with Some v => Some (Val v) | None => None end
                     else if cancelled s c then Some CtxErr else None in
            match a with
            | Some x =>
              Some {| cap := cap s; queue := queue s; closed := closed s; worker := worker s; exited := exited s; slot := slot s;
                      cancelled := cancelled s; got := upd (got s) c (Some x); seen := seen s; accepted := accepted s; started := started s;
                      finished := finished s; events := events s |}
            | None => None
            end
        end
      else None
  end.

Definition run (s : lane) (ls : list label) : option lane :=
  fold_left (fun o l => match o with Some s => step s l | None => None end) ls (Some s).

(* ---------------- the invariant ---------------- *)
Fixpoint serial (ev : list event) (open : option nat) : Prop :=
  match ev with
  | [] => open = None
  | EStart c :: r => open = None /\ serial_from r c
  | EEnd _ :: _ => False
  end
with serial_from (ev : list event) (c : nat) : Prop :=
  match ev with
  | [] => True
  | EEnd c' :: r => c' = c /\ serial r None
  | EStart _ :: _ => False
  end.

(* events as a function of the two ghost lists: completed calls are Start/End pairs, the running call is an open Start *)
Fixpoint pairs (l : list nat) : list event := match l with [] => [] | c :: r => EStart c :: EEnd c :: pairs r end.
Definition open_of (w : option nat) : list event := match w with Some c => [EStart c] | None => [] end.
Definition cur (w : option nat) : list nat := match w with Some c => [c] | None => [] end.

Definition Inv (s : lane) : Prop :=
  accepted s = started s ++ queue s /\
  started s = finished s ++ cur (worker s) /\
  events s = pairs (finished s) ++ open_of (worker s) /\
  NoDup (accepted s) /\
  (forall c, In c (accepted s) -> In c (seen s)) /\
  (forall c v, slot s c = Some v -> v = val c /\ In c (finished s)) /\
  (forall c, got s c = Some CtxErr -> cancelled s c = true) /\
  (forall c v, got s c = Some (Val v) -> v = val c /\ In c (finished s)) /\
  (cap s = 0 \/ length (queue s) <= cap s) /\
  (exited s = true -> closed s = true /\ queue s = [] /\ worker s = None).

Lemma mem_In c l : mem c l = true <-> In c l.
Proof. unfold mem. rewrite existsb_exists. split; [intros (x & Hx & E); apply Nat.eqb_eq in E; subst; exact Hx|intros H; exists c; split; [exact H|apply Nat.eqb_refl]]. Qed.
Lemma pairs_app a b : pairs (a ++ b) = pairs a ++ pairs b.
Proof. induction a as [|x a IH]; [reflexivity|]. cbn [pairs app]. rewrite IH. reflexivity. Qed.
Lemma upd_same {A} (f : nat -> A) k v : upd f k v k = v.
Proof. unfold upd. rewrite Nat.eqb_refl. reflexivity. Qed.
Lemma upd_cases {A} (f : nat -> A) k v x : (x = k /\ upd f k v x = v) \/ (x <> k /\ upd f k v x = f x).
Proof. unfold upd. destruct (Nat.eqb x k) eqn:E; [left; apply Nat.eqb_eq in E; auto|right; apply Nat.eqb_neq in E; auto]. Qed.

Lemma NoDup_app_snoc (l : list nat) c : NoDup l -> ~ In c l -> NoDup (l ++ [c]).
Proof.
  induction l as [|x l IH]; intros Hn Hc; cbn [app]; [constructor; [intros []|constructor]|].
  inversion Hn; subst. constructor.
  - intros Hin. apply in_app_or in Hin. destruct Hin as [Hin|[->|[]]]; [contradiction|apply Hc; left; reflexivity].
  - apply IH; [assumption|]. intros Hin. apply Hc. right. exact Hin.
Qed.
Lemma NoDup_app_remove_r' (a b : list nat) : NoDup (a ++ b) -> NoDup a.
Proof. induction a as [|x a IH]; cbn [app]; intros H; [constructor|]. inversion H; subst. constructor; [intros Hin; apply H2, in_or_app; left; exact Hin|apply IH; assumption]. Qed.

Lemma new_inv n : Inv (new_lane n).
Proof.
  unfold Inv, new_lane; cbn. repeat split; try discriminate; try lia; try constructor; try (intros; contradiction).
Qed.

Ltac split10 := split; [|split; [|split; [|split; [|split; [|split; [|split; [|split; [|split]]]]]]]].
Ltac fields := cbn [cap queue closed worker exited slot cancelled got seen accepted started finished events].

Theorem inv_step s l s' : Inv s -> step s l = Some s' -> Inv s'.
Proof.
  intros (I1 & I2 & I3 & I4 & I5 & I6 & I7 & I8 & I9 & I10) H.
  destruct l as [c| | | | |c|c fs]; cbn [step] in H.
  - (* Submit *)
    destruct (mem c (seen s)) eqn:Em; [discriminate|].
    assert (Hfresh : ~ In c (accepted s)) by (intros Hin; apply I5, mem_In in Hin; congruence).
    destruct (closed s || (Nat.ltb 0 (cap s) && Nat.leb (cap s) (length (queue s)))) eqn:Eg; inversion H; subst s'; clear H; unfold Inv; fields; split10; try assumption.
    + intros c0 Hc0. right. apply I5, Hc0.
    + rewrite I1, app_assoc. reflexivity.
    + apply NoDup_app_snoc; assumption.
    + intros c0 Hc0. apply in_app_or in Hc0. destruct Hc0 as [Hc0|[->|[]]]; [right; apply I5, Hc0|left; reflexivity].
    + apply orb_false_elim in Eg. destruct Eg as [_ Ef]. rewrite app_length. cbn [length].
      apply andb_false_iff in Ef. destruct Ef as [Ef|Ef]; [apply Nat.ltb_ge in Ef; left; lia|apply Nat.leb_gt in Ef; right; lia].
    + intros E. destruct (I10 E) as (A & _). apply orb_false_elim in Eg. destruct Eg as [Ec _]. congruence.
  - (* Pop *)
    destruct (worker s) eqn:Ew; [discriminate|]. destruct (exited s) eqn:Ee; [discriminate|]. destruct (queue s) as [|c q] eqn:Eq; [discriminate|].
    inversion H; subst s'; clear H; unfold Inv; fields. cbn [cur open_of] in *. rewrite app_nil_r in *. split10; try assumption.
    + rewrite I1, <- app_assoc. reflexivity.
    + rewrite I2. reflexivity.
    + rewrite I3. reflexivity.
    + cbn [length] in I9. destruct I9 as [I9|I9]; [left; exact I9|right; lia].
    + discriminate.
  - (* Done *)
    destruct (worker s) as [c|] eqn:Ew; [|discriminate]. inversion H; subst s'; clear H; unfold Inv; fields. cbn [cur open_of] in *. split10; try assumption.
    + rewrite app_nil_r. exact I2.
    + rewrite pairs_app, app_nil_r, I3, <- app_assoc. reflexivity.
    + intros c0 v Hs. destruct (upd_cases (slot s) c (Some (val c)) c0) as [[-> E]|[Hne E]]; rewrite E in Hs.
      * inversion Hs. split; [reflexivity|apply in_or_app; right; left; reflexivity].
      * destruct (I6 c0 v Hs) as [A B]. split; [exact A|apply in_or_app; left; exact B].
    + intros c0 v Hg. destruct (I8 c0 v Hg) as [A B]. split; [exact A|apply in_or_app; left; exact B].
    + intros E. destruct (I10 E) as (_ & _ & A). congruence.
  - (* Stop *)
    inversion H; subst s'; clear H; unfold Inv; fields. split10; try assumption.
    intros E. destruct (I10 E) as (A & B & C). auto.
  - (* Exit *)
    destruct (worker s) eqn:Ew; [discriminate|]. destruct (queue s) eqn:Eq; [|discriminate]. destruct (closed s) eqn:Ec; [|discriminate].
    destruct (exited s) eqn:Ee; [discriminate|]. inversion H; subst s'; clear H; unfold Inv; fields. split10; try assumption.
    intros _. auto.
  - (* Cancel *)
    inversion H; subst s'; clear H; unfold Inv; fields. split10; try assumption.
    intros c0 Hg. destruct (upd_cases (cancelled s) c true c0) as [[-> E]|[Hne E]]; rewrite E; [reflexivity|apply I7, Hg].
  - (* Recv *)
    destruct (mem c (accepted s)); [|discriminate]. destruct (got s c) eqn:Eg; [discriminate|].
    destruct fs.
    + destruct (slot s c) as [v|] eqn:Es; [|discriminate]. inversion H; subst s'; clear H; unfold Inv; fields. split10; try assumption.
      * intros c0 Hg. destruct (upd_cases (got s) c (Some (Val v)) c0) as [[-> E]|[Hne E]]; rewrite E in Hg; [discriminate|apply I7, Hg].
      * intros c0 v0 Hg. destruct (upd_cases (got s) c (Some (Val v)) c0) as [[-> E]|[Hne E]]; rewrite E in Hg; [inversion Hg; subst; apply (I6 c v0 Es)|apply (I8 c0 v0 Hg)].
    + destruct (cancelled s c) eqn:Ecn; [|discriminate]. inversion H; subst s'; clear H; unfold Inv; fields. split10; try assumption.
      * intros c0 Hg. destruct (upd_cases (got s) c (Some CtxErr) c0) as [[-> E]|[Hne E]]; [exact Ecn|rewrite E in Hg; apply I7, Hg].
      * intros c0 v0 Hg. destruct (upd_cases (got s) c (Some CtxErr) c0) as [[-> E]|[Hne E]]; rewrite E in Hg; [discriminate|apply (I8 c0 v0 Hg)].
Qed.

Theorem run_inv ls : forall s s', Inv s -> run s ls = Some s' -> Inv s'.
Proof.
  unfold run. induction ls as [|l ls IH]; intros s s' HI H; cbn [fold_left] in H.
  - inversion H; subst. exact HI.
  - destruct (step s l) as [s1|] eqn:E.
    + apply (IH s1 s' (inv_step s l s1 HI E) H).
    + exfalso. clear -H. induction ls as [|l' ls IH]; cbn [fold_left] in H; [discriminate|auto].
Qed.

(* ---------------- the clauses of C14, for every reachable state of a lane of any queue size ---------------- *)
Section Clauses.
Variables (n : nat) (ls : list label) (s : lane).
Hypothesis reach : run (new_lane n) ls = Some s.
Let HI : Inv s := run_inv ls (new_lane n) s (new_inv n) reach.

(* calls never overlap: the callee's record is Start c, End c, Start c', End c', ... *)
Lemma pairs_serial l w : serial (pairs l ++ open_of w) None.
Proof. induction l as [|c l IH]; [destruct w; cbn; auto|]. cbn [pairs app serial serial_from]. auto. Qed.
Theorem lane_serial : serial (events s) None.
Proof. destruct HI as (_ & _ & E & _). rewrite E. apply pairs_serial. Qed.

(* calls start in the order they were accepted *)
Theorem lane_fifo_start : exists later, accepted s = started s ++ later.
Proof. destruct HI as (E & _). exists (queue s). exact E. Qed.

(* no call runs twice *)
Theorem call_at_most_once : NoDup (started s).
Proof. destruct HI as (E & _ & _ & Hnd & _). rewrite E in Hnd. apply NoDup_app_remove_r' in Hnd. exact Hnd. Qed.

(* a caller receives the result of its own completed call, or its own context's error *)
Theorem result_routed c a : got s c = Some a ->
  match a with Val v => v = val c /\ In c (finished s) | CtxErr => cancelled s c = true end.
Proof. destruct HI as (_ & _ & _ & _ & _ & _ & I7 & I8 & _). destruct a as [v|]; [apply I8|apply I7]. Qed.

(* after Stop nothing is accepted *)
Theorem stop_refuses c s' : closed s = true -> step s (Submit c) = Some s' -> accepted s' = accepted s /\ queue s' = queue s.
Proof. intros Hc H. cbn [step] in H. destruct (mem c (seen s)); [discriminate|]. rewrite Hc in H. cbn [orb] in H. inversion H; subst. auto. Qed.

(* the queue never exceeds its size *)
Theorem queue_bounded : cap s = 0 \/ length (queue s) <= cap s.
Proof. apply HI. Qed.

(* after Stop, when the lane can do nothing more, every accepted call has completed and the goroutine has exited *)
Theorem stop_drains : closed s = true -> step s Pop = None -> step s Done = None -> step s Exit = None ->
  finished s = accepted s /\ exited s = true.
Proof.
  intros Hc HP HD HE. destruct HI as (I1 & I2 & _ & _ & _ & _ & _ & _ & _ & I10).
  cbn [step] in HP, HD, HE. destruct (worker s) as [c|] eqn:Ew; [discriminate|]. cbn [cur] in I2. rewrite app_nil_r in I2.
  destruct (exited s) eqn:Ee.
  - destruct (I10 eq_refl) as (_ & Eq & _). rewrite I1, I2, Eq, app_nil_r. auto.
  - destruct (queue s) as [|c q] eqn:Eq; [|discriminate]. rewrite Hc in HE. discriminate.
Qed.
End Clauses.

(* the lane's own steps terminate: each of them decreases this measure *)
Definition measure (s : lane) : nat := 2 * length (queue s) + (match worker s with Some _ => 1 | None => 0 end) + (if exited s then 0 else 1).
Theorem internal_steps_terminate s l s' : (l = Pop \/ l = Done \/ l = Exit) -> step s l = Some s' -> measure s' < measure s.
Proof.
  intros [->|[->| ->]] H; cbn [step] in H; unfold measure.
  - destruct (worker s); [discriminate|]. destruct (exited s); [discriminate|]. destruct (queue s) as [|c q]; [discriminate|]. inversion H; subst; cbn. lia.
  - destruct (worker s); [|discriminate]. inversion H; subst; cbn. lia.
  - destruct (worker s); [discriminate|]. destruct (queue s); [|discriminate]. destruct (closed s); [|discriminate]. destruct (exited s); [discriminate|]. inversion H; subst; cbn. lia.
Qed.

(* non-vacuity: queue size 2; a refused call (queue full), a cancelled caller whose call still runs, Stop with a call queued *)
Example demo : exists s, run (new_lane 2)
  [Submit 1; Submit 2; Pop; Submit 3; Submit 4; Cancel 2; Done; Recv 1 true; Stop; Submit 5; Pop; Recv 2 false; Done; Pop; Done; Recv 3 true; Exit] = Some s
  /\ accepted s = [1; 2; 3] /\ finished s = [1; 2; 3] /\ got s 1 = Some (Val 1) /\ got s 2 = Some CtxErr /\ got s 3 = Some (Val 3)
  /\ got s 4 = None /\ exited s = true /\ events s = [EStart 1; EEnd 1; EStart 2; EEnd 2; EStart 3; EEnd 3].
Proof. eexists. split; [vm_compute; reflexivity|]. vm_compute. repeat split. Qed.

Print Assumptions lane_serial.
Print Assumptions stop_drains.
Print Assumptions result_routed.
