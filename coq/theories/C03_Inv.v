(* C03: node.remove keeps shape and occupancy (item-level version of BTInv.v) *)
From Coq Require Import ZArith List Lia Bool Sorting.Sorted.
Require Import C03_Model C03_Spec C03_D C03_Ins C03_Sel.
Import ListNotations.
Open Scope Z_scope.
Local Coercion key : item >-> Z.

Section RI.
Variable minI : nat.
Hypothesis minI_pos : (1 <= minI)%nat.
Notation occ := (occ minI).
Notation ok_rm := (ok_rm minI).

Lemma Forall_set_at {A} (P : A -> Prop) l i x : Forall P l -> P x -> Forall P (set_at l i x).
Proof.
  intros Hf Hx. unfold set_at. apply Forall_app. split.
  - rewrite <- (firstn_skipn i l) in Hf. apply Forall_app in Hf. tauto.
  - constructor; auto. rewrite <- (firstn_skipn (S i) l) in Hf. apply Forall_app in Hf. tauto.
Qed.

Definition good (h : nat) (n : inode) : Prop := shaped h n /\ occ h n.
Definition big_sel (n : inode) (t : irm) : Prop :=
  (minI < length (iitems (nth (fst (sel (iitems n) t)) (ichildren n) dinode)))%nat.

Lemma occ_children h its ch : occ (S h) (INode its ch) -> Forall (fun c => (minI <= length (iitems c))%nat) ch.
Proof. cbn. intros H. eapply Forall_impl; [|exact H]. cbn. tauto. Qed.

Lemma grow_len its ch i g : grow_case minI its ch i g -> (length its <= S (length (iitems g)))%nat.
Proof.
  intros [a x b ca L C cb -> -> _ _ _ _ -> | a x b ca C R cb -> -> _ _ _ _ -> | a x b ca C M cb -> -> _ _ _ _ ->];
    cbn [iitems]; rewrite !app_length; cbn [length]; lia.
Qed.

Lemma sorted_child F its ch i : length ch = S (length its) -> (i <= length its)%nat ->
  StronglySorted klt (inter F its ch) -> StronglySorted klt (F (nth i ch dinode)).
Proof.
  intros Hl Hi Hs. rewrite (inter_split F i its ch dinode Hi Hl) in Hs.
  apply ss_app_inv_app in Hs as [_ Hs]. apply ss_app_inv_app in Hs as [Hs _]. exact Hs.
Qed.

Theorem remove_good : forall fuel h n t n' out,
  good h n -> ok_rm n -> StronglySorted klt (iflat (S h) n) ->
  (match t with IRmItem _ => True | _ => iflat (S h) n <> [] end) ->
  iremove fuel minI n t = Some (n', out) ->
  good h n' /\ (h <> O -> big_sel n t -> length (iitems n') = length (iitems n)) /\
  (length (iitems n) <= S (length (iitems n')))%nat.
Proof.
  induction fuel as [|f IH]; intros h n t n' out [Hsh Hoc] Hok Hs Hne H; [discriminate|].
  destruct n as [its ch]. cbn [iremove iitems ichildren] in H.
  destruct h as [|h].
  - (* leaf *)
    cbn in Hsh. subst ch. cbn [is_nil] in H.
    assert (Hgood : forall l, good 0 (INode l [])) by (intros; split; [reflexivity | exact I]).
    destruct t as [k| |]; cbn in H.
    + destruct (ifind its k) as [i found]. destruct found; inversion H; subst; clear H.
      * split; [apply Hgood|]. split; [congruence|]. cbn [iitems]. unfold remove_at. rewrite app_length, skipn_length, firstn_length. lia.
      * split; [apply Hgood|]. split; [congruence|]. cbn. lia.
    + inversion H; subst; clear H. split; [apply Hgood|]. split; [congruence|]. cbn [iitems]. destruct its; cbn; lia.
    + inversion H; subst; clear H. split; [apply Hgood|]. split; [congruence|]. cbn [iitems].
      destruct its as [|x r]; [cbn; lia|]. rewrite length_removelast by discriminate. cbn. lia.
  - (* internal *)
    destruct Hsh as [Hl Hf]. cbn [iitems ichildren] in Hl, Hf. pose proof Hoc as Hoc0. cbn [C03_D.occ ichildren] in Hoc.
    assert (Hnil : is_nil ch = false) by (destruct ch; [cbn in Hl; lia | reflexivity]). rewrite Hnil in H.
    rewrite flat_S in Hs. cbn [iitems ichildren] in Hs.
    assert (Hstep : forall i found, sel its t = (i, found) -> (i <= length its)%nat -> (found = true -> (i < length its)%nat) ->
      (let c := nth_inode ch i in
       if Nat.leb (length (iitems c)) minI then iremove f minI (igrow minI (INode its ch) i) t else
       if found then match iremove f minI c IRmMax with
                     | Some (c', Some m) => Some (INode (set_at its i m) (set_at ch i c'), Some (nth i its ditem))
                     | _ => None end
       else match iremove f minI c t with Some (c', o) => Some (INode its (set_at ch i c'), o) | None => None end)
      = Some (n', out) ->
      good (S h) n' /\ (big_sel (INode its ch) t -> length (iitems n') = length its) /\
      (length its <= S (length (iitems n')))%nat).
    { clear H. intros i found Hsel Hi Hfound H. cbv zeta in H. unfold nth_inode in H.
      assert (Hilt : (i < length ch)%nat) by lia.
      assert (Hcin : In (nth i ch dinode) ch) by (apply nth_In; exact Hilt).
      unfold big_sel. cbn [iitems ichildren]. rewrite Hsel. cbn [fst].
      destruct (Nat.leb (length (iitems (nth i ch dinode))) minI) eqn:Esmall.
      - apply Nat.leb_le in Esmall.
        assert (H1 : (1 <= length its)%nat).
        { destruct Hok as [Hok|Hok]; [exact Hok|]. cbn [ichildren] in Hok. rewrite Forall_forall in Hok. specialize (Hok _ Hcin). lia. }
        pose proof (grow_cases minI its ch i Hl Hi H1 Esmall) as Hc.
        destruct (grow_good minI minI_pos h its ch i _ (conj Hl Hf) Hoc0 Hc) as (Gs & Go & Gk).
        assert (Hal : Forall aligned ch) by (eapply Forall_impl; [|exact Hf]; intros; eapply shaped_aligned; eauto).
        assert (Hsk : forall x y, In x ch -> In y ch -> same_kind x y).
        { rewrite Forall_forall in Hf. intros x y Hx Hy. eapply shaped_same_kind; eauto. }
        pose proof (grow_flat h minI its ch i Hl Hi H1 Hal Hsk) as Gf.
        assert (Gsort : StronglySorted klt (iflat (S (S h)) (igrow minI (INode its ch) i))) by (rewrite Gf, flat_S; exact Hs).
        assert (Gne : match t with IRmItem _ => True | _ => iflat (S (S h)) (igrow minI (INode its ch) i) <> [] end)
          by (destruct t; auto; rewrite Gf; exact Hne).
        destruct (IH (S h) _ t n' out (conj Gs Go) Gk Gsort Gne H) as (Hg & Heq & _).
        pose proof (reselect minI minI_pos h its ch t i found Hl Hf (occ_children _ _ _ Hoc0) Hs Hsel H1 Esmall) as Hre.
        cbv zeta in Hre. destruct (sel (iitems (igrow minI (INode its ch) i)) t) as [j fj] eqn:Esj.
        assert (Hbig : big_sel (igrow minI (INode its ch) i) t) by (unfold big_sel; rewrite Esj; exact Hre).
        specialize (Heq ltac:(discriminate) Hbig). pose proof (grow_len _ _ _ _ Hc) as Hgl.
        split; [exact Hg|]. split; [intros Hb; lia | lia].
      - apply Nat.leb_gt in Esmall.
        assert (Hcsh : shaped h (nth i ch dinode)) by (rewrite Forall_forall in Hf; auto).
        assert (Hcoc : occ h (nth i ch dinode)) by (rewrite Forall_forall in Hoc; apply Hoc; auto).
        assert (Hcok : ok_rm (nth i ch dinode)) by (left; lia).
        assert (Hcs : StronglySorted klt (iflat (S h) (nth i ch dinode))) by (apply sorted_child with (its := its); auto).
        assert (Hcne : iflat (S h) (nth i ch dinode) <> []) by (apply flat_nonempty; destruct (iitems (nth i ch dinode)); [cbn in Esmall; lia|discriminate]).
        destruct found.
        + destruct (iremove f minI (nth i ch dinode) IRmMax) as [[c' [m|]]|] eqn:Er; try discriminate.
          inversion H; subst n' out; clear H.
          destruct (IH h _ IRmMax c' (Some m) (conj Hcsh Hcoc) Hcok Hcs Hcne Er) as ([Hs' Ho'] & _ & Hlen).
          assert (Hlenits : length (set_at its i m) = length its) by (apply length_set_at; apply Hfound; reflexivity).
          split; [|cbn [iitems]; rewrite Hlenits; split; [auto|lia]].
          split; cbn [shaped C03_D.occ iitems ichildren].
          * split; [rewrite Hlenits, length_set_at by lia; exact Hl | apply Forall_set_at; auto].
          * apply Forall_set_at; auto. split; [lia|exact Ho'].
        + destruct (iremove f minI (nth i ch dinode) t) as [[c' o]|] eqn:Er; try discriminate.
          inversion H; subst n' out; clear H.
          assert (Hpc : match t with IRmItem _ => True | _ => iflat (S h) (nth i ch dinode) <> [] end) by (destruct t; auto).
          destruct (IH h _ t c' o (conj Hcsh Hcoc) Hcok Hcs Hpc Er) as ([Hs' Ho'] & _ & Hlen).
          split; [|cbn [iitems]; split; [auto|lia]].
          split; cbn [shaped C03_D.occ iitems ichildren].
          * split; [rewrite length_set_at by lia; exact Hl | apply Forall_set_at; auto].
          * apply Forall_set_at; auto. split; [lia|exact Ho']. }
    assert (Hfin : forall i found, sel its t = (i, found) -> (i <= length its)%nat /\ (found = true -> (i < length its)%nat)).
    { intros i found Hsel. destruct t as [k| |]; cbn in Hsel; try (inversion Hsel; subst; split; [lia|discriminate]).
      pose proof (sorted_items _ _ _ Hs) as Hsi. destruct (find_spec its k i found Hsi Hsel) as (a & b & -> & -> & _ & Hb).
      rewrite app_length. split; [lia|]. intros ->. destruct Hb as (x0 & b' & -> & _). cbn. lia. }
    remember (sel its t) as p eqn:Esel. destruct p as [i found]. symmetry in Esel.
    destruct (Hfin i found eq_refl) as [Hi Hfound].
    assert (Hgoal : good (S h) n' /\ (big_sel (INode its ch) t -> length (iitems n') = length its) /\ (length its <= S (length (iitems n')))%nat).
    { apply (Hstep i found eq_refl Hi Hfound).
      destruct t as [k| |]; cbn [sel] in Esel.
      - rewrite Esel in H. exact H.
      - inversion Esel; subst. exact H.
      - inversion Esel; subst. exact H. }
    destruct Hgoal as (A & B & C). split; [exact A|]. split; [intros _; exact B | exact C].
Qed.
End RI.
