(* C19 vcode: every history the model conforms satisfies the monitor (the state of the model is exactly what the
   monitor reads off the history), for every configuration, every history, every clock, every oracle *)
From Coq Require Import ZArith List Bool Lia String Ascii.
Require Import C19_Model C19_Cache C19_Spec.
Import ListNotations.
Open Scope Z_scope.

Section Sound.
Variable c : cfg.

(* ---------------- facts about the monitor's history functions ---------------- *)
Lemma sent_info_key k it x : sent_info c k it = Some x -> sent_key it = Some k.
Proof.
  destruct it as [[a p now smsok|a p cd hs now] [h e calls|e|]]; cbn [sent_info sent_key]; try discriminate.
  destruct (String.eqb_spec (key a p) k) as [E|E]; cbn [andb]; [|discriminate].
  destruct (accepted e); [|discriminate]. intros _. now subst.
Qed.

Lemma sent_info_other k k0 it : sent_key it = Some k0 -> k <> k0 -> sent_info c k it = None.
Proof.
  intros H Hne. destruct (sent_info c k it) eqn:E; [|reflexivity].
  apply sent_info_key in E. congruence.
Qed.

Lemma sent_info_none k it : sent_key it = None -> sent_info c k it = None.
Proof.
  intros H. destruct (sent_info c k it) eqn:E; [|reflexivity].
  apply sent_info_key in E. congruence.
Qed.

Lemma last_send_keys k past x : last_send c k past = Some x -> In k (sent_keys past).
Proof.
  induction past as [|it r IH]; cbn [last_send sent_keys]; [discriminate|].
  destruct (sent_info c k it) eqn:E.
  - apply sent_info_key in E. rewrite E. intros _. left. reflexivity.
  - intros H. apply IH in H. destruct (sent_key it); [right; exact H|exact H].
Qed.

Lemma win_none k past : last_send c k past = None -> win c k past = None.
Proof.
  induction past as [|it r IH]; cbn [last_send win]; [reflexivity|].
  destruct (sent_info c k it) as [[[t cd] h]|]; [discriminate|exact IH].
Qed.

(* an item that is not a send that went out to k leaves what the monitor knows about k unchanged,
   except that a verification of k is one more attempt *)
Lemma past_frame k it past : sent_info c k it = None ->
  last_send c k (it :: past) = last_send c k past /\
  win c k (it :: past) = win c k past /\
  attempts c k (it :: past) = ((if is_verify_on k it then 1 else 0) + attempts c k past)%nat.
Proof. intros H. cbn [last_send win attempts]. rewrite H. auto. Qed.

(* ---------------- the invariant tying the model's state to the history ---------------- *)
Variable strict : bool.
Variable KS : list string.
Hypothesis Hcap : strict = true -> Z.of_nat (List.length KS) <= cacheSize c.

Record Inv (past : list item) (st : cache) : Prop := {
  inv_nodup : NoDup (keys st);
  inv_entry : forall k v, lookup k st = Some v ->
     last_send c k past = Some (setTime v, code v, hash v) /\ verifyCount v = Z.of_nat (attempts c k past);
  inv_absent : strict = true -> forall k, lookup k st = None -> last_send c k past = None;
  inv_win : strict = true -> forall k v, lookup k st = Some v -> win c k past = Some (counterTime v, sendCount v)
}.

Lemma Inv_keys past st : Inv past st -> incl (keys st) (sent_keys past).
Proof.
  intros I k Hin. apply In_lookup in Hin as [v Hv]. apply (inv_entry _ _ I) in Hv as [Hv _].
  eapply last_send_keys, Hv.
Qed.

Lemma Inv_init : Inv [] [].
Proof. constructor; cbn; try constructor; try discriminate; auto. Qed.

(* an item with no effect on the state and none on the monitor's knowledge of sends *)
Lemma Inv_skip past st it : sent_key it = None -> (forall k, is_verify_on k it = false) -> Inv past st -> Inv (it :: past) st.
Proof.
  intros Hk Hv I. constructor.
  - apply I.
  - intros k v H. destruct (past_frame k it past (sent_info_none k it Hk)) as (E1 & E2 & E3).
    rewrite E1, E3, Hv. cbn [Nat.add]. apply I, H.
  - intros Hs k H. destruct (past_frame k it past (sent_info_none k it Hk)) as (E1 & E2 & E3).
    rewrite E1. apply (inv_absent _ _ I Hs), H.
  - intros Hs k v H. destruct (past_frame k it past (sent_info_none k it Hk)) as (E1 & E2 & E3).
    rewrite E2. apply (inv_win _ _ I Hs), H.
Qed.

(* ---------------- one verification ---------------- *)
Lemma verify_step past st (it0 : item) a p cd hs now ob st' :
  it0 = (Verify a p cd hs now, ob) ->
  Inv past st ->
  conforms c st it0 = Some st' ->
  item_ok c strict past it0 = true /\ Inv (it0 :: past) st'.
Proof.
  intros -> I Hadm. unfold conforms in Hadm. cbn [fst snd step] in Hadm. unfold verify, verify_k, oracle_ok in Hadm.
  set (it := (Verify a p cd hs now, ob)).
  assert (Hsk : sent_key it = None) by reflexivity.
  assert (Hvo : forall k', is_verify_on k' it = String.eqb (key a p) k') by reflexivity.
  set (k := key a p) in *.
  destruct (lookup k st) as [v|] eqn:Elk; cbv beta iota zeta in Hadm.
  - (* the entry is there *)
    destruct (obs_eqb _ ob) eqn:Eob; cbn [andb] in Hadm; [|discriminate].
    apply obs_eqb_eq in Eob. injection Hadm as Hst. subst st'.
    destruct (inv_entry _ _ I k v Elk) as [Hls Hvc].
    split.
    + subst it. rewrite <- Eob. unfold item_ok. fold k. unfold exp_verify. rewrite Hls.
      cbn [verifyCount code hash setTime]. rewrite <- Hvc. rewrite oerr_eqb_refl. reflexivity.
    + constructor.
      * apply NoDup_front, I.
      * intros k' v' H. destruct (past_frame k' it past (sent_info_none k' it Hsk)) as (E1 & E2 & E3).
        rewrite E1, E3, Hvo. cbn [lookup] in H. fold k.
        destruct (String.eqb_spec k' k) as [E|E].
        -- subst k'. rewrite String.eqb_refl. injection H as H. subst v'.
           cbn [verifyCount code hash setTime]. split; [exact Hls|]. rewrite Hvc. lia.
        -- rewrite lookup_remove_neq in H by exact E.
           destruct (String.eqb_spec k k'); [congruence|]. cbn [Nat.add]. apply I, H.
      * intros Hs k' H. destruct (past_frame k' it past (sent_info_none k' it Hsk)) as (E1 & E2 & E3).
        rewrite E1. cbn [lookup] in H. destruct (String.eqb_spec k' k) as [E|E]; [discriminate|].
        rewrite lookup_remove_neq in H by exact E. apply (inv_absent _ _ I Hs), H.
      * intros Hs k' v' H. destruct (past_frame k' it past (sent_info_none k' it Hsk)) as (E1 & E2 & E3).
        rewrite E2. cbn [lookup] in H. destruct (String.eqb_spec k' k) as [E|E].
        -- subst k'. injection H as H. subst v'. cbn [counterTime sendCount]. apply (inv_win _ _ I Hs), Elk.
        -- rewrite lookup_remove_neq in H by exact E. apply (inv_win _ _ I Hs), H.
  - (* no entry *)
    destruct (obs_eqb _ ob) eqn:Eob; cbn [andb] in Hadm; [|discriminate].
    apply obs_eqb_eq in Eob. injection Hadm as Hst. subst st'.
    split.
    + subst it. rewrite <- Eob. unfold item_ok. fold k. destruct strict eqn:Es.
      * unfold exp_verify. rewrite (inv_absent _ _ I Es k Elk). reflexivity.
      * cbn [negb andb]. rewrite (oerr_eqb_refl (Some NotExist)). apply orb_true_r.
    + constructor.
      * apply I.
      * intros k' v' H. destruct (past_frame k' it past (sent_info_none k' it Hsk)) as (E1 & E2 & E3).
        rewrite E1, E3, Hvo. fold k. destruct (String.eqb_spec k k') as [E|E]; [congruence|].
        cbn [Nat.add]. apply I, H.
      * intros Hs k' H. destruct (past_frame k' it past (sent_info_none k' it Hsk)) as (E1 & E2 & E3).
        rewrite E1. apply (inv_absent _ _ I Hs), H.
      * intros Hs k' v' H. destruct (past_frame k' it past (sent_info_none k' it Hsk)) as (E1 & E2 & E3).
        rewrite E2. apply (inv_win _ _ I Hs), H.
Qed.

(* ---------------- one send ---------------- *)
Definition view (st : cache) (k : string) (now : Z) : vc :=
  match lookup k st with Some v => v | None => fresh now end.

(* when nothing is ever evicted, the entry SendSMSCode starts from is what the monitor reads off the history *)
Lemma view_strict past st k now : Inv past st -> strict = true ->
  match last_send c k past with Some (t, _, _) => t | None => NEVER end = setTime (view st k now) /\
  match win c k past with Some x => x | None => (now, 0) end = (counterTime (view st k now), sendCount (view st k now)).
Proof.
  intros I Hs. unfold view. destruct (lookup k st) as [v|] eqn:E.
  - destruct (inv_entry _ _ I k v E) as [H1 _]. rewrite H1, (inv_win _ _ I Hs k v E). auto.
  - rewrite (inv_absent _ _ I Hs k E), (win_none _ _ (inv_absent _ _ I Hs k E)). auto.
Qed.

Lemma Inv_sent past st (it : item) k v' cd oh now :
  Inv past st ->
  sent_info c k it = Some (now, cd, oh) -> (forall k', is_verify_on k' it = false) ->
  v' = {| counterTime := if counterDuration c <? tsub now (counterTime (view st k now)) then now else counterTime (view st k now);
          setTime := now;
          sendCount := (if counterDuration c <? tsub now (counterTime (view st k now)) then 0 else sendCount (view st k now)) + 1;
          verifyCount := 0; code := cd; hash := oh |} ->
  In k KS -> incl (sent_keys past) KS ->
  Inv (it :: past) (take (cacheSize c) ((k, v') :: remove k st)).
Proof.
  intros I Hsi Hvo Hv' HkKS HpKS.
  pose proof (sent_info_key _ _ _ Hsi) as Hsk.
  set (L := (k, v') :: remove k st).
  assert (HLnd : NoDup (keys L)) by (apply NoDup_front, I).
  assert (Hother : forall k', k' <> k ->
            last_send c k' (it :: past) = last_send c k' past /\
            win c k' (it :: past) = win c k' past /\
            attempts c k' (it :: past) = attempts c k' past).
  { intros k' Hne. destruct (past_frame k' it past (sent_info_other k' k it Hsk Hne)) as (E1 & E2 & E3).
    rewrite Hvo in E3. auto. }
  constructor.
  - apply NoDup_take, HLnd.
  - intros k' w H. apply take_lookup in H. subst L. cbn [lookup] in H.
    destruct (String.eqb_spec k' k) as [E|E].
    + subst k'. injection H as H. subst w. cbn [last_send attempts]. rewrite Hsi. subst v'.
      cbn [setTime code hash verifyCount]. auto.
    + destruct (Hother k' E) as (E1 & E2 & E3). rewrite E1, E3.
      rewrite lookup_remove_neq in H by exact E. apply I, H.
  - intros Hs.
    assert (Hfit : take (cacheSize c) L = L).
    { apply take_all. rewrite <- keys_length.
      assert (Hincl : incl (keys L) KS).
      { intros x Hx. subst L. cbn [keys map fst In] in Hx. destruct Hx as [Hx|Hx]; [now subst x|].
        apply keys_remove in Hx as [Hx _]. apply HpKS. eapply Inv_keys; eauto. }
      pose proof (NoDup_incl_length HLnd Hincl) as Hlen. specialize (Hcap Hs). lia. }
    rewrite Hfit. intros k' H. subst L. cbn [lookup] in H.
    destruct (String.eqb_spec k' k) as [E|E]; [discriminate|].
    destruct (Hother k' E) as (E1 & E2 & E3). rewrite E1.
    rewrite lookup_remove_neq in H by exact E. apply (inv_absent _ _ I Hs), H.
  - intros Hs.
    assert (Hfit : take (cacheSize c) L = L).
    { apply take_all. rewrite <- keys_length.
      assert (Hincl : incl (keys L) KS).
      { intros x Hx. subst L. cbn [keys map fst In] in Hx. destruct Hx as [Hx|Hx]; [now subst x|].
        apply keys_remove in Hx as [Hx _]. apply HpKS. eapply Inv_keys; eauto. }
      pose proof (NoDup_incl_length HLnd Hincl) as Hlen. specialize (Hcap Hs). lia. }
    rewrite Hfit. intros k' w H. subst L. cbn [lookup] in H.
    destruct (String.eqb_spec k' k) as [E|E].
    + subst k'. injection H as H. subst w. cbn [win]. rewrite Hsi.
      destruct (view_strict past st k now I Hs) as [_ Hw]. rewrite Hw. subst v'. cbn [counterTime sendCount].
      destruct (counterDuration c <? tsub now (counterTime (view st k now))); reflexivity.
    + destruct (Hother k' E) as (E1 & E2 & E3). rewrite E2.
      rewrite lookup_remove_neq in H by exact E. apply (inv_win _ _ I Hs), H.
Qed.

Lemma send_step past st (it0 : item) a p now smsok ob st' :
  it0 = (Send a p now smsok, ob) ->
  Inv past st -> incl (sent_keys past) KS -> incl (sent_keys [it0]) KS ->
  conforms c st it0 = Some st' ->
  item_ok c strict past it0 = true /\ Inv (it0 :: past) st'.
Proof.
  intros -> I HpKS HiKS Hadm. unfold conforms in Hadm. cbn [fst snd step] in Hadm. unfold send in Hadm.
  set (k := key a p) in *. fold (view st k now) in Hadm. set (v := view st k now) in *.
  assert (Hview : strict = true ->
            match last_send c k past with Some (t, _, _) => t | None => NEVER end = setTime v /\
            match win c k past with Some x => x | None => (now, 0) end = (counterTime v, sendCount v))
    by (intros Hs; apply view_strict; assumption).
  (* an item that is refused or panics changes nothing *)
  assert (Hskip : forall ob0, sent_key (Send a p now smsok, ob0) = None ->
                   Inv ((Send a p now smsok, ob0) :: past) st).
  { intros ob0 H0. apply Inv_skip; [exact H0|reflexivity|exact I]. }
  destruct (tsub now (setTime v) <? minInterval c) eqn:Etf.
  { (* too frequent *)
    cbv beta iota zeta in Hadm.
    destruct (obs_eqb _ ob) eqn:Eob; cbn [andb] in Hadm; [|discriminate].
    destruct (oracle_ok c _); [|discriminate].
    apply obs_eqb_eq in Eob. injection Hadm as Hst. subst st' ob. split; [|apply Hskip; reflexivity].
    unfold item_ok. destruct strict eqn:Es; [|reflexivity]. cbn [negb orb]. fold k. unfold exp_send.
    destruct (Hview eq_refl) as [H1 H2]. rewrite H1, Etf. apply obs_eqb_refl. }
  destruct (negb (counterDuration c <? tsub now (counterTime v)) && (maxCount c <? sendCount v)) eqn:Eblk.
  { (* count limit *)
    cbv beta iota zeta in Hadm.
    destruct (obs_eqb _ ob) eqn:Eob; cbn [andb] in Hadm; [|discriminate].
    destruct (oracle_ok c _); [|discriminate].
    apply obs_eqb_eq in Eob. injection Hadm as Hst. subst st' ob. split; [|apply Hskip; reflexivity].
    unfold item_ok. destruct strict eqn:Es; [|reflexivity]. cbn [negb orb]. fold k. unfold exp_send.
    destruct (Hview eq_refl) as [H1 H2]. rewrite H1, Etf, H2.
    apply andb_prop in Eblk as [Eb1 Eb2]. apply negb_true_iff in Eb1. rewrite Eb1, Eb2. apply obs_eqb_refl. }
  (* the monitor too expects the send to go out *)
  assert (Hexp : strict = true -> exp_send c k now past = None).
  { intros Hs. unfold exp_send. destruct (Hview Hs) as [H1 H2]. rewrite H1, Etf, H2.
    destruct (counterDuration c <? tsub now (counterTime v)); [reflexivity|].
    cbn [negb andb] in Eblk. rewrite Eblk. reflexivity. }
  destruct (gen_code c p (oracle_code ob)) as [cdv|] eqn:Egc.
  2: { (* the mock rule panics *)
    cbv beta iota zeta in Hadm.
    destruct (obs_eqb _ ob) eqn:Eob; cbn [andb] in Hadm; [|discriminate].
    destruct (oracle_ok c _); [|discriminate].
    apply obs_eqb_eq in Eob. injection Hadm as Hst. subst st' ob. split; [|apply Hskip; reflexivity].
    unfold item_ok. destruct strict eqn:Es; [|reflexivity]. cbn [negb orb]. fold k. rewrite (Hexp eq_refl).
    unfold gen_code in Egc. unfold gen_panics. destruct (mock c); [|discriminate]. rewrite Egc. reflexivity. }
  unfold lru_set in Hadm. destruct (cacheSize c <? 0) eqn:Ecap.
  { (* negative capacity: Set panics, the cache is empty *)
    cbv beta iota zeta in Hadm.
    destruct (obs_eqb _ ob) eqn:Eob; cbn [andb] in Hadm; [|discriminate].
    destruct (oracle_ok c _); [|discriminate].
    apply obs_eqb_eq in Eob. injection Hadm as Hst. subst st' ob.
    apply Z.ltb_lt in Ecap.
    assert (Hlax : strict = false).
    { destruct strict; [|reflexivity]. specialize (Hcap eq_refl). lia. }
    split; [unfold item_ok; rewrite Hlax; reflexivity|].
    constructor; cbn [keys map lookup]; try constructor; try discriminate; rewrite Hlax; discriminate. }
  (* the send goes out *)
  cbv beta iota zeta in Hadm.
  destruct (obs_eqb _ ob) eqn:Eob; cbn [andb] in Hadm; [|discriminate].
  destruct (oracle_ok c _) eqn:Eor; [|discriminate].
  apply obs_eqb_eq in Eob. injection Hadm as Hst.
  set (e1 := if smsok then None else Some SmsFail) in *.
  assert (Hacc : accepted e1 = true) by (subst e1; destruct smsok; reflexivity).
  assert (Hform : exists h e calls, ob = RSend h e calls /\ accepted e = true /\ oracle_hash ob = h /\
                    code_of c p calls = cdv /\ sent_ok c a p smsok ob = true /\ gen_panics c p = false).
  { unfold gen_code in Egc. unfold sent_ok, gen_panics, code_of. destruct (mock c) eqn:Em.
    - exists (oracle_hash ob), None, []. rewrite <- Eob. cbn [oracle_hash]. rewrite Egc. repeat split; reflexivity.
    - injection Egc as Egc. exists (oracle_hash ob), e1, [(a, p, cdv)]. rewrite <- Eob. cbn [oracle_hash calls_code].
      repeat split; auto.
      unfold oracle_ok in Eor. rewrite <- Eob, Hacc, Em in Eor. cbn [negb orb calls_code] in Eor.
      rewrite !String.eqb_refl, Eor, oerr_eqb_refl. reflexivity. }
  destruct Hform as (h & e & calls & Hob & Hae & Hoh & Hcd & Hsok & Hgp).
  assert (Hsi : sent_info c k (Send a p now smsok, ob) = Some (now, cdv, oracle_hash ob)).
  { rewrite Hob. cbn [sent_info]. fold k. rewrite String.eqb_refl, Hae. cbn [andb]. rewrite Hcd, Hob in *. cbn [oracle_hash]. reflexivity. }
  split.
  - unfold item_ok. destruct strict eqn:Es; [|reflexivity]. cbn [negb orb]. fold k. rewrite (Hexp eq_refl), Hgp. exact Hsok.
  - subst st'. eapply Inv_sent; try eassumption.
    + reflexivity.
    + reflexivity.
    + apply HiKS. cbn [sent_keys]. rewrite (sent_info_key _ _ _ Hsi). left. reflexivity.
Qed.

(* ---------------- whole histories ---------------- *)
Lemma run_holds : forall items past st,
  Inv past st -> incl (sent_keys past) KS -> incl (sent_keys items) KS ->
  conforms_run c st items = true -> holds_from c strict past items = true.
Proof.
  induction items as [|it r IH]; intros past st I HpKS HiKS Hrun; [reflexivity|].
  cbn [conforms_run] in Hrun. destruct (conforms c st it) as [st'|] eqn:Hadm; [|discriminate].
  assert (H1 : incl (sent_keys [it]) KS /\ incl (sent_keys r) KS /\ incl (sent_keys (it :: past)) KS).
  { cbn [sent_keys] in *. destruct (sent_key it) as [k0|].
    - repeat split.
      + intros x [Hx|[]]. apply HiKS. left. exact Hx.
      + intros x Hx. apply HiKS. right. exact Hx.
      + intros x [Hx|Hx]; [apply HiKS; left; exact Hx|apply HpKS, Hx].
    - repeat split; auto. intros x []. }
  destruct H1 as (Hit & Hr & Hp').
  assert (Hstep : item_ok c strict past it = true /\ Inv (it :: past) st').
  { destruct it as [[a p now smsok|a p cd hs now] ob].
    - eapply send_step; eauto.
    - eapply verify_step; eauto. }
  destruct Hstep as [Hok I']. cbn [holds_from]. rewrite Hok. cbn [andb]. eapply IH; eauto.
Qed.

End Sound.

(* Every history the model conforms from the empty cache satisfies the monitor. *)
Theorem model_holds c items : conforms_run c [] items = true -> holds c items = true.
Proof.
  intros Hrun. unfold holds.
  apply (run_holds c (Z.of_nat (nkeys items) <=? cacheSize c) (dedup (sent_keys items) [])) with (st := []).
  - intros Hs. apply Z.leb_le in Hs. exact Hs.
  - apply Inv_init.
  - intros x [].
  - intros x Hx. apply dedup_incl. left. exact Hx.
  - exact Hrun.
Qed.

Print Assumptions model_holds.
