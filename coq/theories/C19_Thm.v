(* C19 vcode: the property clause by clause, for every configuration, every history the model conforms from the
   empty cache (any pairs, any clock readings, any codes / hashes drawn), as corollaries of model_holds *)
From Coq Require Import ZArith List Bool Lia String Ascii.
Require Import C19_Model C19_Cache C19_Spec C19_Sound C19_Nonce.
Import ListNotations.
Open Scope Z_scope.

(* ---------------- histories: the monitor at one position ---------------- *)
Lemma holds_from_at c strict : forall l1 past it l2,
  holds_from c strict past (l1 ++ it :: l2) = true -> item_ok c strict (rev l1 ++ past) it = true.
Proof.
  induction l1 as [|x l1 IH]; intros past it l2 H.
  - cbn [app rev holds_from] in *. now apply andb_prop in H as [H _].
  - cbn [app holds_from] in H. apply andb_prop in H as [_ H]. apply IH in H.
    cbn [rev]. now rewrite <- app_assoc.
Qed.

Definition nverify (k : string) (m : list item) : nat := List.length (filter (is_verify_on k) m).

Lemma nverify_rev k m : nverify k (rev m) = nverify k m.
Proof.
  unfold nverify. induction m as [|x m IH]; [reflexivity|].
  cbn [rev]. rewrite filter_app, app_length, IH. cbn [filter]. destruct (is_verify_on k x); cbn [List.length]; lia.
Qed.

(* items none of which is a send that went out to k *)
Lemma past_app_frame c k : forall m past, (forall it, In it m -> sent_info c k it = None) ->
  last_send c k (m ++ past) = last_send c k past /\
  win c k (m ++ past) = win c k past /\
  attempts c k (m ++ past) = (nverify k m + attempts c k past)%nat.
Proof.
  induction m as [|x m IH]; intros past H; [auto|].
  assert (Hx : sent_info c k x = None) by (apply H; left; reflexivity).
  destruct (IH past (fun it Hi => H it (or_intror Hi))) as (E1 & E2 & E3).
  cbn [app last_send win attempts]. rewrite Hx, E1, E2, E3. unfold nverify. cbn [filter].
  destruct (is_verify_on k x); cbn [List.length]; auto.
Qed.

(* ---------------- clause 1: a sent code verifies ---------------- *)
(* A send went out to (a, p) at t with hash h (the code being the mock code, or what the sender was handed);
   afterwards no newer send went out to the pair and fewer than maxVerify attempts were made against it;
   then presenting that code and that hash within the lifetime succeeds - whatever else happened before,
   in between (other pairs, refused sends, failed attempts) or to the SMS gateway.
   Side condition: the history touches no more pairs than the cache holds. *)
Theorem verify_after_send c pre mid post a p t smsok h e calls cd hs now r :
  let k := key a p in
  let items := pre ++ (Send a p t smsok, RSend h e calls) :: mid ++ (Verify a p cd hs now, RVerify r) :: post in
  conforms_run c [] items = true ->
  Z.of_nat (nkeys items) <= cacheSize c ->
  accepted e = true ->
  (forall it, In it mid -> sent_info c k it = None) ->
  Z.of_nat (nverify k mid) < maxVerify c ->
  tsub now t <= ttl c ->
  cd = code_of c p calls -> hs = h ->
  r = None.
Proof.
  intros k items Hrun Hcap Hacc Hmid Hatt Httl -> ->.
  pose proof (model_holds c items Hrun) as Hh. unfold holds in Hh.
  replace (Z.of_nat (nkeys items) <=? cacheSize c) with true in Hh by (symmetry; apply Z.leb_le; exact Hcap).
  subst items. rewrite app_comm_cons, app_assoc in Hh. apply holds_from_at in Hh.
  rewrite app_nil_r, rev_app_distr in Hh. cbn [rev] in Hh. rewrite <- !app_assoc in Hh. cbn [app] in Hh.
  destruct (past_app_frame c k (rev mid) ((Send a p t smsok, RSend h e calls) :: rev pre)) as (E1 & _ & E3).
  { intros it Hi. apply Hmid. now apply in_rev. }
  unfold item_ok in Hh. cbn [negb andb] in Hh. rewrite orb_false_r in Hh. fold k in Hh.
  unfold exp_verify in Hh. rewrite E1, E3, nverify_rev in Hh.
  cbn [last_send attempts sent_info] in Hh. fold k in Hh. rewrite String.eqb_refl, Hacc in Hh. cbn [andb] in Hh.
  replace (maxVerify c <? Z.of_nat (nverify k mid + 0) + 1) with false in Hh by (symmetry; apply Z.ltb_ge; lia).
  rewrite String.eqb_refl, Z.eqb_refl in Hh. cbn [negb] in Hh.
  replace (ttl c <? tsub now t) with false in Hh by (symmetry; apply Z.ltb_ge; lia).
  now apply oerr_eqb_eq in Hh.
Qed.

(* a new send resets the attempts: whatever was tried before it (pre is arbitrary - the limit may have been exhausted),
   the code of a send that just went out verifies on the next attempt *)
Corollary send_resets_attempts c pre post a p t smsok h e calls now r :
  let items := pre ++ (Send a p t smsok, RSend h e calls) :: (Verify a p (code_of c p calls) h now, RVerify r) :: post in
  conforms_run c [] items = true ->
  Z.of_nat (nkeys items) <= cacheSize c ->
  accepted e = true -> 0 < maxVerify c -> tsub now t <= ttl c ->
  r = None.
Proof.
  intros items Hrun Hcap Hacc Hm Ht.
  apply (verify_after_send c pre [] post a p t smsok h e calls (code_of c p calls) h now r); auto.
  intros it [].
Qed.

(* ---------------- clause 2: nothing else verifies ---------------- *)
(* Whenever a verification succeeds - in any conforming history, with or without evictions - the code and the hash
   presented are those of the last send that went out to this very pair, the attempt is within the limit
   and the code within its lifetime. *)
Theorem verify_ok_only_if c pre post a p cd hs now :
  conforms_run c [] (pre ++ (Verify a p cd hs now, RVerify None) :: post) = true ->
  exists t, last_send c (key a p) (rev pre) = Some (t, cd, hs) /\
            Z.of_nat (attempts c (key a p) (rev pre)) + 1 <= maxVerify c /\
            tsub now t <= ttl c.
Proof.
  intros Hrun. pose proof (model_holds c _ Hrun) as Hh. unfold holds in Hh.
  apply holds_from_at in Hh. rewrite app_nil_r in Hh. unfold item_ok in Hh.
  apply orb_prop in Hh as [Hh|Hh]; [|apply andb_prop in Hh as [_ Hh]; cbn in Hh; discriminate Hh].
  apply oerr_eqb_eq in Hh. unfold exp_verify in Hh.
  destruct (last_send c (key a p) (rev pre)) as [[[t cd0] h0]|]; [|discriminate].
  destruct (maxVerify c <? _) eqn:E1; [discriminate|].
  destruct (String.eqb_spec cd0 cd) as [E2|E2]; cbn [negb] in Hh; [|discriminate].
  destruct (Z.eqb_spec h0 hs) as [E3|E3]; cbn [negb] in Hh; [|discriminate].
  destruct (ttl c <? tsub now t) eqn:E4; [discriminate|].
  apply Z.ltb_ge in E1, E4. exists t. subst. auto.
Qed.

(* the same, clause by clause: another code, another hash, another pair, too late *)
Corollary wrong_anything_fails c pre post a p cd hs now r :
  conforms_run c [] (pre ++ (Verify a p cd hs now, RVerify r) :: post) = true ->
  (match last_send c (key a p) (rev pre) with
   | None => True                                            (* nothing was ever sent to this pair *)
   | Some (t, cd0, h0) => cd0 <> cd \/ h0 <> hs \/ ttl c < tsub now t
   end) ->
  r <> None.
Proof.
  intros Hrun Hbad ->. destruct (verify_ok_only_if c pre post a p cd hs now Hrun) as (t & Hls & _ & Ht).
  rewrite Hls in Hbad. destruct Hbad as [H|[H|H]]; try congruence. lia.
Qed.

(* ---------------- clause 3: the attempt limit ---------------- *)
(* Once maxVerify or more attempts were made against the code sent last, every further verification of the pair is
   refused - the right code and hash included - until a new send goes out (which, by clause 1, starts afresh). *)
Theorem attempt_bound c pre post a p cd hs now r :
  conforms_run c [] (pre ++ (Verify a p cd hs now, RVerify r) :: post) = true ->
  maxVerify c <= Z.of_nat (attempts c (key a p) (rev pre)) ->
  r = Some RetryLimit \/ r = Some NotExist.
Proof.
  intros Hrun Hatt. pose proof (model_holds c _ Hrun) as Hh. unfold holds in Hh.
  apply holds_from_at in Hh. rewrite app_nil_r in Hh. unfold item_ok in Hh.
  apply orb_prop in Hh as [Hh|Hh].
  - apply oerr_eqb_eq in Hh. unfold exp_verify in Hh.
    destruct (last_send c (key a p) (rev pre)) as [[[t cd0] h0]|]; [|right; exact Hh].
    replace (maxVerify c <? _) with true in Hh by (symmetry; apply Z.ltb_lt; lia). left. exact Hh.
  - apply andb_prop in Hh as [_ Hh]. apply oerr_eqb_eq in Hh. right. exact Hh.
Qed.

(* the count of attempts is reset by a send that goes out and raised by nothing but verifications of this pair *)
Theorem attempts_since_send c k pre mid it x :
  sent_info c k it = Some x -> (forall it', In it' mid -> sent_info c k it' = None) ->
  attempts c k (rev (pre ++ it :: mid)) = nverify k mid.
Proof.
  intros Hs Hmid. rewrite rev_app_distr. cbn [rev]. rewrite <- app_assoc. cbn [app].
  destruct (past_app_frame c k (rev mid) (it :: rev pre)) as (_ & _ & E3).
  { intros it' Hi. apply Hmid. now apply in_rev. }
  rewrite E3, nverify_rev. cbn [attempts]. rewrite Hs. lia.
Qed.

(* ---------------- clause 4: minimum interval and window limit ---------------- *)
(* a send closer than minInterval to the last send that went out to the pair is refused, and nothing is handed
   to the SMS sender *)
Theorem min_interval_enforced c pre post a p now smsok ob t cd0 h0 :
  let items := pre ++ (Send a p now smsok, ob) :: post in
  conforms_run c [] items = true ->
  Z.of_nat (nkeys items) <= cacheSize c ->
  last_send c (key a p) (rev pre) = Some (t, cd0, h0) ->
  tsub now t < minInterval c ->
  ob = RSend 0 (Some TooFreq) [].
Proof.
  intros items Hrun Hcap Hls Hint. pose proof (model_holds c items Hrun) as Hh. unfold holds in Hh.
  replace (Z.of_nat (nkeys items) <=? cacheSize c) with true in Hh by (symmetry; apply Z.leb_le; exact Hcap).
  subst items. apply holds_from_at in Hh. rewrite app_nil_r in Hh. unfold item_ok in Hh. cbn [negb orb] in Hh.
  unfold exp_send in Hh. rewrite Hls in Hh.
  replace (tsub now t <? minInterval c) with true in Hh by (symmetry; apply Z.ltb_lt; lia).
  apply obs_eqb_eq in Hh. now subst.
Qed.

(* once more than maxCount sends went out in the running window, a further send inside the window is refused *)
Theorem window_limit c pre post a p now smsok ob w n :
  let items := pre ++ (Send a p now smsok, ob) :: post in
  conforms_run c [] items = true ->
  Z.of_nat (nkeys items) <= cacheSize c ->
  win c (key a p) (rev pre) = Some (w, n) ->
  tsub now w <= counterDuration c -> maxCount c < n ->
  ob = RSend 0 (Some TooFreq) [] \/ ob = RSend 0 (Some CountLimit) [].
Proof.
  intros items Hrun Hcap Hw Hin Hn. pose proof (model_holds c items Hrun) as Hh. unfold holds in Hh.
  replace (Z.of_nat (nkeys items) <=? cacheSize c) with true in Hh by (symmetry; apply Z.leb_le; exact Hcap).
  subst items. apply holds_from_at in Hh. rewrite app_nil_r in Hh. unfold item_ok in Hh. cbn [negb orb] in Hh.
  unfold exp_send in Hh. rewrite Hw in Hh.
  destruct (tsub now _ <? minInterval c).
  - apply obs_eqb_eq in Hh. left. now subst.
  - replace (counterDuration c <? tsub now w) with false in Hh by (symmetry; apply Z.ltb_ge; lia).
    replace (maxCount c <? n) with true in Hh by (symmetry; apply Z.ltb_lt; lia).
    apply obs_eqb_eq in Hh. right. now subst.
Qed.

(* a send that is neither too frequent nor over the window limit goes out: the sender is handed exactly this pair
   and a code of the configured length over the digits (or nothing, in mock mode), and its answer is the result *)
Theorem send_goes_out c pre post a p now smsok ob :
  let items := pre ++ (Send a p now smsok, ob) :: post in
  conforms_run c [] items = true ->
  Z.of_nat (nkeys items) <= cacheSize c ->
  exp_send c (key a p) now (rev pre) = None ->
  gen_panics c p = false ->
  sent_ok c a p smsok ob = true.
Proof.
  intros items Hrun Hcap He Hg. pose proof (model_holds c items Hrun) as Hh. unfold holds in Hh.
  replace (Z.of_nat (nkeys items) <=? cacheSize c) with true in Hh by (symmetry; apply Z.leb_le; exact Hcap).
  subst items. apply holds_from_at in Hh. rewrite app_nil_r in Hh. unfold item_ok in Hh. cbn [negb orb] in Hh.
  now rewrite He, Hg in Hh.
Qed.

(* the window counter of the monitor never exceeds maxCount + 1 (as coded: the test is count > maxCount) *)
Lemma win_refused c k it past : sent_info c k it = None -> win c k (it :: past) = win c k past.
Proof. intros H. cbn [win]. now rewrite H. Qed.

(* ---------------- state invariant: the send counter stays within [1, maxCount + 1] ---------------- *)
Definition count_ok (c : cfg) (st : cache) : Prop :=
  Forall (fun kv => 1 <= sendCount (snd kv) <= Z.max 0 (maxCount c) + 1) st.

Lemma Forall_remove (P : string * vc -> Prop) k st : Forall P st -> Forall P (remove k st).
Proof.
  induction st as [|[k0 v] st IH]; intros H; cbn [remove]; [constructor|].
  inversion H; subst. destruct (String.eqb k k0); [auto|constructor; auto].
Qed.
Lemma Forall_take (P : string * vc -> Prop) : forall st n, Forall P st -> Forall P (take n st).
Proof.
  induction st as [|x st IH]; intros n H; cbn [take]; [constructor|].
  inversion H; subst. destruct (n <=? 0); [constructor|constructor; auto].
Qed.
Lemma Forall_lookup (P : string * vc -> Prop) k st v : Forall P st -> lookup k st = Some v -> exists k0, P (k0, v).
Proof.
  induction st as [|[k0 w] st IH]; intros H Hl; cbn [lookup] in Hl; [discriminate|].
  inversion H; subst. destruct (String.eqb k k0); [injection Hl as <-; eauto|auto].
Qed.

Lemma step_count_ok c st o oc oh : count_ok c st -> count_ok c (fst (step c st o oc oh)).
Proof.
  intros H. destruct o as [a p now smsok|a p cd hs now]; cbn [step].
  - unfold send. set (k := key a p).
    assert (Hv : 0 <= sendCount (match lookup k st with Some v => v | None => fresh now end) <= Z.max 0 (maxCount c) + 1).
    { destruct (lookup k st) as [v|] eqn:E; [|cbn; lia]. destruct (Forall_lookup _ _ _ _ H E) as [k0 Hk]. cbn [snd] in Hk. lia. }
    set (v := match lookup k st with Some v => v | None => fresh now end) in *.
    destruct (tsub now (setTime v) <? minInterval c); [exact H|].
    destruct (counterDuration c <? tsub now (counterTime v)) eqn:Er; cbn [negb andb].
    + destruct (gen_code c p oc); [|exact H]. unfold lru_set. destruct (cacheSize c <? 0); [constructor|].
      cbn [fst]. apply Forall_take. constructor; [cbn [snd sendCount]; lia|apply Forall_remove, H].
    + destruct (maxCount c <? sendCount v) eqn:Em; [exact H|]. apply Z.ltb_ge in Em.
      destruct (gen_code c p oc); [|exact H]. unfold lru_set. destruct (cacheSize c <? 0); [constructor|].
      cbn [fst]. apply Forall_take. constructor; [cbn [snd sendCount]; lia|apply Forall_remove, H].
  - unfold verify, verify_k. destruct (lookup (key a p) st) as [v|] eqn:E; [|exact H].
    cbn [fst]. destruct (Forall_lookup _ _ _ _ H E) as [k0 Hk]. cbn [snd] in Hk.
    constructor; [cbn [snd sendCount]; lia|apply Forall_remove, H].
Qed.

(* ... in every state reachable by any sequence of operations with any oracle values *)
Fixpoint run_ops (c : cfg) (st : cache) (ops : list (op * string * Z)) : cache :=
  match ops with [] => st | (o, oc, oh) :: r => run_ops c (fst (step c st o oc oh)) r end.

Theorem send_count_bounded c : forall ops st, count_ok c st -> count_ok c (run_ops c st ops).
Proof.
  induction ops as [|[[o oc] oh] r IH]; intros st H; cbn [run_ops]; [exact H|]. apply IH, step_count_ok, H.
Qed.

Lemma remove_length_le k : forall st, (List.length (remove k st) <= List.length st)%nat.
Proof.
  induction st as [|[k0 w] st IH]; cbn [remove List.length]; [lia|].
  destruct (String.eqb k k0); cbn [List.length]; lia.
Qed.
Lemma remove_length_lt k : forall st v, lookup k st = Some v -> (S (List.length (remove k st)) <= List.length st)%nat.
Proof.
  induction st as [|[k0 w] st IH]; intros v H; cbn [lookup remove] in *; [discriminate|].
  destruct (String.eqb k k0).
  - cbn [List.length]. pose proof (remove_length_le k st). lia.
  - cbn [List.length]. specialize (IH v H). lia.
Qed.

(* the cache never holds more entries than its capacity *)
Theorem cache_bounded c : 0 <= cacheSize c -> forall ops st,
  Z.of_nat (List.length st) <= cacheSize c -> Z.of_nat (List.length (run_ops c st ops)) <= cacheSize c.
Proof.
  intros Hc. induction ops as [|[[o oc] oh] r IH]; intros st H; cbn [run_ops]; [exact H|]. apply IH.
  destruct o as [a p now smsok|a p cd hs now]; cbn [step].
  - unfold send. destruct (_ <? minInterval c); [exact H|]. destruct (negb _ && _); [exact H|].
    destruct (gen_code c p oc); [|exact H]. unfold lru_set. destruct (cacheSize c <? 0); [cbn; lia|].
    cbn [fst]. apply take_length, Hc.
  - unfold verify, verify_k. destruct (lookup (key a p) st) as [v|] eqn:E; [|exact H]. cbn [fst List.length].
    pose proof (remove_length_lt _ _ _ E) as Hlen.
    lia.
Qed.

(* ---------------- the cache key ---------------- *)
Fixpoint no_dash (s : string) : bool :=
  match s with EmptyString => true | String x r => negb (Ascii.eqb x "-"%char) && no_dash r end.

(* two pairs share a cache entry only if they are the same pair - provided area codes contain no '-' *)
Theorem key_injective : forall a1 a2 p1 p2, no_dash a1 = true -> no_dash a2 = true ->
  key a1 p1 = key a2 p2 -> a1 = a2 /\ p1 = p2.
Proof.
  unfold key. induction a1 as [|x a1 IH]; intros a2 p1 p2 H1 H2 E.
  - destruct a2 as [|y a2]; cbn [append] in E.
    + injection E as E. auto.
    + injection E as E1 E2. subst y. cbn [no_dash] in H2. rewrite Ascii.eqb_refl in H2. discriminate.
  - destruct a2 as [|y a2]; cbn [append] in E.
    + injection E as E1 E2. subst x. cbn [no_dash] in H1. rewrite Ascii.eqb_refl in H1. discriminate.
    + injection E as E1 E2. subst y. cbn [no_dash] in H1, H2.
      apply andb_prop in H1 as [_ H1]. apply andb_prop in H2 as [_ H2].
      destruct (IH a2 p1 p2 H1 H2 E2) as [-> ->]. auto.
Qed.

(* ... and the proviso is needed *)
Example key_collision : key "1-2" "3" = key "1" "2-3".
Proof. reflexivity. Qed.

(* the pre-repair verifier looked under another key than the one the sender had stored under: always *)
Theorem key_prefix_differs a p : key_prefix a p <> key a p.
Proof.
  unfold key_prefix, key. intros E. apply (f_equal zlen) in E. rewrite !zlen_app in E. change (zlen "-") with 1 in E. lia.
Qed.

(* pre-repair behaviour refuted: the code just sent to a pair does not verify, it is reported as never sent *)
Theorem verify_prefix_refuted :
  exists c a p cd h st1,
    send c [] a p 1000 true cd h = (st1, RSend h None [(a, p, cd)]) /\
    snd (verify c st1 a p cd h 1001) = RVerify None /\
    snd (verify_prefix c st1 a p cd h 1001) = RVerify (Some NotExist).
Proof.
  exists {| cacheSize := 10; mock := false; codeLen := 4; ttl := 1000000; minInterval := 0; counterDuration := 1000000;
            maxCount := 3; maxVerify := 3 |}, "86"%string, "13900000000"%string, "4711"%string, 1.
  eexists. repeat split; vm_compute; reflexivity.
Qed.

(* in general: after any send to a fresh cache the pre-repair verifier misses the entry, whatever the pair *)
Theorem verify_prefix_never_finds c a p now smsok oc oh st1 ob cd hs now' :
  send c [] a p now smsok oc oh = (st1, ob) ->
  snd (verify_prefix c st1 a p cd hs now') = RVerify (Some NotExist).
Proof.
  intros Hs. unfold verify_prefix, verify_k.
  assert (Hl : lookup (key_prefix a p) st1 = None).
  { unfold send in Hs. cbn [lookup] in Hs.
    destruct (_ <? minInterval c); [injection Hs as <- _; reflexivity|].
    destruct (negb _ && _); [injection Hs as <- _; reflexivity|].
    destruct (gen_code c p oc); [|injection Hs as <- _; reflexivity].
    unfold lru_set in Hs. destruct (cacheSize c <? 0); [injection Hs as <- _; reflexivity|].
    injection Hs as <- _. cbn [remove take]. destruct (cacheSize c <=? 0); [reflexivity|].
    cbn [lookup]. destruct (String.eqb_spec (key_prefix a p) (key a p)) as [E|E]; [|destruct (cacheSize c - 1 <=? 0); reflexivity].
    exfalso. exact (key_prefix_differs a p E). }
  now rewrite Hl.
Qed.

(* ---------------- the mock code ---------------- *)
Lemma length_substring : forall s n m, (n + m <= String.length s)%nat -> String.length (substring n m s) = m.
Proof.
  induction s as [|x s IH]; intros n m H; cbn [String.length] in H.
  - assert (n = 0 /\ m = 0)%nat as [-> ->] by lia. reflexivity.
  - destruct n as [|n]; cbn [substring].
    + destruct m as [|m]; [reflexivity|]. cbn [String.length]. f_equal. apply IH. lia.
    + apply IH. lia.
Qed.
Lemma length_zeros n : String.length (zeros n) = n.
Proof. induction n; cbn [zeros String.length]; auto. Qed.

(* in mock mode the code has the configured length, for every phone (shorter ones are padded with '0') *)
Theorem mock_code_length p n : 0 <= n -> exists s, mock_code p n = Some s /\ zlen s = n.
Proof.
  intros Hn. unfold mock_code. destruct (n <=? zlen p) eqn:E.
  - apply Z.leb_le in E. replace (n <? 0) with false by (symmetry; apply Z.ltb_ge; lia).
    eexists. split; [reflexivity|]. unfold zlen in *. rewrite length_substring by lia. lia.
  - apply Z.leb_gt in E. eexists. split; [reflexivity|]. rewrite zlen_app. unfold zlen at 1. rewrite length_zeros. lia.
Qed.
(* a negative code length is the only way the mock rule fails *)
Theorem mock_code_panics_iff p n : mock_code p n = None <-> n < 0.
Proof.
  unfold mock_code. pose proof (zlen_nonneg p). destruct (n <=? zlen p) eqn:E.
  - destruct (n <? 0) eqn:E2; [apply Z.ltb_lt in E2; split; auto|apply Z.ltb_ge in E2; split; [discriminate|lia]].
  - apply Z.leb_gt in E. split; [discriminate|lia].
Qed.

(* ---------------- non-vacuity: a concrete conforming history exercising every clause ---------------- *)
Example history_conforms :
  let c := {| cacheSize := 10; mock := true; codeLen := 4; ttl := 100; minInterval := 5; counterDuration := 1000;
              maxCount := 1; maxVerify := 2 |} in
  let a := "86"%string in let p := "13912345678"%string in
  conforms_run c []
    [ (Send a p 10 true, RSend 1 None []);
      (Send a p 12 true, RSend 0 (Some TooFreq) []);
      (Verify a p "0000" 1 13, RVerify (Some NotMatch));
      (Verify a p "5678" 1 14, RVerify None);
      (Verify a p "5678" 1 15, RVerify (Some RetryLimit));
      (Send a p 20 true, RSend 2 None []);
      (Verify a p "5678" 1 21, RVerify (Some HashNotMatch));
      (Verify a p "5678" 2 200, RVerify (Some Timeout));
      (Send a p 30 true, RSend 0 (Some CountLimit) []);
      (Verify "1" p "5678" 2 31, RVerify (Some NotExist)) ] = true.
Proof. vm_compute. reflexivity. Qed.

Print Assumptions verify_after_send.
Print Assumptions send_resets_attempts.
Print Assumptions verify_ok_only_if.
Print Assumptions attempt_bound.
Print Assumptions window_limit.
Print Assumptions send_count_bounded.
Print Assumptions key_injective.
Print Assumptions verify_prefix_never_finds.
