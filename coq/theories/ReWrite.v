(* C11: tex.Buffer.ReWrite(pos, p) = copy(b.buf[pos:], p): exactly the addressed bytes of the storage change
   (clipped to its length, and addressed from the start of the storage, not from the read offset);
   NewSizedBuffer(size) is empty with capacity size *)
From Coq Require Import ZArith List Lia Bool.
Import ListNotations.
Local Open Scope Z_scope.

Inductive out := Done (buf : list Z) | Panic.
Definition rewrite_at (buf : list Z) (pos : Z) (p : list Z) : out :=
  if (pos <? 0) || (Z.of_nat (length buf) <? pos) then Panic           (* b.buf[pos:] out of range *)
  else let i := Z.to_nat pos in
       let k := Nat.min (length p) (length buf - i) in                  (* copy copies min(len(dst), len(src)) *)
       Done (firstn i buf ++ firstn k p ++ skipn (i + k) buf).

Theorem rewrite_panics buf pos p : rewrite_at buf pos p = Panic <-> (pos < 0 \/ Z.of_nat (length buf) < pos).
Proof.
  unfold rewrite_at. destruct ((pos <? 0) || (Z.of_nat (length buf) <? pos)) eqn:E.
  - apply orb_prop in E. split; [intros _|reflexivity]. destruct E as [E|E]; apply Z.ltb_lt in E; auto.
  - apply orb_false_elim in E. destruct E as [E1 E2]. apply Z.ltb_ge in E1. apply Z.ltb_ge in E2. split; [discriminate|lia].
Qed.

Theorem rewrite_exact buf pos p buf' : rewrite_at buf pos p = Done buf' ->
  length buf' = length buf /\
  forall j, nth j buf' 0 =
    if (Z.to_nat pos <=? j)%nat && (j <? Z.to_nat pos + length p)%nat && (j <? length buf)%nat
    then nth (j - Z.to_nat pos) p 0 else nth j buf 0.
Proof.
  unfold rewrite_at. destruct ((pos <? 0) || (Z.of_nat (length buf) <? pos)) eqn:E; [discriminate|].
  apply orb_false_elim in E. destruct E as [E1 E2]. apply Z.ltb_ge in E1. apply Z.ltb_ge in E2.
  set (i := Z.to_nat pos). assert (Hi : (i <= length buf)%nat) by lia.
  set (k := Nat.min (length p) (length buf - i)). intros H. inversion H; subst buf'; clear H.
  assert (L1 : length (firstn i buf) = i) by (rewrite firstn_length; lia).
  assert (L2 : length (firstn k p) = k) by (rewrite firstn_length; unfold k; lia).
  split; [rewrite !app_length, L1, L2, skipn_length; unfold k; lia|].
  intros j. destruct (Nat.lt_ge_cases j i) as [Hlt|Hge].
  - replace ((i <=? j)%nat) with false by (symmetry; apply Nat.leb_gt; lia). cbn [andb].
    rewrite app_nth1 by lia. rewrite <- (firstn_skipn i buf) at 2. rewrite app_nth1 by lia. reflexivity.
  - replace ((i <=? j)%nat) with true by (symmetry; apply Nat.leb_le; lia). cbn [andb].
    rewrite app_nth2 by lia. rewrite L1. destruct (Nat.lt_ge_cases (j - i) k) as [Hk|Hk].
    + rewrite app_nth1 by lia.
      replace ((j <? i + length p)%nat) with true by (symmetry; apply Nat.ltb_lt; unfold k in Hk; lia).
      replace ((j <? length buf)%nat) with true by (symmetry; apply Nat.ltb_lt; unfold k in Hk; lia). cbn [andb].
      rewrite <- (firstn_skipn k p) at 2. rewrite app_nth1 by lia. reflexivity.
    + rewrite app_nth2 by lia. rewrite L2.
      assert (Hout : ((j <? i + length p)%nat && (j <? length buf)%nat) = false).
      { apply andb_false_iff. unfold k in Hk. destruct (Nat.lt_ge_cases j (length buf)) as [A|A]; [left; apply Nat.ltb_ge; lia|right; apply Nat.ltb_ge; lia]. }
      rewrite Hout. rewrite <- (firstn_skipn (i + k) buf) at 2.
      destruct (Nat.le_gt_cases (i + k) (length buf)) as [Hle|Hgt]; [|unfold k in Hgt; lia].
      rewrite app_nth2 by (rewrite firstn_length; lia). rewrite firstn_length, Nat.min_l by lia. f_equal. lia.
Qed.

(* NewSizedBuffer(size): make([]byte, size) then Reset: empty, capacity size; a negative size panics in make *)
Definition new_sized (size : Z) : option (list Z * Z) := if size <? 0 then None else Some ([], size).
Theorem new_sized_spec size : 0 <= size -> new_sized size = Some ([], size).
Proof. intros H. unfold new_sized. replace (size <? 0) with false by (symmetry; apply Z.ltb_ge; lia). reflexivity. Qed.

Example demo : rewrite_at [1; 2; 3; 4; 5] 3 [9; 9; 9] = Done [1; 2; 3; 9; 9] /\ rewrite_at [1; 2] 2 [7] = Done [1; 2] /\ rewrite_at [1; 2] 3 [7] = Panic.
Proof. vm_compute. auto. Qed.
Print Assumptions rewrite_exact.
