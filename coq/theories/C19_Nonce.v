(* C19 vcode: the nonce generator - requested length, alphabet, every character reachable, the bound it asks its
   draw function for; the pre-repair bound can never produce the last character *)
From Coq Require Import ZArith List Bool Lia String Ascii.
Require Import C19_Model C19_Spec.
Import ListNotations.
Open Scope Z_scope.

Lemma zlen_cons ch s : zlen (String ch s) = zlen s + 1.
Proof. unfold zlen. cbn [String.length]. lia. Qed.
Lemma zlen_nonneg s : 0 <= zlen s.
Proof. unfold zlen. lia. Qed.
Lemma zlen_empty : zlen EmptyString = 0.
Proof. reflexivity. Qed.

(* indexing: inside the string there is a character, and it belongs to the string; outside there is none *)
Lemma str_get_in : forall s i, 0 <= i < zlen s -> exists ch, str_get i s = Some ch /\ str_mem ch s = true.
Proof.
  induction s as [|x s IH]; intros i H.
  - rewrite zlen_empty in H. lia.
  - rewrite zlen_cons in H. cbn [str_get str_mem]. destruct (i =? 0) eqn:E0.
    + exists x. now rewrite Ascii.eqb_refl.
    + apply Z.eqb_neq in E0. destruct (i <? 0) eqn:En; [apply Z.ltb_lt in En; lia|].
      destruct (IH (i - 1)) as (ch & Hg & Hm); [lia|]. exists ch. rewrite Hg, Hm. now rewrite orb_true_r.
Qed.

Lemma str_get_out : forall s i, i < 0 \/ zlen s <= i -> str_get i s = None.
Proof.
  induction s as [|x s IH]; intros i H; cbn [str_get]; [reflexivity|].
  rewrite zlen_cons in H. pose proof (zlen_nonneg s).
  destruct (i =? 0) eqn:E0; [apply Z.eqb_eq in E0; lia|]. apply Z.eqb_neq in E0.
  destruct (i <? 0) eqn:En; [reflexivity|]. apply Z.ltb_ge in En. apply IH. lia.
Qed.

Lemma str_get_some_range s i ch : str_get i s = Some ch -> 0 <= i < zlen s.
Proof.
  intros H. destruct (Z_lt_dec i 0) as [Hl|Hl]; [rewrite str_get_out in H by lia; discriminate|].
  destruct (Z_le_dec (zlen s) i) as [Hg|Hg]; [rewrite str_get_out in H by lia; discriminate|]. lia.
Qed.

Lemma str_mem_get : forall s ch, str_mem ch s = true -> exists i, 0 <= i < zlen s /\ str_get i s = Some ch.
Proof.
  induction s as [|x s IH]; intros ch H; cbn [str_mem] in H; [discriminate|].
  rewrite zlen_cons. pose proof (zlen_nonneg s). destruct (Ascii.eqb_spec ch x) as [E|E].
  - subst x. exists 0. split; [lia|reflexivity].
  - cbn [orb] in H. destruct (IH ch H) as (i & Hi & Hg). exists (i + 1). split; [lia|].
    cbn [str_get]. destruct (i + 1 =? 0) eqn:E0; [apply Z.eqb_eq in E0; lia|].
    destruct (i + 1 <? 0) eqn:En; [apply Z.ltb_lt in En; lia|]. now replace (i + 1 - 1) with i by lia.
Qed.

Lemma all_in_range_cons len t r : all_in_range len (t :: r) = true <-> (0 <= t < len /\ all_in_range len r = true).
Proof.
  cbn [all_in_range]. rewrite !andb_true_iff, Z.leb_le, Z.ltb_lt. tauto.
Qed.

(* ---------------- length, alphabet, totality ---------------- *)
Theorem nonce_length base : forall draws s, gen_nonce base draws = Some s -> zlen s = Z.of_nat (List.length draws).
Proof.
  induction draws as [|d r IH]; intros s H; cbn [gen_nonce] in H.
  - injection H as <-. reflexivity.
  - destruct (str_get d base) as [ch|]; [|discriminate].
    destruct (gen_nonce base r) as [s'|] eqn:E; [|discriminate]. injection H as <-.
    rewrite zlen_cons, (IH s' eq_refl). cbn [List.length]. lia.
Qed.

Theorem nonce_alphabet base : forall draws s, gen_nonce base draws = Some s -> str_all (fun ch => str_mem ch base) s = true.
Proof.
  induction draws as [|d r IH]; intros s H; cbn [gen_nonce] in H.
  - injection H as <-. reflexivity.
  - destruct (str_get d base) as [ch|] eqn:Eg; [|discriminate].
    destruct (gen_nonce base r) as [s'|] eqn:E; [|discriminate]. injection H as <-.
    cbn [str_all]. rewrite (IH s' eq_refl), andb_true_r.
    pose proof (str_get_some_range _ _ _ Eg) as Hr. destruct (str_get_in base d Hr) as (ch' & Hg' & Hm). congruence.
Qed.

(* in-range draws (each below the bound the generator asks for) never panic; an out-of-range one does *)
Theorem nonce_total base : forall draws, all_in_range (nonce_bound base) draws = true -> exists s, gen_nonce base draws = Some s.
Proof.
  unfold nonce_bound. induction draws as [|d r IH]; intros H; cbn [gen_nonce]; [eauto|].
  apply all_in_range_cons in H as [Hd Hr]. destruct (str_get_in base d Hd) as (ch & Hg & _). rewrite Hg.
  destruct (IH Hr) as [s ->]. eauto.
Qed.

Theorem nonce_panics base : forall draws, all_in_range (nonce_bound base) draws = false -> gen_nonce base draws = None.
Proof.
  unfold nonce_bound. induction draws as [|d r IH]; intros H; cbn [gen_nonce all_in_range] in *; [discriminate|].
  destruct (str_get d base) as [ch|] eqn:Eg; [|reflexivity].
  pose proof (str_get_some_range _ _ _ Eg) as Hr.
  replace (0 <=? d) with true in H by (symmetry; apply Z.leb_le; lia).
  replace (d <? zlen base) with true in H by (symmetry; apply Z.ltb_lt; lia).
  cbn [andb] in H. now rewrite (IH H).
Qed.

(* ---------------- every character, indeed every string over the alphabet, can occur ---------------- *)
Theorem nonce_reaches_all base ch : str_mem ch base = true ->
  exists i, 0 <= i < nonce_bound base /\ gen_nonce base [i] = Some (String ch EmptyString).
Proof.
  intros H. destruct (str_mem_get base ch H) as (i & Hi & Hg). exists i. split; [exact Hi|].
  cbn [gen_nonce]. now rewrite Hg.
Qed.

Theorem nonce_reaches_every_string base : forall s, str_all (fun ch => str_mem ch base) s = true ->
  exists draws, all_in_range (nonce_bound base) draws = true /\ Z.of_nat (List.length draws) = zlen s /\ gen_nonce base draws = Some s.
Proof.
  induction s as [|x s IH]; intros H.
  - exists []. repeat split.
  - cbn [str_all] in H. apply andb_prop in H as [Hx Hs]. destruct (IH Hs) as (ds & Hr & Hl & Hg).
    destruct (str_mem_get base x Hx) as (i & Hi & Hgi). exists (i :: ds). repeat split.
    + apply all_in_range_cons. split; assumption.
    + rewrite zlen_cons. cbn [List.length]. lia.
    + cbn [gen_nonce]. now rewrite Hgi, Hg.
Qed.

(* ---------------- the scripted run: what the correspondence check observes ---------------- *)
Lemma clamp_id raw t b : 0 <= t < b -> clamp raw t b = t.
Proof.
  intros H. unfold clamp. destruct raw; [reflexivity|].
  destruct (b <=? 0) eqn:E; [reflexivity|]. lia.
Qed.

Lemma nonce_run_in_range base raw : forall targets, all_in_range (zlen base) targets = true ->
  snd (nonce_run (nonce_bound base) base raw targets) = gen_nonce base targets.
Proof.
  unfold nonce_bound. induction targets as [|t r IH]; intros H; cbn [nonce_run gen_nonce]; [reflexivity|].
  apply all_in_range_cons in H as [Ht Hr]. rewrite clamp_id by exact Ht.
  destruct (str_get t base) as [ch|]; [|reflexivity].
  specialize (IH Hr). destruct (nonce_run (zlen base) base raw r) as [bs o]. cbn [snd] in *. now rewrite IH.
Qed.

(* every call of the draw function is made with the bound len base *)
Lemma nonce_run_bounds bound base raw : forall targets, Forall (fun b => b = bound) (fst (nonce_run bound base raw targets)).
Proof.
  induction targets as [|t r IH]; cbn [nonce_run]; [constructor|].
  destruct (str_get _ base); [|repeat constructor].
  destruct (nonce_run bound base raw r) as [bs o]. cbn [fst] in *. constructor; auto.
Qed.

Lemma ostr_eqb_eq a b : ostr_eqb a b = true -> a = b.
Proof. destruct a, b; cbn; try discriminate; auto. intros H. apply String.eqb_eq in H. now subst. Qed.
Lemma ostr_eqb_refl a : ostr_eqb a a = true.
Proof. destruct a; cbn; auto. apply String.eqb_refl. Qed.

(* the model's scripted run satisfies the nonce clauses of the monitor *)
Theorem nonce_model_holds base n raw targets :
  Z.of_nat (List.length targets) = Z.max 0 n ->
  nonce_holds base n targets (snd (nonce_run (nonce_bound base) base raw targets)) = true.
Proof.
  intros Hl. unfold nonce_holds. replace (_ =? Z.max 0 n) with true by (symmetry; apply Z.eqb_eq; exact Hl).
  cbn [negb orb]. destruct (all_in_range (zlen base) targets) eqn:Er; [|reflexivity]. cbn [negb orb].
  rewrite (nonce_run_in_range base raw targets Er), ostr_eqb_refl. cbn [andb].
  destruct (nonce_total base targets Er) as [s Hs]. rewrite Hs.
  rewrite (nonce_length _ _ _ Hs), Hl, Z.eqb_refl, (nonce_alphabet _ _ _ Hs). reflexivity.
Qed.

(* ---------------- the pre-repair bound: the last character of the alphabet can never occur ---------------- *)
Lemma str_get_app_l : forall pre suf i, 0 <= i < zlen pre -> str_get i (pre ++ suf)%string = str_get i pre.
Proof.
  induction pre as [|x pre IH]; intros suf i H.
  - rewrite zlen_empty in H. lia.
  - rewrite zlen_cons in H. cbn [append str_get]. destruct (i =? 0) eqn:E0; [reflexivity|].
    apply Z.eqb_neq in E0. destruct (i <? 0); [reflexivity|]. apply IH. lia.
Qed.
Lemma zlen_app : forall a b, zlen (a ++ b)%string = zlen a + zlen b.
Proof.
  induction a as [|x a IH]; intros b; cbn [append]; [rewrite zlen_empty; lia|]. rewrite !zlen_cons, IH. lia.
Qed.

Theorem nonce_prefix_misses_last pre last : str_mem last pre = false ->
  let base := (pre ++ String last EmptyString)%string in
  forall draws s, all_in_range (nonce_bound_prefix base) draws = true -> gen_nonce base draws = Some s ->
  str_mem last s = false.
Proof.
  intros Hnm base. assert (Hb : nonce_bound_prefix base = zlen pre).
  { unfold nonce_bound_prefix, base. rewrite zlen_app, zlen_cons, zlen_empty. lia. }
  rewrite Hb. induction draws as [|d r IH]; intros s Hr Hg; cbn [gen_nonce] in Hg.
  - injection Hg as <-. reflexivity.
  - apply all_in_range_cons in Hr as [Hd Hr]. unfold base in Hg at 1. rewrite str_get_app_l in Hg by exact Hd.
    destruct (str_get_in pre d Hd) as (ch & Hgd & Hm). rewrite Hgd in Hg.
    destruct (gen_nonce base r) as [s'|] eqn:E; [|discriminate]. injection Hg as <-.
    cbn [str_mem]. rewrite (IH s' Hr eq_refl), orb_false_r.
    destruct (Ascii.eqb_spec last ch) as [E'|E']; [subst ch; congruence|reflexivity].
Qed.

(* ... while the repaired bound produces it *)
Theorem nonce_repaired_reaches_last pre last :
  let base := (pre ++ String last EmptyString)%string in
  exists i, 0 <= i < nonce_bound base /\ gen_nonce base [i] = Some (String last EmptyString).
Proof.
  intros base. apply nonce_reaches_all. unfold base. clear base.
  induction pre as [|x pre IH]; cbn [append str_mem]; [now rewrite Ascii.eqb_refl|]. now rewrite IH, orb_true_r.
Qed.

(* the codes the model conforms from a real sender are exactly the generator's outputs over the digits *)
Theorem valid_code_iff_generated n s :
  valid_code n s = true <->
  exists draws, all_in_range (nonce_bound numChars) draws = true /\ Z.of_nat (List.length draws) = Z.max 0 n
                /\ gen_nonce numChars draws = Some s.
Proof.
  unfold valid_code. split.
  - intros H. apply andb_prop in H as [Hl Ha]. apply Z.eqb_eq in Hl.
    destruct (nonce_reaches_every_string numChars s Ha) as (ds & Hr & Hlen & Hg). exists ds. repeat split; auto. lia.
  - intros (ds & Hr & Hlen & Hg). rewrite (nonce_length _ _ _ Hg), Hlen, Z.eqb_refl, (nonce_alphabet _ _ _ Hg). reflexivity.
Qed.

Print Assumptions nonce_model_holds.
Print Assumptions nonce_prefix_misses_last.
