(* C04 core: evicting from the back while size > capacity = keeping the longest prefix that fits *)
From Coq Require Import ZArith List Lia Bool.
Import ListNotations.
Open Scope Z_scope.

Section LRU.
Variable K : Type.
Definition ent := (K * Z)%type.            (* key, size; MRU first *)
Definition total (l : list ent) : Z := fold_right (fun e a => snd e + a) 0 l.

(* for lru.size > lru.capacity { delElem := list.Back(); remove; size -= delValue.size; evictions++ } *)
Fixpoint check_capacity (fuel : nat) (l : list ent) (size cap : Z) (removed : list ent) : list ent * Z * list ent :=
  match fuel with
  | O => (l, size, removed)
  | S f =>
    if cap <? size then
      match rev l with
      | [] => (l, size, removed)              (* Back() == nil: the Go code would dereference nil here *)
      | last :: _ => check_capacity f (removelast l) (size - snd last) cap (removed ++ [last])
      end
    else (l, size, removed)
  end.

(* the ideal cache: the longest prefix (most recent entries) whose sizes sum to at most cap *)
Fixpoint trim (cap : Z) (l : list ent) : list ent :=
  match l with
  | [] => []
  | x :: r => if snd x <=? cap then x :: trim (cap - snd x) r else []
  end.

Definition nonneg (l : list ent) := Forall (fun e => 0 <= snd e) l.

Lemma total_app a b : total (a ++ b) = total a + total b.
Proof. unfold total. induction a as [|x a IH]; cbn in *; lia. Qed.
Lemma total_nonneg l : nonneg l -> 0 <= total l.
Proof. unfold total. induction 1; cbn in *; lia. Qed.

Lemma trim_app : forall a b cap, nonneg a -> 0 <= cap ->
  trim cap (a ++ b) = if total a <=? cap then a ++ trim (cap - total a) b else trim cap a.
Proof.
  induction a as [|x a IH]; intros b cap Ha Hc.
  - cbn. replace (0 <=? cap) with true by (symmetry; apply Z.leb_le; lia). now rewrite Z.sub_0_r.
  - inversion Ha as [|? ? Hx Ha']; subst. pose proof (total_nonneg a Ha') as Hta.
    cbn [app trim]. change (total (x :: a)) with (snd x + total a).
    destruct (snd x <=? cap) eqn:E.
    + apply Z.leb_le in E. rewrite IH by (auto; lia).
      destruct (total a <=? cap - snd x) eqn:E2.
      * apply Z.leb_le in E2. replace (snd x + total a <=? cap) with true by (symmetry; apply Z.leb_le; lia).
        cbn [app]. do 3 f_equal. lia.
      * apply Z.leb_gt in E2. replace (snd x + total a <=? cap) with false by (symmetry; apply Z.leb_gt; lia).
        reflexivity.
    + apply Z.leb_gt in E. replace (snd x + total a <=? cap) with false by (symmetry; apply Z.leb_gt; lia).
      reflexivity.
Qed.

Lemma trim_fits l cap : nonneg l -> 0 <= cap -> total l <= cap -> trim cap l = l.
Proof.
  intros Hl Hc Ht. pose proof (trim_app l [] cap Hl Hc) as H. rewrite app_nil_r in H. rewrite H.
  replace (total l <=? cap) with true by (symmetry; apply Z.leb_le; lia). cbn. apply app_nil_r.
Qed.

(* the loop of checkCapacity computes the ideal cache, its size, and the evicted entries oldest first *)
Theorem check_capacity_spec : forall l cap removed,
  nonneg l -> 0 <= cap ->
  exists dropped,
    check_capacity (length l) l (total l) cap removed = (trim cap l, total (trim cap l), removed ++ rev dropped)
    /\ l = trim cap l ++ dropped.
Proof.
  intros l. induction l as [|x l IH] using rev_ind; intros cap removed Hl Hc.
  - exists []. cbn. now rewrite app_nil_r.
  - apply Forall_app in Hl as [Hl Hx]. inversion Hx as [|? ? Hx0 _]; subst.
    rewrite app_length. cbn [length]. replace (length l + 1)%nat with (S (length l)) by lia.
    cbn [check_capacity]. rewrite total_app. change (total [x]) with (snd x + 0).
    destruct (cap <? total l + (snd x + 0)) eqn:E.
    + apply Z.ltb_lt in E. rewrite rev_app_distr. cbn [rev app]. rewrite removelast_last.
      replace (total l + (snd x + 0) - snd x) with (total l) by lia.
      destruct (IH cap (removed ++ [x]) Hl Hc) as (d & Hd & Hsplit).
      exists (d ++ [x]). rewrite Hd. rewrite rev_app_distr. cbn [rev app]. rewrite <- app_assoc. cbn [app].
      rewrite (trim_app l [x] cap Hl Hc).
      destruct (total l <=? cap) eqn:E2.
      * apply Z.leb_le in E2. cbn [trim]. replace (snd x <=? cap - total l) with false by (symmetry; apply Z.leb_gt; lia).
        rewrite app_nil_r. rewrite (trim_fits l cap Hl Hc E2) in *.
        split; [reflexivity|]. assert (d = []) by (apply (app_inv_head l); now rewrite app_nil_r). subst. reflexivity.
      * split; [reflexivity|]. rewrite app_assoc, <- Hsplit. reflexivity.
    + apply Z.ltb_ge in E. exists []. cbn [rev]. rewrite !app_nil_r.
      assert (Hall : nonneg (l ++ [x])) by (apply Forall_app; split; auto).
      rewrite (trim_fits (l ++ [x]) cap Hall Hc) by (rewrite total_app; cbn; lia).
      rewrite total_app. cbn. split; reflexivity.
Qed.
End LRU.
Print Assumptions check_capacity_spec.
