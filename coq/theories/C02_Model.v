(* C02: the complete key locker.  On top of the per-object RWMutex machine of KeyLTS.v (whose "keys" are
   read here as lock OBJECTS) sits the reference-counted table of syncx/keylock: key -> (object, readCount,
   writeCount), a fresh object per created entry, registration under the table mutex before any blocking
   step, per-key unlock = RWMutex unlock + decrement + tryFree, multi-key calls in (shard index, list) order.

   One label per critical section or runtime event:
     FCall t ks w    caller t enters Lock/RLock/Locks/RLocks with the list ks (its own order); the
                     acquisition order (stable by shard index) and the per-shard chunks are computed locally
     FReg t          one table section: getWriteLocks/getReadLocks of the next chunk (look up or create,
                     count++), objects appended to the caller's ws slice; after the last chunk the caller
                     starts locking its objects in order (KeyLTS.Start)
     FArrive t / FAnnounce o i / FGrant o / FToken o i      the RWMutex events of KeyLTS on OBJECTS
     FRelease t      the caller (which has returned) enters Unlock/RUnlock/Unlocks/RUnlocks
     FUnlock t       for its next key: lockMap[key] is looked up AGAIN (the object remembered in tregd is not
                     consulted), that object is unlocked, the count decremented, the entry freed when both
                     counts are zero
   The table mutex itself is not a model lock: every table section is one atomic label, except the multi-key
   unlock section which is split per key (the code's coarser atomicity allows a subset of these schedules).
   A step that the Go code could only take by faulting (nil entry, unlocking an object the caller does not
   hold, a count below zero) is not enabled; C02_Inv.v proves such a step is never reached. *)
From Coq Require Import List Lia Bool Arith.
Require Export KeyLTS.
Import ListNotations.

Record entry := { eobj : nat; erc : nat; ewc : nat }.
Inductive stage := SReg (todo : list (list nat)) | SRun | SRel.
(* a caller inside the locker: its mode, the (key, object) pairs it has registered and not yet unlocked, in
   acquisition order (the ws slice zipped with the sorted key list), and where it is in its call *)
Record treq := { tw : bool; tregd : list (nat * nat); tstage : stage }.
Record reg := { gt : nat; gk : nat; go : nat; gw : bool }.        (* ghost: who registered which key on which object *)
Record tbl := { tmap : nat -> option entry; tnext : nat; tregs : list reg }.
Record fstate := { base : st; tb : tbl; thr : nat -> option treq }.

Definition finit : fstate :=
  {| base := init; tb := {| tmap := fun _ => None; tnext := 0; tregs := [] |}; thr := fun _ => None |}.

Inductive flabel :=
| FCall (t : nat) (ks : list nat) (w : bool)
| FReg (t : nat)
| FArrive (t : nat)
| FAnnounce (o i : nat)
| FGrant (o : nat)
| FToken (o i : nat)
| FRelease (t : nat)
| FUnlock (t : nat).

Definition set_stage (q : treq) (g : stage) : treq := {| tw := tw q; tregd := tregd q; tstage := g |}.
Definition bump (w : bool) (e : entry) : entry :=
  if w then {| eobj := eobj e; erc := erc e; ewc := S (ewc e) |} else {| eobj := eobj e; erc := S (erc e); ewc := ewc e |}.
Definition drop (w : bool) (e : entry) : entry :=
  if w then {| eobj := eobj e; erc := erc e; ewc := pred (ewc e) |} else {| eobj := eobj e; erc := pred (erc e); ewc := ewc e |}.
Definition cnt (w : bool) (e : entry) : nat := if w then ewc e else erc e.

(* the body of the loop of getWriteLocks / getReadLocks (and of Lock / RLock) for one key *)
Definition reg_key (t : nat) (w : bool) (b : tbl) (k : nat) : tbl * nat :=
  match tmap b k with
  | Some e => ({| tmap := upd (tmap b) k (Some (bump w e)); tnext := tnext b;
                  tregs := {| gt := t; gk := k; go := eobj e; gw := w |} :: tregs b |}, eobj e)
  | None => ({| tmap := upd (tmap b) k (Some (bump w {| eobj := tnext b; erc := 0; ewc := 0 |})); tnext := S (tnext b);
                tregs := {| gt := t; gk := k; go := tnext b; gw := w |} :: tregs b |}, tnext b)
  end.
Fixpoint reg_keys (t : nat) (w : bool) (b : tbl) (ks : list nat) : tbl * list nat :=
  match ks with
  | [] => (b, [])
  | k :: r => let (b1, o) := reg_key t w b k in let (b2, os) := reg_keys t w b1 r in (b2, o :: os)
  end.

Fixpoint remove_reg (t k : nat) (l : list reg) : list reg :=
  match l with
  | [] => []
  | r :: l' => if Nat.eqb (gt r) t && Nat.eqb (gk r) k then l' else r :: remove_reg t k l'
  end.

(* the table half of one key of Unlock / RUnlock / Unlocks / RUnlocks: which object is unlocked, count--, tryFree *)
Definition unreg_key (t : nat) (w : bool) (b : tbl) (k : nat) : option (tbl * nat) :=
  match tmap b k with
  | None => None                                    (* nil entry: the Go code would fault *)
  | Some e =>
      if Nat.eqb (cnt w e) 0 then None              (* the count would go negative *)
      else let e' := drop w e in
           Some ({| tmap := upd (tmap b) k (if Nat.eqb (erc e') 0 && Nat.eqb (ewc e') 0 then None else Some e');
                    tnext := tnext b; tregs := remove_reg t k (tregs b) |}, eobj e)
  end.

Section Routing.
Variable sh : nat -> nat.      (* key -> shard index; constant for the two single lockers *)

(* calculateSortedMultiKeys: group by shard index keeping the list order inside a group, groups by increasing index *)
Fixpoint ins (x : nat) (l : list nat) : list nat :=
  match l with [] => [x] | y :: r => if sh x <=? sh y then x :: l else y :: ins x r end.
Fixpoint acq_order (l : list nat) : list nat := match l with [] => [] | x :: r => ins x (acq_order r) end.
Fixpoint chunks (l : list nat) : list (list nat) :=
  match l with
  | [] => []
  | x :: r => match chunks r with
              | (y :: c) :: cs => if sh x =? sh y then (x :: y :: c) :: cs else [x] :: (y :: c) :: cs
              | _ => [[x]]
              end
  end.

(* after a table section: when no chunk is left the caller starts on its objects *)
Definition start_if_done (s : fstate) (t : nat) (q : treq) : option fstate :=
  match tstage q with
  | SReg [] => match step (base s) (Start t (map snd (tregd q)) (tw q)) with
               | Some b => Some {| base := b; tb := tb s; thr := upd (thr s) t (Some (set_stage q SRun)) |}
               | None => None
               end
  | _ => Some {| base := base s; tb := tb s; thr := upd (thr s) t (Some q) |}
  end.

Definition lift (s : fstate) (l : label) : option fstate :=
  match step (base s) l with Some b => Some {| base := b; tb := tb s; thr := thr s |} | None => None end.

Definition next_rel_obj (s : fstate) (t : nat) : option nat :=
  match reqs (base s) t with
  | Some r => match rphase r with Rel (o :: _) => Some o | _ => None end
  | None => None
  end.

Definition fstep (s : fstate) (l : flabel) : option fstate :=
  match l with
  | FCall t ks w =>
      match thr s t with
      | Some _ => None
      | None => if nodupb ks
                then start_if_done s t {| tw := w; tregd := []; tstage := SReg (chunks (acq_order ks)) |}
                else None
      end
  | FReg t =>
      match thr s t with
      | Some q => match tstage q with
                  | SReg (c :: todo) =>
                      let (b', os) := reg_keys t (tw q) (tb s) c in
                      start_if_done {| base := base s; tb := b'; thr := thr s |} t
                        {| tw := tw q; tregd := tregd q ++ combine c os; tstage := SReg todo |}
                  | _ => None
                  end
      | None => None
      end
  | FArrive t => lift s (Arrive t)
  | FAnnounce o i => lift s (Announce o i)
  | FGrant o => lift s (Grant o)
  | FToken o i => lift s (Token o i)
  | FRelease t =>
      match thr s t with
      | Some q => match tstage q with
                  | SRun => match step (base s) (Release t) with
                            | Some b => Some {| base := b; tb := tb s;
                                                thr := upd (thr s) t (match tregd q with [] => None | _ => Some (set_stage q SRel) end) |}
                            | None => None
                            end
                  | _ => None
                  end
      | None => None
      end
  | FUnlock t =>
      match thr s t with
      | Some q => match tstage q, tregd q with
                  | SRel, (k, _) :: rem =>
                      match unreg_key t (tw q) (tb s) k with
                      | Some (b', o) =>
                          match next_rel_obj s t with
                          | Some o' =>
                              if Nat.eqb o' o then
                                match step (base s) (UnlockKey t) with
                                | Some bs => Some {| base := bs; tb := b';
                                                     thr := upd (thr s) t (match rem with [] => None | _ => Some {| tw := tw q; tregd := rem; tstage := SRel |} end) |}
                                | None => None
                                end
                              else None          (* lockMap[key] is not the object this caller locked *)
                          | None => None
                          end
                      | None => None
                      end
                  | _, _ => None
                  end
      | None => None
      end
  end.

Definition frun (s : fstate) (ls : list flabel) : option fstate :=
  fold_left (fun o l => match o with Some s => fstep s l | None => None end) ls (Some s).

End Routing.

(* ---------------- what an observer at the API and at the two hooks sees ---------------- *)
(* the call of t has returned (and the matching unlock has not been entered) *)
Definition returned (s : fstate) (t : nat) : bool :=
  match thr s t, reqs (base s) t with
  | Some q, Some r => match tstage q, rphase r with
                      | SRun, Acq n => Nat.eqb n (length (rkeys r)) && negb (running (base s) t)
                      | _, _ => false
                      end
  | _, _ => false
  end.
(* VerifKeyCounts *)
Definition key_counts (s : fstate) (k : nat) : option (nat * nat) :=
  match tmap (tb s) k with Some e => Some (erc e, ewc e) | None => None end.

(* nothing can move until a caller enters the API again: nobody runs, nobody is inside a call's table part, and
   no lock has an enabled Announce / Grant / Token *)
Definition thread_quiet (s : fstate) (t : nat) : bool :=
  negb (running (base s) t) &&
  match thr s t with Some q => match tstage q with SRun => true | _ => false end | None => true end.
Definition lock_quiet (m : rwm) : bool :=
  negb (free m && negb (is_nil (wwait m)))
  && negb (match pending m, writer m, readers m, tokens m with Some _, None, [], O => true | _, _, _, _ => false end)
  && negb (negb (Nat.eqb (tokens m) 0) && negb (is_nil (rblocked m))).
Definition quiescent (nthreads : nat) (s : fstate) : bool :=
  forallb (thread_quiet s) (seq 0 nthreads) && forallb (fun o => lock_quiet (locks (base s) o)) (seq 0 (tnext (tb s))).
