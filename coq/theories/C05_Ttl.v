(* C05: which deadline governs a key after Set / Get, at every later clock reading:
   a storing Set without keep-ttl (or on a key that is not live) installs  deadline ttl now;
   keep-ttl on a live key keeps the old deadline and replaces the value;
   update-ttl installs  deadline (ttl or default) now;  a plain Get leaves the deadline alone. *)
From Coq Require Import ZArith List Lia Bool.
Require Import TTL TTLView C05_Hist.
Import ListNotations.
Open Scope Z_scope.

Definition live_until (d : Z) (v : Z) (now' : Z) : option Z := if d <? now' then None else Some v.

Lemma view_head x l0 sz dt now' : view {| size := sz; dttl := dt; l := x :: l0 |} (key x) now' = live_until (dl x) (val x) now'.
Proof. unfold view. cbn [l]. rewrite find_cons_same by reflexivity. reflexivity. Qed.

(* update-ttl *)
Theorem update_ttl_spec c k o now t v : view c k now = Some v -> rag o = false -> upd o = Some t ->
  forall now', view (fst (get c k o now)) k now' = live_until (deadline (upd_ttl c t) now) v now'.
Proof.
  intros Hv Hr Hu now'. unfold view in Hv. unfold get. destruct (find_k k (l c)) as [n|] eqn:Hf; [|discriminate].
  destruct (dl n <? now) eqn:Ed; [discriminate|]. injection Hv as <-. rewrite Hr, Hu. cbn [fst].
  apply (view_head {| key := k; val := val n; dl := deadline (upd_ttl c t) now |}).
Qed.

(* a Get without update-ttl leaves the deadline alone *)
Theorem get_keeps_deadline c k o now v : view c k now = Some v -> rag o = false -> upd o = None ->
  forall now', view (fst (get c k o now)) k now' = view c k now'.
Proof.
  intros Hv Hr Hu now'. unfold view in Hv. unfold get. unfold view at 2. destruct (find_k k (l c)) as [n|] eqn:Hf; [|discriminate].
  destruct (dl n <? now) eqn:Ed; [discriminate|]. rewrite Hr, Hu. cbn [fst].
  apply (view_head {| key := k; val := val n; dl := dl n |}).
Qed.

(* keep-ttl on a live key: new value, old deadline *)
Theorem keep_ttl_spec c k v o now w : view c k now = Some w -> mne o = false -> keep o = true ->
  forall now', view (fst (set c k v o now)) k now' = match view c k now' with Some _ => Some v | None => None end.
Proof.
  intros Hv Hm Hk now'. unfold view in Hv. unfold set. unfold view at 2. destruct (find_k k (l c)) as [n|] eqn:Hf; [|discriminate].
  destruct (dl n <? now) eqn:Ed; [discriminate|]. rewrite Hm, Hk. cbn [fst].
  rewrite (view_head {| key := k; val := v; dl := dl n |}). unfold live_until. cbn [dl val]. now destruct (dl n <? now').
Qed.

(* a storing Set without keep-ttl installs the fresh deadline (size >= 1) *)
Theorem set_deadline_spec c k v o now : 1 <= size c -> mne o = false -> keep o = false ->
  forall now', view (fst (set c k v o now)) k now' = live_until (deadline (set_ttl c o) now) v now'.
Proof.
  intros Hs Hm Hk now'. unfold set. set (x := {| key := k; val := v; dl := deadline (set_ttl c o) now |}).
  assert (Hnew : forall l0, view {| size := size c; dttl := dttl c; l := if size c <? Z.of_nat (length (x :: l0)) then removelast (x :: l0) else x :: l0 |} k now'
                          = live_until (deadline (set_ttl c o) now) v now').
  { intros l0. unfold view. cbn [l]. change k with (key x) at 1. rewrite (head_survives x l0 (size c) Hs). reflexivity. }
  destruct (find_k k (l c)) as [n|] eqn:Hf.
  - destruct (dl n <? now); [cbn [fst]; apply Hnew|]. rewrite Hm, Hk. cbn [fst]. apply (view_head x).
  - cbn [fst]. apply Hnew.
Qed.

(* a Set (any options) on a key that is not retrievable installs the fresh deadline: keep-ttl has nothing to keep *)
Theorem set_absent_deadline_spec c k v o now : 1 <= size c -> view c k now = None ->
  forall now', view (fst (set c k v o now)) k now' = live_until (deadline (set_ttl c o) now) v now'.
Proof.
  intros Hs Hv now'. unfold view in Hv. unfold set. set (x := {| key := k; val := v; dl := deadline (set_ttl c o) now |}).
  assert (Hnew : forall l0, view {| size := size c; dttl := dttl c; l := if size c <? Z.of_nat (length (x :: l0)) then removelast (x :: l0) else x :: l0 |} k now'
                          = live_until (deadline (set_ttl c o) now) v now').
  { intros l0. unfold view. cbn [l]. change k with (key x) at 1. rewrite (head_survives x l0 (size c) Hs). reflexivity. }
  destruct (find_k k (l c)) as [n|] eqn:Hf.
  - destruct (dl n <? now); [cbn [fst]; apply Hnew|discriminate].
  - cbn [fst]. apply Hnew.
Qed.
