(* C15: what the driver evaluates on every observed case *)
From Coq Require Import List Bool ZArith Lia.
Require Export C15_Model C15_LTS C15_Obs C15_Conc.
Require Import C15_Proofs.
Import ListNotations.
Open Scope Z_scope.

(* ------------------------------------------------------------------ the case type *)
Inductive case :=
  | CSeq (l : obs_level) (c : gcfg) (univ : list Z) (steps : list sstep)
  | CConc (c : gcfg) (deep : nat) (univ : list Z) (items : list item)
  (* "hashers are functions": pairs (HashedInt of a key computed by one goroutine alone, an answer for the same key
     while other goroutines were hashing); the model takes the hash of a key as a datum of the key, so routing is a
     function of the key exactly when every such pair agrees *)
  | CHash (obs : list (Z * Z)).

Definition hash_stable (obs : list (Z * Z)) : bool := forallb (fun p => fst p =? snd p) obs.

Definition case_holds (c : case) : bool :=
  match c with
  | CSeq l cfg univ steps =>
      seq_holds l univ (match l with ObsStore => [] | ObsAll => map (fun _ => None) univ end)
                (map (fun k => lookup k (g_init cfg)) univ) [] steps
  | CConc cfg deep univ items => conc_holds cfg univ items
  | CHash obs => hash_stable obs
  end.

(* the observation is exactly what the model produces: for a sequential history the model's observation of every call,
   for a scheduled run a replay of the observed labels on the machine with exactly these answers and snapshots *)
Definition case_accept (c : case) : bool :=
  match c with
  | CSeq l cfg univ steps => seq_accept l cfg univ (ginit cfg) steps
  | CConc cfg deep univ items => conc_match cfg deep univ [] (minit cfg) items
  | CHash obs => hash_stable obs
  end.

(* ------------------------------------------------------------------ whatever is accepted satisfies the monitor *)
(* every worker noted so far is the one the key is routed to *)
Definition ws_ok (c : gcfg) (ws : list (Z * Z)) : Prop := forall k w, lookup k ws = Some w -> w = loc_of c k.

Theorem seq_sound l c univ : forall steps g ws, gok g -> ws_ok c ws -> seq_accept l c univ g steps = true ->
  seq_holds l univ (snap_cache l c g univ) (snap_store c g univ) ws steps = true.
Proof.
  induction steps as [|s rest IH]; intros g ws Hg Hws Ha; [reflexivity|].
  cbn [seq_accept] in Ha. unfold model_step in Ha.
  destruct (do_op c g (st_op s) (st_faults s)) as [[g' evs] r] eqn:Ed.
  apply andb_prop in Ha as [Ha Hrest]. apply andb_prop in Ha as [Hmem Heq]. apply andb_prop in Hmem as [Hmem Hpos]. apply Z.ltb_lt in Hpos.
  pose proof (do_op_no_panic _ _ _ _ _ _ _ Hg Hpos Ed) as Hnp.
  destruct (sobs_match_eq _ _ _ Heq) as (He & Hwk & Hca & Hst & Hres). cbn [ob_events ob_res ob_worker ob_cache ob_store] in He, Hwk, Hca, Hst, Hres.
  assert (Hwk' : forall a, ob_worker (st_obs s) = Some a -> a = loc_of c (key_of (st_op s))).
  { intros a Ha'. rewrite Hwk in Ha'. unfold snap_worker in Ha'. destruct l; [discriminate|].
    destruct (existsb is_cache_ev evs); inversion Ha'. reflexivity. }
  apply mem_In in Hmem.
  destruct (do_op_spec _ _ _ _ _ _ _ Hg Ed) as (B1 & B2 & B3 & B4 & B5 & B6 & B7 & B8).
  cbn [seq_holds]. apply andb_true_intro. split.
  2:{ rewrite Hca, Hst. apply IH; try assumption. intros k0 w0. unfold note_worker.
      destruct (ob_worker (st_obs s)) as [a|] eqn:Ea; [|apply Hws]. cbn [lookup].
      destruct (key_of (st_op s) =? k0) eqn:Ek; [|apply Hws]. apply Z.eqb_eq in Ek. intros H. inversion H; subst. apply Hwk'. reflexivity. }
  unfold step_holds. rewrite He, Hca, Hst.
  set (k := key_of (st_op s)) in *.
  repeat (apply andb_true_intro; split).
  - unfold worker_ok. destruct (ob_worker (st_obs s)) as [a|] eqn:Ea; [|reflexivity].
    destruct (lookup k ws) as [b|] eqn:Eb; [|reflexivity]. rewrite (Hwk' a eq_refl), (Hws k b Eb). apply Z.eqb_refl.
  - destruct Hres as [-> | ->]; [|reflexivity]. destruct r; try reflexivity. congruence.
  - apply forallb_project. apply (Forall_forallb _ _ _ (fun e H => proj2 (Z.eqb_eq _ _) H) B3).
  - apply forallb_forall. intros x Hx. destruct (x =? k) eqn:E; [reflexivity|]. apply Z.eqb_neq in E. cbn [orb].
    unfold snap_store. rewrite !at_key_map by exact Hx. rewrite (B2 x E). apply oz_eqb_refl.
  - destruct l; [reflexivity|]. cbn [snap_cache]. apply coherent_map. intros x v Hx.
    destruct B1 as [B1 _]. apply (B1 (loc_of c x)). exact Hx.
  - apply forallb_project. unfold snap_store. rewrite at_key_map by exact Hmem.
    apply (Forall_forallb _ _ _ (pre_good_ok _) B4).
  - destruct Hres as [-> | ->]; [|reflexivity]. destruct (is_dup r) eqn:Edup; [|reflexivity].
    unfold no_store_ev. apply forallb_project. apply B5. destruct r; try discriminate. destruct e; try discriminate. reflexivity.
  - destruct (st_op s) as [k0|k0 d0|k0 d0|k0|k0 d0|k0 d0|k0 d0] eqn:Eo; try reflexivity; cbn [key_of] in k; subst k.
    + (* get *) destruct Hres as [-> | ->]; [|reflexivity]. destruct r as [v| | | |]; try reflexivity. rewrite existsb_load_project.
      destruct (existsb is_load evs) eqn:El; [reflexivity|]. unfold snap_store. rewrite at_key_map by exact Hmem.
      rewrite (B8 k0 v eq_refl eq_refl eq_refl). apply oz_eqb_refl.
    + (* add *) destruct l; [reflexivity|]. cbn [snap_cache]. rewrite at_key_map by exact Hmem.
      destruct (cache_at c g k0) as [v|] eqn:Ec; [|reflexivity].
      destruct (B7 k0 d0 v eq_refl Ec) as (Hr & Hn & Hst').
      assert (Hd : (is_dup (ob_res (st_obs s)) || is_ctx (ob_res (st_obs s))) = true).
      { destruct Hres as [-> | ->]; [rewrite Hr; reflexivity | reflexivity]. }
      rewrite Hd. cbn [andb].
      unfold no_store_ev in *. rewrite (forallb_project _ _ Hn). cbn [andb]. unfold snap_store. rewrite !at_key_map by exact Hmem.
      rewrite Hst'. apply oz_eqb_refl.
    + (* delete *) destruct Hres as [-> | ->]; [|reflexivity]. destruct r; try reflexivity. destruct l; [reflexivity|]. cbn [snap_cache]. rewrite at_key_map by exact Hmem.
      destruct (B6 eq_refl) as [-> _]. reflexivity.
Qed.

Theorem case_sound : forall c, case_accept c = true -> case_holds c = true.
Proof.
  intros [l cfg univ steps|cfg deep univ items|obs]; cbn [case_accept case_holds]; intros Ha;
    [|eapply conc_sound; exact Ha|exact Ha].
  assert (Hnil : ws_ok cfg []) by (intros k w H; discriminate).
  pose proof (seq_sound l cfg univ steps (ginit cfg) [] (ginit_ok cfg) Hnil Ha) as H.
  replace (snap_cache l cfg (ginit cfg) univ) with (match l with ObsStore => [] | ObsAll => map (fun _ : Z => @None (option Z)) univ end) in H
    by (destruct l; reflexivity).
  exact H.
Qed.
