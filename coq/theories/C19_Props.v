(* C19 vcode: a sent code verifies once-correct, attempts and sends are bounded.
   The property clause by clause, for every configuration and every history the model conforms from the empty cache
   (any set of pairs, any clock readings, any drawn codes and hashes, mock and real sender, any SMS gateway answers).
   This file contains statements closed by `exact` only.

   Reading guide.  A history is a list of items (operation, observation).  `conforms_run c [] items = true` says that the
   model of vcode.sender (C19_Model.v: SendSMSCode / VerifySMSCode over the LRU cache, branch for branch) produces
   exactly these observations.  `last_send c k past` / `attempts c k past` / `win c k past` (C19_Spec.v) read off the
   earlier items (most recent first): the (time, code, hash) of the last send that went out to key k, the number of
   verifications of k since, the running send window (start, sends in it).  `nkeys items <= cacheSize` says that the
   history touches no more pairs than the LRU cache holds, so that nothing is evicted. *)
From Coq Require Import ZArith List Bool String Ascii.
Require Import C19_Model C19_Cache C19_Spec C19_Sound C19_Nonce C19_Thm C19_More C19_Clock C19_Fast C19_Check.
Import ListNotations.
Open Scope Z_scope.

(* ---------------- the tie used by the driver ---------------- *)
(* whatever the driver accepts satisfies the monitor *)
Theorem c19_case_sound : forall x, case_accept x = true -> case_holds x = true.
Proof. exact case_sound. Qed.

(* every history of the model satisfies the monitor: the model's cache state is exactly what the history says *)
Theorem c19_model_holds : forall c items, conforms_run c [] items = true -> holds c items = true.
Proof. exact model_holds. Qed.

(* the scripted nonce run of the model satisfies the nonce clauses *)
Theorem c19_nonce_model_holds : forall base n raw targets,
  Z.of_nat (List.length targets) = Z.max 0 n ->
  nonce_holds base n targets (snd (nonce_run (nonce_bound base) base raw targets)) = true.
Proof. exact nonce_model_holds. Qed.

(* the one-pass monitor evaluated on run-length histories (tens of thousands of items) is the monitor *)
Theorem c19_holds_fast_eq : forall c items, holds_fast c items = holds c items.
Proof. exact holds_fast_eq. Qed.

(* ---------------- a sent code verifies ---------------- *)
Theorem c19_verify_after_send : forall c pre mid post a p t smsok h e calls cd hs now r,
  let k := key a p in
  let items := pre ++ (Send a p t smsok, RSend h e calls) :: mid ++ (Verify a p cd hs now, RVerify r) :: post in
  conforms_run c [] items = true ->
  Z.of_nat (nkeys items) <= cacheSize c ->
  accepted e = true ->                                          (* the send went out (nil, or the gateway's own error) *)
  (forall it, In it mid -> sent_info c k it = None) ->          (* no newer send went out to the pair *)
  Z.of_nat (nverify k mid) < maxVerify c ->                     (* fewer than maxVerify attempts since *)
  tsub now t <= ttl c ->                                        (* within the lifetime *)
  cd = code_of c p calls -> hs = h ->                           (* that code, the returned hash *)
  r = None.
Proof. exact verify_after_send. Qed.

(* a new send resets the attempts *)
Theorem c19_send_resets_attempts : forall c pre post a p t smsok h e calls now r,
  let items := pre ++ (Send a p t smsok, RSend h e calls) :: (Verify a p (code_of c p calls) h now, RVerify r) :: post in
  conforms_run c [] items = true ->
  Z.of_nat (nkeys items) <= cacheSize c ->
  accepted e = true -> 0 < maxVerify c -> tsub now t <= ttl c ->
  r = None.
Proof. exact send_resets_attempts. Qed.

(* ---------------- nothing else verifies (no side condition on the cache size) ---------------- *)
Theorem c19_verify_ok_only_if : forall c pre post a p cd hs now,
  conforms_run c [] (pre ++ (Verify a p cd hs now, RVerify None) :: post) = true ->
  exists t, last_send c (key a p) (rev pre) = Some (t, cd, hs) /\
            Z.of_nat (attempts c (key a p) (rev pre)) + 1 <= maxVerify c /\
            tsub now t <= ttl c.
Proof. exact verify_ok_only_if. Qed.

Theorem c19_wrong_anything_fails : forall c pre post a p cd hs now r,
  conforms_run c [] (pre ++ (Verify a p cd hs now, RVerify r) :: post) = true ->
  (match last_send c (key a p) (rev pre) with
   | None => True
   | Some (t, cd0, h0) => cd0 <> cd \/ h0 <> hs \/ ttl c < tsub now t
   end) ->
  r <> None.
Proof. exact wrong_anything_fails. Qed.

(* ---------------- the attempt limit ---------------- *)
(* for EVERY number of attempts: the model's counters are unbounded integers, nothing wraps - 65536 or 2^64 further
   attempts against one sent code leave it locked (the correspondence check exercises counts beyond 2^16) *)
Theorem c19_attempt_bound : forall c pre post a p cd hs now r,
  conforms_run c [] (pre ++ (Verify a p cd hs now, RVerify r) :: post) = true ->
  maxVerify c <= Z.of_nat (attempts c (key a p) (rev pre)) ->
  r = Some RetryLimit \/ r = Some NotExist.
Proof. exact attempt_bound. Qed.

Theorem c19_attempts_since_send : forall c k pre mid it x,
  sent_info c k it = Some x -> (forall it', In it' mid -> sent_info c k it' = None) ->
  attempts c k (rev (pre ++ it :: mid)) = nverify k mid.
Proof. exact attempts_since_send. Qed.

(* ---------------- minimum interval, window limit ---------------- *)
Theorem c19_min_interval_enforced : forall c pre post a p now smsok ob t cd0 h0,
  let items := pre ++ (Send a p now smsok, ob) :: post in
  conforms_run c [] items = true ->
  Z.of_nat (nkeys items) <= cacheSize c ->
  last_send c (key a p) (rev pre) = Some (t, cd0, h0) ->
  tsub now t < minInterval c ->
  ob = RSend 0 (Some TooFreq) [].
Proof. exact min_interval_enforced. Qed.

(* as coded (and as the property reads the attempt limit): the test is count > maxCount, so maxCount + 1 sends fit *)
Theorem c19_window_limit : forall c pre post a p now smsok ob w n,
  let items := pre ++ (Send a p now smsok, ob) :: post in
  conforms_run c [] items = true ->
  Z.of_nat (nkeys items) <= cacheSize c ->
  win c (key a p) (rev pre) = Some (w, n) ->
  tsub now w <= counterDuration c -> maxCount c < n ->
  ob = RSend 0 (Some TooFreq) [] \/ ob = RSend 0 (Some CountLimit) [].
Proof. exact window_limit. Qed.

Theorem c19_send_goes_out : forall c pre post a p now smsok ob,
  let items := pre ++ (Send a p now smsok, ob) :: post in
  conforms_run c [] items = true ->
  Z.of_nat (nkeys items) <= cacheSize c ->
  exp_send c (key a p) now (rev pre) = None ->
  gen_panics c p = false ->
  sent_ok c a p smsok ob = true.
Proof. exact send_goes_out. Qed.

(* in every reachable state every entry's send counter is within [1, max 0 maxCount + 1]; the cache within its capacity *)
Theorem c19_send_count_bounded : forall c ops st, count_ok c st -> count_ok c (run_ops c st ops).
Proof. exact send_count_bounded. Qed.

Theorem c19_cache_bounded : forall c, 0 <= cacheSize c -> forall ops st,
  Z.of_nat (List.length st) <= cacheSize c -> Z.of_nat (List.length (run_ops c st ops)) <= cacheSize c.
Proof. exact cache_bounded. Qed.

(* ---------------- the cache key; the pre-repair key mismatch (defect 12) ---------------- *)
Theorem c19_key_injective : forall a1 a2 p1 p2, no_dash a1 = true -> no_dash a2 = true ->
  key a1 p1 = key a2 p2 -> a1 = a2 /\ p1 = p2.
Proof. exact key_injective. Qed.

Theorem c19_key_prefix_differs : forall a p, key_prefix a p <> key a p.
Proof. exact key_prefix_differs. Qed.

Theorem c19_verify_prefix_never_finds : forall c a p now smsok oc oh st1 ob cd hs now',
  send c [] a p now smsok oc oh = (st1, ob) ->
  snd (verify_prefix c st1 a p cd hs now') = RVerify (Some NotExist).
Proof. exact verify_prefix_never_finds. Qed.

Theorem c19_verify_prefix_refuted :
  exists c a p cd h st1,
    send c [] a p 1000 true cd h = (st1, RSend h None [(a, p, cd)]) /\
    snd (verify c st1 a p cd h 1001) = RVerify None /\
    snd (verify_prefix c st1 a p cd h 1001) = RVerify (Some NotExist).
Proof. exact verify_prefix_refuted. Qed.

(* ---------------- generated codes: length and alphabet ---------------- *)
Theorem c19_mock_code_length : forall p n, 0 <= n -> exists s, mock_code p n = Some s /\ zlen s = n.
Proof. exact mock_code_length. Qed.

Theorem c19_mock_code_panics_iff : forall p n, mock_code p n = None <-> n < 0.
Proof. exact mock_code_panics_iff. Qed.

(* the codes conforming from a real sender = the generator's outputs over the digits with in-range draws *)
Theorem c19_valid_code_iff_generated : forall n s,
  valid_code n s = true <->
  exists draws, all_in_range (nonce_bound numChars) draws = true /\ Z.of_nat (List.length draws) = Z.max 0 n
                /\ gen_nonce numChars draws = Some s.
Proof. exact valid_code_iff_generated. Qed.

Theorem c19_nonce_length : forall base draws s, gen_nonce base draws = Some s -> zlen s = Z.of_nat (List.length draws).
Proof. exact nonce_length. Qed.

Theorem c19_nonce_alphabet : forall base draws s, gen_nonce base draws = Some s -> str_all (fun ch => str_mem ch base) s = true.
Proof. exact nonce_alphabet. Qed.

Theorem c19_nonce_total : forall base draws, all_in_range (nonce_bound base) draws = true -> exists s, gen_nonce base draws = Some s.
Proof. exact nonce_total. Qed.

Theorem c19_nonce_panics : forall base draws, all_in_range (nonce_bound base) draws = false -> gen_nonce base draws = None.
Proof. exact nonce_panics. Qed.

(* every call of the draw function is made with the same bound (len base in the repaired generator) *)
Theorem c19_nonce_run_bounds : forall bound base raw targets, Forall (fun b => b = bound) (fst (nonce_run bound base raw targets)).
Proof. exact nonce_run_bounds. Qed.

(* every character of the alphabet - indeed every string over it - can occur *)
Theorem c19_nonce_reaches_all : forall base ch, str_mem ch base = true ->
  exists i, 0 <= i < nonce_bound base /\ gen_nonce base [i] = Some (String ch EmptyString).
Proof. exact nonce_reaches_all. Qed.

Theorem c19_nonce_reaches_every_string : forall base s, str_all (fun ch => str_mem ch base) s = true ->
  exists draws, all_in_range (nonce_bound base) draws = true /\ Z.of_nat (List.length draws) = zlen s /\ gen_nonce base draws = Some s.
Proof. exact nonce_reaches_every_string. Qed.

(* pre-repair behaviour refuted (defect 13): with the bound len base - 1 the last character never occurs *)
Theorem c19_nonce_prefix_misses_last : forall pre last, str_mem last pre = false ->
  let base := (pre ++ String last EmptyString)%string in
  forall draws s, all_in_range (nonce_bound_prefix base) draws = true -> gen_nonce base draws = Some s ->
  str_mem last s = false.
Proof. exact nonce_prefix_misses_last. Qed.

Theorem c19_nonce_repaired_reaches_last : forall pre last,
  let base := (pre ++ String last EmptyString)%string in
  exists i, 0 <= i < nonce_bound base /\ gen_nonce base [i] = Some (String last EmptyString).
Proof. exact nonce_repaired_reaches_last. Qed.

(* ---------------- the always / never regimes: no decision depends on the clock ---------------- *)
(* every duration below zero (or zero, for the minimum interval) or at least H: the same operations (with the same drawn
   codes / hashes) under two clocks, each non-decreasing and spanning less than H, give the same observations *)
Theorem c19_clock_independent : forall c H lo1 lo2 ops ts,
  0 < H <= MAXDUR ->
  (ttl c < 0 \/ H <= ttl c) -> (minInterval c <= 0 \/ H <= minInterval c) -> (counterDuration c < 0 \/ H <= counterDuration c) ->
  0 <= lo1 -> 0 <= lo2 -> List.length ts = List.length ops ->
  clock_ok lo1 (lo1 + H) (map (fun x => op_time (fst (fst x))) ops) ->
  clock_ok lo2 (lo2 + H) ts ->
  run_obs c [] ops = run_obs c [] (retime ops ts).
Proof. exact clock_independent. Qed.

(* ---------------- pairs are independent ---------------- *)
(* what the monitor knows about a pair, hence what its verifications and sends must answer, is a function of the
   items of that pair alone *)
Theorem c19_monitor_projects : forall c k past,
  last_send c k (filter (on_key k) past) = last_send c k past /\
  attempts c k (filter (on_key k) past) = attempts c k past /\
  win c k (filter (on_key k) past) = win c k past.
Proof. exact monitor_projects. Qed.

Theorem c19_expectations_project : forall c k cd hs now past,
  exp_verify c k cd hs now (filter (on_key k) past) = exp_verify c k cd hs now past /\
  exp_send c k now (filter (on_key k) past) = exp_send c k now past.
Proof. exact expectations_project. Qed.

(* ---------------- non-vacuity ---------------- *)
(* the model is total: every operation has a conforming observation, every operation sequence a conforming history *)
Theorem c19_model_total : forall c st o, exists ob st', conforms c st (o, ob) = Some st'.
Proof. exact model_total. Qed.

Theorem c19_histories_exist : forall c ops st, exists items, map fst items = ops /\ conforms_run c st items = true.
Proof. exact histories_exist. Qed.

Theorem c19_history_conforms :
  let c := {| cacheSize := 10; mock := true; codeLen := 4; ttl := 100; minInterval := 5; counterDuration := 1000;
              maxCount := 1; maxVerify := 2 |} in
  let a := "86"%string in let p := "13912345678"%string in
  conforms_run c []
    [ (Send a p 10 true, RSend 1 None []);
      (Send a p 12 true, RSend 0 (Some TooFreq) []);
      (Verify a p "0000" 1 13, RVerify (Some NotMatch));
      (Verify a p "5678" 1 14, RVerify None);
      (Verify a p "5678" 1 15, RVerify (Some RetryLimit));
      (Send a p 20 true, RSend 2 None []);
      (Verify a p "5678" 1 21, RVerify (Some HashNotMatch));
      (Verify a p "5678" 2 200, RVerify (Some Timeout));
      (Send a p 30 true, RSend 0 (Some CountLimit) []);
      (Verify "1" p "5678" 2 31, RVerify (Some NotExist)) ] = true.
Proof. exact history_conforms. Qed.

Print Assumptions c19_case_sound.
Print Assumptions c19_model_holds.
Print Assumptions c19_nonce_model_holds.
Print Assumptions c19_holds_fast_eq.
Print Assumptions c19_verify_after_send.
Print Assumptions c19_send_resets_attempts.
Print Assumptions c19_verify_ok_only_if.
Print Assumptions c19_wrong_anything_fails.
Print Assumptions c19_attempt_bound.
Print Assumptions c19_attempts_since_send.
Print Assumptions c19_min_interval_enforced.
Print Assumptions c19_window_limit.
Print Assumptions c19_send_goes_out.
Print Assumptions c19_send_count_bounded.
Print Assumptions c19_cache_bounded.
Print Assumptions c19_key_injective.
Print Assumptions c19_key_prefix_differs.
Print Assumptions c19_verify_prefix_never_finds.
Print Assumptions c19_verify_prefix_refuted.
Print Assumptions c19_mock_code_length.
Print Assumptions c19_mock_code_panics_iff.
Print Assumptions c19_valid_code_iff_generated.
Print Assumptions c19_nonce_length.
Print Assumptions c19_nonce_alphabet.
Print Assumptions c19_nonce_total.
Print Assumptions c19_nonce_panics.
Print Assumptions c19_nonce_run_bounds.
Print Assumptions c19_nonce_reaches_all.
Print Assumptions c19_nonce_reaches_every_string.
Print Assumptions c19_nonce_prefix_misses_last.
Print Assumptions c19_nonce_repaired_reaches_last.
Print Assumptions c19_clock_independent.
Print Assumptions c19_monitor_projects.
Print Assumptions c19_expectations_project.
Print Assumptions c19_model_total.
Print Assumptions c19_histories_exist.
Print Assumptions c19_history_conforms.
