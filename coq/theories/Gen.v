(* C06 core: one step of HardNode.Generate strictly increases the (time, step) pair, whatever the clock says *)
From Coq Require Import ZArith List Lia.
Import ListNotations.
Open Scope Z_scope.

Record st := { time : Z; step : Z }.
Definition stepMax := 4095.

Definition generate (s : st) (now : Z) : st :=
  if time s <? now then {| time := now; step := 0 |}
  else let step' := Z.land (step s + 1) stepMax in
       if step' =? 0 then {| time := time s + 1; step := 0 |} else {| time := time s; step := step' |}.

Definition wf (s : st) := 0 <= step s <= stepMax.
Definition key (s : st) := time s * 4096 + step s.

Lemma land_stepmax x : 0 <= x -> Z.land x stepMax = x mod 4096.
Proof. intros H. change stepMax with (Z.ones 12). rewrite Z.land_ones by lia. reflexivity. Qed.

Lemma generate_step s now : wf s ->
  wf (generate s now) /\ key s < key (generate s now) /\ now <= time (generate s now) /\ time s <= time (generate s now).
Proof.
  unfold wf, key, generate. intros H.
  destruct (time s <? now) eqn:E; [apply Z.ltb_lt in E | apply Z.ltb_ge in E]; cbn [time step].
  - unfold stepMax in *. repeat split; lia.
  - rewrite (land_stepmax (step s + 1)) by (unfold stepMax in H; lia). unfold stepMax in *.
    destruct ((step s + 1) mod 4096 =? 0) eqn:E0; [apply Z.eqb_eq in E0 | apply Z.eqb_neq in E0]; cbn [time step].
    + repeat split; lia.
    + pose proof (Z.mod_pos_bound (step s + 1) 4096 ltac:(lia)) as Hb.
      assert (Hs : step s + 1 < 4096 \/ step s + 1 = 4096) by lia.
      destruct Hs as [Hs|Hs].
      * rewrite Z.mod_small in * by lia. repeat split; lia.
      * rewrite Hs in E0. cbn in E0. congruence.
Qed.

(* every id of a history is above all earlier ones, for every clock trajectory *)
Fixpoint run (s : st) (clock : list Z) : list st :=
  match clock with [] => [] | now :: r => let s' := generate s now in s' :: run s' r end.

Theorem ids_strictly_increasing : forall clock s, wf s ->
  Forall (fun s' => key s < key s') (run s clock) /\
  (forall pre x post, run s clock = pre ++ x :: post -> Forall (fun y => key x < key y) (run x (skipn (S (length pre)) clock))).
Proof.
  induction clock as [|now r IH]; intros s Hs; cbn [run].
  - split; [constructor|]. intros pre x post H. destruct pre; discriminate.
  - destruct (generate_step s now Hs) as (Hw & Hk & _ & _).
    destruct (IH (generate s now) Hw) as [IH1 IH2]. split.
    + constructor; auto. eapply Forall_impl; [|exact IH1]. cbn. intros. lia.
    + intros pre x post H. destruct pre as [|p pre]; cbn in H; inversion H; subst.
      * cbn. exact IH1.
      * cbn [length skipn]. eapply IH2; eauto.
Qed.
Print Assumptions ids_strictly_increasing.
