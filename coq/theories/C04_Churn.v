(* C04: histories in which nothing can be evicted (every key of the universe fits with the largest size it is ever given),
   with Delete.  The cache then is a plain map: what a key holds at the end is what the calls ON THAT KEY, in their order,
   leave in an unbounded map; the eviction counter stays 0.  When each key is written by one goroutine only, the calls on a
   key appear in every linearisation in that goroutine's program order, so the final contents do not depend on the
   interleaving (monitor churn_ok of C04_Check.v compares with the goroutines run one after the other). *)
From Coq Require Import ZArith List Lia Bool.
Require Import LRU Shard Cases_Common LRUOps C04_Model C04_Refine C04_Wide C04_Theorems C04_Check C04_Burst C04_Sia.
Import ListNotations.
Open Scope Z_scope.

(* ---------------- the unbounded map ---------------- *)
Definition mdel (k : Z) (m : fmap) : fmap := filter (fun p => negb (fst p =? k)) m.
Definition mput (k x s : Z) (m : fmap) : fmap := (k, (x, s)) :: m.
Definition cstep (m : fmap) (o : op) : fmap :=
  match o with
  | Set_ k x s | SetAndGetRemoved k x s => mput k x s m
  | SetIfAbsent k x s => match assoc k m with Some _ => m | None => mput k x s m end
  | Delete k => mdel k m
  | _ => m
  end.
Definition crun (m : fmap) (ops : list op) : fmap := fold_left cstep ops m.

Lemma assoc_put k k' x s m : assoc k' (mput k x s m) = if k =? k' then Some (x, s) else assoc k' m.
Proof. unfold assoc, mput. cbn [find fst]. destruct (k =? k'); reflexivity. Qed.
Lemma assoc_del k k' m : assoc k' (mdel k m) = if k =? k' then None else assoc k' m.
Proof.
  unfold assoc, mdel. induction m as [|p m IH]; [destruct (k =? k'); reflexivity|]. cbn [filter find].
  destruct (fst p =? k) eqn:E1; cbn [negb].
  - apply Z.eqb_eq in E1. destruct (k =? k') eqn:E2; [exact IH|]. rewrite IH. rewrite E1, E2. reflexivity.
  - cbn [find]. destruct (fst p =? k') eqn:E3; [|exact IH]. destruct (k =? k') eqn:E2; [|reflexivity].
    apply Z.eqb_eq in E2, E3. apply Z.eqb_neq in E1. congruence.
Qed.

(* the calls on key k *)
Definition on (k : Z) (o : op) : bool := zmem k (op_key o).

Lemma cstep_off k m o : on k o = false -> assoc k (cstep m o) = assoc k m.
Proof.
  unfold on, zmem. destruct o as [k0|k0|k0|k0 x s|k0 x s|k0 x s|k0| |c0]; cbn [op_key existsb cstep]; try reflexivity;
    rewrite orb_false_r; intros E; rewrite Z.eqb_sym in E.
  - rewrite assoc_put, E. reflexivity.
  - rewrite assoc_put, E. reflexivity.
  - destruct (assoc k0 m); [reflexivity|]. rewrite assoc_put, E. reflexivity.
  - rewrite assoc_del, E. reflexivity.
Qed.
Lemma cstep_on k m1 m2 o : assoc k m1 = assoc k m2 -> on k o = true -> assoc k (cstep m1 o) = assoc k (cstep m2 o).
Proof.
  intros H. unfold on, zmem. destruct o as [k0|k0|k0|k0 x s|k0 x s|k0 x s|k0| |c0]; cbn [op_key existsb cstep]; try (intros; exact H);
    rewrite orb_false_r; intros E; apply Z.eqb_eq in E; subst k0.
  - rewrite !assoc_put, Z.eqb_refl. reflexivity.
  - rewrite !assoc_put, Z.eqb_refl. reflexivity.
  - rewrite <- H. destruct (assoc k m1) eqn:E1; [rewrite E1; exact H|]. rewrite !assoc_put, Z.eqb_refl. reflexivity.
  - rewrite !assoc_del, Z.eqb_refl. reflexivity.
Qed.

(* what the map holds under k depends only on the calls on k *)
Theorem crun_local k ops : forall m1 m2, assoc k m1 = assoc k m2 ->
  assoc k (crun m1 ops) = assoc k (crun m2 (filter (on k) ops)).
Proof.
  induction ops as [|o ops IH]; intros m1 m2 H; [exact H|]. cbn [crun fold_left filter].
  destruct (on k o) eqn:E.
  - cbn [fold_left]. apply IH. apply cstep_on; assumption.
  - apply IH. rewrite cstep_off by exact E. exact H.
Qed.

Lemma zsum_map_nonneg (f : Z -> Z) (l : list Z) : (forall k, 0 <= f k) -> 0 <= zsum (map f l).
Proof. intros Hf. induction l as [|k l IH]; [vm_compute; discriminate|]. cbn [map]. unfold zsum in *. cbn [fold_right]. specialize (Hf k). lia. Qed.

(* ---------------- the cache under capacity is that map ---------------- *)
Section Churn.
Variables (v : variant) (univ : list Z) (bnd : Z -> Z) (cap0 : Z).
Hypothesis Hbnd : forall k, 0 <= bnd k.
Hypothesis Hfits : zsum (map bnd univ) <= cap0.

Definition chop (o : op) : Prop :=
  match norm v o with
  | Set_ k _ s | SetAndGetRemoved k _ s | SetIfAbsent k _ s => In k univ /\ 0 <= s <= bnd k
  | Clear | SetCapacity _ => False
  | _ => True
  end.

Definition bounded (l : list E) : Prop := Forall (fun e => In (keyof e) univ /\ 0 <= snd e <= bnd (keyof e)) l.
Definition CInv (s : istate) (m : fmap) : Prop :=
  icap s = cap0 /\ snd s = 0 /\ (forall k, option_map pairof (lookup k (ilist s)) = assoc k m) /\ bounded (ilist s).

Lemma total_le_bnd (l : list E) : NoDup (map keyof l) -> bounded l -> total l <= cap0.
Proof.
  intros Hk Hall. assert (Ht : total l <= zsum (map bnd (map keyof l))).
  { clear Hk. induction Hall as [|e l He _ IH]; [vm_compute; discriminate|]. rewrite total_cons. cbn [map]. unfold zsum in *. cbn [fold_right].
    destruct He as [_ He]. apply Z.add_le_mono; [apply He|exact IH]. }
  assert (Hincl : incl (map keyof l) univ).
  { intros k Hin. apply in_map_iff in Hin. destruct Hin as (e & <- & He). unfold bounded in Hall. rewrite Forall_forall in Hall. apply (Hall e He). }
  pose proof (sum_incl bnd Hbnd (map keyof l) univ Hk Hincl). lia.
Qed.

Lemma lookup_remove_same k (l : list E) : lookup k (remove_key k l) = None.
Proof.
  unfold lookup, remove_key. induction l as [|e l IH]; [reflexivity|]. cbn [filter]. destruct (keyof e =? k) eqn:E; cbn [negb]; [exact IH|].
  cbn [find]. rewrite E. exact IH.
Qed.

Lemma cinv_step l ev m o : NoDup (map keyof l) -> CInv (l, cap0, ev) m -> chop o ->
  CInv (fst (istep (l, cap0, ev) (norm v o))) (cstep m (norm v o)).
Proof.
  intros Hk (Hc & Hev & Hlk & Hall) Hop. unfold icap, ilist in *. cbn [fst snd] in *. subst ev. unfold chop in Hop.
  assert (Hc0 : 0 <= cap0).
  { pose proof (zsum_map_nonneg bnd univ Hbnd). lia. }
  assert (Hsame : CInv (l, cap0, 0) m) by (split; [reflexivity|split; [reflexivity|split; assumption]]).
  assert (Hfront : forall k e, lookup k l = Some e -> CInv (e :: remove_key k l, cap0, 0) m).
  { intros k e El. destruct (lookup_some _ _ _ El) as [Hin _]. unfold CInv, icap, ilist. cbn [fst snd].
    split; [reflexivity|]. split; [reflexivity|]. split; [intros k'; rewrite (lookup_front k k' e l El); apply Hlk|].
    constructor; [unfold bounded in Hall; rewrite Forall_forall in Hall; apply (Hall e Hin)|].
    apply Forall_forall. intros e' He'. unfold bounded in Hall. rewrite Forall_forall in Hall. apply Hall, (remove_key_incl k l e' He'). }
  assert (Hset : forall k x s, In k univ /\ 0 <= s <= bnd k -> CInv (fst (settle (touch k x s l) cap0 0)) (mput k x s m)).
  { intros k x s Hks. cbn [settle fst].
    assert (Hall' : bounded (touch k x s l)).
    { unfold touch. constructor; [cbn; exact Hks|]. apply Forall_forall. intros e' He'. unfold bounded in Hall. rewrite Forall_forall in Hall.
      apply Hall, (remove_key_incl k l e' He'). }
    pose proof (total_le_bnd _ (nodup_touch k x s l Hk) Hall') as Ht.
    assert (Hn : nonneg (touch k x s l)) by (apply Forall_forall; intros e' He'; unfold bounded in Hall'; rewrite Forall_forall in Hall'; apply (Hall' e' He')).
    rewrite (trim_fits KV _ cap0 Hn Hc0 Ht), (dropped_fits _ cap0 Hn Hc0 Ht). cbn [length Z.of_nat].
    unfold CInv, icap, ilist. cbn [fst snd]. split; [reflexivity|]. split; [reflexivity|]. split; [|exact Hall'].
    intros k'. rewrite assoc_put. unfold touch. unfold lookup at 1. cbn [find]. change (keyof ((k, x), s)) with k.
    destruct (k =? k') eqn:E; [reflexivity|]. fold (lookup k' (remove_key k l)). rewrite lookup_remove_other by (apply Z.eqb_neq in E; congruence). apply Hlk. }
  destruct (norm v o) as [k|k|k|k x s|k x s|k x s|k| |c0]; cbn [istep cstep fst snd]; try contradiction.
  - destruct (lookup k l) as [e|] eqn:El; cbn [fst]; [apply (Hfront k e El)|exact Hsame].
  - exact Hsame.
  - exact Hsame.
  - apply (Hset k x s Hop).
  - destruct (settle (touch k x s l) cap0 0) as [s' rem] eqn:Es. cbn [fst]. change s' with (fst (s', rem)). rewrite <- Es. apply (Hset k x s Hop).
  - pose proof (Hlk k) as Hl. destruct (lookup k l) as [e|] eqn:El; cbn [fst option_map] in *.
    + rewrite <- Hl. apply (Hfront k e El).
    + rewrite <- Hl. apply (Hset k x s Hop).
  - destruct (lookup k l) as [e|] eqn:El; cbn [fst].
    + unfold CInv, icap, ilist. cbn [fst snd]. split; [reflexivity|]. split; [reflexivity|]. split.
      * intros k'. rewrite assoc_del. destruct (k =? k') eqn:E.
        -- apply Z.eqb_eq in E. subst k'. rewrite lookup_remove_same. reflexivity.
        -- rewrite lookup_remove_other by (apply Z.eqb_neq in E; congruence). apply Hlk.
      * apply Forall_forall. intros e' He'. unfold bounded in Hall. rewrite Forall_forall in Hall. apply Hall, (remove_key_incl k l e' He').
    + unfold CInv, icap, ilist. cbn [fst snd]. split; [reflexivity|]. split; [reflexivity|]. split; [|exact Hall].
      intros k'. rewrite assoc_del. destruct (k =? k') eqn:E; [|apply Hlk]. apply Z.eqb_eq in E. subst k'. rewrite El. reflexivity.
Qed.

Theorem churn_refines_map ops : forall c m, MInv v c -> CInv (abs c) m -> Forall op_dom ops -> Forall chop ops ->
  MInv v (fst (mrun v c ops)) /\ CInv (abs (fst (mrun v c ops))) (crun m (map (norm v) ops)).
Proof.
  induction ops as [|o ops IH]; intros c m HI HC Hd Hs; [cbn; auto|].
  inversion Hd as [|? ? [Hok Hfit] Hd']; subst. inversion Hs as [|? ? Ho Hs']; subst.
  destruct (mstep_refines v c o HI Hok Hfit) as (A & _ & I).
  pose proof HC as (Hc & _). unfold abs, icap in Hc. cbn [fst snd] in Hc.
  assert (HC1 := cinv_step (lst c) (evs c) m o (proj1 (proj2 (proj2 (MInv_Inv _ _ HI)))) ltac:(unfold abs in HC; rewrite Hc in HC; exact HC) Ho).
  unfold abs in A. rewrite Hc in A. rewrite <- A in HC1.
  cbn [mrun map crun fold_left]. destruct (mstep v c o) as [c1 x]. cbn [fst] in *.
  destruct (IH c1 (cstep m (norm v o)) I HC1 Hd' Hs') as [I2 C2]. destruct (mrun v c1 ops) as [c2 xs]. cbn [fst] in *. auto.
Qed.
End Churn.

(* from a new cache: key by key the contents are what the calls on that key leave in the unbounded map; nothing is evicted;
   Length / Size are those of the surviving entries *)
Theorem churn_key_local v univ bnd cap0 ops :
  cap_dom cap0 -> (forall k, 0 <= bnd k) -> zsum (map bnd univ) <= cap0 ->
  Forall op_dom ops -> Forall (chop v univ bnd) ops ->
  let c := fst (mrun v (new_lru cap0) ops) in
  (forall k, option_map pairof (lookup k (lst c)) = assoc k (crun [] (filter (on k) (map (norm v) ops)))) /\
  evs c = 0 /\ cap c = cap0 /\ size c = total (lst c) /\ NoDup (keys_of c).
Proof.
  intros Hc Hb Hf Hd Ho. cbn zeta.
  assert (HC0 : CInv univ bnd cap0 (abs (new_lru cap0)) []).
  { unfold CInv, abs, icap, ilist, new_lru. cbn. repeat split; auto. constructor. }
  destruct (churn_refines_map v univ bnd cap0 Hb Hf ops (new_lru cap0) [] (new_MInv v cap0 Hc) HC0 Hd Ho) as (I & (Cc & Cev & Clk & _)).
  pose proof (MInv_Inv _ _ I) as (Hsz & _ & Hk & _). unfold abs, icap, ilist in *. cbn [fst snd] in *.
  split; [intros k; rewrite Clk; apply crun_local; reflexivity|]. auto.
Qed.

(* hence two linearisations that order the calls on every key alike end with the same contents *)
Corollary churn_interleaving_independent v univ bnd cap0 ops1 ops2 :
  cap_dom cap0 -> (forall k, 0 <= bnd k) -> zsum (map bnd univ) <= cap0 ->
  Forall op_dom ops1 -> Forall (chop v univ bnd) ops1 -> Forall op_dom ops2 -> Forall (chop v univ bnd) ops2 ->
  (forall k, filter (on k) (map (norm v) ops1) = filter (on k) (map (norm v) ops2)) ->
  forall k, option_map pairof (lookup k (lst (fst (mrun v (new_lru cap0) ops1)))) =
            option_map pairof (lookup k (lst (fst (mrun v (new_lru cap0) ops2)))).
Proof.
  intros Hc Hb Hf Hd1 Ho1 Hd2 Ho2 Hsame k.
  destruct (churn_key_local v univ bnd cap0 ops1 Hc Hb Hf Hd1 Ho1) as [L1 _].
  destruct (churn_key_local v univ bnd cap0 ops2 Hc Hb Hf Hd2 Ho2) as [L2 _].
  rewrite L1, L2, Hsame. reflexivity.
Qed.

Print Assumptions churn_key_local.
Print Assumptions churn_interleaving_independent.
