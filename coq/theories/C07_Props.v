(* C07 snowflake id codec: the property, clause by clause, for every id, layout, epoch and instant (unbounded).
   This file contains statements closed by `exact` only; the proofs are in C07_Proofs.v (and Cn.v, Civil.v,
   Decimal.v, BitField.v).  Model: C07_Model.v.  Monitor: C07_Mon.v. *)
From Coq Require Import List Bool ZArith.
Require Import C07_Model C07_Mon C07_Proofs C07_Check.
Import ListNotations.
Open Scope Z_scope.

(* whatever the driver accepts satisfies the monitor *)
Theorem c07_accept_sound : forall k : case, case_accept k = true -> case_holds k = true.
Proof. exact case_sound. Qed.

(* ---- splitting and recombining ---- *)

(* IDFields then the recombination of HardNode.Generate gives the id back, and every field lies within its width:
   for node widths 8/9/10, node-at-lowest on/off, every non-negative int64 id *)
Theorem c07_split_recombine : forall c id, layout_ok c -> 0 <= id < 2 ^ 63 ->
  let '(t, n, s) := id_fields c id in
  compose c t n s = id /\ 0 <= t < 2 ^ (63 - time_shift c) /\ 0 <= n < 2 ^ node_bits c /\ 0 <= s < 2 ^ STEP_BITS.
Proof. exact split_recombine. Qed.

(* the recombination holds for every integer id and every non-negative node width (no range hypothesis at all) *)
Theorem c07_fields_recombine : forall c, 0 <= node_bits c -> forall id,
  let '(t, n, s) := id_fields c id in compose c t n s = id.
Proof. exact fields_recombine. Qed.

(* conversely, fields within their widths are what the splitter returns for the recombined id *)
Theorem c07_compose_fields : forall c, 0 <= node_bits c -> forall t n s,
  0 <= n < 2 ^ node_bits c -> 0 <= s < 2 ^ STEP_BITS -> id_fields c (compose c t n s) = (t, n, s).
Proof. exact compose_fields. Qed.

(* ---- order ---- *)

(* ids order exactly as their (timestamp, remaining bits) pairs *)
Theorem c07_id_order_iso : forall c, 0 <= node_bits c -> forall id1 id2,
  id1 < id2 <->
  (id1 / 2 ^ time_shift c < id2 / 2 ^ time_shift c
   \/ (id1 / 2 ^ time_shift c = id2 / 2 ^ time_shift c /\ id1 mod 2 ^ time_shift c < id2 mod 2 ^ time_shift c)).
Proof. exact id_order_iso. Qed.

(* the same on the fields IDFields returns (remaining bits rebuilt from node and step in the configured layout) *)
Theorem c07_order_by_fields : forall c id1 id2, layout_ok c ->
  (id1 < id2 <->
   let f1 := id_fields c id1 in let f2 := id_fields c id2 in
   fst (fst f1) < fst (fst f2) \/ (fst (fst f1) = fst (fst f2) /\ rest_of c f1 < rest_of c f2)).
Proof. exact order_by_fields. Qed.

(* ---- the 24-character date form ---- *)

(* CnStyle gives 24 characters and FromChStyle converts them back to the identical id: every layout, every epoch
   from 2000 on, every non-negative id whose local calendar year has four digits (the format's own limit) *)
Theorem c07_date_form_roundtrip : forall c id, layout_ok c -> Y2000 <= epoch c -> 0 <= id < 2 ^ 63 ->
  Z.shiftr id (time_shift c) + epoch c + OFF < Y10K ->
  length (cn_style c id) = 24%nat /\ from_ch c (cn_style c id) = Ok id.
Proof. exact date_form_roundtrip. Qed.

(* more generally: any layout with at most 23 bits below the timestamp, any epoch >= 1970 *)
Theorem c07_cn_roundtrip : forall c id, 0 <= node_bits c <= 11 -> 0 <= epoch c -> 0 <= id < 2 ^ 63 ->
  Z.shiftr id (time_shift c) + epoch c + OFF < Y10K ->
  length (cn_style c id) = 24%nat /\ from_ch c (cn_style c id) = Ok id.
Proof. exact cn_roundtrip. Qed.

(* every day number converts to a calendar date and back (all eras) *)
Theorem c07_civil_roundtrip : forall z,
  let '(y, m, d) := Civil.civil_from_days z in Civil.days_from_civil y m d = z /\ 1 <= m <= 12 /\ 1 <= d <= 31.
Proof. exact Civil.civil_roundtrip. Qed.

(* the defect repaired by `fix: snowflake reads milliseconds with UnixMilli` stays refuted *)
Theorem c07_cn_roundtrip_unixnano_refuted : exists c id,
  layout_ok c /\ Y2000 <= epoch c /\ 0 <= id < 2 ^ 63 /\ Z.shiftr id (time_shift c) + epoch c + OFF < Y10K /\
  from_ch_unixnano c (cn_style c id) = Ok 7835121949838877020 /\ id <> 7835121949838877020.
Proof. exact cn_roundtrip_unixnano_refuted. Qed.

(* the four-digit-year guard cannot be dropped *)
Theorem c07_five_digit_year_breaks_form : exists c id, layout_ok c /\ Y2000 <= epoch c /\ 0 <= id < 2 ^ 63 /\
  length (cn_style c id) = 25%nat /\ from_ch c (cn_style c id) = ErrLen.
Proof. exact five_digit_year_breaks_form. Qed.

(* ---- time ranges ---- *)

(* TimeBetweenID b e: an id lies in the interval exactly when its timestamp lies between the second-truncated
   endpoints; for every pair of instants whose offset from the epoch fits the timestamp width, every integer id *)
Theorem c07_between_iff : forall c, 0 <= node_bits c -> node_bits c + 12 <= 63 -> forall b e id,
  fits c (unix_s b * 1000 - epoch c) = true -> fits c (unix_s e * 1000 - epoch c) = true ->
  let '(mn, mx) := time_between_id c b e in
  (mn <= id <= mx <-> unix_s b * 1000 <= id / 2 ^ time_shift c + epoch c <= unix_s e * 1000).
Proof. exact between_iff. Qed.

(* ... contains every id whose timestamp (as IDParse reports it) lies between the second-truncated endpoints *)
Theorem c07_between_complete : forall c b e id, layout_ok c ->
  fits c (unix_s b * 1000 - epoch c) = true -> fits c (unix_s e * 1000 - epoch c) = true ->
  unix_s b * 1000 <= fst (fst (id_parse c id)) <= unix_s e * 1000 ->
  fst (time_between_id c b e) <= id <= snd (time_between_id c b e).
Proof. exact between_complete. Qed.

(* ... and no id whose timestamp lies before the first endpoint's second or after the last endpoint's
   (proved in the sharper form: already one millisecond after the truncated end is outside) *)
Theorem c07_between_sound : forall c b e id, layout_ok c ->
  fits c (unix_s b * 1000 - epoch c) = true -> fits c (unix_s e * 1000 - epoch c) = true ->
  fst (fst (id_parse c id)) < unix_s b * 1000 \/ unix_s e * 1000 < fst (fst (id_parse c id)) ->
  ~ (fst (time_between_id c b e) <= id <= snd (time_between_id c b e)).
Proof. exact between_sound. Qed.

(* TimeIDRange t is TimeBetweenID t t: exactly the ids stamped with the first millisecond of t's second *)
Theorem c07_range_is_between : forall c t, time_id_range c t = time_between_id c t t.
Proof. exact range_is_between. Qed.
Theorem c07_range_iff : forall c t id, layout_ok c -> fits c (unix_s t * 1000 - epoch c) = true ->
  (fst (time_id_range c t) <= id <= snd (time_id_range c t) <-> fst (fst (id_parse c id)) = unix_s t * 1000).
Proof. exact range_iff. Qed.

(* the exact interval *)
Theorem c07_between_exact : forall c, 0 <= node_bits c -> node_bits c + 12 <= 63 -> forall b e,
  fits c (unix_s b * 1000 - epoch c) = true -> fits c (unix_s e * 1000 - epoch c) = true ->
  time_between_id c b e =
  ((unix_s b * 1000 - epoch c) * 2 ^ time_shift c, (unix_s e * 1000 - epoch c) * 2 ^ time_shift c + 2 ^ time_shift c - 1).
Proof. exact between_exact. Qed.

(* the monitor's four boundary ids decide the clause, as the property words it, for every non-negative id: inside
   when stamped bs..es, outside when stamped before bs or from es + 1000 on (after the last endpoint's second) *)
Theorem c07_range_monitor_adequate : forall c, 0 <= node_bits c -> node_bits c + 12 <= 63 -> forall bs es mn mx,
  fits_u c (bs - epoch c) = true -> epoch c <= es -> holds_bounds c bs es mn mx = true ->
  forall id, 0 <= id < 2 ^ 63 ->
    (bs <= id / 2 ^ time_shift c + epoch c <= es -> mn <= id <= mx) /\
    (id / 2 ^ time_shift c + epoch c < bs \/ es + 1000 <= id / 2 ^ time_shift c + epoch c -> ~ (mn <= id <= mx)).
Proof. exact range_monitor_adequate. Qed.

(* beyond the timestamp width the shift overflows (the guard `fits` cannot be dropped) *)
Theorem c07_range_overflow_beyond_width : exists c t, layout_ok c /\ Y2000 <= epoch c /\
  fits c (unix_s t * 1000 - epoch c) = false /\ snd (time_id_range c t) < 0.
Proof. exact range_overflow_beyond_width. Qed.

(* ---- the public configuration API ---- *)

(* Setup(UseEpoch.., UseNodeMode.., NodeAtLowest..) from the package defaults leaves node bits 8, 9 or 10, whatever the
   options (also UseNodeMode of a value that is no mode): every theorem stated for layout_ok applies to it *)
Theorem c07_setup_layout : forall opts, layout_ok (setup opts).
Proof. exact setup_layout. Qed.
(* Setup is cumulative (it starts from the current globals): the same from any configured state *)
Theorem c07_setup_from_layout : forall opts cur, layout_ok cur -> layout_ok (setup_from cur opts).
Proof. exact setup_from_layout. Qed.
(* with epochs from 2000 on the result is a configuration of the property's quantifier *)
Theorem c07_setup_from_valid : forall opts cur, valid_cfg cur = true -> Forall opt_ok opts ->
  valid_cfg (setup_from cur opts) = true.
Proof. exact setup_from_valid. Qed.
(* two Setup calls are one call with the concatenated options; NodeAtLowest cannot be switched off again *)
Theorem c07_setup_from_app : forall cur o1 o2, setup_from cur (o1 ++ o2) = setup_from (setup_from cur o1) o2.
Proof. exact setup_from_app. Qed.
Theorem c07_setup_lowest_sticky : forall opts cur, node_low cur = true -> node_low (setup_from cur opts) = true.
Proof. exact setup_lowest_sticky. Qed.

(* non-vacuity of the hypotheses *)
Theorem c07_domain_inhabited : exists c id b e,
  layout_ok c /\ valid_cfg c = true /\ in_dom id = true /\ Z.shiftr id (time_shift c) + epoch c + OFF < Y10K /\
  b <= e /\ fits c (unix_s b * 1000 - epoch c) = true /\ fits c (unix_s e * 1000 - epoch c) = true /\
  unix_s b * 1000 <= fst (fst (id_parse c id)) <= unix_s e * 1000.
Proof. exact domain_inhabited. Qed.

Print Assumptions c07_accept_sound.
Print Assumptions c07_split_recombine.
Print Assumptions c07_fields_recombine.
Print Assumptions c07_compose_fields.
Print Assumptions c07_id_order_iso.
Print Assumptions c07_order_by_fields.
Print Assumptions c07_date_form_roundtrip.
Print Assumptions c07_cn_roundtrip.
Print Assumptions c07_civil_roundtrip.
Print Assumptions c07_cn_roundtrip_unixnano_refuted.
Print Assumptions c07_five_digit_year_breaks_form.
Print Assumptions c07_between_iff.
Print Assumptions c07_between_complete.
Print Assumptions c07_between_sound.
Print Assumptions c07_range_is_between.
Print Assumptions c07_range_iff.
Print Assumptions c07_between_exact.
Print Assumptions c07_range_monitor_adequate.
Print Assumptions c07_range_overflow_beyond_width.
Print Assumptions c07_domain_inhabited.
Print Assumptions c07_setup_layout.
Print Assumptions c07_setup_from_layout.
Print Assumptions c07_setup_from_valid.
Print Assumptions c07_setup_from_app.
Print Assumptions c07_setup_lowest_sticky.
