(* C09: the observed cases, "the implementation behaved exactly as the model" (matches) and the property's
   observable clauses (holds).  holds speaks about membership, order and lengths of what was observed; it does
   not call marshal / unmarshal / iter1024 / big_* / tip_*. *)
From Coq Require Import ZArith List Bool Lia.
Require Import Cases_Common LE Marshal.
Require Export C09_Model.
Import ListNotations.
Open Scope Z_scope.

(* integer lists in the case files are written (zc 1 (zc (-2) zn)): both arguments are parsed in Z scope, and
   explicit constructors are read an order of magnitude faster than the list notation *)
Definition zn : list Z := nil.
Definition zc (x : Z) (l : list Z) : list Z := x :: l.
Arguments zc x%Z l.
Definition bn : list (Z * list Z) := nil.
Definition bc (st : Z) (ms : list Z) (l : list (Z * list Z)) : list (Z * list Z) := (st, ms) :: l.
Arguments bc st%Z ms l.
Definition pn : list (list Z * list Z) := nil.
Definition pc (f r : list Z) (l : list (list Z * list Z)) : list (list Z * list Z) := (f, r) :: l.

(* ------------------------------------------------------------------ observations *)
(* a block built from an integer, then further integers offered to it, then both iterations with count n *)
Inductive bobs := BErr | BOk (st : Z) (acc : list bool) (fwd rev : iobs).

(* a block (Start, positions) reversed: the result (Start, words) and the receiver re-read; Equal(receiver, result) and
   Equal(receiver, receiver rebuilt); result.B1024.GetNAsI16(n) and RGetNAsI16(n); x offered to the RESULT, then the receiver re-read; y offered to
   the RECEIVER, then the result re-read; us offered to the result; the result's forward / reverse iteration with count n *)
Inductive robs :=
| RPanic
| ROk (rst : Z) (rbits recv1 : bitmap) (eq_rr eq_self : bool) (ri16 rri16 : iobs)
      (accx : bool) (recv2 : bitmap) (accy : bool) (rbits3 : bitmap) (acc : list bool) (fwd rev : iobs).

(* a long iteration result in compact form: how many, the first three, the last three, the sum, the position-weighted sum *)
Inductive sobs := SPanic | SSum (cnt : Z) (first3 last3 : list Z) (sum wsum : Z).

Inductive case :=
  (* b.Marshal() = bytes; NewBit1024().Unmarshal(bytes) = r *)
| CMarshal (b : bitmap) (bytes : list Z) (r : ures)
  (* arbitrary bytes: via 0 = NewBit1024().Unmarshal (st = 0), 1 = NewBigU32FromData(st, bytes), 2 = NewU32BitTipFromData(st, bytes) *)
| CUnm (via st : Z) (bytes : list Z) (r : dres)
  (* NewBigU32FromI64(v); SetI64(u) for u in us; Start; GetNAsI64(n); RGetNAsI64(n) *)
| CBig (v : Z) (us : list Z) (n : Z) (o : bobs)
  (* NewU32BitTipFromU32(v); SetU32(u) for u in us; Start; GetNAsU32(n); RGetNAsU32(n) *)
| CTip (v : Z) (us : list Z) (n : Z) (o : bobs)
  (* BigU32s of blocks (Start, positions): per block GetNAsI64(1024) / RGetNAsI64(1024); the list's GetNAsI64(n) / RGetNAsI64(n) *)
| CBigs (bl : list (Z * list Z)) (n : Z) (per : list (list Z * list Z)) (fwd rev : iobs)
  (* U32BitTips likewise *)
| CTips (bl : list (Z * list Z)) (n : Z) (per : list (list Z * list Z)) (fwd rev : iobs)
  (* BigU32.Reverse (tip = false) / U32BitTip.Reverse (tip = true) of the block (st, positions ms) *)
| CRev (tip : bool) (st : Z) (ms : list Z) (x y : Z) (us : list Z) (n : Z) (o : robs)
  (* BigU32s.Reverse / U32BitTips.Reverse: the result list (Start, words) and, after every element of the result was
     modified (a position set, Start changed), the receivers re-read *)
| CRevs (tip : bool) (bl : list (Z * list Z)) (res recv : list (Z * list Z))
  (* dense lists: blocks given as (Start, the few positions that are MISSING) - full and nearly full blocks - in a BigU32s
     (tip = false) or U32BitTips (tip = true); GetN(n) / RGetN(n) of the list, each in compact form *)
| CDense (tip : bool) (bl : list (Z * list Z)) (n : Z) (fw rv : sobs).

(* ------------------------------------------------------------------ decidable equalities *)
Definition iobs_eqb (a b : iobs) : bool :=
  match a, b with IPanic, IPanic => true | IList x, IList y => zlist_eqb x y | _, _ => false end.
Definition ures_eqb (a b : ures) : bool :=
  match a, b with UPanic, UPanic => true | UErr, UErr => true | UOk x, UOk y => zlist_eqb x y | _, _ => false end.
Definition block_eqb (a b : block) : bool := (start a =? start b) && zlist_eqb (bits a) (bits b).
Definition dres_eqb (a b : dres) : bool :=
  match a, b with DPanic, DPanic => true | DErr, DErr => true | DOk x, DOk y => block_eqb x y | _, _ => false end.
Definition bobs_eqb (a b : bobs) : bool :=
  match a, b with
  | BErr, BErr => true
  | BOk s a f r, BOk s' a' f' r' => (s =? s') && list_eqb Bool.eqb a a' && iobs_eqb f f' && iobs_eqb r r'
  | _, _ => false
  end.
Definition robs_eqb (a b : robs) : bool :=
  match a, b with
  | RPanic, RPanic => true
  | ROk s rb r1 e1 e2 i ri ax r2 ay rb3 ac f r, ROk s' rb' r1' e1' e2' i' ri' ax' r2' ay' rb3' ac' f' r' =>
    (s =? s') && zlist_eqb rb rb' && zlist_eqb r1 r1' && Bool.eqb e1 e1' && Bool.eqb e2 e2' && iobs_eqb i i' && iobs_eqb ri ri'
    && Bool.eqb ax ax' && zlist_eqb r2 r2' && Bool.eqb ay ay' && zlist_eqb rb3 rb3' && list_eqb Bool.eqb ac ac'
    && iobs_eqb f f' && iobs_eqb r r'
  | _, _ => false
  end.
Definition sobs_eqb (a b : sobs) : bool :=
  match a, b with
  | SPanic, SPanic => true
  | SSum c f l s w, SSum c' f' l' s' w' => (c =? c') && zlist_eqb f f' && zlist_eqb l l' && (s =? s') && (w =? w')
  | _, _ => false
  end.
Definition zpair_eqb (a b : Z * list Z) : bool := (fst a =? fst b) && zlist_eqb (snd a) (snd b).
Definition pair_eqb (a b : list Z * list Z) : bool := zlist_eqb (fst a) (fst b) && zlist_eqb (snd a) (snd b).

Lemma iobs_eqb_eq a b : iobs_eqb a b = true -> a = b.
Proof. destruct a, b; cbn; try discriminate; auto. intros H. f_equal. now apply zlist_eqb_eq. Qed.
Lemma ures_eqb_eq a b : ures_eqb a b = true -> a = b.
Proof. destruct a, b; cbn; try discriminate; auto. intros H. f_equal. now apply zlist_eqb_eq. Qed.
Lemma block_eqb_eq a b : block_eqb a b = true -> a = b.
Proof.
  destruct a as [s x], b as [s' y]. unfold block_eqb. cbn [start bits]. intros H.
  apply andb_prop in H as [H1 H2]. apply Z.eqb_eq in H1. apply zlist_eqb_eq in H2. now subst.
Qed.
Lemma dres_eqb_eq a b : dres_eqb a b = true -> a = b.
Proof. destruct a, b; cbn; try discriminate; auto. intros H. f_equal. now apply block_eqb_eq. Qed.
Lemma bool_eqb_eq (a b : bool) : Bool.eqb a b = true -> a = b.
Proof. apply Bool.eqb_prop. Qed.
Lemma bobs_eqb_eq a b : bobs_eqb a b = true -> a = b.
Proof.
  destruct a as [|s a f r], b as [|s' a' f' r']; cbn; try discriminate; auto. intros H.
  apply andb_prop in H as [H H4]. apply andb_prop in H as [H H3]. apply andb_prop in H as [H1 H2].
  apply Z.eqb_eq in H1. apply (list_eqb_eq Bool.eqb bool_eqb_eq) in H2.
  apply iobs_eqb_eq in H3. apply iobs_eqb_eq in H4. now subst.
Qed.
Lemma robs_eqb_eq a b : robs_eqb a b = true -> a = b.
Proof.
  destruct a, b; cbn [robs_eqb]; try discriminate; auto. intros H.
  repeat match goal with H : _ && _ = true |- _ => apply andb_prop in H; destruct H as [H ?] end.
  repeat match goal with
  | H : (_ =? _) = true |- _ => apply Z.eqb_eq in H
  | H : zlist_eqb _ _ = true |- _ => apply zlist_eqb_eq in H
  | H : Bool.eqb _ _ = true |- _ => apply bool_eqb_eq in H
  | H : iobs_eqb _ _ = true |- _ => apply iobs_eqb_eq in H
  | H : list_eqb Bool.eqb _ _ = true |- _ => apply (list_eqb_eq Bool.eqb bool_eqb_eq) in H
  end. subst. reflexivity.
Qed.
Lemma sobs_eqb_eq a b : sobs_eqb a b = true -> a = b.
Proof.
  destruct a, b; cbn [sobs_eqb]; try discriminate; auto. intros H.
  repeat match goal with H : _ && _ = true |- _ => apply andb_prop in H; destruct H as [H ?] end.
  repeat match goal with
  | H : (_ =? _) = true |- _ => apply Z.eqb_eq in H
  | H : zlist_eqb _ _ = true |- _ => apply zlist_eqb_eq in H
  end. subst. reflexivity.
Qed.
Lemma sobs_eqb_refl a : sobs_eqb a a = true.
Proof.
  destruct a as [|c f l s w]; cbn [sobs_eqb]; [reflexivity|]. rewrite !Z.eqb_refl.
  assert (H : forall x, zlist_eqb x x = true) by (intros x; apply list_eqb_refl, Z.eqb_refl). now rewrite !H.
Qed.
Lemma zpair_eqb_eq a b : zpair_eqb a b = true -> a = b.
Proof.
  destruct a as [x y], b as [x' y']. unfold zpair_eqb. cbn [fst snd]. intros H.
  apply andb_prop in H as [H1 H2]. apply Z.eqb_eq in H1. apply zlist_eqb_eq in H2. now subst.
Qed.
Lemma pair_eqb_eq a b : pair_eqb a b = true -> a = b.
Proof.
  destruct a as [x y], b as [x' y']. unfold pair_eqb. cbn [fst snd]. intros H.
  apply andb_prop in H as [H1 H2]. apply zlist_eqb_eq in H1. apply zlist_eqb_eq in H2. now subst.
Qed.

(* ------------------------------------------------------------------ well-formed inputs *)
Definition wfb (b : bitmap) : bool := (zlen b =? 16) && forallb (fun w => (0 <=? w) && (w <? 2 ^ 64)) b.
Definition bytes_okb (bs : list Z) : bool := forallb (fun x => (0 <=? x) && (x <? 256)) bs.
Definition in_u32 (x : Z) : bool := (0 <=? x) && (x <? 2 ^ 32).
Definition pos_ok (m : Z) : bool := (0 <=? m) && (m <=? 1023).
Definition blk_ok (b : Z * list Z) : bool := in_u32 (fst b) && forallb pos_ok (snd b).
Definition tipblk_ok (b : Z * list Z) : bool := (0 <=? fst b) && (fst b <=? MAXTIP) && forallb pos_ok (snd b).

(* ------------------------------------------------------------------ matches: observation = model *)
Definition model_block_run (mk : option block) (st : block -> Z -> option block)
           (gn : bool -> block -> Z -> iobs) (us : list Z) (n : Z) : bobs :=
  match mk with
  | None => BErr
  | Some b => let '(acc, bf) := sets st b us in BOk (start b) acc (gn false bf n) (gn true bf n)
  end.

(* the compact form of a list *)
Definition wsum_of (l : list Z) : Z := snd (fold_left (fun ia x => (fst ia + 1, snd ia + fst ia * x)) l (1, 0)).
Fixpoint last3 (l : list Z) : list Z :=
  match l with
  | _ :: ((_ :: _ :: _ :: _) as r) => last3 r
  | _ => l
  end.
Definition summ (l : list Z) : sobs :=
  SSum (zlen l) (firstn 3 l) (last3 l) (fold_left Z.add l 0) (wsum_of l).
(* List.rev in linear time *)
Definition frev (l : list Z) : list Z := rev_append l [].
Lemma frev_rev l : frev l = rev l.
Proof. unfold frev. symmetry. apply rev_alt. Qed.
Definition summ_of (o : iobs) : sobs := match o with IPanic => SPanic | IList l => summ l end.
(* the block with every position except the listed ones: the Reverse of the block holding the listed ones *)
Definition dense_block (x : Z * list Z) : block := block_reverse (mk_block (fst x) (snd x)).

(* the run behind CRev in the model, for one block type (its Set method and its GetN) *)
Definition reverse_run (setf : block -> Z -> option block) (gn : bool -> block -> Z -> iobs)
           (st : Z) (ms : list Z) (x y : Z) (us : list Z) (n : Z) : robs :=
  let b0 := mk_block st ms in
  let r0 := block_reverse b0 in
  let '(ax, r1) := sets setf r0 [x] in
  let '(ay, b1) := sets setf b0 [y] in
  let '(acc, rf) := sets setf r1 us in
  ROk (start r0) (bits r0) (bits b0) (bequal (bits b0) (bits r0)) (bequal (bits b0) (bits (mk_block st ms)))
      (getn false idz (bits r0) 0 n) (getn true idz (bits r0) 0 n)
      (hd false ax) (bits b0) (hd false ay) (bits r1) acc (gn false rf n) (gn true rf n).
Definition model_reverse_run (tip : bool) (st : Z) (ms : list Z) (x y : Z) (us : list Z) (n : Z) : robs :=
  if tip then reverse_run tip_set tip_getn st ms x y us n else reverse_run big_set big_getn st ms x y us n.

Definition case_matches (c : case) : bool :=
  match c with
  | CMarshal b bytes r =>
      wfb b && zlist_eqb bytes (marshal b) && ures_eqb r (unmarshal zero bytes)
  | CUnm via st bytes r =>
      (0 <=? via) && (via <=? 2) && bytes_okb bytes &&
      dres_eqb r (if via =? 0 then from_unm st (unmarshal zero bytes)
                  else if via =? 1 then big_from_data st bytes else tip_from_data st bytes)
  | CBig v us n o =>
      bobs_eqb o (model_block_run (big_new v) big_set big_getn us n)
  | CTip v us n o =>
      in_u32 v && forallb in_u32 us &&
      bobs_eqb o (model_block_run (Some (tip_new v)) tip_set tip_getn us n)
  | CBigs bl n per fwd rev =>
      let blocks := map (fun x => mk_block (fst x) (snd x)) bl in
      forallb blk_ok bl &&
      list_eqb pair_eqb per (map (fun b => (big_iter false b 1024, big_iter true b 1024)) blocks) &&
      iobs_eqb fwd (bigs_getn false blocks n) && iobs_eqb rev (bigs_getn true blocks n)
  | CTips bl n per fwd rev =>
      let blocks := map (fun x => mk_block (fst x) (snd x)) bl in
      forallb tipblk_ok bl &&
      list_eqb pair_eqb per (map (fun b => (tip_iter false b 1024, tip_iter true b 1024)) blocks) &&
      iobs_eqb fwd (tips_getn false blocks n) && iobs_eqb rev (tips_getn true blocks n)
  | CRev tip st ms x y us n o =>
      (if tip then (0 <=? st) && (st <=? MAXTIP) else in_u32 st) && forallb pos_ok ms &&
      robs_eqb o (model_reverse_run tip st ms x y us n)
  | CRevs tip bl res recv =>
      let blocks := map (fun x => mk_block (fst x) (snd x)) bl in
      forallb blk_ok bl &&
      list_eqb zpair_eqb res (map (fun b => (start b, bits b)) (blocks_reverse blocks)) &&
      list_eqb zpair_eqb recv (map (fun b => (start b, bits b)) blocks)
  | CDense tip bl n fw rv =>
      let blocks := map dense_block bl in
      if tip then forallb tipblk_ok bl && sobs_eqb fw (summ_of (tips_getn false blocks n)) && sobs_eqb rv (summ_of (tips_getn true blocks n))
      else forallb blk_ok bl && sobs_eqb fw (summ_of (bigs_getn false blocks n)) && sobs_eqb rv (summ_of (bigs_getn true blocks n))
  end.

(* ------------------------------------------------------------------ holds: the property's clauses *)
Definition card (b : bitmap) : Z := zlen (filter (member b) z1024).

(* the set a byte string denotes (None: it denotes nothing and must be refused):
   0 bytes: the empty set; 128 bytes: bit j mod 8 of byte j / 8; an even number below 128: the little-endian
   16-bit values of the consecutive pairs, all of which must be at most 1023 *)
Fixpoint pair_vals (bs : list Z) : list Z :=
  match bs with b0 :: b1 :: r => (b0 + 256 * b1) :: pair_vals r | _ => [] end.
Definition denoted (bs : list Z) : option (Z -> bool) :=
  let n := zlen bs in
  if n =? 0 then Some (fun _ => false)
  else if n =? 128 then Some (fun j => Z.testbit (nth (Z.to_nat (j / 8)) bs 0) (j mod 8))
  else if (n <? 128) && (n mod 2 =? 0) && forallb (fun u => u <=? 1023) (pair_vals bs) then Some (fun j => memz j (pair_vals bs))
  else None.

(* l is the first n elements of the set S taken in the strict order R *)
Fixpoint sortedb (R : Z -> Z -> bool) (l : list Z) : bool :=
  match l with [] => true | x :: r => forallb (R x) r && sortedb R r end.
Definition first_n_of (R : Z -> Z -> bool) (ss : list Z) (n : Z) (l : list Z) : bool :=
  sortedb R l && forallb (fun x => memz x ss) l && (zlen l <=? n) &&
  forallb (fun s => memz s l || ((zlen l =? n) && forallb (fun x => R x s) l)) ss.

Definition same_block_i64 (v u : Z) : bool := (0 <=? u) && (u <? MAXI64) && (u / 1024 =? v / 1024).
Definition same_block_u32 (v u : Z) : bool := u / 1024 =? v / 1024.

Definition block_holds (same : Z -> Z -> bool) (v : Z) (us : list Z) (n : Z) (o : bobs) : bool :=
  match o with
  | BErr => false
  | BOk st acc fwd rev =>
    (st =? v / 1024)
    && list_eqb Bool.eqb acc (map (same v) us)                          (* accepted exactly when in the block *)
    && ((n <? 0) ||
        match fwd, rev with
        | IList f, IList r =>
          let ss := v :: filter (same v) us in
          first_n_of Z.ltb ss n f && first_n_of Z.gtb ss n r             (* ascending / descending, exactly these integers *)
        | _, _ => false
        end)
  end.

(* the positions 0..1023 that are not in ms: what the reversed block must contain *)
Definition complement (ms : list Z) : list Z := filter (fun j => negb (memz j ms)) z1024.
Definition members_are (b : bitmap) (p : Z -> bool) : bool := forallb (fun j => Bool.eqb (member b j) (p j)) z1024.

Definition rev_holds (same : Z -> Z -> bool) (st : Z) (ms : list Z) (x y : Z) (us : list Z) (n : Z) (o : robs) : bool :=
  match o with
  | RPanic => false
  | ROk rst rbits recv1 eq_rr eq_self ri16 rri16 accx recv2 accy rbits3 acc fwd rev =>
    (rst =? st)                                                             (* the same block *)
    && members_are rbits (fun j => negb (memz j ms))                        (* the complement within the block *)
    && members_are recv1 (fun j => memz j ms)                               (* the receiver is unchanged *)
    && negb eq_rr && eq_self                                                (* Equal tells them apart *)
    && members_are recv2 (fun j => memz j ms)                               (* ... also after the result was modified *)
    && Bool.eqb accx (same st x) && Bool.eqb accy (same st y)               (* both accept exactly their block's integers *)
    && members_are rbits3 (fun j => negb (memz j ms) || (accx && (j =? x mod 1024)))   (* the result does not follow the receiver *)
    && list_eqb Bool.eqb acc (map (same st) us)
    && ((n <? 0) ||
        match ri16, rri16, fwd, rev with
        | IList i, IList ri, IList f, IList r =>
          let ss := map (fun j => j + 1024 * st) (complement ms) ++ filter (same st) (x :: us) in
          first_n_of Z.ltb (complement ms) n i && first_n_of Z.gtb (complement ms) n ri
          && first_n_of Z.ltb ss n f && first_n_of Z.gtb ss n r
        | _, _, _, _ => false
        end)
  end.
Definition same_start_i64 (st u : Z) : bool := (0 <=? u) && (u <? MAXI64) && (u / 1024 =? st).
Definition same_start_u32 (st u : Z) : bool := u / 1024 =? st.

Fixpoint revs_holds (bl res recv : list (Z * list Z)) : bool :=
  match bl, res, recv with
  | [], [], [] => true
  | (st, ms) :: bl', (rst, rbits) :: res', (cst, cbits) :: recv' =>
    (rst =? st) && members_are rbits (fun j => negb (memz j ms))
    && (cst =? st) && members_are cbits (fun j => memz j ms)
    && revs_holds bl' res' recv'
  | _, _, _ => false
  end.

(* the integers of a dense block, ascending: every position of the block except the missing ones *)
Definition dense_vals (x : Z * list Z) : list Z := map (fun j => j + 1024 * fst x) (complement (snd x)).

Definition case_holds (c : case) : bool :=
  match c with
  | CMarshal b bytes r =>
      match r with UOk b' => zlist_eqb b' b | _ => false end
      && (zlen bytes =? (if card b <? 64 then 2 * card b else 128))
  | CUnm via st bytes r =>
      if (via =? 2) && (MAXTIP <? st) then match r with DPanic => false | _ => true end
      else match denoted bytes, r with
           | None, DErr => true
           | Some dn, DOk blk => (start blk =? st) && forallb (fun j => Bool.eqb (member (bits blk) j) (dn j)) z1024
           | _, _ => false
           end
  | CBig v us n o =>
      if (v <? 0) || (v >=? MAXI64) then match o with BErr => true | _ => false end
      else block_holds same_block_i64 v us n o
  | CTip v us n o => block_holds same_block_u32 v us n o
  | CBigs bl n per fw rv =>
      (n <? 0) ||
      (iobs_eqb fw (IList (take n (concat (map fst per))))
       && (iobs_eqb rv (IList (take n (concat (map snd per)))) || iobs_eqb rv (IList (take n (concat (rev (map snd per)))))))
  | CTips bl n per fw rv =>
      (n <? 0) ||
      (iobs_eqb fw (IList (take n (concat (map fst per))))
       && (iobs_eqb rv (IList (take n (concat (map snd per)))) || iobs_eqb rv (IList (take n (concat (rev (map snd per)))))))
  | CRev tip st ms x y us n o => rev_holds (if tip then same_start_u32 else same_start_i64) st ms x y us n o
  | CRevs tip bl res recv => revs_holds bl res recv
  | CDense tip bl n fw rv =>
      (n <? 0) ||
      (sobs_eqb fw (summ (take n (concat (map dense_vals bl))))
       && (sobs_eqb rv (summ (take n (concat (map (fun x => frev (dense_vals x)) bl))))
           || sobs_eqb rv (summ (take n (concat (map (fun x => frev (dense_vals x)) (rev bl)))))))
  end.
