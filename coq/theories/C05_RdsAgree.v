(* C05: on every restricted history the redis-backed model and the in-memory model report the same results.
   Invariant, per key: the memory list holds an entry for k  <->  the ledger holds its deadline  <->  the redis store
   holds the same value with expiry = deadline * 1000 ms.  Both back-ends delete a key whose deadline has passed when they
   next touch it; they differ only when the clock reads exactly the deadline (memory: still live; redis: gone), which a
   restricted history never does for the key it touches. *)
From Coq Require Import ZArith List Lia Bool.
Require Import TTL TTLView C05_Hist C05_Mon C05_Rds.
Import ListNotations.
Open Scope Z_scope.

(* ---------- the redis store ---------- *)
Lemma rfind_rdel_same k r : rfind k (rdel k r) = None.
Proof. unfold rfind, rdel. induction r as [|e r IH]; [reflexivity|]. cbn [filter]. destruct (rk e =? k) eqn:E; cbn [negb find]; [exact IH|now rewrite E]. Qed.

Lemma rfind_rdel_other k k' r : k' <> k -> rfind k' (rdel k r) = rfind k' r.
Proof.
  intros Hne. unfold rfind, rdel. induction r as [|e r IH]; [reflexivity|]. cbn [filter find].
  destruct (rk e =? k) eqn:E; cbn [negb find].
  - apply Z.eqb_eq in E. replace (rk e =? k') with false by (symmetry; apply Z.eqb_neq; lia). exact IH.
  - destruct (rk e =? k'); [reflexivity|exact IH].
Qed.

Lemma rfind_rins e r k : rfind (rk e) r = None -> rfind k (rins e r) = if rk e =? k then Some e else rfind k r.
Proof.
  unfold rfind. induction r as [|x r IH]; [reflexivity|]. cbn [rins find]. intros H.
  destruct (rk x =? rk e) eqn:Ex; [discriminate|]. specialize (IH H).
  destruct (rk e <? rk x); cbn [find]; [reflexivity|]. rewrite IH.
  destruct (rk x =? k) eqn:E1; destruct (rk e =? k) eqn:E2; try reflexivity.
  apply Z.eqb_eq in E1, E2. apply Z.eqb_neq in Ex. lia.
Qed.

Lemma rfind_rput_same e r : rfind (rk e) (rput e r) = Some e.
Proof. unfold rput. rewrite rfind_rins by apply rfind_rdel_same. now rewrite Z.eqb_refl. Qed.

Lemma rfind_rput_other e r k : k <> rk e -> rfind k (rput e r) = rfind k r.
Proof.
  intros Hne. unfold rput. rewrite rfind_rins by apply rfind_rdel_same.
  replace (rk e =? k) with false by (symmetry; apply Z.eqb_neq; lia). now apply rfind_rdel_other.
Qed.

Lemma rfind_rpurge_other now k k' r : k' <> k -> rfind k' (rpurge now k r) = rfind k' r.
Proof. intros Hne. unfold rpurge. destruct (rfind k r) as [e|]; [|reflexivity]. destruct (ralive now e); [reflexivity|now apply rfind_rdel_other]. Qed.

Lemma rfind_key k r e : rfind k r = Some e -> rk e = k.
Proof. unfold rfind. intros H. apply find_some in H as [_ H]. now apply Z.eqb_eq. Qed.

(* ---------- the ledger ---------- *)
Lemma lfind_lerase_same k led : lfind k (lerase k led) = None.
Proof. unfold lfind, lerase. induction led as [|p r IH]; [reflexivity|]. cbn [filter]. destruct (fst p =? k) eqn:E; cbn [negb find]; [exact IH|now rewrite E]. Qed.

Lemma lfind_lerase_other k k' led : k' <> k -> lfind k' (lerase k led) = lfind k' led.
Proof.
  intros Hne. unfold lfind, lerase. induction led as [|p r IH]; [reflexivity|]. cbn [filter find].
  destruct (fst p =? k) eqn:E; cbn [negb find].
  - apply Z.eqb_eq in E. replace (fst p =? k') with false by (symmetry; apply Z.eqb_neq; lia). exact IH.
  - destruct (fst p =? k'); [reflexivity|exact IH].
Qed.

Lemma lfind_cons_same k d led : lfind k ((k, d) :: led) = Some (k, d).
Proof. unfold lfind. cbn [find fst]. now rewrite Z.eqb_refl. Qed.

Lemma lfind_cons_other k k' d led : k' <> k -> lfind k' ((k, d) :: led) = lfind k' led.
Proof. intros Hne. unfold lfind. cbn [find fst]. replace (k =? k') with false by (symmetry; apply Z.eqb_neq; lia). reflexivity. Qed.

(* ---------- durations ---------- *)
Lemma ttl_ok_spec now t : ttl_ok now t = true -> 0 < t <= TMAX /\ fitsb t now = true.
Proof.
  unfold ttl_ok. intros H. apply andb_prop in H as [H H3]. apply andb_prop in H as [H1 H2].
  apply Z.ltb_lt in H1. apply Z.leb_le in H2. now repeat split.
Qed.

Lemma dur_pos t : 0 < t <= TMAX -> dur_of t = t * SEC.
Proof. intros H. unfold dur_of. apply wrap64_id. unfold TMAX, SEC, MAXI in *. lia. Qed.

Lemma sec_facts t : 0 < t -> let d := t * SEC in
  (d =? 0) = false /\ (d =? -1) = false /\ (0 <? d) = true /\ expiry_of d = XEx t /\ format_sec d = t.
Proof.
  intros H d. assert (Hd : SEC <= d) by (unfold d, SEC; lia). unfold SEC in Hd.
  split; [apply Z.eqb_neq; lia|]. split; [apply Z.eqb_neq; lia|]. split; [apply Z.ltb_lt; lia|].
  assert (Hq : Z.quot d SEC = t) by (unfold d; apply Z.quot_mul; unfold SEC; lia).
  assert (Hr : Z.rem d SEC = 0) by (unfold d; apply Z.rem_mul; unfold SEC; lia).
  assert (Hf : format_sec d = t).
  { unfold format_sec. replace (d <? SEC) with false by (symmetry; apply Z.ltb_ge; unfold SEC; lia). rewrite andb_false_r. exact Hq. }
  split; [|exact Hf]. unfold expiry_of, use_precise. rewrite Hr. cbn [Z.eqb negb].
  replace (d <? SEC) with false by (symmetry; apply Z.ltb_ge; unfold SEC; lia). cbn [orb]. now rewrite Hf.
Qed.

(* ---------- the invariant ---------- *)
Definition rel1 (c : cache) (r : list rent) (led : list (Z * Z)) (k : Z) : Prop :=
  match find_k k (l c) with
  | Some n => lfind k led = Some (k, dl n) /\ exists e, rfind k r = Some e /\ rv e = val n /\ rx e = Some (dl n * 1000)
  | None => lfind k led = None /\ rfind k r = None
  end.

Definition Inv (U : list Z) (c : cache) (r : list rent) (led : list (Z * Z)) : Prop :=
  wf c /\ incl (keys (l c)) U /\ forall k, rel1 c r led k.

Lemma inv_frame U c r led c' r' led' k :
  Inv U c r led -> wf c' -> incl (keys (l c')) U ->
  (forall k', k' <> k -> find_k k' (l c') = find_k k' (l c)) ->
  (forall k', k' <> k -> lfind k' led' = lfind k' led) ->
  (forall k', k' <> k -> rfind k' r' = rfind k' r) ->
  rel1 c' r' led' k -> Inv U c' r' led'.
Proof.
  intros (Hwf & Hin & Hrel) Hwf' Hin' Hf Hl Hr Hk. split; [exact Hwf'|]. split; [exact Hin'|].
  intros k'. destruct (Z.eq_dec k' k) as [->|Hne]; [exact Hk|].
  unfold rel1. rewrite (Hf k' Hne), (Hl k' Hne), (Hr k' Hne). apply Hrel.
Qed.

Lemma trim_id sz l1 : Z.of_nat (length l1) <= sz -> trim sz l1 = l1.
Proof. intros H. unfold trim. replace (sz <? Z.of_nat (length l1)) with false by (symmetry; apply Z.ltb_ge; lia). reflexivity. Qed.

(* below the size bound the new head never pushes anything out *)
Lemma no_evict U c k x : NoDup U -> Z.of_nat (length U) <= size c -> wf c -> incl (keys (l c)) U -> In k U -> key x = k ->
  trim (size c) (x :: erase k (l c)) = x :: erase k (l c) /\ incl (keys (x :: erase k (l c))) U.
Proof.
  intros HU Hsz [Hnd _] Hin Hk Hkx.
  assert (Hi : incl (keys (x :: erase k (l c))) U).
  { intros y Hy. cbn [keys map] in Hy. destruct Hy as [<-|Hy]; [now rewrite Hkx|]. fold (keys (erase k (l c))) in Hy. apply In_keys_erase in Hy as [Hy _]. now apply Hin. }
  split; [|exact Hi]. apply trim_id.
  assert (Hn : NoDup (keys (x :: erase k (l c)))).
  { cbn [keys map]. rewrite Hkx. constructor; [apply not_in_keys_erase|now apply NoDup_keys_erase]. }
  pose proof (NoDup_incl_length Hn Hi) as Hl. unfold keys in Hl. rewrite map_length in Hl. lia.
Qed.

Lemma find_front_other k x l0 k' : key x = k -> k' <> k -> find_k k' (x :: erase k l0) = find_k k' l0.
Proof. intros Hx Hne. rewrite find_cons_other by congruence. now apply find_erase_other. Qed.

Lemma alive_live now e d : rx e = Some (d * 1000) -> now < d -> ralive now e = true.
Proof. intros H Hd. unfold ralive. rewrite H. apply Z.ltb_lt. lia. Qed.
Lemma alive_dead now e d : rx e = Some (d * 1000) -> d < now -> ralive now e = false.
Proof. intros H Hd. unfold ralive. rewrite H. apply Z.ltb_ge. lia. Qed.

Lemma purge_spec now k r :
  rfind k (rpurge now k r) = match rfind k r with Some e => if ralive now e then Some e else None | None => None end.
Proof. unfold rpurge. destruct (rfind k r) as [e|] eqn:E; [destruct (ralive now e) eqn:A; [exact E|apply rfind_rdel_same]|exact E]. Qed.

(* what the touched key looks like in the three stores *)
Lemma rel1_live c r led k n now : rel1 c r led k -> find_k k (l c) = Some n -> now <= dl n -> dl n <> now ->
  lfind k led = Some (k, dl n) /\ exists e, rfind k (rpurge now k r) = Some e /\ rv e = val n /\ rx e = Some (dl n * 1000).
Proof.
  unfold rel1. intros H Hf Hl Hne. rewrite Hf in H. destruct H as (Hlf & e & Hrf & Hrv & Hrx). split; [exact Hlf|].
  exists e. rewrite purge_spec, Hrf, (alive_live now e (dl n) Hrx) by lia. now repeat split.
Qed.

Lemma rel1_gone c r led k now : rel1 c r led k -> (find_k k (l c) = None \/ exists n, find_k k (l c) = Some n /\ dl n < now) ->
  rfind k (rpurge now k r) = None /\
  (lfind k led = None \/ exists d, lfind k led = Some (k, d) /\ d < now).
Proof.
  unfold rel1. intros H [Hf|(n & Hf & Hd)]; rewrite Hf in H.
  - destruct H as [Hl Hr]. split; [now rewrite purge_spec, Hr|now left].
  - destruct H as (Hlf & e & Hrf & Hrv & Hrx). split; [rewrite purge_spec, Hrf, (alive_dead now e (dl n) Hrx) by lia; reflexivity|].
    right. now exists (dl n).
Qed.

Lemma deadline_pos t now : 0 < t -> fitsb t now = true -> deadline t now = now + t.
Proof. intros Ht Hf. rewrite (ideadline_deadline t now Hf). unfold ideadline. replace (t <=? 0) with false by (symmetry; apply Z.leb_gt; lia). reflexivity. Qed.

(* ---------- Set ---------- *)
Lemma set_agree U c r led now k v so led' :
  NoDup U -> Z.of_nat (length U) <= size c -> Inv U c r led -> In k U ->
  led_step (dttl c) led now (OSet k v so) = Some led' ->
  exists c' r' x cs, set c k v so now = (c', x) /\ rds_step (dttl c) r now (OSet k v so) = (r', x, cs) /\ Inv U c' r' led'.
Proof.
  intros HU Hsz HI Hk Hled. pose proof HI as (Hwf & Hin & Hrel).
  cbn [led_step] in Hled. fold (set_ttl c so) in Hled. set (t := set_ttl c so) in *.
  destruct (ttl_ok now t) eqn:Et; [|discriminate]. cbn [negb] in Hled.
  apply ttl_ok_spec in Et as [Ht Hfit]. pose proof (dur_pos t Ht) as Hdur.
  destruct (sec_facts t (proj1 Ht)) as (F1 & F2 & F3 & F4 & F5).
  pose proof (deadline_pos t now (proj1 Ht) Hfit) as Hdl.
  pose proof (Hrel k) as Hrk.
  assert (Hcmd : rds_step (dttl c) r now (OSet k v so) =
                 let cmd := if mne so then RSet k v (XEx t) true else RSet k v (if keep so then XKeep else XEx t) false in
                 let '(r1, rep) := rexec now r cmd in (r1, set_res so rep, [cmd])).
  { unfold rds_step, set_cmd. fold (set_ttl c so). fold t. rewrite Hdur, F1, F2, F4.
    destruct (mne so); [reflexivity|]. destruct (keep so); [reflexivity|]. rewrite F3, F4. reflexivity. }
  rewrite Hcmd. clear Hcmd.
  assert (Hbad : (t <=? 0) = false) by (apply Z.leb_gt; lia).
  pose proof (set_cases c k v so now Hwf) as Hsc. cbv zeta in Hsc. fold t in Hsc. rewrite Hdl in Hsc.
  destruct Hsc as [(n & Hf & Hl & Hm & Hset)|[(n & Hf & Hl & Hm & Hset)|(Hf & Hset)]].
  - (* already exists *)
    destruct (Z.eq_dec (dl n) now) as [E|E].
    { unfold rel1 in Hrk. rewrite Hf in Hrk. destruct Hrk as [Hlf _]. rewrite Hlf in Hled. apply Z.eqb_eq in E. rewrite E in Hled. discriminate. }
    destruct (rel1_live c r led k n now Hrk Hf Hl E) as (Hlf & e & Hrf & Hrv & Hrx).
    rewrite Hlf in Hled. replace (dl n =? now) with false in Hled by (symmetry; apply Z.eqb_neq; lia).
    replace (now <? dl n) with true in Hled by (symmetry; apply Z.ltb_lt; lia). rewrite Hm in Hled. injection Hled as <-.
    exists c, (rpurge now k r), Exists, [RSet k v (XEx t) true]. split; [exact Hset|]. split.
    + rewrite Hm. cbv zeta. unfold rexec. rewrite Hbad, Hrf. unfold set_res. now rewrite Hm.
    + apply (inv_frame U c r led c (rpurge now k r) led k HI Hwf Hin); auto.
      * intros k' Hne. now apply rfind_rpurge_other.
      * unfold rel1. rewrite Hf. split; [exact Hlf|]. now exists e.
  - (* overwrite of a live entry *)
    destruct (Z.eq_dec (dl n) now) as [E|E].
    { unfold rel1 in Hrk. rewrite Hf in Hrk. destruct Hrk as [Hlf _]. rewrite Hlf in Hled. apply Z.eqb_eq in E. rewrite E in Hled. discriminate. }
    destruct (rel1_live c r led k n now Hrk Hf Hl E) as (Hlf & e & Hrf & Hrv & Hrx).
    rewrite Hlf in Hled. replace (dl n =? now) with false in Hled by (symmetry; apply Z.eqb_neq; lia).
    replace (now <? dl n) with true in Hled by (symmetry; apply Z.ltb_lt; lia). rewrite Hm in Hled. injection Hled as <-.
    set (x := {| key := k; val := v; dl := if keep so then dl n else now + t |}) in *.
    destruct (no_evict U c k x HU Hsz Hwf Hin Hk eq_refl) as [Htr Hinc]. rewrite Htr in Hset.
    set (e' := {| rk := k; rv := v; rx := Some (dl x * 1000) |}).
    exists {| size := size c; dttl := dttl c; l := x :: erase k (l c) |}, (rput e' (rpurge now k r)), Done, [RSet k v (if keep so then XKeep else XEx t) false].
    split; [exact Hset|]. split.
    + rewrite Hm. cbv zeta. unfold rexec. assert (Hb2 : match (if keep so then XKeep else XEx t) with XPx n0 => n0 <=? 0 | XEx n0 => n0 <=? 0 | _ => false end = false) by (destruct (keep so); auto).
      rewrite Hb2, Hrf. unfold set_res, e', x. cbn [dl]. destruct (keep so); [now rewrite Hrx|reflexivity].
    + apply (inv_frame U c r led _ _ _ k HI).
      * pose proof (step_wf c now (OSet k v so) Hwf) as Hw. cbn [step] in Hw. now rewrite Hset in Hw.
      * exact Hinc.
      * intros k' Hne. cbn [l]. now apply find_front_other.
      * intros k' Hne. rewrite lfind_cons_other by exact Hne. now apply lfind_lerase_other.
      * intros k' Hne. rewrite rfind_rput_other by (cbn [rk e']; exact Hne). now apply rfind_rpurge_other.
      * unfold rel1. cbn [l]. rewrite find_cons_same by reflexivity. split; [unfold x; cbn [dl]; apply lfind_cons_same|].
        exists e'. change k with (rk e') at 1. rewrite rfind_rput_same. now repeat split.
  - (* absent or elapsed: a fresh entry *)
    destruct (rel1_gone c r led k now Hrk Hf) as (Hrf & Hlf).
    assert (Hled2 : (keep so && negb (mne so) = false) /\ led' = (k, now + t) :: lerase k led).
    { destruct Hlf as [Hlf|(d & Hlf & Hd)]; rewrite Hlf in Hled.
      - destruct (keep so && negb (mne so)); [discriminate|]. injection Hled as <-. now split.
      - replace (d =? now) with false in Hled by (symmetry; apply Z.eqb_neq; lia).
        replace (now <? d) with false in Hled by (symmetry; apply Z.ltb_ge; lia).
        destruct (keep so && negb (mne so)); [discriminate|]. injection Hled as <-. now split. }
    destruct Hled2 as [Hkm ->].
    set (x := {| key := k; val := v; dl := now + t |}) in *.
    destruct (no_evict U c k x HU Hsz Hwf Hin Hk eq_refl) as [Htr Hinc]. rewrite Htr in Hset.
    set (e' := {| rk := k; rv := v; rx := Some ((now + t) * 1000) |}).
    exists {| size := size c; dttl := dttl c; l := x :: erase k (l c) |}, (rput e' (rpurge now k r)), Done,
      [if mne so then RSet k v (XEx t) true else RSet k v (if keep so then XKeep else XEx t) false].
    split; [exact Hset|]. split.
    + cbv zeta. destruct (mne so) eqn:Hm.
      * unfold rexec. rewrite Hbad, Hrf. reflexivity.
      * cbn [negb] in Hkm. rewrite andb_true_r in Hkm. rewrite Hkm. unfold rexec. rewrite Hbad, Hrf. reflexivity.
    + apply (inv_frame U c r led _ _ _ k HI).
      * pose proof (step_wf c now (OSet k v so) Hwf) as Hw. cbn [step] in Hw. now rewrite Hset in Hw.
      * exact Hinc.
      * intros k' Hne. cbn [l]. now apply find_front_other.
      * intros k' Hne. rewrite lfind_cons_other by exact Hne. now apply lfind_lerase_other.
      * intros k' Hne. rewrite rfind_rput_other by (cbn [rk e']; exact Hne). now apply rfind_rpurge_other.
      * unfold rel1. cbn [l]. rewrite find_cons_same by reflexivity. split; [unfold x; cbn [dl]; apply lfind_cons_same|].
        exists e'. change k with (rk e') at 1. rewrite rfind_rput_same. now repeat split.
Qed.

Lemma rpurge_none now k r : rfind k r = None -> rpurge now k r = r.
Proof. intros H. unfold rpurge. now rewrite H. Qed.
Lemma rpurge_keep now k r e : rfind k r = Some e -> ralive now e = true -> rpurge now k r = r.
Proof. intros H Ha. unfold rpurge. now rewrite H, Ha. Qed.

Lemma incl_keys_erase U k l0 : incl (keys l0) U -> incl (keys (erase k l0)) U.
Proof. intros H x Hx. apply In_keys_erase in Hx as [Hx _]. now apply H. Qed.

(* ---------- Get ---------- *)
Lemma get_agree U c r led now k go led' :
  NoDup U -> Z.of_nat (length U) <= size c -> Inv U c r led -> In k U ->
  led_step (dttl c) led now (OGet k go) = Some led' ->
  exists c' r' x cs, get c k go now = (c', x) /\ rds_step (dttl c) r now (OGet k go) = (r', x, cs) /\ Inv U c' r' led'.
Proof.
  intros HU Hsz HI Hk Hled. pose proof HI as (Hwf & Hin & Hrel).
  cbn [led_step] in Hled.
  destruct (match upd go with Some t => ttl_ok now (if t =? 0 then dttl c else t) | None => fitsb 0 now end) eqn:Eok; [|discriminate].
  cbn [negb] in Hled. pose proof (Hrel k) as Hrk.
  destruct (get_cases c k go now Hwf) as [(Hf & Hget)|[(n & Hf & Hd & Hget)|[(n & Hf & Hl & Hr & Hget)|(n & Hf & Hl & Hr & Hget)]]].
  - (* never set / removed *)
    destruct (rel1_gone c r led k now Hrk (or_introl Hf)) as (Hrf & _).
    unfold rel1 in Hrk. rewrite Hf in Hrk. destruct Hrk as [Hlf Hrf0]. rewrite Hlf in Hled. injection Hled as <-.
    exists c, (rpurge now k r), NotFound, [if rag go then RGetDel k else RGet k]. split; [exact Hget|]. split.
    + unfold rds_step. destruct (rag go); unfold rexec; rewrite Hrf; reflexivity.
    + apply (inv_frame U c r led c _ led k HI Hwf Hin); auto.
      * intros k' Hne. now apply rfind_rpurge_other.
      * unfold rel1. rewrite Hf. now split.
  - (* elapsed *)
    destruct (rel1_gone c r led k now Hrk) as (Hrf & Hlf); [right; now exists n|].
    unfold rel1 in Hrk. rewrite Hf in Hrk. destruct Hrk as [Hlf0 _]. rewrite Hlf0 in Hled.
    replace (dl n =? now) with false in Hled by (symmetry; apply Z.eqb_neq; lia).
    replace (now <? dl n) with false in Hled by (symmetry; apply Z.ltb_ge; lia). injection Hled as <-.
    exists (without c k), (rpurge now k r), NotFound, [if rag go then RGetDel k else RGet k]. split; [exact Hget|]. split.
    + unfold rds_step. destruct (rag go); unfold rexec; rewrite Hrf; reflexivity.
    + apply (inv_frame U c r led _ _ _ k HI).
      * now apply wf_erase.
      * cbn [without l]. now apply incl_keys_erase.
      * intros k' Hne. cbn [without l]. now apply find_erase_other.
      * intros k' Hne. now apply lfind_lerase_other.
      * intros k' Hne. now apply rfind_rpurge_other.
      * unfold rel1. cbn [without l]. rewrite find_erase. split; [apply lfind_lerase_same|exact Hrf].
  - (* live, remove-after-get *)
    destruct (Z.eq_dec (dl n) now) as [E|E].
    { unfold rel1 in Hrk. rewrite Hf in Hrk. destruct Hrk as [Hlf _]. rewrite Hlf in Hled. apply Z.eqb_eq in E. rewrite E in Hled. discriminate. }
    destruct (rel1_live c r led k n now Hrk Hf Hl E) as (Hlf & e & Hrf & Hrv & Hrx).
    rewrite Hlf in Hled. replace (dl n =? now) with false in Hled by (symmetry; apply Z.eqb_neq; lia).
    replace (now <? dl n) with true in Hled by (symmetry; apply Z.ltb_lt; lia). rewrite Hr in Hled. injection Hled as <-.
    set (r1 := rdel k (rpurge now k r)).
    assert (Hr1 : rfind k r1 = None) by apply rfind_rdel_same.
    exists (without c k), r1, (Ok (val n)),
      (RGetDel k :: match upd go with Some t => [RExpire k (format_sec (dur_of (if t =? 0 then dttl c else t)))] | None => [] end).
    split; [exact Hget|]. split.
    + unfold rds_step. rewrite Hr. unfold rexec at 1. rewrite Hrf. fold r1. rewrite Hrv.
      destruct (upd go) as [t|]; [|reflexivity]. unfold rexec. rewrite (rpurge_none now k r1 Hr1), Hr1. reflexivity.
    + apply (inv_frame U c r led _ _ _ k HI).
      * now apply wf_erase.
      * cbn [without l]. now apply incl_keys_erase.
      * intros k' Hne. cbn [without l]. now apply find_erase_other.
      * intros k' Hne. now apply lfind_lerase_other.
      * intros k' Hne. unfold r1. rewrite rfind_rdel_other by exact Hne. now apply rfind_rpurge_other.
      * unfold rel1. cbn [without l]. rewrite find_erase. split; [apply lfind_lerase_same|exact Hr1].
  - (* live, plain or update-ttl *)
    destruct (Z.eq_dec (dl n) now) as [E|E].
    { unfold rel1 in Hrk. rewrite Hf in Hrk. destruct Hrk as [Hlf _]. rewrite Hlf in Hled. apply Z.eqb_eq in E. rewrite E in Hled. discriminate. }
    destruct (rel1_live c r led k n now Hrk Hf Hl E) as (Hlf & e & Hrf & Hrv & Hrx).
    rewrite Hlf in Hled. replace (dl n =? now) with false in Hled by (symmetry; apply Z.eqb_neq; lia).
    replace (now <? dl n) with true in Hled by (symmetry; apply Z.ltb_lt; lia). rewrite Hr in Hled.
    set (r1 := rpurge now k r) in *.
    assert (Hal : ralive now e = true) by (apply (alive_live now e (dl n) Hrx); lia).
    set (x := {| key := k; val := val n; dl := match upd go with Some t => deadline (upd_ttl c t) now | None => dl n end |}) in *.
    destruct (no_evict U c k x HU Hsz Hwf Hin Hk eq_refl) as [Htr Hinc]. rewrite Htr in Hget.
    assert (Hw : wf {| size := size c; dttl := dttl c; l := x :: erase k (l c) |}).
    { pose proof (step_wf c now (OGet k go) Hwf) as Hw. cbn [step] in Hw. now rewrite Hget in Hw. }
    destruct (upd go) as [t|] eqn:Eu.
    + (* update-ttl *)
      unfold upd_ttl in x. set (t' := if t =? 0 then dttl c else t) in *.
      apply ttl_ok_spec in Eok as [Ht Hfit]. pose proof (dur_pos t' Ht) as Hdur.
      destruct (sec_facts t' (proj1 Ht)) as (F1 & F2 & F3 & F4 & F5).
      pose proof (deadline_pos t' now (proj1 Ht) Hfit) as Hdl. injection Hled as <-.
      set (e' := {| rk := k; rv := val n; rx := Some ((now + t') * 1000) |}).
      exists {| size := size c; dttl := dttl c; l := x :: erase k (l c) |}, (rput e' r1), (Ok (val n)), [RGet k; RExpire k t'].
      split; [exact Hget|]. split.
      * unfold rds_step. rewrite Hr, Eu. fold t'. rewrite Hdur, F5. unfold rexec at 1. fold r1. rewrite Hrf, Hrv.
        unfold rexec. rewrite (rpurge_keep now k r1 e Hrf Hal), Hrf.
        replace (t' <=? 0) with false by (symmetry; apply Z.leb_gt; lia). rewrite Hrv. reflexivity.
      * apply (inv_frame U c r led _ _ _ k HI Hw Hinc).
        -- intros k' Hne. cbn [l]. now apply find_front_other.
        -- intros k' Hne. rewrite lfind_cons_other by exact Hne. now apply lfind_lerase_other.
        -- intros k' Hne. rewrite rfind_rput_other by (cbn [rk e']; exact Hne). now apply rfind_rpurge_other.
        -- unfold rel1. cbn [l]. rewrite find_cons_same by reflexivity. unfold x. cbn [dl val]. rewrite Hdl.
           split; [apply lfind_cons_same|]. exists e'. change k with (rk e') at 1. rewrite rfind_rput_same. now repeat split.
    + (* plain *)
      injection Hled as <-.
      exists {| size := size c; dttl := dttl c; l := x :: erase k (l c) |}, r1, (Ok (val n)), [RGet k].
      split; [exact Hget|]. split.
      * unfold rds_step. rewrite Hr, Eu. unfold rexec. fold r1. rewrite Hrf, Hrv. reflexivity.
      * apply (inv_frame U c r led _ _ _ k HI Hw Hinc); auto.
        -- intros k' Hne. cbn [l]. now apply find_front_other.
        -- intros k' Hne. now apply rfind_rpurge_other.
        -- unfold rel1. cbn [l]. rewrite find_cons_same by reflexivity. unfold x. cbn [dl val].
           split; [exact Hlf|]. exists e. now repeat split.
Qed.

(* ---------- Remove, Clear ---------- *)
Lemma rdel_exec now r k :
  rfind k (fst (rexec now r (RDel k))) = None /\ forall k', k' <> k -> rfind k' (fst (rexec now r (RDel k))) = rfind k' r.
Proof.
  unfold rexec. destruct (rfind k (rpurge now k r)) as [e|] eqn:E; cbn [fst].
  - split; [apply rfind_rdel_same|]. intros k' Hne. rewrite rfind_rdel_other by exact Hne. now apply rfind_rpurge_other.
  - split; [exact E|]. intros k' Hne. now apply rfind_rpurge_other.
Qed.

Lemma remove_agree U c r led now k led' :
  Inv U c r led -> led_step (dttl c) led now (ORemove k) = Some led' ->
  exists r' cs, rds_step (dttl c) r now (ORemove k) = (r', Done, cs) /\ Inv U (without c k) r' led'.
Proof.
  intros HI Hled. pose proof HI as (Hwf & Hin & Hrel). cbn [led_step] in Hled. destruct (fitsb 0 now); [|discriminate]. injection Hled as <-.
  destruct (rdel_exec now r k) as [H1 H2].
  exists (fst (rexec now r (RDel k))), [RDel k]. split.
  - unfold rds_step. destruct (rexec now r (RDel k)) as [r1 rep] eqn:E. cbn [fst].
    unfold rexec in E. destruct (rfind k (rpurge now k r)); injection E as _ <-; reflexivity.
  - apply (inv_frame U c r led _ _ _ k HI).
    + now apply wf_erase.
    + cbn [without l]. now apply incl_keys_erase.
    + intros k' Hne. cbn [without l]. now apply find_erase_other.
    + intros k' Hne. now apply lfind_lerase_other.
    + exact H2.
    + unfold rel1. cbn [without l]. rewrite find_erase. split; [apply lfind_lerase_same|exact H1].
Qed.

Lemma del_all_spec now ks : forall r,
  (forall k, In k ks -> rfind k (fst (del_all now r ks)) = None) /\
  (forall k, rfind k r = None -> rfind k (fst (del_all now r ks)) = None).
Proof.
  induction ks as [|k0 ks IH]; intros r; cbn [del_all]; [split; [intros k []|auto]|].
  destruct (rdel_exec now r k0) as [H1 H2]. set (r1 := fst (rexec now r (RDel k0))) in *.
  destruct (IH r1) as [I1 I2]. destruct (del_all now r1 ks) as [r2 cs]. cbn [fst] in *.
  assert (Hpres : forall k, rfind k r = None -> rfind k r1 = None).
  { intros k Hk. destruct (Z.eq_dec k k0) as [->|Hne]; [exact H1|]. now rewrite H2. }
  split.
  - intros k [<-|Hk]; [now apply I2|now apply I1].
  - intros k Hk. apply I2. now apply Hpres.
Qed.

Lemma clear_agree U c r led now led' :
  Inv U c r led -> led_step (dttl c) led now OClear = Some led' ->
  exists r' cs, rds_step (dttl c) r now OClear = (r', Done, cs) /\ Inv U (clear c) r' led'.
Proof.
  intros HI Hled. cbn [led_step] in Hled. destruct (fitsb 0 now); [|discriminate]. injection Hled as <-.
  unfold rds_step. unfold rexec at 1. set (r1 := filter (ralive now) r).
  destruct (del_all_spec now (map rk r1) r1) as [D1 D2].
  destruct (del_all now r1 (map rk r1)) as [r2 cs] eqn:E. cbn [fst] in *.
  exists r2, (RScan :: cs). split; [reflexivity|].
  split; [|split].
  - split; cbn [clear l size keys map length]; [constructor|lia].
  - cbn [clear l keys map]. intros x [].
  - intros k. unfold rel1. cbn [clear l find_k find]. split; [reflexivity|].
    destruct (rfind k r1) as [e|] eqn:Er; [|now apply D2].
    apply D1. pose proof (rfind_key k r1 e Er) as Hk. unfold rfind in Er. apply find_some in Er as [Hin _].
    rewrite <- Hk. now apply in_map.
Qed.

(* ---------- whole histories ---------- *)
Lemma agree_run U dt h : NoDup U -> forall c r led, Z.of_nat (length U) <= size c -> dttl c = dt -> Inv U c r led ->
  incl (hist_keys h) U -> led_run dt led h = true -> snd (run c h) = map fst (rds_run dt r h).
Proof.
  intros HU. induction h as [|[now o] h IH]; intros c r led Hsz Hdt HI Hk Hled; [reflexivity|].
  cbn [led_run] in Hled. destruct (led_step dt led now o) as [led1|] eqn:El; [|discriminate].
  assert (Hk1 : incl (op_key o) U) by (intros x Hx; apply Hk; unfold hist_keys; cbn [flat_map snd]; apply in_or_app; now left).
  assert (Hk2 : incl (hist_keys h) U) by (intros x Hx; apply Hk; unfold hist_keys; cbn [flat_map snd]; apply in_or_app; now right).
  pose proof (step_cfg c now o) as [Hs1 Hs2]. subst dt.
  assert (Hstep : exists c' r' x cs, step c now o = (c', x) /\ rds_step (dttl c) r now o = (r', x, cs) /\ Inv U c' r' led1).
  { destruct o as [k v so|k go|k|]; cbn [step].
    - apply (set_agree U c r led now k v so led1); auto. apply Hk1. now left.
    - apply (get_agree U c r led now k go led1); auto. apply Hk1. now left.
    - destruct (remove_agree U c r led now k led1 HI El) as (r' & cs & H1 & H2). now exists (without c k), r', Done, cs.
    - destruct (clear_agree U c r led now led1 HI El) as (r' & cs & H1 & H2). now exists (clear c), r', Done, cs. }
  destruct Hstep as (c' & r' & x & cs & Hst & Hrs & HI').
  cbn [run rds_run]. rewrite Hst, Hrs. rewrite Hst in Hs1, Hs2. cbn [fst] in Hs1, Hs2.
  specialize (IH c' r' led1). rewrite Hs1, Hs2 in IH. specialize (IH Hsz eq_refl HI' Hk2 Hled).
  destruct (run c' h) as [c2 rs]. cbn [snd map fst] in *. now rewrite IH.
Qed.

Theorem rds_agrees sz dt h : restricted sz dt h = true -> snd (run (empty sz dt) h) = map fst (rds_run dt [] h).
Proof.
  unfold restricted. intros H. apply andb_prop in H as [H1 H2]. apply Z.leb_le in H1.
  apply (agree_run (nodup Z.eq_dec (hist_keys h)) dt h (NoDup_nodup Z.eq_dec _) (empty sz dt) [] []); auto.
  - split; [apply wf_empty|]. split; [intros x []|]. intros k. unfold rel1. cbn. now split.
  - intros x Hx. now apply nodup_In.
Qed.

(* ---------- a restricted history lies inside the monitor's int64 domain ---------- *)
Lemma led_step_dom dt led now o led' : led_step dt led now o = Some led' -> op_dom dt now o = true.
Proof.
  destruct o as [k v so|k go|k|]; cbn [led_step op_dom].
  - destruct (ttl_ok now _) eqn:E; [|discriminate]. intros _. now apply ttl_ok_spec in E as [_ E].
  - destruct (upd go) as [t|].
    + destruct (ttl_ok now _) eqn:E; [|discriminate]. intros _. now apply ttl_ok_spec in E as [_ E].
    + destruct (fitsb 0 now); [reflexivity|discriminate].
  - destruct (fitsb 0 now); [reflexivity|discriminate].
  - destruct (fitsb 0 now); [reflexivity|discriminate].
Qed.

Lemma led_run_dom dt h : forall led, led_run dt led h = true -> forallb (fun s => op_dom dt (fst s) (snd s)) h = true.
Proof.
  induction h as [|[now o] h IH]; intros led H; [reflexivity|]. cbn [led_run] in H. cbn [forallb fst snd].
  destruct (led_step dt led now o) as [led'|] eqn:E; [|discriminate]. rewrite (led_step_dom dt led now o led' E). now apply (IH led').
Qed.

Lemma dom_all_combine dt h : forall rs, length rs = length h ->
  dom_all dt (combine h rs) = forallb (fun s => op_dom dt (fst s) (snd s)) h.
Proof.
  unfold dom_all. induction h as [|[now o] h IH]; intros rs Hl; [reflexivity|]. destruct rs as [|r rs]; [discriminate|].
  cbn [combine forallb fst snd]. f_equal. apply IH. now injection Hl.
Qed.

Lemma restricted_dom sz dt h : restricted sz dt h = true -> dom_all dt (trace_of (empty sz dt) h) = true.
Proof.
  unfold restricted. intros H. apply andb_prop in H as [_ H]. unfold trace_of.
  rewrite dom_all_combine by apply run_length. now apply (led_run_dom dt h []).
Qed.

(* hence the redis-backed model itself satisfies the monitor on every restricted history *)
Theorem rds_satisfies_monitor sz dt h : restricted sz dt h = true ->
  mrun sz dt mon0 (combine h (map fst (rds_run dt [] h))) = true.
Proof.
  intros H. rewrite <- (rds_agrees sz dt h H). apply model_satisfies_monitor. now apply restricted_dom.
Qed.
