(* C20: the signed quoted wrapper tex.JsInt64 (FormatInt / Atoi, quoted or bare, the empty quoted string is 0) *)
From Coq Require Import ZArith List Lia Bool.
Require Import Decimal.
Import ListNotations.
Open Scope Z_scope.

Definition QUOTE := 34.
Definition MINUS := 45.
Definition PLUS := 43.
Inductive res := Ok (v : Z) | Err.

(* strconv.FormatInt(v, 10) *)
Definition fmt_int (v : Z) : list Z := if v <? 0 then MINUS :: digits 20 (- v) else digits 20 v.
(* strconv.Atoi on a 64-bit platform: optional sign, at least one digit, result within int64 *)
Definition parse_i64 (s : list Z) : res :=
  match s with
  | c :: r =>
      if c =? MINUS then match parse r with Some v => if v <=? 2 ^ 63 then Ok (- v) else Err | None => Err end
      else if c =? PLUS then match parse r with Some v => if v <? 2 ^ 63 then Ok v else Err | None => Err end
      else match parse s with Some v => if v <? 2 ^ 63 then Ok v else Err | None => Err end
  | [] => Err
  end.

Definition inner (b : list Z) : list Z := removelast (tl b).
Definition quoted (b : list Z) : bool := match b with c :: _ => (c =? QUOTE) && (last b 0 =? QUOTE) && Nat.leb 2 (length b) | [] => false end.
(* UnmarshalJSON as coded, on the inputs encoding/json can deliver (a lone quote character is not a JSON token) *)
Definition unmarshal (b : list Z) : res :=
  match b with
  | [] => Err
  | _ => if quoted b then (match inner b with [] => Ok 0 | s => parse_i64 s end) else parse_i64 b
  end.
Definition marshal (v : Z) : list Z := QUOTE :: fmt_int v ++ [QUOTE].

Lemma digits_props n : 0 <= n < 10 ^ 20 ->
  Forall (fun d => is_digit d = true) (digits 20 n) /\ digits 20 n <> [] /\ parse (digits 20 n) = Some n.
Proof.
  intros H. destruct (digits_rev_spec 20 n ltac:(exact H)) as (Hd & _ & Hne). unfold digits.
  split; [apply Forall_rev, Hd|]. split; [|apply (parse_digits 20 n); [discriminate|exact H]].
  intros E. apply (f_equal (@rev Z)) in E. rewrite rev_involutive in E. cbn in E. apply (Hne ltac:(discriminate) E).
Qed.
Lemma head_digit l : Forall (fun d => is_digit d = true) l -> l <> [] -> exists c r, l = c :: r /\ 48 <= c <= 57.
Proof.
  intros H Hne. destruct l as [|c r]; [congruence|]. inversion H as [|? ? Hc _]; subst. exists c, r. split; [reflexivity|].
  unfold is_digit in Hc. apply andb_prop in Hc. destruct Hc as [A B]. apply Z.leb_le in A. apply Z.leb_le in B. lia.
Qed.

Lemma parse_fmt v : - 2 ^ 63 <= v < 2 ^ 63 -> parse_i64 (fmt_int v) = Ok v.
Proof.
  intros Hv. assert (Hb : 2 ^ 63 < 10 ^ 20) by (vm_compute; reflexivity). unfold fmt_int. destruct (v <? 0) eqn:E.
  - apply Z.ltb_lt in E. destruct (digits_props (- v) ltac:(lia)) as (_ & _ & Hp).
    cbn [parse_i64]. unfold MINUS at 2. rewrite Z.eqb_refl. rewrite Hp.
    replace (- v <=? 2 ^ 63) with true by (symmetry; apply Z.leb_le; lia). f_equal. lia.
  - apply Z.ltb_ge in E. destruct (digits_props v ltac:(lia)) as (Hd & Hne & Hp).
    destruct (head_digit _ Hd Hne) as (c & r & El & Hc). rewrite El in *. cbn [parse_i64].
    replace (c =? MINUS) with false by (symmetry; apply Z.eqb_neq; unfold MINUS; lia).
    replace (c =? PLUS) with false by (symmetry; apply Z.eqb_neq; unfold PLUS; lia).
    rewrite Hp. replace (v <? 2 ^ 63) with true by (symmetry; apply Z.ltb_lt; lia). reflexivity.
Qed.

Lemma fmt_nonempty v : - 2 ^ 63 <= v < 2 ^ 63 -> fmt_int v <> [].
Proof.
  intros Hv. assert (Hb : 2 ^ 63 < 10 ^ 20) by (vm_compute; reflexivity). unfold fmt_int. destruct (v <? 0) eqn:E; [discriminate|].
  apply Z.ltb_ge in E. apply (digits_props v ltac:(lia)).
Qed.

Lemma inner_marshal s : inner (QUOTE :: s ++ [QUOTE]) = s.
Proof. unfold inner. cbn [tl]. apply removelast_last. Qed.
Lemma quoted_marshal s : quoted (QUOTE :: s ++ [QUOTE]) = true.
Proof.
  unfold quoted. rewrite Z.eqb_refl. cbn [andb].
  replace (last (QUOTE :: s ++ [QUOTE]) 0) with QUOTE
    by (change (QUOTE :: s ++ [QUOTE]) with ((QUOTE :: s) ++ [QUOTE]); symmetry; apply last_last).
  rewrite Z.eqb_refl. cbn [andb length]. rewrite app_length. cbn [length]. apply Nat.leb_le. lia.
Qed.

Theorem roundtrip v : - 2 ^ 63 <= v < 2 ^ 63 -> unmarshal (marshal v) = Ok v.
Proof.
  intros Hv. unfold unmarshal, marshal. rewrite quoted_marshal, inner_marshal.
  destruct (fmt_int v) as [|c r] eqn:E; [exfalso; apply (fmt_nonempty v Hv E)|]. rewrite <- E. apply parse_fmt, Hv.
Qed.

(* exact or error: whatever is accepted lies in int64, and the only accepted token without digits is the empty quoted string *)
Theorem parse_i64_range s v : parse_i64 s = Ok v -> - 2 ^ 63 <= v < 2 ^ 63.
Proof.
  destruct s as [|c r]; [discriminate|]. cbn [parse_i64].
  assert (Hnn : forall l x, parse l = Some x -> 0 <= x).
  { intros l x Hp. unfold parse in Hp. destruct l as [|z l]; [discriminate|].
    assert (G : forall l acc y, 0 <= acc -> parse_acc l acc = Some y -> 0 <= y).
    { clear. induction l as [|d l IH]; intros acc y Ha H; cbn [parse_acc] in H; [inversion H; lia|].
      destruct (is_digit d) eqn:Ed; [|discriminate]. unfold is_digit in Ed. apply andb_prop in Ed. destruct Ed as [A _]. apply Z.leb_le in A.
      apply (IH (acc * 10 + (d - 48)) y); [lia|exact H]. }
    apply (G (z :: l) 0 x); [lia|exact Hp]. }
  destruct (c =? MINUS).
  - destruct (parse r) as [x|] eqn:Ep; [|discriminate]. destruct (x <=? 2 ^ 63) eqn:E; [|discriminate]. apply Z.leb_le in E.
    intros H. inversion H as [Hv]. pose proof (Hnn r x Ep). lia.
  - destruct (c =? PLUS).
    + destruct (parse r) as [x|] eqn:Ep; [|discriminate]. destruct (x <? 2 ^ 63) eqn:E; [|discriminate]. apply Z.ltb_lt in E.
      intros H. inversion H as [Hv]. pose proof (Hnn r x Ep). lia.
    + destruct (parse (c :: r)) as [x|] eqn:Ep; [|discriminate]. destruct (x <? 2 ^ 63) eqn:E; [|discriminate]. apply Z.ltb_lt in E.
      intros H. inversion H as [Hv]. pose proof (Hnn _ x Ep). lia.
Qed.
Theorem exact_or_error b v : unmarshal b = Ok v ->
  - 2 ^ 63 <= v < 2 ^ 63 /\ ((quoted b = true /\ inner b = [] /\ v = 0) \/ parse_i64 (if quoted b then inner b else b) = Ok v).
Proof.
  unfold unmarshal. destruct b as [|c r]; [discriminate|]. destruct (quoted (c :: r)).
  - destruct (inner (c :: r)) as [|d s] eqn:Ei.
    + intros H. inversion H; subst. split; [lia|left; auto].
    + intros H. split; [apply (parse_i64_range _ _ H)|right; exact H].
  - intros H. split; [apply (parse_i64_range _ _ H)|right; exact H].
Qed.

Example demo : unmarshal (marshal (- 2 ^ 63)) = Ok (- 2 ^ 63) /\ unmarshal [34; 34] = Ok 0 /\ unmarshal [49; 50] = Ok 12
  /\ unmarshal [34; 45; 34] = Err /\ unmarshal [34; 57; 50; 50; 51; 51; 55; 50; 48; 51; 54; 56; 53; 52; 55; 55; 53; 56; 48; 56; 34] = Err.
Proof. vm_compute. repeat split. Qed.

Print Assumptions roundtrip.
Print Assumptions exact_or_error.
