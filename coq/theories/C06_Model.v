(* C06: the id generators as coded, over Z with explicit 64-bit wrap (DESIGN 2.3).
   - layout cfg (epoch, node bits, node-at-lowest), figureShift, the composed id, IDFields, NewNode
   - HardNode.Generate (wall clock through _HookNow), MonoNode.Generate (monotonic clock, spin on wrap),
     UnixNanoID.GenIDByTS
   - the bridge to the idealised (time, step) machine of Gen.v: inside the representable range nothing wraps,
     the id is time * 2^timeShift + low fields, the fields read back, and the id order is the key order *)
From Coq Require Import ZArith List Lia Bool.
Require Import BitField Gen.
Import ListNotations.
Open Scope Z_scope.

(* ---------------------------------------------------------------- int64 *)
Definition wrap64 (x : Z) : Z := (x + 9223372036854775808) mod 18446744073709551616 - 9223372036854775808.

Lemma wrap64_small x : -9223372036854775808 <= x < 9223372036854775808 -> wrap64 x = x.
Proof. intros H. unfold wrap64. rewrite Z.mod_small by lia. lia. Qed.

Lemma wrap64_range x : -9223372036854775808 <= wrap64 x < 9223372036854775808.
Proof. unfold wrap64. pose proof (Z.mod_pos_bound (x + 9223372036854775808) 18446744073709551616 ltac:(lia)). lia. Qed.

(* ---------------------------------------------------------------- layout *)
Record cfg := { epoch : Z; nb : Z; lowest : bool }.

(* figureShift *)
Definition tshift (c : cfg) : Z := nb c + 12.
Definition nshift (c : cfg) : Z := if lowest c then 0 else 12.
Definition sshift (c : cfg) : Z := if lowest c then nb c else 0.

(* r = n.time<<timeShift | n.node<<nodeShift | n.step<<stepShift   (int64) *)
Definition id_x (c : cfg) (node : Z) (s : st) : Z :=
  wrap64 (Z.lor (Z.lor (Z.shiftl (time s) (tshift c)) (Z.shiftl node (nshift c))) (Z.shiftl (step s) (sshift c))).

(* IDFields *)
Definition id_fields (c : cfg) (id : Z) : Z * Z * Z :=
  (Z.shiftr id (tshift c),
   Z.land (Z.shiftr id (nshift c)) (2 ^ nb c - 1),
   Z.land (Z.shiftr id (sshift c)) 4095).

Definition f_time (f : Z * Z * Z) : Z := fst (fst f).
Definition f_node (f : Z * Z * Z) : Z := snd (fst f).
Definition f_step (f : Z * Z * Z) : Z := snd f.

(* NewNode: node range check, then time/step seeded from the supplied id *)
Definition node_valid (c : cfg) (node : Z) : bool := negb ((node <? 0) || (2 ^ nb c - 1 <? node)).
Definition seed (c : cfg) (min : Z) : st := {| time := f_time (id_fields c min); step := f_step (id_fields c min) |}.
Definition new_node (c : cfg) (node min : Z) : option st := if node_valid c node then Some (seed c min) else None.

(* ---------------------------------------------------------------- Setup (UseEpoch / UseNodeMode / NodeAtLowest) *)
Inductive opt := OEpoch (ms : Z) | ONodeMode (m : Z) | OLowest.
Definition apply_opt (c : cfg) (o : opt) : cfg :=
  match o with
  | OEpoch ms => {| epoch := ms; nb := nb c; lowest := lowest c |}
  | ONodeMode m => {| epoch := epoch c; nb := (if (m =? 8) || (m =? 9) then m else 10); lowest := lowest c |}
  | OLowest => {| epoch := epoch c; nb := nb c; lowest := true |}
  end.
Definition setup (c : cfg) (opts : list opt) : cfg := fold_left apply_opt opts c.

(* ---------------------------------------------------------------- HardNode.Generate *)
Definition hard_generate (c : cfg) (s : st) (clk : Z) : st :=
  let now := wrap64 (clk - epoch c) in
  if time s <? now then {| time := now; step := 0 |}
  else let step' := Z.land (step s + 1) 4095 in
       if step' =? 0 then {| time := wrap64 (time s + 1); step := 0 |} else {| time := time s; step := step' |}.

Fixpoint hard_states (c : cfg) (s : st) (clocks : list Z) : list st :=
  match clocks with [] => [] | k :: r => let s' := hard_generate c s k in s' :: hard_states c s' r end.

Definition hard_ids (c : cfg) (node : Z) (s : st) (clocks : list Z) : list Z := map (id_x c node) (hard_states c s clocks).

(* the clock read before fix 16: UnixNano()/MsDivNs, kept for the refutation *)
Definition ms_unixnano (ms : Z) : Z := Z.quot (wrap64 (ms * 1000000)) 1000000.
Definition hard_generate_prefix (c : cfg) (s : st) (clk : Z) : st :=
  let now := wrap64 (ms_unixnano clk - ms_unixnano (epoch c)) in
  if time s <? now then {| time := now; step := 0 |}
  else let step' := Z.land (step s + 1) 4095 in
       if step' =? 0 then {| time := wrap64 (time s + 1); step := 0 |} else {| time := time s; step := step' |}.

(* ---------------------------------------------------------------- MonoNode.Generate *)
(* for now <= n.time { now = read() }: the first later reading above time; None = the clock never advances *)
Fixpoint spin (t : Z) (rs : list Z) : option Z :=
  match rs with [] => None | r :: rs' => if r <=? t then spin t rs' else Some r end.

Definition mono_generate (s : st) (now : Z) (spins : list Z) : option st :=
  if now =? time s then
    let step' := Z.land (step s + 1) 4095 in
    if step' =? 0 then
      match spin (time s) spins with Some now' => Some {| time := now'; step := 0 |} | None => None end
    else Some {| time := now; step := step' |}
  else Some {| time := now; step := 0 |}.

Fixpoint mono_states (s : st) (ins : list (Z * list Z)) : option (list st) :=
  match ins with
  | [] => Some []
  | (now, sp) :: r =>
    match mono_generate s now sp with
    | None => None
    | Some s' => match mono_states s' r with None => None | Some l => Some (s' :: l) end
    end
  end.

Definition mono_init : st := {| time := 0; step := 0 |}.

(* ---------------------------------------------------------------- UnixNanoID.GenIDByTS *)
Definition nano_gen (cur ts : Z) : Z := if cur <? ts then ts else wrap64 (cur + 1).
Fixpoint nano_run (cur : Z) (tss : list Z) : list Z :=
  match tss with [] => [] | ts :: r => let id := nano_gen cur ts in id :: nano_run id r end.

(* ================================================================ the bridge to arithmetic *)

Definition cfg_ok (c : cfg) : Prop := 0 <= nb c <= 50.
Definition node_ok (c : cfg) (node : Z) : Prop := 0 <= node < 2 ^ nb c.

(* low fields of an id: (node, step) in the order of the layout *)
Definition low (c : cfg) (node : Z) (s : st) : Z :=
  if lowest c then step s * 2 ^ nb c + node else node * 4096 + step s.
Definition id_ideal (c : cfg) (node : Z) (s : st) : Z := time s * 2 ^ (nb c + 12) + low c node s.

Lemma pow_pos_nb c : cfg_ok c -> 0 < 2 ^ nb c.
Proof. intros H. apply Z.pow_pos_nonneg; unfold cfg_ok in H; lia. Qed.

Lemma low_bound c node s : cfg_ok c -> node_ok c node -> wf s -> 0 <= low c node s < 2 ^ (nb c + 12).
Proof.
  intros Hc Hn Hw. pose proof (pow_pos_nb c Hc) as Hp. unfold cfg_ok, node_ok, wf, stepMax in *.
  rewrite Z.pow_add_r by lia. change (2 ^ 12) with 4096. unfold low. destruct (lowest c); nia.
Qed.

(* generic three-field facts: a at bit 0 (width wa), b at bit wa (width wb), t above *)
Lemma read3 t a b wa wb : 0 <= wa -> 0 <= wb -> 0 <= a < 2 ^ wa -> 0 <= b < 2 ^ wb ->
  let id := t * 2 ^ (wb + wa) + (b * 2 ^ wa + a) in
  Z.shiftr id (wb + wa) = t /\ Z.land (Z.shiftr id wa) (2 ^ wb - 1) = b /\ Z.land id (2 ^ wa - 1) = a.
Proof.
  intros Hwa Hwb Ha Hb id.
  assert (Hpa : 0 < 2 ^ wa) by (apply Z.pow_pos_nonneg; lia).
  assert (Hpb : 0 < 2 ^ wb) by (apply Z.pow_pos_nonneg; lia).
  assert (Hl : 0 <= b * 2 ^ wa + a < 2 ^ (wb + wa)) by (rewrite Z.pow_add_r by lia; nia).
  assert (E : id = (t * 2 ^ wb + b) * 2 ^ wa + a) by (unfold id; rewrite Z.pow_add_r by lia; ring).
  split; [|split].
  - unfold id. apply shiftr_compose; lia.
  - rewrite E. rewrite (shiftr_compose _ wa a) by lia. apply land_ones_compose; lia.
  - rewrite E. apply land_ones_compose; lia.
Qed.

Lemma decode3 id wa wb : 0 <= wa -> 0 <= wb -> 0 <= id ->
  let a := Z.land id (2 ^ wa - 1) in
  let b := Z.land (Z.shiftr id wa) (2 ^ wb - 1) in
  let t := Z.shiftr id (wb + wa) in
  id = t * 2 ^ (wb + wa) + (b * 2 ^ wa + a) /\ 0 <= a < 2 ^ wa /\ 0 <= b < 2 ^ wb /\ 0 <= t.
Proof.
  intros Hwa Hwb Hid a b t.
  assert (Hpa : 0 < 2 ^ wa) by (apply Z.pow_pos_nonneg; lia).
  assert (Hpb : 0 < 2 ^ wb) by (apply Z.pow_pos_nonneg; lia).
  assert (Ea : a = id mod 2 ^ wa).
  { unfold a. replace (2 ^ wa - 1) with (Z.ones wa) by (rewrite Z.ones_equiv; lia). apply Z.land_ones; lia. }
  assert (Eb : b = (id / 2 ^ wa) mod 2 ^ wb).
  { unfold b. replace (2 ^ wb - 1) with (Z.ones wb) by (rewrite Z.ones_equiv; lia).
    rewrite Z.land_ones by lia. now rewrite Z.shiftr_div_pow2 by lia. }
  assert (Et : t = (id / 2 ^ wa) / 2 ^ wb).
  { unfold t. rewrite Z.shiftr_div_pow2 by lia. rewrite Z.pow_add_r by lia.
    rewrite Z.div_div by lia. f_equal. ring. }
  pose proof (Z.div_mod id (2 ^ wa) ltac:(lia)) as D1.
  pose proof (Z.div_mod (id / 2 ^ wa) (2 ^ wb) ltac:(lia)) as D2.
  pose proof (Z.mod_pos_bound id (2 ^ wa) Hpa) as B1.
  pose proof (Z.mod_pos_bound (id / 2 ^ wa) (2 ^ wb) Hpb) as B2.
  assert (Hq : 0 <= id / 2 ^ wa) by (apply Z.div_pos; lia).
  assert (Hq2 : 0 <= (id / 2 ^ wa) / 2 ^ wb) by (apply Z.div_pos; lia).
  rewrite Ea, Eb, Et. rewrite Z.pow_add_r by lia.
  split; [|split; [lia|split; [lia|lia]]].
  set (q := id / 2 ^ wa) in *. set (q2 := q / 2 ^ wb) in *.
  rewrite D1 at 1. rewrite D2 at 1. ring.
Qed.

Lemma shifts_std c : lowest c = false -> tshift c = nb c + 12 /\ nshift c = 12 /\ sshift c = 0.
Proof. intros H. unfold tshift, nshift, sshift. now rewrite H. Qed.
Lemma shifts_low c : lowest c = true -> tshift c = nb c + 12 /\ nshift c = 0 /\ sshift c = nb c.
Proof. intros H. unfold tshift, nshift, sshift. now rewrite H. Qed.

(* the composed value before the int64 truncation *)
Lemma lor_ideal c node s : cfg_ok c -> node_ok c node -> wf s ->
  Z.lor (Z.lor (Z.shiftl (time s) (tshift c)) (Z.shiftl node (nshift c))) (Z.shiftl (step s) (sshift c)) = id_ideal c node s.
Proof.
  intros Hc Hn Hw. unfold id_ideal, low. unfold cfg_ok, node_ok, wf, stepMax in *.
  destruct (lowest c) eqn:El.
  - destruct (shifts_low c El) as (-> & -> & ->). rewrite Z.shiftl_0_r.
    rewrite <- Z.lor_assoc, (Z.lor_comm node), Z.lor_assoc.
    replace (nb c + 12) with (12 + nb c) by lia.
    apply three_fields; try lia; change (2 ^ 12) with 4096; lia.
  - destruct (shifts_std c El) as (-> & -> & ->). rewrite Z.shiftl_0_r.
    rewrite (three_fields (time s) node (step s) (nb c) 12); try lia; change (2 ^ 12) with 4096; lia.
Qed.

(* the representable range: time below 2^(63 - timeShift) *)
Definition time_ok (c : cfg) (s : st) : Prop := 0 <= time s < 2 ^ (51 - nb c).

Lemma ideal_range c node s : cfg_ok c -> node_ok c node -> wf s -> time_ok c s ->
  0 <= id_ideal c node s < 9223372036854775808.
Proof.
  intros Hc Hn Hw Ht. pose proof (low_bound c node s Hc Hn Hw) as Hl. unfold id_ideal, time_ok, cfg_ok in *.
  assert (Hp : 0 < 2 ^ (nb c + 12)) by (apply Z.pow_pos_nonneg; lia).
  assert (E : 2 ^ (51 - nb c) * 2 ^ (nb c + 12) = 9223372036854775808).
  { rewrite <- Z.pow_add_r by lia. replace (51 - nb c + (nb c + 12)) with 63 by lia. reflexivity. }
  nia.
Qed.

Theorem id_x_ideal c node s : cfg_ok c -> node_ok c node -> wf s -> time_ok c s -> id_x c node s = id_ideal c node s.
Proof.
  intros Hc Hn Hw Ht. unfold id_x. rewrite (lor_ideal c node s Hc Hn Hw).
  apply wrap64_small. pose proof (ideal_range c node s Hc Hn Hw Ht). lia.
Qed.

(* IDFields of a composed id gives back time, node and step *)
Theorem fields_of_ideal c node s : cfg_ok c -> node_ok c node -> wf s ->
  id_fields c (id_ideal c node s) = (time s, node, step s).
Proof.
  intros Hc Hn Hw. unfold id_fields, id_ideal, low. unfold cfg_ok, node_ok, wf, stepMax in *.
  assert (Hs12 : 0 <= step s < 2 ^ 12) by (change (2 ^ 12) with 4096; lia).
  destruct (lowest c) eqn:El.
  - destruct (shifts_low c El) as (-> & -> & ->). rewrite Z.shiftr_0_r.
    replace (nb c + 12) with (12 + nb c) by lia.
    destruct (read3 (time s) node (step s) (nb c) 12) as (H1 & H2 & H3); try lia.
    cbv zeta in H1, H2, H3. change (2 ^ 12 - 1) with 4095 in H2. now rewrite H1, H2, H3.
  - destruct (shifts_std c El) as (-> & -> & ->). rewrite Z.shiftr_0_r.
    destruct (read3 (time s) (step s) node 12 (nb c)) as (H1 & H2 & H3); try lia.
    cbv zeta in H1, H2, H3. change (2 ^ 12 - 1) with 4095 in H3. change (2 ^ 12) with 4096 in *.
    now rewrite H1, H2, H3.
Qed.

(* every non-negative int64 is the composition of its own IDFields (used for the restart clause) *)
Theorem fields_compose c id : cfg_ok c -> 0 <= id ->
  let f := id_fields c id in
  id = id_ideal c (f_node f) {| time := f_time f; step := f_step f |}
  /\ node_ok c (f_node f) /\ wf {| time := f_time f; step := f_step f |} /\ 0 <= f_time f.
Proof.
  intros Hc Hid. unfold id_fields, id_ideal, low, node_ok, wf, f_node, f_time, f_step. cbn [fst snd time step].
  unfold cfg_ok, stepMax in *.
  destruct (lowest c) eqn:El.
  - destruct (shifts_low c El) as (-> & -> & ->). rewrite Z.shiftr_0_r.
    destruct (decode3 id (nb c) 12) as (H1 & H2 & H3 & H4); try lia.
    cbv zeta in H1, H2, H3, H4. change (2 ^ 12 - 1) with 4095 in *. change (2 ^ 12) with 4096 in *.
    replace (nb c + 12) with (12 + nb c) by lia.
    split; [exact H1|]. split; [lia|]. split; [lia|lia].
  - destruct (shifts_std c El) as (-> & -> & ->). rewrite Z.shiftr_0_r.
    destruct (decode3 id 12 (nb c)) as (H1 & H2 & H3 & H4); try lia.
    cbv zeta in H1, H2, H3, H4. change (2 ^ 12 - 1) with 4095 in *. change (2 ^ 12) with 4096 in *.
    split; [exact H1|]. split; [lia|]. split; [lia|lia].
Qed.

(* for a fixed node the id order is the (time, step) order, in both layouts *)
Theorem ideal_order c node s1 s2 : cfg_ok c -> node_ok c node -> wf s1 -> wf s2 ->
  (id_ideal c node s1 < id_ideal c node s2 <-> key s1 < key s2).
Proof.
  intros Hc Hn H1 H2. unfold id_ideal.
  rewrite (compose_order (time s1) _ (time s2) _ (nb c + 12) ltac:(unfold cfg_ok in Hc; lia)
             (low_bound c node s1 Hc Hn H1) (low_bound c node s2 Hc Hn H2)).
  pose proof (pow_pos_nb c Hc) as Hp.
  unfold low, key, wf, stepMax, node_ok in *. destruct (lowest c); nia.
Qed.

(* key below 2^(63 - nb) is the representable range in terms of the key *)
Lemma key_time_ok c s : cfg_ok c -> wf s -> 0 <= time s -> key s < 2 ^ (63 - nb c) -> time_ok c s.
Proof.
  intros Hc Hw H0 Hk. unfold time_ok, key, wf, stepMax, cfg_ok in *.
  replace (63 - nb c) with (51 - nb c + 12) in Hk by lia. rewrite Z.pow_add_r in Hk by lia.
  change (2 ^ 12) with 4096 in Hk.
  assert (0 < 2 ^ (51 - nb c)) by (apply Z.pow_pos_nonneg; lia). nia.
Qed.

(* one exact step is the ideal step when nothing wraps *)
Lemma hard_generate_ideal c s clk :
  -9223372036854775808 <= clk - epoch c < 9223372036854775808 ->
  -9223372036854775808 <= time s + 1 < 9223372036854775808 ->
  hard_generate c s clk = generate s (clk - epoch c).
Proof.
  intros H1 H2. unfold hard_generate, generate. rewrite (wrap64_small _ H1), (wrap64_small _ H2). reflexivity.
Qed.

(* every configuration reachable through Setup has one of the three node widths *)
Definition width_ok (c : cfg) : Prop := nb c = 8 \/ nb c = 9 \/ nb c = 10.
Lemma width_cfg_ok c : width_ok c -> cfg_ok c.
Proof. unfold width_ok, cfg_ok. lia. Qed.
Theorem setup_width_ok opts : forall c, width_ok c -> width_ok (setup c opts).
Proof.
  unfold setup. induction opts as [|o r IH]; intros c H; cbn [fold_left]; [exact H|]. apply IH.
  destruct o as [ms|m|]; unfold width_ok in *; cbn [apply_opt nb]; auto.
  destruct (m =? 8) eqn:E8; [apply Z.eqb_eq in E8; cbn; lia|].
  destruct (m =? 9) eqn:E9; [apply Z.eqb_eq in E9; cbn; lia|]. cbn. lia.
Qed.
