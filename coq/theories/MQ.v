(* C12: the two-level queue mq.MQ (control messages before requests), sequential histories *)
From Coq Require Import List Bool Arith Lia Sorting.Permutation.
Import ListNotations.

Record mq := { ctrl : list nat; req : list nat; closed : bool; cleared : bool; cmax : nat; rmax : nat }.   (* 0 = unbounded *)
Inductive res := Done | Item (x : nat) | ErrClosed | ErrFull | WouldBlock | Flag (b : bool).
Inductive op := AddCtrl (x : nat) | AddReq (x : nat) | Pop | PopAnyway | Close | TryClose | TryClear.

Definition full (m len : nat) : bool := Nat.ltb 0 m && Nat.leb m len.
Definition set_lists (s : mq) (c r : list nat) : mq := {| ctrl := c; req := r; closed := closed s; cleared := cleared s; cmax := cmax s; rmax := rmax s |}.
Definition pop_front (s : mq) : mq * res :=
  match ctrl s, req s with
  | x :: c, _ => (set_lists s c (req s), Item x)            (* firstly the control list *)
  | [], x :: r => (set_lists s [] r, Item x)
  | [], [] => (s, if closed s then ErrClosed else WouldBlock)
  end.
Definition step (s : mq) (o : op) : mq * res :=
  match o with
  | AddCtrl x => if closed s then (s, ErrClosed) else if full (cmax s) (length (ctrl s)) then (s, ErrFull) else (set_lists s (ctrl s ++ [x]) (req s), Done)
  | AddReq x => if closed s then (s, ErrClosed) else if full (rmax s) (length (req s)) then (s, ErrFull) else (set_lists s (ctrl s) (req s ++ [x]), Done)
  | Pop => match ctrl s, req s with
           | [], [] => (s, if closed s then ErrClosed else WouldBlock)
           | _, _ => if closed s then (s, ErrClosed) else pop_front s
           end
  | PopAnyway => pop_front s
  | Close => ({| ctrl := ctrl s; req := req s; closed := true; cleared := cleared s; cmax := cmax s; rmax := rmax s |}, Done)
  | TryClose =>
      if closed s then (s, Flag true)
      else match ctrl s, req s with
           | [], [] => ({| ctrl := []; req := []; closed := true; cleared := cleared s; cmax := cmax s; rmax := rmax s |}, Flag true)
           | _, _ => (s, Flag false)
           end
  | TryClear =>
      if cleared s then (s, Flag true)
      else if closed s
           then match ctrl s, req s with
                | [], [] => ({| ctrl := []; req := []; closed := true; cleared := true; cmax := cmax s; rmax := rmax s |}, Flag true)
                | _, _ => (s, Flag false)
                end
           else (s, Flag false)
  end.

(* control before request: whenever a control message is queued, the next item handed out is the oldest control message *)
Theorem ctrl_first s x c : ctrl s = x :: c -> snd (step s PopAnyway) = Item x /\ (closed s = false -> snd (step s Pop) = Item x).
Proof. intros E. cbn [step]. unfold pop_front. rewrite E. split; [reflexivity|]. intros Hc. rewrite Hc. reflexivity. Qed.
Theorem req_when_no_ctrl s x r : ctrl s = [] -> req s = x :: r -> snd (step s PopAnyway) = Item x.
Proof. intros E1 E2. cbn [step]. unfold pop_front. rewrite E1, E2. reflexivity. Qed.

(* try-close succeeds exactly when the queue is empty (an already closed queue reports closed and is left alone) *)
Theorem tryclose_spec s : closed s = false ->
  (snd (step s TryClose) = Flag true <-> (ctrl s = [] /\ req s = [])) /\
  (snd (step s TryClose) = Flag false -> fst (step s TryClose) = s).
Proof.
  intros Hc. cbn [step]. rewrite Hc. destruct (ctrl s) as [|x c]; destruct (req s) as [|y r]; cbn [fst snd].
  - split; [split; [intros _; auto|intros _; reflexivity]|intros H; discriminate].
  - split; [split; [intros H; discriminate|intros [_ H]; discriminate]|intros _; reflexivity].
  - split; [split; [intros H; discriminate|intros [H _]; discriminate]|intros _; reflexivity].
  - split; [split; [intros H; discriminate|intros [H _]; discriminate]|intros _; reflexivity].
Qed.
Theorem tryclose_closed s : closed s = true -> step s TryClose = (s, Flag true).
Proof. intros Hc. cbn [step]. rewrite Hc. reflexivity. Qed.
(* try-clear succeeds exactly when the queue is closed and empty *)
Theorem tryclear_spec s : cleared s = false ->
  (snd (step s TryClear) = Flag true <-> (closed s = true /\ ctrl s = [] /\ req s = [])).
Proof.
  intros Hc. cbn [step]. rewrite Hc. destruct (closed s).
  - destruct (ctrl s) as [|x c]; destruct (req s) as [|y r]; cbn [snd].
    + split; [intros _; auto|intros _; reflexivity].
    + split; [intros H; discriminate|intros (_ & _ & H); discriminate].
    + split; [intros H; discriminate|intros (_ & H & _); discriminate].
    + split; [intros H; discriminate|intros (_ & H & _); discriminate].
  - cbn [snd]. split; [intros H; discriminate|intros (H & _); discriminate].
Qed.

(* after close: Pop fails even with items; PopAnyway hands out what remains and only then reports closed *)
Theorem pop_after_close s : closed s = true -> snd (step s Pop) = ErrClosed /\
  (ctrl s = [] -> req s = [] -> snd (step s PopAnyway) = ErrClosed).
Proof.
  intros Hc. split.
  - cbn [step]. destruct (ctrl s); destruct (req s); rewrite Hc; reflexivity.
  - intros E1 E2. cbn [step]. unfold pop_front. rewrite E1, E2, Hc. reflexivity.
Qed.

(* conservation over histories: handed out ++ both lists is a permutation of everything accepted *)
Record trace := { st : mq; acc : list nat; out : list nat }.
Definition tstep (t : trace) (o : op) : trace :=
  let '(s', r) := step (st t) o in
  {| st := s';
     acc := match o, r with AddCtrl x, Done | AddReq x, Done => acc t ++ [x] | _, _ => acc t end;
     out := match r with Item x => out t ++ [x] | _ => out t end |}.
Definition TI (t : trace) : Prop := Permutation (out t ++ ctrl (st t) ++ req (st t)) (acc t).

Theorem tstep_conserves t o : TI t -> TI (tstep t o).
Proof.
  unfold TI, tstep. intros H. destruct o as [x|x| | | | |]; cbn [step].
  - destruct (closed (st t)); [exact H|]. destruct (full (cmax (st t)) (length (ctrl (st t)))); [exact H|].
    cbn [st acc out ctrl req set_lists].
    apply Permutation_trans with (x :: out t ++ ctrl (st t) ++ req (st t)).
    + rewrite <- app_assoc. cbn [app]. apply Permutation_sym.
      apply Permutation_trans with (out t ++ x :: ctrl (st t) ++ req (st t)); [apply Permutation_middle|].
      apply Permutation_app_head. apply Permutation_middle.
    + apply Permutation_trans with (x :: acc t); [constructor; exact H|apply Permutation_cons_append].
  - destruct (closed (st t)); [exact H|]. destruct (full (rmax (st t)) (length (req (st t)))); [exact H|].
    cbn [st acc out ctrl req set_lists]. rewrite !app_assoc. apply Permutation_app_tail. rewrite <- app_assoc. exact H.
  - destruct (ctrl (st t)) as [|x c] eqn:Ec; destruct (req (st t)) as [|y r] eqn:Er.
    + destruct (closed (st t)); cbn [st acc out]; rewrite Ec, Er; exact H.
    + destruct (closed (st t)); [cbn [st acc out]; rewrite Ec, Er; exact H|]. unfold pop_front. rewrite Ec, Er. cbn [st acc out ctrl req set_lists app].
      rewrite <- app_assoc. exact H.
    + destruct (closed (st t)); [cbn [st acc out]; rewrite Ec, Er; exact H|]. unfold pop_front. rewrite Ec. cbn [st acc out ctrl req set_lists app].
      rewrite Er. rewrite <- app_assoc. exact H.
    + destruct (closed (st t)); [cbn [st acc out]; rewrite Ec, Er; exact H|]. unfold pop_front. rewrite Ec. cbn [st acc out ctrl req set_lists app].
      rewrite Er. rewrite <- app_assoc. exact H.
  - unfold pop_front. destruct (ctrl (st t)) as [|x c] eqn:Ec; destruct (req (st t)) as [|y r] eqn:Er; cbn [st acc out ctrl req set_lists app].
    + rewrite Ec, Er. destruct (closed (st t)); exact H.
    + rewrite <- app_assoc. exact H.
    + rewrite ?Er. rewrite <- app_assoc. exact H.
    + rewrite ?Er. rewrite <- app_assoc. exact H.
  - cbn [st acc out ctrl req]. exact H.
  - destruct (closed (st t)); [exact H|]. destruct (ctrl (st t)) as [|x c] eqn:Ec; destruct (req (st t)) as [|y r] eqn:Er; cbn [st acc out ctrl req]; try (rewrite Ec, Er); exact H.
  - destruct (cleared (st t)); [exact H|]. destruct (closed (st t)); [|exact H].
    destruct (ctrl (st t)) as [|x c] eqn:Ec; destruct (req (st t)) as [|y r] eqn:Er; cbn [st acc out ctrl req]; try (rewrite Ec, Er); exact H.
Qed.

Theorem mq_conservation cm rm ops :
  TI (fold_left tstep ops {| st := {| ctrl := []; req := []; closed := false; cleared := false; cmax := cm; rmax := rm |}; acc := []; out := [] |}).
Proof.
  assert (G : forall ops t, TI t -> TI (fold_left tstep ops t)).
  { induction ops0 as [|o ops0 IH]; intros t Ht; [exact Ht|]. cbn [fold_left]. apply IH, tstep_conserves, Ht. }
  apply G. unfold TI; cbn. constructor.
Qed.

Print Assumptions mq_conservation.
Print Assumptions tryclose_spec.
