(* C03: executable model of ds/tree/btree (google/btree copy + AscendGreater/DescendLess) and of the locked
   wrapper ds/tree.BTree, on items = (key, payload) ordered by key.  No proofs in this file.
   The write paths (find / split / maybeSplitChild / insert / growChildAndRemove / remove / root split / root
   collapse / length) are BTmodel.v with the payload carried along (C03_Erase.v proves that erasing the payloads
   gives exactly BTmodel's functions); the two scan directions are BTI.v / BTDs.v with the payload carried along
   and the `stop` bound added. *)
From Coq Require Import ZArith List Bool.
Import ListNotations.
Open Scope Z_scope.

Definition item := (Z * Z)%type.                 (* key, payload; Less compares keys only *)
Definition key (x : item) : Z := fst x.
Definition ditem : item := (0, 0).
Definition klt (x y : item) : Prop := key x < key y.   (* the order of the items: by key *)
Definition kgt (x y : item) : Prop := key y < key x.

Inductive inode := INode (items : list item) (children : list inode).
Definition iitems n := match n with INode i _ => i end.
Definition ichildren n := match n with INode _ c => c end.
Definition dinode := INode [] [].

Inductive irm := IRmItem (k : Z) | IRmMin | IRmMax.

(* items.find: index of the first item not below k, found = that item has key k *)
Fixpoint ifind_ix (l : list item) (k : Z) (i : nat) : (nat * bool)%type :=
  match l with
  | [] => (i, false)
  | x :: r => if k <? key x then (i, false) else if k =? key x then (i, true) else ifind_ix r k (S i)
  end.
Definition ifind l k := ifind_ix l k 0.

Definition insert_at {A} (l : list A) (i : nat) (x : A) := firstn i l ++ x :: skipn i l.
Definition set_at {A} (l : list A) (i : nat) (x : A) := firstn i l ++ x :: skipn (S i) l.
Definition remove_at {A} (l : list A) (i : nat) := firstn i l ++ skipn (S i) l.
Definition nth_inode (l : list inode) i := nth i l dinode.
Definition is_nil {A} (l : list A) := match l with [] => true | _ => false end.

(* node.split(i) *)
Definition isplit (n : inode) (i : nat) : (item * inode * inode)%type :=
  let its := iitems n in let ch := ichildren n in
  (nth i its ditem,
   INode (firstn i its) (if is_nil ch then [] else firstn (S i) ch),
   INode (skipn (S i) its) (if is_nil ch then [] else skipn (S i) ch)).

(* node.insert with maybeSplitChild; the second component is the replaced item (nil = None) *)
Fixpoint iinsert (fuel : nat) (maxI : nat) (n : inode) (it : item) : option (inode * option item)%type :=
  match fuel with O => None | S f =>
  let its := iitems n in let ch := ichildren n in
  let k := key it in
  let '(i, found) := ifind its k in
  if found then Some (INode (set_at its i it) ch, Some (nth i its ditem)) else
  if is_nil ch then Some (INode (insert_at its i it) [], None) else
    let c := nth_inode ch i in
    if Nat.ltb (length (iitems c)) maxI then
      match iinsert f maxI c it with Some (c', r) => Some (INode its (set_at ch i c'), r) | None => None end
    else
      let '(mid, c1, c2) := isplit c (Nat.div maxI 2) in
      let its' := insert_at its i mid in
      let ch' := insert_at (set_at ch i c1) (S i) c2 in
      if k <? key mid then
        match iinsert f maxI c1 it with Some (c', r) => Some (INode its' (set_at ch' i c'), r) | None => None end
      else if key mid <? k then
        match iinsert f maxI c2 it with Some (c', r) => Some (INode its' (set_at ch' (S i) c'), r) | None => None end
      else Some (INode (set_at its' i it) ch', Some mid)
  end.

Definition IFUEL := 64%nat.

(* a tree handle's value: root (nil = None) and the length field *)
Record itree := { iroot : option inode; ilen : Z }.
Definition iempty : itree := {| iroot := None; ilen := 0 |}.

(* ReplaceOrInsert; None = the model ran out of fuel (never, below 2^31 items) *)
Definition itree_insert (deg : nat) (t : itree) (it : item) : option (itree * option item) :=
  let maxI := (2 * deg - 1)%nat in
  match iroot t with
  | None => Some ({| iroot := Some (INode [it] []); ilen := ilen t + 1 |}, None)
  | Some r =>
    let r' := if Nat.leb maxI (length (iitems r))
              then let '(mid, a, b) := isplit r (Nat.div maxI 2) in INode [mid] [a; b] else r in
    match iinsert IFUEL maxI r' it with
    | Some (r2, out) => Some ({| iroot := Some r2; ilen := match out with None => ilen t + 1 | Some _ => ilen t end |}, out)
    | None => None
    end
  end.

(* growChildAndRemove's restructuring of node n around child i *)
Definition igrow (minI : nat) (n : inode) (i : nat) : inode :=
  let its := iitems n in let ch := ichildren n in
  let child := nth_inode ch i in
  if (Nat.ltb 0 i) && (Nat.ltb minI (length (iitems (nth_inode ch (i - 1))))) then
    let left := nth_inode ch (i - 1) in
    let stolen := last (iitems left) ditem in
    let left' := INode (removelast (iitems left)) (removelast (ichildren left)) in
    let child' := INode (nth (i - 1) its ditem :: iitems child)
                       (if is_nil (ichildren left) then ichildren child
                        else last (ichildren left) dinode :: ichildren child) in
    INode (set_at its (i - 1) stolen) (set_at (set_at ch (i - 1) left') i child')
  else if (Nat.ltb i (length its)) && (Nat.ltb minI (length (iitems (nth_inode ch (S i))))) then
    let right := nth_inode ch (S i) in
    let stolen := hd ditem (iitems right) in
    let right' := INode (tl (iitems right)) (tl (ichildren right)) in
    let child' := INode (iitems child ++ [nth i its ditem])
                       (if is_nil (ichildren right) then ichildren child
                        else ichildren child ++ [hd dinode (ichildren right)]) in
    INode (set_at its i stolen) (set_at (set_at ch i child') (S i) right')
  else
    let i' := if Nat.leb (length its) i then (i - 1)%nat else i in
    let c := nth_inode ch i' in
    let m := nth_inode ch (S i') in
    let c' := INode (iitems c ++ nth i' its ditem :: iitems m) (ichildren c ++ ichildren m) in
    INode (remove_at its i') (remove_at (set_at ch i' c') (S i')).

(* node.remove *)
Fixpoint iremove (fuel : nat) (minI : nat) (n : inode) (t : irm) : option (inode * option item)%type :=
  match fuel with O => None | S f =>
  let its := iitems n in let ch := ichildren n in
  let leaf := is_nil ch in
  let '(i, found, leafres) :=
    match t with
    | IRmMax => (length its, false, Some (INode (removelast its) [], Some (last its ditem)))
    | IRmMin => (O, false, Some (INode (tl its) [], Some (hd ditem its)))
    | IRmItem k => let '(i, found) := ifind its k in
                  (i, found, if found then Some (INode (remove_at its i) [], Some (nth i its ditem)) else Some (n, None))
    end in
  if leaf then leafres else
  let c := nth_inode ch i in
  if Nat.leb (length (iitems c)) minI then iremove f minI (igrow minI n i) t else
  if found then
    match iremove f minI c IRmMax with
    | Some (c', Some m) => Some (INode (set_at its i m) (set_at ch i c'), Some (nth i its ditem))
    | _ => None
    end
  else
    match iremove f minI c t with
    | Some (c', out) => Some (INode its (set_at ch i c'), out)
    | None => None
    end
  end.

(* deleteItem: Delete / DeleteMin / DeleteMax *)
Definition itree_delete (deg : nat) (t : itree) (r : irm) : option (itree * option item) :=
  match iroot t with
  | None => Some (t, None)
  | Some rt =>
    if is_nil (iitems rt) then Some (t, None) else
    match iremove IFUEL (deg - 1) rt r with
    | Some (r', out) =>
        let r2 := if is_nil (iitems r') && negb (is_nil (ichildren r')) then hd dinode (ichildren r') else r' in
        Some ({| iroot := Some r2; ilen := match out with Some _ => ilen t - 1 | None => ilen t end |}, out)
    | None => None
    end
  end.

(* ---------------- reads ---------------- *)
Fixpoint iget (f : nat) (n : inode) (k : Z) : option item :=
  match f with O => None | S f' =>
    let '(i, found) := ifind (iitems n) k in
    if found then Some (nth i (iitems n) ditem)
    else if is_nil (ichildren n) then None else iget f' (nth_inode (ichildren n) i) k
  end.
Fixpoint imin (f : nat) (n : inode) : option item :=
  match f with O => None | S f' =>
    match ichildren n with c :: _ => imin f' c | [] => hd_error (iitems n) end
  end.
Definition last_error {A} (l : list A) : option A := match l with [] => None | x :: r => Some (last r x) end.
Fixpoint imax (f : nat) (n : inode) : option item :=
  match f with O => None | S f' =>
    match ichildren n with [] => last_error (iitems n) | c :: r => imax f' (last r c) end
  end.
Definition itree_get (t : itree) (k : Z) : option item := match iroot t with None => None | Some r => iget IFUEL r k end.
Definition itree_min (t : itree) : option item := match iroot t with None => None | Some r => imin IFUEL r end.
Definition itree_max (t : itree) : option item := match iroot t with None => None | Some r => imax IFUEL r end.

(* ---------------- node.iterate ---------------- *)
Definition hd_rec {B} (F : inode -> B) (d : B) (ch : list inode) : B :=
  match ch with c :: _ => F c | [] => d end.

Section Iter.
Variable A : Type.
Variable visit : A -> item -> A * bool.     (* the ItemIterator: new accumulator, continue? *)
Variable start : option Z.
Variable stop : option Z.
Variable incl : bool.                       (* includeStart *)

(* ascending *)
Definition lt_s (x : item) : bool := match start with Some s => key x <? s | None => false end.
Definition le_s (x : item) : bool := match start with Some s => key x <=? s | None => false end.   (* start != nil && !start.Less(x) *)
Definition skipb (hit : bool) (x : item) : bool := negb incl && negb hit && le_s x.
(* stop != nil && !items[i].Less(stop) { return hit, false }; if !iter(items[i]) { return hit, false } *)
Definition svisit_a (a : A) (x : item) : A * bool :=
  match stop with Some s => if key x <? s then visit a x else (a, false) | None => visit a x end.

Definition rec_t := inode -> bool -> A -> A * bool * bool.

Fixpoint aloop (rc : rec_t) (its : list item) (ch : list inode) (hit : bool) (a : A) : A * bool * bool :=
  match its with
  | [] => hd_rec (fun c => rc c hit a) (a, hit, true) ch
  | x :: its' =>
     let '(a1, hit1, ok1) := hd_rec (fun c => rc c hit a) (a, hit, true) ch in
     if negb ok1 then (a1, hit1, false) else
     if skipb hit1 x then aloop rc its' (tl ch) true a1 else
     let '(a2, cont) := svisit_a a1 x in
     if cont then aloop rc its' (tl ch) true a2 else (a2, true, false)
  end.
(* index, _ = n.items.find(start): the items below start are passed over, and as many children *)
Fixpoint drop_lt (its : list item) (ch : list inode) : list item * list inode :=
  match its with
  | x :: r => if lt_s x then drop_lt r (tl ch) else (its, ch)
  | [] => ([], ch)
  end.
Fixpoint asc (f : nat) (n : inode) (hit : bool) (a : A) : A * bool * bool :=
  match f with O => (a, hit, false) | S f' =>
    let '(its, ch) := drop_lt (iitems n) (ichildren n) in
    aloop (asc f') its ch hit a
  end.

(* descending: on the reversed item and child lists *)
Definition gt_s (x : item) : bool := match start with Some s => s <? key x | None => false end.     (* start.Less(x) *)
Definition ge_s (x : item) : bool := match start with Some s => s <=? key x | None => false end.    (* start != nil && !x.Less(start) *)
Definition skipd (hit : bool) (x : item) : bool := ge_s x && (negb incl || hit || gt_s x).
(* stop != nil && !stop.Less(items[i]) { return hit, false }; hit = true; if !iter(items[i]) { return hit, false } *)
Definition svisit_d (a : A) (x : item) : A * bool :=
  match stop with Some s => if s <? key x then visit a x else (a, false) | None => visit a x end.

Fixpoint dloop (rc : rec_t) (its : list item) (ch : list inode) (hit : bool) (a : A) : A * bool * bool :=
  match its with
  | [] => hd_rec (fun c => rc c hit a) (a, hit, true) ch
  | x :: its' =>
     if skipd hit x then dloop rc its' (tl ch) hit a else
     let '(a1, hit1, ok1) := hd_rec (fun c => rc c hit a) (a, hit, true) ch in
     if negb ok1 then (a1, hit1, false) else
     let '(a2, cont) := svisit_d a1 x in
     if cont then dloop rc its' (tl ch) true a2 else (a2, true, false)
  end.
Fixpoint ddrop (its : list item) (ch : list inode) : list item * list inode :=
  match its with
  | x :: r => if gt_s x then ddrop r (tl ch) else (its, ch)
  | [] => ([], ch)
  end.
Fixpoint desc (f : nat) (n : inode) (hit : bool) (a : A) : A * bool * bool :=
  match f with O => (a, hit, false) | S f' =>
    let '(its, ch) := ddrop (rev (iitems n)) (rev (ichildren n)) in
    dloop (desc f') its ch hit a
  end.
End Iter.

(* the ten scan entry points of the inner tree *)
Inductive entry := EAscend | EAscendRange | EAscendLessThan | EAscendGreaterOrEqual | EAscendGreater
                 | EDescend | EDescendRange | EDescendLessOrEqual | EDescendGreaterThan | EDescendLess.

Definition scan_acc {A} (r : A * bool * bool) : A := fst (fst r).

(* p = the pivot (first argument), q = the second bound of the two Range entry points *)
Definition itree_scan {A} (visit : A -> item -> A * bool) (e : entry) (p q : Z) (t : itree) (a : A) : A :=
  match iroot t with
  | None => a
  | Some r =>
    match e with
    | EAscend               => scan_acc (asc A visit None None false IFUEL r false a)
    | EAscendRange          => scan_acc (asc A visit (Some p) (Some q) true IFUEL r false a)
    | EAscendLessThan       => scan_acc (asc A visit None (Some p) false IFUEL r false a)
    | EAscendGreaterOrEqual => scan_acc (asc A visit (Some p) None true IFUEL r false a)
    | EAscendGreater        => scan_acc (asc A visit (Some p) None false IFUEL r false a)
    | EDescend              => scan_acc (desc A visit None None false IFUEL r false a)
    | EDescendRange         => scan_acc (desc A visit (Some p) (Some q) true IFUEL r false a)
    | EDescendLessOrEqual   => scan_acc (desc A visit (Some p) None true IFUEL r false a)
    | EDescendGreaterThan   => scan_acc (desc A visit None (Some p) false IFUEL r false a)
    | EDescendLess          => scan_acc (desc A visit (Some p) None false IFUEL r false a)
    end
  end.

(* the harness's collecting callback: append, continue while fewer than m items have been collected (m <= 0: never stop) *)
Definition collect_visit (m : Z) (acc : list item) (x : item) : list item * bool :=
  (acc ++ [x], (m <=? 0) || (Z.of_nat (length acc) + 1 <? m)).

(* ---------------- the wrapper ds/tree.BTree (degree 2) ---------------- *)
Inductive filt := FAll | FNone | FKeyMod (m r : Z) | FPayMod (m r : Z).
Definition filt_fn (f : filt) (x : item) : bool :=
  match f with
  | FAll => true
  | FNone => false
  | FKeyMod m r => Z.modulo (fst x) m =? r
  | FPayMod m r => Z.modulo (snd x) m =? r
  end.

Inductive wscan := WAscendGte | WAscendGt | WDescendLte | WDescendLt.
Definition wentry (w : wscan) : entry :=
  match w with WAscendGte => EAscendGreaterOrEqual | WAscendGt => EAscendGreater
             | WDescendLte => EDescendLessOrEqual | WDescendLt => EDescendLess end.

(* fn := func(v) bool { if c >= n { return false }; if filter(v) { ns = append(ns, v); c++ }; return true } *)
Definition walk_visit (n : Z) (flt : item -> bool) (acc : list item) (x : item) : list item * bool :=
  if n <=? Z.of_nat (length acc) then (acc, false) else ((if flt x then acc ++ [x] else acc), true).

(* iterWalk: None = panic (make with a negative capacity) *)
Definition iter_walk (t : itree) (w : wscan) (k : Z) (flt : filt) (n : Z) : option (list item) :=
  if n =? 0 then Some [] else
  if n <? 0 then None else
  Some (itree_scan (walk_visit n (filt_fn flt)) (wentry w) k 0 t []).

Definition WDEG := 2%nat.
(* Update: e = Delete(old); if e == nil return false; ReplaceOrInsert(new); return true *)
Definition w_update (t : itree) (old new : item) : option (itree * bool) :=
  match itree_delete WDEG t (IRmItem (key old)) with
  | Some (t1, None) => Some (t1, false)
  | Some (t1, Some _) => match itree_insert WDEG t1 new with Some (t2, _) => Some (t2, true) | None => None end
  | None => None
  end.
(* UpdateOrInsert: e = Delete(old); ReplaceOrInsert(new); return e != nil *)
Definition w_update_or_insert (t : itree) (old new : item) : option (itree * bool) :=
  match itree_delete WDEG t (IRmItem (key old)) with
  | Some (t1, e) => match itree_insert WDEG t1 new with
                    | Some (t2, _) => Some (t2, match e with Some _ => true | None => false end)
                    | None => None end
  | None => None
  end.

(* ---------------- the in-order list ---------------- *)
Fixpoint inter (F : inode -> list item) (its : list item) (ch : list inode) : list item :=
  match its with
  | [] => hd_rec F [] ch
  | x :: its' => hd_rec F [] ch ++ x :: inter F its' (tl ch)
  end.
Fixpoint iflat (f : nat) (n : inode) : list item :=
  match f with O => [] | S f' => inter (iflat f') (iitems n) (ichildren n) end.
Definition itree_list (t : itree) : list item := match iroot t with None => [] | Some r => iflat IFUEL r end.
