(* helpers shared by the case files the driver writes *)
From Coq Require Import List Bool ZArith.
Import ListNotations.

Definition idx_filter {A} (p : A -> bool) (l : list A) : list nat :=
  map fst (filter (fun x => p (snd x)) (combine (seq 0 (length l)) l)).

Fixpoint list_eqb {A} (e : A -> A -> bool) (x y : list A) : bool :=
  match x, y with
  | [], [] => true
  | a :: x', b :: y' => e a b && list_eqb e x' y'
  | _, _ => false
  end.

Lemma list_eqb_eq {A} (e : A -> A -> bool) (He : forall a b, e a b = true -> a = b) x y :
  list_eqb e x y = true -> x = y.
Proof.
  revert y; induction x as [|a x IH]; destruct y as [|b y]; cbn; try discriminate; auto.
  intros H. apply andb_prop in H as [H1 H2]. f_equal; auto.
Qed.

Lemma list_eqb_refl {A} (e : A -> A -> bool) (He : forall a, e a a = true) x : list_eqb e x x = true.
Proof. induction x as [|a x IH]; cbn; auto. now rewrite He, IH. Qed.

Definition opt_eqb {A} (e : A -> A -> bool) (x y : option A) : bool :=
  match x, y with Some a, Some b => e a b | None, None => true | _, _ => false end.

Lemma opt_eqb_eq {A} (e : A -> A -> bool) (He : forall a b, e a b = true -> a = b) x y :
  opt_eqb e x y = true -> x = y.
Proof. destruct x, y; cbn; try discriminate; auto. intros H. f_equal; auto. Qed.

Definition zlist_eqb := list_eqb Z.eqb.
Lemma zlist_eqb_eq x y : zlist_eqb x y = true -> x = y.
Proof. apply list_eqb_eq. intros a b H. now apply Z.eqb_eq. Qed.
