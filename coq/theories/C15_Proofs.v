(* C15: proofs about the worker model of C15_Model.v.

   The key device is [safe]: a predicate computed by recursion on a handler program that follows, for the
   operation's key, the three values  cv (cached) / sv (stored) / cm (stored after the last completed operation)
   through every call of the program and demands, at every point between two calls,
       cv = Some v  ->  sv = Some v  \/  cm = Some v
   and at the end  cv = Some v -> sv = Some v.  Every handler is safe from every coherent start (by computation),
   every micro-step preserves safety, hence both the big-step execution and the scheduled machine keep the cache
   coherent with the store under every fault pattern. *)
From Coq Require Import ZArith List Bool Lia.
Require Import C15_Model.
Import ListNotations.
Open Scope Z_scope.

(* ------------------------------------------------------------------ the cache facade *)
Lemma lookup_remove_same k (l : ents) : lookup k (remove k l) = None.
Proof.
  induction l as [|[k' v] l IH]; [reflexivity|]. cbn [remove].
  destruct (k' =? k) eqn:E; [exact IH|]. cbn [lookup]. rewrite E. exact IH.
Qed.
Lemma lookup_remove_other k k' (l : ents) : k' <> k -> lookup k' (remove k l) = lookup k' l.
Proof.
  intros Hne. induction l as [|[a v] l IH]; [reflexivity|]. cbn [remove lookup].
  destruct (a =? k) eqn:E.
  - apply Z.eqb_eq in E. subst a. replace (k =? k') with false by (symmetry; apply Z.eqb_neq; congruence). exact IH.
  - cbn [lookup]. rewrite IH. reflexivity.
Qed.
Lemma lookup_firstn k n (l : ents) v : lookup k (firstn n l) = Some v -> lookup k l = Some v.
Proof.
  revert l; induction n as [|n IH]; intros l H; [discriminate|].
  destruct l as [|[a w] l]; [discriminate|]. cbn [firstn lookup] in *.
  destruct (a =? k); [exact H | apply IH; exact H].
Qed.
Lemma lookup_fit k n (l : ents) v : lookup k (fit n l) = Some v -> lookup k l = Some v.
Proof.
  revert n; induction l as [|[a w] l IH]; intros n H; [discriminate|]. cbn [fit] in H.
  destruct (Nat.leb (vsize w) n); [|discriminate]. cbn [lookup] in *.
  destruct (a =? k); [exact H | eapply IH; exact H].
Qed.
Lemma lookup_trim k c (l : ents) v : lookup k (trim c l) = Some v -> lookup k l = Some v.
Proof. destruct c as [n|]; cbn [trim]; [apply lookup_fit | auto]. Qed.

(* a value bigger than the whole capacity does not stay cached: the write evicts everything, itself included *)
Lemma set_oversize c k v n : c_cap c = Some n -> (n < vsize v)%nat -> c_ents (c_set c k v) = [].
Proof.
  intros Hc Hn. unfold c_set. cbn [c_ents]. rewrite Hc. cbn [trim fit].
  destruct (Nat.leb (vsize v) n) eqn:E; [|reflexivity]. apply Nat.leb_le in E. lia.
Qed.
(* a value that fits is cached by the write *)
Lemma set_fits c k v n : c_cap c = Some n -> (vsize v <= n)%nat -> c_peek (c_set c k v) k = Some v.
Proof.
  intros Hc Hn. unfold c_peek, c_set. cbn [c_ents]. rewrite Hc. cbn [trim fit].
  apply Nat.leb_le in Hn. rewrite Hn. cbn [lookup]. rewrite Z.eqb_refl. reflexivity.
Qed.

(* Set: afterwards an entry is either the one just written or was there before *)
Lemma peek_set c k v k' v' : c_peek (c_set c k v) k' = Some v' -> (k' = k /\ v' = v) \/ (k' <> k /\ c_peek c k' = Some v').
Proof.
  unfold c_peek, c_set. cbn [c_ents]. intros H. apply lookup_trim in H. cbn [lookup] in H.
  destruct (k =? k') eqn:E.
  - apply Z.eqb_eq in E. left. split; congruence.
  - apply Z.eqb_neq in E. right. split; [congruence|]. rewrite lookup_remove_other in H by congruence. exact H.
Qed.
(* Delete: the key is gone, nothing new appears *)
Lemma peek_del_same c k : c_peek (c_del c k) k = None.
Proof. unfold c_peek, c_del. cbn [c_ents]. apply lookup_remove_same. Qed.
Lemma peek_del_other c k k' : k' <> k -> c_peek (c_del c k) k' = c_peek c k'.
Proof. intros H. unfold c_peek, c_del. cbn [c_ents]. apply lookup_remove_other. exact H. Qed.
(* Get: answers like Peek and changes no answer *)
Lemma get_result c k : snd (c_get c k) = c_peek c k.
Proof. unfold c_get, c_peek. destruct (lookup k (c_ents c)); reflexivity. Qed.
Lemma peek_get c k k' : c_peek (fst (c_get c k)) k' = c_peek c k'.
Proof.
  unfold c_get, c_peek. destruct (lookup k (c_ents c)) as [v|] eqn:E; cbn [fst c_ents]; [|reflexivity].
  cbn [lookup]. destruct (k =? k') eqn:Ek.
  - apply Z.eqb_eq in Ek. subst k'. symmetry. exact E.
  - apply Z.eqb_neq in Ek. apply lookup_remove_other. congruence.
Qed.
Lemma get_cap c k : c_cap (fst (c_get c k)) = c_cap c.
Proof. unfold c_get. destruct (lookup k (c_ents c)); reflexivity. Qed.

(* ------------------------------------------------------------------ the store callbacks *)
Lemma upd_same m k v : upd m k v k = v.
Proof. unfold upd. rewrite Z.eqb_refl. reflexivity. Qed.
Lemma upd_other m k v x : x <> k -> upd m k v x = m x.
Proof. intros H. unfold upd. replace (x =? k) with false by (symmetry; apply Z.eqb_neq; exact H). reflexivity. Qed.

(* what a value-returning callback does to the key it is about, seen from that key only *)
Inductive kstep (sv : val) : val -> sres -> Prop :=
  | ks_err e : e <> EDupKey -> kstep sv sv (SErr e)
  | ks_read v : sv = v -> kstep sv sv (SOk v)
  | ks_write v : kstep sv v (SOk v).

Lemma ferr_nodup f e : ferr f = Some e -> e <> EDupKey.
Proof. destruct f; cbn; intros H; inversion H; discriminate. Qed.

Lemma s_load_spec s f k : let '(s', r) := s_load s f k in s' = s /\ kstep (smap s k) (smap s' k) r.
Proof.
  unfold s_load. destruct (ferr f) eqn:Ef; [split; [reflexivity | constructor; eapply ferr_nodup; eauto]|].
  destruct (smap s k) eqn:E.
  - split; [reflexivity|]. rewrite E. apply ks_read. reflexivity.
  - destruct (is_fnil f); (split; [reflexivity|]); rewrite E; [apply ks_read; reflexivity | constructor; discriminate].
Qed.

Definition frame (k : Z) (s s' : store) : Prop := forall x, x <> k -> smap s' x = smap s x.

Lemma s_write_frame s k v : frame k s (s_write s k v).
Proof. intros x Hx. cbn. apply upd_other. exact Hx. Qed.
Lemma s_write_at s k v : smap (s_write s k v) k = Some v.
Proof. cbn. apply upd_same. Qed.
Lemma s_unrow_frame s k : frame k s (s_unrow s k).
Proof. intros x Hx. cbn. apply upd_other. exact Hx. Qed.
Lemma s_unrow_at s k : smap (s_unrow s k) k = None.
Proof. cbn. apply upd_same. Qed.
Lemma frame_refl k s : frame k s s.
Proof. intros x _. reflexivity. Qed.

Lemma s_add_spec s f k d : let '(s', r) := s_add s f k d in frame k s s' /\ kstep (smap s k) (smap s' k) r.
Proof.
  unfold s_add. destruct (ferr f) eqn:Ef; [split; [apply frame_refl | constructor; eapply ferr_nodup; eauto]|].
  destruct (smap s k) eqn:E.
  - split; [apply frame_refl | rewrite E; constructor; discriminate].
  - destruct (is_fnil f).
    + split; [apply frame_refl | rewrite E; apply ks_read; reflexivity].
    + split; [apply s_write_frame | rewrite s_write_at; constructor].
Qed.
(* an update is handed the store's current row (the handler's obligation, see [safe]): its answer is the stored row *)
Lemma s_upd_spec s f k d pre : smap s k = pre ->
  let '(s', r) := s_upd s f k d pre in frame k s s' /\ kstep (smap s k) (smap s' k) r.
Proof.
  intros Hpre. unfold s_upd. destruct (ferr f) eqn:Ef; [split; [apply frame_refl | constructor; eapply ferr_nodup; eauto]|].
  destruct (smap s k) eqn:E.
  - destruct (is_fnil f).
    + split; [apply s_unrow_frame | rewrite s_unrow_at; constructor].
    + split; [apply s_write_frame | rewrite s_write_at, <- Hpre; constructor].
  - split; [apply frame_refl | rewrite E; constructor; discriminate].
Qed.

(* an upsert may be handed nil although a row exists (cache miss): then its answer is not the stored row *)
Inductive ustep (pre sv : val) : val -> sres -> Prop :=
  | us_err e : e <> EDupKey -> ustep pre sv sv (SErr e)
  | us_ok sv' v : (pre = sv -> sv' = v) -> ustep pre sv sv' (SOk v).

Lemma s_upsert_spec s f k d pre : let '(s', r) := s_upsert s f k d pre in frame k s s' /\ ustep pre (smap s k) (smap s' k) r.
Proof.
  unfold s_upsert. destruct (ferr f) eqn:Ef; [split; [apply frame_refl | constructor; eapply ferr_nodup; eauto]|].
  destruct (is_fnil f).
  - split; [apply s_unrow_frame | rewrite s_unrow_at; constructor; reflexivity].
  - split; [apply s_write_frame | rewrite s_write_at; constructor; intros ->; reflexivity].
Qed.
Lemma s_delete_spec s f k : let '(s', r) := s_delete s f k in frame k s s' /\
  match r with Some _ => s' = s | None => smap s' k = None end.
Proof.
  unfold s_delete. destruct (ferr f); [split; [apply frame_refl | reflexivity]|].
  split; [apply s_unrow_frame | apply s_unrow_at].
Qed.

(* ------------------------------------------------------------------ safety of a handler program, followed at its key *)
Definition I3 (cv : option val) (sv cm : val) : Prop := forall v, cv = Some v -> sv = v \/ cm = v.

(* the existing value handed to an update / upsert callback *)
Definition pre_good (sv0 : val) (e : event) : Prop :=
  match e with
  | EvUpd _ _ pre _ => sv0 = pre
  | EvUpsert _ _ (Some pre) _ => sv0 = Some pre
  | _ => True
  end.

(* k: the operation's key; sv0: the store's value for k when the operation began; cm: its value after the last
   completed operation; touched: a store callback has been made; cv / sv: cached and stored value now *)
Fixpoint safe (k : Z) (sv0 cm : val) (p : prog) (touched : bool) (cv : option val) (sv : val) {struct p} : Prop :=
  I3 cv sv cm /\
  match p with
  | Done r => (forall v, cv = Some v -> sv = v)
              /\ (r = RErr EDupKey -> touched = false)
              /\ (r = RNil -> cv = None /\ sv = None)
              /\ r <> RPanic
  | PGet k' c => k' = k /\ safe k sv0 cm (c cv) touched cv sv
  | PPeek k' c => k' = k /\ safe k sv0 cm (c cv) touched cv sv
  | PSet k' v c => k' = k /\ forall cv', cv' = Some v \/ cv' = None -> safe k sv0 cm c touched cv' sv
  | PDel k' c => k' = k /\ safe k sv0 cm c touched None sv
  | PLoad k' c => k' = k /\ forall r, kstep sv sv r -> safe k sv0 cm (c r) true cv sv
  | PAdd k' d c => k' = k /\ forall sv' r, kstep sv sv' r -> safe k sv0 cm (c r) true cv sv'
  | PUpd k' d pre c => k' = k /\ sv = pre /\ sv0 = pre /\ forall sv' r, kstep sv sv' r -> safe k sv0 cm (c r) true cv sv'
  | PUpsert k' d pre c => k' = k /\ (forall x, pre = Some x -> sv = Some x /\ sv0 = Some x)
                          /\ forall sv' r, ustep pre sv sv' r -> safe k sv0 cm (c r) true cv sv'
  | PDelete k' c => k' = k /\ forall r, (match r with Some e => e <> EDupKey | None => True end) ->
                      safe k sv0 cm (c r) true cv (match r with Some _ => sv | None => None end)
  end.

Lemma safe_I3 k sv0 cm p t cv sv : safe k sv0 cm p t cv sv -> I3 cv sv cm.
Proof. destruct p; cbn [safe]; intros [H _]; exact H. Qed.

Lemma kstep_inv sv sv' r : kstep sv sv' r ->
  match r with SErr e => sv' = sv /\ e <> EDupKey | SOk v => sv' = v end.
Proof. intros H. destruct H; auto. Qed.

Ltac leaf := intros; subst; try discriminate; try congruence; try (left; congruence); try (right; congruence); auto.
Ltac go := cbn [safe finish fail_or]; unfold I3;
  match goal with
  | |- _ /\ _ => split; go
  | |- forall _, _ => intro; go
  | H : _ \/ _ |- _ => destruct H; go
  | H : kstep _ _ ?r |- _ => apply kstep_inv in H; destruct r; [| destruct H]; go
  | H : ustep _ _ _ _ |- _ => destruct H as [? ?|? ? H]; [|try specialize (H eq_refl)]; go
  | |- context [is_nf ?e] => destruct (is_nf e); go
  | |- context [match ?r with Some _ => _ | None => _ end] => is_var r; destruct r; go
  | _ => leaf
  end.

(* every handler is safe from every coherent start *)
Theorem handler_safe o cv sv : (forall v, cv = Some v -> sv = v) ->
  safe (key_of o) sv sv (handler o) false cv sv.
Proof.
  intros Hc.
  destruct o as [k|k d|k d|k|k d|k d|k d]; cbn [handler key_of];
    (destruct cv as [pre|]; [assert (Hsv : sv = pre) by auto; subst sv|]); clear Hc; go.
Qed.

(* ------------------------------------------------------------------ one call preserves safety *)
Definition cview (s : wst) (k : Z) : option val := c_peek (wc s) k.
Definition sview (s : wst) (k : Z) : val := smap (wsr s) k.
(* nothing appears in the cache under another key *)
Definition cshrink (k : Z) (s s' : wst) : Prop := forall x v, x <> k -> cview s' x = Some v -> cview s x = Some v.

Definition touch (t : bool) (e : event) : bool := if is_store_ev e then true else t.

Lemma safe_mstep k sv0 cm p t s fs p' s' fs' e :
  safe k sv0 cm p t (cview s k) (sview s k) ->
  mstep p s fs = Some (p', s', fs', e) ->
  safe k sv0 cm p' (touch t e) (cview s' k) (sview s' k)
  /\ ev_key e = k /\ pre_good sv0 e
  /\ frame k (wsr s) (wsr s') /\ cshrink k s s' /\ c_cap (wc s') = c_cap (wc s).
Proof.
  unfold cview, sview, cshrink, cview. intros Hs Hm. destruct p; cbn [mstep] in Hm.
  - discriminate.
  - (* Get *) destruct Hs as (_ & -> & Hs). pose proof (get_result (wc s) k) as Hr. pose proof (peek_get (wc s) k) as Hp.
    pose proof (get_cap (wc s) k) as Hcap.
    destruct (c_get (wc s) k) as [c' r]. cbn [fst snd] in *. inversion Hm; subst; clear Hm. cbn [wc wsr touch is_store_ev ev_key pre_good].
    rewrite Hp. split; [exact Hs|]. split; [reflexivity|]. split; [exact I|]. split; [apply frame_refl|].
    split; [intros x v _ Hx; rewrite Hp in Hx; exact Hx | exact Hcap].
  - (* Peek *) destruct Hs as (_ & -> & Hs). inversion Hm; subst; clear Hm. cbn [touch is_store_ev ev_key pre_good].
    split; [exact Hs|]. split; [reflexivity|]. split; [exact I|]. split; [apply frame_refl|]. split; [intros x v _ Hx; exact Hx | reflexivity].
  - (* Set *) destruct Hs as (_ & -> & Hs). inversion Hm; subst; clear Hm. cbn [wc wsr touch is_store_ev ev_key pre_good].
    split.
    + apply Hs. destruct (c_peek (c_set (wc s) k v) k) as [w|] eqn:E; [|right; reflexivity].
      left. apply peek_set in E. destruct E as [[_ ->]|[Hne _]]; congruence.
    + split; [reflexivity|]. split; [exact I|]. split; [apply frame_refl|]. split; [|reflexivity].
      intros x w Hx Hw. apply peek_set in Hw. destruct Hw as [[-> _]|[_ Hw]]; [congruence | exact Hw].
  - (* Del *) destruct Hs as (_ & -> & Hs). inversion Hm; subst; clear Hm. cbn [wc wsr touch is_store_ev ev_key pre_good].
    rewrite peek_del_same. split; [exact Hs|]. split; [reflexivity|]. split; [exact I|]. split; [apply frame_refl|]. split; [|reflexivity].
    intros x w Hx Hw. rewrite peek_del_other in Hw by exact Hx. exact Hw.
  - (* Load *) destruct Hs as (_ & -> & Hs). destruct (nextf fs) as [f fs1].
    pose proof (s_load_spec (wsr s) f k) as Hl. destruct (s_load (wsr s) f k) as [st r]. destruct Hl as [-> Hk].
    inversion Hm; subst; clear Hm. cbn [wc wsr touch is_store_ev ev_key pre_good].
    split; [apply Hs; exact Hk|]. split; [reflexivity|]. split; [exact I|]. split; [apply frame_refl|]. split; [intros x v _ Hx; exact Hx | reflexivity].
  - (* Add *) destruct Hs as (_ & -> & Hs). destruct (nextf fs) as [f fs1].
    pose proof (s_add_spec (wsr s) f k d) as Hl. destruct (s_add (wsr s) f k d) as [st r]. destruct Hl as (Hf & Hk).
    inversion Hm; subst; clear Hm. cbn [wc wsr touch is_store_ev ev_key pre_good].
    split; [apply Hs; exact Hk|]. split; [reflexivity|]. split; [exact I|]. split; [exact Hf|]. split; [intros x v _ Hx; exact Hx | reflexivity].
  - (* Upd *) destruct Hs as (_ & -> & Hpre & Hpre0 & Hs). destruct (nextf fs) as [f fs1].
    pose proof (s_upd_spec (wsr s) f k d pre Hpre) as Hl. destruct (s_upd (wsr s) f k d pre) as [st r]. destruct Hl as (Hf & Hk).
    inversion Hm; subst; clear Hm. cbn [wc wsr touch is_store_ev ev_key pre_good].
    split; [apply Hs; exact Hk|]. split; [reflexivity|]. split; [first [exact Hpre0 | reflexivity]|]. split; [exact Hf|]. split; [intros x v _ Hx; exact Hx | reflexivity].
  - (* Upsert *) destruct Hs as (_ & -> & Hpre & Hs). destruct (nextf fs) as [f fs1].
    pose proof (s_upsert_spec (wsr s) f k d pre) as Hl. destruct (s_upsert (wsr s) f k d pre) as [st r]. destruct Hl as (Hf & Hk).
    inversion Hm; subst; clear Hm. cbn [wc wsr touch is_store_ev ev_key pre_good].
    split; [apply Hs; exact Hk|]. split; [reflexivity|].
    split; [destruct pre as [x|]; [apply (Hpre x); reflexivity | exact I]|].
    split; [exact Hf|]. split; [intros x v _ Hx; exact Hx | reflexivity].
  - (* Delete *) destruct Hs as (_ & -> & Hs). destruct (nextf fs) as [f fs1].
    pose proof (s_delete_spec (wsr s) f k) as Hl. unfold s_delete in *. destruct (ferr f) as [e0|] eqn:Ef.
    + destruct Hl as (Hf & _). inversion Hm; subst; clear Hm. cbn [wc wsr touch is_store_ev ev_key pre_good].
      split; [apply (Hs (Some e0)); eapply ferr_nodup; eauto|]. split; [reflexivity|]. split; [exact I|]. split; [exact Hf|].
      split; [intros x v _ Hx; exact Hx | reflexivity].
    + destruct Hl as (Hf & Hn). inversion Hm; subst; clear Hm. cbn [wc wsr touch is_store_ev ev_key pre_good].
      rewrite s_unrow_at. split; [apply (Hs None); exact I|]. split; [reflexivity|]. split; [exact I|]. split; [exact Hf|].
      split; [intros x v _ Hx; exact Hx | reflexivity].
Qed.

(* ------------------------------------------------------------------ a handler run to completion *)
Definition result_of (p : prog) : res := match p with Done r => r | _ => RHang end.

Lemma exec_unfold p s fs :
  exec p s fs = match mstep p s fs with
                | None => (s, [], result_of p)
                | Some (p', s1, fs1, e) => let '(s2, evs, x) := exec p' s1 fs1 in (s2, e :: evs, x)
                end.
Proof.
  destruct p; cbn [exec mstep result_of]; try reflexivity.
  - destruct (c_get (wc s) k). reflexivity.
  - destruct (nextf fs) as [f fs1]. destruct (s_load (wsr s) f k). reflexivity.
  - destruct (nextf fs) as [f fs1]. destruct (s_add (wsr s) f k d). reflexivity.
  - destruct (nextf fs) as [f fs1]. destruct (s_upd (wsr s) f k d pre). reflexivity.
  - destruct (nextf fs) as [f fs1]. destruct (s_upsert (wsr s) f k d pre). reflexivity.
  - destruct (nextf fs) as [f fs1]. destruct (s_delete (wsr s) f k). reflexivity.
Qed.

Lemma prog_step_ind (P : prog -> Prop) :
  (forall p, (forall s fs p' s' fs' e, mstep p s fs = Some (p', s', fs', e) -> P p') -> P p) -> forall p, P p.
Proof.
  intros H. induction p; apply H; intros s fs p' s' fs' e Hm; cbn [mstep] in Hm.
  - discriminate.
  - destruct (c_get (wc s) k). inversion Hm; subst. auto.
  - inversion Hm; subst. auto.
  - inversion Hm; subst. auto.
  - inversion Hm; subst. auto.
  - destruct (nextf fs) as [f fs1]. destruct (s_load (wsr s) f k). inversion Hm; subst. auto.
  - destruct (nextf fs) as [f fs1]. destruct (s_add (wsr s) f k d). inversion Hm; subst. auto.
  - destruct (nextf fs) as [f fs1]. destruct (s_upd (wsr s) f k d pre). inversion Hm; subst. auto.
  - destruct (nextf fs) as [f fs1]. destruct (s_upsert (wsr s) f k d pre). inversion Hm; subst. auto.
  - destruct (nextf fs) as [f fs1]. destruct (s_delete (wsr s) f k). inversion Hm; subst. auto.
Qed.

Lemma frame_trans k a b c : frame k a b -> frame k b c -> frame k a c.
Proof. intros H1 H2 x Hx. rewrite H2, H1 by exact Hx. reflexivity. Qed.
Lemma cshrink_trans k a b c : cshrink k a b -> cshrink k b c -> cshrink k a c.
Proof. intros H1 H2 x v Hx Hv. apply H1; [exact Hx|]. apply H2; assumption. Qed.

Lemma mstep_none_done p s fs : mstep p s fs = None -> exists r, p = Done r.
Proof.
  destruct p; cbn [mstep]; intros H; try discriminate; [eexists; reflexivity | | | | | |].
  - destruct (c_get (wc s) k); discriminate.
  - destruct (nextf fs) as [f fs1]. destruct (s_load (wsr s) f k); discriminate.
  - destruct (nextf fs) as [f fs1]. destruct (s_add (wsr s) f k d); discriminate.
  - destruct (nextf fs) as [f fs1]. destruct (s_upd (wsr s) f k d pre); discriminate.
  - destruct (nextf fs) as [f fs1]. destruct (s_upsert (wsr s) f k d pre); discriminate.
  - destruct (nextf fs) as [f fs1]. destruct (s_delete (wsr s) f k); discriminate.
Qed.

Lemma safe_exec k sv0 cm : forall p t s fs s' evs r,
  safe k sv0 cm p t (cview s k) (sview s k) -> exec p s fs = (s', evs, r) ->
  (forall v, cview s' k = Some v -> sview s' k = v)
  /\ frame k (wsr s) (wsr s') /\ cshrink k s s' /\ c_cap (wc s') = c_cap (wc s)
  /\ Forall (fun e => ev_key e = k) evs /\ Forall (pre_good sv0) evs
  /\ (r = RErr EDupKey -> t = false /\ no_store_ev evs = true)
  /\ (r = RNil -> cview s' k = None /\ sview s' k = None)
  /\ r <> RPanic.
Proof.
  intros p. pattern p. apply prog_step_ind. clear p. intros p IH t s fs s' evs r Hs He.
  rewrite exec_unfold in He. destruct (mstep p s fs) as [[[[p1 s1] fs1] e]|] eqn:Em.
  - destruct (exec p1 s1 fs1) as [[s2 evs2] x] eqn:Ex. inversion He; subst; clear He.
    destruct (safe_mstep _ _ _ _ _ _ _ _ _ _ _ Hs Em) as (Hs1 & Hk & Hp & Hf & Hc & Hcap).
    destruct (IH _ _ _ _ _ _ Em _ _ _ _ _ _ Hs1 Ex) as (A1 & A2 & A3 & A4 & A5 & A6 & A7 & A8 & A9).
    split; [exact A1|]. split; [eapply frame_trans; eauto|]. split; [eapply cshrink_trans; eauto|].
    split; [congruence|]. split; [constructor; assumption|]. split; [constructor; assumption|].
    split; [|split; [exact A8 | exact A9]].
    intros Hr. destruct (A7 Hr) as [Ht Hn]. unfold touch in Ht. unfold no_store_ev in *. cbn [forallb].
    destruct (is_store_ev e); [discriminate|]. split; [exact Ht | exact Hn].
  - destruct (mstep_none_done _ _ _ Em) as [r0 ->]. cbn [result_of] in He. inversion He; subst; clear He.
    cbn [safe] in Hs. destruct Hs as (_ & H1 & H2 & H3 & H4).
    split; [exact H1|]. split; [apply frame_refl|]. split; [intros x v _ Hx; exact Hx|]. split; [reflexivity|].
    split; [constructor|]. split; [constructor|]. split; [intros Hr; split; [auto | reflexivity] | split; [exact H3 | exact H4]].
Qed.

(* ------------------------------------------------------------------ one worker, one whole operation *)
Definition wcoh (s : wst) : Prop := forall k v, cview s k = Some v -> sview s k = v.

Theorem handle_spec o s fs s' evs r : wcoh s -> exec (handler o) s fs = (s', evs, r) ->
  wcoh s'
  /\ frame (key_of o) (wsr s) (wsr s') /\ cshrink (key_of o) s s' /\ c_cap (wc s') = c_cap (wc s)
  /\ Forall (fun e => ev_key e = key_of o) evs /\ Forall (pre_good (sview s (key_of o))) evs
  /\ (r = RErr EDupKey -> no_store_ev evs = true)
  /\ (r = RNil -> cview s' (key_of o) = None /\ sview s' (key_of o) = None)
  /\ r <> RPanic.
Proof.
  intros Hc He.
  pose proof (handler_safe o (cview s (key_of o)) (sview s (key_of o)) (Hc (key_of o))) as Hs.
  destruct (safe_exec _ _ _ _ _ _ _ _ _ _ Hs He) as (A1 & A2 & A3 & A4 & A5 & A6 & A7 & A8 & A9).
  split.
  - intros x v Hx. destruct (Z.eq_dec x (key_of o)) as [->|Hne]; [apply A1; exact Hx|].
    unfold sview. rewrite (A2 x Hne). apply Hc. apply (A3 x v Hne Hx).
  - repeat (split; [assumption|]). split; [intros Hr; apply (A7 Hr) | split; [exact A8 | exact A9]].
Qed.

(* a cached key makes an add a duplicate that touches nothing *)
Theorem add_cached_dup k d s fs v : cview s k = Some v ->
  exec (handler (OAdd k d)) s fs = (s, [EvPeek k (Some v)], RErr EDupKey).
Proof. unfold cview. intros H. cbn [handler exec]. rewrite H. reflexivity. Qed.

(* the caller-side fast path of DoGet *)
Lemma fast_get_wcoh s k : wcoh s -> wcoh (mkW (fst (c_get (wc s) k)) (wsr s)).
Proof. intros H x v Hx. unfold cview, sview in *. cbn [wc wsr] in *. rewrite peek_get in Hx. apply H. exact Hx. Qed.

(* ------------------------------------------------------------------ the group, sequential use *)
Definition gcoh (g : grp) : Prop := forall w, wcoh (g w).

Lemma updw_same g w s : updw g w s w = s.
Proof. unfold updw. rewrite Z.eqb_refl. reflexivity. Qed.
Lemma updw_other g w s x : x <> w -> updw g w s x = g x.
Proof. intros H. unfold updw. replace (x =? w) with false by (symmetry; apply Z.eqb_neq; exact H). reflexivity. Qed.
Lemma gcoh_updw g w s : gcoh g -> wcoh s -> gcoh (updw g w s).
Proof. intros Hg Hs x. destruct (Z.eq_dec x w) as [->|Hne]; [rewrite updw_same; exact Hs | rewrite updw_other by exact Hne; apply Hg]. Qed.

Lemma ginit_coh c : gcoh (ginit c).
Proof. intros w k v H. discriminate. Qed.

Definition is_load (e : event) : bool := match e with EvLoad _ _ => true | _ => false end.

(* workers exist for indices >= 0 only: nothing is ever cached under a negative index *)
Definition gneg (g : grp) : Prop := forall w, w < 0 -> c_ents (wc (g w)) = [].
Definition gok (g : grp) : Prop := gcoh g /\ gneg g.

Lemma ginit_ok c : gok (ginit c).
Proof. split; [apply ginit_coh | intros w _; reflexivity]. Qed.
Lemma gneg_updw g w s : gneg g -> 0 <= w -> gneg (updw g w s).
Proof. intros Hn Hw x Hx. rewrite updw_other by lia. apply Hn. exact Hx. Qed.

Lemma store_at_updw_other c g w s x : loc_of c x <> w -> store_at c (updw g w s) x = store_at c g x.
Proof. intros H. unfold store_at. rewrite updw_other by exact H. reflexivity. Qed.

(* a handler-side Get that misses consults the store *)
Lemma get_miss_loads k s fs s' evs r : c_peek (wc s) k = None ->
  exec (handler (OGet k)) s fs = (s', evs, r) -> existsb is_load evs = true.
Proof.
  unfold c_peek. intros Hn He. destruct (nextf fs) as [f fs1] eqn:En. destruct (s_load (wsr s) f k) as [st l] eqn:El.
  destruct (exec (finish k l) (mkW (wc s) st) fs1) as [[s2 evs2] x2] eqn:Ex.
  cbn [handler exec] in He. unfold c_get in He. rewrite Hn in He. cbn [exec wc wsr] in He. rewrite En, El in He. cbn [wc wsr] in He. rewrite Ex in He.
  inversion He; subst. reflexivity.
Qed.

Theorem do_op_spec c g o fs g' evs r : gok g -> do_op c g o fs = (g', evs, r) ->
  gok g'
  /\ (forall x, x <> key_of o -> store_at c g' x = store_at c g x)
  /\ Forall (fun e => ev_key e = key_of o) evs
  /\ Forall (pre_good (store_at c g (key_of o))) evs
  /\ (r = RErr EDupKey -> no_store_ev evs = true)
  /\ (r = RNil -> cache_at c g' (key_of o) = None /\ store_at c g' (key_of o) = None)
  /\ (forall k d v, o = OAdd k d -> cache_at c g k = Some v ->
        r = RErr EDupKey /\ no_store_ev evs = true /\ store_at c g' k = store_at c g k)
  /\ (forall k v, o = OGet k -> r = ROk v -> existsb is_load evs = false -> store_at c g k = v).
Proof.
  intros [Hg Hn] Hd. unfold do_op in Hd. set (w := loc_of c (key_of o)) in *.
  destruct (w <? 0) eqn:Ew.
  { apply Z.ltb_lt in Ew. inversion Hd; subst; clear Hd. split; [split; assumption|]. split; [reflexivity|]. split; [constructor|].
    split; [constructor|]. split; [reflexivity|]. split; [discriminate|]. split; [|intros k v _ Hr; discriminate].
    intros k d v -> Hc. exfalso. unfold cache_at, c_peek in Hc. cbn [key_of] in w. fold w in Hc. rewrite (Hn w Ew) in Hc. discriminate. }
  apply Z.ltb_ge in Ew.
  (* the part common to the operations that go through the handler *)
  assert (Hgen : forall s' evs0 r0, exec (handler o) (g w) fs = (s', evs0, r0) ->
      gok (updw g w s')
      /\ (forall x, x <> key_of o -> store_at c (updw g w s') x = store_at c g x)
      /\ Forall (fun e => ev_key e = key_of o) evs0
      /\ Forall (pre_good (store_at c g (key_of o))) evs0
      /\ (r0 = RErr EDupKey -> no_store_ev evs0 = true)
      /\ (r0 = RNil -> cache_at c (updw g w s') (key_of o) = None /\ store_at c (updw g w s') (key_of o) = None)).
  { intros s' evs0 r0 He. destruct (handle_spec _ _ _ _ _ _ (Hg w) He) as (A1 & A2 & A3 & A4 & A5 & A6 & A7 & A8).
    split; [split; [apply gcoh_updw; assumption | apply gneg_updw; assumption]|].
    split.
    - intros x Hx. destruct (Z.eq_dec (loc_of c x) w) as [E|E]; [|apply store_at_updw_other; exact E].
      unfold store_at. rewrite E, updw_same. apply A2. exact Hx.
    - split; [exact A5|]. split; [exact A6|]. split; [exact A7|].
      intros Hr. unfold cache_at, store_at. fold w. rewrite updw_same. apply A8. exact Hr. }
  destruct o as [k|k d|k d|k|k d|k d|k d];
    try (destruct (exec (handler _) (g w) fs) as [[s' evs0] r0] eqn:He; inversion Hd; subst g' evs r; clear Hd;
         destruct (Hgen _ _ _ eq_refl) as (B1 & B2 & B3 & B4 & B5 & B6);
         split; [exact B1|]; split; [exact B2|]; split; [exact B3|]; split; [exact B4|]; split; [exact B5|]; split; [exact B6|];
         split; [|intros k0 v0 Ho; discriminate]).
  - (* get *) cbn [key_of] in *. destruct (c_get (wc (g w)) k) as [c' r1] eqn:Eg.
    pose proof (get_result (wc (g w)) k) as Hr1. pose proof (peek_get (wc (g w)) k) as Hp1. rewrite Eg in Hr1, Hp1. cbn [fst snd] in Hr1, Hp1.
    destruct r1 as [v|].
    + inversion Hd; subst g' evs r; clear Hd.
      assert (Hw' : wcoh (mkW c' (wsr (g w)))).
      { pose proof (fast_get_wcoh (g w) k (Hg w)) as H. rewrite Eg in H. exact H. }
      split; [split; [apply gcoh_updw; assumption | apply gneg_updw; assumption]|].
      split; [intros x Hx; unfold store_at; destruct (Z.eq_dec (loc_of c x) w) as [E|E]; [rewrite E, updw_same; reflexivity | rewrite updw_other by exact E; reflexivity]|].
      split; [constructor; [reflexivity | constructor]|]. split; [constructor; [exact I | constructor]|].
      split; [reflexivity|]. split; [discriminate|]. split; [intros k0 d0 v0 Ho; discriminate|].
      intros k0 v0 Ho Hr _. inversion Ho; subst k0. inversion Hr; subst v0. unfold store_at. fold w. apply (Hg w). unfold cview. congruence.
    + destruct (exec (handler (OGet k)) (g w) fs) as [[s' evs0] r0] eqn:He. inversion Hd; subst g' evs r; clear Hd.
      destruct (Hgen _ _ _ eq_refl) as (B1 & B2 & B3 & B4 & B5 & B6).
      split; [exact B1|]. split; [exact B2|]. split; [constructor; [reflexivity | exact B3]|]. split; [constructor; [exact I | exact B4]|].
      split; [intros Hr; unfold no_store_ev; cbn [forallb is_store_ev negb andb]; apply B5; exact Hr|]. split; [exact B6|].
      split; [intros k0 d0 v0 Ho; discriminate|].
      intros k0 v0 Ho Hr Hl. exfalso. cbn [existsb is_load orb] in Hl.
      (* the handler's own Get misses as well, so it consults the store *)
      rewrite (get_miss_loads k (g w) fs s' evs0 (ROk v0)) in Hl; [discriminate | symmetry; exact Hr1 | subst r0; exact He].
  - (* add *) intros k0 d0 v0 Ho Hc. inversion Ho; subst k0 d0. cbn [key_of] in *. unfold cache_at in Hc. fold w in Hc.
    rewrite (add_cached_dup k d (g w) fs v0 Hc) in He. inversion He; subst. split; [reflexivity|]. split; [reflexivity|].
    unfold store_at. fold w. rewrite updw_same. reflexivity.
  - intros k0 d0 v0 Ho; discriminate.
  - intros k0 d0 v0 Ho; discriminate.
  - intros k0 d0 v0 Ho; discriminate.
  - intros k0 d0 v0 Ho; discriminate.
  - intros k0 d0 v0 Ho; discriminate.
Qed.

(* ------------------------------------------------------------------ every sequential history, every fault pattern *)
Definition run_ops (c : gcfg) (g : grp) (ops : list (op * list fault)) : grp :=
  fold_left (fun g of => fst (fst (do_op c g (fst of) (snd of)))) ops g.

Lemma run_ops_ok c : forall ops g, gok g -> gok (run_ops c g ops).
Proof.
  induction ops as [|[o fs] ops IH]; intros g Hg; [exact Hg|]. unfold run_ops in *. cbn [fold_left fst snd].
  apply IH. destruct (do_op c g o fs) as [[g' evs] r] eqn:E. cbn [fst]. apply (do_op_spec _ _ _ _ _ _ _ Hg E).
Qed.

Theorem seq_coherent c ops k v :
  cache_at c (run_ops c (ginit c) ops) k = Some v -> store_at c (run_ops c (ginit c) ops) k = v.
Proof. intros H. destruct (run_ops_ok c ops (ginit c) (ginit_ok c)) as [Hc _]. apply (Hc (loc_of c k)). exact H. Qed.

(* the clauses about single operations, in any state a history can reach *)
Theorem delete_evicts c ops k fs g' evs :
  do_op c (run_ops c (ginit c) ops) (ODelete k) fs = (g', evs, RNil) -> cache_at c g' k = None /\ store_at c g' k = None.
Proof.
  intros H. destruct (do_op_spec _ _ _ _ _ _ _ (run_ops_ok c ops _ (ginit_ok c)) H) as (_ & _ & _ & _ & _ & B6 & _). apply B6. reflexivity.
Qed.

Theorem add_cached_is_dup c ops k d fs v g' evs r :
  cache_at c (run_ops c (ginit c) ops) k = Some v ->
  do_op c (run_ops c (ginit c) ops) (OAdd k d) fs = (g', evs, r) ->
  r = RErr EDupKey /\ no_store_ev evs = true /\ forall x, store_at c g' x = store_at c (run_ops c (ginit c) ops) x.
Proof.
  intros Hc H. destruct (do_op_spec _ _ _ _ _ _ _ (run_ops_ok c ops _ (ginit_ok c)) H) as (_ & B2 & _ & _ & _ & _ & B7 & _).
  destruct (B7 k d v eq_refl Hc) as (A1 & A2 & A3). split; [exact A1|]. split; [exact A2|].
  intros x. destruct (Z.eq_dec x k) as [->|Hne]; [exact A3 | apply B2; exact Hne].
Qed.

(* a callback that fails - injected or the store's own refusal - leaves the store as it was *)
Theorem failed_callback_changes_nothing s f k d pre :
  (forall e, snd (s_load s f k) = SErr e -> fst (s_load s f k) = s)
  /\ (forall e, snd (s_add s f k d) = SErr e -> fst (s_add s f k d) = s)
  /\ (forall e, snd (s_upd s f k d pre) = SErr e -> fst (s_upd s f k d pre) = s)
  /\ (forall e, snd (s_upsert s f k d pre) = SErr e -> fst (s_upsert s f k d pre) = s)
  /\ (forall e, snd (s_delete s f k) = Some e -> fst (s_delete s f k) = s).
Proof.
  unfold s_load, s_add, s_upd, s_upsert, s_delete.
  repeat split; intros e; destruct (ferr f); cbn; try reflexivity; try discriminate;
    destruct (smap s k); destruct (is_fnil f); cbn; try reflexivity; discriminate.
Qed.

(* ------------------------------------------------------------------ locHash *)
(* the repaired index: in range for EVERY hash *)
Theorem lochash_in_range h n : 0 < n -> 0 <= loc h n < n.
Proof.
  intros Hn. unfold loc. pose proof (Z.rem_bound_abs h n ltac:(lia)) as Hb. split; [apply Z.abs_nonneg | lia].
Qed.

(* the repair changes the index of no hash but the smallest int *)
Theorem lochash_agrees_prefix h n : 0 < n -> - two63 < h < two63 -> loc h n = loc_prefix h n.
Proof.
  intros Hn Hh. unfold loc, loc_prefix. destruct (h <? 0) eqn:E.
  - apply Z.ltb_lt in E. unfold wrap64. replace ((- h + two63) mod (2 * two63)) with (- h + two63).
    + replace (- h + two63 - two63) with (- h) by lia. rewrite Z.rem_opp_l by lia.
      pose proof (Z.rem_nonpos h n ltac:(lia) ltac:(lia)). lia.
    + symmetry. apply Z.mod_small. unfold two63 in *. lia.
  - apply Z.ltb_ge in E. pose proof (Z.rem_nonneg h n ltac:(lia) E). lia.
Qed.

(* before the repair: the smallest int with three workers gives index -2, and the caller panics *)
Example lochash_prefix_refuted : loc_prefix (- two63) 3 = -2 /\ loc_prefix (- two63) 127 = -1 /\ loc (- two63) 3 = 2.
Proof. vm_compute. repeat split. Qed.

(* with the repaired index every key has a worker: no call of a group with at least one worker panics *)
Theorem do_op_no_panic c g o fs g' evs r : gok g -> 0 < g_n c -> do_op c g o fs = (g', evs, r) -> r <> RPanic.
Proof.
  intros [Hg _] Hn Hd. unfold do_op in Hd. set (w := loc_of c (key_of o)) in *.
  assert (Hw : (w <? 0) = false) by (apply Z.ltb_ge; unfold w, loc_of; apply lochash_in_range; exact Hn).
  rewrite Hw in Hd.
  assert (Hgen : forall s' evs0 r0, exec (handler o) (g w) fs = (s', evs0, r0) -> r0 <> RPanic).
  { intros s' evs0 r0 He. destruct (handle_spec _ _ _ _ _ _ (Hg w) He) as (_ & _ & _ & _ & _ & _ & _ & _ & H). exact H. }
  destruct o as [k|k d|k d|k|k d|k d|k d];
    try (destruct (exec (handler _) (g w) fs) as [[s' evs0] r0] eqn:He; inversion Hd; subst; eapply Hgen; reflexivity).
  destruct (c_get (wc (g w)) k) as [c' r1]. destruct r1 as [v|].
  - inversion Hd; subst. discriminate.
  - destruct (exec (handler (OGet k)) (g w) fs) as [[s' evs0] r0] eqn:He. inversion Hd; subst. eapply Hgen. reflexivity.
Qed.
