(* C08 proofs, part 2: every iterator meets the specification.
   iter64_spec, iter1024_spec (the chain of 16 words with the cursor/left book-keeping), the GetN wrappers,
   counts, independence of the sparse threshold. *)
From Coq Require Import List Bool ZArith NArith Lia.
Require Import BitSet C08_Model C08_Spec C08_Word.
Import ListNotations.
Open Scope Z_scope.

(* ---------------- write_list in closed form ---------------- *)
Definition spl (s : list Z) (p : nat) (vals : list Z) : list Z := firstn p s ++ vals ++ skipn (p + length vals) s.

Lemma upd_nth_length s p v : length (upd_nth s p v) = length s.
Proof. revert p; induction s as [|x r IH]; intros p; destruct p; cbn [upd_nth length]; auto. Qed.

Lemma spl_upd : forall s p v r, (p < length s)%nat -> spl (upd_nth s p v) (S p) r = spl s p (v :: r).
Proof.
  induction s as [|x s IH]; intros p v r Hp; cbn [length] in Hp; [lia|].
  destruct p as [|p]; unfold spl in *; cbn [upd_nth firstn length Nat.add skipn app].
  - reflexivity.
  - f_equal. specialize (IH p v r ltac:(lia)). cbn [length Nat.add] in IH. exact IH.
Qed.
Lemma spl_one : forall s p v, (p < length s)%nat -> upd_nth s p v = spl s p [v].
Proof.
  induction s as [|x s IH]; intros p v Hp; cbn [length] in Hp; [lia|].
  destruct p as [|p]; unfold spl in *; cbn [upd_nth firstn length Nat.add skipn app]; [reflexivity|].
  f_equal. rewrite (IH p v ltac:(lia)). cbn [length]. reflexivity.
Qed.

Lemma write_list_spec : forall vals s pos, vals <> [] ->
  write_list s pos vals =
  if (0 <=? pos) && (pos + Z.of_nat (length vals) <=? Z.of_nat (length s)) then Some (splice s pos vals) else None.
Proof.
  induction vals as [|v r IH]; intros s pos Hne; [congruence|]. cbn [write_list]. unfold store.
  destruct (0 <=? pos) eqn:E0; cbn [andb]; [|reflexivity]. apply Z.leb_le in E0.
  destruct (pos <? Z.of_nat (length s)) eqn:E1.
  - apply Z.ltb_lt in E1. destruct r as [|v2 r'].
    + cbn [write_list length]. replace (pos + Z.of_nat 1 <=? Z.of_nat (length s)) with true by (symmetry; apply Z.leb_le; lia).
      f_equal. unfold splice. apply spl_one. lia.
    + rewrite IH by discriminate. rewrite upd_nth_length.
      replace (0 <=? pos + 1) with true by (symmetry; apply Z.leb_le; lia). cbn [andb].
      replace (pos + 1 + Z.of_nat (length (v2 :: r'))) with (pos + Z.of_nat (length (v :: v2 :: r'))) by (cbn [length]; lia).
      destruct (pos + Z.of_nat (length (v :: v2 :: r')) <=? Z.of_nat (length s)); [|reflexivity].
      f_equal. unfold splice. replace (Z.to_nat (pos + 1)) with (S (Z.to_nat pos)) by lia.
      apply (spl_upd s (Z.to_nat pos) v (v2 :: r')). lia.
  - apply Z.ltb_ge in E1. replace (pos + Z.of_nat (length (v :: r)) <=? Z.of_nat (length s)) with false; [reflexivity|].
    symmetry. apply Z.leb_gt. cbn [length]. lia.
Qed.

Lemma write_list_app : forall a b s pos,
  write_list s pos (a ++ b) = match write_list s pos a with None => None | Some s' => write_list s' (pos + Z.of_nat (length a)) b end.
Proof.
  induction a as [|v a IH]; intros b s pos; cbn [app write_list length].
  - f_equal. lia.
  - destruct (store s pos v) as [s'|]; [|reflexivity]. rewrite IH.
    destruct (write_list s' (pos + 1) a); [|reflexivity]. f_equal. lia.
Qed.

(* the outcome the specification describes, in terms of write_list *)
Lemma spec_iter_fin ty rev ms s pos add n :
  spec_iter ty rev ms s pos add n =
  let vals := map (fun m => norm ty (m + add)) (ztake n (if rev then List.rev ms else ms)) in
  fin (write_list s pos vals) (Z.of_nat (length vals)).
Proof.
  unfold spec_iter. cbv zeta.
  destruct (map (fun m => norm ty (m + add)) (ztake n (if rev then List.rev ms else ms))) as [|v r] eqn:E; [reflexivity|].
  rewrite write_list_spec by discriminate.
  destruct ((0 <=? pos) && (pos + Z.of_nat (length (v :: r)) <=? Z.of_nat (length s))); reflexivity.
Qed.

(* ---------------- members of a word ---------------- *)
Lemma zseq_asc : forall k i, zseq (Z.of_N i) k = map Z.of_N (asc i k).
Proof. induction k as [|k IH]; intros i; cbn [zseq asc map]; [reflexivity|]. f_equal. rewrite <- IH. f_equal. lia. Qed.
Lemma in_asc : forall k i x, In x (asc i k) -> (i <= x < i + N.of_nat k)%N.
Proof.
  induction k as [|k IH]; intros i x H; cbn [asc In] in H; [contradiction|].
  destruct H as [<-|H]; [lia|]. apply IH in H. lia.
Qed.
Lemma in_zseq : forall k a x, In x (zseq a k) <-> a <= x < a + Z.of_nat k.
Proof.
  induction k as [|k IH]; intros a x; cbn [zseq In]; [lia|]. rewrite IH. lia.
Qed.

Lemma members64_asc w : members64 w = map Z.of_N (filter (N.testbit w) (asc 0 64)).
Proof.
  unfold members64. change (zseq 0 64) with (zseq (Z.of_N 0) 64). rewrite zseq_asc, filter_map_comm.
  apply (f_equal (map Z.of_N)). apply filter_ext_in. intros i Hi. apply in_asc in Hi. unfold mem64.
  replace (0 <=? Z.of_N i) with true by (symmetry; apply Z.leb_le; lia).
  replace (Z.of_N i <? 64) with true by (symmetry; apply Z.ltb_lt; lia).
  rewrite N2Z.id. reflexivity.
Qed.
Lemma members64_ord (rev : bool) w :
  (if rev then List.rev (members64 w) else members64 w) = map Z.of_N (filter (N.testbit w) (ord rev)).
Proof.
  rewrite members64_asc. destruct rev; unfold ord; [|reflexivity].
  rewrite desc_rev_asc, filter_rev, map_rev. reflexivity.
Qed.

(* ---------------- Bit64 iterators ---------------- *)
Theorem iter64_spec ty add rev magic w s pos n : wfw w = true ->
  iter64 ty add rev magic w s pos n = spec_iter ty rev (members64 w) s pos add n.
Proof.
  intros Hw. rewrite (iter64_mid ty add rev magic w s pos n (wfw_wfb w Hw)).
  rewrite spec_iter_fin. cbv zeta. rewrite members64_ord, ztake_map, map_map. unfold val.
  rewrite map_length. reflexivity.
Qed.

Corollary iter64_magic_independent ty add rev m1 m2 w s pos n : wfw w = true ->
  iter64 ty add rev m1 w s pos n = iter64 ty add rev m2 w s pos n.
Proof. intros Hw. now rewrite !iter64_spec. Qed.

(* Len is the number of members *)
Lemma len64_members w : wfw w = true -> len64 w = Z.of_nat (length (members64 w)).
Proof. intros Hw. rewrite len64_pop, (popcount_filter w (wfw_wfb w Hw)), members64_asc, map_length. reflexivity. Qed.

(* ---------------- arithmetic of the element types ---------------- *)
Lemma norm_add_norm ty a b : norm ty (a + norm ty b) = norm ty (a + b).
Proof.
  destruct ty; unfold norm.
  - f_equal. replace (a + ((b + 128) mod 256 - 128) + 128) with (a + (b + 128) mod 256) by lia.
    rewrite Zplus_mod_idemp_r. f_equal. lia.
  - f_equal. replace (a + ((b + 32768) mod 65536 - 32768) + 32768) with (a + (b + 32768) mod 65536) by lia.
    rewrite Zplus_mod_idemp_r. f_equal. lia.
  - f_equal. replace (a + ((b + 2147483648) mod 4294967296 - 2147483648) + 2147483648) with (a + (b + 2147483648) mod 4294967296) by lia.
    rewrite Zplus_mod_idemp_r. f_equal. lia.
  - rewrite Zplus_mod_idemp_r. reflexivity.
  - f_equal. replace (a + ((b + 9223372036854775808) mod 18446744073709551616 - 9223372036854775808) + 9223372036854775808)
      with (a + (b + 9223372036854775808) mod 18446744073709551616) by lia.
    rewrite Zplus_mod_idemp_r. f_equal. lia.
Qed.

(* ---------------- members of a bitmap: word by word ---------------- *)
Lemma filter_flat_map {A B} (p : B -> bool) (f : A -> list B) l : filter p (flat_map f l) = flat_map (fun x => filter p (f x)) l.
Proof. induction l as [|x r IH]; cbn [flat_map]; [reflexivity|]. now rewrite filter_app, IH. Qed.
Lemma rev_flat_map {A B} (f : A -> list B) l : rev (flat_map f l) = flat_map (fun x => rev (f x)) (rev l).
Proof.
  induction l as [|x r IH]; cbn [flat_map rev]; [reflexivity|].
  rewrite rev_app_distr, IH, flat_map_app. cbn [flat_map]. now rewrite app_nil_r.
Qed.
Lemma flat_map_ext_in {A B} (f g : A -> list B) l : (forall x, In x l -> f x = g x) -> flat_map f l = flat_map g l.
Proof.
  induction l as [|x r IH]; intros H; cbn [flat_map]; [reflexivity|].
  rewrite (H x (or_introl eq_refl)), IH; [reflexivity|]. intros y Hy. apply H. now right.
Qed.

Definition glob (k m : Z) : Z := 64 * k + m.

Lemma dom1024_words : zseq 0 1024 = flat_map (fun k => map (glob k) (zseq 0 64)) (words_ord false).
Proof. vm_compute. reflexivity. Qed.
Lemma words_ord_rev : words_ord true = rev (words_ord false).
Proof. reflexivity. Qed.
Lemma words_ord_range rev k : In k (words_ord rev) -> 0 <= k < 16.
Proof. destruct rev; cbn; intros H; repeat (destruct H as [<-|H]; [lia|]); contradiction. Qed.

Lemma mem1024_glob ws k m : 0 <= k < 16 -> 0 <= m < 64 -> mem1024 ws (glob k m) = mem64 (word ws k) m.
Proof.
  intros Hk Hm. unfold mem1024, mem64, glob, word.
  replace (0 <=? 64 * k + m) with true by (symmetry; apply Z.leb_le; lia).
  replace (64 * k + m <? 1024) with true by (symmetry; apply Z.ltb_lt; lia).
  replace (0 <=? m) with true by (symmetry; apply Z.leb_le; lia).
  replace (m <? 64) with true by (symmetry; apply Z.ltb_lt; lia).
  cbn [andb]. rewrite Z.shiftr_div_pow2 by lia. change (Z.land (64 * k + m) 63) with (Z.land (64 * k + m) (Z.ones 6)).
  rewrite Z.land_ones by lia. change (2 ^ 6) with 64.
  replace ((64 * k + m) / 64) with k by (apply (Zdiv_unique _ _ _ m); lia).
  replace ((64 * k + m) mod 64) with m by (apply (Zmod_unique _ _ k); lia).
  reflexivity.
Qed.

Lemma members1024_words ws :
  members1024 ws = flat_map (fun k => map (glob k) (members64 (word ws k))) (words_ord false).
Proof.
  unfold members1024. rewrite dom1024_words, filter_flat_map.
  apply flat_map_ext_in. intros k Hk. apply words_ord_range in Hk.
  rewrite filter_map_comm. unfold members64. f_equal.
  apply filter_ext_in. intros m Hm. apply in_zseq in Hm. apply mem1024_glob; lia.
Qed.

Definition dirl {A} (rev : bool) (l : list A) : list A := if rev then List.rev l else l.

Lemma members1024_dir rev ws :
  dirl rev (members1024 ws) = flat_map (fun k => map (glob k) (dirl rev (members64 (word ws k)))) (words_ord rev).
Proof.
  rewrite members1024_words. destruct rev; unfold dirl; [|reflexivity].
  rewrite rev_flat_map, words_ord_rev. apply flat_map_ext_in. intros k _. now rewrite map_rev.
Qed.

(* ---------------- Bit1024 iterators: the chain ---------------- *)
Lemma fin_some o c s' e : fin o c = Ok s' e -> o = Some s' /\ c = e.
Proof. destruct o; cbn [fin]; intros H; [injection H as -> ->; auto|discriminate]. Qed.

Lemma chain_spec ty rev magic ws add n : forall ks, (forall k, In k ks -> wfw (word ws k) = true) ->
  forall iterN cursor s,
  chain ty rev magic ws add n ks iterN (n - iterN) cursor s =
  let G := flat_map (fun k => map (glob k) (dirl rev (members64 (word ws k)))) ks in
  let vals := map (fun m => norm ty (m + add)) (ztake (n - iterN) G) in
  fin (write_list s cursor vals) (iterN + Z.of_nat (length vals)).
Proof.
  induction ks as [|k ks IH]; intros Hwf iterN cursor s; cbv zeta.
  - cbn [chain flat_map ztake map write_list fin length]. f_equal. lia.
  - cbn [chain flat_map].
    destruct (iterN >=? n) eqn:E.
    + apply Z.geb_le in E. rewrite ztake_nonpos by lia. cbn [map write_list fin length]. f_equal. lia.
    + rewrite Z.geb_leb in E. apply Z.leb_gt in E.
      rewrite (iter64_spec ty _ rev magic (word ws k) s cursor (n - iterN) (Hwf k (or_introl eq_refl))).
      rewrite spec_iter_fin. cbv zeta. fold (dirl rev (members64 (word ws k))).
      set (M := dirl rev (members64 (word ws k))).
      rewrite ztake_app, map_app, write_list_app, ztake_map, map_map, map_length.
      assert (Hv : map (fun m => norm ty (m + norm ty (64 * k + add))) (ztake (n - iterN) M)
                   = map (fun x => norm ty (glob k x + add)) (ztake (n - iterN) M)).
      { apply map_ext. intros m. rewrite norm_add_norm. unfold glob. f_equal. lia. }
      rewrite Hv. rewrite !map_length.
      destruct (write_list s cursor (map (fun x => norm ty (glob k x + add)) (ztake (n - iterN) M))) as [s'|]; cbn [fin]; [|reflexivity].
      set (e := Z.of_nat (length (ztake (n - iterN) M))).
      rewrite IH by (intros k' Hk'; apply Hwf; now right). cbv zeta.
      replace (n - (iterN + e)) with (n - iterN - e) by lia. unfold e. rewrite ztake_rest.
      rewrite app_length, !map_length. f_equal. lia.
Qed.

Lemma wfws_word ws k : wfws ws = true -> wfw (word ws k) = true.
Proof.
  intros H. unfold wfws in H. apply andb_prop in H. destruct H as [_ H]. rewrite forallb_forall in H.
  unfold word. destruct (nth_in_or_default (Z.to_nat k) ws 0%N) as [Hin | ->]; [now apply H|reflexivity].
Qed.

Theorem iter1024_spec ty rev magic ws s pos add n : wfws ws = true ->
  iter1024 ty rev magic ws s pos add n = spec_iter ty rev (members1024 ws) s pos add n.
Proof.
  intros Hw. unfold iter1024. replace n with (n - 0) at 2 by lia.
  rewrite chain_spec by (intros k _; now apply wfws_word). cbv zeta.
  rewrite spec_iter_fin. cbv zeta. fold (dirl rev (members1024 ws)). rewrite members1024_dir, Z.sub_0_r.
  reflexivity.
Qed.

Corollary iter1024_magic_independent ty rev m1 m2 ws s pos add n : wfws ws = true ->
  iter1024 ty rev m1 ws s pos add n = iter1024 ty rev m2 ws s pos add n.
Proof. intros Hw. now rewrite !iter1024_spec. Qed.

(* ---------------- the count ---------------- *)
Lemma spec_iter_count ty rev ms s pos add n s' c :
  spec_iter ty rev ms s pos add n = Ok s' c -> c = Z.min (Z.max n 0) (Z.of_nat (length ms)).
Proof.
  rewrite spec_iter_fin. cbv zeta. intros H. apply fin_some in H. destruct H as [_ <-].
  rewrite map_length, ztake_length. destruct rev; [rewrite rev_length|]; reflexivity.
Qed.

(* ---------------- GetN ---------------- *)
Lemma firstn_exact {A} (a b : list A) : firstn (length a) (a ++ b) = a.
Proof. rewrite firstn_app, Nat.sub_diag, firstn_all. cbn [firstn]. apply app_nil_r. Qed.
Lemma zeros_length n : 0 <= n -> Z.of_nat (length (zeros n)) = n.
Proof. intros H. unfold zeros. rewrite repeat_length. lia. Qed.

Lemma getn_of_spec ty rev ms n (run : list Z -> out) :
  (forall s, run s = spec_iter ty rev ms s 0 0 n) -> getn_of n run = spec_getn ty rev ms n.
Proof.
  intros Hrun. unfold getn_of, spec_getn. destruct (n <? 0) eqn:En; [reflexivity|]. apply Z.ltb_ge in En.
  rewrite Hrun. unfold spec_iter.
  assert (Hm : map (fun m => norm ty (m + 0)) (ztake n (if rev then List.rev ms else ms))
               = map (fun m => norm ty m) (ztake n (if rev then List.rev ms else ms))).
  { apply map_ext. intros m. now rewrite Z.add_0_r. }
  rewrite Hm. set (vals := map (fun m => norm ty m) (ztake n (if rev then List.rev ms else ms))).
  assert (Hlen : Z.of_nat (length vals) <= n).
  { unfold vals. rewrite map_length, ztake_length. lia. }
  destruct vals as [|v r] eqn:Ev; [reflexivity|].
  rewrite zeros_length by lia. replace (0 <=? 0) with true by reflexivity. cbn [andb].
  replace (0 + Z.of_nat (length (v :: r)) <=? n) with true by (symmetry; apply Z.leb_le; lia).
  replace (Z.of_nat (length (v :: r)) =? 0) with false by (symmetry; apply Z.eqb_neq; cbn [length]; lia).
  f_equal. unfold splice. rewrite Nat2Z.id. change (Z.to_nat 0) with O.
  exact (firstn_exact (v :: r) _).
Qed.

Theorem getn64_spec ty rev magic w n : wfw w = true -> getn64 ty rev magic w n = spec_getn ty rev (members64 w) n.
Proof. intros Hw. unfold getn64. apply getn_of_spec. intros s. now apply iter64_spec. Qed.
Theorem getn1024_spec ty rev magic ws n : wfws ws = true -> getn1024 ty rev magic ws n = spec_getn ty rev (members1024 ws) n.
Proof. intros Hw. unfold getn1024. apply getn_of_spec. intros s. now apply iter1024_spec. Qed.
