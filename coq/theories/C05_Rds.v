(* C05: the redis-backed TTL cache.
   (1) a model of the redis commands the adapter uses (string keys with millisecond expiry, clock in seconds);
   (2) the adapter cache/ttlrds.go: every method as the list of commands it sends (through go-redis' own argument
       building: SetNX's switch on the expiration, Set's px/ex/keepttl choice, formatSec for EXPIRE) and the decoding
       of the replies;
   (3) `restricted`: the histories on which the property compares the two back-ends, by a ledger of deadlines that
       mentions neither model;
   (4) (C05_RdsAgree.v) on every restricted history both models report the same results. *)
From Coq Require Import ZArith List Lia Bool.
Require Import TTL TTLView C05_Hist C05_Mon.
Import ListNotations.
Open Scope Z_scope.

(* ---------- redis ---------- *)
Record rent := { rk : Z; rv : Z; rx : option Z }.            (* rx: expire-at in milliseconds, None = persistent *)
Inductive expiry := XNone | XPx (ms : Z) | XEx (s : Z) | XKeep.
Inductive rcmd :=
| RSet (k v : Z) (ex : expiry) (nx : bool)      (* set k v [px n | ex n | keepttl] [nx] *)
| RSetNX (k v : Z)                              (* setnx k v *)
| RGet (k : Z) | RGetDel (k : Z)
| RExpire (k s : Z)
| RDel (k : Z)
| RScan                                         (* scan 0 match <prefix>* *)
| RBad.                                         (* anything else the adapter might send; the model never does *)
Inductive rrep := ROk | RNil | RVal (v : Z) | RInt (n : Z) | RErr | RKeys (ks : list Z).

Definition rfind (k : Z) (r : list rent) : option rent := find (fun e => rk e =? k) r.
Definition rdel (k : Z) (r : list rent) : list rent := filter (fun e => negb (rk e =? k)) r.
Fixpoint rins (e : rent) (r : list rent) : list rent :=                     (* kept sorted by key: SCAN order is canonical *)
  match r with
  | [] => [e]
  | x :: r' => if rk e <? rk x then e :: r else x :: rins e r'
  end.
Definition rput (e : rent) (r : list rent) : list rent := rins e (rdel (rk e) r).
Definition ralive (now : Z) (e : rent) : bool := match rx e with None => true | Some t => now * 1000 <? t end.
(* an entry whose expiry has passed is deleted as soon as a command touches its key (or scans the key space) *)
Definition rpurge (now k : Z) (r : list rent) : list rent :=
  match rfind k r with Some e => if ralive now e then r else rdel k r | None => r end.

Definition rexec (now : Z) (r : list rent) (c : rcmd) : list rent * rrep :=
  match c with
  | RSet k v ex nx =>
      let bad := match ex with XPx n => n <=? 0 | XEx n => n <=? 0 | _ => false end in
      if bad then (r, RErr)                                         (* ERR invalid expire time in 'set' command *)
      else let r := rpurge now k r in
           match rfind k r with
           | Some e => if nx then (r, RNil)
                       else (rput {| rk := k; rv := v;
                                     rx := match ex with XNone => None | XPx n => Some (now * 1000 + n)
                                                    | XEx n => Some ((now + n) * 1000) | XKeep => rx e end |} r, ROk)
           | None => (rput {| rk := k; rv := v;
                              rx := match ex with XPx n => Some (now * 1000 + n) | XEx n => Some ((now + n) * 1000)
                                             | _ => None end |} r, ROk)
           end
  | RSetNX k v => let r := rpurge now k r in
                  match rfind k r with
                  | Some _ => (r, RInt 0)
                  | None => (rput {| rk := k; rv := v; rx := None |} r, RInt 1)
                  end
  | RGet k => let r := rpurge now k r in match rfind k r with Some e => (r, RVal (rv e)) | None => (r, RNil) end
  | RGetDel k => let r := rpurge now k r in match rfind k r with Some e => (rdel k r, RVal (rv e)) | None => (r, RNil) end
  | RExpire k s => let r := rpurge now k r in
                   match rfind k r with
                   | Some e => if s <=? 0 then (rdel k r, RInt 1)                   (* a non-positive ttl deletes the key *)
                               else (rput {| rk := k; rv := rv e; rx := Some ((now + s) * 1000) |} r, RInt 1)
                   | None => (r, RInt 0)
                   end
  | RDel k => let r := rpurge now k r in match rfind k r with Some _ => (rdel k r, RInt 1) | None => (r, RInt 0) end
  | RScan => let r := filter (ralive now) r in (r, RKeys (map rk r))
  | RBad => (r, RErr)
  end.

(* ---------- the adapter ---------- *)
Definition SEC := 1000000000.
Definition MSEC := 1000000.
Definition dur_of (ttl : Z) : Z := wrap64 (ttl * SEC).                       (* time.Duration(ttl) * time.Second, in int64 *)
Definition use_precise (d : Z) : bool := (d <? SEC) || negb (Z.rem d SEC =? 0).
Definition format_ms (d : Z) : Z := if (0 <? d) && (d <? MSEC) then 1 else Z.quot d MSEC.
Definition format_sec (d : Z) : Z := if (0 <? d) && (d <? SEC) then 1 else Z.quot d SEC.
Definition expiry_of (d : Z) : expiry := if use_precise d then XPx (format_ms d) else XEx (format_sec d).

(* Set: SetNX(key, value, d) for must-not-exist, Set(key, value, KeepTTL | d) otherwise *)
Definition set_cmd (dt k v : Z) (so : setopt) : rcmd :=
  let d := dur_of (match s_ttl so with Some t => t | None => dt end) in
  if mne so then
    (if d =? 0 then RSetNX k v else if d =? -1 then RSet k v XKeep true else RSet k v (expiry_of d) true)
  else
    let ex := if keep so then -1 else d in
    RSet k v (if 0 <? ex then expiry_of ex else if ex =? -1 then XKeep else XNone) false.

Definition set_res (so : setopt) (rep : rrep) : res :=
  match rep with
  | RErr => Fail 1
  | ROk => Done
  | RInt n => if mne so then (if n =? 0 then Exists else Done) else Done
  | RNil => if mne so then Exists else Fail 2
  | _ => Fail 2
  end.

Fixpoint del_all (now : Z) (r : list rent) (ks : list Z) : list rent * list rcmd :=
  match ks with
  | [] => (r, [])
  | k :: ks' => let '(r2, cs) := del_all now (fst (rexec now r (RDel k))) ks' in (r2, RDel k :: cs)
  end.

Definition rds_step (dt : Z) (r : list rent) (now : Z) (o : op) : list rent * res * list rcmd :=
  match o with
  | OSet k v so => let c := set_cmd dt k v so in let '(r1, rep) := rexec now r c in (r1, set_res so rep, [c])
  | OGet k go =>
      let c := if rag go then RGetDel k else RGet k in
      let '(r1, rep) := rexec now r c in
      match rep with
      | RVal v =>
          match upd go with
          | Some t => let c2 := RExpire k (format_sec (dur_of (if t =? 0 then dt else t))) in
                      let '(r2, rep2) := rexec now r1 c2 in
                      (r2, match rep2 with RErr => Fail 1 | _ => Ok v end, [c; c2])
          | None => (r1, Ok v, [c])
          end
      | RNil => (r1, NotFound, [c])
      | _ => (r1, Fail 1, [c])
      end
  | ORemove k => let '(r1, rep) := rexec now r (RDel k) in (r1, match rep with RErr => Fail 1 | _ => Done end, [RDel k])
  | OClear =>
      let '(r1, rep) := rexec now r RScan in
      match rep with
      | RKeys ks => let '(r2, cs) := del_all now r1 ks in (r2, Done, RScan :: cs)
      | _ => (r1, Done, [RScan])
      end
  end.

Fixpoint rds_run (dt : Z) (r : list rent) (h : list (Z * op)) : list (res * list rcmd) :=
  match h with
  | [] => []
  | (now, o) :: h' => let '(r1, x, cs) := rds_step dt r now o in (x, cs) :: rds_run dt r1 h'
  end.

(* ---------- the histories on which the two back-ends are compared ---------- *)
Definition TMAX := 9223372036.                                  (* largest ttl whose nanosecond count fits int64 *)
Definition ttl_ok (now t : Z) : bool := (0 <? t) && (t <=? TMAX) && fitsb t now.

Definition lfind (k : Z) (led : list (Z * Z)) : option (Z * Z) := find (fun p => fst p =? k) led.
Definition lerase (k : Z) (led : list (Z * Z)) : list (Z * Z) := filter (fun p => negb (fst p =? k)) led.

(* the ledger: key -> deadline of the value currently set, as the specification counts it (mentions no model).
   None = this step leaves the restricted class: a non-positive / oversized ttl, keep-ttl on a key that is not live,
   or a clock reading exactly on the deadline of the touched key *)
Definition led_step (dt : Z) (led : list (Z * Z)) (now : Z) (o : op) : option (list (Z * Z)) :=
  match o with
  | OSet k v so =>
      let t := match s_ttl so with Some t => t | None => dt end in
      if negb (ttl_ok now t) then None
      else match lfind k led with
           | Some (_, d) =>
               if d =? now then None
               else if now <? d then
                      (if mne so then Some led else Some ((k, if keep so then d else now + t) :: lerase k led))
                    else if keep so && negb (mne so) then None else Some ((k, now + t) :: lerase k led)
           | None => if keep so && negb (mne so) then None else Some ((k, now + t) :: lerase k led)
           end
  | OGet k go =>
      let ok := match upd go with Some t => ttl_ok now (if t =? 0 then dt else t) | None => fitsb 0 now end in
      if negb ok then None
      else match lfind k led with
           | Some (_, d) =>
               if d =? now then None
               else if now <? d then
                      (if rag go then Some (lerase k led)
                       else match upd go with
                            | Some t => Some ((k, now + (if t =? 0 then dt else t)) :: lerase k led)
                            | None => Some led
                            end)
                    else Some (lerase k led)
           | None => Some led
           end
  | ORemove k => if fitsb 0 now then Some (lerase k led) else None
  | OClear => if fitsb 0 now then Some [] else None
  end.

Fixpoint led_run (dt : Z) (led : list (Z * Z)) (h : list (Z * op)) : bool :=
  match h with
  | [] => true
  | (now, o) :: h' => match led_step dt led now o with Some led' => led_run dt led' h' | None => false end
  end.

Definition op_key (o : op) : list Z := match o with OSet k _ _ => [k] | OGet k _ => [k] | ORemove k => [k] | OClear => [] end.
Definition hist_keys (h : list (Z * op)) : list Z := flat_map (fun s => op_key (snd s)) h.

(* below the size bound: the history mentions at most `size` distinct keys, so the memory back-end never evicts *)
Definition restricted (sz dt : Z) (h : list (Z * op)) : bool :=
  (Z.of_nat (length (nodup Z.eq_dec (hist_keys h))) <=? sz) && led_run dt [] h.
