(* C04: the headline statements in their final shape (from a new cache, every history); restated in C04_Props.v *)
From Coq Require Import ZArith List Lia Bool.
Require Import LRU Shard LRUOps C04_Model C04_Refine C04_Wide.
Import ListNotations.
Open Scope Z_scope.

Definition cap_dom (cp : Z) : Prop := 0 <= cp <= B.

(* every outcome and the final contents equal the ideal LRU's; no call panics *)
Theorem refines_ideal v cp ops : cap_dom cp -> Forall op_dom ops ->
  snd (mrun v (new_lru cp) ops) = map Some (snd (irun (new_istate cp) (map (norm v) ops))) /\
  abs (fst (mrun v (new_lru cp) ops)) = fst (irun (new_istate cp) (map (norm v) ops)).
Proof.
  intros Hc Hd. destruct (mrun_refines v ops (new_lru cp) (new_MInv v cp Hc) Hd) as (A & R & _).
  split; [exact R|exact A].
Qed.

(* Keys / Items (most recently used first), Length, Size, Capacity, Evictions after every history *)
Theorem observables_agree v cp ops : cap_dom cp -> Forall op_dom ops ->
  let c := fst (mrun v (new_lru cp) ops) in
  let s := fst (irun (new_istate cp) (map (norm v) ops)) in
  keys_of c = ikeys s /\ items_of c = iitems s /\ stats_of c = istats s.
Proof.
  intros Hc Hd. destruct (mrun_refines v ops (new_lru cp) (new_MInv v cp Hc) Hd) as (A & _ & I).
  cbn zeta. change (new_istate cp) with (abs (new_lru cp)). rewrite <- A.
  apply observables_abs. apply (MInv_Inv _ _ I).
Qed.

(* capacity bound and size accounting after every operation of every history (every prefix is a history) *)
Theorem size_bound v cp ops : cap_dom cp -> Forall op_dom ops ->
  let c := fst (mrun v (new_lru cp) ops) in
  size c = total (lst c) /\ size c <= cap c /\ NoDup (keys_of c) /\
  (v = VTiny -> size c = Z.of_nat (length (lst c))).
Proof.
  intros Hc Hd. destruct (mrun_refines v ops (new_lru cp) (new_MInv v cp Hc) Hd) as (_ & _ & I).
  cbn zeta. pose proof (MInv_Inv _ _ I) as (Hs & _ & Hnd & _ & Hle).
  split; [exact Hs|]. split; [lia|]. split; [exact Hnd|].
  intros ->. destruct I as [[_ Hu] _]. rewrite Hs. apply units_total, Hu.
Qed.

Theorem no_panic v cp ops : cap_dom cp -> Forall op_dom ops -> Forall (fun x => x <> None) (snd (mrun v (new_lru cp) ops)).
Proof.
  intros Hc Hd. destruct (refines_ideal v cp ops Hc Hd) as [R _]. rewrite R.
  apply Forall_forall. intros x Hx. apply in_map_iff in Hx. destruct Hx as (y & <- & _). discriminate.
Qed.

(* the ideal cache keeps the longest prefix of the recency list that fits: what is evicted is a suffix (strictly the
   least recently used entries), the rest fits, and the most recent evicted entry would not have fitted *)
Theorem ideal_keeps_longest_prefix (l : list E) cp : nonneg l -> 0 <= cp ->
  l = trim cp l ++ dropped cp l /\ total (trim cp l) <= cp /\
  (forall x d, dropped cp l = x :: d -> cp < total (trim cp l) + snd x).
Proof.
  intros Hn Hc. split; [apply trim_dropped|]. split; [apply trim_total_le; assumption|].
  intros x d Hd. apply (trim_maximal l cp x d Hn Hc Hd).
Qed.

(* the set operations of the sized cache, fully explicit: contents, running size, eviction counter, removed values
   (least recently used first) *)
Theorem set_and_get_removed_spec c k v sz : Inv c -> cap c <= B -> 0 <= sz <= B ->
  let l' := touch k v sz (lst c) in
  gstep c (SetAndGetRemoved k v sz) =
  ({| lst := trim (cap c) l'; size := total (trim (cap c) l'); cap := cap c;
      evs := evs c + Z.of_nat (length (dropped (cap c) l')) |},
   Some (RList (map valof (rev (dropped (cap c) l'))))).
Proof.
  intros HI Hb Hs. cbn zeta.
  assert (Hok : op_ok (SetAndGetRemoved k v sz)) by (cbn; lia).
  assert (Hfit : op_fit (SetAndGetRemoved k v sz)) by (cbn; lia).
  destruct (mstep_refines VStd c _ (conj HI Hb) Hok Hfit) as (A & R & I). cbn [mstep norm] in A, R, I.
  destruct (gstep c (SetAndGetRemoved k v sz)) as [c' x]. cbn [fst snd] in A, R, I. subst x.
  destruct I as [(Hs' & _) _]. destruct c' as [l1 s1 c1 e1]. unfold abs in A. cbn [lst size cap evs istep settle fst snd] in *.
  inversion A; subst. reflexivity.
Qed.

(* SetIfAbsent on a present key refreshes its recency and keeps the old value *)
Lemma set_if_absent_present v c k x sz e : lookup k (lst c) = Some e ->
  mstep v c (SetIfAbsent k x sz) = (front c e k, Some RUnit).
Proof. intros El. destruct v; cbn [mstep gstep tstep]; rewrite El; reflexivity. Qed.

(* tiny: SetAndGetRemoved on a present key reports nothing removed, replaces the value and refreshes recency *)
Lemma tiny_update_in_place c k x sz e : lookup k (lst c) = Some e ->
  tstep c (SetAndGetRemoved k x sz) = (tupdate c k x, Some (RList [])).
Proof. intros El. cbn [tstep]. rewrite El. reflexivity. Qed.

(* ---------------- wide caches, from their constructors ---------------- *)
Theorem wide_refines v route capacity n h : wide_dom capacity n -> Forall wop_dom h ->
  snd (wide_run v route (wide_init capacity n) h) = map Some (snd (iwide_run v route (iwide_init capacity n) h)) /\
  forall i, abs (fst (wide_run v route (wide_init capacity n) h) i) = fst (iwide_run v route (iwide_init capacity n) h) i.
Proof.
  intros Hd Hh. destruct (wide_refines_ideal v route h _ _ (wide_init_rel v capacity n Hd) Hh) as (R & HR).
  split; [exact R|]. intros i. apply (HR i).
Qed.

(* ---------------- concurrent callers ----------------
   Every exported method is one critical section (lint), so a concurrent execution is the sequential execution of
   some interleaving of the callers' programs.  Every interleaving, by any schedule, is a history of the theorems
   above: whatever the schedule, all outcomes and the final contents are the ideal LRU's on that interleaving. *)
Fixpoint upd_nth {A} (i : nat) (x : A) (l : list A) : list A :=
  match l, i with
  | [], _ => []
  | _ :: t, O => x :: t
  | h :: t, S j => h :: upd_nth j x t
  end.
Definition is_nil {A} (l : list A) : bool := match l with [] => true | _ => false end.
(* sched = which caller's next call enters its critical section *)
Fixpoint merge (ts : list (list op)) (sched : list nat) : option (list op) :=
  match sched with
  | [] => if forallb is_nil ts then Some [] else None
  | i :: r => match nth_error ts i with
              | Some (o :: rest) => option_map (cons o) (merge (upd_nth i rest ts) r)
              | _ => None
              end
  end.

Lemma Forall_upd_nth {A} (P : A -> Prop) x : forall l i, Forall P l -> P x -> Forall P (upd_nth i x l).
Proof.
  induction l as [|h t IH]; intros i Hl Hx; [destruct i; cbn; constructor|]. inversion Hl; subst.
  destruct i; cbn [upd_nth]; constructor; auto.
Qed.

Lemma merge_forall (P : op -> Prop) sched : forall ts m, Forall (Forall P) ts -> merge ts sched = Some m -> Forall P m.
Proof.
  induction sched as [|i r IH]; intros ts m Hts Hm; cbn [merge] in Hm.
  - destruct (forallb is_nil ts); inversion Hm; constructor.
  - destruct (nth_error ts i) as [[|o rest]|] eqn:En; try discriminate.
    destruct (merge (upd_nth i rest ts) r) as [m'|] eqn:Em; cbn in Hm; inversion Hm; subst.
    apply nth_error_In in En. rewrite Forall_forall in Hts. pose proof (Hts _ En) as Ho. inversion Ho; subst.
    constructor; [assumption|]. apply (IH (upd_nth i rest ts) m'); [|exact Em].
    apply Forall_upd_nth; [apply Forall_forall; exact Hts|assumption].
Qed.

Theorem every_schedule v cp ts sched m : cap_dom cp -> Forall (Forall op_dom) ts -> merge ts sched = Some m ->
  snd (mrun v (new_lru cp) m) = map Some (snd (irun (new_istate cp) (map (norm v) m))) /\
  abs (fst (mrun v (new_lru cp) m)) = fst (irun (new_istate cp) (map (norm v) m)) /\
  (let c := fst (mrun v (new_lru cp) m) in size c = total (lst c) /\ size c <= cap c).
Proof.
  intros Hc Hts Hm. pose proof (merge_forall op_dom sched ts m Hts Hm) as Hd.
  destruct (refines_ideal v cp m Hc Hd) as [R A]. destruct (size_bound v cp m Hc Hd) as (S1 & S2 & _).
  split; [exact R|]. split; [exact A|]. cbn zeta. split; assumption.
Qed.

Example demo_schedule :
  merge [[Set_ 1 10 1; Get 2]; [Set_ 2 20 1; Get 1]] [0; 1; 1; 0]%nat = Some [Set_ 1 10 1; Set_ 2 20 1; Get 1; Get 2].
Proof. reflexivity. Qed.

(* ---------------- non-vacuity ---------------- *)
Example demo_tiny :
  let ops := [Set_ 1 10 1; Set_ 2 20 1; Get 1; Set_ 3 30 1; SetAndGetRemoved 1 11 1; SetAndGetRemoved 4 40 1; SetAndGetRemoved 5 50 1; SetCapacity 1; Delete 5] in
  Forall op_dom ops /\
  snd (mrun VTiny (new_lru 3) ops) =
    map Some [RUnit; RUnit; RVal (Some 10); RUnit; RList []; RList [20]; RList [30]; RUnit; RBool true] /\
  stats_of (fst (mrun VTiny (new_lru 3) ops)) = (0, 0, 1, 4).
Proof. cbn zeta. split; [repeat constructor; cbn; vm_compute; try discriminate; auto|split; vm_compute; reflexivity]. Qed.

Example demo_wide :
  let h := [WSet 1 10 1; WSet 3 30 1; WSet 5 50 1; WSet 2 20 2; WGet 1; WGet 3; WExist 2] in
  wide_dom 3 2 /\ Forall wop_dom h /\ shard_cap 3 2 = 2 /\
  snd (wide_run VStd (route_simple 2) (wide_init 3 2) h) =
    map Some [RUnit; RUnit; RUnit; RUnit; RVal None; RVal (Some 30); RBool true].
Proof.
  cbn zeta. split; [unfold wide_dom; vm_compute; repeat split; discriminate|].
  split; [repeat constructor; cbn; vm_compute; try discriminate; auto|]. split; vm_compute; reflexivity.
Qed.

Print Assumptions refines_ideal.
Print Assumptions set_and_get_removed_spec.
Print Assumptions every_schedule.
