(* C03: node.insert keeps shape, occupancy and the upper bound, and is total (item-level version of BTInsInv.v) *)
From Coq Require Import ZArith List Lia Bool Sorting.Sorted.
Require Import C03_Model C03_Spec C03_D C03_Ins.
Import ListNotations.
Local Coercion key : item >-> Z.

(* facts that do not depend on the degree *)
Lemma find_ix_bound : forall l k i0 i found, ifind_ix l k i0 = (i, found) ->
  (i0 <= i <= i0 + length l)%nat /\ (found = true -> (i < i0 + length l)%nat).
Proof.
  induction l as [|x l IH]; intros k i0 i found H; cbn [ifind_ix length] in *.
  - inversion H; subst. split; [lia|discriminate].
  - destruct (k <? x)%Z; [inversion H; subst; split; [lia|discriminate]|].
    destruct (k =? x)%Z; [inversion H; subst; split; [lia|intros _; lia]|].
    destruct (IH _ _ _ _ H) as [A B]. split; [lia|]. intros E. specialize (B E). lia.
Qed.
Lemma find_bound l k i found : ifind l k = (i, found) -> (i <= length l)%nat /\ (found = true -> (i < length l)%nat).
Proof. unfold ifind. intros H. destruct (find_ix_bound _ _ _ _ _ H) as [A B]. split; [lia|]. intros E. specialize (B E). lia. Qed.
Lemma length_insert_at {A} (l : list A) i x : (i <= length l)%nat -> length (insert_at l i x) = S (length l).
Proof. intros H. unfold insert_at. rewrite app_length. cbn [length]. rewrite firstn_length_le, skipn_length by lia. lia. Qed.
Lemma Forall_firstn' {A} (P : A -> Prop) (l : list A) i : Forall P l -> Forall P (firstn i l).
Proof. intros H. rewrite <- (firstn_skipn i l) in H. apply Forall_app in H. tauto. Qed.
Lemma Forall_skipn' {A} (P : A -> Prop) (l : list A) i : Forall P l -> Forall P (skipn i l).
Proof. intros H. rewrite <- (firstn_skipn i l) in H. apply Forall_app in H. tauto. Qed.
Lemma half_odd m : ((2 * m + 1) / 2 = m)%nat.
Proof. symmetry. apply (Nat.div_unique (2 * m + 1) 2 m 1); lia. Qed.

Section II.
Variable minI : nat.
Hypothesis minI_pos : (1 <= minI)%nat.
Definition maxI_of := (2 * minI + 1)%nat.
Notation maxI := maxI_of.

(* every descendant (not the inode itself) holds at most maxI items *)
Fixpoint upper (h : nat) (n : inode) : Prop :=
  match h with
  | O => True
  | S h' => Forall (fun c => (length (iitems c) <= maxI)%nat /\ upper h' c) (ichildren n)
  end.

(* what a child of a well-formed inode satisfies *)
Definition P (h : nat) (c : inode) : Prop :=
  shaped h c /\ ((minI <= length (iitems c))%nat /\ occ minI h c) /\ ((length (iitems c) <= maxI)%nat /\ upper h c).

Lemma node_P h its ch :
  (shaped (S h) (INode its ch) /\ occ minI (S h) (INode its ch) /\ upper (S h) (INode its ch))
  <-> (length ch = S (length its) /\ Forall (P h) ch).
Proof.
  cbn [shaped occ upper iitems ichildren]. unfold P. split.
  - intros ((Hl & Hs) & Ho & Hu). split; [exact Hl|]. apply Forall_forall. intros c Hc.
    pose proof (proj1 (Forall_forall _ _) Hs c Hc). pose proof (proj1 (Forall_forall _ _) Ho c Hc). pose proof (proj1 (Forall_forall _ _) Hu c Hc).
    cbv beta in *. tauto.
  - intros (Hl & HP). split; [split; [exact Hl|]|split]; apply Forall_forall; intros c Hc;
      pose proof (proj1 (Forall_forall _ _) HP c Hc); cbv beta in *; tauto.
Qed.

Lemma same_len h its its' ch : length its' = length its ->
  shaped h (INode its ch) /\ occ minI h (INode its ch) /\ upper h (INode its ch) ->
  shaped h (INode its' ch) /\ occ minI h (INode its' ch) /\ upper h (INode its' ch).
Proof.
  intros E. destruct h as [|h]; cbn [shaped occ upper iitems ichildren]; [tauto|]. rewrite E. tauto.
Qed.

(* the two halves of a full child are well-formed children with exactly minI items each *)
Lemma split_P h c : P h c -> length (iitems c) = maxI ->
  let '(_, c1, c2) := isplit c minI in
  P h c1 /\ P h c2 /\ length (iitems c1) = minI /\ length (iitems c2) = minI.
Proof.
  intros (Hs & (_ & Ho) & (_ & Hu)) Hlen.
  assert (Hi : (minI < length (iitems c))%nat) by (rewrite Hlen; unfold maxI; lia).
  pose proof (shaped_split h c minI Hs Hi) as Hss. unfold isplit in *. destruct c as [its ch]. cbn [iitems ichildren] in *.
  destruct Hss as [Hs1 Hs2].
  assert (L1 : length (firstn minI its) = minI) by (rewrite firstn_length_le; lia).
  assert (L2 : length (skipn (S minI) its) = minI) by (rewrite skipn_length, Hlen; unfold maxI; lia).
  unfold P. cbn [iitems ichildren]. rewrite L1, L2.
  assert (Hup : (minI <= maxI)%nat) by (unfold maxI; lia).
  destruct h as [|h].
  - cbn [occ upper]. repeat (split; try assumption; try lia).
  - cbn [occ upper shaped iitems ichildren] in *.
    destruct Hs as [Hl _]. assert (Hnil : is_nil ch = false) by (destruct ch; [cbn in Hl; lia|reflexivity]). rewrite Hnil in *.
    split; [|split; [|split; reflexivity]].
    + split; [exact Hs1|split; [split; [lia|apply Forall_firstn', Ho]|split; [lia|apply Forall_firstn', Hu]]].
    + split; [exact Hs2|split; [split; [lia|apply Forall_skipn', Ho]|split; [lia|apply Forall_skipn', Hu]]].
Qed.

Definition wf (h : nat) (n : inode) : Prop := shaped h n /\ occ minI h n /\ upper h n.

Theorem insert_good : forall fuel h n k, (h < fuel)%nat -> wf h n ->
  exists n' r, iinsert fuel maxI n k = Some (n', r) /\ wf h n' /\
    (length (iitems n) <= length (iitems n') <= S (length (iitems n)))%nat.
Proof.
  induction fuel as [|f IH]; intros h n k Hf Hwf; [lia|].
  destruct n as [its ch]. cbn [iinsert iitems ichildren].
  destruct (ifind its k) as [i found] eqn:Ef.
  destruct (find_bound its k i found Ef) as [Hi Hfi].
  destruct found.
  - (* replaced in place *)
    specialize (Hfi eq_refl). exists (INode (set_at its i k) ch), (Some (nth i its ditem)).
    assert (E : length (set_at its i k) = length its) by (apply length_set_at; lia).
    split; [reflexivity|]. split; [apply (same_len h its); [exact E|exact Hwf]|]. cbn [iitems]. lia.
  - destruct h as [|h].
    + (* leaf *)
      destruct Hwf as (Hs & _). cbn in Hs. subst ch. cbn [is_nil].
      exists (INode (insert_at its i k) []), None. split; [reflexivity|].
      split; [split; [reflexivity|split; exact I]|]. cbn [iitems]. rewrite length_insert_at by lia. lia.
    + (* internal inode *)
      apply node_P in Hwf. destruct Hwf as [Hl HP].
      assert (Hnil : is_nil ch = false) by (destruct ch; [cbn in Hl; lia|reflexivity]). rewrite Hnil.
      assert (Hic : (i < length ch)%nat) by lia.
      destruct (split_at ch i Hic) as (ca & c & cb & Hch & Hca).
      unfold nth_inode. assert (Hnth : nth i ch dinode = c) by (subst ch; apply nth_app_len'; exact Hca). rewrite Hnth.
      assert (HPs : Forall (P h) ca /\ P h c /\ Forall (P h) cb).
      { subst ch. apply Forall_app in HP. destruct HP as [A B]. inversion B; subst. auto. }
      destruct HPs as (HPa & HPc & HPb).
      assert (Hlen : (length ca + S (length cb) = S (length its))%nat) by (subst ch; rewrite app_length in Hl; cbn in Hl; lia).
      destruct (Nat.ltb (length (iitems c)) maxI) eqn:Efull.
      * (* room in the child *)
        apply Nat.ltb_lt in Efull. destruct HPc as (Hcs & (Hcm & Hco) & (_ & Hcu)).
        destruct (IH h c k ltac:(lia) (conj Hcs (conj Hco Hcu))) as (c' & r & Ei & (Hs' & Ho' & Hu') & Hb').
        rewrite Ei. exists (INode its (set_at ch i c')), r. split; [reflexivity|]. split; [|cbn [iitems]; lia].
        apply node_P. subst ch. rewrite (set_at_app' ca c cb c' i Hca). split; [rewrite app_length; cbn [length]; lia|].
        apply Forall_app. split; [exact HPa|]. constructor; [|exact HPb].
        split; [exact Hs'|split; [split; [lia|exact Ho']|split; [lia|exact Hu']]].
      * (* the child is full: exactly maxI items; isplit it in two halves of minI *)
        apply Nat.ltb_ge in Efull.
        assert (Hfull : length (iitems c) = maxI) by (destruct HPc as (_ & _ & (Hle & _)); lia).
        replace (maxI / 2)%nat with minI by (unfold maxI_of; symmetry; apply half_odd).
        pose proof (split_P h c HPc Hfull) as Hsp.
        destruct (isplit c minI) as [[mid c1] c2]. destruct Hsp as (HP1 & HP2 & L1 & L2).
        assert (Hits' : length (insert_at its i mid) = S (length its)) by (apply length_insert_at; lia).
        assert (Hch' : insert_at (set_at ch i c1) (S i) c2 = ca ++ c1 :: c2 :: cb).
        { subst ch. rewrite (set_at_app' ca c cb c1 i Hca).
          replace (ca ++ c1 :: cb) with ((ca ++ [c1]) ++ cb) by now rewrite <- app_assoc.
          rewrite insert_at_app by (rewrite app_length; cbn; lia). now rewrite <- app_assoc. }
        rewrite Hch'.
        assert (Hlen' : forall x y, length (ca ++ x :: y :: cb) = S (length (insert_at its i mid))).
        { intros x y. rewrite app_length. cbn [length]. lia. }
        assert (Hlt : (minI < maxI)%nat) by (unfold maxI; lia).
        destruct (k <? mid)%Z.
        -- destruct HP1 as (Hcs & (Hcm & Hco) & (_ & Hcu)).
           destruct (IH h c1 k ltac:(lia) (conj Hcs (conj Hco Hcu))) as (c' & r & Ei & (Hs' & Ho' & Hu') & Hb').
           rewrite Ei. exists (INode (insert_at its i mid) (set_at (ca ++ c1 :: c2 :: cb) i c')), r.
           split; [reflexivity|]. split; [|cbn [iitems]; lia].
           apply node_P. rewrite (set_at_app' ca c1 (c2 :: cb) c' i Hca). split; [apply Hlen'|].
           apply Forall_app. split; [exact HPa|]. constructor; [|constructor; [exact HP2|exact HPb]].
           split; [exact Hs'|split; [split; [lia|exact Ho']|split; [lia|exact Hu']]].
        -- destruct (mid <? k)%Z.
           ++ destruct HP2 as (Hcs & (Hcm & Hco) & (_ & Hcu)).
              destruct (IH h c2 k ltac:(lia) (conj Hcs (conj Hco Hcu))) as (c' & r & Ei & (Hs' & Ho' & Hu') & Hb').
              rewrite Ei. exists (INode (insert_at its i mid) (set_at (ca ++ c1 :: c2 :: cb) (S i) c')), r.
              split; [reflexivity|]. split; [|cbn [iitems]; lia].
              apply node_P. rewrite (set_at_app_S' ca c1 c2 cb c' i Hca). split; [apply Hlen'|].
              apply Forall_app. split; [exact HPa|]. constructor; [exact HP1|constructor; [|exact HPb]].
              split; [exact Hs'|split; [split; [lia|exact Ho']|split; [lia|exact Hu']]].
           ++ exists (INode (set_at (insert_at its i mid) i k) (ca ++ c1 :: c2 :: cb)), (Some mid).
              assert (E : length (set_at (insert_at its i mid) i k) = S (length its)) by (rewrite length_set_at; lia).
              split; [reflexivity|]. split; [|cbn [iitems]; lia].
              apply node_P. split; [rewrite E, <- Hits'; apply Hlen'|].
              apply Forall_app. split; [exact HPa|]. constructor; [exact HP1|constructor; [exact HP2|exact HPb]].
Qed.
End II.
