(* C08 bitmap1024: the specification side - what the property says, written without the model's loops.
   A bitmap is read as the set { j | mem j = true }; an iterator is described by the list of members
   in ascending order, cut to n, shifted by add, spliced into the slice at pos. *)
From Coq Require Import List Bool ZArith NArith Lia.
Require Import BitSet C08_Model.
Import ListNotations.
Open Scope Z_scope.

Fixpoint zseq (start : Z) (k : nat) : list Z := match k with O => [] | S k' => start :: zseq (start + 1) k' end.

(* membership *)
Definition mem64 (w : N) (j : Z) : bool := (0 <=? j) && (j <? 64) && N.testbit w (Z.to_N j).
(* j is in the bitmap: bit (j mod 64) of word (j / 64), for 0 <= j < 1024 (written with shifts so that the
   driver evaluates it quickly; mem1024_member in C08_Proofs.v: it is BitSet.member) *)
Definition mem1024 (ws : list N) (j : Z) : bool :=
  (0 <=? j) && (j <? 1024) && N.testbit (nth (Z.to_nat (Z.shiftr j 6)) ws 0%N) (Z.to_N (Z.land j 63)).
(* members in ascending order *)
Definition members64 (w : N) : list Z := filter (mem64 w) (zseq 0 64).
Definition members1024 (ws : list N) : list Z := filter (mem1024 ws) (zseq 0 1024).

(* well-formed inputs: a Bit64 is below 2^64, a Bit1024 has 16 of them *)
Definition wfw (w : N) : bool := N.ltb w W.
Definition wfws (ws : list N) : bool := Nat.eqb (length ws) 16 && forallb wfw ws.

(* the first n elements (n may be negative or huge: no conversion to nat) *)
Fixpoint ztake {A} (n : Z) (l : list A) : list A :=
  match l with [] => [] | x :: r => if n <=? 0 then [] else x :: ztake (n - 1) r end.

(* the slice after writing vals at pos *)
Definition splice (s : list Z) (pos : Z) (vals : list Z) : list Z :=
  firstn (Z.to_nat pos) s ++ vals ++ skipn (Z.to_nat pos + length vals) s.

(* "writes exactly the first min(n, Len) members in ascending (or descending) order, each offset by add,
    starting at slice position pos, and returns that count"; it can only do so when they fit: otherwise the
   Go runtime panics on the slice index (and nothing at all is written when there is nothing to write) *)
Definition spec_iter (ty : ity) (rev : bool) (ms : list Z) (s : list Z) (pos add n : Z) : out :=
  let sel := ztake n (if rev then List.rev ms else ms) in
  let vals := map (fun m => norm ty (m + add)) sel in
  let k := Z.of_nat (length vals) in
  match vals with
  | [] => Ok s 0
  | _ => if (0 <=? pos) && (pos + k <=? Z.of_nat (length s)) then Ok (splice s pos vals) k else Panic
  end.

(* GetN: the first min(n, Len) members themselves; a negative n is rejected (make panics) *)
Definition spec_getn (ty : ity) (rev : bool) (ms : list Z) (n : Z) : gout :=
  if n <? 0 then GPanic
  else GOk (map (fun m => norm ty m) (ztake n (if rev then List.rev ms else ms))).

(* ---- the set half: what the result of each operation must contain ---- *)
Definition count_if (p : Z -> bool) (l : list Z) : Z := Z.of_nat (length (filter p l)).
Definition same_set (p q : Z -> bool) (dom : list Z) : bool := forallb (fun j => Bool.eqb (p j) (q j)) dom.
Definition in1024 (i : Z) : bool := (0 <=? i) && (i <? 1024).
Definition dom1024 := zseq 0 1024.
Definition dom64 := zseq 0 64.

(* Set / Unset of index i: membership of exactly i changes when 0 <= i < 1024, nothing changes otherwise *)
Definition point_expect (k : pkind) (ws : list N) (i j : Z) : bool :=
  match k with
  | PSetI32 | PSetI16 => (in1024 i && Z.eqb j i) || mem1024 ws j
  | PUnsetI32 | PUnsetI16 => negb (in1024 i && Z.eqb j i) && mem1024 ws j
  end.
(* intersection, union, complement of the union *)
Definition bin_expect (k : bkind) (a b : list N) (j : Z) : bool :=
  match k with
  | BAnd => mem1024 a j && mem1024 b j
  | BOr => mem1024 a j || mem1024 b j
  | BOrThenReverse => negb (mem1024 a j || mem1024 b j)
  end.
(* Bit64's own methods (Set / Unset take a byte and ignore positions above 63) *)
Definition word_expect (k : wkind) (w : N) (arg j : Z) : bool :=
  match k with
  | WSet => ((arg <=? 63) && Z.eqb j arg) || mem64 w j
  | WUnset => negb ((arg <=? 63) && Z.eqb j arg) && mem64 w j
  | WAnd => mem64 w j && mem64 (Z.to_N arg) j
  | WOr => mem64 w j || mem64 (Z.to_N arg) j
  | WReverse => negb (mem64 w j)
  end.

(* ---- equality tests on outcomes ---- *)
Fixpoint zl_eqb (x y : list Z) : bool :=
  match x, y with [], [] => true | a :: x', b :: y' => Z.eqb a b && zl_eqb x' y' | _, _ => false end.
Fixpoint nl_eqb (x y : list N) : bool :=
  match x, y with [], [] => true | a :: x', b :: y' => N.eqb a b && nl_eqb x' y' | _, _ => false end.
Definition out_eqb (a b : out) : bool :=
  match a, b with
  | Panic, Panic => true
  | OutOfFuel, OutOfFuel => true
  | Ok s c, Ok s' c' => zl_eqb s s' && Z.eqb c c'
  | _, _ => false
  end.
Definition gout_eqb (a b : gout) : bool :=
  match a, b with
  | GPanic, GPanic => true
  | GOutOfFuel, GOutOfFuel => true
  | GOk l, GOk l' => zl_eqb l l'
  | _, _ => false
  end.

Lemma zl_eqb_eq x y : zl_eqb x y = true -> x = y.
Proof.
  revert y; induction x as [|a x IH]; destruct y as [|b y]; cbn [zl_eqb]; try discriminate; auto.
  intros H. apply andb_prop in H. destruct H as [H1 H2]. apply Z.eqb_eq in H1. subst b. f_equal. auto.
Qed.
Lemma zl_eqb_refl x : zl_eqb x x = true.
Proof. induction x as [|a x IH]; cbn [zl_eqb]; auto. rewrite Z.eqb_refl, IH. reflexivity. Qed.
Lemma nl_eqb_eq x y : nl_eqb x y = true -> x = y.
Proof.
  revert y; induction x as [|a x IH]; destruct y as [|b y]; cbn [nl_eqb]; try discriminate; auto.
  intros H. apply andb_prop in H. destruct H as [H1 H2]. apply N.eqb_eq in H1. subst b. f_equal. auto.
Qed.
Lemma out_eqb_eq a b : out_eqb a b = true -> a = b.
Proof.
  destruct a, b; cbn [out_eqb]; try discriminate; auto.
  intros H. apply andb_prop in H. destruct H as [H1 H2]. apply zl_eqb_eq in H1. apply Z.eqb_eq in H2. subst. reflexivity.
Qed.
Lemma out_eqb_refl a : out_eqb a a = true.
Proof. destruct a; cbn [out_eqb]; auto. rewrite zl_eqb_refl, Z.eqb_refl. reflexivity. Qed.
Lemma gout_eqb_eq a b : gout_eqb a b = true -> a = b.
Proof. destruct a, b; cbn [gout_eqb]; try discriminate; auto. intros H. apply zl_eqb_eq in H. subst. reflexivity. Qed.
Lemma gout_eqb_refl a : gout_eqb a a = true.
Proof. destruct a; cbn [gout_eqb]; auto. apply zl_eqb_refl. Qed.

