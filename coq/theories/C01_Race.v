(* C01: the two critical sections of a ReleaseX and of the cancellation of a queued caller commute whenever the
   release does not let that caller in.  This is why the harness may resolve a release/cancel pair that was issued
   without waiting in between from the waiter's return value alone: returned nil -> release first (the cancellation
   came too late); returned the context error -> "cancel first" is a correct resolution even if the release's critical
   section really ran first.  Both orders end in the SAME state with the same callers admitted. *)
From Coq Require Import ZArith List Lia Bool Arith.
Require Import Cases_Common Semap C01_Model C01_Check.
Import ListNotations.
Open Scope Z_scope.

Section Race.
Variable size : Z.
Hypothesis size_pos : 1 <= size.

(* the hand-off rule as a relation: from c tokens in use, queue Q is split into the admitted prefix g and the rest r *)
Definition greedy (c : Z) (Q g r : list (nat * Z)) (c' : Z) : Prop :=
  Q = g ++ r /\ c' = c + sumw g /\ c' <= size /\ head_unfit size c' r.

Lemma wf_app_inv a b : wf_w size (a ++ b) -> wf_w size a /\ wf_w size b.
Proof. unfold wf_w. apply Forall_app. Qed.

Lemma greedy_unique : forall g c Q r c1 g' r' c2, wf_w size Q ->
  greedy c Q g r c1 -> greedy c Q g' r' c2 -> g = g' /\ r = r' /\ c1 = c2.
Proof.
  induction g as [|x g IH]; intros c Q r c1 g' r' c2 Hw (E1 & C1 & L1 & U1) (E2 & C2 & L2 & U2).
  - cbn in E1. subst r. destruct g' as [|y g'].
    + cbn in E2. subst r'. cbn in C1, C2. repeat split; auto. lia.
    + exfalso. rewrite E2 in U1, Hw. cbn in U1. destruct y as [t n]. cbn in C1.
      change (sumw ((t, n) :: g')) with (n + sumw g') in C2.
      change ((t, n) :: g' ++ r') with (((t, n) :: g') ++ r') in Hw.
      apply wf_app_inv in Hw as [Hw _]. inversion Hw as [|? ? _ Hg']; subst.
      pose proof (sumw_pos size g' Hg') as [Hp _]. lia.
  - destruct g' as [|y g'].
    + exfalso. cbn in E2. subst r'. rewrite E1 in U2, Hw. destruct x as [t n]. cbn in U2. cbn in C2.
      change (sumw ((t, n) :: g)) with (n + sumw g) in C1.
      change (((t, n) :: g) ++ r) with (((t, n) :: g) ++ r) in Hw.
      apply wf_app_inv in Hw as [Hw _]. inversion Hw as [|? ? _ Hg']; subst.
      pose proof (sumw_pos size g Hg') as [Hp _]. lia.
    + rewrite E1 in E2. cbn in E2. inversion E2 as [[Hxy Et]]. subst y.
      destruct x as [t n].
      change (sumw ((t, n) :: g)) with (n + sumw g) in C1. change (sumw ((t, n) :: g')) with (n + sumw g') in C2.
      assert (Hw' : wf_w size (g ++ r)).
      { rewrite E1 in Hw. cbn in Hw. inversion Hw; auto. }
      destruct (IH (c + n) (g ++ r) r c1 g' r' c2 Hw') as (-> & -> & ->).
      * repeat split; auto. lia.
      * repeat split; auto. lia.
      * auto.
Qed.

Definition c_of (s : st) : Z := sumw (held s).

Lemma inv_rest s : Inv size s -> c_of s <= size /\ head_unfit size (c_of s) (qof s).
Proof.
  intros Hi. split; [apply (inv_sum_le size s size_pos Hi)|].
  destruct Hi as [_ He]. unfold qof, c_of. destruct (ent s) as [e|]; [|exact I].
  destruct He as (Hc & _ & _ & Hu). now rewrite <- Hc.
Qed.

(* a state satisfying the invariant is determined by its holders and its queue *)
Lemma state_ext s s' : Inv size s -> Inv size s' -> held s = held s' -> qof s = qof s' -> s = s'.
Proof.
  intros [_ He] [_ He'] Hh Hq. destruct s as [e h], s' as [e' h']. cbn [held] in *. subst h'. unfold qof in Hq. cbn [ent] in *.
  destruct e as [[c q]|], e' as [[c' q']|]; cbn [cur Semap.q] in *.
  - destruct He as (-> & _), He' as (-> & _). subst q'. reflexivity.
  - exfalso. destruct He as (Hc & Hb & _). rewrite He' in Hc. cbn in Hc. lia.
  - exfalso. destruct He' as (Hc & Hb & _). rewrite He in Hc. cbn in Hc. lia.
  - reflexivity.
Qed.

Lemma lookup_app_l t l g n : lookup t l = Some n -> lookup t (l ++ g) = Some n.
Proof.
  unfold lookup. induction l as [|[t' n'] l IH]; cbn; [discriminate|]. destruct (Nat.eqb t' t); cbn; auto.
Qed.
Lemma in_fst_lookup t l : In t (map fst l) -> exists n, lookup t l = Some n.
Proof.
  intros H. destruct (lookup t l) as [n|] eqn:E; [eauto|]. apply lookup_none_notin in E. contradiction.
Qed.

Lemma stepo_cancel_enabled s w n : lookup w (qof s) = Some n -> exists s' g, stepo size s (Cancel w) = Some (s', g, [w]).
Proof.
  unfold qof. cbn [stepo]. destruct (ent s) as [e|]; [|discriminate]. intros ->.
  destruct (_ && _).
  - destruct (notify size (cur e) (remove_t w (q e)) []) as [[c0 w0] g0]. eauto.
  - eauto.
Qed.
Lemma stepo_rel_enabled s h n : Inv size s -> lookup h (held s) = Some n -> exists s' g, stepo size s (Rel h) = Some (s', g, []).
Proof.
  intros [_ He] Hl. cbn [stepo]. destruct (ent s) as [e|].
  - rewrite Hl. destruct (notify size (cur e - n) (q e) []) as [[c0 w0] g0]. destruct (_ && _); eauto.
  - rewrite He in Hl. discriminate.
Qed.

Theorem race_commutes s h w s1 g1 c1 s2 g2 :
  Inv size s -> NoDup (tids s) ->
  stepo size s (Rel h) = Some (s1, g1, c1) -> stepo size s1 (Cancel w) = Some (s2, g2, [w]) ->
  exists s1' g1' g2',
    stepo size s (Cancel w) = Some (s1', g1', [w]) /\ stepo size s1' (Rel h) = Some (s2, g2', []) /\
    g1' ++ g2' = g1 ++ g2.
Proof.
  intros Hi Hnd E1 E2.
  pose proof (stepo_inv size size_pos _ (Rel h) _ _ _ Hi I E1) as Hi1.
  pose proof (stepo_inv size size_pos _ (Cancel w) _ _ _ Hi1 I E2) as Hi2.
  destruct (stepo_rel size _ _ _ _ _ Hi E1) as (-> & nh & gw1 & Hlh & -> & Hq1 & Hh1).
  destruct (stepo_cancel size _ _ _ _ _ Hi1 E2) as [(nw & Hlw1 & _ & gw2 & -> & Hr2 & Hh2)|(_ & _ & _ & _ & Hc)]; [|discriminate].
  assert (Hndq : NoDup (map fst (qof s))).
  { unfold tids in Hnd. rewrite map_app in Hnd. apply (nodup_app_r' _ _ Hnd). }
  assert (Hnot : ~ In w (map fst gw1)).
  { rewrite Hq1, map_app in Hndq. apply (nodup_app_notin _ _ w Hndq). eapply lookup_some_in_fst; eauto. }
  assert (Hlw : exists n, lookup w (qof s) = Some n).
  { apply in_fst_lookup. rewrite Hq1, map_app. apply in_or_app. right. eapply lookup_some_in_fst; eauto. }
  destruct Hlw as (nw0 & Hlw).
  (* the other order is enabled *)
  destruct (stepo_cancel_enabled s w nw0 Hlw) as (s1' & g1' & E1').
  pose proof (stepo_inv size size_pos _ (Cancel w) _ _ _ Hi I E1') as Hi1'.
  destruct (stepo_cancel size _ _ _ _ _ Hi E1') as [(n' & _ & _ & gw1' & -> & Hr1' & Hh1')|(Hn & _)]; [|congruence].
  assert (Hlh' : lookup h (held s1') = Some nh) by (rewrite Hh1'; now apply lookup_app_l).
  destruct (stepo_rel_enabled s1' h nh Hi1' Hlh') as (s2' & g2' & E2').
  pose proof (stepo_inv size size_pos _ (Rel h) _ _ _ Hi1' I E2') as Hi2'.
  destruct (stepo_rel size _ _ _ _ _ Hi1' E2') as (_ & nh' & gw2' & _ & -> & Hq2' & Hh2').
  (* both final states are the hand-off rule applied to the queue without w, from the tokens of the holders without h *)
  set (c0 := sumw (remove_first h (held s))).
  assert (Hwf : wf_w size (remove_t w (qof s))) by (apply wf_remove_t, qof_wf, Hi).
  assert (G1 : greedy c0 (remove_t w (qof s)) (gw1 ++ gw2) (qof s2) (c_of s2)).
  { destruct (inv_rest s2 Hi2) as [Hle Hu]. repeat split; auto.
    - rewrite Hq1, remove_t_app', (remove_t_notin _ _ Hnot), Hr2. now rewrite app_assoc.
    - unfold c_of, c0. rewrite Hh2, Hh1. rewrite !sumw_app. lia. }
  assert (G2 : greedy c0 (remove_t w (qof s)) (gw1' ++ gw2') (qof s2') (c_of s2')).
  { destruct (inv_rest s2' Hi2') as [Hle Hu]. repeat split; auto.
    - rewrite Hr1', Hq2'. now rewrite app_assoc.
    - unfold c_of, c0. rewrite Hh2', Hh1'. rewrite (remove_first_app _ _ _ _ Hlh). rewrite !sumw_app. lia. }
  destruct (greedy_unique _ _ _ _ _ _ _ _ Hwf G1 G2) as (Hg & Hr & _).
  assert (Hs : s2' = s2).
  { apply state_ext; auto. rewrite Hh2', Hh1', Hh2, Hh1. rewrite (remove_first_app _ _ _ _ Hlh).
    rewrite <- !app_assoc. f_equal. symmetry. exact Hg. }
  subst s2'. exists s1', (map fst gw1'), (map fst gw2'). split; [exact E1'|]. split; [exact E2'|].
  rewrite <- !map_app. now rewrite Hg.
Qed.
End Race.

Print Assumptions race_commutes.
