(* C10: the property's clauses as executable monitors over observed outcomes (no reference to bstep / rstep) *)
From Coq Require Import List Bool ZArith Lia.
Require Import LE Varint C10_Model.
Import ListNotations.
Open Scope Z_scope.

Definition is_write (o : op) : bool :=
  match o with
  | WU8 _ | WBool _ | WU16 _ | WI16 _ | WU32 _ | WI32 _ | WU64 _ | WI64 _ | WF64 _
  | WVarU64 _ | WVarI64 _ | WVarU32 _ | WVarI32 _ | WStr _ | WLimStr _ _ | WRaw _ => true
  | _ => false
  end.
Definition is_rewrite (o : op) : bool := match o with XReWrite _ _ | XReWriteU32 _ _ => true | _ => false end.

(* the read that belongs to a typed write *)
Definition reader_of (o : op) : op :=
  match o with
  | WU8 _ => RU8 | WBool _ => RBool | WU16 _ => RU16 | WI16 _ => RI16 | WU32 _ => RU32 | WI32 _ => RI32
  | WU64 _ => RU64 | WI64 _ => RI64 | WF64 _ => RF64
  | WVarU64 _ => RVarU64 | WVarI64 _ => RVarI64 | WVarU32 _ => RVarU32 | WVarI32 _ => RVarI32
  | WStr _ => RStr | WLimStr l _ => RLimStr l | WRaw p => RRead (zlen p)
  | _ => XLen
  end.
(* the value that was written, as the read reports it *)
Definition val_of (o : op) : outcome :=
  match o with
  | WU8 v | WU16 v | WI16 v | WU32 v | WI32 v | WU64 v | WI64 v | WF64 v
  | WVarU64 v | WVarI64 v | WVarU32 v | WVarI32 v => OInt v
  | WBool b => OBool b
  | WStr s | WLimStr _ s | WRaw s => OBytes s
  | _ => ODone
  end.
(* the value is one the Go type can hold (the harness can only pass such values); a string fits its limit and 32 bits *)
Definition inr (lo hi v : Z) : bool := (lo <=? v) && (v <? hi).
Definition wok (o : op) : bool :=
  match o with
  | WU8 v => inr 0 (2 ^ 8) v
  | WBool _ => true
  | WU16 v => inr 0 (2 ^ 16) v
  | WI16 v => inr (- 2 ^ 15) (2 ^ 15) v
  | WU32 v | WVarU32 v => inr 0 (2 ^ 32) v
  | WI32 v | WVarI32 v => inr (- 2 ^ 31) (2 ^ 31) v
  | WU64 v | WF64 v | WVarU64 v => inr 0 (2 ^ 64) v
  | WI64 v | WVarI64 v => inr (- 2 ^ 63) (2 ^ 63) v
  | WStr s => zlen s <? 2 ^ 32
  | WLimStr l s => (zlen s <=? l) && (l <? 2 ^ 32)
  | WRaw _ => true
  | _ => false
  end.

Definition is_err (o : outcome) : bool := match o with OErr _ => true | _ => false end.
Definition is_done (o : outcome) : bool := match o with ODone => true | _ => false end.
Definition is_panic (o : outcome) : bool := match o with OPanic => true | _ => false end.

(* ---- clause 1: typed writes, then the same typed reads: the written values come back, the buffer is empty.
        A limited string over its limit is refused (ErrSizeLimit): it is not part of the written sequence and must leave
        the buffer as it was, so that the accepted writes around it still read back ---- *)
Definition refused (o : op) : bool := match o with WLimStr l s => l <? uwrap 32 (zlen s) | _ => false end.
Definition accepted (o : op) : bool := negb (refused o).
Definition valid (o : op) : bool := wok o || refused o.
Definition wout (o : op) : outcome := if refused o then OErr ESizeLimit else ODone.
Definition round_ops (ws : list op) : list op := ws ++ XBytes :: map reader_of (filter accepted ws) ++ [XLen].
Definition is_bytes (o : outcome) : bool := match o with OBytes _ => true | _ => false end.
Definition round_ok (ws : list op) (obs : list outcome) : bool :=
  if forallb valid ws then
    let n := length ws in
    outs_eqb (firstn n obs) (map wout ws)
    && match skipn n obs with
       | b :: rest => is_bytes b && outs_eqb rest (map val_of (filter accepted ws) ++ [OInt 0])
       | [] => false
       end
  else true.

(* ---- clause 3: truncated input: every read reports the written value or an error, never another value, never a panic;
        a real truncation is reported by at least one error and leaves nothing unread ---- *)
Fixpoint val_or_err (ws : list op) (obs : list outcome) : bool :=
  match ws, obs with
  | [], [] => true
  | w :: ws', o :: obs' => (is_err o || outcome_eqb o (val_of w)) && val_or_err ws' obs'
  | _, _ => false
  end.
Definition trunc_ok (ws : list op) (total cut : Z) (obs : list outcome) : bool :=
  if forallb wok ws then
    let n := length ws in
    let robs := firstn n obs in
    outs_eqb (skipn n obs) [OInt 0]
    && val_or_err ws robs
    && (if cut <? total then existsb is_err robs else outs_eqb robs (map val_of ws))
  else true.

(* ---- clause 2: an in-place rewrite changes exactly the addressed bytes (and panics exactly when pos is outside 0..len) ---- *)
Definition rewrite_args (o : op) : Z * list Z :=
  match o with
  | XReWrite pos p => (pos, p)
  | XReWriteU32 pos v =>                                              (* the four little-endian bytes of uint32(v) *)
      let w := v mod 4294967296 in (pos, [w mod 256; (w / 256) mod 256; (w / 65536) mod 256; (w / 16777216) mod 256])
  | _ => (0, [])
  end.
Definition rewrite_ok (b0 : list Z) (o : op) (out : outcome) (b1 : list Z) : bool :=
  let '(pos, p) := rewrite_args o in
  if (pos <? 0) || (zlen b0 <? pos) then is_panic out && zl_eqb b1 b0
  else is_done out
       && (zlen b1 =? zlen b0)
       && forallb (fun i => let z := Z.of_nat i in
                            nth i b1 0 =? (if (pos <=? z) && (z <? pos + zlen p) then nth (Z.to_nat (z - pos)) p 0 else nth i b0 0))
                  (seq 0 (length b0)).

(* ---- clause 3 on arbitrary histories / arbitrary bytes: nothing but an out-of-range rewrite panics; every call reports
        a value of its type or an error; sizes respect the request and the limit; wrong counts are refused ---- *)
Definition shape_ok (o : op) (out : outcome) : bool :=
  match o with
  | WLimStr _ _ => match out with ODone | OErr ESizeLimit => true | _ => false end
  | WU8 _ | WBool _ | WU16 _ | WI16 _ | WU32 _ | WI32 _ | WU64 _ | WI64 _ | WF64 _
  | WVarU64 _ | WVarI64 _ | WVarU32 _ | WVarI32 _ | WStr _ | WRaw _ | XReset => is_done out
  | RBool => match out with OBool _ | OErr _ => true | _ => false end
  | RI16 => match out with OInt z => inr (- 2 ^ 15) (2 ^ 15) z | OErr _ => true | _ => false end
  | RI32 | RVarI32 => match out with OInt z => inr (- 2 ^ 31) (2 ^ 31) z | OErr _ => true | _ => false end
  | RI64 => match out with OInt z => inr (- 2 ^ 63) (2 ^ 63) z | OErr _ => true | _ => false end
  | RVarU32 => match out with OInt z => inr 0 (2 ^ 32) z | OErr _ => true | _ => false end
  | RU8 | RU16 | RU32 | RU64 | RF64 | RVarU64 | RVarI64 => match out with OInt _ | OErr _ => true | _ => false end
  | RStr => match out with OBytes _ | OErr _ => true | _ => false end
  | RLimStr limit => match out with OBytes l => zlen l <=? Z.max 0 limit | OErr _ => true | _ => false end
  | RRead n => match out with OBytes l => zlen l =? Z.max 0 n | OErr _ => true | _ => false end
  | RReadN n => match out with OBytes l => (0 <? n) && (zlen l =? n) | OErr e => (0 <? n) || err_eqb e EWrongNum | _ => false end
  | RZReadN n => match out with OBytes l => (0 <=? n) && (zlen l =? n) | OErr e => (0 <=? n) || err_eqb e EWrongNum | _ => false end
  | XReWrite _ _ | XReWriteU32 _ _ => is_done out || is_panic out
  | XLen => match out with OInt z => 0 <=? z | _ => false end
  | XBytes => is_bytes out
  end.
(* ... and what is known about the unread length stays true: Len() / len(Bytes()) is what the last observation said
   after any number of refused writes (a write that returns an error leaves the buffer unchanged), in-place rewrites
   (which never change the length) and queries; Reset makes it 0 *)
Definition obs_len (out : outcome) : option Z :=
  match out with OInt z => Some z | OBytes l => Some (zlen l) | _ => None end.
Definition next_known (known : option Z) (o : op) (out : outcome) : option Z :=
  match o with
  | XLen | XBytes => obs_len out
  | XReset => Some 0
  | XReWrite _ _ | XReWriteU32 _ _ => known
  | _ => if is_write o && is_err out then known else None
  end.
Definition len_ok (known : option Z) (o : op) (out : outcome) : bool :=
  match o with
  | XLen | XBytes => match known, obs_len out with Some n, Some m => n =? m | _, _ => true end
  | _ => true
  end.
Fixpoint hist_ok' (known : option Z) (ops : list op) (obs : list outcome) : bool :=
  match ops, obs with
  | [], [] => true
  | o :: ops', out :: obs' => shape_ok o out && len_ok known o out && hist_ok' (next_known known o out) ops' obs'
  | _, _ => false
  end.
Definition hist_ok (init : list Z) (ops : list op) (obs : list outcome) : bool := hist_ok' (Some (zlen init)) ops obs.

(* ---- a value that a read returned is a value: it is still the same after any later use of the buffer
        (now = the results the caller still holds, looked at again after the whole history) ---- *)
Definition hold_ok (obs now : list outcome) : bool := outs_eqb obs now.

(* ---- clause 4: the stream reader decodes exactly what the buffer reader decodes: the same value at every read, an error
        exactly where the buffer reader reports one, the same bytes left over; no panic ---- *)
Definition sim (a b : outcome) : bool := negb (is_panic a) && (outcome_eqb a b || (is_err a && is_err b)).
Fixpoint sims (x y : list outcome) : bool :=
  match x, y with [], [] => true | a :: x', b :: y' => sim a b && sims x' y' | _, _ => false end.
Definition stream_ok (obs_r : list outcome) (rest_r : list Z) (obs_b : list outcome) (rest_b : list Z) : bool :=
  sims obs_r obs_b && zl_eqb rest_r rest_b.
