(* C20 core: the quoted-decimal wrappers (JsUInt64 as the representative) decode exactly or fail *)
From Coq Require Import ZArith List Lia Bool.
Require Import Decimal.
Import ListNotations.
Open Scope Z_scope.

Definition QUOTE := 34.
Inductive res := Ok (v : Z) | Err.

Definition inner (b : list Z) : list Z := removelast (tl b).            (* b[1 : len-1] *)

(* strconv.ParseUint(s, 10, 64): digits only, at least one, value below 2^64 *)
Definition parse_u64 (s : list Z) : res :=
  match parse s with Some v => if v <? 2 ^ 64 then Ok v else Err | None => Err end.

Definition unmarshal (checked : bool) (b : list Z) : res :=
  if Nat.leb (length b) 2 then Err
  else if checked && negb ((hd 0 b =? QUOTE) && (last b 0 =? QUOTE)) then Err     (* the repair *)
  else parse_u64 (inner b).

Definition marshal (v : Z) : list Z := QUOTE :: digits 20 v ++ [QUOTE].

(* what a token denotes, independently of the decoder: a quoted non-empty digit string and its value *)
Definition denotes (b : list Z) (v : Z) : Prop :=
  exists s, b = QUOTE :: s ++ [QUOTE] /\ s <> [] /\ Forall (fun d => is_digit d = true) s /\ parse s = Some v.

Lemma parse_acc_digits : forall s acc v, parse_acc s acc = Some v -> Forall (fun d => is_digit d = true) s.
Proof.
  induction s as [|d s IH]; intros acc v H; [constructor|]. cbn in H.
  destruct (is_digit d) eqn:E; [|discriminate]. constructor; eauto.
Qed.

Theorem exact_or_error b v : unmarshal true b = Ok v -> denotes b v /\ 0 <= v < 2 ^ 64.
Proof.
  unfold unmarshal. destruct (Nat.leb (length b) 2) eqn:El; [discriminate|]. apply Nat.leb_gt in El.
  cbn [andb]. destruct ((hd 0 b =? QUOTE) && (last b 0 =? QUOTE)) eqn:Eq; cbn [negb]; [|discriminate].
  apply andb_prop in Eq as [Eh Et]. apply Z.eqb_eq in Eh. apply Z.eqb_eq in Et.
  unfold parse_u64. destruct (parse (inner b)) as [w|] eqn:Ep; [|discriminate].
  destruct (w <? 2 ^ 64) eqn:Ew; [|discriminate]. intros [= <-]. apply Z.ltb_lt in Ew.
  destruct b as [|b0 r]; [cbn in El; lia|]. cbn in Eh. subst b0.
  assert (Hr : r <> []) by (destruct r; [cbn in El; lia|discriminate]).
  rewrite (app_removelast_last 0 Hr) in Et |- *.
  assert (Hlast : last (QUOTE :: removelast r ++ [last r 0]) 0 = last r 0).
  { clear. generalize (removelast r). intros l. induction l as [|x l IH]; cbn; auto. destruct (l ++ [last r 0]) eqn:E; auto.
    apply app_eq_nil in E as [_ E]. discriminate. }
  rewrite Hlast in Et. rewrite Et.
  unfold inner in Ep. cbn [tl] in Ep.
  assert (Hs : removelast r <> []).
  { intros E0. rewrite E0 in Ep. cbn in Ep. discriminate. }
  split.
  - exists (removelast r). repeat split; auto.
    unfold parse in Ep. destruct (removelast r) eqn:E; [congruence|]. rewrite <- E in *. eapply parse_acc_digits; eauto.
  - split; [|exact Ew]. unfold parse in Ep. destruct (removelast r) as [|d s] eqn:E; [congruence|].
    assert (H : forall s acc v, 0 <= acc -> parse_acc s acc = Some v -> 0 <= v).
    { clear. induction s as [|d0 s0 IH]; intros acc v0 Ha Hp; cbn in Hp; [inversion Hp; lia|].
      destruct (is_digit d0) eqn:Ed; [|discriminate]. unfold is_digit in Ed. apply andb_prop in Ed as [E1 E2].
      apply Z.leb_le in E1. eapply IH; [|exact Hp]. lia. }
    eapply H; [|exact Ep]. lia.
Qed.

Theorem roundtrip v : 0 <= v < 2 ^ 64 -> unmarshal true (marshal v) = Ok v.
Proof.
  intros Hv. assert (Hlt : 2 ^ 64 < 10 ^ Z.of_nat 20) by (vm_compute; reflexivity).
  destruct (digits_rev_spec 20 v ltac:(lia)) as (_ & _ & Hne). specialize (Hne ltac:(discriminate)).
  unfold unmarshal, marshal.
  assert (Hd : digits 20 v <> []).
  { unfold digits. intros E. apply (f_equal (@rev Z)) in E. rewrite rev_involutive in E. change (rev []) with (@nil Z) in E. congruence. }
  destruct (digits 20 v) as [|d ds] eqn:Ed; [congruence|].
  replace (Nat.leb (length (QUOTE :: (d :: ds) ++ [QUOTE])) 2) with false
    by (symmetry; apply Nat.leb_gt; cbn; rewrite app_length; cbn; lia).
  assert (Hlast : last (QUOTE :: (d :: ds) ++ [QUOTE]) 0 = QUOTE).
  { clear. generalize (d :: ds). intros l. induction l as [|x l IH]; cbn; auto. destruct (l ++ [QUOTE]) eqn:E; auto.
    apply app_eq_nil in E as [_ E]. discriminate. }
  rewrite Hlast. cbn [hd]. rewrite !Z.eqb_refl. cbn [andb negb].
  unfold inner. cbn [tl]. rewrite removelast_last. rewrite <- Ed.
  unfold parse_u64.
  assert (Hv20 : 0 <= v < 10 ^ Z.of_nat 20) by (split; [apply Hv|eapply Z.lt_trans; [apply Hv|exact Hlt]]).
  rewrite (parse_digits 20 v ltac:(discriminate) Hv20).
  replace (v <? 2 ^ 64) with true by (symmetry; apply Z.ltb_lt; lia). reflexivity.
Qed.

(* the pinned tree (no quote check): the bare JSON number 123 decodes to 2 *)
Example bare_number_refuted : unmarshal false [49; 50; 51] = Ok 2.
Proof. vm_compute. reflexivity. Qed.
Print Assumptions exact_or_error.
Print Assumptions roundtrip.
