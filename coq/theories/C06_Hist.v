(* C06: whole histories of the three generators, for every clock trajectory.
   The only guard is the representability of the 63-bit format (hard_dom / mono readings below 2^(51-nb) /
   nano_dom); inside it nothing wraps and the exact model of C06_Model.v is the ideal machine of Gen.v. *)
From Coq Require Import ZArith List Lia Bool Sorted.
Require Import BitField Gen C06_Model.
Import ListNotations.
Open Scope Z_scope.

(* ---------------------------------------------------------------- small list facts *)
Lemma SS_map_impl {A B} (R : A -> A -> Prop) (R' : B -> B -> Prop) (P : A -> Prop) (f : A -> B) l :
  (forall a b, P a -> P b -> R a b -> R' (f a) (f b)) ->
  StronglySorted R l -> Forall P l -> StronglySorted R' (map f l).
Proof.
  intros H HS. induction HS as [|a l HS IH HF]; intros HP; cbn [map]; constructor.
  - apply IH. now inversion HP.
  - inversion HP as [|? ? Pa Pl]; subst. rewrite Forall_forall in *. intros y Hy.
    apply in_map_iff in Hy as (x & <- & Hx). apply H; auto.
Qed.

Lemma F2_impl {A B} (P Q : A -> B -> Prop) l1 l2 : (forall a b, P a b -> Q a b) -> Forall2 P l1 l2 -> Forall2 Q l1 l2.
Proof. intros H. induction 1; constructor; auto. Qed.

Lemma SS_app_r {A} (R : A -> A -> Prop) l1 l2 : StronglySorted R (l1 ++ l2) -> StronglySorted R l2.
Proof. induction l1 as [|a l1 IH]; cbn; auto. intros H. apply IH. now inversion H. Qed.

Lemma SS_app_cross {A} (R : A -> A -> Prop) l1 l2 x : StronglySorted R (l1 ++ l2) -> In x l1 -> Forall (R x) l2.
Proof.
  induction l1 as [|a l1 IH]; cbn; [tauto|]. intros H [->|Hx].
  - inversion H as [|? ? _ HF]; subst. apply Forall_app in HF. tauto.
  - apply IH; auto. now inversion H.
Qed.

Lemma SS_filter {A} (R : A -> A -> Prop) (p : A -> bool) l : StronglySorted R l -> StronglySorted R (filter p l).
Proof.
  induction 1 as [|a l HS IH HF]; cbn [filter]; [constructor|].
  destruct (p a); auto. constructor; auto.
  rewrite Forall_forall in *. intros y Hy. apply filter_In in Hy. apply HF. tauto.
Qed.

Lemma SS_lt_NoDup l : StronglySorted Z.lt l -> NoDup l.
Proof.
  induction 1 as [|a l HS IH HF]; constructor; auto.
  intros Hin. rewrite Forall_forall in HF. specialize (HF a Hin). lia.
Qed.

(* ================================================================ the ideal machine: keys along a run *)

Lemma generate_key_le s now : wf s -> key (generate s now) <= Z.max (key s) (now * 4096) + 1.
Proof.
  intros H. unfold wf, key, generate in *.
  destruct (time s <? now) eqn:E; [apply Z.ltb_lt in E | apply Z.ltb_ge in E]; cbn [time step].
  - lia.
  - rewrite (land_stepmax (step s + 1)) by (unfold stepMax in H; lia). unfold stepMax in *.
    destruct ((step s + 1) mod 4096 =? 0) eqn:E0; [apply Z.eqb_eq in E0 | apply Z.eqb_neq in E0]; cbn [time step].
    + assert (Hs : step s + 1 < 4096 \/ step s + 1 = 4096) by lia.
      destruct Hs as [Hs|Hs]; [rewrite Z.mod_small in E0 by lia; lia | lia].
    + assert (Hs : step s + 1 < 4096 \/ step s + 1 = 4096) by lia.
      destruct Hs as [Hs|Hs]; [rewrite Z.mod_small by lia; lia | rewrite Hs in E0; cbn in E0; congruence].
Qed.

Lemma run_sorted : forall clock s, wf s -> StronglySorted (fun a b => key a < key b) (s :: run s clock).
Proof.
  induction clock as [|now r IH]; intros s Hs; cbn [run].
  - constructor; constructor.
  - destruct (generate_step s now Hs) as (Hw & Hk & _ & _).
    specialize (IH _ Hw). constructor; [exact IH|].
    inversion IH as [|? ? _ HF]; subst. constructor; [exact Hk|].
    eapply Forall_impl; [|exact HF]. cbn. intros; lia.
Qed.

(* ================================================================ HardNode *)

Definition rels (c : cfg) (clocks : list Z) : list Z := map (fun k => k - epoch c) clocks.

(* largest key any reading can force: max (key s0) (now * 4096) over the readings *)
Definition kbound (c : cfg) (s0 : st) (clocks : list Z) : Z :=
  fold_left (fun b k => Z.max b ((k - epoch c) * 4096)) clocks (key s0).

(* the representability guard of a whole history: configuration in range, seed time not negative, every reading
   an int64 difference, and  max key + number of calls  below 2^(63 - nb)  (= time below 2^(63 - timeShift)) *)
Definition hard_dom (c : cfg) (s0 : st) (clocks : list Z) : bool :=
  (0 <=? nb c) && (nb c <=? 50) && (0 <=? time s0)
  && forallb (fun k => -9223372036854775808 <=? k - epoch c) clocks
  && (kbound c s0 clocks + Z.of_nat (length clocks) <? 2 ^ (63 - nb c)).

Lemma fold_max_ge (f : Z -> Z) l : forall b, b <= fold_left (fun b k => Z.max b (f k)) l b
  /\ Forall (fun k => f k <= fold_left (fun b k => Z.max b (f k)) l b) l.
Proof.
  induction l as [|k l IH]; intros b; cbn [fold_left]; [split; [lia|constructor]|].
  destruct (IH (Z.max b (f k))) as [H1 H2]. split; [lia|]. constructor; [lia|exact H2].
Qed.

Lemma hard_dom_unfold c s0 clocks : hard_dom c s0 clocks = true ->
  cfg_ok c /\ 0 <= time s0 /\ key s0 <= kbound c s0 clocks
  /\ Forall (fun k => -9223372036854775808 <= k - epoch c /\ (k - epoch c) * 4096 <= kbound c s0 clocks) clocks
  /\ kbound c s0 clocks + Z.of_nat (length clocks) < 2 ^ (63 - nb c).
Proof.
  unfold hard_dom. intros H.
  apply andb_prop in H as [H H5]. apply andb_prop in H as [H H4]. apply andb_prop in H as [H H3].
  apply andb_prop in H as [H1 H2].
  apply Z.leb_le in H1, H2, H3. apply Z.ltb_lt in H5.
  destruct (fold_max_ge (fun k => (k - epoch c) * 4096) clocks (key s0)) as [G1 G2].
  fold (kbound c s0 clocks) in G1, G2.
  split; [unfold cfg_ok; lia|]. split; [exact H3|]. split; [exact G1|]. split; [|exact H5].
  rewrite forallb_forall in H4. rewrite Forall_forall in *. intros k Hk. split.
  - apply Z.leb_le. now apply H4.
  - now apply G2.
Qed.

Lemma pow63_le c : cfg_ok c -> 2 ^ (63 - nb c) <= 9223372036854775808.
Proof. intros H. unfold cfg_ok in H. change 9223372036854775808 with (2 ^ 63). apply Z.pow_le_mono_r; lia. Qed.

(* the exact machine is the ideal machine on every history inside the guard, and every state is representable *)
Lemma hard_inv c : cfg_ok c -> forall clocks s K j,
  wf s -> 0 <= time s -> 0 <= j -> key s <= K + j ->
  Forall (fun k => -9223372036854775808 <= k - epoch c /\ (k - epoch c) * 4096 <= K) clocks ->
  K + j + Z.of_nat (length clocks) < 2 ^ (63 - nb c) ->
  hard_states c s clocks = run s (rels c clocks)
  /\ Forall (fun s' => wf s' /\ time_ok c s') (run s (rels c clocks))
  /\ Forall2 (fun k s' => k - epoch c <= time s') clocks (run s (rels c clocks)).
Proof.
  intros Hc. pose proof (pow63_le c Hc) as Hp.
  induction clocks as [|k r IH]; intros s K j Hw Ht Hj Hk HF Hb; cbn [hard_states rels map run].
  - split; [reflexivity|]. split; constructor.
  - inversion HF as [|? ? [Hk1 Hk2] HF']; subst. cbn [length] in Hb. rewrite Nat2Z.inj_succ in Hb.
    assert (Hkey : key s < 9223372036854775808) by lia.
    assert (E : hard_generate c s k = generate s (k - epoch c)).
    { apply hard_generate_ideal; [lia|]. unfold key, wf, stepMax in *. lia. }
    rewrite E. destruct (generate_step s (k - epoch c) Hw) as (Hw' & Hk' & Hnow & Htime).
    pose proof (generate_key_le s (k - epoch c) Hw) as Hle.
    destruct (IH (generate s (k - epoch c)) K (j + 1) Hw' ltac:(lia) ltac:(lia) ltac:(lia) HF' ltac:(lia)) as (I1 & I2 & I3).
    fold (rels c r). split; [now rewrite I1|]. split.
    + constructor; [|exact I2]. split; [exact Hw'|]. apply key_time_ok; auto; lia.
    + constructor; [exact Hnow|exact I3].
Qed.

Theorem hard_spec c node s0 clocks : node_ok c node -> wf s0 -> hard_dom c s0 clocks = true ->
  let sts := hard_states c s0 clocks in
  sts = run s0 (rels c clocks)
  /\ StronglySorted (fun a b => key a < key b) (s0 :: sts)
  /\ Forall (fun s => wf s /\ time_ok c s) (s0 :: sts)
  /\ Forall2 (fun k s => k - epoch c <= time s) clocks sts.
Proof.
  intros Hn Hw Hd sts. destruct (hard_dom_unfold c s0 clocks Hd) as (Hc & Ht & Hk & HF & Hb).
  destruct (hard_inv c Hc clocks s0 (kbound c s0 clocks) 0 Hw Ht ltac:(lia) ltac:(lia) HF ltac:(lia)) as (I1 & I2 & I3).
  unfold sts. rewrite I1. split; [reflexivity|]. split; [apply run_sorted, Hw|]. split; [|exact I3].
  constructor; [|exact I2]. split; [exact Hw|]. apply key_time_ok; auto.
  assert (0 <= Z.of_nat (length clocks)) by lia. lia.
Qed.

(* clause 1: every id exceeds every earlier id of the node (and the id the node was seeded from), whatever the
   clock does: stalls, steps back, any number of 4096-wraps *)
Theorem hard_strictly_increasing c node s0 clocks : node_ok c node -> wf s0 -> hard_dom c s0 clocks = true ->
  StronglySorted Z.lt (id_x c node s0 :: hard_ids c node s0 clocks).
Proof.
  intros Hn Hw Hd. destruct (hard_spec c node s0 clocks Hn Hw Hd) as (_ & HS & HF & _).
  destruct (hard_dom_unfold c s0 clocks Hd) as (Hc & _).
  change (id_x c node s0 :: hard_ids c node s0 clocks) with (map (id_x c node) (s0 :: hard_states c s0 clocks)).
  eapply (SS_map_impl _ Z.lt (fun s => wf s /\ time_ok c s)); [|exact HS|exact HF].
  intros a b [Wa Ta] [Wb Tb] Hab. rewrite (id_x_ideal c node a), (id_x_ideal c node b) by assumption.
  now apply ideal_order.
Qed.

Corollary hard_unique c node s0 clocks : node_ok c node -> wf s0 -> hard_dom c s0 clocks = true ->
  NoDup (hard_ids c node s0 clocks).
Proof.
  intros Hn Hw Hd. pose proof (hard_strictly_increasing c node s0 clocks Hn Hw Hd) as H.
  apply SS_lt_NoDup. now inversion H.
Qed.

(* clauses 3 and 4: IDFields of the k-th id = (time, configured node, step) with time >= k-th reading - epoch *)
Theorem hard_fields c node s0 clocks : node_ok c node -> wf s0 -> hard_dom c s0 clocks = true ->
  Forall2 (fun k id => exists t stp, id_fields c id = (t, node, stp) /\ k - epoch c <= t /\ 0 <= stp <= 4095)
          clocks (hard_ids c node s0 clocks).
Proof.
  intros Hn Hw Hd. destruct (hard_spec c node s0 clocks Hn Hw Hd) as (_ & _ & HF & H2).
  destruct (hard_dom_unfold c s0 clocks Hd) as (Hc & _).
  inversion HF as [|? ? _ HF']; subst. clear HF. unfold hard_ids.
  revert HF' H2. generalize (hard_states c s0 clocks) as sts. intros sts HF' H2. clear Hd.
  induction H2 as [|k s ks ss Hks H2 IH]; cbn [map]; constructor.
  - inversion HF' as [|? ? [Ws Ts] _]; subst. exists (time s), (step s).
    rewrite (id_x_ideal c node s) by assumption. rewrite fields_of_ideal by assumption.
    unfold wf, stepMax in Ws. split; [reflexivity|]. split; [exact Hks|lia].
  - apply IH. now inversion HF'.
Qed.

Corollary hard_time_not_before_clock c node s0 clocks : node_ok c node -> wf s0 -> hard_dom c s0 clocks = true ->
  Forall2 (fun k id => k <= f_time (id_fields c id) + epoch c) clocks (hard_ids c node s0 clocks).
Proof.
  intros Hn Hw Hd. eapply F2_impl; [|apply (hard_fields c node s0 clocks Hn Hw Hd)].
  intros k id (t & stp & E & Hk & _). cbv beta. rewrite E. unfold f_time. cbn [fst]. lia.
Qed.

Corollary hard_node_field c node s0 clocks : node_ok c node -> wf s0 -> hard_dom c s0 clocks = true ->
  Forall (fun id => f_node (id_fields c id) = node) (hard_ids c node s0 clocks).
Proof.
  intros Hn Hw Hd. pose proof (hard_fields c node s0 clocks Hn Hw Hd) as H. clear Hd.
  revert H. generalize (hard_ids c node s0 clocks) as ids. intros ids H.
  induction H as [|k id ks ids (t & stp & E & _) _ IH]; constructor; [rewrite E; reflexivity|exact IH].
Qed.

(* ---------------------------------------------------------------- restart *)
Lemma node_ok_valid c node : node_ok c node -> node_valid c node = true.
Proof.
  unfold node_ok, node_valid. intros H.
  destruct (node <? 0) eqn:E1; [apply Z.ltb_lt in E1; lia|].
  destruct (2 ^ nb c - 1 <? node) eqn:E2; [apply Z.ltb_lt in E2; lia|]. reflexivity.
Qed.

Lemma node_valid_ok c node : node_valid c node = true -> node_ok c node.
Proof.
  unfold node_ok, node_valid. intros H. apply negb_true_iff, orb_false_iff in H as [H1 H2].
  apply Z.ltb_ge in H1, H2. lia.
Qed.

Lemma seed_wf c min : wf (seed c min).
Proof.
  unfold wf, seed, id_fields, f_step, stepMax. cbn [snd step].
  change 4095 with (Z.ones 12). rewrite Z.land_ones by lia.
  pose proof (Z.mod_pos_bound (Z.shiftr min (sshift c)) (2 ^ 12) ltac:(lia)) as H.
  change (2 ^ 12) with 4096 in *. change (Z.ones 12) with 4095. lia.
Qed.

(* NewNode on an id this node issued reconstructs exactly the state that issued it *)
Theorem restart_state c node s : cfg_ok c -> node_ok c node -> wf s -> time_ok c s ->
  new_node c node (id_x c node s) = Some s.
Proof.
  intros Hc Hn Hw Ht. unfold new_node. rewrite (node_ok_valid c node Hn).
  unfold seed. rewrite (id_x_ideal c node s Hc Hn Hw Ht), (fields_of_ideal c node s Hc Hn Hw).
  unfold f_time, f_step. cbn. now destruct s.
Qed.

(* any non-negative int64 whose node field is the configured node is the id of the state it seeds *)
Theorem seed_id c node min : cfg_ok c -> 0 <= min < 9223372036854775808 -> f_node (id_fields c min) = node ->
  node_ok c node /\ time_ok c (seed c min) /\ id_x c node (seed c min) = min.
Proof.
  intros Hc Hm Hnode. destruct (fields_compose c min Hc ltac:(lia)) as (E & Hn & Hw & Ht).
  cbv zeta in E, Hn, Hw, Ht. rewrite Hnode in E, Hn. fold (seed c min) in E, Hw.
  assert (Hto : time_ok c (seed c min)).
  { unfold time_ok. split; [exact Ht|].
    pose proof (low_bound c node (seed c min) Hc Hn Hw) as Hl. unfold id_ideal in E.
    unfold cfg_ok in Hc.
    assert (Hp : 0 < 2 ^ (nb c + 12)) by (apply Z.pow_pos_nonneg; lia).
    assert (Ep : 2 ^ (51 - nb c) * 2 ^ (nb c + 12) = 9223372036854775808).
    { rewrite <- Z.pow_add_r by lia. replace (51 - nb c + (nb c + 12)) with 63 by lia. reflexivity. }
    change (f_time (id_fields c min)) with (time (seed c min)). nia. }
  split; [exact Hn|]. split; [exact Hto|]. rewrite (id_x_ideal c node _ Hc Hn Hw Hto). now symmetry.
Qed.

Lemma last_cons {A} (l : list A) : forall a d, last (a :: l) d = last l a.
Proof.
  induction l as [|b l IH]; intros a d; [reflexivity|].
  change (last (a :: b :: l) d) with (last (b :: l) d). rewrite (IH b d), (IH b a). reflexivity.
Qed.

Lemma last_map {A B} (f : A -> B) (l : list A) : forall d, last (map f l) (f d) = f (last l d).
Proof. induction l as [|a [|b l] IH]; intros d; cbn; auto. apply (IH d). Qed.

Lemma hard_states_app c : forall h1 h2 s,
  hard_states c s (h1 ++ h2) = hard_states c s h1 ++ hard_states c (last (hard_states c s h1) s) h2.
Proof.
  induction h1 as [|k r IH]; intros h2 s; cbn [app hard_states]; [reflexivity|].
  rewrite IH. rewrite last_cons. reflexivity.
Qed.

(* clause 2: a node restarted (NewNode) with the last id it issued is in the very state it stopped in; the ids it
   then issues are the ids the uninterrupted node would have issued, so all of them lie above every earlier id *)
Theorem hard_restart c node s0 h1 h2 : node_ok c node -> wf s0 -> hard_dom c s0 (h1 ++ h2) = true ->
  let last_id := last (hard_ids c node s0 h1) (id_x c node s0) in
  exists s1, new_node c node last_id = Some s1
    /\ hard_ids c node s0 (h1 ++ h2) = hard_ids c node s0 h1 ++ hard_ids c node s1 h2
    /\ Forall (fun id' => Forall (fun id => id < id') (id_x c node s0 :: hard_ids c node s0 h1)) (hard_ids c node s1 h2).
Proof.
  intros Hn Hw Hd last_id.
  destruct (hard_spec c node s0 (h1 ++ h2) Hn Hw Hd) as (_ & _ & HF & _).
  destruct (hard_dom_unfold c s0 (h1 ++ h2) Hd) as (Hc & _).
  pose proof (hard_strictly_increasing c node s0 (h1 ++ h2) Hn Hw Hd) as HS.
  set (s1 := last (hard_states c s0 h1) s0).
  assert (Hl : last_id = id_x c node s1).
  { unfold last_id, hard_ids, s1. apply last_map. }
  assert (Hin : In s1 (s0 :: hard_states c s0 (h1 ++ h2))).
  { rewrite hard_states_app. unfold s1. generalize (hard_states c s0 h1). intros l.
    destruct l as [|a l]; [now left|]. right. apply in_or_app. left.
    assert (a :: l <> []) by discriminate. apply (@exists_last _ (a :: l)) in H as (l' & x & E). rewrite E.
    rewrite last_last. apply in_or_app. right. now left. }
  rewrite Forall_forall in HF. destruct (HF s1 Hin) as [W1 T1].
  exists s1. split; [rewrite Hl; now apply restart_state|].
  assert (Eapp : hard_ids c node s0 (h1 ++ h2) = hard_ids c node s0 h1 ++ hard_ids c node s1 h2).
  { unfold hard_ids. rewrite hard_states_app, map_app. reflexivity. }
  split; [exact Eapp|].
  rewrite Eapp in HS. rewrite app_comm_cons in HS.
  rewrite Forall_forall. intros id' Hid'. rewrite Forall_forall. intros id Hid.
  pose proof (SS_app_cross Z.lt _ _ id HS Hid) as HX. rewrite Forall_forall in HX. now apply HX.
Qed.

(* ---------------------------------------------------------------- schedules *)
(* Generate is one critical section (lint): a concurrent execution is the sequence of critical sections in lock
   order.  A label (g, k): caller g holds the mutex and reads the clock value k.  The node's answers in lock order: *)
Definition sched_run (c : cfg) (node : Z) (s0 : st) (labels : list (nat * Z)) : list (nat * Z) :=
  combine (map fst labels) (hard_ids c node s0 (map snd labels)).

Definition ids_of (g : nat) (out : list (nat * Z)) : list Z := map snd (filter (fun x => Nat.eqb (fst x) g) out).

Lemma SS_map_snd_combine (l1 : list nat) : forall (l2 : list Z), StronglySorted Z.lt l2 ->
  StronglySorted (fun a b => snd a < snd b) (combine l1 l2).
Proof.
  induction l1 as [|g l1 IH]; intros l2 H; cbn [combine]; [constructor|].
  destruct l2 as [|x l2]; [constructor|]. inversion H as [|? ? HS HF]; subst. constructor; [now apply IH|].
  rewrite Forall_forall in *. intros [g' y] Hy. apply in_combine_r in Hy. cbn. now apply HF.
Qed.

Lemma hard_states_length c : forall l s, length (hard_states c s l) = length l.
Proof. induction l as [|k l IH]; intros s; cbn [hard_states length]; auto. Qed.

Lemma combine_fst {A B} : forall (l1 : list A) (l2 : list B), length l1 = length l2 -> map fst (combine l1 l2) = l1.
Proof. induction l1 as [|a l1 IH]; destruct l2 as [|b l2]; cbn; try discriminate; auto. intros H. f_equal. apply IH. lia. Qed.
Lemma combine_snd {A B} : forall (l1 : list A) (l2 : list B), length l1 = length l2 -> map snd (combine l1 l2) = l2.
Proof. induction l1 as [|a l1 IH]; destruct l2 as [|b l2]; cbn; try discriminate; auto. intros H. f_equal. apply IH. lia. Qed.

(* for every schedule of every number of callers: all ids handed out are pairwise distinct, ordered like the lock
   order, and each caller sees its own ids strictly increasing *)
Theorem hard_any_schedule c node s0 labels : node_ok c node -> wf s0 -> hard_dom c s0 (map snd labels) = true ->
  let out := sched_run c node s0 labels in
  map fst out = map fst labels
  /\ StronglySorted Z.lt (map snd out)
  /\ NoDup (map snd out)
  /\ forall g, StronglySorted Z.lt (ids_of g out).
Proof.
  intros Hn Hw Hd out.
  pose proof (hard_strictly_increasing c node s0 (map snd labels) Hn Hw Hd) as HS.
  inversion HS as [|? ? HS' _]; subst. clear HS.
  assert (Hlen : length (map fst labels) = length (hard_ids c node s0 (map snd labels))).
  { unfold hard_ids. rewrite !map_length, hard_states_length, map_length. reflexivity. }
  assert (E2 : map snd out = hard_ids c node s0 (map snd labels)) by (apply combine_snd, Hlen).
  assert (E1 : map fst out = map fst labels) by (apply combine_fst, Hlen).
  split; [exact E1|]. split; [now rewrite E2|]. split; [rewrite E2; now apply SS_lt_NoDup|].
  intros g. unfold ids_of.
  eapply (SS_map_impl (fun a b => snd a < snd b) Z.lt (fun _ => True)); [intros; assumption| |apply Forall_forall; auto].
  apply SS_filter. unfold out, sched_run. now apply SS_map_snd_combine.
Qed.

(* ---------------------------------------------------------------- sufficient condition for the guard *)
(* a plain bound on readings and call count gives the guard: readings below L ms after the epoch, at most n calls,
   (max (time s0 + 1) L) * 4096 + n below 2^(63-nb) *)
Lemma kbound_le c s0 clocks B : key s0 <= B -> Forall (fun k => (k - epoch c) * 4096 <= B) clocks -> kbound c s0 clocks <= B.
Proof.
  unfold kbound. generalize (key s0) as b.
  induction clocks as [|k r IH]; intros b Hb HF; cbn [fold_left]; [exact Hb|].
  inversion HF; subst. apply IH; auto. lia.
Qed.

Theorem hard_dom_sufficient c s0 clocks L : cfg_ok c -> wf s0 -> 0 <= time s0 ->
  Forall (fun k => -9223372036854775808 <= k - epoch c < L) clocks ->
  Z.max (time s0 + 1) L * 4096 + Z.of_nat (length clocks) < 2 ^ (63 - nb c) ->
  hard_dom c s0 clocks = true.
Proof.
  intros Hc Hw Ht HF Hb. unfold hard_dom, cfg_ok in *.
  assert (Hk : kbound c s0 clocks <= Z.max (time s0 + 1) L * 4096).
  { apply kbound_le; [unfold key, wf, stepMax in *; lia|].
    eapply Forall_impl; [|exact HF]. cbn. intros; lia. }
  repeat (apply andb_true_intro; split); try (apply Z.leb_le; lia).
  - apply forallb_forall. intros k Hk'. rewrite Forall_forall in HF. apply Z.leb_le. specialize (HF k Hk'). lia.
  - apply Z.ltb_lt. lia.
Qed.

(* ---------------------------------------------------------------- the defect repaired by fix 16 *)
(* 8-bit node layout, epoch 2011-05-11, clock at 2270-01-01: inside the guard, yet the UnixNano read wraps and
   the issued time field lies before the clock reading *)
Theorem hard_time_not_before_clock_unixnano_refuted :
  exists c s clk, hard_dom c s [clk] = true /\ wf s /\
    time (hard_generate_prefix c s clk) < clk - epoch c /\ clk - epoch c <= time (hard_generate c s clk).
Proof.
  exists {| epoch := 1305072000000; nb := 8; lowest := false |}, {| time := 0; step := 0 |}, 9467107200000.
  split; [vm_compute; reflexivity|]. split; [unfold wf, stepMax; cbn; lia|].
  split; vm_compute; [reflexivity|discriminate].
Qed.

(* ================================================================ MonoNode *)

Lemma spin_spec t rs r : spin t rs = Some r -> t < r /\ In r rs.
Proof.
  induction rs as [|x rs IH]; cbn [spin]; [discriminate|].
  destruct (x <=? t) eqn:E; [apply Z.leb_le in E | apply Z.leb_gt in E].
  - intros H. destruct (IH H). split; [assumption|now right].
  - intros H. inversion H; subst. split; [lia|now left].
Qed.

Lemma mono_step s now sp s' : wf s -> time s <= now -> mono_generate s now sp = Some s' ->
  wf s' /\ key s < key s' /\ In (time s') (now :: sp).
Proof.
  intros Hw Hle. unfold mono_generate, wf, key in *.
  destruct (now =? time s) eqn:E; [apply Z.eqb_eq in E | apply Z.eqb_neq in E].
  - change (Z.land (step s + 1) 4095) with (Z.land (step s + 1) stepMax).
    rewrite (land_stepmax (step s + 1)) by (unfold stepMax in Hw; lia). unfold stepMax in *.
    assert (Hs : step s + 1 < 4096 \/ step s + 1 = 4096) by lia.
    destruct ((step s + 1) mod 4096 =? 0) eqn:E0; [apply Z.eqb_eq in E0 | apply Z.eqb_neq in E0].
    + destruct (spin (time s) sp) as [r|] eqn:Es; [|discriminate]. intros H; inversion H; subst; cbn [time step].
      destruct (spin_spec _ _ _ Es) as [Hr Hin]. split; [lia|]. split; [lia|now right].
    + intros H; inversion H; subst; cbn [time step].
      destruct Hs as [Hs|Hs]; [rewrite Z.mod_small by lia | rewrite Hs in E0; cbn in E0; congruence].
      split; [lia|]. split; [lia|now left].
  - intros H; inversion H; subst; cbn [time step]. unfold stepMax in *. split; [lia|]. split; [lia|now left].
Qed.

Definition flat (ins : list (Z * list Z)) : list Z := concat (map (fun x => fst x :: snd x) ins).

(* under non-decreasing readings (Go's monotonic clock) every key exceeds all earlier ones; every time is a reading *)
Lemma mono_inv : forall ins s l, wf s -> StronglySorted Z.le (time s :: flat ins) -> mono_states s ins = Some l ->
  StronglySorted (fun a b => key a < key b) (s :: l) /\ Forall wf l /\ Forall (fun s' => In (time s') (flat ins)) l.
Proof.
  induction ins as [|[now sp] r IH]; intros s l Hw HS; cbn [mono_states].
  - intros H; inversion H; subst. split; [repeat constructor|]. split; constructor.
  - destruct (mono_generate s now sp) as [s'|] eqn:Eg; [|discriminate].
    destruct (mono_states s' r) as [l'|] eqn:Er; [|discriminate]. intros H; inversion H; subst. clear H.
    unfold flat in HS. cbn [map concat fst snd] in HS. fold (flat r) in HS.
    inversion HS as [|? ? HS1 HF1]; subst.
    assert (Hle : time s <= now) by (inversion HF1; assumption).
    destruct (mono_step s now sp s' Hw Hle Eg) as (Hw' & Hk & Hin).
    change ((now :: sp) ++ flat r) with ((now :: sp) ++ flat r) in HS1.
    assert (HS' : StronglySorted Z.le (time s' :: flat r)).
    { constructor; [apply (SS_app_r Z.le (now :: sp)); exact HS1|]. apply (SS_app_cross Z.le (now :: sp)); assumption. }
    destruct (IH s' l' Hw' HS' Er) as (I1 & I2 & I3).
    split; [|split].
    + constructor; [exact I1|]. inversion I1 as [|? ? _ HF]; subst. constructor; [exact Hk|].
      eapply Forall_impl; [|exact HF]. cbn. intros; lia.
    + constructor; assumption.
    + unfold flat. cbn [map concat fst snd]. fold (flat r). constructor.
      * change (In (time s') ((now :: sp) ++ flat r)). apply in_or_app. now left.
      * eapply Forall_impl; [|exact I3]. intros a Ha. cbv beta in *.
        change (In (time a) ((now :: sp) ++ flat r)). apply in_or_app. now right.
Qed.

Theorem mono_strictly_increasing c node ins s l : cfg_ok c -> node_ok c node -> wf s -> time_ok c s ->
  StronglySorted Z.le (time s :: flat ins) -> Forall (fun r => r < 2 ^ (51 - nb c)) (flat ins) ->
  mono_states s ins = Some l ->
  StronglySorted Z.lt (map (id_x c node) (s :: l))
  /\ Forall (fun s' => id_fields c (id_x c node s') = (time s', node, step s')) l.
Proof.
  intros Hc Hn Hw Ht HS HB Hm. destruct (mono_inv ins s l Hw HS Hm) as (I1 & I2 & I3).
  assert (HT : Forall (fun s' => wf s' /\ time_ok c s') (s :: l)).
  { constructor; [split; assumption|]. rewrite Forall_forall in *. intros s' Hs'. split; [auto|].
    unfold time_ok. inversion HS as [|? ? _ HF]; subst. rewrite Forall_forall in HF.
    specialize (I3 s' Hs'). specialize (HF _ I3). specialize (HB _ I3). unfold time_ok in Ht. lia. }
  split.
  - eapply (SS_map_impl _ Z.lt (fun s => wf s /\ time_ok c s)); [|exact I1|exact HT].
    intros a b [Wa Ta] [Wb Tb] Hab. rewrite (id_x_ideal c node a), (id_x_ideal c node b) by assumption.
    now apply ideal_order.
  - inversion HT as [|? ? _ HT']; subst. eapply Forall_impl; [|exact HT']. cbn. intros s' [W T].
    rewrite (id_x_ideal c node s') by assumption. now apply fields_of_ideal.
Qed.

(* ================================================================ UnixNanoID *)

Definition nano_dom (cur : Z) (tss : list Z) : bool :=
  (-9223372036854775808 <=? cur) && (fold_left Z.max tss cur + Z.of_nat (length tss) <? 9223372036854775808).

Lemma nano_inv : forall tss cur B j, -9223372036854775808 <= cur -> 0 <= j -> cur <= B + j ->
  Forall (fun ts => ts <= B) tss -> B + j + Z.of_nat (length tss) < 9223372036854775808 ->
  StronglySorted Z.lt (cur :: nano_run cur tss)
  /\ Forall2 (fun ts id => ts <= id) tss (nano_run cur tss).
Proof.
  induction tss as [|ts r IH]; intros cur B j Hc Hj Hb HF Hlim; cbn [nano_run].
  - split; [repeat constructor|constructor].
  - inversion HF as [|? ? Hts HF']; subst. cbn [length] in Hlim. rewrite Nat2Z.inj_succ in Hlim.
    assert (E : nano_gen cur ts = Z.max ts (cur + 1)).
    { unfold nano_gen. destruct (cur <? ts) eqn:El; [apply Z.ltb_lt in El; lia|apply Z.ltb_ge in El].
      rewrite wrap64_small by lia. lia. }
    destruct (IH (nano_gen cur ts) B (j + 1) ltac:(lia) ltac:(lia) ltac:(lia) HF' ltac:(lia)) as [I1 I2].
    split.
    + constructor; [exact I1|]. inversion I1 as [|? ? _ HF1]; subst. constructor; [lia|].
      eapply Forall_impl; [|exact HF1]. cbn. intros; lia.
    + constructor; [lia|exact I2].
Qed.

Lemma fold_max_ge' l : forall b, b <= fold_left Z.max l b /\ Forall (fun k => k <= fold_left Z.max l b) l.
Proof.
  induction l as [|k l IH]; intros b; cbn [fold_left]; [split; [lia|constructor]|].
  destruct (IH (Z.max b k)) as [H1 H2]. split; [lia|]. constructor; [lia|exact H2].
Qed.

(* every id is above the starting value and above every earlier id, and not below the supplied timestamp *)
Theorem nano_strictly_increasing cur tss : nano_dom cur tss = true ->
  StronglySorted Z.lt (cur :: nano_run cur tss) /\ Forall2 (fun ts id => ts <= id) tss (nano_run cur tss).
Proof.
  unfold nano_dom. intros H. apply andb_prop in H as [H1 H2]. apply Z.leb_le in H1. apply Z.ltb_lt in H2.
  destruct (fold_max_ge' tss cur) as [G1 G2].
  apply (nano_inv tss cur (fold_left Z.max tss cur) 0); auto; lia.
Qed.

Print Assumptions hard_restart.
Print Assumptions hard_any_schedule.
Print Assumptions mono_strictly_increasing.
Print Assumptions nano_strictly_increasing.
