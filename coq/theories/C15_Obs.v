(* C15: observations of sequential histories - decidable equalities, the model's observation, the monitor *)
From Coq Require Import List Bool ZArith Lia.
Require Export C15_Model.
Require Import C15_Proofs.
Import ListNotations.
Open Scope Z_scope.

(* ------------------------------------------------------------------ decidable equalities *)
Fixpoint list_eqb {A} (e : A -> A -> bool) (x y : list A) : bool :=
  match x, y with [], [] => true | a :: x', b :: y' => e a b && list_eqb e x' y' | _, _ => false end.
Definition opt_eqb {A} (e : A -> A -> bool) (x y : option A) : bool :=
  match x, y with Some a, Some b => e a b | None, None => true | _, _ => false end.
Definition err_eqb (a b : err) : bool :=
  match a, b with
  | EInj, EInj | ENotFound, ENotFound | EExists, EExists | EMissing, EMissing
  | EDupKey, EDupKey | EClosed, EClosed | EFull, EFull | ECtx, ECtx => true
  | _, _ => false end.
Definition oz_eqb := opt_eqb Z.eqb.              (* values: an integer or nil *)
Definition ov_eqb := opt_eqb oz_eqb.             (* cache answers: miss, or hit with a value *)
Definition sres_eqb (a b : sres) : bool :=
  match a, b with SOk x, SOk y => oz_eqb x y | SErr x, SErr y => err_eqb x y | _, _ => false end.
Definition res_eqb (a b : res) : bool :=
  match a, b with
  | ROk x, ROk y => oz_eqb x y | RNil, RNil => true | RErr x, RErr y => err_eqb x y
  | RPanic, RPanic => true | RHang, RHang => true | _, _ => false end.
Definition event_eqb (a b : event) : bool :=
  match a, b with
  | EvGet k r, EvGet k' r' => (k =? k') && ov_eqb r r'
  | EvPeek k r, EvPeek k' r' => (k =? k') && ov_eqb r r'
  | EvSet k v, EvSet k' v' => (k =? k') && oz_eqb v v'
  | EvDel k, EvDel k' => k =? k'
  | EvLoad k r, EvLoad k' r' => (k =? k') && sres_eqb r r'
  | EvAdd k d r, EvAdd k' d' r' => (k =? k') && (d =? d') && sres_eqb r r'
  | EvUpd k d p r, EvUpd k' d' p' r' => (k =? k') && (d =? d') && oz_eqb p p' && sres_eqb r r'
  | EvUpsert k d p r, EvUpsert k' d' p' r' => (k =? k') && (d =? d') && oz_eqb p p' && sres_eqb r r'
  | EvDelete k r, EvDelete k' r' => (k =? k') && opt_eqb err_eqb r r'
  | _, _ => false end.

Lemma list_eqb_eq {A} (e : A -> A -> bool) (He : forall a b, e a b = true -> a = b) x y : list_eqb e x y = true -> x = y.
Proof.
  revert y; induction x as [|a x IH]; destruct y as [|b y]; cbn; try discriminate; auto.
  intros H. apply andb_prop in H as [H1 H2]. f_equal; auto.
Qed.
Lemma opt_eqb_eq {A} (e : A -> A -> bool) (He : forall a b, e a b = true -> a = b) x y : opt_eqb e x y = true -> x = y.
Proof. destruct x, y; cbn; try discriminate; auto. intros H. f_equal; auto. Qed.
Lemma err_eqb_eq a b : err_eqb a b = true -> a = b.
Proof. destruct a, b; cbn; try discriminate; reflexivity. Qed.
Lemma zeqb_eq a b : (a =? b) = true -> a = b.
Proof. apply Z.eqb_eq. Qed.
Lemma oz_eqb_eq a b : oz_eqb a b = true -> a = b.
Proof. apply opt_eqb_eq. exact zeqb_eq. Qed.
Lemma ov_eqb_eq a b : ov_eqb a b = true -> a = b.
Proof. apply opt_eqb_eq. exact oz_eqb_eq. Qed.
Lemma sres_eqb_eq a b : sres_eqb a b = true -> a = b.
Proof. destruct a, b; cbn; try discriminate; intros H; f_equal; [now apply oz_eqb_eq | now apply err_eqb_eq]. Qed.
Lemma res_eqb_eq a b : res_eqb a b = true -> a = b.
Proof. destruct a, b; cbn; try discriminate; intros H; f_equal; try reflexivity; [now apply oz_eqb_eq | now apply err_eqb_eq]. Qed.

Ltac split_andb H :=
  repeat match type of H with
  | (_ && _) = true => let H1 := fresh H in apply andb_prop in H as [H H1]
  end.

Lemma event_eqb_eq a b : event_eqb a b = true -> a = b.
Proof.
  destruct a, b; cbn; try discriminate; intros H;
    repeat match goal with
    | H : (_ && _) = true |- _ => apply andb_prop in H; destruct H
    end;
    repeat match goal with
    | H : (_ =? _) = true |- _ => apply Z.eqb_eq in H
    | H : oz_eqb _ _ = true |- _ => apply oz_eqb_eq in H
    | H : ov_eqb _ _ = true |- _ => apply ov_eqb_eq in H
    | H : sres_eqb _ _ = true |- _ => apply sres_eqb_eq in H
    | H : opt_eqb err_eqb _ _ = true |- _ => apply (opt_eqb_eq err_eqb err_eqb_eq) in H
    end; subst; reflexivity.
Qed.

(* ------------------------------------------------------------------ sequential histories *)
(* what the harness sees: ObsStore = store callbacks only (groups built by NewWorkGrpWithMapCache / ...WithLRU),
   ObsAll = also the cache writes of the handlers (logging facade around the real one) and the cache contents *)
Inductive obs_level := ObsStore | ObsAll.

Definition project (l : obs_level) (evs : list event) : list event :=
  match l with ObsStore => filter is_store_ev evs | ObsAll => filter (fun e => negb (is_read_ev e)) evs end.

Record sobs := mkObs {
  ob_events : list event;          (* the projected event list of the operation, in order *)
  ob_res : res;                    (* what the caller got *)
  ob_worker : option Z;            (* index of the cache that served the operation's cache calls (ObsAll only) *)
  ob_cache : list (option val);    (* after the operation, key by key of the universe: the group's cache (ObsAll only) *)
  ob_store : list val              (* after the operation, key by key of the universe: the store (nil = no row) *)
}.
(* st_cancel: the context of this call was cancelled by one of its callbacks.  The handlers do not look at the context
   (as coded), so cache, store and callbacks are those of an uncancelled call; AsyncC.R selects between ctx.Done() and
   the result channel, so the caller receives either its result or the context's error *)
Record sstep := mkStep { st_op : op; st_faults : list fault; st_cancel : bool; st_obs : sobs }.

Definition is_ctx (r : res) : bool := match r with RErr ECtx => true | _ => false end.

Definition sobs_match (cancel : bool) (m o : sobs) : bool :=
  list_eqb event_eqb (ob_events m) (ob_events o)
  && (res_eqb (ob_res m) (ob_res o) || (cancel && is_ctx (ob_res o)))
  && oz_eqb (ob_worker m) (ob_worker o)
  && list_eqb ov_eqb (ob_cache m) (ob_cache o) && list_eqb oz_eqb (ob_store m) (ob_store o).
Lemma sobs_match_eq cancel m o : sobs_match cancel m o = true ->
  ob_events o = ob_events m /\ ob_worker o = ob_worker m /\ ob_cache o = ob_cache m /\ ob_store o = ob_store m
  /\ (ob_res o = ob_res m \/ ob_res o = RErr ECtx).
Proof.
  unfold sobs_match. intros H.
  apply andb_prop in H as [H H4]. apply andb_prop in H as [H H3]. apply andb_prop in H as [H H5]. apply andb_prop in H as [H1 H2].
  apply (list_eqb_eq _ event_eqb_eq) in H1. apply oz_eqb_eq in H5.
  apply (list_eqb_eq _ ov_eqb_eq) in H3. apply (list_eqb_eq _ oz_eqb_eq) in H4.
  repeat (split; [congruence|]).
  apply orb_prop in H2 as [H2|H2]; [left; apply res_eqb_eq in H2; congruence|].
  right. apply andb_prop in H2 as [_ H2]. destruct (ob_res o) as [| |e| |]; try discriminate. destruct e; try discriminate. reflexivity.
Qed.

Definition snap_cache (l : obs_level) (c : gcfg) (g : grp) (univ : list Z) : list (option val) :=
  match l with ObsStore => [] | ObsAll => map (cache_at c g) univ end.
Definition is_cache_ev (e : event) : bool := negb (is_store_ev e).
Definition snap_worker (l : obs_level) (w : Z) (evs : list event) : option Z :=
  match l with ObsStore => None | ObsAll => if existsb is_cache_ev evs then Some w else None end.
Definition snap_store (c : gcfg) (g : grp) (univ : list Z) : list val := map (store_at c g) univ.

(* the model's observation of one operation *)
Definition model_step (l : obs_level) (c : gcfg) (univ : list Z) (g : grp) (o : op) (fs : list fault) : grp * sobs :=
  let '(g', evs, r) := do_op c g o fs in
  (g', mkObs (project l evs) r (snap_worker l (loc_of c (key_of o)) evs) (snap_cache l c g' univ) (snap_store c g' univ)).

Fixpoint seq_accept (l : obs_level) (c : gcfg) (univ : list Z) (g : grp) (steps : list sstep) : bool :=
  match steps with
  | [] => true
  | s :: rest => let '(g', o) := model_step l c univ g (st_op s) (st_faults s) in
                 existsb (Z.eqb (key_of (st_op s))) univ      (* a well-formed case: the key is one of the universe *)
                 && (0 <? g_n c)                              (* ... and the group has at least one worker *)
                 && sobs_match (st_cancel s) o (st_obs s) && seq_accept l c univ g' rest
  end.

(* ------------------------------------------------------------------ the monitor for sequential histories:
   clauses of the property on what was observed; nothing here mentions the model's state *)
Fixpoint index_of (k : Z) (univ : list Z) : option nat :=
  match univ with [] => None | x :: r => if x =? k then Some O else option_map S (index_of k r) end.
Definition at_key {A} (univ : list Z) (snap : list (option A)) (k : Z) : option A :=
  match index_of k univ with Some i => nth i snap None | None => None end.

(* coherence of a pair of snapshots: a cached value is the store's value *)
Fixpoint coherent (ca : list (option val)) (st : list val) : bool :=
  match ca, st with
  | [], _ => true
  | Some v :: ca', sv :: st' => oz_eqb v sv && coherent ca' st'
  | Some _ :: _, [] => false
  | None :: ca', _ :: st' => coherent ca' st'
  | None :: ca', [] => coherent ca' []
  end.

Definition is_dup (r : res) : bool := match r with RErr EDupKey => true | _ => false end.

(* the existing value handed to an update / upsert callback is what the store held when the operation began *)
Definition pre_ok (before : val) (e : event) : bool :=
  match e with
  | EvUpd _ _ pre _ => oz_eqb before pre
  | EvUpsert _ _ (Some pre) _ => oz_eqb before (Some pre)
  | _ => true end.

(* same key, same worker: the cache that serves a key's calls is the one that served them before *)
Definition worker_ok (ws : list (Z * Z)) (k : Z) (w : option Z) : bool :=
  match w, lookup k ws with Some a, Some b => a =? b | _, _ => true end.
Definition note_worker (ws : list (Z * Z)) (k : Z) (w : option Z) : list (Z * Z) :=
  match w with Some a => (k, a) :: ws | None => ws end.

Definition step_holds (l : obs_level) (univ : list Z) (pc : list (option val)) (ps : list val) (ws : list (Z * Z)) (s : sstep) : bool :=
  let o := st_obs s in let k := key_of (st_op s) in
  worker_ok ws k (ob_worker o) &&
  (* every key has a worker: no call panics (repair 21: locHash reduces before taking the absolute value) *)
  negb (match ob_res o with RPanic => true | _ => false end) &&
  (* every callback and every cache write of the operation is about the operation's key *)
  forallb (fun e => ev_key e =? k) (ob_events o)
  (* keys other than the operation's keep their store value *)
  && forallb (fun x => (x =? k) || oz_eqb (at_key univ ps x) (at_key univ (ob_store o) x)) univ
  (* whatever the cache holds afterwards is the store's value *)
  && coherent (ob_cache o) (ob_store o)
  && forallb (pre_ok (at_key univ ps k)) (ob_events o)
  (* a duplicate answer comes without any store callback *)
  && (if is_dup (ob_res o) then no_store_ev (ob_events o) else true)
  && match st_op s with
     | ODelete _ =>          (* a successful delete leaves no cached entry *)
         match ob_res o, l with RNil, ObsAll => match at_key univ (ob_cache o) k with Some _ => false | None => true end | _, _ => true end
     | OAdd _ _ =>           (* an add for a cached key is a duplicate and the store is untouched *)
         match l, at_key univ pc k with
         | ObsAll, Some _ => (is_dup (ob_res o) || is_ctx (ob_res o))
                             && no_store_ev (ob_events o) && oz_eqb (at_key univ ps k) (at_key univ (ob_store o) k)
         | _, _ => true end
     | OGet _ =>             (* a get answered without consulting the store returns the store's value *)
         match ob_res o with
         | ROk v => if existsb is_load (ob_events o) then true else oz_eqb (at_key univ ps k) v
         | _ => true end
     | _ => true
     end.

Fixpoint seq_holds (l : obs_level) (univ : list Z) (pc : list (option val)) (ps : list val) (ws : list (Z * Z))
                   (steps : list sstep) : bool :=
  match steps with
  | [] => true
  | s :: rest => step_holds l univ pc ps ws s
                 && seq_holds l univ (ob_cache (st_obs s)) (ob_store (st_obs s))
                              (note_worker ws (key_of (st_op s)) (ob_worker (st_obs s))) rest
  end.


(* ------------------------------------------------------------------ helper lemmas *)
Lemma oz_eqb_refl x : oz_eqb x x = true.
Proof. destruct x; cbn; [apply Z.eqb_refl | reflexivity]. Qed.

Lemma at_key_map {A} (univ : list Z) (f : Z -> option A) k : In k univ -> at_key univ (map f univ) k = f k.
Proof.
  unfold at_key. induction univ as [|a r IH]; intros Hin; [destruct Hin|]. cbn [index_of map].
  destruct (a =? k) eqn:E.
  - apply Z.eqb_eq in E. subst a. reflexivity.
  - destruct Hin as [Ha|Hin]; [apply Z.eqb_neq in E; congruence|]. specialize (IH Hin).
    destruct (index_of k r) as [i|]; cbn [option_map nth]; exact IH.
Qed.

Lemma mem_In k univ : existsb (Z.eqb k) univ = true -> In k univ.
Proof. intros H. apply existsb_exists in H as (x & Hx & E). apply Z.eqb_eq in E. subst. exact Hx. Qed.

Lemma forallb_filter {A} (p q : A -> bool) l : forallb p l = true -> forallb p (filter q l) = true.
Proof.
  induction l as [|a l IH]; [reflexivity|]. cbn [forallb filter]. intros H. apply andb_prop in H as [H1 H2].
  destruct (q a); cbn [forallb]; [rewrite H1; cbn; auto | auto].
Qed.
Lemma forallb_project {p : event -> bool} l evs : forallb p evs = true -> forallb p (project l evs) = true.
Proof. destruct l; cbn [project]; apply forallb_filter. Qed.
Lemma Forall_forallb {A} (P : A -> Prop) (p : A -> bool) l : (forall a, P a -> p a = true) -> Forall P l -> forallb p l = true.
Proof. intros H HF. induction HF; cbn; [reflexivity|]. rewrite (H _ H0). exact IHHF. Qed.

Lemma existsb_filter {A} (p q : A -> bool) l : (forall a, p a = true -> q a = true) -> existsb p (filter q l) = existsb p l.
Proof.
  intros H. induction l as [|a l IH]; [reflexivity|]. cbn [filter existsb].
  destruct (q a) eqn:Eq; cbn [existsb]; [rewrite IH; reflexivity|].
  destruct (p a) eqn:Ep; [rewrite (H a Ep) in Eq; discriminate | exact IH].
Qed.
Lemma existsb_load_project l evs : existsb is_load (project l evs) = existsb is_load evs.
Proof. destruct l; cbn [project]; apply existsb_filter; intros [] H; try discriminate; reflexivity. Qed.

Lemma coherent_map (ca : Z -> option val) (st : Z -> val) univ : (forall k v, ca k = Some v -> st k = v) -> coherent (map ca univ) (map st univ) = true.
Proof.
  intros H. induction univ as [|a r IH]; [reflexivity|]. cbn [map coherent].
  destruct (ca a) as [v|] eqn:E; [rewrite (H a v E), oz_eqb_refl; exact IH | exact IH].
Qed.

Lemma pre_good_ok sv0 e : pre_good sv0 e -> pre_ok sv0 e = true.
Proof. destruct e; cbn; auto; [intros ->; apply oz_eqb_refl | destruct pre; [intros ->; apply oz_eqb_refl | auto]]. Qed.

