(* C03, layer H: executable heap-level model of the write path of ds/tree/btree/btree.go with its copy-on-write
   code.  Nodes live in a store addr -> hnode and carry the context that owns them; a tree handle is (root,
   context, length); all handles of one family (a tree and its clones) share one free list.  No proofs here.
   In-place mutation is in-place: `n.insert` / `n.remove` change the node at the same address; only mutableFor
   (copy of a node owned by another context) and split / the new root allocate. *)
From Coq Require Import ZArith List Bool.
Require Import C03_Model C03_Cow.
Import ListNotations.
Open Scope nat_scope.

(* the store, the allocation frontier and the shared free list (a stack: newNode takes the node freed last) *)
(* cap: the size the free list was made with (NewFreeList(size); DefaultFreeListSize = 32 for New) *)
Record hst := { hp : heap; nxt : addr; fl : list addr; cap : nat }.
Definition FLCAP := 32.                                 (* DefaultFreeListSize *)

Definition hnode0 : hnode := {| own := 0; hits := []; kids := [] |}.
Definition getn (s : hst) (a : addr) : hnode := match hp s a with Some n => n | None => hnode0 end.
Definition hput (s : hst) (a : addr) (n : hnode) : hst := {| hp := hset (hp s) a n; nxt := nxt s; fl := fl s; cap := cap s |}.
Definition hdel (h : heap) (a : addr) : heap := fun x => if Nat.eqb x a then None else h x.

(* FreeList.newNode: a recycled node if there is one, else a new one (the caller fills it in and tags it) *)
Definition new_addr (s : hst) : addr * hst :=
  match fl s with
  | [] => (nxt s, {| hp := hp s; nxt := S (nxt s); fl := []; cap := cap s |})
  | b :: r => (b, {| hp := hp s; nxt := nxt s; fl := r; cap := cap s |})
  end.

(* copyOnWriteContext.freeNode: only a node owned by the context is cleared and (if there is room) kept for reuse;
   a cleared node is gone from the store *)
Definition h_free (s : hst) (c : ctx) (a : addr) : hst :=
  match hp s a with
  | Some n => if Nat.eqb (own n) c
              then {| hp := hdel (hp s) a; nxt := nxt s; fl := if Nat.ltb (length (fl s)) (cap s) then a :: fl s else fl s; cap := cap s |}
              else s
  | None => s
  end.

(* n.mutableFor(cow) *)
Definition h_mutable_for (s : hst) (c : ctx) (a : addr) : hst * addr :=
  let n := getn s a in
  if Nat.eqb (own n) c then (s, a) else
  let '(b, s1) := new_addr s in
  (hput s1 b {| own := c; hits := hits n; kids := kids n |}, b).

(* n.mutableChild(i), n = the node at a *)
Definition h_mutable_child (s : hst) (c : ctx) (a : addr) (i : nat) : hst * addr :=
  let '(s1, k) := h_mutable_for s c (nth i (kids (getn s a)) 0) in
  let n := getn s1 a in
  (hput s1 a {| own := own n; hits := hits n; kids := set_at (kids n) i k |}, k).

(* n.split(i), n = the node at a (owned): returns the item at i and the address of the new right half *)
Definition h_split (s : hst) (c : ctx) (a : addr) (i : nat) : hst * item * addr :=
  let n := getn s a in
  let '(b, s1) := new_addr s in
  let s2 := hput s1 b {| own := c; hits := skipn (S i) (hits n); kids := if is_nil (kids n) then [] else skipn (S i) (kids n) |} in
  let s3 := hput s2 a {| own := own n; hits := firstn i (hits n); kids := if is_nil (kids n) then [] else firstn (S i) (kids n) |} in
  (s3, nth i (hits n) ditem, b).

(* n.insert(item, maxItems) with maybeSplitChild, n = the node at a (owned by c) *)
Fixpoint h_insert (fuel : nat) (maxI : nat) (c : ctx) (s : hst) (a : addr) (it : item) : option (hst * option item) :=
  match fuel with O => None | S f =>
  let n := getn s a in
  let its := hits n in let ks := kids n in
  let k := key it in
  let '(i, found) := ifind its k in
  if found then Some (hput s a {| own := own n; hits := set_at its i it; kids := ks |}, Some (nth i its ditem)) else
  if is_nil ks then Some (hput s a {| own := own n; hits := insert_at its i it; kids := [] |}, None) else
    if Nat.ltb (length (hits (getn s (nth i ks 0)))) maxI then
      let '(s1, ch) := h_mutable_child s c a i in
      h_insert f maxI c s1 ch it
    else
      let '(s1, first) := h_mutable_child s c a i in
      let '(s2, mid, second) := h_split s1 c first (Nat.div maxI 2) in
      let n2 := getn s2 a in
      let s3 := hput s2 a {| own := own n2; hits := insert_at (hits n2) i mid; kids := insert_at (kids n2) (S i) second |} in
      if (k <? key mid)%Z then
        let '(s4, ch) := h_mutable_child s3 c a i in h_insert f maxI c s4 ch it
      else if (key mid <? k)%Z then
        let '(s4, ch) := h_mutable_child s3 c a (S i) in h_insert f maxI c s4 ch it
      else
        let n3 := getn s3 a in
        Some (hput s3 a {| own := own n3; hits := set_at (hits n3) i it; kids := kids n3 |}, Some mid)
  end.

(* a tree handle *)
Record hhandle := { hroot : option addr; hctx : ctx; hlen : Z }.

(* ReplaceOrInsert *)
Definition h_replace_or_insert (deg : nat) (s : hst) (hd : hhandle) (it : item) : option (hst * hhandle * option item) :=
  let maxI := 2 * deg - 1 in
  let c := hctx hd in
  match hroot hd with
  | None =>
      let '(b, s1) := new_addr s in
      Some (hput s1 b {| own := c; hits := [it]; kids := [] |}, {| hroot := Some b; hctx := c; hlen := (hlen hd + 1)%Z |}, None)
  | Some r =>
      let '(s1, r1) := h_mutable_for s c r in
      let '(s2, r2) :=
        if Nat.leb maxI (length (hits (getn s1 r1))) then
          let '(s2, mid, second) := h_split s1 c r1 (Nat.div maxI 2) in
          let '(b, s3) := new_addr s2 in
          (hput s3 b {| own := c; hits := [mid]; kids := [r1; second] |}, b)
        else (s1, r1) in
      match h_insert IFUEL maxI c s2 r2 it with
      | Some (s3, out) =>
          Some (s3, {| hroot := Some r2; hctx := c; hlen := match out with None => (hlen hd + 1)%Z | Some _ => hlen hd end |}, out)
      | None => None
      end
  end.

(* growChildAndRemove's restructuring of the node at a around child i *)
Definition h_grow (minI : nat) (c : ctx) (s : hst) (a : addr) (i : nat) : hst :=
  let n := getn s a in
  if (Nat.ltb 0 i) && (Nat.ltb minI (length (hits (getn s (nth (i - 1) (kids n) 0))))) then
    (* steal from the left sibling *)
    let '(s1, child) := h_mutable_child s c a i in
    let '(s2, sf) := h_mutable_child s1 c a (i - 1) in
    let na := getn s2 a in let nc := getn s2 child in let nl := getn s2 sf in
    let s3 := hput s2 sf {| own := own nl; hits := removelast (hits nl); kids := removelast (kids nl) |} in
    let s4 := hput s3 child {| own := own nc; hits := nth (i - 1) (hits na) ditem :: hits nc;
                               kids := if is_nil (kids nl) then kids nc else last (kids nl) 0 :: kids nc |} in
    hput s4 a {| own := own na; hits := set_at (hits na) (i - 1) (last (hits nl) ditem); kids := kids na |}
  else if (Nat.ltb i (length (hits n))) && (Nat.ltb minI (length (hits (getn s (nth (S i) (kids n) 0))))) then
    (* steal from the right sibling *)
    let '(s1, child) := h_mutable_child s c a i in
    let '(s2, sf) := h_mutable_child s1 c a (S i) in
    let na := getn s2 a in let nc := getn s2 child in let nr := getn s2 sf in
    let s3 := hput s2 sf {| own := own nr; hits := tl (hits nr); kids := tl (kids nr) |} in
    let s4 := hput s3 child {| own := own nc; hits := hits nc ++ [nth i (hits na) ditem];
                               kids := if is_nil (kids nr) then kids nc else kids nc ++ [hd 0 (kids nr)] |} in
    hput s4 a {| own := own na; hits := set_at (hits na) i (hd ditem (hits nr)); kids := kids na |}
  else
    (* merge with the right sibling (or, for the last child, of the left sibling with it) *)
    let i' := if Nat.leb (length (hits n)) i then i - 1 else i in
    let '(s1, child) := h_mutable_child s c a i' in
    let na := getn s1 a in let nc := getn s1 child in
    let m := nth (S i') (kids na) 0 in
    let nm := getn s1 m in
    let s2 := hput s1 a {| own := own na; hits := remove_at (hits na) i'; kids := remove_at (kids na) (S i') |} in
    let s3 := hput s2 child {| own := own nc; hits := hits nc ++ nth i' (hits na) ditem :: hits nm; kids := kids nc ++ kids nm |} in
    h_free s3 c m.

(* n.remove(item, minItems, typ), n = the node at a (owned by c) *)
Fixpoint h_remove (fuel : nat) (minI : nat) (c : ctx) (s : hst) (a : addr) (t : irm) : option (hst * option item) :=
  match fuel with O => None | S f =>
  let n := getn s a in
  let its := hits n in let ks := kids n in
  let '(i, found) :=
    match t with
    | IRmMax => (length its, false)
    | IRmMin => (O, false)
    | IRmItem k => ifind its k
    end in
  if is_nil ks then
    match t with
    | IRmMax => Some (hput s a {| own := own n; hits := removelast its; kids := [] |}, Some (last its ditem))
    | IRmMin => Some (hput s a {| own := own n; hits := tl its; kids := [] |}, Some (hd ditem its))
    | IRmItem _ => if found then Some (hput s a {| own := own n; hits := remove_at its i; kids := [] |}, Some (nth i its ditem))
                   else Some (s, None)
    end
  else
  if Nat.leb (length (hits (getn s (nth i ks 0)))) minI then h_remove f minI c (h_grow minI c s a i) a t else
  let '(s1, child) := h_mutable_child s c a i in
  if found then
    match h_remove f minI c s1 child IRmMax with
    | Some (s2, Some m) =>
        let n2 := getn s2 a in
        Some (hput s2 a {| own := own n2; hits := set_at (hits n2) i m; kids := kids n2 |}, Some (nth i its ditem))
    | _ => None
    end
  else h_remove f minI c s1 child t
  end.

(* deleteItem: Delete / DeleteMin / DeleteMax *)
Definition h_delete (deg : nat) (s : hst) (hh : hhandle) (t : irm) : option (hst * hhandle * option item) :=
  let c := hctx hh in
  match hroot hh with
  | None => Some (s, hh, None)
  | Some r =>
      if is_nil (hits (getn s r)) then Some (s, hh, None) else
      let '(s1, r1) := h_mutable_for s c r in
      match h_remove IFUEL (deg - 1) c s1 r1 t with
      | Some (s2, out) =>
          let n := getn s2 r1 in
          let '(s3, r2) := if is_nil (hits n) && negb (is_nil (kids n)) then (h_free s2 c r1, hd 0 (kids n)) else (s2, r1) in
          Some (s3, {| hroot := Some r2; hctx := c; hlen := match out with Some _ => (hlen hh - 1)%Z | None => hlen hh end |}, out)
      | None => None
      end
  end.

(* n.reset(c) for Clear(true): the children first, then the node itself; a node is released only if the clearing
   tree's context owns it; stops as soon as a released node no longer fits into the free list.  Returns the store and
   whether the caller should go on. *)
Fixpoint reset_list (R : hst -> addr -> hst * bool) (ks : list addr) (s : hst) : hst * bool :=
  match ks with
  | [] => (s, true)
  | k :: r => let '(s1, go) := R s k in if go then reset_list R r s1 else (s1, false)
  end.
Definition owned_by (s : hst) (c : ctx) (a : addr) : bool := match hp s a with Some n => Nat.eqb (own n) c | None => false end.
Fixpoint h_reset (fuel : nat) (c : ctx) (s : hst) (a : addr) : hst * bool :=
  match fuel with O => (s, false) | S f =>
  let '(s1, go) := reset_list (h_reset f c) (kids (getn s a)) s in
  if go then (h_free s1 c a, negb (owned_by s1 c a && negb (Nat.ltb (length (fl s1)) (cap s1)))) else (s1, false)
  end.
(* Clear(addNodesToFreelist) *)
Definition h_clear (s : hst) (hh : hhandle) (tofl : bool) : hst * hhandle :=
  (match hroot hh with
   | Some r => if tofl then fst (h_reset IFUEL (hctx hh) s r) else s
   | None => s
   end, {| hroot := None; hctx := hctx hh; hlen := 0%Z |}).

(* ---------------- a family of handles: trees and their clones on one free list ---------------- *)
Record world := { wst : hst; wctx : ctx (* next unused context *); whs : list hhandle }.
Definition world_init (k : nat) : world := {| wst := {| hp := fun _ => None; nxt := 0; fl := []; cap := k |}; wctx := 1; whs := [{| hroot := None; hctx := 0; hlen := 0%Z |}] |}.
Definition world0 : world := world_init FLCAP.

(* HNew: one more empty tree made with NewWithFreeList on the family's free list *)
Inductive hop := HClone (i : nat) | HIns (i : nat) (it : item) | HDel (i : nat) (t : irm) | HClear (i : nat) (tofl : bool) | HNew.

Definition set_h (l : list hhandle) (i : nat) (x : hhandle) : list hhandle := firstn i l ++ x :: skipn (S i) l.

(* Clone: the original and the copy get two fresh contexts (cow1, cow2 := *t.cow, *t.cow share the free list) *)
Definition w_step_h (deg : nat) (w : world) (o : hop) : option (world * option item) :=
  match o with
  | HClone i =>
      match nth_error (whs w) i with
      | Some hd => Some ({| wst := wst w; wctx := S (S (wctx w));
                            whs := set_h (whs w) i {| hroot := hroot hd; hctx := wctx w; hlen := hlen hd |}
                                   ++ [{| hroot := hroot hd; hctx := S (wctx w); hlen := hlen hd |}] |}, None)
      | None => None
      end
  | HIns i it =>
      match nth_error (whs w) i with
      | Some hd => match h_replace_or_insert deg (wst w) hd it with
                   | Some (s', hd', out) => Some ({| wst := s'; wctx := wctx w; whs := set_h (whs w) i hd' |}, out)
                   | None => None end
      | None => None
      end
  | HDel i t =>
      match nth_error (whs w) i with
      | Some hd => match h_delete deg (wst w) hd t with
                   | Some (s', hd', out) => Some ({| wst := s'; wctx := wctx w; whs := set_h (whs w) i hd' |}, out)
                   | None => None end
      | None => None
      end
  | HClear i b =>
      match nth_error (whs w) i with
      | Some hd => let '(s', hd') := h_clear (wst w) hd b in Some ({| wst := s'; wctx := wctx w; whs := set_h (whs w) i hd' |}, None)
      | None => None
      end
  | HNew => Some ({| wst := wst w; wctx := S (wctx w); whs := whs w ++ [{| hroot := None; hctx := wctx w; hlen := 0%Z |}] |}, None)
  end.

(* the functional tree a handle stands for *)
Definition habs (h : heap) (hd : hhandle) : option itree :=
  match hroot hd with
  | None => Some {| iroot := None; ilen := hlen hd |}
  | Some r => match abs IFUEL h r with Some n => Some {| iroot := Some n; ilen := hlen hd |} | None => None end
  end.
