(* C03: the height of a well-formed tree is logarithmic in its size, so the model's constant fuel is no
   restriction below 2^31 items; the abstraction relation between a model tree and the sorted map, and what the
   reads return under it.  Item-level version of the first half of BTHist.v. *)
From Coq Require Import ZArith List Lia Bool Sorting.Sorted.
Require Import C03_Model C03_Spec C03_D C03_Ins C03_Sel C03_Inv C03_Tot C03_InsInv C03_Up C03_Tree C03_Reads C03_Scan C03_ScanSpec.
Import ListNotations.

(* ---- size against height ---- *)
Lemma inter_length_ge F m : forall its ch, length ch = S (length its) ->
  Forall (fun c => (m <= S (length (F c)))%nat) ch ->
  (S (length its) * m <= S (length (inter F its ch)))%nat.
Proof.
  induction its as [|x its IH]; intros ch Hl Hf.
  - destruct ch as [|c [|c2 ch]]; try (cbn in Hl; lia). inversion Hf; subst. cbn [inter hd_rec length]. lia.
  - destruct ch as [|c ch]; [cbn in Hl; lia|]. inversion Hf as [|? ? Hc Hf']; subst.
    cbn [inter hd_rec tl]. rewrite app_length. cbn [length] in *.
    specialize (IH ch ltac:(lia) Hf'). lia.
Qed.

Lemma size_height minI : (1 <= minI)%nat -> forall h n, shaped h n -> occ minI h n ->
  (S (length (iitems n)) * 2 ^ h <= S (length (iflat (S h) n)))%nat.
Proof.
  intros Hm. induction h as [|h IH]; intros n Hs Ho.
  - destruct n as [its ch]. cbn in Hs. subst ch. rewrite flat_S. cbn [iitems ichildren]. rewrite C03_D.inter_leaf. cbn [Nat.pow]. lia.
  - rewrite flat_S. destruct n as [its ch]. destruct Hs as [Hl Hf]. cbn [iitems ichildren C03_D.occ] in *.
    replace (2 ^ S h)%nat with (2 * 2 ^ h)%nat by (cbn [Nat.pow]; lia).
    apply inter_length_ge; [exact Hl|].
    apply Forall_forall. intros c Hc. rewrite Forall_forall in Hf, Ho. destruct (Ho c Hc) as [Hcm Hco].
    specialize (IH c (Hf c Hc) Hco).
    assert (2 * 2 ^ h <= S (length (iitems c)) * 2 ^ h)%nat by (apply Nat.mul_le_mono_r; lia). lia.
Qed.

Definition small (L : list item) : Prop := (Z.of_nat (length L) < 2 ^ 31)%Z.

Lemma height_small deg : (2 <= deg)%nat -> forall h t, tinv deg h t -> small (contents h t) -> (h <= 30)%nat.
Proof.
  intros Hd h t [Hinv _] Hsmall. unfold contents in *. destruct (iroot t) as [r|]; [|subst; lia].
  destruct Hinv as ((Hs & Ho & _) & _ & _ & Hemp). unfold small in Hsmall.
  destruct (iitems r) as [|x its] eqn:Ei; [rewrite (Hemp eq_refl); lia|].
  pose proof (size_height (minI_of deg) (minI_pos deg Hd) h r Hs Ho) as Hsz. rewrite Ei in Hsz. cbn [length] in Hsz.
  destruct (Nat.le_gt_cases h 30) as [Hle|Hgt]; [lia|exfalso].
  assert (H2 : (2 * 2 ^ h <= S (length (iflat (S h) r)))%nat) by lia.
  apply Nat2Z.inj_le in H2. rewrite Nat2Z.inj_mul, Nat2Z.inj_pow in H2. change (Z.of_nat 2) with 2%Z in H2.
  assert (H3 : (2 ^ 31 <= 2 ^ Z.of_nat h)%Z) by (apply Z.pow_le_mono_r; lia).
  lia.
Qed.
Lemma fuel_enough deg : (2 <= deg)%nat -> forall h t, tinv deg h t -> small (contents h t) -> (2 * h + 2 <= IFUEL)%nat.
Proof. intros Hd h t Hi Hs. pose proof (height_small deg Hd h t Hi Hs). unfold IFUEL. lia. Qed.

(* ---- the abstraction relation: the model tree t stands for the sorted map L ---- *)
Definition refines0 (deg : nat) (t : itree) (L : list item) : Prop := exists h, tinv deg h t /\ contents h t = L /\ (h <= 31)%nat.
Definition refines (deg : nat) (t : itree) (L : list item) : Prop := refines0 deg t L /\ small L.

Lemma refines_empty deg : refines deg iempty [].
Proof. split; [exists O; split; [split; reflexivity|split; [reflexivity|lia]]|]. unfold small. cbn. lia. Qed.

Lemma refines_sorted deg t L : refines0 deg t L -> StronglySorted klt L.
Proof. intros (h & Hi & <- & _). eapply tinv_sorted, Hi. Qed.

(* under the relation the constant fuel is enough for every read *)
Lemma refines_list deg t L : refines0 deg t L -> itree_list t = L.
Proof.
  intros (h & [Hi _] & <- & Hh). unfold itree_list, contents. destruct (iroot t) as [r|]; [|reflexivity].
  destruct Hi as ((Hs & _) & _). replace IFUEL with (S h + (63 - h))%nat by (unfold IFUEL; lia). apply iflat_fuel, Hs.
Qed.
Lemma refines_wf deg t L : refines0 deg t L -> tree_wf t.
Proof.
  intros (h & [Hi _] & _ & Hh). unfold tree_wf. destruct (iroot t) as [r|]; [|exact I].
  destruct Hi as ((Hs & _) & _ & Hsort & _). replace IFUEL with (S h + (63 - h))%nat by (unfold IFUEL; lia).
  split; [apply shaped_iwf, Hs|]. rewrite iflat_fuel by exact Hs. exact Hsort.
Qed.
Lemma refines_len deg t L : refines0 deg t L -> ilen t = Z.of_nat (length L).
Proof. intros (h & [_ Hl] & <- & _). exact Hl. Qed.

Lemma refines_get deg t L k : refines0 deg t L -> itree_get t k = s_lookup k L.
Proof.
  intros (h & [Hi _] & <- & Hh). unfold itree_get, contents. destruct (iroot t) as [r|]; [|reflexivity].
  destruct Hi as ((Hs & _) & _ & Hsort & _). apply iget_spec; [exact Hs|exact Hsort|unfold IFUEL; lia].
Qed.
Lemma refines_min deg : (2 <= deg)%nat -> forall t L, refines0 deg t L -> itree_min t = hd_error L.
Proof.
  intros Hd t L (h & [Hi _] & <- & Hh). unfold itree_min, contents. destruct (iroot t) as [r|]; [|reflexivity].
  destruct Hi as ((Hs & Ho & _) & _). apply (imin_spec (minI_of deg) (minI_pos deg Hd)); [exact Hs|exact Ho|unfold IFUEL; lia].
Qed.
Lemma refines_max deg : (2 <= deg)%nat -> forall t L, refines0 deg t L -> itree_max t = last_error L.
Proof.
  intros Hd t L (h & [Hi _] & <- & Hh). unfold itree_max, contents. destruct (iroot t) as [r|]; [|reflexivity].
  destruct Hi as ((Hs & Ho & _) & _). apply (imax_spec (minI_of deg) (minI_pos deg Hd)); [exact Hs|exact Ho|unfold IFUEL; lia].
Qed.
Lemma refines_scan deg t L A (visit : A -> item -> A * bool) e p q a :
  refines0 deg t L -> itree_scan visit e p q t a = fst (feed visit (s_scan e p q L) a).
Proof. intros H. rewrite (itree_scan_spec A visit e p q t a (refines_wf deg t L H)). rewrite (refines_list deg t L H). reflexivity. Qed.
Lemma refines_collect deg t L e p q m : refines0 deg t L -> itree_scan (collect_visit m) e p q t [] = s_collect m (s_scan e p q L).
Proof. intros H. rewrite (itree_scan_collect e p q m t (refines_wf deg t L H)). rewrite (refines_list deg t L H). reflexivity. Qed.
Lemma refines_walk deg t L w k f n : refines0 deg t L -> iter_walk t w k f n = s_walk w k f n L.
Proof. intros H. rewrite (iter_walk_spec t w k f n (refines_wf deg t L H)). rewrite (refines_list deg t L H). reflexivity. Qed.

(* ---- the two writes under the relation ---- *)
Lemma filter_len_le {A} (f : A -> bool) l : (length (filter f l) <= length l)%nat.
Proof. induction l as [|x l IH]; cbn; [lia|]. destruct (f x); cbn; lia. Qed.
Lemma spec_list_length_le t (L : list item) : (length (spec_list t L) <= length L)%nat.
Proof.
  destruct t as [k| |]; cbn [spec_list].
  - apply filter_len_le.
  - destruct L; cbn; lia.
  - destruct L as [|x L]; [cbn; lia|]. pose proof (f_equal (@length item) (app_removelast_last ditem (l := x :: L) ltac:(discriminate))) as E.
    rewrite app_length in E. cbn [length] in *. lia.
Qed.

Lemma refines_insert deg : (2 <= deg)%nat -> forall t L (it : item), refines deg t L ->
  exists t', itree_insert deg t it = Some (t', s_lookup (key it) L) /\ refines0 deg t' (s_ins it L).
Proof.
  intros Hd t L it [(h & Hi & <- & Hh) Hsm].
  pose proof (height_small deg Hd h t Hi Hsm) as H30.
  destruct (itree_insert_ok deg Hd h t it Hi ltac:(unfold IFUEL; lia)) as (h' & t' & E & Hi' & Hle & Hc).
  exists t'. split; [exact E|]. exists h'. split; [exact Hi'|]. split; [exact Hc|lia].
Qed.
Lemma refines_delete deg : (2 <= deg)%nat -> forall t L r, refines deg t L ->
  exists t', itree_delete deg t r = Some (t', tree_out r L) /\ refines deg t' (spec_list r L).
Proof.
  intros Hd t L r [(h & Hi & <- & Hh) Hsm].
  pose proof (fuel_enough deg Hd h t Hi Hsm) as Hf.
  destruct (itree_delete_ok deg Hd h t r Hi Hf) as (h' & t' & E & Hi' & Hle & Hc).
  exists t'. split; [exact E|]. split; [exists h'; split; [exact Hi'|split; [exact Hc|lia]]|].
  unfold small in *. pose proof (spec_list_length_le r (contents h t)). lia.
Qed.
