(* C12: the two-level queue syncx/pipe/mq.MQ - a control list that is drained before the request list,
   closed / cleared flags, TryClose / TryClear.  Same conventions as C12_Pipe.v. *)
From Coq Require Import ZArith List Bool Lia Sorting.Permutation.
Require Import C12_Base.
Import ListNotations.

Inductive mop :=
  | MAddCtrl (x : Z) | MAddCtrlAnyway (x : Z) | MPriorCtrl (x : Z)
  | MAddReq (x : Z) | MAddReqAnyway (x : Z) | MPriorReq (x : Z)
  | MPop | MPopAnyway | MClose | MTryClose | MTryClear | MIsClosed | MIsCleared.

Record mq := { ctrl : list Z; req : list Z; mclosed : bool; cleared : bool; cmax : Z; rmax : Z }.   (* 0 = unbounded *)

(* NewMQ(WithQCtrlSize(cm), WithQReqSize(rm)): if option.xMaxNum > 0 { xMaxNum = option.xMaxNum } *)
Definition m_new (cm rm : Z) : mq :=
  {| ctrl := []; req := []; mclosed := false; cleared := false;
     cmax := if (0 <? cm)%Z then cm else 0%Z; rmax := if (0 <? rm)%Z then rm else 0%Z |}.

Definition set_lists (s : mq) (c r : list Z) : mq :=
  {| ctrl := c; req := r; mclosed := mclosed s; cleared := cleared s; cmax := cmax s; rmax := rmax s |}.
Definition set_flags (s : mq) (cl ce : bool) : mq :=
  {| ctrl := ctrl s; req := req s; mclosed := cl; cleared := ce; cmax := cmax s; rmax := rmax s |}.

Definition m_add_ctrl (s : mq) (x : Z) : mq * res :=
  if mclosed s then (s, RClosed)
  else if full (cmax s) (length (ctrl s)) then (s, RCtrlFull)
  else (set_lists s (ctrl s ++ [x]) (req s), RDone).
Definition m_add_req (s : mq) (x : Z) : mq * res :=
  if mclosed s then (s, RClosed)
  else if full (rmax s) (length (req s)) then (s, RFull)
  else (set_lists s (ctrl s) (req s ++ [x]), RDone).
Definition m_anyway (s : mq) (sr : mq * res) (fullres : res) : mq * res :=      (* the retry loop of AddXAnyway *)
  if res_eqb (snd sr) fullres then (s, RNotIssued) else sr.
Definition m_prior_ctrl (s : mq) (x : Z) : mq * res :=
  if mclosed s then (s, RClosed) else (set_lists s (x :: ctrl s) (req s), RDone).
Definition m_prior_req (s : mq) (x : Z) : mq * res :=
  if mclosed s then (s, RClosed) else (set_lists s (ctrl s) (x :: req s), RDone).
(* firstly pop ctrl list *)
Definition m_front (s : mq) : mq * res :=
  match ctrl s with
  | x :: c => (set_lists s c (req s), RItem x)
  | [] => match req s with
          | x :: r => (set_lists s [] r, RItem x)
          | [] => (s, ROther 1%Z)          (* ErrSync: unreachable, both callers have tested for emptiness *)
          end
  end.
Definition m_empty (s : mq) : bool := match ctrl s, req s with [], [] => true | _, _ => false end.
(* Pop: for both empty { if closed return ErrClosed; Wait }; if closed return ErrClosed; front *)
Definition m_pop (s : mq) : mq * res :=
  if m_empty s then (if mclosed s then (s, RClosed) else (s, RNotIssued))
  else if mclosed s then (s, RClosed) else m_front s.
Definition m_pop_anyway (s : mq) : mq * res :=
  if m_empty s then (if mclosed s then (s, RClosed) else (s, RNotIssued))
  else m_front s.
Definition m_tryclose (s : mq) : mq * res :=
  if mclosed s then (s, RFlag true)
  else if m_empty s then (set_flags s true (cleared s), RFlag true)
  else (s, RFlag false).
Definition m_tryclear (s : mq) : mq * res :=
  if cleared s then (s, RFlag true)
  else if mclosed s then (if m_empty s then (set_flags s (mclosed s) true, RFlag true) else (s, RFlag false))
  else (s, RFlag false).

Definition m_step (s : mq) (o : mop) : mq * res :=
  match o with
  | MAddCtrl x => m_add_ctrl s x
  | MAddCtrlAnyway x => m_anyway s (m_add_ctrl s x) RCtrlFull
  | MPriorCtrl x => m_prior_ctrl s x
  | MAddReq x => m_add_req s x
  | MAddReqAnyway x => m_anyway s (m_add_req s x) RFull
  | MPriorReq x => m_prior_req s x
  | MPop => m_pop s
  | MPopAnyway => m_pop_anyway s
  | MClose => (set_flags s true (cleared s), RDone)
  | MTryClose => m_tryclose s
  | MTryClear => m_tryclear s
  | MIsClosed => (s, RFlag (mclosed s))
  | MIsCleared => (s, RFlag (cleared s))
  end.

(* ------------------------------------------------------------------------------------------------ *)
(* The monitor: ghost = accepted and not yet handed out control messages / requests in their specified order, whether the
   queue has been closed (Close called or a TryClose answered true), whether a TryClear answered true. *)
Record mg := { gc : list Z; gr : list Z; gclosed : bool; gcleared : bool }.
Definition mg0 : mg := {| gc := []; gr := []; gclosed := false; gcleared := false |}.
Definition mbound (n : Z) : Z := if (0 <? n)%Z then n else 0%Z.
Definition at_capacity (bound : Z) (l : list Z) : bool := (0 <? bound)%Z && (bound <=? Z.of_nat (length l))%Z.
Definition g_empty (g : mg) : bool := match gc g, gr g with [], [] => true | _, _ => false end.
(* the item the specified order hands out next: control messages before requests *)
Definition g_next (g : mg) : option Z :=
  match gc g with x :: _ => Some x | [] => match gr g with x :: _ => Some x | [] => None end end.

Definition m_chk (cb rb : Z) (g : mg) (o : mop) (r : res) : bool :=
  match o with
  | MAddCtrl _ => if gclosed g then res_eqb r RClosed else if at_capacity cb (gc g) then res_eqb r RCtrlFull else res_eqb r RDone
  | MAddCtrlAnyway _ => if gclosed g then res_eqb r RClosed else if at_capacity cb (gc g) then res_eqb r RNotIssued else res_eqb r RDone
  | MAddReq _ => if gclosed g then res_eqb r RClosed else if at_capacity rb (gr g) then res_eqb r RFull else res_eqb r RDone
  | MAddReqAnyway _ => if gclosed g then res_eqb r RClosed else if at_capacity rb (gr g) then res_eqb r RNotIssued else res_eqb r RDone
  | MPriorCtrl _ | MPriorReq _ => if gclosed g then res_eqb r RClosed else res_eqb r RDone
  | MPop => if gclosed g then res_eqb r RClosed                           (* after close Pop fails even if items remain *)
            else match g_next g with Some x => res_eqb r (RItem x) | None => res_eqb r RNotIssued end
  | MPopAnyway => match g_next g with
                  | Some x => res_eqb r (RItem x)
                  | None => if gclosed g then res_eqb r RClosed else res_eqb r RNotIssued
                  end
  | MClose => res_eqb r RDone
  | MTryClose => res_eqb r (RFlag (gclosed g || g_empty g))               (* open queue: succeeds exactly when empty *)
  | MTryClear => res_eqb r (RFlag (gcleared g || (gclosed g && g_empty g)))   (* exactly when closed and empty *)
  | MIsClosed => res_eqb r (RFlag (gclosed g))
  | MIsCleared => res_eqb r (RFlag (gcleared g))
  end.

Definition m_upd (g : mg) (o : mop) (r : res) : mg :=
  match o, r with
  | MAddCtrl x, RDone | MAddCtrlAnyway x, RDone => {| gc := gc g ++ [x]; gr := gr g; gclosed := gclosed g; gcleared := gcleared g |}
  | MPriorCtrl x, RDone => {| gc := x :: gc g; gr := gr g; gclosed := gclosed g; gcleared := gcleared g |}
  | MAddReq x, RDone | MAddReqAnyway x, RDone => {| gc := gc g; gr := gr g ++ [x]; gclosed := gclosed g; gcleared := gcleared g |}
  | MPriorReq x, RDone => {| gc := gc g; gr := x :: gr g; gclosed := gclosed g; gcleared := gcleared g |}
  | MPop, RItem _ | MPopAnyway, RItem _ =>
      match gc g with
      | _ :: c => {| gc := c; gr := gr g; gclosed := gclosed g; gcleared := gcleared g |}
      | [] => {| gc := []; gr := tl (gr g); gclosed := gclosed g; gcleared := gcleared g |}
      end
  | MClose, _ | MTryClose, RFlag true => {| gc := gc g; gr := gr g; gclosed := true; gcleared := gcleared g |}
  | MTryClear, RFlag true => {| gc := gc g; gr := gr g; gclosed := gclosed g; gcleared := true |}
  | _, _ => g
  end.

Definition m_rel (cb rb : Z) (s : mq) (g : mg) : Prop :=
  ctrl s = gc g /\ req s = gr g /\ mclosed s = gclosed g /\ cleared s = gcleared g /\ cmax s = cb /\ rmax s = rb.

Lemma m_new_rel cm rm : m_rel (mbound cm) (mbound rm) (m_new cm rm) mg0.
Proof. unfold m_rel, m_new, mbound, mg0. cbn. repeat split. Qed.

Lemma m_step_ok cb rb s g o : m_rel cb rb s g ->
  m_chk cb rb g o (snd (m_step s o)) = true /\ m_rel cb rb (fst (m_step s o)) (m_upd g o (snd (m_step s o))).
Proof.
  intros (H1 & H2 & H3 & H4 & H5 & H6). unfold m_rel. destruct g as [c r cl ce]. cbn [gc gr gclosed gcleared] in *. subst c r cl ce.
  assert (Hfc : at_capacity cb (ctrl s) = full (cmax s) (length (ctrl s))) by (unfold full, at_capacity; now rewrite H5).
  assert (Hfr : at_capacity rb (req s) = full (rmax s) (length (req s))) by (unfold full, at_capacity; now rewrite H6).
  assert (Hn : g_next {| gc := ctrl s; gr := req s; gclosed := mclosed s; gcleared := cleared s |} =
               match ctrl s with x :: _ => Some x | [] => match req s with x :: _ => Some x | [] => None end end) by reflexivity.
  assert (He : g_empty {| gc := ctrl s; gr := req s; gclosed := mclosed s; gcleared := cleared s |} = m_empty s) by reflexivity.
  destruct o as [x|x|x|x|x|x| | | | | | |]; cbn [m_step m_chk gc gr gclosed gcleared]; rewrite ?Hfc, ?Hfr, ?Hn, ?He.
  - unfold m_add_ctrl. destruct (mclosed s) eqn:Em; [cbn; auto 12|]. destruct (full (cmax s) (length (ctrl s))); cbn; auto 12.
  - unfold m_anyway, m_add_ctrl. destruct (mclosed s) eqn:Em; [cbn; auto 12|]. destruct (full (cmax s) (length (ctrl s))); cbn; auto 12.
  - unfold m_prior_ctrl. destruct (mclosed s) eqn:Em; cbn; auto 12.
  - unfold m_add_req. destruct (mclosed s) eqn:Em; [cbn; auto 12|]. destruct (full (rmax s) (length (req s))); cbn; auto 12.
  - unfold m_anyway, m_add_req. destruct (mclosed s) eqn:Em; [cbn; auto 12|]. destruct (full (rmax s) (length (req s))); cbn; auto 12.
  - unfold m_prior_req. destruct (mclosed s) eqn:Em; cbn; auto 12.
  - unfold m_pop, m_front, m_empty. destruct (ctrl s) as [|a c] eqn:Ec; destruct (req s) as [|b r] eqn:Er;
      destruct (mclosed s) eqn:Em; cbn; rewrite ?Ec, ?Er, ?Z.eqb_refl; auto 12.
  - unfold m_pop_anyway, m_front, m_empty. destruct (ctrl s) as [|a c] eqn:Ec; destruct (req s) as [|b r] eqn:Er;
      destruct (mclosed s) eqn:Em; cbn; rewrite ?Ec, ?Er, ?Z.eqb_refl; auto 12.
  - cbn. auto 12.
  - unfold m_tryclose. destruct (mclosed s) eqn:Em; [cbn; auto 12|]. destruct (m_empty s); cbn; auto 12.
  - unfold m_tryclear. destruct (cleared s) eqn:Ee; [cbn; auto 12|]. destruct (mclosed s) eqn:Em; [|cbn; auto 12].
    destruct (m_empty s); cbn; auto 12.
  - cbn. rewrite Bool.eqb_reflx. auto 12.
  - cbn. rewrite Bool.eqb_reflx. auto 12.
Qed.

Definition m_accept (cm rm : Z) (h : list (mop * res)) : bool := h_accept m_step (m_new cm rm) h.
Definition m_holds (cm rm : Z) (h : list (mop * res)) : bool := h_holds (m_chk (mbound cm) (mbound rm)) m_upd mg0 h.

Theorem m_accept_sound cm rm h : m_accept cm rm h = true -> m_holds cm rm h = true.
Proof.
  apply (h_sound m_step (m_chk (mbound cm) (mbound rm)) m_upd (m_rel (mbound cm) (mbound rm))).
  - intros s g o. apply m_step_ok.
  - apply m_new_rel.
Qed.

Theorem m_model_holds cm rm ops : m_holds cm rm (fst (h_run m_step (m_new cm rm) ops)) = true.
Proof.
  apply (h_model_holds m_step (m_chk (mbound cm) (mbound rm)) m_upd (m_rel (mbound cm) (mbound rm))).
  - intros s g o. apply m_step_ok.
  - apply m_new_rel.
Qed.

(* ------------------------------------------------------------------------------------------------ *)
(* The property, clause by clause. *)

(* control before request: while a control message is queued, the next item handed out is the oldest control message *)
Theorem m_ctrl_first s x c : ctrl s = x :: c ->
  m_pop_anyway s = (set_lists s c (req s), RItem x) /\ (mclosed s = false -> m_pop s = (set_lists s c (req s), RItem x)).
Proof.
  intros E. unfold m_pop, m_pop_anyway, m_front, m_empty. rewrite E. split; [reflexivity|]. intros Hc. now rewrite Hc.
Qed.
Theorem m_req_when_no_ctrl s x r : ctrl s = [] -> req s = x :: r ->
  m_pop_anyway s = (set_lists s [] r, RItem x) /\ (mclosed s = false -> m_pop s = (set_lists s [] r, RItem x)).
Proof.
  intros E1 E2. unfold m_pop, m_pop_anyway, m_front, m_empty. rewrite E1, E2. split; [reflexivity|]. intros Hc. now rewrite Hc.
Qed.

Theorem m_add_refused_iff_full s x : mclosed s = false ->
  (snd (m_add_ctrl s x) = RCtrlFull <-> (0 < cmax s /\ cmax s <= Z.of_nat (length (ctrl s)))%Z) /\
  (snd (m_add_req s x) = RFull <-> (0 < rmax s /\ rmax s <= Z.of_nat (length (req s)))%Z) /\
  (snd (m_add_ctrl s x) <> RCtrlFull -> m_add_ctrl s x = (set_lists s (ctrl s ++ [x]) (req s), RDone)) /\
  (snd (m_add_req s x) <> RFull -> m_add_req s x = (set_lists s (ctrl s) (req s ++ [x]), RDone)).
Proof.
  intros Hc. unfold m_add_ctrl, m_add_req. rewrite Hc.
  pose proof (full_spec (cmax s) (length (ctrl s))) as Hf1. pose proof (full_spec (rmax s) (length (req s))) as Hf2.
  destruct (full (cmax s) (length (ctrl s))); destruct (full (rmax s) (length (req s))); cbn [snd].
  - split; [split; [intros _; now apply Hf1|reflexivity]|]. split; [split; [intros _; now apply Hf2|reflexivity]|]. split; congruence.
  - split; [split; [intros _; now apply Hf1|reflexivity]|]. split; [split; [discriminate|intros H; apply Hf2 in H; discriminate]|]. split; [congruence|reflexivity].
  - split; [split; [discriminate|intros H; apply Hf1 in H; discriminate]|]. split; [split; [intros _; now apply Hf2|reflexivity]|]. split; [reflexivity|congruence].
  - split; [split; [discriminate|intros H; apply Hf1 in H; discriminate]|]. split; [split; [discriminate|intros H; apply Hf2 in H; discriminate]|]. split; reflexivity.
Qed.

Theorem m_prior_ignores_bound s x : mclosed s = false ->
  m_prior_ctrl s x = (set_lists s (x :: ctrl s) (req s), RDone) /\ m_prior_req s x = (set_lists s (ctrl s) (x :: req s), RDone).
Proof. intros Hc. unfold m_prior_ctrl, m_prior_req. now rewrite Hc. Qed.

Theorem m_closed_refuses s x : mclosed s = true ->
  m_add_ctrl s x = (s, RClosed) /\ m_add_req s x = (s, RClosed) /\ m_prior_ctrl s x = (s, RClosed) /\ m_prior_req s x = (s, RClosed) /\
  m_step s (MAddCtrlAnyway x) = (s, RClosed) /\ m_step s (MAddReqAnyway x) = (s, RClosed).
Proof. intros Hc. cbn [m_step]. unfold m_anyway, m_add_ctrl, m_add_req, m_prior_ctrl, m_prior_req. rewrite Hc. cbn. auto 12. Qed.

(* try-close on an open queue succeeds exactly when the queue is empty, and a failed try-close changes nothing;
   on a closed queue it reports closed and changes nothing *)
Theorem m_tryclose_spec s : mclosed s = false ->
  (snd (m_tryclose s) = RFlag true <-> (ctrl s = [] /\ req s = [])) /\
  (snd (m_tryclose s) = RFlag true -> fst (m_tryclose s) = set_flags s true (cleared s)) /\
  (snd (m_tryclose s) <> RFlag true -> m_tryclose s = (s, RFlag false)).
Proof.
  intros Hc. unfold m_tryclose, m_empty. rewrite Hc. destruct (ctrl s) as [|x c]; destruct (req s) as [|y r]; cbn [fst snd].
  - split; [split; auto|]. split; [reflexivity|congruence].
  - split; [split; [discriminate|intros [_ H]; discriminate]|]. split; [discriminate|reflexivity].
  - split; [split; [discriminate|intros [H _]; discriminate]|]. split; [discriminate|reflexivity].
  - split; [split; [discriminate|intros [H _]; discriminate]|]. split; [discriminate|reflexivity].
Qed.
Theorem m_tryclose_closed s : mclosed s = true -> m_tryclose s = (s, RFlag true).
Proof. intros Hc. unfold m_tryclose. now rewrite Hc. Qed.

(* try-clear succeeds exactly when the queue is closed and empty (and keeps answering true afterwards) *)
Theorem m_tryclear_spec s : cleared s = false ->
  (snd (m_tryclear s) = RFlag true <-> (mclosed s = true /\ ctrl s = [] /\ req s = [])) /\
  (snd (m_tryclear s) <> RFlag true -> m_tryclear s = (s, RFlag false)).
Proof.
  intros Hc. unfold m_tryclear, m_empty. rewrite Hc. destruct (mclosed s).
  - destruct (ctrl s) as [|x c]; destruct (req s) as [|y r]; cbn [snd].
    + split; [split; auto|congruence].
    + split; [split; [discriminate|intros (_ & _ & H); discriminate]|reflexivity].
    + split; [split; [discriminate|intros (_ & H & _); discriminate]|reflexivity].
    + split; [split; [discriminate|intros (_ & H & _); discriminate]|reflexivity].
  - cbn [snd]. split; [split; [discriminate|intros (H & _); discriminate]|reflexivity].
Qed.
Theorem m_tryclear_cleared s : cleared s = true -> m_tryclear s = (s, RFlag true).
Proof. intros Hc. unfold m_tryclear. now rewrite Hc. Qed.

(* after close: Pop fails even with items and removes nothing; PopAnyway reports closed only when both lists are empty *)
Theorem m_pop_after_close s : mclosed s = true ->
  m_pop s = (s, RClosed) /\ (snd (m_pop_anyway s) = RClosed <-> (ctrl s = [] /\ req s = [])).
Proof.
  intros Hc. unfold m_pop, m_pop_anyway, m_front, m_empty. rewrite Hc.
  destruct (ctrl s) as [|x c]; destruct (req s) as [|y r]; cbn [snd]; (split; [reflexivity|]).
  - split; auto.
  - split; [discriminate|intros [_ H]; discriminate].
  - split; [discriminate|intros [H _]; discriminate].
  - split; [discriminate|intros [H _]; discriminate].
Qed.

(* whole histories *)
Definition m_acc1 (e : mop * res) : list Z :=
  match e with
  | (MAddCtrl x, RDone) | (MAddCtrlAnyway x, RDone) | (MPriorCtrl x, RDone)
  | (MAddReq x, RDone) | (MAddReqAnyway x, RDone) | (MPriorReq x, RDone) => [x]
  | _ => []
  end.
Definition m_accs (h : list (mop * res)) : list Z := flat_map m_acc1 h.
Definition m_acc1c (e : mop * res) : list Z :=
  match e with (MAddCtrl x, RDone) | (MAddCtrlAnyway x, RDone) | (MPriorCtrl x, RDone) => [x] | _ => [] end.
Definition m_acc1r (e : mop * res) : list Z :=
  match e with (MAddReq x, RDone) | (MAddReqAnyway x, RDone) | (MPriorReq x, RDone) => [x] | _ => [] end.
Definition m_is_prior (o : mop) : bool := match o with MPriorCtrl _ | MPriorReq _ => true | _ => false end.

Lemma m_step_conserve s o :
  Permutation (match snd (m_step s o) with RItem x => [x] | _ => [] end ++ ctrl (fst (m_step s o)) ++ req (fst (m_step s o)))
              ((ctrl s ++ req s) ++ m_acc1 (o, snd (m_step s o))).
Proof.
  destruct o as [x|x|x|x|x|x| | | | | | |]; cbn [m_step].
  - unfold m_add_ctrl. destruct (mclosed s); [cbn; rewrite app_nil_r; reflexivity|].
    destruct (full (cmax s) (length (ctrl s))); cbn; [rewrite app_nil_r; reflexivity|].
    rewrite <- !app_assoc. apply Permutation_app_head. cbn. apply Permutation_cons_append.
  - unfold m_anyway, m_add_ctrl. destruct (mclosed s); [cbn; rewrite app_nil_r; reflexivity|].
    destruct (full (cmax s) (length (ctrl s))); cbn; [rewrite app_nil_r; reflexivity|].
    rewrite <- !app_assoc. apply Permutation_app_head. cbn. apply Permutation_cons_append.
  - unfold m_prior_ctrl. destruct (mclosed s); [cbn; rewrite app_nil_r; reflexivity|]. cbn. apply Permutation_cons_append.
  - unfold m_add_req. destruct (mclosed s); [cbn; rewrite app_nil_r; reflexivity|].
    destruct (full (rmax s) (length (req s))); cbn; [rewrite app_nil_r; reflexivity|]. rewrite app_assoc. reflexivity.
  - unfold m_anyway, m_add_req. destruct (mclosed s); [cbn; rewrite app_nil_r; reflexivity|].
    destruct (full (rmax s) (length (req s))); cbn; [rewrite app_nil_r; reflexivity|]. rewrite app_assoc. reflexivity.
  - unfold m_prior_req. destruct (mclosed s); [cbn; rewrite app_nil_r; reflexivity|]. cbn.
    apply Permutation_sym. rewrite <- app_assoc. apply Permutation_app_head. apply Permutation_sym, Permutation_cons_append.
  - unfold m_pop, m_front, m_empty. destruct (ctrl s) as [|a c] eqn:Ec; destruct (req s) as [|b r] eqn:Er;
      destruct (mclosed s); cbn; rewrite ?Ec, ?Er, ?app_nil_r; reflexivity.
  - unfold m_pop_anyway, m_front, m_empty. destruct (ctrl s) as [|a c] eqn:Ec; destruct (req s) as [|b r] eqn:Er;
      destruct (mclosed s); cbn; rewrite ?Ec, ?Er, ?app_nil_r; reflexivity.
  - cbn. rewrite app_nil_r. reflexivity.
  - unfold m_tryclose. destruct (mclosed s); [cbn; rewrite app_nil_r; reflexivity|].
    destruct (m_empty s); cbn; rewrite app_nil_r; reflexivity.
  - unfold m_tryclear. destruct (cleared s); [cbn; rewrite app_nil_r; reflexivity|].
    destruct (mclosed s); [|cbn; rewrite app_nil_r; reflexivity]. destruct (m_empty s); cbn; rewrite app_nil_r; reflexivity.
  - cbn. rewrite app_nil_r. reflexivity.
  - cbn. rewrite app_nil_r. reflexivity.
Qed.

(* conservation: handed out ++ both lists is a rearrangement of what was there at the start ++ everything accepted *)
Theorem m_conservation : forall ops s,
  let r := h_run m_step s ops in
  Permutation (outs (fst r) ++ ctrl (snd r) ++ req (snd r)) ((ctrl s ++ req s) ++ m_accs (fst r)).
Proof.
  cbn zeta. induction ops as [|o ops IH]; intros s; [cbn; rewrite app_nil_r; reflexivity|].
  cbn [h_run]. pose proof (m_step_conserve s o) as H1. destruct (m_step s o) as [s' r]. cbn [fst snd] in H1.
  specialize (IH s'). destruct (h_run m_step s' ops) as [h s'']. cbn [fst snd] in *.
  rewrite outs_cons. unfold m_accs in *. cbn [flat_map]. fold (m_acc1 (o, r)).
  rewrite <- app_assoc. rewrite (app_assoc (ctrl s ++ req s)).
  eapply Permutation_trans; [apply Permutation_app_head; exact IH|].
  rewrite app_assoc. apply Permutation_app_tail. exact H1.
Qed.

Corollary m_conservation_new cm rm ops :
  let r := h_run m_step (m_new cm rm) ops in Permutation (outs (fst r) ++ ctrl (snd r) ++ req (snd r)) (m_accs (fst r)).
Proof. cbn zeta. apply (m_conservation ops (m_new cm rm)). Qed.

(* per level first-in-first-out (without prior adds), and control before request, over whole histories:
   the items handed out are, at every moment, split as (control messages handed out) and (requests handed out), each an
   exact prefix of its acceptance order.  We record the level of every handed-out item with a ghost pair. *)
Record mtr := { outc : list Z; outr : list Z }.
Definition m_out1 (s : mq) (o : mop) : list Z * list Z :=      (* (control, request) handed out by this call in state s *)
  match snd (m_step s o) with
  | RItem x => match ctrl s with _ :: _ => ([x], []) | [] => ([], [x]) end
  | _ => ([], [])
  end.
Fixpoint m_levels (s : mq) (ops : list mop) : list Z * list Z :=
  match ops with
  | [] => ([], [])
  | o :: ops' => let '(a, b) := m_out1 s o in let '(a', b') := m_levels (fst (m_step s o)) ops' in (a ++ a', b ++ b')
  end.

Lemma m_levels_outs : forall ops s, Permutation (fst (m_levels s ops) ++ snd (m_levels s ops)) (outs (fst (h_run m_step s ops))).
Proof.
  induction ops as [|o ops IH]; intros s; [reflexivity|].
  cbn [m_levels h_run]. unfold m_out1. specialize (IH (fst (m_step s o))).
  destruct (m_step s o) as [s' r]. cbn [fst snd] in *. destruct (m_levels s' ops) as [a' b'].
  destruct (h_run m_step s' ops) as [h s'']. cbn [fst snd] in *. rewrite outs_cons.
  destruct r; cbn [app]; try exact IH.
  destruct (ctrl s); cbn [app fst snd].
  - eapply Permutation_trans; [apply Permutation_sym, Permutation_middle|]. constructor. exact IH.
  - constructor. exact IH.
Qed.

Lemma m_step_fifo s o : m_is_prior o = false ->
  fst (m_out1 s o) ++ ctrl (fst (m_step s o)) = ctrl s ++ m_acc1c (o, snd (m_step s o)) /\
  snd (m_out1 s o) ++ req (fst (m_step s o)) = req s ++ m_acc1r (o, snd (m_step s o)).
Proof.
  intros Hp. unfold m_out1. destruct o as [x|x|x|x|x|x| | | | | | |]; cbn [m_step]; try discriminate.
  - unfold m_add_ctrl. destruct (mclosed s); [cbn; now rewrite !app_nil_r|].
    destruct (full (cmax s) (length (ctrl s))); cbn; now rewrite ?app_nil_r.
  - unfold m_anyway, m_add_ctrl. destruct (mclosed s); [cbn; now rewrite !app_nil_r|].
    destruct (full (cmax s) (length (ctrl s))); cbn; now rewrite ?app_nil_r.
  - unfold m_add_req. destruct (mclosed s); [cbn; now rewrite !app_nil_r|].
    destruct (full (rmax s) (length (req s))); cbn; now rewrite ?app_nil_r.
  - unfold m_anyway, m_add_req. destruct (mclosed s); [cbn; now rewrite !app_nil_r|].
    destruct (full (rmax s) (length (req s))); cbn; now rewrite ?app_nil_r.
  - unfold m_pop, m_front, m_empty. destruct (ctrl s) as [|a c] eqn:Ec; destruct (req s) as [|b r] eqn:Er;
      destruct (mclosed s); cbn; rewrite ?Ec, ?Er, ?app_nil_r; auto.
  - unfold m_pop_anyway, m_front, m_empty. destruct (ctrl s) as [|a c] eqn:Ec; destruct (req s) as [|b r] eqn:Er;
      destruct (mclosed s); cbn; rewrite ?Ec, ?Er, ?app_nil_r; auto.
  - cbn. now rewrite !app_nil_r.
  - unfold m_tryclose. destruct (mclosed s); [cbn; now rewrite !app_nil_r|]. destruct (m_empty s); cbn; now rewrite !app_nil_r.
  - unfold m_tryclear. destruct (cleared s); [cbn; now rewrite !app_nil_r|].
    destruct (mclosed s); [|cbn; now rewrite !app_nil_r]. destruct (m_empty s); cbn; now rewrite !app_nil_r.
  - cbn. now rewrite !app_nil_r.
  - cbn. now rewrite !app_nil_r.
Qed.

Theorem m_fifo : forall ops s, forallb (fun o => negb (m_is_prior o)) ops = true ->
  let r := h_run m_step s ops in
  fst (m_levels s ops) ++ ctrl (snd r) = ctrl s ++ flat_map m_acc1c (fst r) /\
  snd (m_levels s ops) ++ req (snd r) = req s ++ flat_map m_acc1r (fst r).
Proof.
  cbn zeta. induction ops as [|o ops IH]; intros s Hnp; [cbn; now rewrite !app_nil_r|].
  cbn [forallb] in Hnp. apply andb_prop in Hnp as [Ho Hnp]. apply negb_true_iff in Ho.
  cbn [h_run m_levels]. pose proof (m_step_fifo s o Ho) as [H1 H2]. destruct (m_out1 s o) as [a b].
  destruct (m_step s o) as [s' r]. cbn [fst snd] in *.
  specialize (IH s' Hnp). destruct (m_levels s' ops) as [a' b']. destruct (h_run m_step s' ops) as [h s'']. cbn [fst snd] in *.
  destruct IH as [I1 I2]. cbn [flat_map]. split.
  - rewrite <- app_assoc, I1, !app_assoc, H1. reflexivity.
  - rewrite <- app_assoc, I2, !app_assoc, H2. reflexivity.
Qed.

(* reachable states: cleared only when closed and empty; flags never reset *)
Definition m_inv (s : mq) : Prop := cleared s = true -> mclosed s = true /\ ctrl s = [] /\ req s = [].
Lemma m_step_inv s o : m_inv s -> m_inv (fst (m_step s o)) /\
  (mclosed s = true -> mclosed (fst (m_step s o)) = true) /\ (cleared s = true -> cleared (fst (m_step s o)) = true).
Proof.
  unfold m_inv. intros HI.
  destruct o as [x|x|x|x|x|x| | | | | | |]; cbn [m_step];
    unfold m_anyway, m_add_ctrl, m_add_req, m_prior_ctrl, m_prior_req, m_pop, m_pop_anyway, m_front, m_tryclose, m_tryclear, m_empty;
    destruct (mclosed s) eqn:Em; destruct (cleared s) eqn:Ee;
    try destruct (full (cmax s) (length (ctrl s))); try destruct (full (rmax s) (length (req s)));
    try (destruct (ctrl s) as [|a c] eqn:Ec; destruct (req s) as [|b r] eqn:Er);
    cbn; rewrite ?Em, ?Ee, ?Ec, ?Er; intuition congruence.
Qed.

Theorem m_cleared_means_closed_and_empty : forall ops cm rm,
  let s := snd (h_run m_step (m_new cm rm) ops) in cleared s = true -> mclosed s = true /\ ctrl s = [] /\ req s = [].
Proof.
  cbn zeta. intros ops cm rm.
  assert (G : forall ops s, m_inv s -> m_inv (snd (h_run m_step s ops))).
  { induction ops0 as [|o ops0 IH]; intros s Hs; [exact Hs|]. cbn [h_run].
    pose proof (m_step_inv s o Hs) as (H1 & _). destruct (m_step s o) as [s' r]. cbn [fst] in H1.
    specialize (IH s' H1). destruct (h_run m_step s' ops0) as [h s'']. exact IH. }
  apply G. unfold m_inv, m_new. cbn. discriminate.
Qed.

(* closed stays closed and nothing more is accepted *)
Theorem m_closed_stays : forall ops s, mclosed s = true ->
  mclosed (snd (h_run m_step s ops)) = true /\ m_accs (fst (h_run m_step s ops)) = [] /\
  Forall (fun e => match fst e with
                   | MAddCtrl _ | MAddCtrlAnyway _ | MPriorCtrl _ | MAddReq _ | MAddReqAnyway _ | MPriorReq _ | MPop => snd e = RClosed
                   | MTryClose | MIsClosed => snd e = RFlag true
                   | _ => True end) (fst (h_run m_step s ops)).
Proof.
  induction ops as [|o ops IH]; intros s Hc; [cbn; auto|].
  cbn [h_run].
  assert (H1 : mclosed (fst (m_step s o)) = true /\ m_acc1 (o, snd (m_step s o)) = [] /\
               match o with
               | MAddCtrl _ | MAddCtrlAnyway _ | MPriorCtrl _ | MAddReq _ | MAddReqAnyway _ | MPriorReq _ | MPop => snd (m_step s o) = RClosed
               | MTryClose | MIsClosed => snd (m_step s o) = RFlag true
               | _ => True end).
  { destruct o as [x|x|x|x|x|x| | | | | | |]; cbn [m_step];
      unfold m_anyway, m_add_ctrl, m_add_req, m_prior_ctrl, m_prior_req, m_pop, m_pop_anyway, m_tryclose, m_tryclear; rewrite ?Hc; cbn; auto.
    - destruct (m_empty s); cbn; auto.
    - unfold m_front. destruct (m_empty s); [cbn; auto|]. destruct (ctrl s); [destruct (req s)|]; cbn; auto.
    - destruct (cleared s); [cbn; auto|]. destruct (m_empty s); cbn; auto. }
  destruct (m_step s o) as [s' r]. cbn [fst snd] in H1. destruct H1 as (Hc' & Ha & Hr).
  specialize (IH s' Hc'). destruct (h_run m_step s' ops) as [h s'']. cbn [fst snd] in *.
  destruct IH as (I1 & I2 & I3). split; [exact I1|]. split.
  - unfold m_accs in *. cbn [flat_map]. fold (m_acc1 (o, r)). now rewrite Ha, I2.
  - constructor; [exact Hr|exact I3].
Qed.

(* after close PopAnyway hands out the control messages in order, then the requests in order, and only then reports closed *)
Lemma m_drain_req : forall r s, mclosed s = true -> ctrl s = [] -> req s = r ->
  h_run m_step s (repeat MPopAnyway (length r) ++ [MPopAnyway]) =
  (map (fun x => (MPopAnyway, RItem x)) r ++ [(MPopAnyway, RClosed)], set_lists s [] []).
Proof.
  induction r as [|y r IHr]; intros s Hc Hci Hri.
  - cbn [length repeat app h_run m_step map]. unfold m_pop_anyway, m_empty. rewrite Hci, Hri, Hc.
    f_equal. destruct s; cbn in *; now subst.
  - cbn [length repeat app h_run m_step map]. unfold m_pop_anyway at 1, m_front, m_empty. rewrite Hci, Hri.
    rewrite (IHr (set_lists s [] r)); [|exact Hc|reflexivity|reflexivity]. reflexivity.
Qed.

Theorem m_drain_anyway : forall c r s, mclosed s = true -> ctrl s = c -> req s = r ->
  h_run m_step s (repeat MPopAnyway (length c + length r) ++ [MPopAnyway]) =
  (map (fun x => (MPopAnyway, RItem x)) (c ++ r) ++ [(MPopAnyway, RClosed)], set_lists s [] []).
Proof.
  induction c as [|x c IH]; intros r s Hc Hci Hri.
  - change (length [] + length r) with (length r). cbn [app]. now apply m_drain_req.
  - change (length (x :: c) + length r) with (S (length c + length r)).
    cbn [repeat app h_run m_step map]. unfold m_pop_anyway at 1, m_front, m_empty. rewrite Hci.
    rewrite (IH r (set_lists s c (req s))); [|exact Hc|reflexivity|exact Hri]. reflexivity.
Qed.
