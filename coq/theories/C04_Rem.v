(* C04: SetAndGetRemoved of pairwise distinct fresh keys.  For EVERY order of the calls (every linearisation of concurrent
   callers) the values inserted are, as a multiset, the values the calls reported as removed together with the values still
   cached: each inserted value is reported by exactly one call or is still there; and the eviction counter counts the
   reported values.  (The monitor rem_ok of C04_Check.v checks this on what concurrent callers were told.) *)
From Coq Require Import ZArith List Lia Bool Permutation.
Require Import LRU Shard Cases_Common LRUOps C04_Model C04_Refine C04_Wide C04_Theorems C04_Check C04_Burst.
Import ListNotations.
Open Scope Z_scope.

Definition rvals (r : gout) : list Z := match r with Some (RList l) => l | _ => [] end.
Definition sagr_op (o : op) : Prop := match o with SetAndGetRemoved _ _ _ => True | _ => False end.
Definition okey (o : op) : Z := match o with SetAndGetRemoved k _ _ => k | _ => 0 end.
Definition oval (o : op) : Z := match o with SetAndGetRemoved _ x _ => x | _ => 0 end.
Definition vals (l : list E) : list Z := map valof l.

Lemma vals_trim_dropped cp (l : list E) : vals l = vals (trim cp l) ++ vals (dropped cp l).
Proof. unfold vals. rewrite <- map_app, <- trim_dropped. reflexivity. Qed.

Lemma keys_trim_incl cp (l : list E) k : In k (map keyof (trim cp l)) -> In k (map keyof l).
Proof. intros H. apply in_map_iff in H. destruct H as (e & <- & He). apply in_map. apply (trim_incl cp l e He). Qed.

Section Rem.
Variable v : variant.

Theorem rem_run ops : forall c, MInv v c -> Forall op_dom ops -> Forall sagr_op ops -> NoDup (map okey ops) ->
  (forall k, In k (keys_of c) -> ~ In k (map okey ops)) ->
  Permutation (map oval ops ++ vals (lst c)) (flat_map rvals (snd (mrun v c ops)) ++ vals (lst (fst (mrun v c ops)))) /\
  evs (fst (mrun v c ops)) = evs c + Z.of_nat (length (flat_map rvals (snd (mrun v c ops)))) /\
  MInv v (fst (mrun v c ops)).
Proof.
  induction ops as [|o ops IH]; intros c HI Hd Hs Hnd Hfresh.
  - cbn. split; [apply Permutation_refl|]. split; [lia|exact HI].
  - inversion Hd as [|? ? [Hok Hfit] Hd']; subst. inversion Hs as [|? ? Ho Hs']; subst.
    cbn [map] in Hnd. inversion Hnd as [|? ? Hk Hnd']; subst.
    destruct o as [k|k|k|k x s|k x s|k x s|k| |c0]; try contradiction. cbn [okey oval] in *.
    destruct (mstep_refines v c (SetAndGetRemoved k x s) HI Hok Hfit) as (A & R & I).
    assert (Hnotin : ~ In k (map keyof (lst c))).
    { intros Hin. apply (Hfresh k Hin). left. reflexivity. }
    (* the ideal step on a fresh key *)
    assert (En : exists s', norm v (SetAndGetRemoved k x s) = SetAndGetRemoved k x s') by (destruct v; eexists; reflexivity).
    destruct En as [s' En]. rewrite En in A, R. unfold abs in A, R. cbn [istep settle fst snd] in A, R.
    assert (Et : touch k x s' (lst c) = ((k, x), s') :: lst c) by (unfold touch; rewrite remove_key_absent by exact Hnotin; reflexivity).
    cbn [mrun map]. destruct (mstep v c (SetAndGetRemoved k x s)) as [c1 r1]. cbn [fst snd] in *.
    assert (El1 : lst c1 = trim (cap c) (touch k x s' (lst c))) by (apply (f_equal (fun t => fst (fst t))) in A; exact A).
    assert (Ee1 : evs c1 = evs c + Z.of_nat (length (dropped (cap c) (touch k x s' (lst c))))) by (apply (f_equal snd) in A; exact A).
    assert (Hfresh1 : forall k', In k' (keys_of c1) -> ~ In k' (map okey ops)).
    { intros k' Hin Hin2. unfold keys_of in Hin. rewrite El1 in Hin. apply keys_trim_incl in Hin. rewrite Et in Hin. cbn [map keyof fst] in Hin.
      destruct Hin as [<-|Hin]; [contradiction|]. apply (Hfresh k' Hin). right. exact Hin2. }
    destruct (IH c1 I Hd' Hs' Hnd' Hfresh1) as (P & Ev & I2).
    destruct (mrun v c1 ops) as [c2 rs]. cbn [fst snd] in *. subst r1. cbn [flat_map rvals].
    split; [|split; [|exact I2]].
    + pose proof (vals_trim_dropped (cap c) (touch k x s' (lst c))) as Hsplit. rewrite Et in Hsplit at 1.
      unfold vals at 1 in Hsplit. cbn [map valof fst snd] in Hsplit. fold (vals (lst c)) in Hsplit. rewrite <- El1 in Hsplit.
      rewrite map_rev. fold (vals (dropped (cap c) (touch k x s' (lst c)))).
      set (D := vals (dropped (cap c) (touch k x s' (lst c)))) in *.
      (* (x :: rest) ++ vals l  ~  rev D ++ R ++ vals lf *)
      apply Permutation_trans with (map oval ops ++ (x :: vals (lst c))); [cbn [app]; apply Permutation_middle|].
      rewrite Hsplit. apply Permutation_trans with (D ++ (map oval ops ++ vals (lst c1))).
      * rewrite app_assoc. apply Permutation_app_comm.
      * rewrite <- app_assoc. apply Permutation_app; [apply Permutation_rev|exact P].
    + rewrite Ev, Ee1, app_length, map_length, rev_length. lia.
Qed.
End Rem.

(* from a new cache *)
Theorem rem_every_linearisation v cap0 ops :
  cap_dom cap0 -> Forall op_dom ops -> Forall sagr_op ops -> NoDup (map okey ops) ->
  let c := fst (mrun v (new_lru cap0) ops) in
  let reported := flat_map rvals (snd (mrun v (new_lru cap0) ops)) in
  Permutation (map oval ops) (reported ++ map valof (lst c)) /\
  evs c = Z.of_nat (length reported) /\ size c = total (lst c) /\ size c <= cap c /\ NoDup (keys_of c).
Proof.
  intros Hc Hd Hs Hnd. cbn zeta.
  destruct (rem_run v ops (new_lru cap0) (new_MInv v cap0 Hc) Hd Hs Hnd) as (P & Ev & I).
  { intros k []. }
  cbn [new_lru lst evs vals map] in P, Ev. rewrite app_nil_r in P.
  pose proof (MInv_Inv _ _ I) as (Hsz & _ & Hk & _ & Hle).
  split; [exact P|]. split; [lia|]. split; [exact Hsz|]. split; [lia|exact Hk].
Qed.

Print Assumptions rem_every_linearisation.
