(* C19 vcode: the monitor of C19_Spec.v evaluated in one pass.
   `holds` looks every expectation up in the list of earlier items (quadratic); `holds_fast` carries, per pair, what
   those look-ups would answer - last send, attempts since (as a binary number), running window - and is proved equal
   to `holds`.  It is what the driver evaluates on run-length histories with tens of thousands of items. *)
From Coq Require Import ZArith NArith List Bool Lia String Ascii.
Require Import C19_Model C19_Spec C19_Sound.
Import ListNotations.
Open Scope Z_scope.

(* run-length histories: (n, it) stands for n consecutive copies of it *)
Definition expand (segs : list (N * item)) : list item :=
  fold_right (fun (s : N * item) acc => N.iter (fst s) (cons (snd s)) acc) [] segs.

Record msum := { m_ls : Z * string * Z; m_att : Z; m_win : Z * Z }.
Definition mstate := list (string * msum).

Fixpoint mlookup (k : string) (m : mstate) : option msum :=
  match m with [] => None | (k', x) :: r => if String.eqb k k' then Some x else mlookup k r end.
Fixpoint mupdate (k : string) (x : msum) (m : mstate) : mstate :=
  match m with
  | [] => [(k, x)]
  | (k', y) :: r => if String.eqb k k' then (k, x) :: r else (k', y) :: mupdate k x r
  end.

Lemma mlookup_update_eq k x m : mlookup k (mupdate k x m) = Some x.
Proof.
  induction m as [|[k' y] m IH]; cbn [mupdate mlookup]; [now rewrite String.eqb_refl|].
  destruct (String.eqb k k') eqn:E; cbn [mlookup]; [now rewrite String.eqb_refl|now rewrite E].
Qed.
Lemma mlookup_update_neq k k0 x m : k0 <> k -> mlookup k0 (mupdate k x m) = mlookup k0 m.
Proof.
  intros Hne. induction m as [|[k' y] m IH]; cbn [mupdate mlookup].
  - destruct (String.eqb_spec k0 k); [contradiction|reflexivity].
  - destruct (String.eqb_spec k k') as [E|E]; cbn [mlookup].
    + subst k'. destruct (String.eqb_spec k0 k); [contradiction|reflexivity].
    + destruct (String.eqb k0 k'); [reflexivity|exact IH].
Qed.

Section Fast.
Variable c : cfg.

Definition exp_verify_f (s : option msum) (cd : string) (hs now : Z) : option err :=
  match s with
  | None => Some NotExist
  | Some x =>
    let '(t, cd0, h0) := m_ls x in
    if maxVerify c <? m_att x + 1 then Some RetryLimit
    else if negb (String.eqb cd0 cd) then Some NotMatch
    else if negb (h0 =? hs) then Some HashNotMatch
    else if ttl c <? tsub now t then Some Timeout
    else None
  end.

Definition exp_send_f (s : option msum) (now : Z) : option err :=
  let t0 := match s with Some x => let '(t, _, _) := m_ls x in t | None => NEVER end in
  if tsub now t0 <? minInterval c then Some TooFreq
  else
    let '(a, n) := match s with Some x => m_win x | None => (now, 0) end in
    if counterDuration c <? tsub now a then None
    else if maxCount c <? n then Some CountLimit else None.

Definition item_ok_f (strict : bool) (m : mstate) (it : item) : bool :=
  match it with
  | (Verify a p cd hs now, RVerify r) =>
    oerr_eqb r (exp_verify_f (mlookup (key a p) m) cd hs now)
    || (negb strict && oerr_eqb r (Some NotExist))
  | (Send a p now smsok, ob) =>
    negb strict ||
    match exp_send_f (mlookup (key a p) m) now with
    | Some e => obs_eqb ob (RSend 0 (Some e) [])
    | None => if gen_panics c p then obs_eqb ob RPanic else sent_ok c a p smsok ob
    end
  | _ => false
  end.

Definition mstep (m : mstate) (it : item) : mstate :=
  match sent_key it with
  | Some k =>
    match sent_info c k it with
    | Some (t, cd, h) =>
      let '(a, n) := match mlookup k m with Some x => m_win x | None => (t, 0) end in
      mupdate k {| m_ls := (t, cd, h); m_att := 0;
                   m_win := if counterDuration c <? tsub t a then (t, 1) else (a, n + 1) |} m
    | None => m
    end
  | None =>
    match it with
    | (Verify a p _ _ _, _) =>
      match mlookup (key a p) m with
      | Some x => mupdate (key a p) {| m_ls := m_ls x; m_att := m_att x + 1; m_win := m_win x |} m
      | None => m
      end
    | _ => m
    end
  end.

Fixpoint holds_from_f (strict : bool) (m : mstate) (items : list item) : bool :=
  match items with
  | [] => true
  | it :: r => if item_ok_f strict m it then holds_from_f strict (mstep m it) r else false
  end.

Definition holds_fast (items : list item) : bool :=
  holds_from_f (Z.of_nat (nkeys items) <=? cacheSize c) [] items.

(* the summaries are exactly what the look-ups in the past would answer *)
Definition MI (past : list item) (m : mstate) : Prop :=
  forall k, match mlookup k m with
            | Some x => last_send c k past = Some (m_ls x) /\ Z.of_nat (attempts c k past) = m_att x /\
                        win c k past = Some (m_win x)
            | None => last_send c k past = None
            end.

Lemma item_ok_f_eq strict past m it : MI past m -> item_ok_f strict m it = item_ok c strict past it.
Proof.
  intros HI. destruct it as [[a p now smsok|a p cd hs now] ob]; unfold item_ok_f, item_ok.
  - f_equal. specialize (HI (key a p)). unfold exp_send_f, exp_send.
    destruct (mlookup (key a p) m) as [x|].
    + destruct HI as (H1 & _ & H3). rewrite H1, H3. destruct (m_ls x) as [[t cd0] h0]. reflexivity.
    + rewrite HI, (win_none c _ _ HI). reflexivity.
  - destruct ob as [h e calls|r|]; try reflexivity. f_equal. f_equal.
    specialize (HI (key a p)). unfold exp_verify_f, exp_verify.
    destruct (mlookup (key a p) m) as [x|].
    + destruct HI as (H1 & H2 & _). rewrite H1, H2. destruct (m_ls x) as [[t cd0] h0]. reflexivity.
    + now rewrite HI.
Qed.

Lemma MI_step past m it : MI past m -> MI (it :: past) (mstep m it).
Proof.
  intros HI k. unfold mstep. destruct (sent_key it) as [k0|] eqn:Hsk.
  - destruct (sent_info c k0 it) as [[[t cd] h]|] eqn:Hsi.
    + destruct (String.eqb_spec k k0) as [E|E].
      * subst k0. specialize (HI k).
        destruct (match mlookup k m with Some x => m_win x | None => (t, 0) end) as [a n] eqn:Ew.
        rewrite mlookup_update_eq. cbn [m_ls m_att m_win last_send attempts win]. rewrite Hsi.
        split; [reflexivity|]. split; [reflexivity|].
        destruct (mlookup k m) as [x|].
        -- destruct HI as (_ & _ & H3). rewrite H3, Ew. reflexivity.
        -- rewrite (win_none c _ _ HI). injection Ew as <- <-. reflexivity.
      * destruct (match mlookup k0 m with Some x => m_win x | None => (t, 0) end) as [a n].
        rewrite mlookup_update_neq by exact E.
        destruct (past_frame c k it past (sent_info_other c k k0 it Hsk E)) as (E1 & E2 & E3).
        rewrite E1, E2, E3.
        assert (Hv : is_verify_on k it = false).
        { destruct it as [[a' p' now' s'|a' p' cd' hs' now'] ob']; [reflexivity|discriminate Hsk]. }
        rewrite Hv. cbn [Nat.add]. apply HI.
    + (* sent_key says k0 but sent_info k0 is None: impossible *)
      exfalso. destruct it as [[a p now smsok|a p cd hs now] [h e calls|e|]]; cbn [sent_key sent_info] in *; try discriminate.
      destruct (accepted e); [|discriminate]. injection Hsk as <-. rewrite String.eqb_refl in Hsi. discriminate.
  - destruct (past_frame c k it past (sent_info_none c k it Hsk)) as (E1 & E2 & E3). rewrite E1, E2, E3.
    destruct it as [[a p now smsok|a p cd hs now] ob]; cbn [is_verify_on].
    + cbn [Nat.add]. apply HI.
    + destruct (mlookup (key a p) m) as [x|] eqn:El.
      * destruct (String.eqb_spec (key a p) k) as [E|E].
        -- subst k. rewrite mlookup_update_eq. cbn [m_ls m_att m_win]. specialize (HI (key a p)). rewrite El in HI.
           destruct HI as (H1 & H2 & H3). repeat split; auto. lia.
        -- rewrite mlookup_update_neq by congruence. cbn [Nat.add]. apply HI.
      * destruct (String.eqb_spec (key a p) k) as [E|E].
        -- subst k. rewrite El. specialize (HI (key a p)). rewrite El in HI. exact HI.
        -- cbn [Nat.add]. apply HI.
Qed.

Lemma holds_from_f_eq strict : forall items past m, MI past m -> holds_from_f strict m items = holds_from c strict past items.
Proof.
  induction items as [|it r IH]; intros past m HI; [reflexivity|].
  cbn [holds_from_f holds_from]. rewrite (item_ok_f_eq strict past m it HI).
  destruct (item_ok c strict past it); [|reflexivity]. cbn [andb]. apply IH, MI_step, HI.
Qed.

Theorem holds_fast_eq items : holds_fast items = holds c items.
Proof. unfold holds_fast, holds. apply holds_from_f_eq. intros k. reflexivity. Qed.

End Fast.

Print Assumptions holds_fast_eq.
