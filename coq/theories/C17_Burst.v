(* C17, concurrent first writes: operations on pairwise distinct keys commute on a cell container, so whatever order
   a burst of concurrent writes took effect in, the container answers every later request as after the order the
   harness wrote down.  (The harness' "burst" cases: N goroutines make the first write of N distinct keys on a fresh
   container; the answers read at quiescence are compared with the sequential history "writes in goroutine order,
   then the reads".) *)
From Coq Require Import List Bool Arith Lia Permutation.
Require Import Shard C17_Shard.
Import ListNotations.

Section Burst.
Variables K C O R : Type.
Variable key : O -> K.
Variable keq : K -> K -> bool.
Hypothesis keq_spec : forall a b, keq a b = true <-> a = b.
Variable cstep : C -> O -> C * R.
Variable c0 : C.

Local Notation cstate := (cstate K C).
Local Notation cell_step := (cell_step K C O R key keq cstep).
Local Notation run := (run_state cstate O R cell_step).
Local Notation same := (same K O key keq).

Lemma same_perm k : forall h h', Permutation h h' -> NoDup (map key h) -> same k h = same k h'.
Proof.
  induction 1 as [|x l l' Hp IH|x y l|l l' l'' Hp1 IH1 Hp2 IH2]; intros Hnd.
  - reflexivity.
  - unfold Shard.same in *. cbn [filter]. inversion Hnd; subst. rewrite IH by assumption. reflexivity.
  - unfold Shard.same. cbn [filter]. destruct (keq (key y) k) eqn:Ey, (keq (key x) k) eqn:Ex; try reflexivity.
    apply keq_spec in Ey, Ex. exfalso. cbn in Hnd. inversion Hnd as [|? ? Hn _]; subst. apply Hn. left. congruence.
  - rewrite IH1 by assumption. apply IH2. apply (Permutation_NoDup (Permutation_map key Hp1) Hnd).
Qed.

(* the cell of every key after the burst does not depend on the order the writes took effect in *)
Theorem burst_order_free s h h' : Permutation h h' -> NoDup (map key h) -> forall k, run s h k = run s h' k.
Proof.
  intros Hp Hnd k.
  rewrite (cell_at_key K C O R key keq keq_spec cstep k h s s eq_refl).
  rewrite (cell_at_key K C O R key keq keq_spec cstep k h' s s eq_refl).
  now rewrite (same_perm k h h' Hp Hnd).
Qed.

Lemma trace_ext : forall tl (s1 s2 : cstate), (forall k, s1 k = s2 k) ->
  trace cstate O R cell_step s1 tl = trace cstate O R cell_step s2 tl.
Proof.
  induction tl as [|o tl IH]; intros s1 s2 E; [reflexivity|]. cbn [trace]. f_equal.
  - unfold C17_Shard.cell_step. cbn [snd]. now rewrite E.
  - apply IH. intros k. unfold C17_Shard.cell_step. cbn [fst]. unfold cset. rewrite E. destruct (keq k (key o)); [reflexivity|apply E].
Qed.

(* hence every request made after quiescence is answered the same *)
Theorem burst_then_requests h h' tl : Permutation h h' -> NoDup (map key h) ->
  trace cstate O R cell_step (run (cinit K C c0) h) tl = trace cstate O R cell_step (run (cinit K C c0) h') tl.
Proof. intros Hp Hnd. apply trace_ext. now apply burst_order_free. Qed.
End Burst.

Print Assumptions burst_then_requests.
