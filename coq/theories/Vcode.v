(* C19 core (repaired key): a sent code verifies, anything else fails, attempts and sends are bounded *)
From Coq Require Import ZArith List Bool Lia.
Import ListNotations.
Open Scope Z_scope.

Record cfg := { ttl : Z; minInterval : Z; counterDuration : Z; maxCount : Z; maxVerify : Z }.
Record vc := { setTime : Z; counterTime : Z; sendCount : Z; verifyCount : Z; code : Z; hash : Z }.
Inductive err := TooFreq | CountLimit | RetryLimit | NotExist | NotMatch | HashNotMatch | Timeout.

Definition NEVER := - 2 ^ 62.     (* the zero time.Time: far in the past *)

Section V.
Variable c : cfg.

(* SendSMSCode for one (area, phone): the cache entry (None = no entry), the clock, the fresh code and hash *)
Definition send (e : option vc) (now cd hs : Z) : option vc * option err :=
  let v := match e with Some v => v | None => {| setTime := NEVER; counterTime := now; sendCount := 0; verifyCount := 0; code := 0; hash := 0 |} end in
  if now - setTime v <? minInterval c then (e, Some TooFreq)
  else
    let '(v1, blocked) :=
      if counterDuration c <? now - counterTime v
      then ({| setTime := setTime v; counterTime := now; sendCount := 0; verifyCount := verifyCount v; code := code v; hash := hash v |}, false)
      else (v, maxCount c <? sendCount v) in
    if blocked then (e, Some CountLimit)
    else (Some {| setTime := now; counterTime := counterTime v1; sendCount := sendCount v1 + 1; verifyCount := 0; code := cd; hash := hs |}, None).

(* VerifySMSCode: the attempt is counted first *)
Definition verify (e : option vc) (cd hs now : Z) : option vc * option err :=
  match e with
  | None => (None, Some NotExist)
  | Some v =>
    let v' := {| setTime := setTime v; counterTime := counterTime v; sendCount := sendCount v; verifyCount := verifyCount v + 1; code := code v; hash := hash v |} in
    (Some v',
     if maxVerify c <? verifyCount v' then Some RetryLimit
     else if negb (code v =? cd) then Some NotMatch
     else if negb (hash v =? hs) then Some HashNotMatch
     else if ttl c <? now - setTime v then Some Timeout
     else None)
  end.

(* a successful send followed by k wrong guesses *)
Fixpoint guesses (e : option vc) (k : nat) (wrong hs now : Z) : option vc :=
  match k with O => e | S k' => guesses (fst (verify e wrong hs now)) k' wrong hs now end.

Lemma guesses_count : forall k e v wrong hs now, e = Some v ->
  exists v', guesses e k wrong hs now = Some v' /\ verifyCount v' = verifyCount v + Z.of_nat k /\
             code v' = code v /\ hash v' = hash v /\ setTime v' = setTime v.
Proof.
  induction k as [|k IH]; intros e v wrong hs now ->; cbn [guesses].
  - exists v. repeat split; auto; lia.
  - cbn [verify fst].
    set (v1 := {| setTime := setTime v; counterTime := counterTime v; sendCount := sendCount v;
                  verifyCount := verifyCount v + 1; code := code v; hash := hash v |}).
    destruct (IH (Some v1) v1 wrong hs now eq_refl) as (v' & -> & Hc & Hcd & Hh & Hs). cbn in *.
    exists v'. repeat split; auto; lia.
Qed.

Theorem verify_after_send e now cd hs e' now' : 0 <= maxVerify c ->
  send e now cd hs = (e', None) -> now' - now <= ttl c -> 1 <= maxVerify c ->
  snd (verify e' cd hs now') = None.
Proof.
  intros Hm Hs Ht Hm1. unfold send in Hs.
  destruct (now - setTime _ <? minInterval c); [inversion Hs|].
  destruct (counterDuration c <? now - counterTime _);
    [| destruct (maxCount c <? sendCount _); [inversion Hs|]];
    inversion Hs; subst; clear Hs; cbn;
    (destruct (maxVerify c <? 1) eqn:E1; [apply Z.ltb_lt in E1; lia|]);
    rewrite !Z.eqb_refl; cbn;
    (destruct (ttl c <? now' - now) eqn:E2; [apply Z.ltb_lt in E2; lia|]); reflexivity.
Qed.

Theorem wrong_code_fails e cd hs now v : e = Some v -> code v <> cd -> snd (verify e cd hs now) <> None.
Proof.
  intros -> Hne. cbn. destruct (maxVerify c <? verifyCount v + 1); [discriminate|].
  replace (code v =? cd) with false by (symmetry; apply Z.eqb_neq; exact Hne). discriminate.
Qed.

(* after more than maxVerify attempts against one sent code even the right code is refused *)
Theorem attempt_bound e v k wrong now : e = Some v -> verifyCount v = 0 -> maxVerify c <= Z.of_nat k ->
  snd (verify (guesses e k wrong (hash v) now) (code v) (hash v) now) = Some RetryLimit.
Proof.
  intros He Hv Hk. destruct (guesses_count k e v wrong (hash v) now He) as (v' & -> & Hc & _).
  cbn. replace (maxVerify c <? verifyCount v' + 1) with true by (symmetry; apply Z.ltb_lt; lia). reflexivity.
Qed.

(* a new send resets the attempts *)
Theorem send_resets e now cd hs v' : send e now cd hs = (Some v', None) -> verifyCount v' = 0 /\ code v' = cd /\ hash v' = hs.
Proof.
  unfold send. destruct (now - setTime _ <? minInterval c); [discriminate|].
  destruct (counterDuration c <? now - counterTime _); [|destruct (maxCount c <? sendCount _); [discriminate|]];
    intros [= <-]; cbn; auto.
Qed.

Theorem min_interval_enforced v now cd hs : now - setTime v < minInterval c -> snd (send (Some v) now cd hs) = Some TooFreq.
Proof. intros H. unfold send. replace (now - setTime v <? minInterval c) with true by (symmetry; apply Z.ltb_lt; lia). reflexivity. Qed.
End V.
Print Assumptions attempt_bound.
Print Assumptions verify_after_send.
