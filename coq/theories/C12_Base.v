(* C12 queues: what is shared by the four models (pipe queue q.Q / async.Q / mux.Q, two-level queue mq.MQ,
   SyncQueue, PriQueue): the result enum, and the generic "history" machinery
     accept = the observed results are exactly the model's,
     holds  = a monitor that follows the OBSERVED results and checks the property's clause for every call,
   with the generic soundness theorem accept -> holds from a one-step simulation lemma. *)
From Coq Require Import ZArith List Bool Lia.
Import ListNotations.

(* what a call is observed to return, mapped to a small enum by the harness *)
Inductive res :=
  | RDone                    (* nil error / no result (Close, SyncQueue.Push) *)
  | RItem (x : Z)            (* an item handed out *)
  | RClosed                  (* ErrClosed; SyncQueue: Pop = nil, TryPop = (nil, true) *)
  | RFull                    (* ErrReqQFull / ErrFull / ErrQFull / ErrQueueIsFull *)
  | RCtrlFull                (* mq.ErrCtrlQFull *)
  | RFlag (b : bool)         (* TryClose / TryClear / IsClosed / IsCleared *)
  | RLen (n : Z)             (* Len() *)
  | RNone                    (* nothing there, not closed: PriQueue.Pop = nil, SyncQueue.TryPop = (nil, false) *)
  | RNotIssued               (* the call would block (pop on an empty open queue, add-anyway on a full one): not issued *)
  | ROther (code : Z).       (* anything else: ErrSync, a panic, a call that never returned, a foreign value *)

Definition res_eqb (a b : res) : bool :=
  match a, b with
  | RDone, RDone | RClosed, RClosed | RFull, RFull | RCtrlFull, RCtrlFull | RNone, RNone | RNotIssued, RNotIssued => true
  | RItem x, RItem y => Z.eqb x y
  | RFlag x, RFlag y => Bool.eqb x y
  | RLen x, RLen y => Z.eqb x y
  | ROther x, ROther y => Z.eqb x y
  | _, _ => false
  end.

Lemma res_eqb_eq a b : res_eqb a b = true -> a = b.
Proof.
  destruct a, b; cbn; try discriminate; auto; intros H;
    try (apply Z.eqb_eq in H; now subst); try (apply Bool.eqb_prop in H; now subst).
Qed.
Lemma res_eqb_refl a : res_eqb a a = true.
Proof. destruct a; cbn; auto using Z.eqb_refl, Bool.eqb_reflx. Qed.

(* Go: `if max > 0 { if list.Len() >= max { return ErrFull } }` *)
Definition full (m : Z) (len : nat) : bool := (0 <? m)%Z && (m <=? Z.of_nat len)%Z.

Lemma full_spec m len : full m len = true <-> (0 < m /\ m <= Z.of_nat len)%Z.
Proof.
  unfold full. rewrite andb_true_iff, Z.ltb_lt, Z.leb_le. tauto.
Qed.

Section Hist.
  Context {S G O : Type}.
  Variable step : S -> O -> S * res.          (* the model: one call *)
  Variable chk : G -> O -> res -> bool.       (* the monitor: is this observed result what the property's clauses allow *)
  Variable upd : G -> O -> res -> G.          (* the monitor's ghost state follows the OBSERVED result *)

  (* the observed history is exactly what the model produces *)
  Fixpoint h_accept (s : S) (h : list (O * res)) : bool :=
    match h with
    | [] => true
    | (o, r) :: h' => let '(s', r') := step s o in res_eqb r' r && h_accept s' h'
    end.
  (* the property's clauses hold for every call of the observed history *)
  Fixpoint h_holds (g : G) (h : list (O * res)) : bool :=
    match h with
    | [] => true
    | (o, r) :: h' => chk g o r && h_holds (upd g o r) h'
    end.
  (* the model's own history for a list of calls *)
  Fixpoint h_run (s : S) (ops : list O) : list (O * res) * S :=
    match ops with
    | [] => ([], s)
    | o :: ops' => let '(s', r) := step s o in let '(h, s'') := h_run s' ops' in ((o, r) :: h, s'')
    end.

  Variable Rel : S -> G -> Prop.
  Hypothesis step_ok : forall s g o, Rel s g ->
    chk g o (snd (step s o)) = true /\ Rel (fst (step s o)) (upd g o (snd (step s o))).

  Theorem h_sound : forall h s g, Rel s g -> h_accept s h = true -> h_holds g h = true.
  Proof.
    induction h as [|[o r] h IH]; intros s g HR Ha; [reflexivity|].
    cbn [h_accept h_holds] in *. destruct (step_ok s g o HR) as [Hc HR'].
    destruct (step s o) as [s' r'] eqn:E. cbn [fst snd] in *.
    apply andb_prop in Ha as [H1 H2]. apply res_eqb_eq in H1. subst r'.
    rewrite Hc. cbn [andb]. exact (IH s' _ HR' H2).
  Qed.

  Theorem h_model_holds : forall ops s g, Rel s g -> h_holds g (fst (h_run s ops)) = true.
  Proof.
    induction ops as [|o ops IH]; intros s g HR; [reflexivity|].
    cbn [h_run]. destruct (step_ok s g o HR) as [Hc HR'].
    destruct (step s o) as [s' r] eqn:E. cbn [fst snd] in *.
    specialize (IH s' _ HR'). destruct (h_run s' ops) as [h s'']. cbn [fst h_holds] in *.
    now rewrite Hc, IH.
  Qed.

  Theorem h_model_accept : forall ops s, h_accept s (fst (h_run s ops)) = true.
  Proof.
    induction ops as [|o ops IH]; intros s; [reflexivity|].
    cbn [h_run]. destruct (step s o) as [s' r] eqn:E. specialize (IH s').
    destruct (h_run s' ops) as [h s'']. cbn [fst h_accept] in *. rewrite E, res_eqb_refl, IH. reflexivity.
  Qed.

  (* a history the model accepts IS the model's history for those calls *)
  Theorem h_accept_is_run : forall h s, h_accept s h = true -> fst (h_run s (map fst h)) = h.
  Proof.
    induction h as [|[o r] h IH]; intros s Ha; [reflexivity|].
    cbn [h_accept map fst h_run] in *. destruct (step s o) as [s' r'] eqn:E.
    apply andb_prop in Ha as [H1 H2]. apply res_eqb_eq in H1. subst r'.
    specialize (IH s' H2). destruct (h_run s' (map fst h)) as [h' s'']. cbn [fst] in *. now subst.
  Qed.

  Lemma h_run_app : forall a b s,
    h_run s (a ++ b) = (fst (h_run s a) ++ fst (h_run (snd (h_run s a)) b), snd (h_run (snd (h_run s a)) b)).
  Proof.
    induction a as [|o a IH]; intros b s.
    - cbn. now destruct (h_run s b).
    - cbn [app h_run]. destruct (step s o) as [s' r]. rewrite IH.
      destruct (h_run s' a) as [h1 s1]. cbn [fst snd]. reflexivity.
  Qed.
End Hist.

(* the items handed out in a history, in time order *)
Definition outs {O} (h : list (O * res)) : list Z :=
  flat_map (fun e => match snd e with RItem x => [x] | _ => [] end) h.

Lemma outs_cons {O} (o : O) r h : outs ((o, r) :: h) = match r with RItem x => [x] | _ => [] end ++ outs h.
Proof. reflexivity. Qed.
