(* C09: the property's clauses as theorems over all bitmaps, byte strings, integers, counts and block lists *)
From Coq Require Import ZArith List Bool Lia Sorted.
Require Import Cases_Common LE Marshal C09_Model C09_Lists C09_Bits C09_Case C09_Sound.
Import ListNotations.
Open Scope Z_scope.

(* ------------------------------------------------------------------ Marshal: which form *)
Theorem marshal_sparse_form b : length b = 16%nat -> 0 < card b < 64 -> marshal b = encode_sparse (members b).
Proof.
  intros Hl Hc. rewrite card_members in Hc. unfold marshal. rewrite (blen_members b Hl).
  replace (zlen (members b) =? 0) with false by (symmetry; apply Z.eqb_neq; lia).
  replace (zlen (members b) <? 64) with true by (symmetry; apply Z.ltb_lt; lia).
  f_equal. rewrite <- (blen_members b Hl). apply iter_all_members, Hl.
Qed.
Theorem marshal_dense_form b : length b = 16%nat -> 64 <= card b -> marshal b = dense b.
Proof.
  intros Hl Hc. rewrite card_members in Hc. unfold marshal. rewrite (blen_members b Hl).
  replace (zlen (members b) =? 0) with false by (symmetry; apply Z.eqb_neq; lia).
  replace (zlen (members b) <? 64) with false by (symmetry; apply Z.ltb_ge; lia). reflexivity.
Qed.
Theorem marshal_empty_form b : length b = 16%nat -> card b = 0 -> marshal b = [].
Proof.
  intros Hl Hc. rewrite card_members in Hc. unfold marshal. rewrite (blen_members b Hl), Hc. reflexivity.
Qed.

(* what Marshal emits is a well-formed byte string *)
Theorem marshal_bytes_ok b : wf b -> bytes_ok (marshal b).
Proof.
  intros [Hl Hf]. unfold marshal. destruct (blen b =? 0); [constructor|]. destruct (blen b <? 64).
  - rewrite (iter_all_members b Hl). apply encode_sparse_ok, members_range.
  - unfold dense. clear Hl. induction Hf as [|w ws Hw _ IH]; [constructor|]. cbn [flat_map]. apply Forall_app. split; [apply le_bytes_ok|exact IH].
Qed.

(* ------------------------------------------------------------------ Unmarshal never panics *)
Theorem unmarshal_no_panic bs : bytes_ok bs -> unmarshal zero bs <> UPanic.
Proof.
  intros Hok. pose proof (unmarshal_denoted bs Hok) as H. destruct (denoted bs) as [dn|].
  - destruct H as (b & E & _). rewrite E. discriminate.
  - rewrite H. discriminate.
Qed.

(* the result of a successful Unmarshal is a well-formed bitmap *)
Lemma set64_bound w i : 0 <= w < 2 ^ 64 -> 0 <= i <= 63 -> 0 <= set64 w i < 2 ^ 64.
Proof.
  intros Hw Hi. unfold set64. replace (i <=? 63) with true by (symmetry; apply Z.leb_le; lia).
  assert (H0 : 0 <= Z.lor w (Z.shiftl 1 i)) by (apply Z.lor_nonneg; split; [lia|apply Z.shiftl_nonneg; lia]).
  split; [exact H0|]. destruct (Z.eq_dec (Z.lor w (Z.shiftl 1 i)) 0) as [->|Hne]; [lia|].
  apply Z.log2_lt_pow2; [lia|]. rewrite Z.log2_lor by (try lia; apply Z.shiftl_nonneg; lia).
  rewrite Z.shiftl_1_l, Z.log2_pow2 by lia.
  destruct (Z.eq_dec w 0) as [->|Hw0]; [cbn [Z.log2]; lia|].
  assert (Z.log2 w < 64) by (apply Z.log2_lt_pow2; lia). lia.
Qed.
Lemma upd_forall (P : Z -> Prop) f : (forall w, P w -> P (f w)) -> forall b k, Forall P b -> Forall P (upd b k f).
Proof.
  intros Hf. induction b as [|w b IH]; intros k H; [destruct k; constructor|].
  inversion H as [|? ? Hw Hb]; subst. destruct k as [|k]; cbn [upd]; constructor; auto.
Qed.
Lemma set_i16_wf b i : wf b -> wf (set_i16 b i).
Proof.
  intros [Hl Hf]. split; [now rewrite set_i16_length|]. unfold set_i16.
  destruct ((0 <=? Z.quot i 64) && (Z.quot i 64 <? 16)); [|exact Hf].
  apply upd_forall; [|exact Hf]. intros w Hw. cbv beta.
  destruct (Z.le_gt_cases (Z.rem i 64 mod 256) 63) as [H|H].
  - apply set64_bound; [exact Hw|]. pose proof (Z.mod_pos_bound (Z.rem i 64) 256 ltac:(lia)). lia.
  - unfold set64. replace (Z.rem i 64 mod 256 <=? 63) with false by (symmetry; apply Z.leb_gt; lia). exact Hw.
Qed.
Lemma fold_set_wf ms : forall b, wf b -> wf (fold_left set_i16 ms b).
Proof. induction ms as [|i ms IH]; intros b H; cbn [fold_left]; [exact H|]. apply IH, set_i16_wf, H. Qed.

Lemma undense_length k : forall bs, length (undense k bs) = k.
Proof. induction k as [|k IH]; intros bs; cbn [undense length]; [reflexivity|]. now rewrite IH. Qed.
Lemma undense_bound k : forall bs, bytes_ok bs -> Forall (fun w => 0 <= w < 2 ^ 64) (undense k bs).
Proof.
  induction k as [|k IH]; intros bs Hok; cbn [undense]; constructor.
  - destruct (le_decode_encode (firstn 8 bs) (bytes_ok_firstn 8 bs Hok)) as [_ Hb].
    assert (256 ^ Z.of_nat (length (firstn 8 bs)) <= 2 ^ 64).
    { change (2 ^ 64) with (256 ^ 8). apply Z.pow_le_mono_r; [lia|]. rewrite firstn_length. lia. }
    lia.
  - apply IH, bytes_ok_skipn, Hok.
Qed.

Lemma UOk_inj a b : UOk a = UOk b -> a = b.
Proof. intros H. injection H. auto. Qed.

Theorem unmarshal_wf bs b : bytes_ok bs -> unmarshal zero bs = UOk b -> wf b.
Proof.
  intros Hok. unfold unmarshal. destruct (zlen bs =? 0); [intros E; apply UOk_inj in E; subst b; apply zero_wf|].
  destruct (128 <? zlen bs); [discriminate|]. destruct (negb (Z.rem (zlen bs) 2 =? 0)); [discriminate|].
  destruct (zlen bs <? 128) eqn:E128.
  - rewrite unm_sparse_spec by exact Hok. destruct (forallb _ _); [|discriminate]. intros E. apply UOk_inj in E. subst b. apply fold_set_wf, zero_wf.
  - intros E. apply UOk_inj in E. subst b. split; [apply undense_length|apply undense_bound, Hok].
Qed.

(* two byte strings accepted into equal sets: Unmarshal is a function of the denoted set (well-formed results with equal members are equal) *)
Theorem unmarshal_exact bs b dn : bytes_ok bs -> denoted bs = Some dn -> unmarshal zero bs = UOk b ->
  wf b /\ forall j, in_range j -> member b j = dn j.
Proof.
  intros Hok Hd Hu. split; [eapply unmarshal_wf; eassumption|].
  pose proof (unmarshal_denoted bs Hok) as H. rewrite Hd in H. destruct H as (b' & E & _ & Hm). rewrite Hu in E. apply UOk_inj in E. subst b'. exact Hm.
Qed.

(* ------------------------------------------------------------------ a block built from one integer *)
Lemma sorted_singleton l i : StronglySorted Z.lt l -> (forall x, In x l <-> x = i) -> l = [i].
Proof.
  intros Hs Hm. destruct l as [|a r]; [exfalso; apply (proj2 (Hm i) eq_refl)|].
  assert (a = i) by (apply Hm; now left). subst a. f_equal. destruct r as [|c r]; [reflexivity|exfalso].
  inversion Hs as [|? ? _ Hall]; subst. rewrite Forall_forall in Hall.
  assert (c = i) by (apply Hm; right; now left). specialize (Hall c (or_introl eq_refl)). lia.
Qed.
Lemma members_singleton i : in_range i -> members (set_i16 zero i) = [i].
Proof.
  intros Hi. apply sorted_singleton; [apply members_sorted|]. intros x. rewrite in_members.
  rewrite member_set_i16, member_zero by (try reflexivity; exact Hi). cbn [orb]. apply Z.eqb_eq.
Qed.

Lemma take_singleton (x : Z) n : 1 <= n -> take n [x] = [x].
Proof. intros H. apply take_all. unfold zlen. cbn [length]. lia. Qed.

(* 64-bit blocks: every integer of the documented range comes back, alone, in both directions, for every count >= 1;
   integers outside the range are refused *)
Theorem big_roundtrip v n : 0 <= v < MAXI64 -> 1 <= n ->
  exists b, big_new v = Some b /\ start b = v / 1024 /\ big_getn false b n = IList [v] /\ big_getn true b n = IList [v].
Proof.
  intros Hv Hn. unfold big_new.
  replace ((v <? 0) || (v >=? MAXI64)) with false
    by (symmetry; apply orb_false_iff; split; [apply Z.ltb_ge; lia|rewrite Z.geb_leb; apply Z.leb_gt; lia]).
  destruct (big_range_quot v Hv) as [Hq Hr]. rewrite Hq, Hr. eexists. split; [reflexivity|]. cbn [start]. split; [reflexivity|].
  assert (Hi : in_range (v mod 1024)) by (unfold in_range; apply Z.mod_pos_bound; lia).
  rewrite !(big_getn_spec (v / 1024)) by (try reflexivity; try lia; cbn [bits]; now rewrite set_i16_length).
  cbn [bits]. rewrite (members_singleton _ Hi). cbn [rev app]. rewrite take_singleton by lia. cbn [map].
  pose proof (Z.div_mod v 1024 ltac:(lia)). replace (v mod 1024 + 1024 * (v / 1024)) with v by lia. split; reflexivity.
Qed.
Theorem big_out_of_range v : ~ (0 <= v < MAXI64) -> big_new v = None.
Proof.
  intros H. unfold big_new. replace ((v <? 0) || (v >=? MAXI64)) with true; [reflexivity|].
  symmetry. apply orb_true_iff. destruct (Z.lt_ge_cases v 0) as [H0|H0]; [left; apply Z.ltb_lt; exact H0|right]. rewrite Z.geb_leb. apply Z.leb_le. lia.
Qed.

(* a further integer is accepted exactly when it lies in the documented range and in the block; then exactly its position is added *)
Theorem big_accepts_iff b u : (exists b', big_set b u = Some b') <-> (0 <= u < MAXI64 /\ u / 1024 = start b).
Proof.
  rewrite big_set_spec. unfold ok_big. split.
  - intros (b' & H). destruct ((0 <=? u) && (u <? MAXI64) && (u / 1024 =? start b)) eqn:E; [|discriminate].
    apply andb_prop in E. destruct E as [E E3]. apply andb_prop in E. destruct E as [E1 E2].
    apply Z.leb_le in E1. apply Z.ltb_lt in E2. apply Z.eqb_eq in E3. lia.
  - intros [Hr He]. replace ((0 <=? u) && (u <? MAXI64) && (u / 1024 =? start b)) with true; [eexists; reflexivity|].
    symmetry. apply andb_true_intro. split; [apply andb_true_intro; split; [apply Z.leb_le|apply Z.ltb_lt]; lia|apply Z.eqb_eq; exact He].
Qed.
Theorem big_set_effect b u b' : length (bits b) = 16%nat -> big_set b u = Some b' ->
  start b' = start b /\ forall j, member (bits b') j = member (bits b) j || (j =? u mod 1024).
Proof.
  intros Hl. rewrite big_set_spec. destruct (ok_big (start b) u); [|discriminate]. intros E. inversion E; subst. cbn [start bits].
  split; [reflexivity|]. intros j. apply member_set_i16; [exact Hl|]. unfold in_range. apply Z.mod_pos_bound. lia.
Qed.

(* the integers a block holds, and the order of both iterations, for every block and every count *)
Definition block_values (b : block) : list Z := map (fun m => m + 1024 * start b) (members (bits b)).
Lemma block_values_sorted b : StronglySorted Z.lt (block_values b).
Proof. unfold block_values. apply (sorted_map (R:=Z.lt)); [intros x y; lia|apply members_sorted]. Qed.
Lemma block_values_in b x : In x (block_values b) <-> exists m, member (bits b) m = true /\ x = m + 1024 * start b.
Proof.
  unfold block_values. rewrite in_map_iff. split.
  - intros (m & <- & Hm). exists m. split; [now apply in_members|reflexivity].
  - intros (m & Hm & ->). exists m. split; [reflexivity|now apply in_members].
Qed.

Theorem big_order b n : length (bits b) = 16%nat -> 0 <= n ->
  big_getn false b n = IList (take n (block_values b)) /\ StronglySorted Z.lt (take n (block_values b)) /\
  big_getn true b n = IList (take n (rev (block_values b))) /\ StronglySorted Z.gt (take n (rev (block_values b))).
Proof.
  intros Hl Hn. rewrite !(big_getn_spec (start b)) by (auto; lia). unfold block_values. rewrite <- map_rev, !take_map.
  split; [reflexivity|]. split; [rewrite <- take_map; apply sorted_take, block_values_sorted|].
  split; [reflexivity|]. rewrite <- take_map, map_rev. apply sorted_take, sorted_rev, block_values_sorted.
Qed.
Theorem big_negative_count rv b n : n < 0 -> big_getn rv b n = IPanic.
Proof. intros H. unfold big_getn. replace (n <? 0) with true by (symmetry; apply Z.ltb_lt; lia). reflexivity. Qed.

(* ------------------------------------------------------------------ 32-bit blocks, over all of uint32 *)
Lemma maxtip_val : MAXTIP = 4194303. Proof. reflexivity. Qed.

Lemma tip_getn_spec' rv b k : 0 <= start b <= MAXTIP -> 0 <= k -> length (bits b) = 16%nat ->
  tip_getn rv b k = IList (map (fun m => m + 1024 * start b) (take k (if rv then rev (members (bits b)) else members (bits b)))).
Proof.
  intros Hs Hk Hl. rewrite maxtip_val in Hs.
  apply (tip_getn_spec (start b * 1024) (start b)); auto; [lia|]. symmetry. apply Z.div_mul. lia.
Qed.

Theorem tip_roundtrip v n : 0 <= v < 2 ^ 32 -> 1 <= n ->
  start (tip_new v) = v / 1024 /\ tip_getn false (tip_new v) n = IList [v] /\ tip_getn true (tip_new v) n = IList [v].
Proof.
  intros Hv Hn. split; [reflexivity|].
  assert (Hi : in_range (v mod 1024)) by (unfold in_range; apply Z.mod_pos_bound; lia).
  rewrite !(tip_getn_spec v (v / 1024)) by (try reflexivity; try lia; cbn [tip_new bits]; now rewrite set_i16_length).
  cbn [tip_new bits]. rewrite (members_singleton _ Hi). cbn [rev app]. rewrite take_singleton by lia. cbn [map].
  pose proof (Z.div_mod v 1024 ltac:(lia)). replace (v mod 1024 + 1024 * (v / 1024)) with v by lia. split; reflexivity.
Qed.
Theorem tip_accepts_iff b u : (exists b', tip_set b u = Some b') <-> u / 1024 = start b.
Proof.
  rewrite tip_set_spec. unfold ok_tip. split.
  - intros (b' & H). destruct (u / 1024 =? start b) eqn:E; [apply Z.eqb_eq, E|discriminate].
  - intros He. replace (u / 1024 =? start b) with true by (symmetry; apply Z.eqb_eq, He). eexists; reflexivity.
Qed.
Theorem tip_set_effect b u b' : length (bits b) = 16%nat -> tip_set b u = Some b' ->
  start b' = start b /\ forall j, member (bits b') j = member (bits b) j || (j =? u mod 1024).
Proof.
  intros Hl. rewrite tip_set_spec. destruct (ok_tip (start b) u); [|discriminate]. intros E. inversion E; subst. cbn [start bits].
  split; [reflexivity|]. intros j. apply member_set_i16; [exact Hl|]. unfold in_range. apply Z.mod_pos_bound. lia.
Qed.
Theorem tip_order b n : 0 <= start b <= MAXTIP -> length (bits b) = 16%nat -> 0 <= n ->
  tip_getn false b n = IList (take n (block_values b)) /\ StronglySorted Z.lt (take n (block_values b)) /\
  tip_getn true b n = IList (take n (rev (block_values b))) /\ StronglySorted Z.gt (take n (rev (block_values b))).
Proof.
  intros Hs Hl Hn. rewrite !tip_getn_spec' by (auto; lia). unfold block_values. rewrite <- map_rev, !take_map.
  split; [reflexivity|]. split; [rewrite <- take_map; apply sorted_take, block_values_sorted|].
  split; [reflexivity|]. rewrite <- take_map, map_rev. apply sorted_take, sorted_rev, block_values_sorted.
Qed.

(* ------------------------------------------------------------------ a block and any further integers: exactly the accepted set comes back *)
Lemma bobs_eqb_refl o : bobs_eqb o o = true.
Proof.
  destruct o as [|s a f r]; [reflexivity|]. cbn [bobs_eqb]. now rewrite Z.eqb_refl, boollist_eqb_refl, !iobs_eqb_refl.
Qed.
Theorem big_model_holds v us n : case_holds (CBig v us n (model_block_run (big_new v) big_set big_getn us n)) = true.
Proof. apply big_case_sound. cbn [case_matches]. apply bobs_eqb_refl. Qed.
Theorem tip_model_holds v us n : 0 <= v < 2 ^ 32 -> Forall (fun u => 0 <= u < 2 ^ 32) us ->
  case_holds (CTip v us n (model_block_run (Some (tip_new v)) tip_set tip_getn us n)) = true.
Proof.
  intros Hv Hus. apply tip_case_sound. cbn [case_matches]. rewrite bobs_eqb_refl, andb_true_r. apply andb_true_intro. split.
  - unfold in_u32. apply andb_true_intro. split; [apply Z.leb_le|apply Z.ltb_lt]; lia.
  - apply forallb_forall. intros u Hu. rewrite Forall_forall in Hus. specialize (Hus u Hu). unfold in_u32. apply andb_true_intro. split; [apply Z.leb_le|apply Z.ltb_lt]; lia.
Qed.

(* ------------------------------------------------------------------ list forms: concatenation of the per-block iterations, truncated *)
Theorem bigs_concat rv bl n : Forall (fun b => length (bits b) = 16%nat) bl -> 0 <= n ->
  bigs_getn rv bl n = IList (take n (flat_map (fun b => big_iter rv b 1024) bl)).
Proof.
  intros Hb Hn. unfold bigs_getn. apply list_getn_spec; [exact Hn|]. intros b Hin k. unfold big_iter. apply iter1024_take.
  rewrite Forall_forall in Hb. now apply Hb.
Qed.
Theorem tips_concat rv bl n : Forall (fun b => length (bits b) = 16%nat) bl -> 0 <= n ->
  tips_getn rv bl n = IList (take n (flat_map (fun b => tip_iter rv b 1024) (if rv then rev bl else bl))).
Proof.
  intros Hb Hn. unfold tips_getn. apply list_getn_spec; [exact Hn|]. intros b Hin k. unfold tip_iter. apply iter1024_take.
  rewrite Forall_forall in Hb. apply Hb. destruct rv; [now apply in_rev|exact Hin].
Qed.
Theorem lists_empty rv n : bigs_getn rv [] n = IList [] /\ tips_getn rv [] n = IList [].
Proof. destruct rv; split; reflexivity. Qed.

(* ------------------------------------------------------------------ the two repaired defects, as refuted variants *)
(* before fe370f6 the product Start*1024 was taken in uint32: the integer 2^32 (in range) came back as 0 *)
Theorem big_prefix_refuted : exists v b, 0 <= v < MAXI64 /\ big_new v = Some b /\ big_iter_prefix false b 3 <> [v].
Proof. exists (2 ^ 32). eexists. split; [vm_compute; split; [discriminate|reflexivity]|]. split; [vm_compute; reflexivity|]. vm_compute. discriminate. Qed.
(* before 3becea6 GetNAsU32 ran the reverse iterator: the block {5, 7} came back descending *)
Theorem tip_prefix_refuted : exists b, tip_set (tip_new 5) 7 = Some b /\ tip_getn_prefix false b 5 = IList [7; 5] /\ tip_getn false b 5 = IList [5; 7].
Proof. eexists. split; [vm_compute; reflexivity|]. split; vm_compute; reflexivity. Qed.

(* ------------------------------------------------------------------ non-vacuity at the boundary member counts *)
Definition first_k (k : Z) : bitmap := fold_left set_i16 (take k z1024) zero.
Example boundary_counts :
  map (fun k => (card (first_k k), zlen (marshal (first_k k)), ures_eqb (unmarshal zero (marshal (first_k k))) (UOk (first_k k))))
      [0; 1; 63; 64; 65; 1024]
  = [(0, 0, true); (1, 2, true); (63, 126, true); (64, 128, true); (65, 128, true); (1024, 128, true)].
Proof. vm_compute. reflexivity. Qed.

(* ------------------------------------------------------------------ the clauses grouped as C09_Props.v states them *)
Theorem marshal_form b : wf b ->
  zlen (marshal b) = (if card b <? 64 then 2 * card b else 128) /\
  (card b = 0 -> marshal b = []) /\
  (0 < card b < 64 -> marshal b = encode_sparse (members b)) /\
  (64 <= card b -> marshal b = dense b) /\
  bytes_ok (marshal b).
Proof.
  intros Hw. pose proof Hw as [Hl _].
  split; [apply marshal_length, Hl|]. split; [apply marshal_empty_form, Hl|]. split; [apply marshal_sparse_form, Hl|].
  split; [apply marshal_dense_form, Hl|apply marshal_bytes_ok, Hw].
Qed.

Theorem unmarshal_total bs : bytes_ok bs ->
  unmarshal zero bs <> UPanic /\
  (forall b, unmarshal zero bs = UOk b -> wf b) /\
  match denoted bs with
  | None => unmarshal zero bs = UErr
  | Some dn => exists b, unmarshal zero bs = UOk b /\ wf b /\ forall j, in_range j -> member b j = dn j
  end.
Proof.
  intros Hok. split; [apply unmarshal_no_panic, Hok|]. split; [intros b; apply unmarshal_wf, Hok|].
  pose proof (unmarshal_denoted bs Hok) as H. destruct (denoted bs) as [dn|]; [|exact H].
  destruct H as (b & E & _ & Hm). exists b. split; [exact E|]. split; [eapply unmarshal_wf; eassumption|exact Hm].
Qed.

Theorem iter1024_spec wr b add n : length b = 16%nat ->
  iter1024 false wr b add n = map (fun m => wr (m + add)) (take n (members b)) /\
  iter1024 true wr b add n = map (fun m => wr (m + add)) (take n (rev (members b))) /\
  StronglySorted Z.lt (members b) /\
  (forall j, In j (members b) <-> member b j = true).
Proof.
  intros Hl. split; [apply iter1024_fwd, Hl|]. split; [apply iter1024_rev, Hl|]. split; [apply members_sorted|apply in_members].
Qed.

Theorem big_build v : (0 <= v < MAXI64 -> forall n, 1 <= n ->
    exists b, big_new v = Some b /\ start b = v / 1024 /\ big_getn false b n = IList [v] /\ big_getn true b n = IList [v]) /\
  (~ (0 <= v < MAXI64) -> big_new v = None).
Proof. split; [intros Hv n Hn; apply big_roundtrip; assumption|apply big_out_of_range]. Qed.

Theorem big_accepts b u : length (bits b) = 16%nat ->
  ((exists b', big_set b u = Some b') <-> (0 <= u < MAXI64 /\ u / 1024 = start b)) /\
  (forall b', big_set b u = Some b' -> start b' = start b /\ forall j, member (bits b') j = member (bits b) j || (j =? u mod 1024)).
Proof. intros Hl. split; [apply big_accepts_iff|intros b'; apply big_set_effect, Hl]. Qed.

Theorem big_iteration b n : length (bits b) = 16%nat ->
  (0 <= n ->
   big_getn false b n = IList (take n (block_values b)) /\ StronglySorted Z.lt (take n (block_values b)) /\
   big_getn true b n = IList (take n (rev (block_values b))) /\ StronglySorted Z.gt (take n (rev (block_values b)))) /\
  (n < 0 -> big_getn false b n = IPanic /\ big_getn true b n = IPanic) /\
  (forall x, In x (block_values b) <-> exists m, member (bits b) m = true /\ x = m + 1024 * start b).
Proof.
  intros Hl. split; [intros Hn; apply big_order; assumption|]. split; [intros Hn; split; apply big_negative_count, Hn|apply block_values_in].
Qed.

Theorem tip_accepts b u : length (bits b) = 16%nat ->
  ((exists b', tip_set b u = Some b') <-> u / 1024 = start b) /\
  (forall b', tip_set b u = Some b' -> start b' = start b /\ forall j, member (bits b') j = member (bits b) j || (j =? u mod 1024)).
Proof. intros Hl. split; [apply tip_accepts_iff|intros b'; apply tip_set_effect, Hl]. Qed.

Theorem lists_concat rv bl n : Forall (fun b => length (bits b) = 16%nat) bl -> 0 <= n ->
  bigs_getn rv bl n = IList (take n (flat_map (fun b => big_iter rv b 1024) bl)) /\
  tips_getn rv bl n = IList (take n (flat_map (fun b => tip_iter rv b 1024) (if rv then rev bl else bl))).
Proof. intros Hb Hn. split; [apply bigs_concat; assumption|apply tips_concat; assumption]. Qed.

Theorem prefix_refuted :
  (exists v b, 0 <= v < MAXI64 /\ big_new v = Some b /\ big_iter_prefix false b 3 <> [v]) /\
  (exists b, tip_set (tip_new 5) 7 = Some b /\ tip_getn_prefix false b 5 = IList [7; 5] /\ tip_getn false b 5 = IList [5; 7]).
Proof. split; [exact big_prefix_refuted|exact tip_prefix_refuted]. Qed.
