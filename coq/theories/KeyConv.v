(* C02: the converse invariants of the RWMutex machine of KeyLTS.v, for every label sequence:
   - whoever a lock records as writer / reader is a live request that has that key in that mode (HoldersOK);
   - whoever is parked on a lock is in that lock's queue (QueuedOK; KeyAgree.v has the other direction);
   - an announced writer excludes a holding writer, tokens never exceed the parked readers, and a parked reader
     without a token is behind a holding or announced writer (LocalOK).
   Together with Inv and Agree these characterise the quiescent states (KeyProgress.v). *)
From Coq Require Import List Lia Bool Arith.
Require Import KeyLTS KeyAgree.
Import ListNotations.

Definition live_holder (s : st) (t o : nat) (w : bool) : Prop := exists r, reqs s t = Some r /\ rwrite r = w /\ has_key r o.
Definition HoldersOK (s : st) : Prop := forall o,
  (forall t, writer (locks s o) = Some t -> live_holder s t o true) /\
  (forall t, In t (readers (locks s o)) -> live_holder s t o false).
Definition QueuedOK (s : st) : Prop := forall o x,
  (parked s x o true -> In x (wq (locks s o))) /\ (parked s x o false -> In x (rblocked (locks s o))).
Definition local_ok (m : rwm) : Prop :=
  (pending m <> None -> writer m = None) /\ tokens m <= length (rblocked m) /\
  (tokens m < length (rblocked m) -> writer m <> None \/ pending m <> None).
Definition LocalOK (s : st) : Prop := forall o, local_ok (locks s o).

(* ---------------- list facts ---------------- *)
Lemma in_remove_nth_other {A} (x y : A) : forall i l, nth_error l i = Some x -> In y l -> y <> x -> In y (remove_nth i l).
Proof.
  induction i as [|i IH]; intros [|z l] Hn Hin Hne; cbn [nth_error remove_nth] in *; try discriminate.
  - inversion Hn; subst. destruct Hin as [->|Hin]; [congruence|exact Hin].
  - destruct Hin as [->|Hin]; [left; reflexivity|right; apply IH; assumption].
Qed.
Lemma length_remove_nth {A} : forall i (l : list A) x, nth_error l i = Some x -> S (length (remove_nth i l)) = length l.
Proof.
  induction i as [|i IH]; intros [|z l] x Hn; cbn [nth_error remove_nth length] in *; try discriminate; [reflexivity|].
  rewrite (IH l x Hn). reflexivity.
Qed.

(* ---------------- has_key along a request's own steps ---------------- *)
Lemma has_key_adv r n o : rphase r = Acq n -> has_key r o -> has_key (with_phase r (Acq (S n))) o.
Proof.
  unfold has_key. intros Ep. rewrite Ep. cbn [with_phase rphase rkeys]. intros (i & Hi & He). exists i. split; [lia|exact He].
Qed.
Lemma has_key_new r n o : rphase r = Acq n -> nth_error (rkeys r) n = Some o -> has_key (with_phase r (Acq (S n))) o.
Proof. unfold has_key. intros Ep He. cbn [with_phase rphase rkeys]. exists n. split; [lia|exact He]. Qed.

(* ---------------- LocalOK ---------------- *)
Lemma local_idle : local_ok idle.
Proof. unfold local_ok, idle; cbn. split; [congruence|split; lia]. Qed.

Lemma local_set s s' k0 m' : LocalOK s -> (forall o, locks s' o = upd (locks s) k0 m' o) -> local_ok m' -> LocalOK s'.
Proof.
  intros HL E Hm o. rewrite E. destruct (Nat.eq_dec o k0) as [->|Hne]; [rewrite upd_same; exact Hm|rewrite upd_other by exact Hne; apply HL].
Qed.
Lemma local_same s s' : LocalOK s -> (forall o, locks s' o = locks s o) -> LocalOK s'.
Proof. intros HL E o. rewrite E. apply HL. Qed.

Theorem local_step s l s' : Inv s -> LocalOK s -> step s l = Some s' -> LocalOK s'.
Proof.
  intros [HLk HRq] HL H. destruct l as [t ks w|t|k i|k|k i|t|t]; cbn [step] in H.
  - destruct (reqs s t); [discriminate|]. destruct (nodupb ks); [|discriminate]. inversion H; subst. apply (local_same s); [exact HL|reflexivity].
  - destruct (running s t); [|discriminate]. destruct (reqs s t) as [r|]; [|discriminate]. destruct (rphase r) as [n|]; [|discriminate].
    destruct (nth_error (rkeys r) n) as [k|]; [|inversion H; subst; apply (local_same s); [exact HL|reflexivity]].
    pose proof (HL k) as (A & B & C).
    destruct (rwrite r); destruct (free (locks s k)) eqn:Ef; inversion H; subst; clear H;
      (eapply (local_set s _ k); [exact HL|reflexivity|]); unfold local_ok; cbn [writer pending tokens rblocked].
    + unfold free in Ef. destruct (writer (locks s k)); [discriminate|]. split; [reflexivity|split; [exact B|intros _; right; discriminate]].
    + split; [exact A|split; [exact B|exact C]].
    + split; [exact A|split; [exact B|exact C]].
    + rewrite app_length. cbn [length]. split; [exact A|split; [lia|]]. intros _.
      unfold free in Ef. destruct (writer (locks s k)); [left; discriminate|]. destruct (pending (locks s k)); [right; discriminate|discriminate].
  - destruct (writer (locks s k)) eqn:Ew; [discriminate|]. destruct (pending (locks s k)); [discriminate|].
    destruct (nth_error (wwait (locks s k)) i) as [w|]; [|discriminate]. inversion H; subst; clear H. pose proof (HL k) as (A & B & C).
    eapply (local_set s _ k); [exact HL|reflexivity|]. unfold local_ok; cbn [writer pending tokens rblocked].
    split; [reflexivity|split; [exact B|intros _; right; discriminate]].
  - destruct (pending (locks s k)) as [w|]; [|discriminate]. destruct (writer (locks s k)); [discriminate|].
    destruct (readers (locks s k)); [|discriminate]. destruct (tokens (locks s k)) eqn:Et; [|discriminate].
    destruct (waits_on s w k true) as [[r n]|]; [|discriminate]. inversion H; subst; clear H. pose proof (HL k) as (A & B & C).
    eapply (local_set s _ k); [exact HL|reflexivity|]. unfold local_ok; cbn [writer pending tokens rblocked].
    split; [congruence|split; [lia|intros _; left; discriminate]].
  - destruct (tokens (locks s k)) as [|tk] eqn:Et; [discriminate|]. destruct (nth_error (rblocked (locks s k)) i) as [x|] eqn:En; [|discriminate].
    destruct (waits_on s x k false) as [[r n]|]; [|discriminate]. inversion H; subst; clear H. pose proof (HL k) as (A & B & C).
    pose proof (length_remove_nth i _ x En) as Hlen.
    eapply (local_set s _ k); [exact HL|reflexivity|]. unfold local_ok; cbn [writer pending tokens rblocked].
    split; [exact A|split; [lia|intros Hlt; apply C; lia]].
  - destruct (reqs s t) as [r|]; [|discriminate]. destruct (rphase r) as [n|]; [|discriminate].
    destruct (Nat.eqb n (length (rkeys r)) && negb (running s t)); [|discriminate]. inversion H; subst. apply (local_same s); [exact HL|reflexivity].
  - destruct (reqs s t) as [r|] eqn:Et; [|discriminate]. destruct (rphase r) as [n|[|k rem]] eqn:Ep; try discriminate. inversion H; subst; clear H.
    pose proof (HL k) as (A & B & C). destruct (HRq t r Et) as [_ Hp]. rewrite Ep in Hp. destruct Hp as [_ Hh].
    pose proof (Hh k (or_introl eq_refl)) as Hmine. unfold holds in Hmine.
    eapply (local_set s _ k); [exact HL|reflexivity|]. unfold local_ok. destruct (rwrite r); cbn [writer pending tokens rblocked].
    + (* a writer's unlock: the tokens were zero while it held *)
      destruct (HLk k t Hmine) as [_ E0]. rewrite E0. split; [reflexivity|split; lia].
    + split; [exact A|split; [exact B|exact C]].
Qed.

(* ---------------- HoldersOK ---------------- *)
Lemma live_holder_frame s s' t o w : reqs s' t = reqs s t -> live_holder s t o w -> live_holder s' t o w.
Proof. intros E (r & A & B & C). exists r. rewrite E. auto. Qed.

(* no lock changes its holder fields; the actor a keeps what it holds *)
Lemma holders_actor s s' a : HoldersOK s ->
  (forall x, x <> a -> reqs s' x = reqs s x) ->
  (forall o, writer (locks s' o) = writer (locks s o) /\ readers (locks s' o) = readers (locks s o)) ->
  (forall o w, live_holder s a o w -> live_holder s' a o w) -> HoldersOK s'.
Proof.
  intros HH Hoth Hl Ha o. destruct (Hl o) as [E1 E2]. rewrite E1, E2. destruct (HH o) as [A B]. split; intros t Ht.
  - destruct (Nat.eq_dec t a) as [->|Hne]; [apply Ha, A, Ht|apply (live_holder_frame s s' t o true (Hoth t Hne)), A, Ht].
  - destruct (Nat.eq_dec t a) as [->|Hne]; [apply Ha, B, Ht|apply (live_holder_frame s s' t o false (Hoth t Hne)), B, Ht].
Qed.

(* one lock k0 changes, the actor a changes its request *)
Lemma holders_update s s' a k0 : HoldersOK s ->
  (forall x, x <> a -> reqs s' x = reqs s x) ->
  (forall o, o <> k0 -> locks s' o = locks s o) ->
  (forall o w, live_holder s a o w -> o <> k0 -> live_holder s' a o w) ->
  (forall t, writer (locks s' k0) = Some t -> (t <> a /\ writer (locks s k0) = Some t) \/ live_holder s' t k0 true) ->
  (forall t, In t (readers (locks s' k0)) -> (t <> a /\ In t (readers (locks s k0))) \/ live_holder s' t k0 false) ->
  HoldersOK s'.
Proof.
  intros HH Hoth Hl Ha Hw Hr o. destruct (Nat.eq_dec o k0) as [->|Hne].
  - destruct (HH k0) as [A B]. split; intros t Ht.
    + destruct (Hw t Ht) as [[N O]|L]; [apply (live_holder_frame s s' t k0 true (Hoth t N)), A, O|exact L].
    + destruct (Hr t Ht) as [[N O]|L]; [apply (live_holder_frame s s' t k0 false (Hoth t N)), B, O|exact L].
  - rewrite (Hl o Hne). destruct (HH o) as [A B]. split; intros t Ht.
    + destruct (Nat.eq_dec t a) as [->|N]; [apply Ha; [apply A, Ht|exact Hne]|apply (live_holder_frame s s' t o true (Hoth t N)), A, Ht].
    + destruct (Nat.eq_dec t a) as [->|N]; [apply Ha; [apply B, Ht|exact Hne]|apply (live_holder_frame s s' t o false (Hoth t N)), B, Ht].
Qed.

Ltac oth := let y := fresh "y" in let Hy := fresh "Hy" in intros y Hy; cbn [reqs running set_req set_run set_lock]; rewrite ?upd_other by exact Hy; auto.
Ltac same_holders k := let o := fresh "o" in intros o; cbn [locks set_lock set_run set_req];
  destruct (Nat.eq_dec o k) as [->|?]; [rewrite upd_same; cbn [writer readers]; auto|rewrite upd_other by assumption; auto].

Theorem holders_step s l s' : Inv s -> HoldersOK s -> step s l = Some s' -> HoldersOK s'.
Proof.
  intros [HLk HRq] HH H. destruct l as [t ks w|t|k i|k|k i|t|t]; cbn [step] in H.
  - (* Start *)
    destruct (reqs s t) eqn:Et; [discriminate|]. destruct (nodupb ks); [|discriminate]. inversion H; subst s'; clear H.
    apply (holders_actor s _ t HH); [oth|intros o; cbn [locks set_req set_run]; auto|].
    intros o w0 (r & A & _). congruence.
  - (* Arrive *)
    destruct (running s t); [|discriminate]. destruct (reqs s t) as [r|] eqn:Et; [|discriminate].
    destruct (rphase r) as [n|] eqn:Ep; [|discriminate].
    destruct (nth_error (rkeys r) n) as [k|] eqn:En.
    + destruct (rwrite r) eqn:Ew; destruct (free (locks s k)) eqn:Ef; inversion H; subst s'; clear H.
      * apply (holders_actor s _ t HH); [oth|same_holders k|intros o w0 Hh; apply (live_holder_frame s); [reflexivity|exact Hh]].
      * apply (holders_actor s _ t HH); [oth|same_holders k|intros o w0 Hh; apply (live_holder_frame s); [reflexivity|exact Hh]].
      * (* a reader gets in *)
        assert (Hadv : forall o w0, live_holder s t o w0 -> live_holder (set_lock (set_req s t (Some (with_phase r (Acq (S n))))) k
                   {| writer := writer (locks s k); pending := pending (locks s k); readers := t :: readers (locks s k);
                      wwait := wwait (locks s k); rblocked := rblocked (locks s k); tokens := tokens (locks s k) |}) t o w0).
        { intros o w0 (r0 & A & B & C). rewrite Et in A. inversion A; subst r0. exists (with_phase r (Acq (S n))).
          cbn [reqs set_lock set_req]. rewrite upd_same. split; [reflexivity|split; [exact B|apply has_key_adv; assumption]]. }
        apply (holders_update s _ t k HH); [oth|intros o Ho; cbn [locks set_lock set_req]; apply upd_other, Ho|intros o w0 Hh _; apply Hadv, Hh| |].
        -- cbn [locks set_lock set_req]. rewrite upd_same. cbn [writer]. intros t' Ht'.
           destruct (Nat.eq_dec t' t) as [->|N]; [right; apply Hadv, (proj1 (HH k)), Ht'|left; auto].
        -- cbn [locks set_lock set_req]. rewrite upd_same. cbn [readers]. intros t' [<-|Ht'].
           ++ right. exists (with_phase r (Acq (S n))). cbn [reqs set_lock set_req]. rewrite upd_same.
              split; [reflexivity|split; [exact Ew|apply has_key_new; assumption]].
           ++ destruct (Nat.eq_dec t' t) as [->|N]; [right; apply Hadv, (proj2 (HH k)), Ht'|left; auto].
      * apply (holders_actor s _ t HH); [oth|same_holders k|intros o w0 Hh; apply (live_holder_frame s); [reflexivity|exact Hh]].
    + inversion H; subst s'; clear H.
      apply (holders_actor s _ t HH); [oth|intros o; cbn [locks set_run]; auto|intros o w0 Hh; apply (live_holder_frame s); [reflexivity|exact Hh]].
  - (* Announce *)
    destruct (writer (locks s k)) eqn:Ewr; [discriminate|]. destruct (pending (locks s k)); [discriminate|].
    destruct (nth_error (wwait (locks s k)) i); [|discriminate]. inversion H; subst s'; clear H.
    apply (holders_actor s _ 0 HH); [oth| |intros o w0 Hh; apply (live_holder_frame s); [reflexivity|exact Hh]].
    intros o. cbn [locks set_lock]. destruct (Nat.eq_dec o k) as [->|N]; [rewrite upd_same; cbn [writer readers]; auto|rewrite upd_other by exact N; auto].
  - (* Grant *)
    destruct (pending (locks s k)) as [w|]; [|discriminate]. destruct (writer (locks s k)); [discriminate|].
    destruct (readers (locks s k)); [|discriminate]. destruct (tokens (locks s k)); [|discriminate].
    destruct (waits_on s w k true) as [[r n]|] eqn:Ewo; [|discriminate]. inversion H; subst s'; clear H.
    destruct (waits_on_spec _ _ _ _ _ _ Ewo) as (Et & Ep & En & Ew & _).
    apply (holders_update s _ w k HH); [oth|intros o Ho; cbn [locks set_lock set_run set_req]; apply upd_other, Ho| | |].
    + intros o w0 (r0 & A & B & C) _. rewrite Et in A. inversion A; subst r0. exists (with_phase r (Acq (S n))).
      cbn [reqs set_lock set_run set_req]. rewrite upd_same. split; [reflexivity|split; [exact B|apply has_key_adv; assumption]].
    + cbn [locks set_lock set_run set_req]. rewrite upd_same. cbn [writer]. intros t' Ht'. inversion Ht'; subst t'. right.
      exists (with_phase r (Acq (S n))). cbn [reqs set_lock set_run set_req]. rewrite upd_same.
      split; [reflexivity|split; [exact Ew|apply has_key_new; assumption]].
    + cbn [locks set_lock set_run set_req]. rewrite upd_same. cbn [readers]. intros t' [].
  - (* Token *)
    destruct (tokens (locks s k)) as [|tk]; [discriminate|]. destruct (nth_error (rblocked (locks s k)) i) as [x|]; [|discriminate].
    destruct (waits_on s x k false) as [[r n]|] eqn:Ewo; [|discriminate]. inversion H; subst s'; clear H.
    destruct (waits_on_spec _ _ _ _ _ _ Ewo) as (Et & Ep & En & Ew & _).
    assert (Hadv : forall o w0, live_holder s x o w0 -> exists r', upd (reqs s) x (Some (with_phase r (Acq (S n)))) x = Some r' /\ rwrite r' = w0 /\ has_key r' o).
    { intros o w0 (r0 & A & B & C). rewrite Et in A. inversion A; subst r0. exists (with_phase r (Acq (S n))).
      rewrite upd_same. split; [reflexivity|split; [exact B|apply has_key_adv; assumption]]. }
    apply (holders_update s _ x k HH); [oth|intros o Ho; cbn [locks set_lock set_run set_req]; apply upd_other, Ho| | |].
    + intros o w0 Hh _. apply Hadv, Hh.
    + cbn [locks set_lock set_run set_req]. rewrite upd_same. cbn [writer]. intros t' Ht'.
      destruct (Nat.eq_dec t' x) as [->|N]; [right; apply Hadv, (proj1 (HH k)), Ht'|left; auto].
    + cbn [locks set_lock set_run set_req]. rewrite upd_same. cbn [readers]. intros t' [<-|Ht'].
      * right. exists (with_phase r (Acq (S n))). cbn [reqs set_lock set_run set_req]. rewrite upd_same.
        split; [reflexivity|split; [exact Ew|apply has_key_new; assumption]].
      * destruct (Nat.eq_dec t' x) as [->|N]; [right; apply Hadv, (proj2 (HH k)), Ht'|left; auto].
  - (* Release *)
    destruct (reqs s t) as [r|] eqn:Et; [|discriminate]. destruct (rphase r) as [n|] eqn:Ep; [|discriminate].
    destruct (Nat.eqb n (length (rkeys r)) && negb (running s t)); [|discriminate]. inversion H; subst s'; clear H.
    apply (holders_actor s _ t HH); [oth|intros o; cbn [locks set_req]; auto|].
    intros o w0 (r0 & A & B & C). rewrite Et in A. inversion A; subst r0. unfold has_key in C. rewrite Ep in C. destruct C as (i & Hi & He).
    pose proof (nth_error_In _ _ He) as Hin. unfold live_holder. cbn [reqs set_req]. rewrite upd_same.
    destruct (rkeys r) as [|k0 rest] eqn:Ek; [destruct Hin|]. exists (with_phase r (Rel (rkeys r))). rewrite Ek.
    split; [reflexivity|split; [exact B|]]. unfold has_key. cbn [with_phase rphase]. exact Hin.
  - (* UnlockKey *)
    destruct (reqs s t) as [r|] eqn:Et; [|discriminate]. destruct (rphase r) as [n|[|k rem]] eqn:Ep; try discriminate.
    inversion H; subst s'; clear H.
    apply (holders_update s _ t k HH); [oth|intros o Ho; cbn [locks set_lock set_req]; apply upd_other, Ho| | |].
    + intros o w0 (r0 & A & B & C) Hne. rewrite Et in A. inversion A; subst r0. unfold has_key in C. rewrite Ep in C.
      destruct C as [C|C]; [congruence|]. unfold live_holder. cbn [reqs set_lock set_req]. rewrite upd_same.
      destruct rem as [|k1 rest]; [destruct C|]. exists (with_phase r (Rel (k1 :: rest))).
      split; [reflexivity|split; [exact B|]]. unfold has_key. cbn [with_phase rphase]. exact C.
    + cbn [locks set_lock set_req]. rewrite upd_same. intros t' Ht'. destruct (rwrite r) eqn:Ew; cbn [writer] in Ht'; [discriminate|].
      left. split; [|exact Ht']. intros ->. destruct (proj1 (HH k) t Ht') as (r0 & A & B & _). rewrite Et in A. inversion A; subst r0. congruence.
    + cbn [locks set_lock set_req]. rewrite upd_same. intros t' Ht'. destruct (rwrite r) eqn:Ew; cbn [readers] in Ht'.
      * left. split; [|exact Ht']. intros ->. destruct (proj2 (HH k) t Ht') as (r0 & A & B & _). rewrite Et in A. inversion A; subst r0. congruence.
      * apply in_remove_id in Ht'. left. split; [apply Ht'|apply Ht'].
Qed.

(* ---------------- QueuedOK ---------------- *)
Lemma parked_frame_rev s s' x k w : reqs s' x = reqs s x -> running s' x = running s x -> parked s' x k w -> parked s x k w.
Proof. intros E1 E2 (r & n & H). exists r, n. rewrite <- (waits_on_frame s s' x k w E1 E2). exact H. Qed.

Lemma queued_update s s' a k0 : QueuedOK s ->
  (forall x, x <> a -> reqs s' x = reqs s x /\ running s' x = running s x) ->
  (forall o, o <> k0 -> locks s' o = locks s o) ->
  (forall o w, parked s' a o w -> o = k0 /\ (if w then In a (wq (locks s' k0)) else In a (rblocked (locks s' k0)))) ->
  (forall x, x <> a -> In x (wq (locks s k0)) -> In x (wq (locks s' k0))) ->
  (forall x, x <> a -> In x (rblocked (locks s k0)) -> In x (rblocked (locks s' k0))) ->
  QueuedOK s'.
Proof.
  intros HQ Hoth Hl Ha Hw Hr o x. destruct (Nat.eq_dec x a) as [->|N].
  - split; intros Hp; destruct (Ha o _ Hp) as [-> Hin]; exact Hin.
  - destruct (Hoth x N) as [E1 E2]. destruct (HQ o x) as [A B]. split; intros Hp; apply (parked_frame_rev s s' x o _ E1 E2) in Hp.
    + destruct (Nat.eq_dec o k0) as [->|No]; [apply Hw; [exact N|apply A, Hp]|rewrite (Hl o No); apply A, Hp].
    + destruct (Nat.eq_dec o k0) as [->|No]; [apply Hr; [exact N|apply B, Hp]|rewrite (Hl o No); apply B, Hp].
Qed.

(* the actor is parked nowhere afterwards and no queue loses anybody else *)
Lemma queued_actor_free s s' a k0 : QueuedOK s ->
  (forall x, x <> a -> reqs s' x = reqs s x /\ running s' x = running s x) ->
  (forall o, o <> k0 -> locks s' o = locks s o) ->
  (forall o w, ~ parked s' a o w) ->
  (forall x, x <> a -> In x (wq (locks s k0)) -> In x (wq (locks s' k0))) ->
  (forall x, x <> a -> In x (rblocked (locks s k0)) -> In x (rblocked (locks s' k0))) ->
  QueuedOK s'.
Proof. intros HQ Hoth Hl Ha. apply (queued_update s s' a k0 HQ Hoth Hl). intros o w Hp. destruct (Ha o w Hp). Qed.

Lemma not_parked_running s x : running s x = true -> forall o w, ~ parked s x o w.
Proof. intros H o w Hp. rewrite (parked_not_running s x o w Hp) in H. discriminate. Qed.
Lemma not_parked_idle s x : idle_thread s x -> forall o w, ~ parked s x o w.
Proof. intros H o w (r & n & Hp). rewrite (H o w) in Hp. discriminate. Qed.

Ltac same_queues k := cbn [locks set_lock set_run set_req]; rewrite upd_same; unfold wq; cbn [pending wwait rblocked]; auto.

Theorem queued_step s l s' : Agree s -> QueuedOK s -> step s l = Some s' -> QueuedOK s'.
Proof.
  intros HA HQ H. destruct l as [t ks w|t|k i|k|k i|t|t]; cbn [step] in H.
  - (* Start *)
    destruct (reqs s t) eqn:Et; [discriminate|]. destruct (nodupb ks); [|discriminate]. inversion H; subst s'; clear H.
    apply (queued_actor_free s _ t 0 HQ); [oth|intros o _; reflexivity| |intros x _ Hx; exact Hx|intros x _ Hx; exact Hx].
    apply not_parked_running. cbn [running set_req set_run]. apply upd_same.
  - (* Arrive *)
    destruct (running s t) eqn:Erun; [|discriminate]. destruct (reqs s t) as [r|] eqn:Et; [|discriminate].
    destruct (rphase r) as [n|] eqn:Ep; [|discriminate].
    destruct (nth_error (rkeys r) n) as [k|] eqn:En.
    + assert (Hparks : forall s1 w0, reqs s1 t = Some r -> running s1 t = false -> rwrite r = w0 -> parked s1 t k w0).
      { intros s1 w0 E1 E2 E3. exists r, n. unfold waits_on. rewrite E1, Ep, En, E2, E3, Nat.eqb_refl, eqb_reflx. reflexivity. }
      destruct (rwrite r) eqn:Ew; destruct (free (locks s k)) eqn:Ef; inversion H; subst s'; clear H.
      * (* writer announces itself *)
        unfold free in Ef. destruct (writer (locks s k)); [discriminate|]. destruct (pending (locks s k)) eqn:Epd; [discriminate|].
        apply (queued_update s _ t k HQ); [oth|intros o Ho; cbn [locks set_lock set_run]; apply upd_other, Ho| | |].
        -- intros o w0 Hp.
           match type of Hp with parked ?S _ _ _ => assert (Hk : parked S t k true) by (apply Hparks; [exact Et|cbn [running set_lock set_run]; apply upd_same|reflexivity]) end.
           destruct (parked_unique _ t k true o w0 Hk Hp) as [<- <-].
           split; [reflexivity|]. cbn [locks set_lock set_run]. rewrite upd_same. unfold wq. cbn [pending]. left. reflexivity.
        -- intros x _. cbn [locks set_lock set_run]. rewrite upd_same. unfold wq. cbn [pending wwait]. rewrite Epd. intros Hx. right. exact Hx.
        -- intros x _. cbn [locks set_lock set_run]. rewrite upd_same. cbn [rblocked]. auto.
      * (* writer queues *)
        apply (queued_update s _ t k HQ); [oth|intros o Ho; cbn [locks set_lock set_run]; apply upd_other, Ho| | |].
        -- intros o w0 Hp.
           match type of Hp with parked ?S _ _ _ => assert (Hk : parked S t k true) by (apply Hparks; [exact Et|cbn [running set_lock set_run]; apply upd_same|reflexivity]) end.
           destruct (parked_unique _ t k true o w0 Hk Hp) as [<- <-].
           split; [reflexivity|]. cbn [locks set_lock set_run]. rewrite upd_same. unfold wq. cbn [pending wwait].
           destruct (pending (locks s k)); [right|]; apply in_or_app; right; left; reflexivity.
        -- intros x _. cbn [locks set_lock set_run]. rewrite upd_same. unfold wq. cbn [pending wwait].
           destruct (pending (locks s k)); [intros [Hx|Hx]; [left; exact Hx|right; apply in_or_app; left; exact Hx]|intros Hx; apply in_or_app; left; exact Hx].
        -- intros x _. cbn [locks set_lock set_run]. rewrite upd_same. cbn [rblocked]. auto.
      * (* reader gets in and keeps running *)
        apply (queued_actor_free s _ t k HQ); [oth|intros o Ho; cbn [locks set_lock set_req]; apply upd_other, Ho| | |].
        -- apply not_parked_running. cbn [running set_lock set_req]. exact Erun.
        -- intros x _. same_queues k.
        -- intros x _. same_queues k.
      * (* reader parks *)
        apply (queued_update s _ t k HQ); [oth|intros o Ho; cbn [locks set_lock set_run]; apply upd_other, Ho| | |].
        -- intros o w0 Hp.
           match type of Hp with parked ?S _ _ _ => assert (Hk : parked S t k false) by (apply Hparks; [exact Et|cbn [running set_lock set_run]; apply upd_same|reflexivity]) end.
           destruct (parked_unique _ t k false o w0 Hk Hp) as [<- <-].
           split; [reflexivity|]. cbn [locks set_lock set_run]. rewrite upd_same. cbn [rblocked]. apply in_or_app. right. left. reflexivity.
        -- intros x _. same_queues k.
        -- intros x _. cbn [locks set_lock set_run]. rewrite upd_same. cbn [rblocked]. intros Hx. apply in_or_app. left. exact Hx.
    + inversion H; subst s'; clear H.
      apply (queued_actor_free s _ t 0 HQ); [oth|intros o _; reflexivity| |intros x _ Hx; exact Hx|intros x _ Hx; exact Hx].
      apply not_parked_idle. apply (idle_done _ t r n); [exact Et|exact Ep|exact En].
  - (* Announce *)
    destruct (writer (locks s k)) eqn:Ewr; [discriminate|]. destruct (pending (locks s k)) eqn:Epd; [discriminate|].
    destruct (nth_error (wwait (locks s k)) i) as [w|] eqn:Enth; [|discriminate]. inversion H; subst s'; clear H.
    destruct (HA k) as (A & _). unfold wq in A. rewrite Epd in A.
    assert (Hw : parked s w k true) by (apply A, (nth_error_In _ _ Enth)).
    apply (queued_update s _ w k HQ); [intros x _; cbn [reqs running set_lock]; auto|intros o Ho; cbn [locks set_lock]; apply upd_other, Ho| | |].
    + intros o w0 Hp. apply (parked_frame_rev s _ w o w0 eq_refl eq_refl) in Hp.
      destruct (parked_unique s w k true o w0 Hw Hp) as [<- <-]. split; [reflexivity|].
      cbn [locks set_lock]. rewrite upd_same. unfold wq. cbn [pending]. left. reflexivity.
    + intros x Hx. cbn [locks set_lock]. rewrite upd_same. unfold wq. cbn [pending wwait]. rewrite Epd. intros Hin. right.
      apply (in_remove_nth_other w x i _ Enth Hin Hx).
    + intros x _. cbn [locks set_lock]. rewrite upd_same. cbn [rblocked]. auto.
  - (* Grant *)
    destruct (pending (locks s k)) as [w|] eqn:Epd; [|discriminate]. destruct (writer (locks s k)); [discriminate|].
    destruct (readers (locks s k)); [|discriminate]. destruct (tokens (locks s k)); [|discriminate].
    destruct (waits_on s w k true) as [[r n]|] eqn:Ewo; [|discriminate]. inversion H; subst s'; clear H.
    apply (queued_actor_free s _ w k HQ); [oth|intros o Ho; cbn [locks set_lock set_run set_req]; apply upd_other, Ho| | |].
    + apply not_parked_running. cbn [running set_lock set_run set_req]. apply upd_same.
    + intros x Hx. cbn [locks set_lock set_run set_req]. rewrite upd_same. unfold wq. cbn [pending wwait]. rewrite Epd.
      intros [E|Hin]; [congruence|exact Hin].
    + intros x _. cbn [locks set_lock set_run set_req]. rewrite upd_same. cbn [rblocked]. auto.
  - (* Token *)
    destruct (tokens (locks s k)) as [|tk]; [discriminate|]. destruct (nth_error (rblocked (locks s k)) i) as [x|] eqn:Enth; [|discriminate].
    destruct (waits_on s x k false) as [[r n]|] eqn:Ewo; [|discriminate]. inversion H; subst s'; clear H.
    apply (queued_actor_free s _ x k HQ); [oth|intros o Ho; cbn [locks set_lock set_run set_req]; apply upd_other, Ho| | |].
    + apply not_parked_running. cbn [running set_lock set_run set_req]. apply upd_same.
    + intros y _. same_queues k.
    + intros y Hy. cbn [locks set_lock set_run set_req]. rewrite upd_same. cbn [rblocked]. intros Hin. apply (in_remove_nth_other x y i _ Enth Hin Hy).
  - (* Release *)
    destruct (reqs s t) as [r|] eqn:Et; [|discriminate]. destruct (rphase r) as [n|] eqn:Ep; [|discriminate].
    destruct (Nat.eqb n (length (rkeys r)) && negb (running s t)) eqn:Eg; [|discriminate]. inversion H; subst s'; clear H.
    apply (queued_actor_free s _ t 0 HQ); [oth|intros o _; reflexivity| |intros x _ Hx; exact Hx|intros x _ Hx; exact Hx].
    apply not_parked_idle. destruct (rkeys r) as [|k0 rest] eqn:Ek.
    + apply idle_none. cbn [reqs set_req]. apply upd_same.
    + apply (idle_rel _ t (with_phase r (Rel (k0 :: rest))) (k0 :: rest)); [cbn [reqs set_req]; apply upd_same|reflexivity].
  - (* UnlockKey *)
    destruct (reqs s t) as [r|] eqn:Et; [|discriminate]. destruct (rphase r) as [n|[|k rem]] eqn:Ep; try discriminate.
    inversion H; subst s'; clear H.
    apply (queued_actor_free s _ t k HQ); [oth|intros o Ho; cbn [locks set_lock set_req]; apply upd_other, Ho| | |].
    + apply not_parked_idle. destruct rem as [|k1 rest].
      * apply idle_none. cbn [reqs set_lock set_req]. apply upd_same.
      * apply (idle_rel _ t (with_phase r (Rel (k1 :: rest))) (k1 :: rest)); [cbn [reqs set_lock set_req]; apply upd_same|reflexivity].
    + intros x _. cbn [locks set_lock set_req]. rewrite upd_same. unfold wq. destruct (rwrite r); cbn [pending wwait]; auto.
    + intros x _. cbn [locks set_lock set_req]. rewrite upd_same. destruct (rwrite r); cbn [rblocked]; auto.
Qed.

(* ---------------- all of it, for every label sequence ---------------- *)
Definition Conv (s : st) : Prop := Inv s /\ Agree s /\ LocalOK s /\ HoldersOK s /\ QueuedOK s.
Lemma conv_init : Conv init.
Proof.
  split; [apply init_inv|split; [apply init_agree|split; [intros o; apply local_idle|split]]].
  - intros o. split; [intros t H; discriminate|intros t []].
  - intros o x. split; intros (r & n & H); cbn in H; discriminate.
Qed.
Theorem conv_step s l s' : Conv s -> step s l = Some s' -> Conv s'.
Proof.
  intros (A & B & C & D & E) H.
  split; [apply (inv_step s l s' A H)|split; [apply (agree_step s l s' B H)|split; [apply (local_step s l s' A C H)|split;
    [apply (holders_step s l s' A D H)|apply (queued_step s l s' B E H)]]]].
Qed.
Print Assumptions conv_step.
