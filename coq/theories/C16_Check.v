(* C16: what the driver evaluates on every observed scenario.
   A case is a scenario: a list of phases.  In one phase the harness issued the external labels [issued] back to back
   on real stcp sessions, waited for quiescence and observed [observed]; [resolved] is its claim of how the
   implementation's own steps interleaved with them.
   case_accept replays [resolved] in the composed machine of C16_Model.v and demands that (1) it is a run, (2) its
   external labels are exactly the issued ones, (3) it ends in a state where no goroutine of any session can move,
   (4) that state shows exactly the observations.
   case_holds checks the clauses of the property on the issued labels and the observations alone. *)
From Coq Require Import ZArith List Bool Lia Arith.
Require Export C16_Model.
Require Import C16_Inv Cases_Common.
Import ListNotations.
Open Scope Z_scope.

Record obs := mkO {
  o_started : bool;       (* the connection was handed to the manager (false: closed by the accept loop) *)
  o_onexit : nat;         (* calls of the exit callback *)
  o_closed : bool;        (* conn.Close was called / the client saw the end of the stream *)
  o_sendl : nat;          (* goroutines inside loopSend of this session *)
  o_recvl : nat;          (* goroutines inside loopReceive of this session *)
  o_rcvd : nat;           (* bytes the read handler consumed *)
  o_inbox : list Z;       (* bytes the peer has read *)
  o_exit_h : nat          (* which handler's OnExit was called (0: the manager's; h: the h-th given to UpdateHandler) *)
}.
(* par = true: the issued labels were calls made concurrently from different goroutines (a set, not a sequence);
   the order in which they took effect is the one of [resolved] *)
Record phase := mkPh { par : bool; issued : list label; resolved : list label;
  p_loop : bool;        (* the accept goroutine still runs (true when the scenario has no server) *)
  p_maxfails : nat;     (* at most this many Accept calls can have failed in this phase: every failure is followed by a
                           sleep of at least the configured delay, and the phase lasted only so long (0 when no failure
                           was provoked) *)
  observed : Z * list obs }.
Record case := mkCase { c_maxc : Z; c_amax : nat; c_phases : list phase }.

(* ---------------- decidable equalities ---------------- *)
Definition transport_eqb a b := match a, b with Pipe, Pipe | Tcp, Tcp => true | _, _ => false end.
Definition rkind_eqb a b := match a, b with RErr, RErr | RTimeout, RTimeout | RHandlerErr, RHandlerErr | RPanic, RPanic
  | RPanicNil, RPanicNil | RPanicErr, RPanicErr | RPanicCustom, RPanicCustom | RGoexit, RGoexit => true | _, _ => false end.
Definition wkind_eqb a b := match a, b with WErr, WErr | WTimeout, WTimeout => true | _, _ => false end.
Definition act_eqb a b := match a, b with
  | Send x o, Send y p => zlist_eqb x y && Bool.eqb o p
  | SetHandler j, SetHandler k => Nat.eqb j k
  | LocalClose, LocalClose | StartAgain, StartAgain | PeerClose, PeerClose | PeerRead, PeerRead | PeerByte, PeerByte | PeerPause, PeerPause | Pick, Pick
  | SendStep, SendStep | SendLost, SendLost | RecvEnd, RecvEnd => true
  | RecvFault j, RecvFault k => rkind_eqb j k
  | WriteFault j, WriteFault k => wkind_eqb j k
  | _, _ => false end.
Definition label_eqb a b := match a, b with
  | Start i t r h, Start j u s k => Nat.eqb i j && transport_eqb t u && Bool.eqb r s && Nat.eqb h k
  | Arrive i, Arrive j => Nat.eqb i j
  | Accept i, Accept j => Nat.eqb i j
  | AcceptFail, AcceptFail | FdExhaust, FdExhaust | FdRestore, FdRestore | SrvClose, SrvClose => true
  | On i x, On j y => Nat.eqb i j && act_eqb x y
  | _, _ => false end.

Lemma act_eqb_eq a b : act_eqb a b = true -> a = b.
Proof.
  destruct a, b; cbn; try discriminate; auto.
  - intros H. apply andb_prop in H as [H1 H2]. apply zlist_eqb_eq in H1. apply eqb_prop in H2. now subst.
  - intros H. apply Nat.eqb_eq in H. now subst.
  - destruct k, k0; cbn; try discriminate; auto.
  - destruct k, k0; cbn; try discriminate; auto.
Qed.
Lemma label_eqb_eq a b : label_eqb a b = true -> a = b.
Proof.
  destruct a, b; cbn; try discriminate; auto.
  - intros H. apply andb_prop in H as [H H4]. apply andb_prop in H as [H H3]. apply andb_prop in H as [H1 H2].
    apply Nat.eqb_eq in H1, H4. apply eqb_prop in H3. destruct t, t0; cbn in H2; try discriminate; now subst.
  - intros H. apply Nat.eqb_eq in H. now subst.
  - intros H. apply Nat.eqb_eq in H. now subst.
  - intros H. apply andb_prop in H as [H1 H2]. apply Nat.eqb_eq in H1. apply act_eqb_eq in H2. now subst.
Qed.

Definition obs_eqb (a b : obs) : bool :=
  Bool.eqb (o_started a) (o_started b) && Nat.eqb (o_onexit a) (o_onexit b) && Bool.eqb (o_closed a) (o_closed b)
  && Nat.eqb (o_sendl a) (o_sendl b) && Nat.eqb (o_recvl a) (o_recvl b) && Nat.eqb (o_rcvd a) (o_rcvd b)
  && zlist_eqb (o_inbox a) (o_inbox b) && Nat.eqb (o_exit_h a) (o_exit_h b).
Lemma obs_eqb_eq a b : obs_eqb a b = true -> a = b.
Proof.
  destruct a, b. unfold obs_eqb. cbn. intros H.
  repeat (apply andb_prop in H as [H ?]).
  repeat match goal with
  | X : Bool.eqb _ _ = true |- _ => apply eqb_prop in X
  | X : Nat.eqb _ _ = true |- _ => apply Nat.eqb_eq in X
  | X : zlist_eqb _ _ = true |- _ => apply zlist_eqb_eq in X
  end. now subst.
Qed.

(* ---------------- accept: replay in the model ---------------- *)
Definition obs_of1 (s : sess) : obs :=
  mkO (started s) (onexit s) (negb (copen s)) (b2n (sendl s)) (b2n (recvl s)) (rcvd s) (inbox s) (exit_h (hx s)).
(* a connection still in the listener's queue: neither handed over nor refused *)
Definition waiting : obs := mkO false 0 false 0 0 0 [] 0.
Definition obs_all (t : st) : list obs := map obs_of1 (ss t) ++ repeat waiting (pend t).
Definition external (l : label) : bool := negb (internal l).

(* multiset equality of label lists *)
Fixpoint remove_first (x : label) (l : list label) : option (list label) :=
  match l with
  | [] => None
  | y :: r => if label_eqb x y then Some r else match remove_first x r with Some r' => Some (y :: r') | None => None end
  end.
Fixpoint perm_eqb (a b : list label) : bool :=
  match a with
  | [] => match b with [] => true | _ => false end
  | x :: a' => match remove_first x b with Some b' => perm_eqb a' b' | None => false end
  end.

(* the order in which the issued labels took effect: the issue order, or for concurrent calls the claimed one *)
Definition order (p : phase) : list label := if par p then filter external (resolved p) else issued p.
Definition order_ok (p : phase) : bool :=
  if par p then perm_eqb (filter external (resolved p)) (issued p)
  else list_eqb label_eqb (filter external (resolved p)) (issued p).

Fixpoint replay (t : st) (ps : list phase) : bool :=
  match ps with
  | [] => true
  | p :: r =>
      match run t (resolved p) with
      | Some t' =>
          order_ok p
          && stable t'
          && Z.eqb (cnt t') (fst (observed p))
          && list_eqb obs_eqb (obs_all t') (snd (observed p))
          && Bool.eqb (aloop (al t')) (p_loop p)
          && Nat.leb (count_fail (resolved p)) (p_maxfails p)
          && replay t' r
      | None => false
      end
  end.

Definition case_accept (c : case) : bool := replay (init (c_maxc c) 0 (c_amax c)) (c_phases c).

(* ---------------- holds: the property's clauses on labels issued and observations ---------------- *)
(* what has been asked of one session so far *)
Record hist := mkH {
  h_reads : bool;              (* its peer reads what is written *)
  h_acc : list (list Z);       (* payloads for which Send returned nil, in order *)
  h_clean : bool;              (* only Sends, local Close, peer reading / peer bytes so far *)
  h_lclosed : bool;            (* Close was called *)
  h_rterm : bool;              (* peer close, read error, read timeout, handler error or handler panic was issued *)
  h_wfault : bool;             (* a write error / timeout was armed *)
  h_wsend : bool;              (* ... and a non-empty payload was accepted after that *)
  h_cur : nat;                 (* the handler installed last (0: none, the manager's is used) *)
  h_amb : bool                 (* a handler was installed when something that can end the session had already been issued *)
}.
Definition fresh_hist (reads : bool) (h : nat) : hist := mkH reads [] true false false false false h false.
Definition hist_act (h : hist) (a : act) : hist :=
  match a with
  | Send bs ok => if ok then mkH (h_reads h) (h_acc h ++ [bs]) (h_clean h) (h_lclosed h) (h_rterm h) (h_wfault h)
                                 (h_wsend h || (h_wfault h && negb (is_nil bs))) (h_cur h) (h_amb h) else h
  | LocalClose => mkH (h_reads h) (h_acc h) (h_clean h) true (h_rterm h) (h_wfault h) (h_wsend h) (h_cur h) (h_amb h)
  | PeerClose | RecvFault _ => mkH (h_reads h) (h_acc h) false (h_lclosed h) true (h_wfault h) (h_wsend h) (h_cur h) (h_amb h)
  | PeerRead => mkH true (h_acc h) (h_clean h) (h_lclosed h) (h_rterm h) (h_wfault h) (h_wsend h) (h_cur h) (h_amb h)
  | PeerPause => mkH false (h_acc h) (h_clean h) (h_lclosed h) (h_rterm h) (h_wfault h) (h_wsend h) (h_cur h) (h_amb h)
  | WriteFault _ => mkH (h_reads h) (h_acc h) false (h_lclosed h) (h_rterm h) true (h_wsend h) (h_cur h) (h_amb h)
  | SetHandler k => mkH (h_reads h) (h_acc h) (h_clean h) (h_lclosed h) (h_rterm h) (h_wfault h) (h_wsend h) k
                        (h_amb h || h_rterm h || h_lclosed h || h_wfault h)
  | _ => h
  end.
Definition hist_label (H : list hist) (l : label) : list hist :=
  match l with
  | Start _ _ reads h => H ++ [fresh_hist reads h]
  | Arrive _ => H ++ [fresh_hist true 0]
  | Accept _ | AcceptFail | FdExhaust | FdRestore | SrvClose => H    (* the accept loop and its environment: nothing is asked of a session *)
  | On i a => match nth_error H i with Some h => upd i (hist_act h a) H | None => H end
  end.

(* the events after which the session must be over at quiescence *)
Definition h_must (h : hist) : bool := h_rterm h || (h_lclosed h && h_reads h) || h_wsend h.

Definition ended (o : obs) : bool := Nat.eqb (o_onexit o) 1 && o_closed o && Nat.eqb (o_sendl o) 0 && Nat.eqb (o_recvl o) 0.
Definition running (o : obs) : bool := Nat.eqb (o_onexit o) 0 && negb (o_closed o) && Nat.eqb (o_sendl o) 1 && Nat.eqb (o_recvl o) 1.

Fixpoint is_prefix (a b : list Z) : bool :=
  match a, b with
  | [], _ => true
  | x :: a', y :: b' => Z.eqb x y && is_prefix a' b'
  | _ :: _, [] => false
  end.

(* alive: the accept goroutine still runs *)
Definition sess_ok (alive : bool) (h : hist) (o : obs) : bool :=
  if o_started o then
    (ended o || running o)                          (* it ends exactly once, completely: callback once, closed, both loops gone - or not at all *)
    && (negb (h_must h) || ended o)                 (* whatever ends it, it is over at quiescence *)
    && is_prefix (o_inbox o) (concat (h_acc h))     (* the peer reads accepted bytes only, in order *)
    && (negb (h_clean h && o_closed o) || zlist_eqb (o_inbox o) (concat (h_acc h)))   (* flush before a local close *)
    && (negb (ended o) || h_amb h || Nat.eqb (o_exit_h o) (h_cur h))   (* the handler told about the exit is the one installed last,
                                                                          when it was installed before anything could end the session *)
  else (* not a session: a surplus connection is closed on accept; it may only be left waiting when nobody accepts any more *)
    Nat.eqb (o_onexit o) 0 && (o_closed o || negb alive) && Nat.eqb (o_sendl o) 0 && Nat.eqb (o_recvl o) 0 && is_nil (o_inbox o).

Fixpoint forallb2 {A B} (f : A -> B -> bool) (x : list A) (y : list B) : bool :=
  match x, y with
  | [], [] => true
  | a :: x', b :: y' => f a b && forallb2 f x' y'
  | _, _ => false
  end.

Fixpoint count_live (os : list obs) : Z :=
  match os with [] => 0 | o :: r => (if o_started o && Nat.eqb (o_onexit o) 0 then 1 else 0) + count_live r end.

(* a connection arriving alone, no Accept failure provoked, the accept loop alive afterwards: it is taken iff the
   count before it was below the maximum *)
Definition surplus_ok (m prev : Z) (is : list label) (os : list obs) : bool :=
  match is with
  | [Arrive i] => match nth_error os i with Some o => Bool.eqb (o_started o) (prev <? m) | None => false end
  | _ => true
  end.

Fixpoint holds_from (m : Z) (r : nat) (H : list hist) (prev : Z) (nod palive : bool) (ps : list phase) : bool :=
  match ps with
  | [] => true
  | p :: rest =>
      let H' := fold_left hist_label (order p) H in
      let nod' := nod && forallb not_start (order p) in
      let c := fst (observed p) in
      let os := snd (observed p) in
      (negb (par p) || perm_eqb (order p) (issued p))     (* concurrent calls: every one of them took effect, once, in some order *)
      && forallb2 (sess_ok (p_loop p)) H' os
      && Z.eqb c (count_live os)                          (* the count is the number of sessions not yet over: every exit gave its unit back *)
      && (negb nod' || (c <=? Z.max 0 m))                 (* never above the maximum when every session came through the accept loop *)
      && (negb (p_loop p && Nat.eqb (p_maxfails p) 0) || surplus_ok m prev (order p) os)
      && (palive || negb (p_loop p))                      (* an accept loop that has ended stays ended *)
      && (negb (palive && negb (p_loop p)) || existsb is_srvclose (order p) || Nat.leb r (p_maxfails p))
                                                          (* it ends only by Server.Close or after acceptMaxRetry temporary errors: fewer cannot end it *)
      && holds_from m r H' c nod' (p_loop p) rest
  end.

Definition case_holds (c : case) : bool := holds_from (c_maxc c) (c_amax c) [] 0 true true (c_phases c).

(* ---------------- soundness: whatever the replay accepts satisfies the monitor ---------------- *)
Definition hist_of (s : sess) : hist :=
  mkH (peer_reads s) (accepted s) (clean s) (lclosed s) (rcause s) (wfail s) (wsend s) (hid (hx s)) (amb (hx s)).

Lemma hist_step s a s' d : sess_step s a = Some (s', d) -> hist_of s' = hist_act (hist_of s) a.
Proof.
  intros H. destruct s as [t st q0 qc co sl rl ex oe wf rc po pr rv ib ac cl lc ws [hi he ha hp]]. destruct a; cbn in H.
  - destruct (Bool.eqb ok (negb qc)); [|discriminate]. destruct ok; inversion H; subst; reflexivity.
  - inversion H; subst; reflexivity.
  - inversion H; subst; reflexivity.
  - inversion H; subst; reflexivity.
  - destruct po; [|discriminate]. inversion H; subst; reflexivity.
  - destruct (po && negb pr); [|discriminate]. inversion H; subst; reflexivity.
  - destruct po; [|discriminate]. destruct (rl && negb rc && co); inversion H; subst; reflexivity.
  - destruct (po && pr); [|discriminate]. inversion H; subst; reflexivity.
  - destruct (match k with RErr | RTimeout => true | _ => po end); [|discriminate]. inversion H; subst; reflexivity.
  - inversion H; subst; reflexivity.
  - destruct sl; cbn in H; [|discriminate]. destruct q0 as [|x r].
    + destruct qc; [|discriminate]. unfold leave_send, quit in H. cbn in H. destruct ex; inversion H; subst; reflexivity.
    + destruct (is_nil x); [inversion H; subst; reflexivity|]. destruct (negb co || wf || negb po).
      * unfold leave_send, quit in H. cbn in H. destruct ex; inversion H; subst; reflexivity.
      * destruct pr; [|discriminate]. inversion H; subst; reflexivity.
  - destruct sl; cbn in H; [|discriminate]. destruct q0 as [|x r]; [discriminate|].
    destruct (negb (is_nil x) && co && negb wf && negb po && is_tcp t); [|discriminate]. inversion H; subst; reflexivity.
  - destruct (rl && (rc || negb co)); [|discriminate]. unfold leave_recv, quit in H. cbn in H.
    destruct ex; inversion H; subst; reflexivity.
  - destruct (negb hp && negb ex && can_leave _); [|discriminate]. inversion H; subst; reflexivity.
Qed.

Lemma map_upd {A B} (f : A -> B) l : forall i x, map f (upd i x l) = upd i (f x) (map f l).
Proof. induction l as [|y l IH]; intros [|i] x; cbn; auto. now rewrite IH. Qed.
Lemma upd_same {A} (l : list A) : forall i x, nth_error l i = Some x -> upd i x l = l.
Proof. induction l as [|y l IH]; intros [|i] x H; cbn in *; try discriminate; [now inversion H|]. now rewrite IH. Qed.
Lemma upd_app1 {A} (l : list A) : forall i x r, (i < length l)%nat -> upd i x (l ++ r) = upd i x l ++ r.
Proof. induction l as [|y l IH]; intros [|i] x r H; cbn in *; try lia; auto. f_equal. apply IH. lia. Qed.

(* what has been asked of every connection: the sessions and refused connections, then the connections still waiting *)
Definition HH (t : st) : list hist := map hist_of (ss t) ++ repeat (fresh_hist true 0) (pend t).

Lemma hist_of_step t l t' : step t l = Some t' -> HH t' = hist_label (HH t) l.
Proof.
  intros H. unfold HH. destruct l as [i trp reads h0|i|i| | | | |i a]; cbn [step] in H.
  - destruct (Nat.eqb i (length (ss t)) && Nat.eqb (pend t) 0) eqn:E; [|discriminate]. apply andb_prop in E as [_ E].
    apply Nat.eqb_eq in E. inversion H; subst; cbn. rewrite E. cbn. now rewrite !app_nil_r, map_app.
  - destruct (Nat.eqb i (length (ss t) + pend t)); [|discriminate]. inversion H; subst; cbn [ss pend hist_label].
    rewrite <- app_assoc. f_equal. change (repeat (fresh_hist true 0) (S (pend t))) with (fresh_hist true 0 :: repeat (fresh_hist true 0) (pend t)).
    apply repeat_cons.
  - destruct (Nat.eqb i (length (ss t)) && negb (Nat.eqb (pend t) 0) && aloop (al t) && negb (fdlim (al t))) eqn:E; [|discriminate].
    apply andb_prop in E as [E _]. apply andb_prop in E as [E _]. apply andb_prop in E as [_ E].
    apply negb_true_iff, Nat.eqb_neq in E. destruct (pend t) as [|n] eqn:Ep; [congruence|].
    destruct (maxc t <=? cnt t); inversion H; subst; cbn [ss pend hist_label Nat.pred]; rewrite map_app, <- app_assoc; reflexivity.
  - destruct (negb (Nat.eqb (pend t) 0) && aloop (al t) && fdlim (al t)); [|discriminate]. inversion H; subst; reflexivity.
  - destruct (fdlim (al t)); [discriminate|]. inversion H; subst; reflexivity.
  - destruct (fdlim (al t)); [|discriminate]. inversion H; subst; reflexivity.
  - destruct (Nat.eqb (pend t) 0); [|discriminate]. inversion H; subst; reflexivity.
  - destruct (nth_error (ss t) i) as [s|] eqn:En; [|discriminate]. destruct (started s); [|discriminate].
    destruct (sess_step s a) as [[s' d]|] eqn:Es; [|discriminate]. inversion H; subst; clear H. cbn [ss pend hist_label].
    assert (Hi : (i < length (map hist_of (ss t)))%nat) by (rewrite map_length; apply nth_error_Some; congruence).
    rewrite nth_error_app1 by exact Hi. rewrite nth_error_map, En. cbn [option_map].
    rewrite upd_app1 by exact Hi. rewrite map_upd. now rewrite (hist_step _ _ _ _ Es).
Qed.

Lemma hist_internal t l t' : step t l = Some t' -> internal l = true -> HH t' = HH t.
Proof.
  intros H Il. rewrite (hist_of_step _ _ _ H). destruct l as [| | | | | | |i a]; try discriminate; try reflexivity. cbn in *.
  destruct (nth_error (HH t) i) as [h|] eqn:En; [|reflexivity].
  replace (hist_act h a) with h by (destruct a; try discriminate; reflexivity). now apply upd_same.
Qed.

Lemma hist_run ls : forall t t', run t ls = Some t' -> HH t' = fold_left hist_label (filter external ls) (HH t).
Proof.
  induction ls as [|l ls IH]; intros t t' H; cbn in H.
  - inversion H; subst. reflexivity.
  - destruct (step t l) as [t1|] eqn:E; [|discriminate]. cbn [filter]. unfold external at 1.
    destruct (internal l) eqn:Il; cbn [negb].
    + rewrite (IH _ _ H). now rewrite (hist_internal _ _ _ E Il).
    + cbn [fold_left]. rewrite (IH _ _ H). now rewrite (hist_of_step _ _ _ E).
Qed.

Lemma not_start_filter ls : forallb not_start (filter external ls) = forallb not_start ls.
Proof.
  induction ls as [|l ls IH]; cbn; [reflexivity|]. unfold external at 1. destruct (internal l) eqn:Il; cbn.
  - rewrite IH. destruct l; try discriminate; reflexivity.
  - now rewrite IH.
Qed.

Lemma srvclose_filter ls : existsb is_srvclose (filter external ls) = existsb is_srvclose ls.
Proof.
  induction ls as [|l ls IH]; cbn; [reflexivity|]. unfold external at 1. destruct (internal l) eqn:Il; cbn.
  - rewrite IH. destruct l; try discriminate; reflexivity.
  - now rewrite IH.
Qed.

(* per session: the invariant and quiescence give the monitor's clauses *)
Lemma is_prefix_app a : forall rest, is_prefix a (a ++ rest) = true.
Proof. induction a as [|x a IH]; intros rest; cbn; [reflexivity|]. now rewrite Z.eqb_refl, IH. Qed.
Lemma zlist_eqb_refl a : zlist_eqb a a = true.
Proof. apply list_eqb_refl. apply Z.eqb_refl. Qed.

Lemma sess_ok_sound alive s : Inv1 s -> quiet s = true -> sess_ok alive (hist_of s) (obs_of1 s) = true.
Proof.
  intros I Q. unfold Inv1 in I. destruct (started s) eqn:St.
  - unfold sess_ok. cbn [obs_of1 o_started]. rewrite St.
    destruct (i_prefix s I) as [rest Hp].
    assert (Pre : is_prefix (inbox s) (concat (accepted s)) = true) by (rewrite Hp; apply is_prefix_app).
    pose proof (i_onexit s I) as Oe.
    destruct (exited s) eqn:Ex.
    + destruct (quiet_exited s I St Q Ex) as [Sl Rl]. destruct (i_exit_closed s I Ex) as [Qc Co].
      assert (En : ended (obs_of1 s) = true) by (unfold ended; cbn; rewrite Oe, Co, Sl, Rl; reflexivity).
      rewrite En. cbn [orb andb negb hist_of h_acc h_clean h_amb h_cur o_inbox obs_of1 o_closed o_exit_h]. rewrite orb_true_r, Pre. cbn [andb].
      rewrite Co. cbn [negb]. rewrite andb_true_r.
      assert (Hh : amb (hx s) || Nat.eqb (exit_h (hx s)) (hid (hx s)) = true).
      { destruct (amb (hx s)) eqn:Am; [reflexivity|]. cbn. rewrite (i_amb s I Am (or_intror Ex)). apply Nat.eqb_refl. }
      rewrite Hh, andb_true_r.
      destruct (clean s) eqn:Cl; [|reflexivity]. cbn [negb orb].
      destruct (i_clean s I Cl) as (_ & _ & _ & _ & F). rewrite (F Ex). apply zlist_eqb_refl.
    + pose proof (i_open s I Ex) as Co.
      assert (Sl : sendl s = true) by (destruct (sendl s) eqn:X; auto; rewrite (i_loops s I) in Ex; [discriminate|auto]).
      assert (Rl : recvl s = true) by (destruct (recvl s) eqn:X; auto; rewrite (i_loops s I) in Ex; [discriminate|auto]).
      assert (Ru : running (obs_of1 s) = true) by (unfold running; cbn; rewrite Oe, Co, Sl, Rl; reflexivity).
      assert (En : ended (obs_of1 s) = false) by (unfold ended; cbn; rewrite Oe; reflexivity).
      assert (Mu : h_must (hist_of s) = false).
      { destruct (h_must (hist_of s)) eqn:M; [|reflexivity]. change (h_must (hist_of s)) with (must_end s) in M.
        rewrite (quiet_must_end s I St Q M) in Ex. discriminate. }
      rewrite En, Ru, Mu. cbn [orb andb negb hist_of h_acc h_clean o_inbox obs_of1 o_closed]. rewrite Pre, Co. cbn [negb].
      rewrite andb_false_r. reflexivity.
  - subst s. reflexivity.
Qed.

Lemma all_ok_sound alive l : Forall Inv1 l -> forallb quiet l = true -> forallb2 (sess_ok alive) (map hist_of l) (map obs_of1 l) = true.
Proof.
  induction l as [|s l IH]; intros HF HQ; cbn [map forallb2]; [reflexivity|]. inversion HF as [|? ? H1 H2]; subst.
  cbn [forallb] in HQ. apply andb_prop in HQ as [Q1 Q2].
  rewrite (sess_ok_sound alive s H1 Q1). cbn [andb]. exact (IH H2 Q2).
Qed.

Lemma forallb2_app {A B} (f : A -> B -> bool) a1 : forall b1 a2 b2, forallb2 f a1 b1 = true -> forallb2 f a2 b2 = true ->
  forallb2 f (a1 ++ a2) (b1 ++ b2) = true.
Proof.
  induction a1 as [|x a1 IH]; destruct b1 as [|y b1]; cbn; intros a2 b2 H1 H2; try discriminate; auto.
  apply andb_prop in H1 as [H H1]. rewrite H. cbn. apply IH; auto.
Qed.

Lemma waiting_ok n : forallb2 (sess_ok false) (repeat (fresh_hist true 0) n) (repeat waiting n) = true.
Proof. induction n as [|n IH]; cbn [repeat forallb2]; [reflexivity|]. rewrite IH. reflexivity. Qed.

Lemma count_live_sound l : Forall Inv1 l -> count_live (map obs_of1 l) = total l.
Proof.
  induction l as [|s l IH]; intros HF; cbn; [reflexivity|]. inversion HF as [|? ? I1 HF']; subst. rewrite (IH HF'). f_equal.
  unfold live. unfold Inv1 in I1. destruct (started s) eqn:St; cbn; [|reflexivity].
  rewrite (i_onexit s I1). destruct (exited s); reflexivity.
Qed.
Lemma count_live_app a b : count_live (a ++ b) = count_live a + count_live b.
Proof. induction a as [|o a IH]; cbn; [reflexivity|]. rewrite IH. lia. Qed.
Lemma count_live_waiting n : count_live (repeat waiting n) = 0.
Proof. induction n as [|n IH]; cbn; [reflexivity|]. exact IH. Qed.

(* at quiescence none of the implementation's own steps is enabled *)
Lemma stable_parts t : stable t = true -> (pend t = 0%nat \/ aloop (al t) = false) /\ forallb quiet (ss t) = true.
Proof.
  unfold stable. intros H. apply andb_prop in H as [A B]. split; [|exact B].
  apply orb_prop in A as [A|A]; [left; now apply Nat.eqb_eq|right; now apply negb_true_iff].
Qed.

Lemma quiet_internal_none t l : forallb quiet (ss t) = true -> internal l = true ->
  (forall i, l <> Accept i) -> l <> AcceptFail -> step t l = None.
Proof.
  intros S Il Hna Hnf. destruct l as [| |j| | | | |i a]; try discriminate; [exfalso; apply (Hna j); reflexivity|exfalso; apply Hnf; reflexivity|].
  cbn in Il. cbn [step].
  destruct (nth_error (ss t) i) as [s|] eqn:En; [|reflexivity]. destruct (started s) eqn:St; [|reflexivity].
  rewrite forallb_forall in S. pose proof (S s (nth_error_In _ _ En)) as Q.
  destruct (quiet_started s St Q) as (A & B & C). pose proof (quiet_no_pick s St Q) as D.
  destruct a; try discriminate; [now rewrite A|now rewrite B|now rewrite C|now rewrite D].
Qed.

Lemma stable_internal_none t l : stable t = true -> internal l = true -> step t l = None.
Proof.
  intros S Il. destruct (stable_parts t S) as [P Q]. destruct l as [| |j| | | | |i a] eqn:El; try discriminate.
  - cbn [step]. destruct P as [P|P]; rewrite P; cbn; now rewrite ?andb_false_r.
  - cbn [step]. destruct P as [P|P]; rewrite P; cbn; now rewrite ?andb_false_r.
  - rewrite <- El. apply quiet_internal_none; auto; subst l; [exact Il|discriminate|discriminate].
Qed.

(* a connection arriving alone at quiescence, no Accept failing, the accept loop alive at the end: the run is the
   arrival followed by the accept loop's step *)
Lemma surplus_sound t ls t' i : stable t = true -> run t ls = Some t' -> stable t' = true -> filter external ls = [Arrive i] ->
  aloop (al t') = true -> count_fail ls = 0%nat ->
  nth_error (obs_all t') i = Some (obs_of1 (if maxc t <=? cnt t then rejected else fresh Tcp true 0%nat)).
Proof.
  intros Sb H Sb' F Al' NF. destruct (stable_parts t Sb) as [P Q].
  destruct ls as [|l ls]; [discriminate|]. cbn in H. destruct (step t l) as [t1|] eqn:E; [|discriminate].
  destruct (internal l) eqn:Il; [rewrite (stable_internal_none _ _ Sb Il) in E; discriminate|].
  cbn in F. unfold external in F at 1. rewrite Il in F. cbn in F. inversion F as [[Hl F']]. subst l.
  cbn [step] in E. destruct (Nat.eqb i (length (ss t) + pend t)) eqn:Ei; [|discriminate]. apply Nat.eqb_eq in Ei.
  inversion E; subst t1; clear E.
  assert (Lv : forall u, aloop (al u) = true -> stable u = true -> pend u = 0%nat).
  { intros u A1 A2. destruct (stable_parts u A2) as [[X|X] _]; [exact X|congruence]. }
  destruct ls as [|l2 ls].
  - (* the arrival alone: the connection would still be waiting although the loop is alive *)
    cbn in H. inversion H; subst t'. pose proof (Lv _ Al' Sb') as X. cbn in X. discriminate.
  - cbn in H. destruct (internal l2) eqn:Il2; [|cbn in F'; unfold external in F' at 1; rewrite Il2 in F'; discriminate].
    destruct l2 as [| |j| | | | |j a]; try discriminate.
    + (* the accept loop takes it *)
      cbn [step ss pend al maxc cnt] in H.
      destruct (Nat.eqb j (length (ss t)) && negb (Nat.eqb (S (pend t)) 0) && aloop (al t) && negb (fdlim (al t))) eqn:Ej; [|discriminate].
      apply andb_prop in Ej as [Ej _]. apply andb_prop in Ej as [Ej Al]. 
      assert (P0 : pend t = 0%nat) by (destruct P as [X|X]; [exact X|congruence]).
      set (x := if maxc t <=? cnt t then rejected else fresh Tcp true 0%nat).
      assert (Hx : exists c, (if maxc t <=? cnt t
                 then Some (mkSt (maxc t) (cnt t) (ss t ++ [rejected]) (Nat.pred (S (pend t))) (set_aretry (al t) 0%nat))
                 else Some (mkSt (maxc t) (cnt t + 1) (ss t ++ [fresh Tcp true 0%nat]) (Nat.pred (S (pend t))) (set_aretry (al t) 0%nat)))
                 = Some (mkSt (maxc t) c (ss t ++ [x]) 0%nat (set_aretry (al t) 0%nat)))
        by (unfold x; rewrite P0; destruct (maxc t <=? cnt t); eexists; reflexivity).
      destruct Hx as [c Hx]. rewrite Hx in H.
      set (t2 := mkSt (maxc t) c (ss t ++ [x]) 0%nat (set_aretry (al t) 0%nat)) in *.
      assert (S2 : stable t2 = true).
      { unfold stable, t2. cbn. rewrite forallb_app, Q. cbn. unfold x. destruct (maxc t <=? cnt t); reflexivity. }
      destruct ls as [|l3 ls].
      * cbn in H. inversion H; subst t'. unfold obs_all, t2. cbn [ss pend repeat]. rewrite app_nil_r, map_app, nth_error_app2; rewrite map_length; [|lia].
        rewrite Ei, P0, Nat.add_0_r, Nat.sub_diag. reflexivity.
      * exfalso. cbn in H. destruct (internal l3) eqn:Il3.
        -- rewrite (stable_internal_none _ _ S2 Il3) in H. discriminate.
        -- cbn in F'. unfold external in F' at 1. cbn in F'. unfold external in F' at 1. rewrite Il3 in F'. discriminate.
    (* (an Accept failure is excluded by the count: solved by discriminate above) *)
    + (* no session can move: they were quiet before the arrival *)
      exfalso. assert (X : step (mkSt (maxc t) (cnt t) (ss t) (S (pend t)) (al t)) (On j a) = None).
      { apply quiet_internal_none; [exact Q|exact Il2|discriminate|discriminate]. }
      rewrite X in H. discriminate.
Qed.

Lemma forallb2_length {A B} (f : A -> B -> bool) x : forall y, forallb2 f x y = true -> length x = length y.
Proof. induction x as [|a x IH]; destruct y; cbn; try discriminate; auto. intros H. apply andb_prop in H as [_ H]. f_equal. auto. Qed.

Lemma replay_sound m r : forall ps t H prev nod palive,
  GInv 0 t -> maxc t = m -> amax (al t) = r -> HH t = H -> prev = cnt t -> stable t = true -> palive = aloop (al t) ->
  (nod = true -> cnt t <= Z.max 0 m) ->
  replay t ps = true -> holds_from m r H prev nod palive ps = true.
Proof.
  induction ps as [|p ps IH]; intros t H prev nod palive G Hm Hr HH0 Hp S Hpa Hb R; [reflexivity|].
  cbn [replay] in R. destruct (run t (resolved p)) as [t'|] eqn:Er; [|discriminate].
  apply andb_prop in R as [R R7]. apply andb_prop in R as [R R6]. apply andb_prop in R as [R R5]. apply andb_prop in R as [R R4].
  apply andb_prop in R as [R R3]. apply andb_prop in R as [R1 R2].
  apply Z.eqb_eq in R3. apply (list_eqb_eq obs_eqb obs_eqb_eq) in R4. apply eqb_prop in R5. apply Nat.leb_le in R6.
  assert (OP : filter external (resolved p) = order p /\ (negb (par p) || perm_eqb (order p) (issued p)) = true).
  { unfold order_ok in R1. unfold order. destruct (par p); cbn [negb orb].
    - split; [reflexivity|exact R1].
    - split; [|reflexivity]. apply (list_eqb_eq label_eqb label_eqb_eq). exact R1. }
  destruct OP as [O Pm]. clear R1.
  destruct (run_ginv 0 _ _ _ G Er) as [G' Hm'].
  destruct (stable_parts t' R2) as [P' Q'].
  cbn [holds_from]. destruct (observed p) as [c os]. cbn [fst snd] in *. subst c os.
  rewrite Pm. cbn [andb].
  assert (HH' : fold_left hist_label (order p) H = HH t') by (rewrite <- O, <- HH0; symmetry; apply hist_run; exact Er).
  rewrite HH'.
  assert (Nd : forallb not_start (order p) = forallb not_start (resolved p)) by (rewrite <- O; apply not_start_filter).
  assert (Hb' : nod && forallb not_start (order p) = true -> cnt t' <= Z.max 0 m).
  { intros X. apply andb_prop in X as [X1 X2]. rewrite Nd in X2. rewrite <- Hm, <- Hm'.
    apply (run_bound 0 (resolved p) t t' G (Z.le_refl 0) Er X2). rewrite Hm. auto. }
  (* every connection: sessions and refused ones by the invariant, waiting ones only when the loop is gone *)
  assert (OK : forallb2 (sess_ok (p_loop p)) (HH t') (obs_all t') = true).
  { unfold HH, obs_all. apply forallb2_app; [apply all_ok_sound; [exact (g_all _ _ G')|exact Q']|].
    destruct P' as [P'|P']; [rewrite P'; reflexivity|]. rewrite <- R5, P'. apply waiting_ok. }
  rewrite OK. cbn [andb].
  assert (CL : count_live (obs_all t') = cnt t').
  { unfold obs_all. rewrite count_live_app, count_live_waiting, (count_live_sound _ (g_all _ _ G')).
    pose proof (g_cnt _ _ G') as Gc. lia. }
  rewrite CL, Z.eqb_refl. cbn [andb].
  assert (B : negb (nod && forallb not_start (order p)) || (cnt t' <=? Z.max 0 m) = true).
  { destruct (nod && forallb not_start (order p)) eqn:X; [|reflexivity]. cbn. apply Z.leb_le. auto. }
  rewrite B. cbn [andb].
  assert (Su : negb (p_loop p && Nat.eqb (p_maxfails p) 0) || surplus_ok m prev (order p) (obs_all t') = true).
  { destruct (p_loop p && Nat.eqb (p_maxfails p) 0) eqn:X; [|reflexivity]. cbn [negb orb].
    apply andb_prop in X as [X1 X2]. apply Nat.eqb_eq in X2. rewrite X2 in R6.
    unfold surplus_ok. destruct (order p) as [|[| i | | | | | |] [|]] eqn:Ei; try reflexivity.
    rewrite (surplus_sound t (resolved p) t' i S Er R2 O); [|congruence|lia]. subst prev m.
    destruct (maxc t <=? cnt t) eqn:E; cbn.
    - apply Z.leb_le in E. assert (X : cnt t <? maxc t = false) by (apply Z.ltb_ge; lia). now rewrite X.
    - apply Z.leb_gt in E. assert (X : cnt t <? maxc t = true) by (apply Z.ltb_lt; lia). now rewrite X. }
  rewrite Su. cbn [andb].
  (* the accept loop *)
  assert (Mono : palive || negb (p_loop p) = true).
  { destruct palive eqn:Pa; [reflexivity|]. cbn. rewrite <- R5.
    destruct (aloop (al t')) eqn:A'; [|reflexivity]. exfalso.
    assert (Dead : forall ls u u', run u ls = Some u' -> aloop (al u) = false -> aloop (al u') = false).
    { induction ls as [|l ls IHl]; intros u u' Hu Hd; cbn in Hu; [inversion Hu; subst; exact Hd|].
      destruct (step u l) as [u1|] eqn:Eu; [|discriminate]. apply (IHl u1 u' Hu).
      destruct l as [i trp reads h0|i|i| | | | |i a]; cbn [step] in Eu.
      - destruct (Nat.eqb i (length (ss u)) && Nat.eqb (pend u) 0); [|discriminate]. inversion Eu; subst; exact Hd.
      - destruct (Nat.eqb i (length (ss u) + pend u)); [|discriminate]. inversion Eu; subst; exact Hd.
      - destruct (Nat.eqb i (length (ss u)) && negb (Nat.eqb (pend u) 0) && aloop (al u) && negb (fdlim (al u))) eqn:Eg; [|discriminate].
        apply andb_prop in Eg as [Eg _]. apply andb_prop in Eg as [_ Eg]. congruence.
      - destruct (negb (Nat.eqb (pend u) 0) && aloop (al u) && fdlim (al u)) eqn:Eg; [|discriminate].
        apply andb_prop in Eg as [Eg _]. apply andb_prop in Eg as [_ Eg]. congruence.
      - destruct (fdlim (al u)); [discriminate|]. inversion Eu; subst; exact Hd.
      - destruct (fdlim (al u)); [|discriminate]. inversion Eu; subst; exact Hd.
      - destruct (Nat.eqb (pend u) 0); [|discriminate]. inversion Eu; subst; reflexivity.
      - destruct (nth_error (ss u) i) as [s|]; [|discriminate]. destruct (started s); [|discriminate].
        destruct (sess_step s a) as [[s' d]|]; [|discriminate]. inversion Eu; subst; exact Hd. }
    rewrite (Dead _ _ _ Er (eq_sym Hpa)) in A'. discriminate. }
  rewrite Mono. cbn [andb].
  assert (Death : negb (palive && negb (p_loop p)) || existsb is_srvclose (order p) || Nat.leb r (p_maxfails p) = true).
  { destruct (palive && negb (p_loop p)) eqn:X; [|reflexivity]. cbn [negb orb].
    apply andb_prop in X as [X1 X2]. apply negb_true_iff in X2. subst palive.
    destruct (existsb is_srvclose (order p)) eqn:Sc; [reflexivity|]. cbn [orb].
    rewrite <- O, srvclose_filter in Sc.
    assert (P0 : pend t = 0%nat) by (destruct (stable_parts t S) as [[Y|Y] _]; [exact Y|congruence]).
    pose proof (loop_death_needs_retries 0 t (resolved p) t' G X1 P0 Er (eq_trans R5 X2) Sc) as L.
    apply Nat.leb_le. lia. }
  rewrite Death. cbn [andb].
  apply (IH t'); auto; try congruence.
  rewrite (run_amax _ _ _ Er). exact Hr.
Qed.

Theorem case_sound : forall c, case_accept c = true -> case_holds c = true.
Proof.
  intros [m r ps] H. unfold case_accept, case_holds in *. cbn [c_maxc c_amax c_phases] in *.
  apply (replay_sound m r ps (init m 0 r)); auto.
  - apply init_ginv.
  - intros _. cbn. lia.
Qed.
