(* C03: the wrapper's four bounded scans.  iterWalk's callback (stop once n items have been gathered, gather the
   items passing the filter) over the two scan theorems: exactly the first n matching items, in scan order *)
From Coq Require Import ZArith List Lia Bool Sorting.Sorted.
Require Import BTI BTDs.
Import ListNotations.
Open Scope Z_scope.

Section Walk.
Variable n : nat.                      (* the limit; iterWalk returns nil at once for n = 0 *)
Variable flt : Z -> bool.

(* fn := func(v) bool { if c >= n { return false }; if filter(v) { ns = append(ns, v); c++ }; return true } *)
Definition walk_visit (acc : list Z) (x : Z) : list Z * bool :=
  if Nat.leb n (length acc) then (acc, false) else ((if flt x then acc ++ [x] else acc), true).

Lemma walk_feed : forall L acc, (length acc <= n)%nat ->
  fst (feed (list Z) walk_visit L acc) = firstn n (acc ++ filter flt L).
Proof.
  induction L as [|x L IH]; intros acc Hacc.
  - cbn [feed filter fst]. rewrite app_nil_r. symmetry. apply firstn_all2. exact Hacc.
  - cbn [feed filter]. unfold walk_visit at 1. destruct (Nat.leb n (length acc)) eqn:E.
    + apply Nat.leb_le in E. cbn [fst]. rewrite firstn_app. replace (n - length acc)%nat with 0%nat by lia. cbn [firstn]. rewrite app_nil_r.
      symmetry. apply firstn_all2. lia.
    + apply Nat.leb_gt in E. destruct (flt x).
      * rewrite IH by (rewrite app_length; cbn [length]; lia). rewrite <- app_assoc. reflexivity.
      * rewrite IH by lia. reflexivity.
Qed.

Definition walk (scan : (list Z -> Z -> list Z * bool) -> list Z * bool * bool) : list Z :=
  match n with O => [] | _ => fst (fst (scan walk_visit)) end.

(* AscendGte / AscendGt *)
Theorem ascend_walk_spec (incl : bool) (k : Z) f t :
  wf f t -> StronglySorted Z.lt (flat f t) ->
  walk (fun v => asc (list Z) v (Some k) incl f t false []) = firstn n (filter flt (filter (keep (Some k) incl) (flat f t))).
Proof.
  intros Hwf Hs. unfold walk. destruct n as [|m] eqn:En; [reflexivity|]. rewrite <- En.
  pose proof (ascend_scan_correct (list Z) walk_visit (Some k) incl f t [] Hwf Hs) as H. cbn zeta in H.
  apply (f_equal fst) in H. cbn [fst] in H. rewrite H. rewrite walk_feed by (cbn; lia). reflexivity.
Qed.

(* DescendLte / DescendLt *)
Theorem descend_walk_spec (incl : bool) (k : Z) f t :
  wf f t -> StronglySorted Z.lt (flat f t) ->
  walk (fun v => desc (list Z) v (Some k) incl f t false []) = firstn n (filter flt (filter (keepd (Some k) incl) (rev (flat f t)))).
Proof.
  intros Hwf Hs. unfold walk. destruct n as [|m] eqn:En; [reflexivity|]. rewrite <- En.
  pose proof (descend_scan_correct (list Z) walk_visit (Some k) incl f t [] Hwf Hs) as H. cbn zeta in H.
  apply (f_equal fst) in H. cbn [fst] in H. rewrite H. rewrite walk_feed by (cbn; lia). reflexivity.
Qed.
End Walk.

(* what the two pivot filters mean *)
Lemma keep_meaning k incl x : keep (Some k) incl x = if incl then k <=? x else k <? x.
Proof.
  unfold keep, lt_s, le_s. destruct incl; cbn [orb negb andb].
  - rewrite andb_true_r. rewrite Z.leb_antisym. reflexivity.
  - destruct (x <? k) eqn:E1; destruct (x <=? k) eqn:E2; destruct (k <? x) eqn:E3; cbn; try reflexivity;
      rewrite ?Z.ltb_lt, ?Z.ltb_ge, ?Z.leb_le, ?Z.leb_gt in *; lia.
Qed.
Lemma keepd_meaning k incl x : keepd (Some k) incl x = if incl then x <=? k else x <? k.
Proof.
  unfold keepd, gt_s, ge_s. destruct incl; cbn [orb negb andb].
  - rewrite andb_true_r. rewrite Z.leb_antisym. reflexivity.
  - destruct (k <? x) eqn:E1; destruct (k <=? x) eqn:E2; destruct (x <? k) eqn:E3; cbn; try reflexivity;
      rewrite ?Z.ltb_lt, ?Z.ltb_ge, ?Z.leb_le, ?Z.leb_gt in *; lia.
Qed.

Print Assumptions ascend_walk_spec.
Print Assumptions descend_walk_spec.
