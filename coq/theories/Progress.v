(* C02 core: multi-key lockers acquiring in one global key order never deadlock (progress) *)
From Coq Require Import ZArith List Bool Lia Arith Sorting.Sorted.
Import ListNotations.
Open Scope Z_scope.

(* an active request: its keys in acquisition order, how many it already holds, its mode *)
Record thr := { keys : list Z; pos : nat; wr : bool }.

Definition holds (t : thr) (k : Z) : bool := existsb (Z.eqb k) (firstn (pos t) (keys t)).
Definition next (t : thr) : option Z := nth_error (keys t) (pos t).
Definition waits_on (t : thr) (k : Z) : bool := match next t with Some k' => Z.eqb k' k | None => false end.

(* the strictest enabling rule: a writer needs the key free of holders; a reader needs no writer holding it
   and no writer waiting for it (Go's RWMutex blocks readers behind an announced writer) *)
Definition can_grant (ts : list thr) (t : thr) : bool :=
  match next t with
  | None => false
  | Some k =>
    if wr t then forallb (fun u => negb (holds u k)) ts
    else forallb (fun u => negb (wr u && (holds u k || waits_on u k))) ts
  end.

Definition wf (t : thr) : Prop := StronglySorted Z.lt (keys t) /\ (pos t <= length (keys t))%nat.
Definition holding_all (t : thr) : Prop := pos t = length (keys t).

Lemma holds_lt t k k' : wf t -> next t = Some k' -> holds t k = true -> k < k'.
Proof.
  intros [Hs Hp] Hn Hh. unfold next, holds in *. apply existsb_exists in Hh as (x & Hin & Hx). apply Z.eqb_eq in Hx. subst x.
  rewrite <- (firstn_skipn (pos t) (keys t)) in Hs, Hn.
  assert (Hlen : length (firstn (pos t) (keys t)) = pos t) by (apply firstn_length_le; lia).
  rewrite nth_error_app2 in Hn by lia. rewrite Hlen, Nat.sub_diag in Hn.
  destruct (skipn (pos t) (keys t)) as [|y r] eqn:E; [discriminate|]. cbn in Hn. inversion Hn; subst y.
  clear - Hs Hin. induction (firstn (pos t) (keys t)) as [|z l IH]; [destruct Hin|].
  cbn in Hs. inversion Hs as [|? ? Hs' Hf]; subst. destruct Hin as [->|Hin].
  - rewrite Forall_forall in Hf. apply Hf. apply in_or_app. right. left. reflexivity.
  - apply IH; auto.
Qed.

(* some thread's next key is maximal *)
Lemma max_next : forall ts : list thr, ts <> [] -> (forall t, In t ts -> exists k, next t = Some k) ->
  exists t k, In t ts /\ next t = Some k /\ forall u k', In u ts -> next u = Some k' -> k' <= k.
Proof.
  induction ts as [|t ts IH]; [congruence|]. intros _ Hn.
  destruct (Hn t (or_introl eq_refl)) as [k Hk].
  destruct ts as [|t2 ts2].
  - exists t, k. repeat split; auto; [left; reflexivity|]. intros u k' [<-|[]] Hu. rewrite Hk in Hu. inversion Hu. lia.
  - destruct (IH ltac:(discriminate) (fun u Hu => Hn u (or_intror Hu))) as (m & km & Hin & Hm & Hmax).
    destruct (Z.le_gt_cases k km).
    + exists m, km. repeat split; auto; [right; exact Hin|]. intros u k' [<-|Hu] Hnu.
      * rewrite Hk in Hnu. inversion Hnu. lia.
      * eapply Hmax; eauto.
    + exists t, k. repeat split; auto; [left; reflexivity|]. intros u k' [<-|Hu] Hnu.
      * rewrite Hk in Hnu. inversion Hnu. lia.
      * specialize (Hmax u k' Hu Hnu). lia.
Qed.

(* PROGRESS: among active requests that take their keys in increasing order, either one holds everything
   (and can unlock) or some grant is enabled - under the strictest rule, hence under every weaker one *)
Theorem ordered_no_deadlock (ts : list thr) : ts <> [] -> (forall t, In t ts -> wf t) ->
  (exists t, In t ts /\ holding_all t) \/ (exists t, In t ts /\ can_grant ts t = true).
Proof.
  intros Hne Hwf.
  destruct (existsb (fun t => Nat.eqb (pos t) (length (keys t))) ts) eqn:E.
  - left. apply existsb_exists in E as (t & Hin & Ht). apply Nat.eqb_eq in Ht. eauto.
  - right.
    assert (Hnext : forall t, In t ts -> exists k, next t = Some k).
    { intros t Hin. destruct (Hwf t Hin) as [_ Hp].
      assert (Hlt : (pos t < length (keys t))%nat).
      { destruct (Nat.eq_dec (pos t) (length (keys t))) as [Heq|]; [|lia]. exfalso.
        assert (existsb (fun t => Nat.eqb (pos t) (length (keys t))) ts = true); [|congruence].
        apply existsb_exists. exists t. split; auto. now apply Nat.eqb_eq. }
      unfold next. destruct (nth_error (keys t) (pos t)) eqn:En; eauto. apply nth_error_None in En. lia. }
    destruct (max_next ts Hne Hnext) as (t & k & Hin & Hk & Hmax).
    (* nobody holds the maximal next key: a holder's own next key would be larger *)
    assert (Hfree : forall u, In u ts -> holds u k = false).
    { intros u Hu. destruct (holds u k) eqn:Eh; auto. exfalso.
      destruct (Hnext u Hu) as [ku Hku]. pose proof (holds_lt u k ku (Hwf u Hu) Hku Eh). specialize (Hmax u ku Hu Hku). lia. }
    destruct (wr t) eqn:Ew.
    + exists t. split; auto. unfold can_grant. rewrite Hk, Ew. apply forallb_forall. intros u Hu. now rewrite (Hfree u Hu).
    + (* a reader: either no writer waits for k, or that writer can be granted *)
      destruct (existsb (fun u => wr u && waits_on u k) ts) eqn:Ex.
      * apply existsb_exists in Ex as (w & Hw & Hww). apply andb_prop in Hww as [Hwr Hwait].
        exists w. split; auto. unfold can_grant. unfold waits_on in Hwait.
        destruct (next w) as [kw|] eqn:Enw; [|discriminate]. apply Z.eqb_eq in Hwait. subst kw.
        rewrite Hwr. apply forallb_forall. intros u Hu. now rewrite (Hfree u Hu).
      * exists t. split; auto. unfold can_grant. rewrite Hk, Ew. apply forallb_forall. intros u Hu.
        rewrite (Hfree u Hu). cbn [orb].
        destruct (wr u && waits_on u k) eqn:Eu; auto.
        assert (existsb (fun u => wr u && waits_on u k) ts = true); [|congruence].
        apply existsb_exists. eauto.
Qed.

(* the precondition matters: two writers taking two keys in opposite orders block each other *)
Example rotated_order_deadlocks :
  let ts := [ {| keys := [1; 2]; pos := 1; wr := true |}; {| keys := [2; 1]; pos := 1; wr := true |} ] in
  forallb (fun t => negb (can_grant ts t)) ts = true /\ forallb (fun t => negb (Nat.eqb (pos t) (length (keys t)))) ts = true.
Proof. split; vm_compute; reflexivity. Qed.
Print Assumptions ordered_no_deadlock.
