(* C05: the in-memory TTL cache over whole histories.
   op / step / run: every public method of ttlMemCache as one step on the model of TTL.v (clock reading supplied per step);
   wf: no key twice, at most max(0,size) entries - kept by every step, hence true after every history;
   set_trim: every Set that stores and every Get that hits leaves  trim size (entry :: erase k l). *)
From Coq Require Import ZArith List Lia Bool.
Require Import TTL TTLView.
Import ListNotations.
Open Scope Z_scope.

Inductive op := OSet (k v : Z) (o : setopt) | OGet (k : Z) (o : getopt) | ORemove (k : Z) | OClear.

Definition clear (c : cache) : cache := {| size := size c; dttl := dttl c; l := [] |}.

(* Remove: delete the entry when the index has it (no expiry test); Clear: fresh index, list re-initialised *)
Definition step (c : cache) (now : Z) (o : op) : cache * res :=
  match o with
  | OSet k v so => set c k v so now
  | OGet k go => get c k go now
  | ORemove k => (without c k, Done)
  | OClear => (clear c, Done)
  end.

Fixpoint run (c : cache) (h : list (Z * op)) : cache * list res :=
  match h with
  | [] => (c, [])
  | (now, o) :: h' => let '(c1, r) := step c now o in let '(c2, rs) := run c1 h' in (c2, r :: rs)
  end.

Definition empty (sz dt : Z) : cache := {| size := sz; dttl := dt; l := [] |}.

Definition keys (l0 : list node) : list Z := map key l0.
Definition trim (sz : Z) (l1 : list node) : list node := if sz <? Z.of_nat (length l1) then removelast l1 else l1.
Definition wf (c : cache) : Prop := NoDup (keys (l c)) /\ Z.of_nat (length (l c)) <= Z.max 0 (size c).

(* ---------- list facts ---------- *)
Definition nek (k : Z) (x : Z) : bool := negb (x =? k).

Lemma keys_erase k l0 : keys (erase k l0) = filter (nek k) (keys l0).
Proof. unfold keys, erase, nek. induction l0 as [|n r IH]; [reflexivity|]. cbn [filter map]. destruct (key n =? k); cbn [negb map]; [exact IH|now rewrite IH]. Qed.

Lemma In_keys_find k l0 : In k (keys l0) <-> exists n, find_k k l0 = Some n.
Proof.
  unfold keys, find_k. induction l0 as [|m r IH]; cbn [map In find].
  - split; [tauto|intros [n H]; discriminate].
  - destruct (key m =? k) eqn:E.
    + apply Z.eqb_eq in E. split; [intros _; now exists m|intros _; now left].
    + apply Z.eqb_neq in E. rewrite <- IH. split; [intros [H|H]; [congruence|exact H]|intros H; now right].
Qed.

Lemma find_k_key k l0 n : find_k k l0 = Some n -> key n = k /\ In n l0.
Proof. unfold find_k. intros H. apply find_some in H as [H1 H2]. apply Z.eqb_eq in H2. now split. Qed.

Lemma find_k_none k l0 : find_k k l0 = None -> ~ In k (keys l0).
Proof. intros H Hin. apply In_keys_find in Hin as [n Hn]. congruence. Qed.

Lemma erase_absent k l0 : ~ In k (keys l0) -> erase k l0 = l0.
Proof.
  unfold erase, keys. induction l0 as [|n r IH]; [reflexivity|]. cbn [map In filter]. intros H.
  destruct (key n =? k) eqn:E; [apply Z.eqb_eq in E; tauto|]. cbn [negb]. f_equal. apply IH. tauto.
Qed.

Lemma not_in_keys_erase k l0 : ~ In k (keys (erase k l0)).
Proof. rewrite keys_erase. intros H. apply filter_In in H as [_ H]. unfold nek in H. rewrite Z.eqb_refl in H. discriminate. Qed.

Lemma In_keys_erase k k' l0 : In k' (keys (erase k l0)) <-> In k' (keys l0) /\ k' <> k.
Proof.
  rewrite keys_erase, filter_In. unfold nek. split; intros [H1 H2]; split; auto.
  - intros ->. rewrite Z.eqb_refl in H2. discriminate.
  - apply Z.eqb_neq in H2. now rewrite H2.
Qed.

Lemma In_erase k n l0 : In n (erase k l0) <-> In n l0 /\ key n <> k.
Proof.
  unfold erase. rewrite filter_In. split; intros [H1 H2]; split; auto.
  - intros E. rewrite E, Z.eqb_refl in H2. discriminate.
  - apply Z.eqb_neq in H2. now rewrite H2.
Qed.

Lemma NoDup_keys_erase k l0 : NoDup (keys l0) -> NoDup (keys (erase k l0)).
Proof. intros H. rewrite keys_erase. now apply NoDup_filter. Qed.

Lemma In_removelast {A} (x : A) l0 : In x (removelast l0) -> In x l0.
Proof.
  induction l0 as [|a r IH]; [tauto|]. destruct r as [|b r']; [cbn; tauto|].
  change (removelast (a :: b :: r')) with (a :: removelast (b :: r')). intros [H|H]; [now left|right; now apply IH].
Qed.

Lemma NoDup_removelast {A} (l0 : list A) : NoDup l0 -> NoDup (removelast l0).
Proof.
  induction l0 as [|a r IH]; [auto|]. intros H. inversion H as [|a' r' Hn Hr]; subst.
  destruct r as [|b r']; [constructor|]. change (removelast (a :: b :: r')) with (a :: removelast (b :: r')).
  constructor; [intros Hin; apply Hn; now apply In_removelast|now apply IH].
Qed.

Lemma keys_removelast l0 : keys (removelast l0) = removelast (keys l0).
Proof.
  unfold keys. induction l0 as [|a r IH]; [reflexivity|]. destruct r as [|b r']; [reflexivity|].
  change (removelast (a :: b :: r')) with (a :: removelast (b :: r')). cbn [map]. cbn [map] in IH. now rewrite IH.
Qed.

Lemma length_removelast {A} (l0 : list A) : length (removelast l0) = pred (length l0).
Proof.
  induction l0 as [|a r IH]; [reflexivity|]. destruct r as [|b r']; [reflexivity|].
  change (removelast (a :: b :: r')) with (a :: removelast (b :: r')). cbn [length] in *. now rewrite IH.
Qed.

Lemma length_erase_in k l0 : In k (keys l0) -> (S (length (erase k l0)) <= length l0)%nat.
Proof. intros H. apply In_keys_find in H as [n Hn]. now apply (length_erase_found k l0 n). Qed.

(* ---------- every storing Set / hitting Get leaves  trim size (entry :: erase k l) ---------- *)
Lemma trim_noop sz x k l0 : In k (keys l0) -> Z.of_nat (length l0) <= Z.max 0 sz -> trim sz (x :: erase k l0) = x :: erase k l0.
Proof.
  intros Hin Hb. unfold trim. pose proof (length_erase_in k l0 Hin) as Hl.
  replace (sz <? Z.of_nat (length (x :: erase k l0))) with false; [reflexivity|].
  symmetry. apply Z.ltb_ge. cbn [length]. lia.
Qed.

(* the three possible effects of a Set *)
Lemma set_cases c k v o now : wf c ->
  let d := deadline (set_ttl c o) now in
  (exists n, find_k k (l c) = Some n /\ now <= dl n /\ mne o = true /\ set c k v o now = (c, Exists)) \/
  (exists n, find_k k (l c) = Some n /\ now <= dl n /\ mne o = false /\
     set c k v o now = ({| size := size c; dttl := dttl c;
                           l := trim (size c) ({| key := k; val := v; dl := if keep o then dl n else d |} :: erase k (l c)) |}, Done)) \/
  ((find_k k (l c) = None \/ exists n, find_k k (l c) = Some n /\ dl n < now) /\
     set c k v o now = ({| size := size c; dttl := dttl c; l := trim (size c) ({| key := k; val := v; dl := d |} :: erase k (l c)) |}, Done)).
Proof.
  intros [Hnd Hb] d. unfold set. fold d.
  destruct (find_k k (l c)) as [n|] eqn:Hf.
  - destruct (dl n <? now) eqn:Ed.
    + right; right. apply Z.ltb_lt in Ed. split; [right; exists n; now split|]. reflexivity.
    + apply Z.ltb_ge in Ed. destruct (mne o) eqn:Em.
      * left. exists n. repeat split; auto. destruct c; reflexivity.
      * right; left. exists n. repeat split; auto.
        rewrite trim_noop; [reflexivity| |exact Hb]. apply In_keys_find. now exists n.
  - right; right. split; [now left|]. rewrite (erase_absent k (l c)) by now apply find_k_none. reflexivity.
Qed.

(* the four possible effects of a Get *)
Lemma get_cases c k o now : wf c ->
  (find_k k (l c) = None /\ get c k o now = (c, NotFound)) \/
  (exists n, find_k k (l c) = Some n /\ dl n < now /\ get c k o now = (without c k, NotFound)) \/
  (exists n, find_k k (l c) = Some n /\ now <= dl n /\ rag o = true /\ get c k o now = (without c k, Ok (val n))) \/
  (exists n, find_k k (l c) = Some n /\ now <= dl n /\ rag o = false /\
     get c k o now = ({| size := size c; dttl := dttl c;
                         l := trim (size c) ({| key := k; val := val n;
                                                dl := match upd o with Some t => deadline (upd_ttl c t) now | None => dl n end |} :: erase k (l c)) |},
                      Ok (val n))).
Proof.
  intros [Hnd Hb]. unfold get. destruct (find_k k (l c)) as [n|] eqn:Hf.
  - destruct (dl n <? now) eqn:Ed.
    + right; left. apply Z.ltb_lt in Ed. exists n. now repeat split.
    + apply Z.ltb_ge in Ed. destruct (rag o) eqn:Er.
      * right; right; left. exists n. now repeat split.
      * right; right; right. exists n. repeat split; auto.
        rewrite trim_noop; [reflexivity| |exact Hb]. apply In_keys_find. now exists n.
  - left. now split.
Qed.

(* ---------- wf is kept by every step ---------- *)
Lemma wf_erase c k : wf c -> wf (without c k).
Proof.
  intros [Hnd Hb]. split; cbn [without l size].
  - now apply NoDup_keys_erase.
  - pose proof (length_erase k (l c)). lia.
Qed.

Lemma wf_trim sz dt x k l0 : key x = k -> NoDup (keys l0) -> Z.of_nat (length l0) <= Z.max 0 sz ->
  wf {| size := sz; dttl := dt; l := trim sz (x :: erase k l0) |}.
Proof.
  intros Hk Hnd Hb. assert (Hnd1 : NoDup (keys (x :: erase k l0))).
  { cbn [keys map]. rewrite Hk. constructor; [apply not_in_keys_erase|now apply NoDup_keys_erase]. }
  split; cbn [l size]; unfold trim; destruct (sz <? Z.of_nat (length (x :: erase k l0))) eqn:E.
  - rewrite keys_removelast. now apply NoDup_removelast.
  - exact Hnd1.
  - rewrite length_removelast. cbn [length pred]. pose proof (length_erase k l0). lia.
  - apply Z.ltb_ge in E. lia.
Qed.

Theorem step_wf c now o : wf c -> wf (fst (step c now o)).
Proof.
  intros Hwf. pose proof Hwf as [Hnd Hb]. destruct o as [k v so|k go|k|]; cbn [step].
  - destruct (set_cases c k v so now Hwf) as [(n & _ & _ & _ & ->)|[(n & _ & _ & _ & ->)|(_ & ->)]]; cbn [fst]; auto;
      now apply wf_trim.
  - destruct (get_cases c k go now Hwf) as [(_ & ->)|[(n & _ & _ & ->)|[(n & _ & _ & _ & ->)|(n & _ & _ & _ & ->)]]]; cbn [fst]; auto;
      try now apply wf_erase. now apply wf_trim.
  - cbn [fst]. now apply wf_erase.
  - cbn [fst]. split; cbn [clear l size keys map length]; [constructor|lia].
Qed.

Lemma step_cfg c now o : size (fst (step c now o)) = size c /\ dttl (fst (step c now o)) = dttl c.
Proof.
  destruct o as [k v so|k go|k|]; cbn [step fst]; [apply set_cfg|apply get_cfg|split; reflexivity|split; reflexivity].
Qed.

Lemma wf_empty sz dt : wf (empty sz dt).
Proof. split; cbn; [constructor|lia]. Qed.

Lemma run_wf h : forall c, wf c -> wf (fst (run c h)) /\ size (fst (run c h)) = size c /\ dttl (fst (run c h)) = dttl c.
Proof.
  induction h as [|[now o] h IH]; intros c Hwf; cbn [run]; [cbn [fst]; auto|].
  pose proof (step_wf c now o Hwf) as H1. pose proof (step_cfg c now o) as [H2 H3].
  destruct (step c now o) as [c1 r]. cbn [fst] in *. specialize (IH c1 H1). destruct (run c1 h) as [c2 rs]. cbn [fst] in *.
  destruct IH as (Ha & Hb & Hc). split; [exact Ha|]. split; [now rewrite Hb|now rewrite Hc].
Qed.

(* after every history from the empty cache: at most max(0,size) entries, each key once *)
Theorem run_bound sz dt h : wf (fst (run (empty sz dt) h)).
Proof. apply run_wf. apply wf_empty. Qed.

Lemma run_app c h1 h2 : run c (h1 ++ h2) = let '(c1, r1) := run c h1 in let '(c2, r2) := run c1 h2 in (c2, r1 ++ r2).
Proof.
  revert c. induction h1 as [|[now o] h1 IH]; intros c; cbn [run app].
  - destruct (run c h2); reflexivity.
  - destruct (step c now o) as [c1 r]. rewrite IH. destruct (run c1 h1) as [c2 r1]. destruct (run c2 h2) as [c3 r2]. reflexivity.
Qed.

(* ---------- the number of keys retrievable at one instant is at most the number of entries ---------- *)
(* retrievable = view (TTLView): the value a plain Get would return *)
Lemma view_in_keys c k now v : view c k now = Some v -> In k (keys (l c)).
Proof. unfold view. destruct (find_k k (l c)) as [n|] eqn:Hf; [|discriminate]. intros _. apply In_keys_find. now exists n. Qed.

Theorem retrievable_bound c now ks : wf c -> NoDup ks -> (forall k, In k ks -> view c k now <> None) ->
  Z.of_nat (length ks) <= Z.max 0 (size c).
Proof.
  intros [Hnd Hb] Hks Hall. assert (Hincl : incl ks (keys (l c))).
  { intros k Hk. specialize (Hall k Hk). destruct (view c k now) as [v|] eqn:E; [|congruence]. now apply (view_in_keys c k now v). }
  pose proof (NoDup_incl_length Hks Hincl) as Hlen. unfold keys in Hlen. rewrite map_length in Hlen. lia.
Qed.

(* ---------- Remove and Clear at the level of what is retrievable ---------- *)
Theorem remove_gone c k now now' : view (fst (step c now (ORemove k))) k now' = None.
Proof. cbn [step fst]. unfold view, without. cbn [l]. now rewrite find_erase. Qed.

Theorem remove_frame c k k' now now' : k' <> k -> view (fst (step c now (ORemove k))) k' now' = view c k' now'.
Proof. intros Hne. cbn [step fst]. unfold view, without. cbn [l]. now rewrite find_erase_other. Qed.

Theorem clear_gone c k now now' : view (fst (step c now OClear)) k now' = None.
Proof. reflexivity. Qed.

(* an elapsed key is like a key that was never set, for every operation: same result, same resulting cache *)
Theorem expired_like_absent c k now o : expired c k now ->
  match o with OSet k' _ _ | OGet k' _ | ORemove k' => k' = k | OClear => True end ->
  snd (step c now o) = snd (step (without c k) now o) /\ l (fst (step c now o)) = l (fst (step (without c k) now o)).
Proof.
  intros He Hk. destruct o as [k' v so|k' go|k'|]; cbn [step]; try subst k'.
  - rewrite (set_expired_like_absent c k v so now He). now split.
  - destruct (get_expired_like_absent c k go now He) as [-> ->]. now split.
  - cbn [fst snd without l]. split; [reflexivity|]. now rewrite erase_idem.
  - now split.
Qed.
