(* C08 bitmap1024: set algebra and ordered, bounded iteration.
   The property, clause by clause, for every word / bitmap, every n, pos, add, every element type, both directions,
   every value of the sparse threshold.  Statements closed by `exact` only; proofs are in
   C08_Word.v (the two traversals of a word), C08_Iter.v (iterators against the specification),
   C08_More.v (the specification unfolded), C08_Set.v + BitSet.v (the set half), C08_Check.v (case_sound).

   Vocabulary (C08_Spec.v): mem64 w j / mem1024 ws j = "j is a member"; members64 / members1024 = the members in
   ascending order; spec_iter ty rev ms s pos add n = the slice s with the first n elements of ms (reversed when rev)
   written from pos on, each as norm ty (m + add), together with their number - or Panic when they do not fit.
   wfw w = "w < 2^64", wfws ws = "16 such words".  Related statements are bundled (one Print Assumptions costs
   about 0.6 s of every run). *)
From Coq Require Import List Bool ZArith NArith Lia Sorted.
Require Import BitSet C08_Model C08_Spec C08_Word C08_Iter C08_Set C08_More C08_Prog C08_Check.
Import ListNotations.
Open Scope Z_scope.

(* ---- whatever the driver accepts satisfies the monitor ---- *)
Theorem c08_case_sound : forall c, case_accept c = true -> case_holds c = true.
Proof. exact case_sound. Qed.

(* ---- Bit64 iterators: all 5 element types, both directions, both branches, every n / pos / add / slice ---- *)
Theorem c08_iter64_spec : forall ty add rev magic w s pos n, wfw w = true ->
  iter64 ty add rev magic w s pos n = spec_iter ty rev (members64 w) s pos add n.
Proof. exact iter64_spec. Qed.

(* ---- Bit1024 iterators: the chain of 16 words with cursor / left / iterN ---- *)
Theorem c08_iter1024_spec : forall ty rev magic ws s pos add n, wfws ws = true ->
  iter1024 ty rev magic ws s pos add n = spec_iter ty rev (members1024 ws) s pos add n.
Proof. exact iter1024_spec. Qed.

(* ---- the result does not depend on the sparse / dense threshold ---- *)
Theorem c08_magic_independent :
  (forall ty add rev m1 m2 w s pos n, wfw w = true -> iter64 ty add rev m1 w s pos n = iter64 ty add rev m2 w s pos n) /\
  (forall ty rev m1 m2 ws s pos add n, wfws ws = true -> iter1024 ty rev m1 ws s pos add n = iter1024 ty rev m2 ws s pos add n).
Proof. exact (conj iter64_magic_independent iter1024_magic_independent). Qed.

(* TrailingZeros64 / Len64-1 (ctz / N.log2 in the model) return the first set index in ascending / descending order *)
Theorem c08_pick_find : forall rev w, w <> 0%N -> wfb w -> find (N.testbit w) (ord rev) = Some (pick rev w).
Proof. exact pick_find. Qed.

(* ---- the same in the property's own words ---- *)
(* the member lists are strictly ascending and contain exactly the members *)
Theorem c08_members_sorted :
  (forall w, StronglySorted Z.lt (members64 w)) /\ (forall ws, StronglySorted Z.lt (members1024 ws)).
Proof. exact (conj members64_sorted members1024_sorted). Qed.
Theorem c08_members_In :
  (forall w j, In j (members64 w) <-> mem64 w j = true) /\ (forall ws j, In j (members1024 ws) <-> mem1024 ws j = true).
Proof. exact (conj members64_In members1024_In). Qed.

(* with room for k = min(max n 0, Len) elements at pos: returns k, the slice keeps its length and is untouched outside
   [pos, pos+k), and position pos+t holds the t-th member in the chosen direction, plus add, wrapped to the element type *)
Theorem c08_iter64_prop : forall ty add rev magic w s pos n, wfw w = true ->
  let k := Z.min (Z.max n 0) (len64 w) in
  0 <= pos -> pos + k <= Z.of_nat (length s) ->
  exists s', iter64 ty add rev magic w s pos n = Ok s' k
    /\ length s' = length s
    /\ (forall j, (j < Z.to_nat pos \/ Z.to_nat (pos + k) <= j)%nat -> nth j s' 0 = nth j s 0)
    /\ (forall t, (t < Z.to_nat k)%nat -> nth (Z.to_nat pos + t) s' 0 = norm ty (nth t (dirl rev (members64 w)) 0 + add)).
Proof. exact iter64_prop. Qed.
Theorem c08_iter1024_prop : forall ty rev magic ws s pos add n, wfws ws = true ->
  let k := Z.min (Z.max n 0) (len1024 ws) in
  0 <= pos -> pos + k <= Z.of_nat (length s) ->
  exists s', iter1024 ty rev magic ws s pos add n = Ok s' k
    /\ length s' = length s
    /\ (forall j, (j < Z.to_nat pos \/ Z.to_nat (pos + k) <= j)%nat -> nth j s' 0 = nth j s 0)
    /\ (forall t, (t < Z.to_nat k)%nat -> nth (Z.to_nat pos + t) s' 0 = norm ty (nth t (dirl rev (members1024 ws)) 0 + add)).
Proof. exact iter1024_prop. Qed.
(* an iterator panics exactly when something has to be written that does not fit (the slice precondition) *)
Theorem c08_panic_iff :
  (forall ty add rev magic w s pos n, wfw w = true ->
     let k := Z.min (Z.max n 0) (len64 w) in
     iter64 ty add rev magic w s pos n = Panic <-> (0 < k /\ ~ (0 <= pos /\ pos + k <= Z.of_nat (length s)))) /\
  (forall ty rev magic ws s pos add n, wfws ws = true ->
     let k := Z.min (Z.max n 0) (len1024 ws) in
     iter1024 ty rev magic ws s pos add n = Panic <-> (0 < k /\ ~ (0 <= pos /\ pos + k <= Z.of_nat (length s)))).
Proof. exact (conj iter64_panic_iff iter1024_panic_iff). Qed.
(* the fuel of the find-first-set loop is never exhausted *)
Theorem c08_not_out_of_fuel : forall ty rev ms s pos add n, spec_iter ty rev ms s pos add n <> OutOfFuel.
Proof. exact spec_iter_not_out_of_fuel. Qed.

(* ---- GetN wrappers (negative n is rejected: make panics) ---- *)
Theorem c08_getn_spec :
  (forall ty rev magic w n, wfw w = true -> getn64 ty rev magic w n = spec_getn ty rev (members64 w) n) /\
  (forall ty rev magic ws n, wfws ws = true -> getn1024 ty rev magic ws n = spec_getn ty rev (members1024 ws) n).
Proof. exact (conj getn64_spec getn1024_spec). Qed.

(* ---- Len / NLen count members / non-members; Full ---- *)
Theorem c08_len_nlen :
  (forall w, wfw w = true -> len64 w = Z.of_nat (length (members64 w))) /\
  (forall w, wfw w = true -> nlen64 w = count_if (fun j => negb (mem64 w j)) dom64) /\
  (forall w, wfw w = true -> full64 w = Z.eqb (count_if (mem64 w) dom64) 64) /\
  (forall ws, wfws ws = true -> len1024 ws = Z.of_nat (length (members1024 ws))) /\
  (forall ws, wfws ws = true -> nlen1024 ws = Z.of_nat (length (filter (fun j => negb (mem1024 ws j)) dom1024))).
Proof. exact (conj len64_members (conj nlen64_count (conj full64_count (conj len1024_members nlen1024_nonmembers)))). Qed.

(* ---- Set / Unset (int32 and int16 forms, truncating / and %, byte conversion): exactly that index ---- *)
Theorem c08_set_unset_in_range :
  (forall b i j, 0 <= i < 1024 -> member (set_i32 b i) j = (j =? i) || member b j) /\
  (forall b i j, 0 <= i < 1024 -> member (unset_i32 b i) j = negb (j =? i) && member b j).
Proof. exact (conj set_in_range unset_in_range). Qed.
(* ... and every word unchanged when the index is negative or >= 1024 (incl. -63..-1, whose truncated word index is 0) *)
Theorem c08_set_unset_out_of_range :
  (forall b i, ~ (0 <= i < 1024) -> forall k, set_i32 b i k = b k) /\
  (forall b i, ~ (0 <= i < 1024) -> forall k, unset_i32 b i k = b k).
Proof. exact (conj set_out_of_range unset_out_of_range). Qed.
(* the same on the 16-word lists the case files carry, all four methods *)
Theorem c08_point_spec : forall k ws i, same_set (mem1024 (point k ws i)) (point_expect k ws i) dom1024 = true.
Proof. exact point_spec. Qed.

(* ---- And / Or / Reverse / OrThenReverse / Equal ---- *)
Theorem c08_and_or_spec :
  (forall a b j, member (band a b) j = member a j && member b j) /\
  (forall a b j, member (bor a b) j = member a j || member b j).
Proof. exact (conj and_spec or_spec). Qed.
Theorem c08_reverse_spec :
  (forall a j, 0 <= j < 1024 -> member (brev a) j = negb (member a j)) /\
  (forall a j, ~ (0 <= j < 1024) -> member (brev a) j = false) /\
  (forall a b j, 0 <= j < 1024 -> member (bor_rev a b) j = negb (member a j || member b j)).
Proof. exact (conj reverse_spec (conj reverse_outside or_then_reverse_spec)). Qed.
Theorem c08_equal_spec : forall a b, wf a -> wf b ->
  (bequal a b = true <-> forall j, 0 <= j < 1024 -> member a j = member b j).
Proof. exact equal_spec. Qed.
(* the same on 16-word lists *)
Theorem c08_set_algebra_lists :
  (forall k a b, same_set (mem1024 (binop k a b)) (bin_expect k a b) dom1024 = true) /\
  (forall a, same_set (mem1024 (reverse1024 a)) (fun j => negb (mem1024 a j)) dom1024 = true) /\
  (forall a b, wfws a = true -> wfws b = true -> equal1024 a b = same_set (mem1024 a) (mem1024 b) dom1024).
Proof. exact (conj binop_set (conj reverse_set equal1024_spec)). Qed.
(* Bit64's own Set / Unset (byte argument, ignored above 63) / And / Or / Reverse *)
Theorem c08_wordop_spec : forall k w arg, 0 <= arg -> same_set (mem64 (wordop k w arg)) (word_expect k w arg) dom64 = true.
Proof. exact wordop_spec. Qed.

(* ---- results are fresh values: programs over a pool of bitmaps ---- *)
(* for every program (constructors, And/Or/OrThenReverse/Reverse results stored as new members, later Set/Unset of any
   member, every member re-observed after every step) the model's observations are those of independent boolean arrays *)
Theorem c08_prog_sound : forall ops mp sp, Forall2 R mp sp -> prog_ok (mrun ops mp) (srun ops sp) = true.
Proof. exact prog_sound. Qed.
(* in that specification a mutation touches only its target, and producing a result touches no existing member *)
Theorem c08_fresh_values :
  (forall k a i pool c, c <> a -> nth c (sstep (PMut k a i) pool) vfalse = nth c pool vfalse) /\
  (forall o pool c, (forall k a i, o <> PMut k a i) -> (c < length pool)%nat -> nth c (sstep o pool) vfalse = nth c pool vfalse).
Proof. exact (conj sstep_mut_others sstep_new_keeps). Qed.

(* ---- non-vacuity ---- *)
Example c08_demo_iter64 :
  (* word {0, 10}, int8, descending, add 127: 10+127 wraps to -119 *)
  iter64 I8 127 true 9 1025%N [3; 10; 17; 24; 31] 1 5 = Ok [3; -119; 127; 24; 31] 2
  /\ iter64 I8 127 true 0 1025%N [3; 10; 17; 24; 31] 4 5 = Panic
  /\ iter64 I64 0 false 9 1025%N [3; 10; 17] 0 (-1) = Ok [3; 10; 17] 0.
Proof. vm_compute. repeat split. Qed.
Example c08_demo_iter1024 :
  let ws := [9223372036854775809; 1; 0; 0; 0; 0; 0; 0; 0; 0; 0; 0; 0; 0; 0; 9223372036854775808]%N in
  members1024 ws = [0; 63; 64; 1023]
  /\ iter1024 I16 false 9 ws [7; 7; 7; 7; 7] 1 32000 3 = Ok [7; 32000; 32063; 32064; 7] 3
  /\ iter1024 I16 true 0 ws [7; 7; 7; 7; 7] 0 32000 9 = Ok [-32513; 32064; 32063; 32000; 7] 4
  /\ getn1024 I32 true 64 ws 2 = GOk [1023; 64]
  /\ getn1024 I32 true 64 ws (-1) = GPanic
  /\ point PSetI16 ws (-63) = ws /\ len1024 ws = 4.
Proof. vm_compute. repeat split. Qed.

Print Assumptions c08_case_sound.
Print Assumptions c08_iter64_spec.
Print Assumptions c08_iter1024_spec.
Print Assumptions c08_magic_independent.
Print Assumptions c08_pick_find.
Print Assumptions c08_members_sorted.
Print Assumptions c08_members_In.
Print Assumptions c08_iter64_prop.
Print Assumptions c08_iter1024_prop.
Print Assumptions c08_panic_iff.
Print Assumptions c08_not_out_of_fuel.
Print Assumptions c08_getn_spec.
Print Assumptions c08_len_nlen.
Print Assumptions c08_set_unset_in_range.
Print Assumptions c08_set_unset_out_of_range.
Print Assumptions c08_point_spec.
Print Assumptions c08_and_or_spec.
Print Assumptions c08_reverse_spec.
Print Assumptions c08_equal_spec.
Print Assumptions c08_set_algebra_lists.
Print Assumptions c08_wordop_spec.
Print Assumptions c08_prog_sound.
Print Assumptions c08_fresh_values.
Print Assumptions c08_demo_iter64.
Print Assumptions c08_demo_iter1024.
