(* C07: proofs about the snowflake codec model (C07_Model.v) and the monitor (C07_Mon.v) *)
From Coq Require Import ZArith List Lia Bool.
Require Import Cases_Common Decimal Civil BitField Cn C07_Model C07_Mon.
Import ListNotations.
Open Scope Z_scope.

(* ------------------------------------------------------------------ arithmetic helpers *)

Lemma wrap64_id x : - 2 ^ 63 <= x < 2 ^ 63 -> wrap64 x = x.
Proof.
  intros H. unfold wrap64. rewrite Z.mod_small; [lia|].
  change (2 ^ 64) with (2 ^ 63 + 2 ^ 63). lia.
Qed.

Lemma pow2_pos k : 0 <= k -> 0 < 2 ^ k.
Proof. intros. apply Z.pow_pos_nonneg; lia. Qed.

Lemma land_mask x k : 0 <= k -> Z.land x (2 ^ k - 1) = x mod 2 ^ k.
Proof.
  intros Hk. replace (2 ^ k - 1) with (Z.ones k) by (rewrite Z.ones_equiv; lia).
  apply Z.land_ones; lia.
Qed.

(* x / 2^a mod 2^b, scaled back, plus the low part, is the low a+b bits *)
Lemma mod_split x a b : 0 <= a -> 0 <= b ->
  x mod 2 ^ (a + b) = (x / 2 ^ a) mod 2 ^ b * 2 ^ a + x mod 2 ^ a.
Proof.
  intros Ha Hb. rewrite Z.pow_add_r by lia.
  pose proof (pow2_pos a Ha). pose proof (pow2_pos b Hb).
  rewrite Z.rem_mul_r by lia. lia.
Qed.

(* ------------------------------------------------------------------ fields *)

Section Fields.
Variable c : cfg.
Hypothesis Hnb : 0 <= node_bits c.

Let k := time_shift c.
Lemma k_eq : k = node_bits c + 12.
Proof. reflexivity. Qed.

Lemma shifts_nonneg : 0 <= node_shift c /\ 0 <= step_shift c /\ 0 <= time_shift c.
Proof. unfold node_shift, step_shift, time_shift, STEP_BITS. destruct (node_low c); lia. Qed.

Lemma id_fields_arith id :
  id_fields c id = (id / 2 ^ time_shift c, (id / 2 ^ node_shift c) mod 2 ^ node_bits c, (id / 2 ^ step_shift c) mod 2 ^ STEP_BITS).
Proof.
  destruct shifts_nonneg as (H1 & H2 & H3).
  unfold id_fields. rewrite !Z.shiftr_div_pow2 by assumption.
  rewrite !land_mask by (unfold STEP_BITS; lia). reflexivity.
Qed.

(* node and step together are the bits below the timestamp, in either layout *)
Lemma low_bits id :
  (id / 2 ^ node_shift c) mod 2 ^ node_bits c * 2 ^ node_shift c + (id / 2 ^ step_shift c) mod 2 ^ STEP_BITS * 2 ^ step_shift c
  = id mod 2 ^ time_shift c.
Proof.
  unfold node_shift, step_shift, time_shift, STEP_BITS. destruct (node_low c).
  - rewrite (mod_split id (node_bits c) 12) by lia.
    change (2 ^ 0) with 1. rewrite Z.div_1_r. lia.
  - rewrite (Z.add_comm (node_bits c) 12). rewrite (mod_split id 12 (node_bits c)) by lia.
    change (2 ^ 0) with 1. rewrite Z.div_1_r. lia.
Qed.

(* the recombination as arithmetic *)
Lemma compose_arith t n s : 0 <= n < 2 ^ node_bits c -> 0 <= s < 2 ^ STEP_BITS ->
  compose c t n s = t * 2 ^ time_shift c + (n * 2 ^ node_shift c + s * 2 ^ step_shift c).
Proof.
  intros Hn Hs. unfold compose, node_shift, step_shift, time_shift, STEP_BITS in *. destruct (node_low c).
  - rewrite Z.shiftl_0_r. change (2 ^ 0) with 1.
    rewrite <- Z.lor_assoc, (Z.lor_comm n), Z.lor_assoc.
    rewrite (Z.add_comm (node_bits c) 12).
    rewrite (three_fields t s n 12 (node_bits c)) by lia. lia.
  - rewrite Z.shiftl_0_r. change (2 ^ 0) with 1.
    rewrite (three_fields t n s (node_bits c) 12) by lia. lia.
Qed.

Lemma fields_ranges id :
  let '(t, n, s) := id_fields c id in 0 <= n < 2 ^ node_bits c /\ 0 <= s < 2 ^ STEP_BITS.
Proof.
  rewrite id_fields_arith. split; apply Z.mod_pos_bound; apply pow2_pos; unfold STEP_BITS; lia.
Qed.

(* split, then recombine under the same configuration: the id again (every id, also negative ones) *)
Theorem fields_recombine id :
  let '(t, n, s) := id_fields c id in compose c t n s = id.
Proof.
  pose proof (fields_ranges id) as Hr. rewrite id_fields_arith in *. destruct Hr as [Hn Hs].
  rewrite compose_arith by assumption. rewrite low_bits.
  destruct shifts_nonneg as (_ & _ & H3). pose proof (pow2_pos _ H3).
  pose proof (Z.div_mod id (2 ^ time_shift c) ltac:(lia)). lia.
Qed.

(* the timestamp of a non-negative int64 id fits the configured width *)
Lemma time_field_range id : node_bits c + 12 <= 63 -> 0 <= id < 2 ^ 63 ->
  0 <= id / 2 ^ time_shift c < 2 ^ (63 - time_shift c).
Proof.
  intros Hw Hid. destruct shifts_nonneg as (_ & _ & H3). pose proof (pow2_pos _ H3).
  split; [apply Z.div_pos; lia|]. apply Z.div_lt_upper_bound; [lia|].
  rewrite <- Z.pow_add_r by (unfold time_shift, STEP_BITS in *; lia).
  replace (time_shift c + (63 - time_shift c)) with 63 by lia. lia.
Qed.

(* recombine, then split: the same fields (the two maps are inverse bijections) *)
Theorem compose_fields t n s : 0 <= n < 2 ^ node_bits c -> 0 <= s < 2 ^ STEP_BITS ->
  id_fields c (compose c t n s) = (t, n, s).
Proof.
  intros Hn Hs. rewrite id_fields_arith, compose_arith by assumption.
  assert (P12 : 0 < 2 ^ 12) by (apply pow2_pos; lia).
  assert (Pnb : 0 < 2 ^ node_bits c) by (apply pow2_pos; lia).
  unfold node_shift, step_shift, time_shift, STEP_BITS in *. destruct (node_low c).
  - change (2 ^ 0) with 1. rewrite !Z.div_1_r. rewrite Z.pow_add_r by lia.
    f_equal; [f_equal|].
    + rewrite Z.div_add_l by lia. rewrite (Z.div_small (n * 1 + s * 2 ^ node_bits c)) by nia. lia.
    + replace (t * (2 ^ node_bits c * 2 ^ 12) + (n * 1 + s * 2 ^ node_bits c)) with (n + (t * 2 ^ 12 + s) * 2 ^ node_bits c) by ring.
      rewrite Z.mod_add by lia. apply Z.mod_small; lia.
    + replace (t * (2 ^ node_bits c * 2 ^ 12) + (n * 1 + s * 2 ^ node_bits c)) with ((t * 2 ^ 12 + s) * 2 ^ node_bits c + n) by ring.
      rewrite Z.div_add_l by lia. rewrite (Z.div_small n) by lia.
      replace (t * 2 ^ 12 + s + 0) with (s + t * 2 ^ 12) by ring. rewrite Z.mod_add by lia. apply Z.mod_small; lia.
  - change (2 ^ 0) with 1. rewrite !Z.div_1_r. rewrite Z.pow_add_r by lia.
    f_equal; [f_equal|].
    + rewrite Z.div_add_l by lia. rewrite (Z.div_small (n * 2 ^ 12 + s * 1)) by nia. lia.
    + replace (t * (2 ^ node_bits c * 2 ^ 12) + (n * 2 ^ 12 + s * 1)) with ((t * 2 ^ node_bits c + n) * 2 ^ 12 + s) by ring.
      rewrite Z.div_add_l by lia. rewrite (Z.div_small s) by lia.
      replace (t * 2 ^ node_bits c + n + 0) with (n + t * 2 ^ node_bits c) by ring. rewrite Z.mod_add by lia. apply Z.mod_small; lia.
    + replace (t * (2 ^ node_bits c * 2 ^ 12) + (n * 2 ^ 12 + s * 1)) with (s + (t * 2 ^ node_bits c + n) * 2 ^ 12) by ring.
      rewrite Z.mod_add by lia. apply Z.mod_small; lia.
Qed.

(* ------------------------------------------------------------------ order *)

(* what the monitor rebuilds from the node and step fields is id mod 2^timeShift *)
Lemma rest_of_fields id : rest_of c (id_fields c id) = id mod 2 ^ time_shift c.
Proof. rewrite id_fields_arith. unfold rest_of. apply low_bits. Qed.

(* ids order exactly as their (timestamp, remaining bits) pairs *)
Theorem id_order_iso id1 id2 :
  id1 < id2 <->
  (id1 / 2 ^ time_shift c < id2 / 2 ^ time_shift c
   \/ (id1 / 2 ^ time_shift c = id2 / 2 ^ time_shift c /\ id1 mod 2 ^ time_shift c < id2 mod 2 ^ time_shift c)).
Proof.
  destruct shifts_nonneg as (_ & _ & H3). pose proof (pow2_pos _ H3) as Hp.
  pose proof (Z.div_mod id1 (2 ^ time_shift c) ltac:(lia)) as E1.
  pose proof (Z.div_mod id2 (2 ^ time_shift c) ltac:(lia)) as E2.
  pose proof (Z.mod_pos_bound id1 (2 ^ time_shift c) Hp) as B1.
  pose proof (Z.mod_pos_bound id2 (2 ^ time_shift c) Hp) as B2.
  rewrite E1 at 1. rewrite E2 at 1.
  rewrite (Z.mul_comm _ (id1 / _)), (Z.mul_comm _ (id2 / _)).
  apply compose_order; assumption.
Qed.

End Fields.

(* ------------------------------------------------------------------ the 24-character date form *)

(* on a digit string Atoi is the plain digit loop *)
Lemma parse_atoi l n : parse l = Some n -> atoi l = Some n.
Proof.
  destruct l as [|ch r]; [discriminate|]. unfold parse, atoi. intros H.
  assert (D : is_digit ch = true).
  { cbn [parse_acc] in H. destruct (is_digit ch); [reflexivity|discriminate]. }
  unfold is_digit in D. apply andb_prop in D as [D1 _]. apply Z.leb_le in D1.
  replace (ch =? 45) with false by (symmetry; apply Z.eqb_neq; lia).
  replace (ch =? 43) with false by (symmetry; apply Z.eqb_neq; lia).
  exact H.
Qed.

Lemma atoi_fmtk k n : (1 <= k <= 20)%nat -> 0 <= n < 10 ^ Z.of_nat k -> atoi (fmtk k n) = Some n.
Proof. intros Hk Hn. apply parse_atoi, fmtk_parse; assumption. Qed.

(* the calendar year is monotone in the day number: four-digit years are exactly the days of 0000-01-01 .. 9999-12-31 *)
Lemma days_from_year_10000 y m d : 1 <= m <= 12 -> 1 <= d <= 31 -> 10000 <= y -> 2932897 <= days_from_civil y m d.
Proof.
  intros Hm Hd Hy. unfold days_from_civil, doe_of, adj.
  destruct (m <=? 2) eqn:E1; destruct (2 <? m) eqn:E2;
    (apply Z.leb_le in E1 || apply Z.leb_gt in E1); (apply Z.ltb_lt in E2 || apply Z.ltb_ge in E2); try lia;
    Z.div_mod_to_equations; lia.
Qed.
Lemma days_before_year_0 y m d : 1 <= m <= 12 -> 1 <= d <= 31 -> y <= -1 -> days_from_civil y m d < -719528.
Proof.
  intros Hm Hd Hy. unfold days_from_civil, doe_of, adj.
  destruct (m <=? 2) eqn:E1; destruct (2 <? m) eqn:E2;
    (apply Z.leb_le in E1 || apply Z.leb_gt in E1); (apply Z.ltb_lt in E2 || apply Z.ltb_ge in E2); try lia;
    Z.div_mod_to_equations; lia.
Qed.

Lemma year_bound z : -719528 <= z < 2932897 -> let '(y, _, _) := civil_from_days z in 0 <= y < 10000.
Proof.
  intros Hz. pose proof (civil_roundtrip z) as H. destruct (civil_from_days z) as [[y m] d].
  destruct H as (Hd & Hm & Hdd).
  destruct (Z_lt_ge_dec y 0) as [Hneg|Hnn].
  { pose proof (days_before_year_0 y m d Hm Hdd ltac:(lia)). lia. }
  destruct (Z_lt_ge_dec y 10000) as [Hlt|Hge]; [lia|].
  pose proof (days_from_year_10000 y m d Hm Hdd ltac:(lia)). lia.
Qed.

(* CnStyle then FromChStyle: 24 characters, and the identical id back.  Every layout with at most 23 bits below the
   timestamp (2^23 < 10^7: the seven digits hold them), every epoch >= 1970, every non-negative id whose local
   calendar year still has four digits. *)
Theorem cn_roundtrip c id :
  0 <= node_bits c <= 11 -> 0 <= epoch c -> 0 <= id < 2 ^ 63 ->
  Z.shiftr id (time_shift c) + epoch c + OFF < Y10K ->
  length (cn_style c id) = 24%nat /\ from_ch c (cn_style c id) = Ok id.
Proof.
  intros Hnb Hep Hid Hy.
  set (shift := time_shift c) in *.
  assert (Hs : 0 <= shift <= 23) by (unfold shift, time_shift, STEP_BITS; lia).
  assert (Hp : 0 < 2 ^ shift) by (apply pow2_pos; lia).
  assert (Hsr : 0 <= Z.shiftr id shift) by (rewrite Z.shiftr_div_pow2 by lia; apply Z.div_pos; lia).
  unfold cn_style, Cn.cn_style. fold shift.
  set (ms := Z.shiftr id shift + epoch c) in *. set (loc := ms + OFF) in *.
  assert (Hz : -719528 <= loc / DAY < 2932897).
  { unfold DAY. split.
    - apply Z.le_trans with 0; [lia|]. apply Z.div_pos; unfold loc, ms, OFF; lia.
    - apply Z.div_lt_upper_bound; [lia|]. unfold Y10K in Hy. lia. }
  pose proof (year_bound _ Hz) as Hyear.
  pose proof (civil_roundtrip (loc / DAY)) as Hc. destruct (civil_from_days (loc / DAY)) as [[y m] d]. destruct Hc as (Hdays & Hm & Hd).
  set (r := loc mod DAY). assert (Hr : 0 <= r < DAY) by (apply Z.mod_pos_bound; unfold DAY; lia). unfold DAY in Hr.
  set (lft := Z.land id (2 ^ shift - 1)).
  assert (Hleft : lft = id mod 2 ^ shift) by (unfold lft; apply land_mask; lia).
  assert (Hl2 : 0 <= lft < 2 ^ shift) by (rewrite Hleft; apply Z.mod_pos_bound; lia).
  assert (Hl7 : 0 <= lft < 10 ^ Z.of_nat 7).
  { split; [lia|]. apply Z.lt_le_trans with (2 ^ shift); [lia|]. apply Z.le_trans with (2 ^ 23); [apply Z.pow_le_mono_r; lia|]. cbn. lia. }
  assert (B4 : 0 <= y < 10 ^ Z.of_nat 4) by (cbn; lia).
  assert (B2m : 0 <= m < 10 ^ Z.of_nat 2) by (cbn; lia).
  assert (B2d : 0 <= d < 10 ^ Z.of_nat 2) by (cbn; lia).
  assert (B2h : 0 <= r / 3600000 < 10 ^ Z.of_nat 2) by (cbn; split; [apply Z.div_pos; lia|apply Z.div_lt_upper_bound; lia]).
  assert (B2i : 0 <= r / 60000 mod 60 < 10 ^ Z.of_nat 2) by (cbn; pose proof (Z.mod_pos_bound (r / 60000) 60 ltac:(lia)); lia).
  assert (B2s : 0 <= r / 1000 mod 60 < 10 ^ Z.of_nat 2) by (cbn; pose proof (Z.mod_pos_bound (r / 1000) 60 ltac:(lia)); lia).
  assert (B3 : 0 <= r mod 1000 < 10 ^ Z.of_nat 3) by (cbn; pose proof (Z.mod_pos_bound r 1000 ltac:(lia)); lia).
  split.
  { rewrite !app_length, (fmtk_length 4 y), !(fmtk_length 2), (fmtk_length 3), (fmtk_length 7) by (assumption || lia). reflexivity. }
  unfold from_ch. fold shift.
  rewrite !app_length, (fmtk_length 4 y), !(fmtk_length 2), (fmtk_length 3), (fmtk_length 7) by (assumption || lia).
  cbn [Nat.add Nat.eqb negb].
  rewrite (cut_app 4) by (apply fmtk_length; [lia|exact B4]).
  rewrite (cut_app 2) by (apply fmtk_length; [lia|exact B2m]).
  rewrite (cut_app 2) by (apply fmtk_length; [lia|exact B2d]).
  rewrite (cut_app 2) by (apply fmtk_length; [lia|exact B2h]).
  rewrite (cut_app 2) by (apply fmtk_length; [lia|exact B2i]).
  rewrite (cut_app 2) by (apply fmtk_length; [lia|exact B2s]).
  rewrite (cut_app 3) by (apply fmtk_length; [lia|exact B3]).
  rewrite (atoi_fmtk 4 y), (atoi_fmtk 2 m), (atoi_fmtk 2 d), (atoi_fmtk 2 (r / 3600000)), (atoi_fmtk 2 (r / 60000 mod 60)),
          (atoi_fmtk 2 (r / 1000 mod 60)), (atoi_fmtk 3 (r mod 1000)), (atoi_fmtk 7 lft) by (assumption || lia).
  cbv zeta. f_equal.
  (* time.Date's month normalisation does nothing for 1 <= m <= 12 *)
  rewrite (Z.div_small (m - 1) 12), (Z.mod_small (m - 1) 12) by lia.
  replace (y + 0) with y by lia. replace (m - 1 + 1) with m by lia.
  rewrite Hdays.
  (* the clock fields put the millisecond of the day back together *)
  assert (Ht : loc / DAY * DAY + r / 3600000 * 3600000 + r / 60000 mod 60 * 60000 + r / 1000 mod 60 * 1000 + r mod 1000 - OFF = ms).
  { assert (Er : r / 3600000 * 3600000 + r / 60000 mod 60 * 60000 + r / 1000 mod 60 * 1000 + r mod 1000 = r).
    { clear -Hr. Z.div_mod_to_equations. lia. }
    pose proof (Z.div_mod loc DAY ltac:(unfold DAY; lia)) as Hdm. fold r in Hdm. unfold loc in *. lia. }
  rewrite Ht. unfold ms. replace (Z.shiftr id shift + epoch c - epoch c) with (Z.shiftr id shift) by lia.
  rewrite Z.shiftr_div_pow2 by lia.
  pose proof (Z.div_mod id (2 ^ shift) ltac:(lia)) as Hdm.
  pose proof (Z.mod_pos_bound id (2 ^ shift) Hp) as Hmb.
  assert (Hq : 0 <= id / 2 ^ shift) by (apply Z.div_pos; lia).
  rewrite (wrap64_id (id / 2 ^ shift)) by nia.
  rewrite Z.shiftl_mul_pow2 by lia.
  rewrite (wrap64_id (id / 2 ^ shift * 2 ^ shift)) by nia.
  rewrite <- Z.shiftl_mul_pow2 by lia.
  rewrite (lor_shiftl_small (id / 2 ^ shift) shift lft) by lia.
  rewrite Hleft. lia.
Qed.

(* ------------------------------------------------------------------ time ranges *)

Lemma div_ge_iff x p B : 0 < p -> (B * p <= x <-> B <= x / p).
Proof.
  intros Hp. split; intros H.
  - apply Z.div_le_lower_bound; lia.
  - pose proof (Z.mul_div_le x p Hp). nia.
Qed.
Lemma div_le_iff x p E : 0 < p -> (x <= E * p + p - 1 <-> x / p <= E).
Proof.
  intros Hp. split; intros H.
  - assert (x / p < E + 1); [|lia]. apply Z.div_lt_upper_bound; lia.
  - pose proof (Z.div_mod x p ltac:(lia)). pose proof (Z.mod_pos_bound x p Hp). nia.
Qed.

Section Ranges.
Variable c : cfg.
Hypothesis Hnb : 0 <= node_bits c.
Hypothesis Hw : node_bits c + 12 <= 63.

Lemma k_range : 0 <= time_shift c <= 63.
Proof. unfold time_shift, STEP_BITS. lia. Qed.

(* the timestamp IDParse reports: ms since 1970 *)
Lemma id_parse_time id : fst (fst (id_parse c id)) = id / 2 ^ time_shift c + epoch c.
Proof. unfold id_parse. rewrite (id_fields_arith c Hnb). reflexivity. Qed.

Lemma fits_spec off : fits c off = true <-> - 2 ^ (63 - time_shift c) <= off < 2 ^ (63 - time_shift c).
Proof.
  unfold fits. rewrite andb_true_iff, Z.leb_le, Z.ltb_lt. reflexivity.
Qed.

Lemma fits_u_spec off : fits_u c off = true <-> 0 <= off < 2 ^ (63 - time_shift c).
Proof. unfold fits_u. rewrite andb_true_iff, Z.leb_le, Z.ltb_lt. reflexivity. Qed.
Lemma fits_u_fits off : fits_u c off = true -> fits c off = true.
Proof.
  rewrite fits_u_spec, fits_spec. intros H. pose proof k_range.
  assert (0 < 2 ^ (63 - time_shift c)) by (apply pow2_pos; lia). lia.
Qed.
Lemma in_dom_intro x : 0 <= x < 2 ^ 63 -> in_dom x = true.
Proof. intros H. unfold in_dom. rewrite andb_true_iff, Z.leb_le, Z.ltb_lt. exact H. Qed.

(* within the timestamp width neither the subtraction nor the shift wraps *)
Lemma shifted_exact off : fits c off = true ->
  wrap64 (Z.shiftl (wrap64 off) (time_shift c)) = off * 2 ^ time_shift c.
Proof.
  intros Hf. apply fits_spec in Hf. pose proof k_range as Hk.
  assert (Hp : 0 < 2 ^ time_shift c) by (apply pow2_pos; lia).
  assert (Hq : 0 < 2 ^ (63 - time_shift c)) by (apply pow2_pos; lia).
  assert (E : 2 ^ (63 - time_shift c) * 2 ^ time_shift c = 2 ^ 63).
  { rewrite <- Z.pow_add_r by lia. f_equal. lia. }
  rewrite (wrap64_id off) by nia.
  rewrite Z.shiftl_mul_pow2 by lia. apply wrap64_id. nia.
Qed.

Theorem between_exact b e :
  fits c (unix_s b * 1000 - epoch c) = true -> fits c (unix_s e * 1000 - epoch c) = true ->
  time_between_id c b e =
  ((unix_s b * 1000 - epoch c) * 2 ^ time_shift c, (unix_s e * 1000 - epoch c) * 2 ^ time_shift c + 2 ^ time_shift c - 1).
Proof.
  intros Hb He. pose proof k_range as Hk.
  assert (Hp : 0 < 2 ^ time_shift c) by (apply pow2_pos; lia).
  unfold time_between_id. rewrite (shifted_exact _ Hb), (shifted_exact _ He).
  f_equal. rewrite <- Z.shiftl_mul_pow2 by lia.
  rewrite lor_shiftl_small by lia. rewrite Z.shiftl_mul_pow2 by lia. lia.
Qed.

Lemma range_is_between t : time_id_range c t = time_between_id c t t.
Proof. reflexivity. Qed.

(* an id lies in the computed interval exactly when its timestamp lies between the second-truncated endpoints *)
Theorem between_iff b e id :
  fits c (unix_s b * 1000 - epoch c) = true -> fits c (unix_s e * 1000 - epoch c) = true ->
  let '(mn, mx) := time_between_id c b e in
  (mn <= id <= mx <-> unix_s b * 1000 <= id / 2 ^ time_shift c + epoch c <= unix_s e * 1000).
Proof.
  intros Hb He. rewrite (between_exact b e Hb He). pose proof k_range as Hk.
  assert (Hp : 0 < 2 ^ time_shift c) by (apply pow2_pos; lia).
  pose proof (div_ge_iff id _ (unix_s b * 1000 - epoch c) Hp) as H1.
  pose proof (div_le_iff id _ (unix_s e * 1000 - epoch c) Hp) as H2.
  lia.
Qed.

(* what the monitor checks on the four extreme ids decides the clause, as the property words it, for every
   non-negative id *)
Theorem range_monitor_adequate bs es mn mx :
  fits_u c (bs - epoch c) = true -> epoch c <= es -> holds_bounds c bs es mn mx = true ->
  forall id, 0 <= id < 2 ^ 63 ->
    (bs <= id / 2 ^ time_shift c + epoch c <= es -> mn <= id <= mx) /\
    (id / 2 ^ time_shift c + epoch c < bs \/ es + 1000 <= id / 2 ^ time_shift c + epoch c -> ~ (mn <= id <= mx)).
Proof.
  unfold holds_bounds. intros Hfb Hes H id Hid. pose proof k_range as Hk. apply fits_u_spec in Hfb.
  assert (Hp : 0 < 2 ^ time_shift c) by (apply pow2_pos; lia).
  assert (E : 2 ^ (63 - time_shift c) * 2 ^ time_shift c = 2 ^ 63).
  { rewrite <- Z.pow_add_r by lia. f_equal. lia. }
  rewrite !andb_true_iff, !Z.leb_le in H.
  destruct H as (((((A1 & A2) & A3) & A4) & A5) & A6).
  pose proof (div_ge_iff id _ (bs - epoch c) Hp) as H1.
  pose proof (div_le_iff id _ (es - epoch c) Hp) as H2.
  pose proof (div_ge_iff id _ (es + 1000 - epoch c) Hp) as H3.
  split; intros Ht; [lia|]. destruct Ht as [Ht|Ht].
  - assert (Hlt : id <= (bs - epoch c) * 2 ^ time_shift c - 1) by lia.
    rewrite in_dom_intro in A5 by nia. apply Z.ltb_lt in A5. lia.
  - assert (Hge : (es + 1000 - epoch c) * 2 ^ time_shift c <= id) by lia.
    rewrite in_dom_intro in A6 by nia. apply Z.ltb_lt in A6. lia.
Qed.

(* the model's interval passes the monitor's boundary test *)
Lemma between_holds_bounds b e : b <= e ->
  fits c (unix_s b * 1000 - epoch c) = true -> fits c (unix_s e * 1000 - epoch c) = true ->
  let '(mn, mx) := time_between_id c b e in holds_bounds c (unix_s b * 1000) (unix_s e * 1000) mn mx = true.
Proof.
  intros Hbe Hb He. rewrite (between_exact b e Hb He). pose proof k_range as Hk.
  assert (Hp : 0 < 2 ^ time_shift c) by (apply pow2_pos; lia).
  assert (Hs : unix_s b <= unix_s e) by (unfold unix_s; apply Z.div_le_mono; lia).
  unfold holds_bounds. rewrite !andb_true_iff, !Z.leb_le.
  repeat split; try nia.
  - destruct (in_dom _); [apply Z.ltb_lt; lia|reflexivity].
  - destruct (in_dom _); [apply Z.ltb_lt; nia|reflexivity].
Qed.

End Ranges.

(* ------------------------------------------------------------------ accept implies holds *)

Lemma z3_eqb_eq a b : z3_eqb a b = true -> a = b.
Proof.
  destruct a as [[a1 a2] a3], b as [[b1 b2] b3]. unfold z3_eqb.
  rewrite !andb_true_iff, !Z.eqb_eq. intros [[-> ->] ->]. reflexivity.
Qed.
Lemma res_eqb_eq a b : res_eqb a b = true -> a = b.
Proof. destruct a, b; cbn; try discriminate; try reflexivity. intros H. apply Z.eqb_eq in H. now subst. Qed.
Lemma eqb_iff_intro b1 b2 : (b1 = true <-> b2 = true) -> Bool.eqb b1 b2 = true.
Proof. destruct b1, b2; cbn; intros [H1 H2]; auto; try (symmetry; auto). Qed.

Lemma valid_cfg_spec c : valid_cfg c = true ->
  (node_bits c = 8 \/ node_bits c = 9 \/ node_bits c = 10) /\ Y2000 <= epoch c < 2 ^ 62.
Proof.
  unfold valid_cfg. rewrite !andb_true_iff, !orb_true_iff, !Z.eqb_eq, Z.leb_le, Z.ltb_lt. tauto.
Qed.
Lemma in_dom_spec id : in_dom id = true -> 0 <= id < 2 ^ 63.
Proof. unfold in_dom. rewrite andb_true_iff, Z.leb_le, Z.ltb_lt. tauto. Qed.

Lemma model_holds_fields c id : valid_cfg c = true -> in_dom id = true ->
  holds_fields c id (id_fields c id) (id_parse c id) (id_parse_ex c id) = true.
Proof.
  intros Hv Hd. apply valid_cfg_spec in Hv as [Hnb Hep]. apply in_dom_spec in Hd.
  assert (Hnb0 : 0 <= node_bits c) by lia. assert (Hw : node_bits c + 12 <= 63) by lia.
  pose proof (fields_recombine c Hnb0 id) as R. pose proof (fields_ranges c Hnb0 id) as Rg.
  pose proof (time_field_range c Hnb0 id Hw Hd) as Tr.
  unfold id_parse_ex, id_parse. rewrite (id_fields_arith c Hnb0) in *. destruct Rg as [Rn Rs].
  unfold holds_fields. rewrite R.
  rewrite !andb_true_iff, !Z.leb_le, !Z.ltb_lt, !Z.eqb_eq.
  repeat split; try reflexivity; lia.
Qed.

Lemma model_holds_order c id1 id2 : 0 <= node_bits c ->
  holds_order c id1 id2 (id_fields c id1) (id_fields c id2) = true.
Proof.
  intros Hnb. unfold holds_order. rewrite !(rest_of_fields c Hnb). rewrite !(id_fields_arith c Hnb). cbn [fst snd].
  apply eqb_iff_intro. unfold lex_ltb. cbn [fst snd].
  rewrite orb_true_iff, andb_true_iff, !Z.ltb_lt, Z.eqb_eq. apply (id_order_iso c Hnb).
Qed.

Lemma model_holds_cn c id : valid_cfg c = true -> in_dom id = true ->
  Z.shiftr id (time_shift c) + epoch c + OFF < Y10K ->
  holds_cn id (cn_style c id) (from_ch c (cn_style c id)) = true.
Proof.
  intros Hv Hd Hy. apply valid_cfg_spec in Hv as [Hnb Hep]. apply in_dom_spec in Hd.
  destruct (cn_roundtrip c id) as [Hl Hr]; try assumption; try (unfold Y2000 in Hep; lia).
  unfold holds_cn. rewrite Hl, Hr. unfold res_eqb. rewrite (Z.eqb_refl id). reflexivity.
Qed.

Lemma model_holds_between c b e ps : valid_cfg c = true -> probes_match c ps = true ->
  let '(mn, mx) := time_between_id c b e in holds_between c b e mn mx ps = true.
Proof.
  intros Hv Hps. apply valid_cfg_spec in Hv as [Hnb Hep].
  assert (Hnb0 : 0 <= node_bits c) by lia. assert (Hw : node_bits c + 12 <= 63) by lia.
  destruct (time_between_id c b e) as [mn mx] eqn:Eb. unfold holds_between.
  destruct ((b <=? e) && fits_u c (unix_s b * 1000 - epoch c) && fits_u c (unix_s e * 1000 - epoch c)) eqn:G; [|reflexivity].
  rewrite !andb_true_iff in G. destruct G as [[Hbe Hfb] Hfe]. apply Z.leb_le in Hbe.
  apply (fits_u_fits c Hnb0 Hw) in Hfb, Hfe.
  apply andb_true_intro. split.
  - pose proof (between_holds_bounds c Hnb0 Hw b e Hbe Hfb Hfe) as H. rewrite Eb in H. exact H.
  - unfold holds_probes. unfold probes_match in Hps. rewrite forallb_forall in *. intros [id ts] Hin.
    specialize (Hps _ Hin). cbn [fst snd] in Hps.
    pose proof (id_parse_time c Hnb0 id) as Hpt. destruct (id_parse c id) as [[t n] s]. cbn [fst] in Hpt.
    apply Z.eqb_eq in Hps. subst t. subst ts.
    destruct (in_dom id); [|reflexivity].
    pose proof (between_iff c Hnb0 Hw b e id Hfb Hfe) as H. rewrite Eb in H. cbv zeta.
    destruct ((mn <=? id) && (id <=? mx)) eqn:Ein.
    + rewrite andb_true_iff, !Z.leb_le in Ein. apply H in Ein.
      replace ((id / 2 ^ time_shift c + epoch c <? unix_s b * 1000) || (unix_s e * 1000 + 1000 <=? id / 2 ^ time_shift c + epoch c)) with false.
      * now destruct ((unix_s b * 1000 <=? id / 2 ^ time_shift c + epoch c) && (id / 2 ^ time_shift c + epoch c <=? unix_s e * 1000)).
      * symmetry. apply orb_false_iff. split; [apply Z.ltb_ge|apply Z.leb_gt]; lia.
    + replace ((unix_s b * 1000 <=? id / 2 ^ time_shift c + epoch c) && (id / 2 ^ time_shift c + epoch c <=? unix_s e * 1000)) with false.
      * now destruct ((id / 2 ^ time_shift c + epoch c <? unix_s b * 1000) || (unix_s e * 1000 + 1000 <=? id / 2 ^ time_shift c + epoch c)).
      * symmetry. apply not_true_is_false. intros Hc. rewrite andb_true_iff, !Z.leb_le in Hc. apply H in Hc.
        rewrite <- !Z.leb_le, <- andb_true_iff in Hc. congruence.
Qed.

(* ------------------------------------------------------------------ Setup *)

(* every layout Setup can configure *)
Definition layout_ok (c : cfg) : Prop := node_bits c = 8 \/ node_bits c = 9 \/ node_bits c = 10.

Lemma layout_okb_spec c : layout_okb c = true <-> layout_ok c.
Proof. unfold layout_okb, layout_ok. rewrite !orb_true_iff, !Z.eqb_eq. tauto. Qed.

Lemma apply_opt_layout c o : layout_ok c -> layout_ok (apply_opt c o).
Proof.
  unfold layout_ok. intros H. destruct o as [ns|m|]; cbn [apply_opt node_bits]; try exact H.
  destruct (m =? 8) eqn:E8; [apply Z.eqb_eq in E8; cbn [orb]; lia|].
  destruct (m =? 9) eqn:E9; [apply Z.eqb_eq in E9; cbn [orb]; lia|]. cbn [orb]. lia.
Qed.

(* whatever the options, Setup leaves one of the three layouts the theorems are stated for *)
Theorem setup_from_layout opts : forall cur, layout_ok cur -> layout_ok (setup_from cur opts).
Proof.
  unfold setup_from. induction opts as [|o opts IH]; intros cur H; cbn [fold_left]; [exact H|].
  apply IH, apply_opt_layout, H.
Qed.
Theorem setup_layout opts : layout_ok (setup opts).
Proof. apply setup_from_layout. unfold layout_ok. cbn. lia. Qed.

(* the epoch is the last UseEpoch instant floored to the millisecond (else the previous one); a well-formed start and
   well-formed epoch options give a configuration of the property's quantifier, so every theorem above applies *)
Definition opt_ok (o : opt) : Prop :=
  match o with OEpoch ns => Y2000 <= ns / 1000000 < 2 ^ 62 | _ => True end.
Theorem setup_from_valid opts : forall cur, valid_cfg cur = true -> Forall opt_ok opts ->
  valid_cfg (setup_from cur opts) = true.
Proof.
  unfold setup_from. induction opts as [|o opts IH]; intros cur H Hf; cbn [fold_left]; [exact H|].
  inversion Hf as [|? ? Ho Hf']; subst. apply IH; [|exact Hf'].
  pose proof (valid_cfg_spec cur H) as [Hl He].
  pose proof (apply_opt_layout cur o Hl) as Hl'. unfold layout_ok in Hl'.
  unfold valid_cfg. rewrite !andb_true_iff, !orb_true_iff, !Z.eqb_eq, Z.leb_le, Z.ltb_lt.
  split; [split; [tauto|]|]; destruct o; cbn [apply_opt epoch opt_ok] in *; lia.
Qed.

(* NodeAtLowest can only switch on, UseNodeMode and UseEpoch: the last one wins *)
Theorem setup_from_app cur o1 o2 : setup_from cur (o1 ++ o2) = setup_from (setup_from cur o1) o2.
Proof. unfold setup_from. apply fold_left_app. Qed.
Theorem setup_lowest_sticky opts : forall cur, node_low cur = true -> node_low (setup_from cur opts) = true.
Proof.
  unfold setup_from. induction opts as [|o opts IH]; intros cur H; cbn [fold_left]; [exact H|].
  apply IH. destruct o; cbn [apply_opt node_low]; auto.
Qed.

Lemma all_ones_node c : layout_ok c -> holds_setup (id_fields c (-1)) = true.
Proof.
  destruct c as [e nb low]. unfold layout_ok. cbn [node_bits]. intros [ -> | [ -> | -> ] ]; destruct low; vm_compute; reflexivity.
Qed.

Theorem accept_sound : forall k, case_accept k = true -> case_holds k = true.
Proof.
  intros [c id f p x|c id1 id2 f1 f2|c id s r|c s r|c t mn mx ps|c b e mn mx ps|cur opts p0 fm f1|ms off]; cbn [case_accept case_holds]; intros Ha.
  - destruct (valid_cfg c && in_dom id) eqn:G; [|reflexivity]. apply andb_prop in G as [Hv Hd].
    rewrite !andb_true_iff in Ha. destruct Ha as [[Hf Hp] Hx].
    apply z3_eqb_eq in Hf, Hp, Hx. subst. apply model_holds_fields; assumption.
  - destruct (valid_cfg c && in_dom id1 && in_dom id2) eqn:G; [|reflexivity].
    rewrite !andb_true_iff in G. destruct G as [[Hv _] _]. apply valid_cfg_spec in Hv as [Hnb _].
    rewrite !andb_true_iff in Ha. destruct Ha as [H1 H2]. apply z3_eqb_eq in H1, H2. subst.
    apply model_holds_order. lia.
  - destruct (valid_cfg c && in_dom id && (Z.shiftr id (time_shift c) + epoch c + OFF <? Y10K)) eqn:G; [|reflexivity].
    rewrite !andb_true_iff in G. destruct G as [[Hv Hd] Hy]. apply Z.ltb_lt in Hy.
    rewrite andb_true_iff in Ha. destruct Ha as [Hs Hr]. apply zlist_eqb_eq in Hs. subst s. apply res_eqb_eq in Hr. subst r.
    apply model_holds_cn; assumption.
  - reflexivity.
  - destruct (valid_cfg c) eqn:Hv; [|reflexivity].
    rewrite range_is_between in Ha.
    pose proof (model_holds_between c t t ps Hv) as H. destruct (time_between_id c t t) as [a b'].
    rewrite !andb_true_iff in Ha. destruct Ha as [[Hmn Hmx] Hps]. apply Z.eqb_eq in Hmn, Hmx. subst. apply H. exact Hps.
  - destruct (valid_cfg c) eqn:Hv; [|reflexivity].
    pose proof (model_holds_between c b e ps Hv) as H. destruct (time_between_id c b e) as [a b'].
    rewrite !andb_true_iff in Ha. destruct Ha as [[Hmn Hmx] Hps]. apply Z.eqb_eq in Hmn, Hmx. subst. apply H. exact Hps.
  - destruct (layout_okb cur) eqn:Hl; [|reflexivity]. apply layout_okb_spec in Hl.
    cbv zeta in Ha. rewrite !andb_true_iff in Ha. destruct Ha as [[_ Hm] _]. apply z3_eqb_eq in Hm. subst fm.
    apply all_ones_node, setup_from_layout, Hl.
  - reflexivity.
Qed.

(* ------------------------------------------------------------------ the clauses as the property words them *)


Theorem split_recombine c id : layout_ok c -> 0 <= id < 2 ^ 63 ->
  let '(t, n, s) := id_fields c id in
  compose c t n s = id /\ 0 <= t < 2 ^ (63 - time_shift c) /\ 0 <= n < 2 ^ node_bits c /\ 0 <= s < 2 ^ STEP_BITS.
Proof.
  intros Hl Hid. unfold layout_ok in Hl.
  assert (Hnb0 : 0 <= node_bits c) by lia. assert (Hw : node_bits c + 12 <= 63) by lia.
  pose proof (fields_recombine c Hnb0 id) as R. pose proof (fields_ranges c Hnb0 id) as Rg.
  pose proof (time_field_range c Hnb0 id Hw Hid) as Tr.
  rewrite (id_fields_arith c Hnb0) in *. tauto.
Qed.

(* the order of ids, stated on the fields the splitter returns *)
Theorem order_by_fields c id1 id2 : layout_ok c ->
  (id1 < id2 <->
   let f1 := id_fields c id1 in let f2 := id_fields c id2 in
   fst (fst f1) < fst (fst f2) \/ (fst (fst f1) = fst (fst f2) /\ rest_of c f1 < rest_of c f2)).
Proof.
  intros Hl. unfold layout_ok in Hl. assert (Hnb0 : 0 <= node_bits c) by lia.
  cbv zeta. rewrite !(rest_of_fields c Hnb0), !(id_fields_arith c Hnb0). cbn [fst snd].
  apply (id_order_iso c Hnb0).
Qed.

Theorem date_form_roundtrip c id : layout_ok c -> Y2000 <= epoch c -> 0 <= id < 2 ^ 63 ->
  Z.shiftr id (time_shift c) + epoch c + OFF < Y10K ->
  length (cn_style c id) = 24%nat /\ from_ch c (cn_style c id) = Ok id.
Proof.
  intros Hl Hep Hid Hy. unfold layout_ok in Hl. apply cn_roundtrip; try assumption; unfold Y2000 in Hep; lia.
Qed.

(* TimeBetweenID: contains every id whose timestamp lies between the second-truncated endpoints ... *)
Theorem between_complete c b e id : layout_ok c ->
  fits c (unix_s b * 1000 - epoch c) = true -> fits c (unix_s e * 1000 - epoch c) = true ->
  unix_s b * 1000 <= fst (fst (id_parse c id)) <= unix_s e * 1000 ->
  fst (time_between_id c b e) <= id <= snd (time_between_id c b e).
Proof.
  intros Hl Hb He Ht. unfold layout_ok in Hl.
  assert (Hnb0 : 0 <= node_bits c) by lia. assert (Hw : node_bits c + 12 <= 63) by lia.
  rewrite (id_parse_time c Hnb0) in Ht.
  pose proof (between_iff c Hnb0 Hw b e id Hb He) as H. destruct (time_between_id c b e) as [mn mx]. cbn [fst snd]. tauto.
Qed.

(* ... and no id whose timestamp lies before the first endpoint's second or after the last endpoint's *)
Theorem between_sound c b e id : layout_ok c ->
  fits c (unix_s b * 1000 - epoch c) = true -> fits c (unix_s e * 1000 - epoch c) = true ->
  fst (fst (id_parse c id)) < unix_s b * 1000 \/ unix_s e * 1000 < fst (fst (id_parse c id)) ->
  ~ (fst (time_between_id c b e) <= id <= snd (time_between_id c b e)).
Proof.
  intros Hl Hb He Ht. unfold layout_ok in Hl.
  assert (Hnb0 : 0 <= node_bits c) by lia. assert (Hw : node_bits c + 12 <= 63) by lia.
  rewrite (id_parse_time c Hnb0) in Ht.
  pose proof (between_iff c Hnb0 Hw b e id Hb He) as H. destruct (time_between_id c b e) as [mn mx]. cbn [fst snd]. lia.
Qed.

(* TimeIDRange is the interval of one second *)
Theorem range_iff c t id : layout_ok c -> fits c (unix_s t * 1000 - epoch c) = true ->
  (fst (time_id_range c t) <= id <= snd (time_id_range c t) <-> fst (fst (id_parse c id)) = unix_s t * 1000).
Proof.
  intros Hl Hf. unfold layout_ok in Hl.
  assert (Hnb0 : 0 <= node_bits c) by lia. assert (Hw : node_bits c + 12 <= 63) by lia.
  rewrite (id_parse_time c Hnb0), range_is_between.
  pose proof (between_iff c Hnb0 Hw t t id Hf Hf) as H. destruct (time_between_id c t t) as [mn mx]. cbn [fst snd]. lia.
Qed.

(* ------------------------------------------------------------------ the guards are needed; the repaired defect *)

(* the code before fix 15 (UnixNano/1e6): a non-negative id of the 8-bit layout after 2262-04-11 does not come back *)
Theorem cn_roundtrip_unixnano_refuted : exists c id,
  layout_ok c /\ Y2000 <= epoch c /\ 0 <= id < 2 ^ 63 /\ Z.shiftr id (time_shift c) + epoch c + OFF < Y10K /\
  from_ch_unixnano c (cn_style c id) = Ok 7835121949838877020 /\ id <> 7835121949838877020.
Proof.
  exists (mkcfg 1305072000000 8 false), 8731190989962813788. unfold layout_ok.
  split; [cbn; lia|]. split; [vm_compute; discriminate|]. split; [split; [lia|reflexivity]|].
  split; [vm_compute; reflexivity|]. split; [vm_compute; reflexivity|lia].
Qed.

(* a five-digit year: 25 characters, rejected on the way back *)
Theorem five_digit_year_breaks_form : exists c id, layout_ok c /\ Y2000 <= epoch c /\ 0 <= id < 2 ^ 63 /\
  length (cn_style c id) = 25%nat /\ from_ch c (cn_style c id) = ErrLen.
Proof.
  exists (mkcfg 253402271999000 10 false), (2000 * 2 ^ 22). unfold layout_ok.
  split; [cbn; lia|]. split; [vm_compute; discriminate|]. split; [split; [lia|reflexivity]|].
  split; vm_compute; reflexivity.
Qed.

(* beyond the timestamp width the shift overflows: the interval no longer contains the ids of its own second *)
Theorem range_overflow_beyond_width : exists c t, layout_ok c /\ Y2000 <= epoch c /\
  fits c (unix_s t * 1000 - epoch c) = false /\ snd (time_id_range c t) < 0.
Proof.
  exists (mkcfg 1609430400000 10 false), ((1609430400 + 2199023256) * 1000000000). unfold layout_ok.
  split; [cbn; lia|]. split; [vm_compute; discriminate|]. split; vm_compute; reflexivity.
Qed.

(* non-vacuity: the hypotheses of the theorems above are satisfiable together *)
Example domain_inhabited : exists c id b e,
  layout_ok c /\ valid_cfg c = true /\ in_dom id = true /\ Z.shiftr id (time_shift c) + epoch c + OFF < Y10K /\
  b <= e /\ fits c (unix_s b * 1000 - epoch c) = true /\ fits c (unix_s e * 1000 - epoch c) = true /\
  unix_s b * 1000 <= fst (fst (id_parse c id)) <= unix_s e * 1000.
Proof.
  exists (mkcfg 1609430400000 10 false), 379876435558400001, 1700000000123456789, 1700000005123456789.
  unfold layout_ok. split; [cbn; lia|]. repeat split; vm_compute; congruence.
Qed.
