(* C10: ReaderX over any fragmenting source decodes exactly what BufferX decodes from the concatenated bytes (clause 4);
   every reader consumes a prefix of its input (clause 3) *)
From Coq Require Import ZArith List Lia Bool.
Require Import LE Varint C10_Model C10_Monitor C10_Codec C10_Proofs.
Import ListNotations.
Open Scope Z_scope.

Definition err_of (l : list Z) : err := match l with [] => EEOF | _ => EEmpty end.

(* io.ReadFull over the chunk list = taking n bytes off the concatenation, or an error that drains the source *)
Lemma read_full_spec : forall fuel cs fl n acc, (length cs < fuel)%nat -> 0 < n ->
  match read_full fuel (cs, fl) n acc with
  | RFok out s' => n <= zlen (concat cs) /\ out = acc ++ firstn (Z.to_nat n) (concat cs)
                   /\ src_bytes s' = skipn (Z.to_nat n) (concat cs)
  | RFerr e s' => zlen (concat cs) < n /\ src_bytes s' = [] /\ e = err_of (acc ++ concat cs)
  | RFfuel => False
  end.
Proof.
  induction fuel as [|fuel IH]; intros cs fl n acc Hf Hn; [lia|].
  cbn [read_full]. unfold src_read. cbn [fst snd]. destruct cs as [|c r].
  - (* the source is exhausted: (0, io.EOF) *)
    change (zlen []) with 0. replace (n - 0 <=? 0) with false by (symmetry; apply Z.leb_gt; lia).
    cbn [concat]. split; [unfold zlen; cbn; lia|]. split; reflexivity.
  - cbn [length] in Hf. cbn [concat]. set (k := Z.to_nat (Z.min n (zlen c))).
    assert (Hk : (k <= length c)%nat) by (unfold k, zlen; lia).
    destruct (skipn k c) as [|b c'] eqn:Es.
    + (* the chunk is used up *)
      assert (Hkc : k = length c).
      { pose proof (skipn_length k c) as Hl. rewrite Es in Hl. cbn [length] in Hl. lia. }
      assert (Hcn : zlen c <= n) by (unfold k, zlen in *; lia).
      rewrite Hkc, firstn_all.
      destruct (n - zlen c <=? 0) eqn:E0.
      * apply Z.leb_le in E0. assert (En : n = zlen c) by lia.
        split; [rewrite zlen_app; pose proof (zlen_nonneg (concat r)); lia|].
        rewrite En, firstn_zlen, skipn_zlen. split; reflexivity.
      * apply Z.leb_gt in E0.
        destruct (match r with [] => fl | _ :: _ => false end) eqn:Eeof.
        -- (* the last data arrived together with io.EOF, and it was not enough *)
           assert (r = []) by (destruct r; [reflexivity|discriminate]). subst r.
           cbn [concat]. rewrite app_nil_r. split; [lia|]. split; reflexivity.
        -- assert (Hr : (length r < fuel)%nat) by lia.
           specialize (IH r fl (n - zlen c) (acc ++ c) Hr ltac:(lia)).
           destruct (read_full fuel (r, fl) (n - zlen c) (acc ++ c)) as [out s'|e s'|]; [| |exact IH].
           ++ destruct IH as (H1 & H2 & H3). split; [rewrite zlen_app; lia|].
              assert (Hl : (length c <= Z.to_nat n)%nat) by (unfold zlen in *; lia).
              assert (Hd : (Z.to_nat n - length c)%nat = Z.to_nat (n - zlen c)) by (unfold zlen in *; lia).
              split.
              ** rewrite H2, <- app_assoc. f_equal. rewrite (firstn_app_r _ _ _ Hl). now rewrite Hd.
              ** rewrite H3, skipn_app. rewrite (skipn_all2 c) by exact Hl. now rewrite Hd.
           ++ destruct IH as (H1 & H2 & H3). split; [rewrite zlen_app; lia|]. split; [exact H2|].
              now rewrite H3, app_assoc.
    + (* part of the chunk remains: the request is complete *)
      assert (Hlt : (k < length c)%nat).
      { pose proof (skipn_length k c) as Hl. rewrite Es in Hl. cbn [length] in Hl. lia. }
      assert (Hkn : Z.of_nat k = n) by (unfold k, zlen in *; lia).
      replace (n - zlen (firstn k c) <=? 0) with true
        by (symmetry; apply Z.leb_le; unfold zlen; rewrite firstn_length; lia).
      split; [rewrite zlen_app; unfold zlen in *; lia|].
      replace (Z.to_nat n) with k by lia. split.
      * f_equal. now rewrite firstn_app_l by lia.
      * unfold src_bytes. cbn [fst concat]. rewrite <- Es, skipn_app.
        replace (k - length c)%nat with 0%nat by lia. reflexivity.
Qed.

(* ReaderX.Read and BufferX.Read agree: same data or the same error, same bytes left *)
Lemma rx_read_buf s n :
  match rx_read s n, buf_read (src_bytes s) n with
  | RdOk d s', RdOk d' r' => d = d' /\ src_bytes s' = r'
  | RdErr e s', RdErr e' r' => e = e' /\ src_bytes s' = r'
  | _, _ => False
  end.
Proof.
  unfold rx_read, buf_read. destruct (n <=? 0) eqn:En; [split; reflexivity|]. apply Z.leb_gt in En.
  destruct s as [cs fl]. cbn [fst]. change (src_bytes (cs, fl)) with (concat cs).
  pose proof (read_full_spec (S (S (length cs))) cs fl n [] ltac:(lia) En) as H.
  destruct (read_full (S (S (length cs))) (cs, fl) n []) as [out s'|e s'|]; [| |contradiction].
  - destruct H as (H1 & H2 & H3). destruct (concat cs) as [|a l] eqn:Ec; [unfold zlen in H1; cbn in H1; lia|].
    replace (zlen (a :: l) <? n) with false by (symmetry; apply Z.ltb_ge; lia). split; [exact H2|exact H3].
  - destruct H as (H1 & H2 & H3). destruct (concat cs) as [|a l] eqn:Ec; [split; [exact H3|exact H2]|].
    replace (zlen (a :: l) <? n) with true by (symmetry; apply Z.ltb_lt; lia). split; [exact H3|exact H2].
Qed.

Lemma sim_refl a : is_panic a = false -> sim a a = true.
Proof. intros H. unfold sim. now rewrite H, outcome_eqb_refl. Qed.

(* buffer.ReadByte is Read of one byte *)
Lemma buf_read_1 bs : buf_read bs 1 = match bs with [] => RdErr EEOF [] | b :: r => RdOk [b] r end.
Proof.
  unfold buf_read. cbn [Z.leb Z.compare]. destruct bs as [|b r]; [reflexivity|].
  now replace (zlen (b :: r) <? 1) with false by (symmetry; apply Z.ltb_ge; unfold zlen; cbn [length]; lia).
Qed.
Lemma le_val_1 b : le_val [b] = b.
Proof. cbn [le_val]. lia. Qed.

(* the agreement of two states and two outcomes *)
Definition agree (r : outcome * source) (b : outcome * list Z) : Prop :=
  sim (fst r) (fst b) = true /\ src_bytes (snd r) = snd b.

Lemma agree_same o s bs : is_panic o = false -> src_bytes s = bs -> agree (o, s) (o, bs).
Proof. intros H1 H2. split; [now apply sim_refl|exact H2]. Qed.

Lemma fixed_agree s n f : agree (rfixed (rx_read s n) f) (fixed (buf_read (src_bytes s) n) f).
Proof.
  pose proof (rx_read_buf s n) as H. destruct (rx_read s n) as [d s'|e s'], (buf_read (src_bytes s) n) as [d' r'|e' r'];
    try contradiction; destruct H as [-> H]; cbn [rfixed fixed]; now apply agree_same.
Qed.
Lemma bytes_agree s n : agree (rbytes_of (rx_read s n)) (bytes_of (buf_read (src_bytes s) n)).
Proof.
  pose proof (rx_read_buf s n) as H. destruct (rx_read s n) as [d s'|e s'], (buf_read (src_bytes s) n) as [d' r'|e' r'];
    try contradiction; destruct H as [-> H]; cbn [rbytes_of bytes_of]; now apply agree_same.
Qed.

(* ZReadN of the stream reader vs. Next of the buffer reader: equal except that an exhausted source says io.EOF
   where the buffer says ErrByteBufferEmpty *)
Lemma zreadn_agree s n : 0 <= n -> agree (rx_zreadn s n) (bytes_of (buf_next (src_bytes s) n)).
Proof.
  intros Hn. unfold rx_zreadn. destruct (n =? 0) eqn:E0.
  - apply Z.eqb_eq in E0. subst n. unfold buf_next.
    replace (zlen (src_bytes s) <? 0) with false by (symmetry; apply Z.ltb_ge; apply zlen_nonneg).
    cbn [Z.to_nat firstn skipn bytes_of]. now apply agree_same.
  - apply Z.eqb_neq in E0. unfold rx_readn. replace (n <=? 0) with false by (symmetry; apply Z.leb_gt; lia).
    pose proof (rx_read_buf s n) as H. unfold buf_read in H. unfold buf_next.
    replace (n <=? 0) with false in H by (symmetry; apply Z.leb_gt; lia).
    destruct (rx_read s n) as [d s'|e s']; destruct (src_bytes s) as [|a l] eqn:Eb.
    + contradiction.
    + destruct (zlen (a :: l) <? n); [contradiction|]. destruct H as [-> H]. cbn [rbytes_of bytes_of]. now apply agree_same.
    + destruct H as [-> H]. replace (zlen [] <? n) with true by (symmetry; apply Z.ltb_lt; unfold zlen; cbn; lia).
      cbn [rbytes_of bytes_of]. split; [reflexivity|exact H].
    + destruct (zlen (a :: l) <? n); [|contradiction]. destruct H as [-> H]. cbn [rbytes_of bytes_of]. now apply agree_same.
Qed.

Lemma bytes_ok_app a b : bytes_ok (a ++ b) -> bytes_ok a /\ bytes_ok b.
Proof. unfold bytes_ok. apply Forall_app. Qed.
Lemma le_val_nonneg d : bytes_ok d -> 0 <= le_val d.
Proof. intros H. apply le_decode_encode in H. lia. Qed.

Lemma str_agree s (lim : option Z) : bytes_ok (src_bytes s) ->
  agree (match rx_read s 4 with
         | RdErr e rest => (OErr e, rest)
         | RdOk d rest => match lim with
                          | Some limit => if limit <? le_val d then (OErr ESizeLimit, rest) else rx_zreadn rest (le_val d)
                          | None => rx_zreadn rest (le_val d)
                          end
         end)
        (match buf_read (src_bytes s) 4 with
         | RdErr e rest => (OErr e, rest)
         | RdOk d rest => match lim with
                          | Some limit => if limit <? le_val d then (OErr ESizeLimit, rest) else bytes_of (buf_next rest (le_val d))
                          | None => bytes_of (buf_next rest (le_val d))
                          end
         end).
Proof.
  intros Hok. pose proof (rx_read_buf s 4) as H.
  destruct (rx_read s 4) as [d s'|e s'], (buf_read (src_bytes s) 4) as [d' r'|e' r'] eqn:Eb; try contradiction;
    destruct H as [-> H]; [|now apply agree_same].
  apply buf_read_len in Eb as [_ Eb]. rewrite Eb in Hok. apply bytes_ok_app in Hok as [Hd _].
  pose proof (le_val_nonneg d' Hd) as Hn. rewrite <- H.
  destruct lim as [limit|]; [destruct (limit <? le_val d'); [now apply agree_same|]|]; now apply zreadn_agree.
Qed.

(* one read of ReaderX against the same read of BufferX on the concatenated bytes *)
Lemma step_agree s o : stream_op o = true -> bytes_ok (src_bytes s) -> agree (rstep s o) (bstep (src_bytes s) o).
Proof.
  destruct o; cbn [stream_op]; try discriminate; intros _ Hok; cbn [rstep bstep].
  - (* ReadByte *) pose proof (rx_read_buf s 1) as H. rewrite buf_read_1 in H.
    destruct (rx_read s 1) as [d s'|e s'], (src_bytes s) as [|b r]; try contradiction; destruct H as [-> H].
    + rewrite le_val_1. now apply agree_same.
    + now apply agree_same.
  - (* ReadBool *) pose proof (rx_read_buf s 1) as H. rewrite buf_read_1 in H.
    destruct (rx_read s 1) as [d s'|e s'], (src_bytes s) as [|b r]; try contradiction; destruct H as [-> H].
    + rewrite le_val_1. now apply agree_same.
    + now apply agree_same.
  - apply fixed_agree.
  - apply fixed_agree.
  - apply fixed_agree.
  - apply fixed_agree.
  - apply fixed_agree.
  - apply fixed_agree.
  - apply fixed_agree.
  - apply (str_agree s None Hok).
  - apply (str_agree s (Some limit) Hok).
  - apply bytes_agree.
  - unfold rx_readn. destruct (n <=? 0); [now apply agree_same|apply bytes_agree].
  - destruct (n <? 0) eqn:En.
    + apply Z.ltb_lt in En. unfold rx_zreadn, rx_readn.
      replace (n =? 0) with false by (symmetry; apply Z.eqb_neq; lia).
      replace (n <=? 0) with true by (symmetry; apply Z.leb_le; lia). now apply agree_same.
    + apply Z.ltb_ge in En. now apply zreadn_agree.
Qed.

(* ---------------- every reader consumes a prefix of its input ---------------- *)
Definition is_read (o : op) : bool :=
  match o with
  | RU8 | RBool | RU16 | RI16 | RU32 | RI32 | RU64 | RI64 | RF64 | RVarU64 | RVarI64 | RVarU32 | RVarI32
  | RStr | RLimStr _ | RRead _ | RReadN _ | RZReadN _ => true
  | _ => false
  end.

Lemma buf_read_suffix bs n : exists pre, bs = pre ++ match buf_read bs n with RdOk _ r | RdErr _ r => r end.
Proof.
  destruct (buf_read bs n) as [d r|e r] eqn:E.
  - apply buf_read_len in E as [_ E]. now exists d.
  - exists bs. unfold buf_read in E. destruct (n <=? 0); [discriminate|]. destruct bs as [|a l]; [now inversion E|].
    destruct (zlen (a :: l) <? n); inversion E. now rewrite app_nil_r.
Qed.
Lemma buf_next_suffix bs n : exists pre, bs = pre ++ match buf_next bs n with RdOk _ r | RdErr _ r => r end.
Proof.
  destruct (buf_next bs n) as [d r|e r] eqn:E.
  - apply buf_next_len in E as [_ E]. now exists d.
  - exists bs. unfold buf_next in E. destruct (zlen bs <? n); inversion E. now rewrite app_nil_r.
Qed.
Lemma read_uvarint_suffix : forall k first bs x s,
  exists pre, bs = pre ++ match read_uvarint k first bs x s with VOk _ r | VErr _ r => r end.
Proof.
  induction k as [|k IH]; intros first bs x s; cbn [read_uvarint]; [now exists []|].
  destruct bs as [|b r]; [now exists []|].
  destruct (b <? 128).
  - destruct (Nat.eqb k 0 && (1 <? b)); now exists [b].
  - destruct (IH false r (x + (b - 128) * 2 ^ s) (s + 7)) as [pre E]. exists (b :: pre). cbn [app]. now f_equal.
Qed.

Lemma fixed_suffix bs n f : exists pre, bs = pre ++ snd (fixed (buf_read bs n) f).
Proof. destruct (buf_read_suffix bs n) as [pre E]. exists pre. destruct (buf_read bs n); exact E. Qed.
Lemma varint_suffix bs f : exists pre, bs = pre ++ snd (varint (uvar bs) f).
Proof. destruct (read_uvarint_suffix 10 true bs 0 0) as [pre E]. exists pre. unfold uvar. destruct (read_uvarint 10 true bs 0 0); exact E. Qed.
Lemma bytes_of_read_suffix bs n : exists pre, bs = pre ++ snd (bytes_of (buf_read bs n)).
Proof. destruct (buf_read_suffix bs n) as [pre E]. exists pre. destruct (buf_read bs n); exact E. Qed.
Lemma bytes_of_next_suffix bs n : exists pre, bs = pre ++ snd (bytes_of (buf_next bs n)).
Proof. destruct (buf_next_suffix bs n) as [pre E]. exists pre. destruct (buf_next bs n); exact E. Qed.

Lemma read_suffix bs o : is_read o = true -> exists pre, bs = pre ++ snd (bstep bs o).
Proof.
  destruct o; cbn [is_read]; try discriminate; intros _; cbn [bstep];
    try apply fixed_suffix; try apply varint_suffix; try apply bytes_of_read_suffix.
  - destruct bs as [|b r]; [now exists []|now exists [b]].
  - destruct bs as [|b r]; [now exists []|now exists [b]].
  - (* RStr *) destruct (buf_read_suffix bs 4) as [pre E]. destruct (buf_read bs 4) as [d rest|e rest]; [|now exists pre].
    destruct (bytes_of_next_suffix rest (le_val d)) as [pre2 E2]. exists (pre ++ pre2). rewrite <- app_assoc, <- E2. exact E.
  - (* RLimStr *) destruct (buf_read_suffix bs 4) as [pre E]. destruct (buf_read bs 4) as [d rest|e rest]; [|now exists pre].
    destruct (limit <? le_val d); [now exists pre|].
    destruct (bytes_of_next_suffix rest (le_val d)) as [pre2 E2]. exists (pre ++ pre2). rewrite <- app_assoc, <- E2. exact E.
  - destruct (n <=? 0); [now exists []|apply bytes_of_read_suffix].
  - destruct (n <? 0); [now exists []|apply bytes_of_next_suffix].
Qed.

Lemma stream_is_read o : stream_op o = true -> is_read o = true.
Proof. destruct o; cbn; congruence. Qed.

(* ---------------- whole read programs ---------------- *)
Theorem run_agree : forall ops s, forallb stream_op ops = true -> bytes_ok (src_bytes s) ->
  sims (fst (rrun s ops)) (fst (brun (src_bytes s) ops)) = true
  /\ src_bytes (snd (rrun s ops)) = snd (brun (src_bytes s) ops).
Proof.
  induction ops as [|o ops IH]; intros s Hs Hok; cbn [rrun brun]; [split; reflexivity|].
  cbn [forallb] in Hs. apply andb_prop in Hs as [Hs1 Hs2].
  destruct (step_agree s o Hs1 Hok) as [H1 H2].
  destruct (read_suffix (src_bytes s) o (stream_is_read o Hs1)) as [pre Epre].
  destruct (rstep s o) as [a s'], (bstep (src_bytes s) o) as [b bs']. cbn [fst snd] in *. subst bs'.
  assert (Hok' : bytes_ok (src_bytes s')) by (rewrite Epre in Hok; apply bytes_ok_app in Hok; tauto).
  destruct (IH s' Hs2 Hok') as [H3 H4].
  destruct (rrun s' ops) as [o1 s1], (brun (src_bytes s') ops) as [o2 b2]. cbn [fst snd sims] in *.
  now rewrite H1, H3.
Qed.

Definition byte_okb (b : Z) : bool := (0 <=? b) && (b <? 256).
Lemma bytes_okb_spec l : forallb byte_okb l = true -> bytes_ok l.
Proof.
  intros H. unfold bytes_ok. apply Forall_forall. intros b Hb. rewrite forallb_forall in H. specialize (H b Hb).
  unfold byte_okb in H. apply andb_prop in H as [H1 H2]. apply Z.leb_le in H1. apply Z.ltb_lt in H2. lia.
Qed.

Lemma stream_sound chunks eofl ops o s o2 f :
  forallb stream_op ops = true -> forallb byte_okb (concat chunks) = true ->
  rrun (chunks, eofl) ops = (o, s) -> brun (concat chunks) ops = (o2, f) ->
  stream_ok o (src_bytes s) o2 f = true.
Proof.
  intros Hs Hb Er Eb. destruct (run_agree ops (chunks, eofl) Hs (bytes_okb_spec _ Hb)) as [H1 H2].
  change (src_bytes (chunks, eofl)) with (concat chunks) in *. rewrite Er, Eb in *. cbn [fst snd] in *.
  unfold stream_ok. rewrite H1, H2. apply zl_eqb_refl.
Qed.

(* ---------------- the two repaired defects, refuted on their witnesses ---------------- *)
(* defect 7: a single reader.Read: four bytes delivered one at a time make ReadU32 fail although the bytes are there *)
Example prefix_single_read_refuted :
  rx_read_prefix ([[1]; [2]; [3]; [4]], false) 4 = RdErr EEmpty ([[2]; [3]; [4]], false)
  /\ buf_read [1; 2; 3; 4] 4 = RdOk [1; 2; 3; 4] []
  /\ rx_read ([[1]; [2]; [3]; [4]], false) 4 = RdOk [1; 2; 3; 4] ([], false).
Proof. vm_compute. repeat split. Qed.
(* defect 8: the empty string: ZReadN(0) was ErrReadWrongNum *)
Example prefix_empty_string_refuted :
  fst (rx_zreadn_prefix ([[7]], false) 0) = OErr EWrongNum
  /\ fst (bytes_of (buf_next [7] 0)) = OBytes []
  /\ fst (rx_zreadn ([[7]], false) 0) = OBytes [].
Proof. vm_compute. repeat split. Qed.

(* ---------------- statements collected for C10_Props.v ---------------- *)
(* arbitrary bytes: a reader never panics, reports a value of its type or an error, and consumes a prefix of its input *)
Theorem decode_total bs o : is_read o = true ->
  fst (bstep bs o) <> OPanic /\ shape_ok o (fst (bstep bs o)) = true /\ exists pre, bs = pre ++ snd (bstep bs o).
Proof.
  intros Hr. pose proof (shape_sound bs o) as Hs. split; [|split; [exact Hs|now apply read_suffix]].
  intros E. rewrite E in Hs. destruct o; cbn in Hr, Hs; discriminate.
Qed.

(* an in-place rewrite: inside 0..len it changes exactly the addressed bytes, outside it panics and changes nothing *)
Theorem rewrite_exact bs pos p :
  (0 <= pos <= zlen bs ->
     exists bs', bstep bs (XReWrite pos p) = (ODone, bs') /\ length bs' = length bs /\
       forall i, (i < length bs)%nat ->
         nth i bs' 0 = if (pos <=? Z.of_nat i) && (Z.of_nat i <? pos + zlen p) then nth (Z.to_nat (Z.of_nat i - pos)) p 0 else nth i bs 0)
  /\ (pos < 0 \/ zlen bs < pos -> bstep bs (XReWrite pos p) = (OPanic, bs)).
Proof.
  cbn [bstep]. unfold rewrite_at. split.
  - intros H. exists (splice bs pos p).
    replace ((pos <? 0) || (zlen bs <? pos)) with false
      by (symmetry; apply orb_false_intro; [apply Z.ltb_ge|apply Z.ltb_ge]; lia).
    split; [reflexivity|]. split; [now apply splice_length|]. intros i Hi. now apply splice_nth.
  - intros H. replace ((pos <? 0) || (zlen bs <? pos)) with true; [reflexivity|].
    symmetry. apply orb_true_iff. destruct H; [left|right]; apply Z.ltb_lt; lia.
Qed.
Theorem rewrite_u32_is_rewrite bs pos v : 0 <= v < 2 ^ 32 ->
  bstep bs (XReWriteU32 pos v) = bstep bs (XReWrite pos [v mod 256; (v / 256) mod 256; (v / 65536) mod 256; (v / 16777216) mod 256]).
Proof. intros H. cbn [bstep]. rewrite uwrap_small by exact H. now rewrite le_bytes4. Qed.

(* size limits *)
Theorem limit_write_refused bs limit s : limit < uwrap 32 (zlen s) -> bstep bs (WLimStr limit s) = (OErr ESizeLimit, bs).
Proof. intros H. cbn [bstep]. now replace (limit <? uwrap 32 (zlen s)) with true by (symmetry; apply Z.ltb_lt; lia). Qed.
Theorem limit_read_refused limit n rest : 0 <= n < 2 ^ 32 -> limit < n ->
  bstep (le_bytes 4 n ++ rest) (RLimStr limit) = (OErr ESizeLimit, rest).
Proof.
  intros Hn H. cbn [bstep]. rewrite (buf_read_le' 4 4) by reflexivity.
  rewrite le_val_le by (change (256 ^ Z.of_nat 4) with (2 ^ 32); lia).
  now replace (limit <? n) with true by (symmetry; apply Z.ltb_lt; lia).
Qed.

(* non-vacuity: the empty string, a limited string at its limit, a signalling NaN, extremes, varints, raw bytes *)
Example roundtrip_demo :
  let ws := [WStr []; WLimStr 2 [104; 105]; WF64 9218868437227405313; WI64 (- 9223372036854775808);
             WVarU64 18446744073709551615; WVarI32 (- 2147483648); WRaw [1; 2; 3]; WBool true; WI16 (- 1)] in
  forallb is_write ws && forallb wok ws = true
  /\ brun [] (ws ++ map reader_of ws) = (map (fun _ => ODone) ws ++ map val_of ws, [])
  /\ fst (brun (firstn 30 (snd (brun [] ws))) (map reader_of ws)) =
       [OBytes []; OBytes [104; 105]; OInt 9218868437227405313; OInt (- 9223372036854775808);
        OErr EUnexpected; OErr EEOF; OErr EEOF; OErr EEOF; OErr EEOF].
Proof. vm_compute. repeat split. Qed.
Example stream_demo :
  rrun ([[5]; []; [0; 0]; [0; 104; 101]; [108; 108; 111; 9]], true) [RStr; RU8; RU8]
  = ([OBytes [104; 101; 108; 108; 111]; OInt 9; OErr EEOF], ([], true))
  /\ brun [5; 0; 0; 0; 104; 101; 108; 108; 111; 9] [RStr; RU8; RU8]
  = ([OBytes [104; 101; 108; 108; 111]; OInt 9; OErr EEOF], []).
Proof. vm_compute. split; reflexivity. Qed.

(* ---------------- typed writes read back through the stream reader, for every fragmentation ---------------- *)
Lemma sims_values : forall x y, sims x y = true -> forallb (fun o => negb (is_err o)) y = true -> x = y.
Proof.
  induction x as [|a x IH]; destruct y as [|b y]; cbn [sims forallb]; try discriminate; auto.
  intros H Hy. apply andb_prop in H as [H1 H2]. apply andb_prop in Hy as [Hy1 Hy2].
  f_equal; [|now apply IH]. unfold sim in H1. apply andb_prop in H1 as [_ H1].
  apply orb_prop in H1 as [H1|H1]; [now apply outcome_eqb_eq|].
  apply andb_prop in H1 as [_ H1]. rewrite H1 in Hy1. discriminate.
Qed.
Lemma vals_not_err : forall ws, forallb is_write ws = true -> forallb (fun o => negb (is_err o)) (map val_of ws) = true.
Proof.
  induction ws as [|w ws IH]; intros H; cbn [map forallb]; [reflexivity|].
  cbn [forallb] in H. apply andb_prop in H as [H1 H2]. rewrite (IH H2), andb_true_r.
  destruct w; cbn in H1 |- *; congruence.
Qed.

Theorem stream_roundtrip ws chunks fl :
  forallb is_write ws = true -> forallb wok ws = true -> forallb stream_op (map reader_of ws) = true ->
  concat chunks = enc_all ws -> bytes_ok (enc_all ws) ->
  rrun (chunks, fl) (map reader_of ws) = (map val_of ws, snd (rrun (chunks, fl) (map reader_of ws)))
  /\ src_bytes (snd (rrun (chunks, fl) (map reader_of ws))) = [].
Proof.
  intros Hi Hw Hs Hc Hok.
  assert (Hok' : bytes_ok (src_bytes (chunks, fl))) by (unfold src_bytes; cbn [fst]; now rewrite Hc).
  destruct (run_agree (map reader_of ws) (chunks, fl) Hs Hok') as [H1 H2].
  change (src_bytes (chunks, fl)) with (concat chunks) in H1, H2. rewrite Hc in H1, H2.
  rewrite (reads_run_nil ws Hi Hw) in H1, H2. cbn [fst snd] in H1, H2.
  apply sims_values in H1; [|now apply vals_not_err].
  destruct (rrun (chunks, fl) (map reader_of ws)) as [o s]. cbn [fst snd] in *. subst o. split; [reflexivity|exact H2].
Qed.

(* the encodings are bytes *)
Lemma put_uvarint_ok : forall f x, 0 <= x -> bytes_ok (put_uvarint f x).
Proof.
  induction f as [|f IH]; intros x Hx; cbn [put_uvarint]; [constructor|].
  destruct (x <? 128) eqn:E.
  - apply Z.ltb_lt in E. constructor; [lia|constructor].
  - pose proof (Z.mod_pos_bound x 128 ltac:(lia)). constructor; [lia|]. apply IH. apply Z.div_pos; lia.
Qed.
Lemma zigzag_nonneg x : 0 <= zigzag x.
Proof. unfold zigzag. destruct (x <? 0); apply uwrap_range; lia. Qed.
Lemma enc_op_ok w : (match w with WStr s | WLimStr _ s | WRaw s => bytes_ok s | _ => True end) -> bytes_ok (enc_op w).
Proof.
  destruct w; cbn [enc_op]; intros H.
  all: try apply le_bytes_ok.
  all: try (apply put_uvarint_ok; first [apply zigzag_nonneg | apply uwrap_range; lia]).
  all: try (unfold bytes_ok; apply Forall_app; split; [apply le_bytes_ok|exact H]).
  all: try exact H.
  all: try (constructor; [destruct b; lia|constructor]).
  all: constructor.
Qed.
