(* C10: encoding/binary's uvarint as used by BufferX.WriteVarU64 / ReadVarU64 *)
From Coq Require Import ZArith List Lia Bool.
Import ListNotations.
Open Scope Z_scope.

(* for x >= 0x80 { buf[i] = byte(x) | 0x80; x >>= 7; i++ }; buf[i] = byte(x) *)
Fixpoint put_uvarint (fuel : nat) (x : Z) : list Z :=
  match fuel with
  | O => []
  | S f => if x <? 128 then [x] else (x mod 128 + 128) :: put_uvarint f (x / 128)
  end.

Inductive res := Ok (v : Z) (rest : list Z) | EOF | Overflow.

(* ReadUvarint: at most 10 bytes; the tenth may only be 0 or 1 *)
Fixpoint get_uvarint (l : list Z) (x s : Z) (i : nat) : res :=
  match l with
  | [] => EOF
  | b :: r =>
    if Nat.leb 10 i then Overflow else
    if b <? 128 then (if Nat.eqb i 9 && (1 <? b) then Overflow else Ok (x + b * 2 ^ s) r)
    else get_uvarint r (x + (b - 128) * 2 ^ s) (s + 7) (S i)
  end.

Lemma put_get : forall f x acc s i rest,
  0 <= x < 2 ^ (7 * Z.of_nat (S f)) -> (i + S f = 10)%nat -> x < 2 ^ (64 - s) -> s = 7 * Z.of_nat i ->
  get_uvarint (put_uvarint (S f) x ++ rest) acc s i = Ok (acc + x * 2 ^ s) rest.
Proof.
  induction f as [|f IH]; intros x acc s i rest Hx Hi10 H64 Hsi.
  - (* last admissible byte *) cbn [put_uvarint].
    assert (i = 9%nat) by lia. subst i. assert (s = 63) by lia. subst s.
    change (2 ^ (64 - 63)) with 2 in H64.
    replace (x <? 128) with true by (symmetry; apply Z.ltb_lt; lia).
    cbn [app get_uvarint Nat.leb Nat.eqb andb].
    replace (x <? 128) with true by (symmetry; apply Z.ltb_lt; lia).
    replace (1 <? x) with false by (symmetry; apply Z.ltb_ge; lia). reflexivity.
  - change (put_uvarint (S (S f)) x) with (if x <? 128 then [x] else (x mod 128 + 128) :: put_uvarint (S f) (x / 128)).
    destruct (x <? 128) eqn:E.
    + apply Z.ltb_lt in E. cbn [app get_uvarint].
      replace (Nat.leb 10 i) with false by (symmetry; apply Nat.leb_gt; lia).
      replace (x <? 128) with true by (symmetry; apply Z.ltb_lt; lia).
      replace (Nat.eqb i 9) with false by (symmetry; apply Nat.eqb_neq; lia). reflexivity.
    + apply Z.ltb_ge in E. cbn [app get_uvarint].
      replace (Nat.leb 10 i) with false by (symmetry; apply Nat.leb_gt; lia).
      pose proof (Z.mod_pos_bound x 128 ltac:(lia)) as Hm.
      replace (x mod 128 + 128 <? 128) with false by (symmetry; apply Z.ltb_ge; lia).
      replace (x mod 128 + 128 - 128) with (x mod 128) by lia.
      rewrite IH.
      * f_equal. rewrite Z.pow_add_r by lia. pose proof (Z.div_mod x 128 ltac:(lia)). change (2 ^ 7) with 128. nia.
      * split; [apply Z.div_pos; lia|]. apply Z.div_lt_upper_bound; [lia|].
        replace (7 * Z.of_nat (S (S f))) with (7 + 7 * Z.of_nat (S f)) in Hx by lia.
        rewrite Z.pow_add_r in Hx by lia. change (2 ^ 7) with 128 in Hx. lia.
      * lia.
      * apply Z.div_lt_upper_bound; [lia|].
        replace (64 - s) with (7 + (64 - (s + 7))) in H64 by lia.
        assert (0 <= 64 - (s + 7)) by lia.
        rewrite Z.pow_add_r in H64 by lia. change (2 ^ 7) with 128 in H64. lia.
      * lia.
Qed.

Theorem uvarint_roundtrip x rest : 0 <= x < 2 ^ 64 ->
  get_uvarint (put_uvarint 10 x ++ rest) 0 0 0 = Ok x rest.
Proof.
  intros H. assert (2 ^ 64 < 2 ^ 70) by (apply Z.pow_lt_mono_r; lia).
  rewrite (put_get 9 x 0 0 0 rest); try (change (7 * Z.of_nat 10) with 70; change (64 - 0) with 64; lia).
  f_equal. lia.
Qed.
Print Assumptions uvarint_roundtrip.
