(* C12: queue/syncq.SyncQueue - unbounded FIFO; a closed queue silently drops every Push; Pop / TryPop first hand out
   the remaining items and only then report closed.  The ring buffer github.com/eapache/queue is a list here. *)
From Coq Require Import ZArith List Bool Lia.
Require Import C12_Base.
Import ListNotations.

Inductive sop := SPush (x : Z) | SPop | STryPop | SLen | SClose.
Record sq := { buf : list Z; sclosed : bool }.
Definition s_new : sq := {| buf := []; sclosed := false |}.

Definition s_step (s : sq) (o : sop) : sq * res :=
  match o with
  | SPush x => if sclosed s then (s, RDone)                                    (* if !q.closed { buffer.Add(v) } *)
               else ({| buf := buf s ++ [x]; sclosed := false |}, RDone)
  | SPop => match buf s with                                                   (* for Length() == 0 && !closed { Wait } *)
            | x :: r => ({| buf := r; sclosed := sclosed s |}, RItem x)
            | [] => if sclosed s then (s, RClosed) else (s, RNotIssued)        (* closed and empty: v = nil *)
            end
  | STryPop => match buf s with
               | x :: r => ({| buf := r; sclosed := sclosed s |}, RItem x)     (* (v, true) *)
               | [] => if sclosed s then (s, RClosed) else (s, RNone)          (* (nil, true) / (nil, false) *)
               end
  | SLen => (s, RLen (Z.of_nat (length (buf s))))
  | SClose => ({| buf := buf s; sclosed := true |}, RDone)
  end.

(* the monitor: ghost = items pushed while open and not yet handed out, in push order; whether Close was called *)
Record sg := { sg_items : list Z; sg_closed : bool }.
Definition sg0 : sg := {| sg_items := []; sg_closed := false |}.

Definition s_chk (g : sg) (o : sop) (r : res) : bool :=
  match o with
  | SPush _ => res_eqb r RDone
  | SPop => match sg_items g with
            | x :: _ => res_eqb r (RItem x)                                    (* remaining items first, in order *)
            | [] => if sg_closed g then res_eqb r RClosed else res_eqb r RNotIssued
            end
  | STryPop => match sg_items g with
               | x :: _ => res_eqb r (RItem x)
               | [] => if sg_closed g then res_eqb r RClosed else res_eqb r RNone
               end
  | SLen => res_eqb r (RLen (Z.of_nat (length (sg_items g))))
  | SClose => res_eqb r RDone
  end.
Definition s_upd (g : sg) (o : sop) (r : res) : sg :=
  match o, r with
  | SPush x, _ => if sg_closed g then g                                        (* a closed queue drops the item *)
                  else {| sg_items := sg_items g ++ [x]; sg_closed := false |}
  | SPop, RItem _ | STryPop, RItem _ => {| sg_items := tl (sg_items g); sg_closed := sg_closed g |}
  | SClose, _ => {| sg_items := sg_items g; sg_closed := true |}
  | _, _ => g
  end.

Definition s_rel (s : sq) (g : sg) : Prop := buf s = sg_items g /\ sclosed s = sg_closed g.

Lemma s_step_ok s g o : s_rel s g ->
  s_chk g o (snd (s_step s o)) = true /\ s_rel (fst (s_step s o)) (s_upd g o (snd (s_step s o))).
Proof.
  intros (H1 & H2). unfold s_rel. destruct g as [gi gc]. cbn [sg_items sg_closed] in *. subst gi gc.
  destruct o as [x| | | |]; cbn [s_step s_chk sg_items sg_closed].
  - destruct (sclosed s) eqn:Ec; cbn; rewrite ?Ec; cbn; auto.
  - destruct (buf s) as [|y l] eqn:Eb; [destruct (sclosed s) eqn:Ec|]; cbn; rewrite ?Eb, ?Z.eqb_refl; auto.
  - destruct (buf s) as [|y l] eqn:Eb; [destruct (sclosed s) eqn:Ec|]; cbn; rewrite ?Eb, ?Z.eqb_refl; auto.
  - cbn. rewrite Z.eqb_refl. auto.
  - cbn. auto.
Qed.

Definition s_accept (h : list (sop * res)) : bool := h_accept s_step s_new h.
Definition s_holds (h : list (sop * res)) : bool := h_holds s_chk s_upd sg0 h.

Theorem s_accept_sound h : s_accept h = true -> s_holds h = true.
Proof.
  apply (h_sound s_step s_chk s_upd s_rel).
  - intros s g o. apply s_step_ok.
  - split; reflexivity.
Qed.
Theorem s_model_holds ops : s_holds (fst (h_run s_step s_new ops)) = true.
Proof.
  apply (h_model_holds s_step s_chk s_upd s_rel).
  - intros s g o. apply s_step_ok.
  - split; reflexivity.
Qed.

(* ---- the property's clauses ---- *)
(* a closed queue silently drops every Push *)
Theorem s_closed_drops s x : sclosed s = true -> s_step s (SPush x) = (s, RDone).
Proof. intros Hc. cbn [s_step]. now rewrite Hc. Qed.
Theorem s_open_push s x : sclosed s = false -> s_step s (SPush x) = ({| buf := buf s ++ [x]; sclosed := false |}, RDone).
Proof. intros Hc. cbn [s_step]. now rewrite Hc. Qed.

(* the pushes that are accepted: those made while the queue is open *)
Fixpoint s_accs (s : sq) (ops : list sop) : list Z :=
  match ops with
  | [] => []
  | o :: ops' => match o with SPush x => if sclosed s then [] else [x] | _ => [] end ++ s_accs (fst (s_step s o)) ops'
  end.

(* first-in-first-out over every history (hence nothing lost, duplicated or invented) *)
Theorem s_fifo : forall ops s,
  outs (fst (h_run s_step s ops)) ++ buf (snd (h_run s_step s ops)) = buf s ++ s_accs s ops.
Proof.
  induction ops as [|o ops IH]; intros s; [cbn; now rewrite app_nil_r|].
  cbn [h_run s_accs]. specialize (IH (fst (s_step s o))).
  assert (H1 : match snd (s_step s o) with RItem x => [x] | _ => [] end ++ buf (fst (s_step s o)) =
               buf s ++ match o with SPush x => if sclosed s then [] else [x] | _ => [] end).
  { destruct o as [x| | | |]; cbn [s_step].
    - destruct (sclosed s); cbn; now rewrite ?app_nil_r.
    - destruct (buf s) as [|y l] eqn:Eb; [destruct (sclosed s)|]; cbn; rewrite ?Eb, ?app_nil_r; reflexivity.
    - destruct (buf s) as [|y l] eqn:Eb; [destruct (sclosed s)|]; cbn; rewrite ?Eb, ?app_nil_r; reflexivity.
    - cbn. now rewrite app_nil_r.
    - cbn. now rewrite app_nil_r. }
  destruct (s_step s o) as [s' r]. cbn [fst snd] in *. destruct (h_run s_step s' ops) as [h s'']. cbn [fst snd] in *.
  rewrite outs_cons, <- app_assoc, IH, !app_assoc, H1. reflexivity.
Qed.

(* closed stays closed; from then on nothing is accepted *)
Theorem s_closed_stays : forall ops s, sclosed s = true -> sclosed (snd (h_run s_step s ops)) = true /\ s_accs s ops = [].
Proof.
  induction ops as [|o ops IH]; intros s Hc; [cbn; auto|].
  cbn [h_run s_accs].
  assert (H1 : sclosed (fst (s_step s o)) = true) by (destruct o; cbn [s_step]; rewrite ?Hc; cbn; auto; destruct (buf s); cbn; auto).
  specialize (IH _ H1). destruct (s_step s o) as [s' r]. cbn [fst] in *. destruct (h_run s_step s' ops) as [h s''].
  cbn [snd] in *. destruct IH as [I1 I2]. split; [exact I1|]. rewrite I2. destruct o; rewrite ?Hc; reflexivity.
Qed.

(* after close Pop and TryPop hand out exactly the remaining items in order and only then report closed *)
Theorem s_drain_pop : forall l s, sclosed s = true -> buf s = l ->
  h_run s_step s (repeat SPop (length l) ++ [SPop]) =
  (map (fun x => (SPop, RItem x)) l ++ [(SPop, RClosed)], {| buf := []; sclosed := true |}).
Proof.
  induction l as [|x l IH]; intros s Hc Hb.
  - cbn [length repeat app h_run s_step]. rewrite Hb, Hc. cbn. f_equal. destruct s; cbn in *; now subst.
  - cbn [length repeat app h_run s_step map]. rewrite Hb.
    rewrite (IH {| buf := l; sclosed := sclosed s |}); [reflexivity|exact Hc|reflexivity].
Qed.
Theorem s_drain_trypop : forall l s, sclosed s = true -> buf s = l ->
  h_run s_step s (repeat STryPop (length l) ++ [STryPop]) =
  (map (fun x => (STryPop, RItem x)) l ++ [(STryPop, RClosed)], {| buf := []; sclosed := true |}).
Proof.
  induction l as [|x l IH]; intros s Hc Hb.
  - cbn [length repeat app h_run s_step]. rewrite Hb, Hc. cbn. f_equal. destruct s; cbn in *; now subst.
  - cbn [length repeat app h_run s_step map]. rewrite Hb.
    rewrite (IH {| buf := l; sclosed := sclosed s |}); [reflexivity|exact Hc|reflexivity].
Qed.

(* TryPop on an empty open queue says "nothing", and Len is the number of queued items *)
Theorem s_trypop_empty_open s : buf s = [] -> sclosed s = false -> s_step s STryPop = (s, RNone).
Proof. intros Hb Hc. cbn [s_step]. now rewrite Hb, Hc. Qed.
Theorem s_len s : s_step s SLen = (s, RLen (Z.of_nat (length (buf s)))).
Proof. reflexivity. Qed.
