(* C12: the pipe queue - syncx/pipe/q.Q, syncx/pipe/async.Q, syncx/pipe/mux.Q (one model, three constructors).
   container/list + mutex + cond; every method is one critical section (lint), so a method is a function
   state -> state * result.  Only calls that return are modelled as returning: a pop on an empty open queue and an
   add-anyway on a full open queue block; the model says RNotIssued for them and leaves the state alone. *)
From Coq Require Import ZArith List Bool Lia Sorting.Permutation.
Require Import C12_Base.
Import ListNotations.

Inductive pkind := KQ | KAsync | KMux.
Inductive pop :=
  | PAdd (x : Z)          (* q/mux: AddReq, async: Add *)
  | PAddAnyway (x : Z)    (* q/mux: AddReqAnyway, async: AddAnyway: retries while full *)
  | PPrior (x : Z)        (* q/mux: AddPriorReq, async: AddPrior *)
  | PPop | PPopAnyway | PClose
  | PIsClosed.            (* async, mux *)

Record pq := { items : list Z; closed : bool; cap : Z }.      (* cap = 0: unbounded *)

(* the three constructors *)
Definition p_new (k : pkind) (n : Z) : pq :=
  {| items := []; closed := false;
     cap := match k with
            | KQ => if (0 <? n)%Z then n else 0%Z        (* q.NewQ(WithSize(n)): if option.reqMaxNum > 0 { reqMaxNum = n } *)
            | KAsync => if (n <? 0)%Z then 0%Z else n    (* async.NewQ(size): if size < 0 { size = 0 } *)
            | KMux => if (0 <? n)%Z then n else 0%Z      (* mux.NewQ(n): if reqMaxNum > 0 { reqMaxNum = n } *)
            end |}.

Definition set_items (s : pq) (l : list Z) : pq := {| items := l; closed := closed s; cap := cap s |}.

(* AddReq: closed test, then the bound, then PushBack *)
Definition p_add (s : pq) (x : Z) : pq * res :=
  if closed s then (s, RClosed)
  else if full (cap s) (length (items s)) then (s, RFull)
  else (set_items s (items s ++ [x]), RDone).
(* AddReqAnyway: for { err = AddReq; if err == ErrFull { sleep } else return err }: never returns while the queue stays full *)
Definition p_add_anyway (s : pq) (x : Z) : pq * res :=
  match p_add s x with
  | (_, RFull) => (s, RNotIssued)
  | sr => sr
  end.
(* AddPriorReq: closed test, PushFront; the bound is not consulted *)
Definition p_prior (s : pq) (x : Z) : pq * res :=
  if closed s then (s, RClosed) else (set_items s (x :: items s), RDone).
(* pop(checkClose): for Len() == 0 { if closed return ErrClosed; Wait }; if checkClose && closed return ErrClosed; remove Front *)
Definition p_pop (check : bool) (s : pq) : pq * res :=
  match items s with
  | [] => if closed s then (s, RClosed) else (s, RNotIssued)
  | x :: r => if check && closed s then (s, RClosed) else (set_items s r, RItem x)
  end.
Definition p_close (s : pq) : pq * res := ({| items := items s; closed := true; cap := cap s |}, RDone).

Definition p_step (s : pq) (o : pop) : pq * res :=
  match o with
  | PAdd x => p_add s x
  | PAddAnyway x => p_add_anyway s x
  | PPrior x => p_prior s x
  | PPop => p_pop true s
  | PPopAnyway => p_pop false s
  | PClose => p_close s
  | PIsClosed => (s, RFlag (closed s))
  end.

(* ------------------------------------------------------------------------------------------------ *)
(* The monitor.  Its ghost state is what an observer of the results knows: the items accepted and not yet
   handed out, in the specified order (ordinary adds at the back, prior adds at the front), and whether Close
   has been called.  Every observed result is checked against the property's clause for that call. *)
Record pg := { g_items : list Z; g_closed : bool }.
Definition pg0 : pg := {| g_items := []; g_closed := false |}.
Definition bound_of (n : Z) : Z := if (0 <? n)%Z then n else 0%Z.     (* "0 = unbounded"; so is a negative size *)
Definition holds_capacity (bound : Z) (g : pg) : bool := (0 <? bound)%Z && (bound <=? Z.of_nat (length (g_items g)))%Z.

Definition p_chk (bound : Z) (g : pg) (o : pop) (r : res) : bool :=
  match o with
  | PAdd _ =>
      if g_closed g then res_eqb r RClosed                          (* a closed queue refuses every add *)
      else if holds_capacity bound g then res_eqb r RFull           (* refused exactly when it already holds its capacity *)
      else res_eqb r RDone
  | PAddAnyway _ =>
      if g_closed g then res_eqb r RClosed
      else if holds_capacity bound g then res_eqb r RNotIssued      (* would retry forever: must not have been issued *)
      else res_eqb r RDone
  | PPrior _ =>
      if g_closed g then res_eqb r RClosed else res_eqb r RDone     (* the bound does not apply to a prior add *)
  | PPop =>
      if g_closed g then res_eqb r RClosed                          (* after close Pop fails even if items remain *)
      else match g_items g with
           | x :: _ => res_eqb r (RItem x)                          (* the item at the front of the specified order *)
           | [] => res_eqb r RNotIssued
           end
  | PPopAnyway =>
      match g_items g with
      | x :: _ => res_eqb r (RItem x)                               (* closed or not: the remaining items, in order *)
      | [] => if g_closed g then res_eqb r RClosed else res_eqb r RNotIssued   (* ... and only then "closed" *)
      end
  | PClose => res_eqb r RDone
  | PIsClosed => res_eqb r (RFlag (g_closed g))
  end.

Definition p_upd (g : pg) (o : pop) (r : res) : pg :=
  match o, r with
  | PAdd x, RDone | PAddAnyway x, RDone => {| g_items := g_items g ++ [x]; g_closed := g_closed g |}
  | PPrior x, RDone => {| g_items := x :: g_items g; g_closed := g_closed g |}
  | PPop, RItem _ | PPopAnyway, RItem _ => {| g_items := tl (g_items g); g_closed := g_closed g |}
  | PClose, _ => {| g_items := g_items g; g_closed := true |}
  | _, _ => g
  end.

Definition p_rel (bound : Z) (s : pq) (g : pg) : Prop := items s = g_items g /\ closed s = g_closed g /\ cap s = bound.

Lemma p_new_rel k n : p_rel (bound_of n) (p_new k n) pg0.
Proof.
  unfold p_rel, p_new, bound_of, pg0. cbn [items closed cap g_items g_closed]. split; [reflexivity|]. split; [reflexivity|].
  destruct k; destruct (Z.ltb_spec 0 n); destruct (Z.ltb_spec n 0); lia.
Qed.

Lemma p_step_ok bound s g o : p_rel bound s g ->
  p_chk bound g o (snd (p_step s o)) = true /\ p_rel bound (fst (p_step s o)) (p_upd g o (snd (p_step s o))).
Proof.
  intros (Hi & Hc & Hb). unfold p_rel. destruct g as [gi gc]. cbn [g_items g_closed] in Hi, Hc. subst gi gc.
  assert (Hf : holds_capacity bound {| g_items := items s; g_closed := closed s |} = full (cap s) (length (items s)))
    by (unfold full, holds_capacity; now rewrite Hb).
  destruct o as [x|x|x| | | |]; cbn [p_step p_chk g_items g_closed]; rewrite ?Hf.
  - unfold p_add. destruct (closed s) eqn:Ec; [cbn; auto|].
    destruct (full (cap s) (length (items s))); cbn; auto.
  - unfold p_add_anyway, p_add. destruct (closed s) eqn:Ec; [cbn; auto|].
    destruct (full (cap s) (length (items s))); cbn; auto.
  - unfold p_prior. destruct (closed s) eqn:Ec; cbn; auto.
  - unfold p_pop. destruct (items s) as [|y l] eqn:Ei.
    + destruct (closed s) eqn:Ec; cbn; rewrite ?Ei; auto.
    + destruct (closed s) eqn:Ec; cbn; rewrite ?Ei, ?Z.eqb_refl; auto.
  - unfold p_pop. destruct (items s) as [|y l] eqn:Ei.
    + destruct (closed s) eqn:Ec; cbn; rewrite ?Ei; auto.
    + cbn. rewrite ?Ei, ?Z.eqb_refl. auto.
  - cbn. auto.
  - cbn. rewrite Bool.eqb_reflx. auto.
Qed.

Definition p_accept (k : pkind) (n : Z) (h : list (pop * res)) : bool := h_accept p_step (p_new k n) h.
Definition p_holds (n : Z) (h : list (pop * res)) : bool := h_holds (p_chk (bound_of n)) p_upd pg0 h.

Theorem p_accept_sound k n h : p_accept k n h = true -> p_holds n h = true.
Proof.
  apply (h_sound p_step (p_chk (bound_of n)) p_upd (p_rel (bound_of n))).
  - intros s g o. apply p_step_ok.
  - apply p_new_rel.
Qed.

(* the model satisfies the monitor on EVERY history of calls, for every constructor and every size *)
Theorem p_model_holds k n ops : p_holds n (fst (h_run p_step (p_new k n) ops)) = true.
Proof.
  apply (h_model_holds p_step (p_chk (bound_of n)) p_upd (p_rel (bound_of n))).
  - intros s g o. apply p_step_ok.
  - apply p_new_rel.
Qed.

(* ------------------------------------------------------------------------------------------------ *)
(* The property, clause by clause. *)

(* one call *)
Theorem p_add_refused_iff_full s x : closed s = false ->
  (snd (p_add s x) = RFull <-> (0 < cap s /\ cap s <= Z.of_nat (length (items s)))%Z) /\
  (snd (p_add s x) <> RFull -> p_add s x = (set_items s (items s ++ [x]), RDone)).
Proof.
  intros Hc. unfold p_add. rewrite Hc. pose proof (full_spec (cap s) (length (items s))) as Hf.
  destruct (full (cap s) (length (items s))); cbn [snd].
  - split; [split; [intros _; now apply Hf | reflexivity] | intros H; congruence].
  - split; [split; [discriminate | intros H; apply Hf in H; discriminate] | reflexivity].
Qed.

Theorem p_prior_ignores_bound s x : closed s = false -> p_prior s x = (set_items s (x :: items s), RDone).
Proof. intros Hc. unfold p_prior. now rewrite Hc. Qed.

Theorem p_closed_refuses s x : closed s = true ->
  p_add s x = (s, RClosed) /\ p_add_anyway s x = (s, RClosed) /\ p_prior s x = (s, RClosed).
Proof. intros Hc. unfold p_add_anyway, p_add, p_prior. now rewrite Hc. Qed.

(* after close: Pop fails even with items and leaves them; PopAnyway hands out the front item, and reports closed only when empty *)
Theorem p_pop_after_close s : closed s = true ->
  p_pop true s = (s, RClosed) /\
  match items s with
  | [] => p_pop false s = (s, RClosed)
  | x :: r => p_pop false s = (set_items s r, RItem x)
  end.
Proof. intros Hc. unfold p_pop. rewrite Hc. destruct (items s); cbn [andb]; auto. Qed.

(* a prior add goes to the front: it is the next item handed out, and handing it out restores the queue *)
Theorem p_prior_front s x : closed s = false ->
  p_pop true (fst (p_prior s x)) = (set_items s (items s), RItem x) /\
  p_pop false (fst (p_prior s x)) = (set_items s (items s), RItem x).
Proof. intros Hc. unfold p_prior. rewrite Hc. unfold p_pop. cbn [fst items closed set_items andb]. now rewrite Hc. Qed.

(* whole histories *)
Definition p_acc1 (e : pop * res) : list Z :=
  match e with (PAdd x, RDone) | (PAddAnyway x, RDone) | (PPrior x, RDone) => [x] | _ => [] end.
Definition p_accs (h : list (pop * res)) : list Z := flat_map p_acc1 h.      (* accepted items, in time order *)
Definition is_prior (o : pop) : bool := match o with PPrior _ => true | _ => false end.
Definition prior_ok (e : pop * res) : bool := match e with (PPrior _, RDone) => true | _ => false end.
Definition p_npriors (h : list (pop * res)) : nat := length (filter prior_ok h).      (* accepted prior adds *)

Lemma p_step_conserve s o :
  Permutation (match snd (p_step s o) with RItem x => [x] | _ => [] end ++ items (fst (p_step s o)))
              (items s ++ p_acc1 (o, snd (p_step s o))).
Proof.
  destruct o as [x|x|x| | | |]; cbn [p_step].
  - unfold p_add. destruct (closed s); [cbn; rewrite app_nil_r; reflexivity|].
    destruct (full (cap s) (length (items s))); cbn; [rewrite app_nil_r|]; reflexivity.
  - unfold p_add_anyway, p_add. destruct (closed s); [cbn; rewrite app_nil_r; reflexivity|].
    destruct (full (cap s) (length (items s))); cbn; [rewrite app_nil_r|]; reflexivity.
  - unfold p_prior. destruct (closed s); [cbn; rewrite app_nil_r; reflexivity|]. cbn. apply Permutation_cons_append.
  - unfold p_pop. destruct (items s) as [|y l] eqn:Ei.
    + destruct (closed s); cbn; rewrite Ei; reflexivity.
    + destruct (true && closed s); cbn; rewrite ?Ei, app_nil_r; reflexivity.
  - unfold p_pop. destruct (items s) as [|y l] eqn:Ei.
    + destruct (closed s); cbn; rewrite Ei; reflexivity.
    + cbn. rewrite app_nil_r; reflexivity.
  - cbn. rewrite app_nil_r; reflexivity.
  - cbn. rewrite app_nil_r; reflexivity.
Qed.

(* conservation: nothing is lost, duplicated or invented - what was handed out together with what is still queued is a
   rearrangement of what was queued at the start together with what was accepted *)
Theorem p_conservation : forall ops s,
  Permutation (outs (fst (h_run p_step s ops)) ++ items (snd (h_run p_step s ops)))
              (items s ++ p_accs (fst (h_run p_step s ops))).
Proof.
  induction ops as [|o ops IH]; intros s; [cbn; rewrite app_nil_r; reflexivity|].
  cbn [h_run]. pose proof (p_step_conserve s o) as H1. destruct (p_step s o) as [s' r]. cbn [fst snd] in H1.
  specialize (IH s'). destruct (h_run p_step s' ops) as [h s'']. cbn [fst snd] in *.
  rewrite outs_cons. unfold p_accs in *. cbn [flat_map]. fold (p_acc1 (o, r)).
  rewrite <- app_assoc. rewrite (app_assoc (items s)).
  eapply Permutation_trans; [apply Permutation_app_head; exact IH|].
  rewrite app_assoc. apply Permutation_app_tail. exact H1.
Qed.

Corollary p_conservation_new k n ops :
  let r := h_run p_step (p_new k n) ops in Permutation (outs (fst r) ++ items (snd r)) (p_accs (fst r)).
Proof. cbn zeta. apply (p_conservation ops (p_new k n)). Qed.

(* no item is handed out twice when the accepted items are distinct *)
Corollary p_no_duplicates k n ops :
  let r := h_run p_step (p_new k n) ops in NoDup (p_accs (fst r)) -> NoDup (outs (fst r) ++ items (snd r)).
Proof.
  cbn zeta. intros H. eapply Permutation_NoDup; [apply Permutation_sym, (p_conservation_new k n ops)|exact H].
Qed.

(* first-in-first-out: without prior adds, handed out ++ still queued IS the acceptance order *)
Lemma p_step_fifo s o : is_prior o = false ->
  match snd (p_step s o) with RItem x => [x] | _ => [] end ++ items (fst (p_step s o)) = items s ++ p_acc1 (o, snd (p_step s o)).
Proof.
  intros Hp. destruct o as [x|x|x| | | |]; cbn [p_step]; try discriminate.
  - unfold p_add. destruct (closed s); [cbn; now rewrite app_nil_r|].
    destruct (full (cap s) (length (items s))); cbn; [now rewrite app_nil_r|reflexivity].
  - unfold p_add_anyway, p_add. destruct (closed s); [cbn; now rewrite app_nil_r|].
    destruct (full (cap s) (length (items s))); cbn; [now rewrite app_nil_r|reflexivity].
  - unfold p_pop. destruct (items s) as [|y l] eqn:Ei.
    + destruct (closed s); cbn; rewrite Ei; reflexivity.
    + destruct (true && closed s); cbn; rewrite ?Ei, app_nil_r; reflexivity.
  - unfold p_pop. destruct (items s) as [|y l] eqn:Ei.
    + destruct (closed s); cbn; rewrite Ei; reflexivity.
    + cbn. rewrite app_nil_r; reflexivity.
  - cbn. now rewrite app_nil_r.
  - cbn. now rewrite app_nil_r.
Qed.

Theorem p_fifo : forall ops s, forallb (fun o => negb (is_prior o)) ops = true ->
  outs (fst (h_run p_step s ops)) ++ items (snd (h_run p_step s ops)) = items s ++ p_accs (fst (h_run p_step s ops)).
Proof.
  induction ops as [|o ops IH]; intros s Hnp; [cbn; now rewrite app_nil_r|].
  cbn [forallb] in Hnp. apply andb_prop in Hnp as [Ho Hnp]. apply negb_true_iff in Ho.
  cbn [h_run]. pose proof (p_step_fifo s o Ho) as H1. destruct (p_step s o) as [s' r]. cbn [fst snd] in H1.
  specialize (IH s' Hnp). destruct (h_run p_step s' ops) as [h s'']. cbn [fst snd] in *.
  rewrite outs_cons. unfold p_accs in *. cbn [flat_map]. fold (p_acc1 (o, r)).
  rewrite <- app_assoc, IH, !app_assoc, H1. reflexivity.
Qed.

(* the bound: a bounded queue never holds more than its capacity plus the number of accepted prior adds *)
Lemma p_step_cap s o : cap (fst (p_step s o)) = cap s.
Proof.
  destruct o as [x|x|x| | | |]; cbn [p_step]; unfold p_add_anyway, p_add, p_prior, p_pop, p_close.
  - destruct (closed s); [reflexivity|]. destruct (full _ _); reflexivity.
  - destruct (closed s); [reflexivity|]. destruct (full _ _); reflexivity.
  - destruct (closed s); reflexivity.
  - destruct (items s); destruct (closed s); reflexivity.
  - destruct (items s); destruct (closed s); reflexivity.
  - reflexivity.
  - reflexivity.
Qed.

Lemma p_step_len s o : (0 < cap s)%Z ->
  (Z.of_nat (length (items (fst (p_step s o)))) <=
   (if prior_ok (o, snd (p_step s o))
    then Z.of_nat (length (items s)) + 1
    else Z.max (Z.of_nat (length (items s))) (cap s)))%Z.
Proof.
  intros Hc. unfold prior_ok.
  destruct o as [x|x|x| | | |]; cbn [p_step]; unfold p_add_anyway, p_add, p_prior, p_pop, p_close.
  - destruct (closed s); [cbn [fst snd]; lia|]. pose proof (full_spec (cap s) (length (items s))) as Hf.
    destruct (full (cap s) (length (items s))); cbn [fst snd items set_items]; [lia|].
    rewrite app_length. cbn [length]. assert (~ (0 < cap s /\ cap s <= Z.of_nat (length (items s)))%Z) by (intros H; apply Hf in H; discriminate). lia.
  - destruct (closed s); [cbn [fst snd]; lia|]. pose proof (full_spec (cap s) (length (items s))) as Hf.
    destruct (full (cap s) (length (items s))); cbn [fst snd items set_items]; [lia|].
    rewrite app_length. cbn [length]. assert (~ (0 < cap s /\ cap s <= Z.of_nat (length (items s)))%Z) by (intros H; apply Hf in H; discriminate). lia.
  - destruct (closed s); cbn [fst snd items set_items length]; lia.
  - destruct (items s) as [|y l] eqn:Ei; [destruct (closed s); cbn [fst snd]; rewrite Ei; cbn [length]; lia|].
    destruct (true && closed s); cbn [fst snd items set_items]; rewrite ?Ei; cbn [length]; lia.
  - destruct (items s) as [|y l] eqn:Ei; [destruct (closed s); cbn [fst snd]; rewrite Ei; cbn [length]; lia|].
    cbn [andb fst snd items set_items length]. lia.
  - cbn [fst snd items]. lia.
  - cbn [fst snd]. lia.
Qed.

Theorem p_bound : forall ops s k, (0 < cap s)%Z -> (Z.of_nat (length (items s)) <= cap s + Z.of_nat k)%Z ->
  (Z.of_nat (length (items (snd (h_run p_step s ops)))) <= cap s + Z.of_nat k + Z.of_nat (p_npriors (fst (h_run p_step s ops))))%Z
  /\ cap (snd (h_run p_step s ops)) = cap s.
Proof.
  induction ops as [|o ops IH]; intros s k Hc Hl; [cbn; split; [lia|reflexivity]|].
  cbn [h_run]. pose proof (p_step_len s o Hc) as H1. pose proof (p_step_cap s o) as H2.
  destruct (p_step s o) as [s' r] eqn:E. cbn [fst snd] in H1, H2.
  remember (prior_ok (o, r)) as b eqn:Eb.
  assert (Hc' : (0 < cap s')%Z) by lia.
  assert (Hl' : (Z.of_nat (length (items s')) <= cap s' + Z.of_nat (k + (if b then 1 else 0)))%Z)
    by (rewrite H2; destruct b; lia).
  specialize (IH s' _ Hc' Hl'). destruct (h_run p_step s' ops) as [h s'']. cbn [fst snd] in *.
  destruct IH as [IH1 IH2]. split; [|congruence].
  unfold p_npriors in *. cbn [filter]. rewrite <- Eb.
  rewrite H2 in IH1. destruct b; cbn [length]; lia.
Qed.

Corollary p_bound_new kd n ops : (0 < n)%Z ->
  let r := h_run p_step (p_new kd n) ops in
  (Z.of_nat (length (items (snd r))) <= n + Z.of_nat (p_npriors (fst r)))%Z.
Proof.
  intros Hn. cbn zeta.
  assert (Hcap : cap (p_new kd n) = n) by (destruct kd; cbn [p_new cap]; destruct (Z.ltb_spec 0 n); destruct (Z.ltb_spec n 0); lia).
  destruct (p_bound ops (p_new kd n) 0) as [H _]; [lia|cbn [p_new items length]; lia|].
  rewrite Hcap in H. lia.
Qed.

(* closed stays closed: every later add is refused, nothing more is accepted, Pop keeps failing *)
Theorem p_closed_stays : forall ops s, closed s = true ->
  closed (snd (h_run p_step s ops)) = true /\ p_accs (fst (h_run p_step s ops)) = [] /\
  Forall (fun e => match fst e with
                   | PAdd _ | PAddAnyway _ | PPrior _ | PPop => snd e = RClosed
                   | _ => True end) (fst (h_run p_step s ops)).
Proof.
  induction ops as [|o ops IH]; intros s Hc; [cbn; auto|].
  cbn [h_run].
  assert (H1 : closed (fst (p_step s o)) = true /\ p_acc1 (o, snd (p_step s o)) = [] /\
               match o with PAdd _ | PAddAnyway _ | PPrior _ | PPop => snd (p_step s o) = RClosed | _ => True end).
  { destruct o as [x|x|x| | | |]; cbn [p_step]; unfold p_add_anyway, p_add, p_prior, p_pop, p_close; rewrite ?Hc; cbn; auto.
    - destruct (items s); rewrite ?Hc; cbn; auto.
    - destruct (items s); rewrite ?Hc; cbn; auto. }
  destruct (p_step s o) as [s' r]. cbn [fst snd] in H1. destruct H1 as (Hc' & Ha & Hr).
  specialize (IH s' Hc'). destruct (h_run p_step s' ops) as [h s'']. cbn [fst snd] in *.
  destruct IH as (I1 & I2 & I3). split; [exact I1|]. split.
  - unfold p_accs in *. cbn [flat_map]. fold (p_acc1 (o, r)). now rewrite Ha, I2.
  - constructor; [exact Hr|exact I3].
Qed.

(* after close, PopAnyway hands out exactly the remaining items, in order, and only then reports closed;
   Pop reports closed each time and removes nothing *)
Theorem p_drain_anyway : forall l s, closed s = true -> items s = l ->
  h_run p_step s (repeat PPopAnyway (length l) ++ [PPopAnyway]) =
  (map (fun x => (PPopAnyway, RItem x)) l ++ [(PPopAnyway, RClosed)], set_items s []).
Proof.
  induction l as [|x l IH]; intros s Hc Hi.
  - cbn [length repeat app h_run p_step]. unfold p_pop. rewrite Hi, Hc. cbn. f_equal. destruct s; cbn in *; now subst.
  - cbn [length repeat app h_run p_step map]. unfold p_pop at 1. rewrite Hi. cbn [andb].
    rewrite (IH (set_items s l)); [|exact Hc|reflexivity]. reflexivity.
Qed.

Theorem p_pop_closed_keeps : forall n s, closed s = true ->
  h_run p_step s (repeat PPop n) = (repeat (PPop, RClosed) n, s).
Proof.
  induction n as [|n IH]; intros s Hc; [reflexivity|].
  cbn [repeat h_run p_step]. unfold p_pop at 1. rewrite Hc. destruct (items s) eqn:Ei; cbn [andb]; now rewrite (IH s Hc).
Qed.
