(* C13: proofs about the condition-variable queue LTS of C13_Cond.v, over ALL label sequences *)
From Coq Require Import List Bool ZArith Arith Lia Permutation.
Require Import C13_Cond.
Import ListNotations.

(* ---------------- the thread table ---------------- *)
Definition cnt (p : cst -> bool) (l : list cst) : nat := length (filter p l).
Definition b2n (b : bool) : nat := if b then 1 else 0.

Lemma getc_nil t : getc t [] = Idle.
Proof. unfold getc. destruct t; reflexivity. Qed.

Lemma getc_lt t l : getc t l <> Idle -> t < length l.
Proof.
  unfold getc. intros H. destruct (Nat.lt_ge_cases t (length l)) as [L|G]; [exact L|].
  exfalso. apply H. apply nth_overflow. exact G.
Qed.

Lemma upd_length t v l : length (upd t v l) = length l.
Proof. revert t; induction l as [|a l IH]; intros [|t]; cbn; auto. Qed.

Lemma getc_upd_same t v l : t < length l -> getc t (upd t v l) = v.
Proof.
  unfold getc. revert t; induction l as [|a l IH]; intros [|t] H; cbn in *; try lia; auto.
  apply IH. lia.
Qed.

Lemma getc_upd_other t u v l : t <> u -> getc u (upd t v l) = getc u l.
Proof.
  unfold getc. revert t u; induction l as [|a l IH]; intros [|t] [|u] H; cbn; auto; try congruence.
Qed.

Lemma cnt_upd p t v l : t < length l -> cnt p (upd t v l) + b2n (p (getc t l)) = cnt p l + b2n (p v).
Proof.
  unfold cnt, getc. revert t; induction l as [|a l IH]; intros [|t] H; cbn in *; try lia.
  - destruct (p v), (p a); cbn; lia.
  - specialize (IH t ltac:(lia)). destruct (p a); cbn; lia.
Qed.

Lemma cnt_wake_waiting l : cnt is_waiting (map wake1 l) = 0.
Proof. unfold cnt. induction l as [|a l IH]; cbn; auto. destruct a; cbn; auto. Qed.

Lemma cnt_wake_woken l : cnt is_woken (map wake1 l) = cnt is_woken l + cnt is_waiting l.
Proof. unfold cnt. induction l as [|a l IH]; cbn; auto. destruct a; cbn; lia. Qed.

Lemma existsb_cnt p l : existsb p l = false <-> cnt p l = 0.
Proof.
  unfold cnt. induction l as [|a l IH]; cbn; [tauto|]. destruct (p a); cbn; [split; [discriminate|lia]|exact IH].
Qed.

Lemma cnt_pos_ex p l : 0 < cnt p l -> exists t, p (getc t l) = true.
Proof.
  unfold cnt, getc. induction l as [|a l IH]; cbn; [lia|]. destruct (p a) eqn:E.
  - intros _. exists 0. exact E.
  - intros H. destruct (IH H) as [t Ht]. exists (S t). exact Ht.
Qed.

Lemma ex_cnt_pos p l t : p (getc t l) = true -> p Idle = false -> 0 < cnt p l.
Proof.
  unfold cnt, getc. revert t; induction l as [|a l IH]; intros t H Hi.
  - destruct t; cbn in H; congruence.
  - destruct t; cbn in *; [rewrite H; cbn; lia|]. destruct (p a); cbn; [lia|]. eapply IH; eauto.
Qed.

(* items handed to consumers *)
Definition ritem (c : cst) : list Z := match c with Done (RItem x) => [x] | _ => [] end.
Definition ritems (l : list cst) : list Z := flat_map ritem l.

Lemma ritems_upd t v l : t < length l -> Permutation (ritems (upd t v l) ++ ritem (getc t l)) (ritem v ++ ritems l).
Proof.
  unfold ritems, getc. revert t; induction l as [|a l IH]; intros [|t] H; cbn in *; try lia.
  - rewrite <- app_assoc. apply Permutation_app_head. apply Permutation_app_comm.
  - specialize (IH t ltac:(lia)). rewrite <- app_assoc.
    eapply perm_trans; [apply Permutation_app_head; exact IH|].
    rewrite !app_assoc. apply Permutation_app_tail. apply Permutation_app_comm.
Qed.

Lemma ritems_wake l : ritems (map wake1 l) = ritems l.
Proof. unfold ritems. induction l as [|a l IH]; cbn; auto. rewrite IH. destruct a; reflexivity. Qed.

Lemma res_items_dones i l : res_items (dones_from i l) = ritems l.
Proof.
  unfold res_items, ritems. revert i; induction l as [|a l IH]; intros i; cbn; auto.
  destruct a as [| | |r]; cbn; rewrite ?IH; auto.
Qed.

Lemma dones_from_in i l t r : In (t, r) (dones_from i l) -> i <= t /\ getc (t - i) l = Done r.
Proof.
  unfold getc. revert i; induction l as [|a l IH]; intros i H; cbn in H; [tauto|].
  assert (Hrec : In (t, r) (dones_from (S i) l) -> i <= t /\ nth (t - i) (a :: l) Idle = Done r).
  { intros H'. destruct (IH _ H') as [Hle Hn]. split; [lia|].
    replace (t - i) with (S (t - S i)) by lia. exact Hn. }
  destruct a as [| | |r0]; auto.
  destruct H as [H|H]; auto. inversion H; subst. split; [lia|]. now rewrite Nat.sub_diag.
Qed.

Lemma tids_from_nil i p l : tids_from i p l = [] -> cnt p l = 0.
Proof.
  unfold cnt. revert i; induction l as [|a l IH]; intros i; cbn; auto.
  destruct (p a); [discriminate|]. apply IH.
Qed.

(* ---------------- 1. no lost wake-up ---------------- *)
(* a parked consumer implies: the queue is open and every item is already promised to a woken consumer *)
Definition Inv (s : st) : Prop := 0 < nwaiting s -> closed s = false /\ length (items s) <= nwoken s.

Lemma nwaiting_cnt s : nwaiting s = cnt is_waiting (cs s). Proof. reflexivity. Qed.
Lemma nwoken_cnt s : nwoken s = cnt is_woken (cs s). Proof. reflexivity. Qed.

Lemma pop_body_inv k a t s :
  t < length (cs s) -> (getc t (cs s) = Idle \/ exists b, getc t (cs s) = Woken b) ->
  Inv s -> Inv (pop_body k a t s).
Proof.
  intros Ht Hc HI. unfold Inv, nwaiting, nwoken, items in *.
  assert (Hw : forall v, length (filter is_waiting (upd t v (cs s))) = length (filter is_waiting (cs s)) + b2n (is_waiting v)).
  { intros v. pose proof (cnt_upd is_waiting t v (cs s) Ht) as E. unfold cnt in E.
    destruct Hc as [Hc|[b Hc]]; rewrite Hc in E; cbn in E; lia. }
  assert (Hk : forall v, is_woken v = false ->
                 length (filter is_woken (upd t v (cs s))) <= length (filter is_woken (cs s)) <= length (filter is_woken (upd t v (cs s))) + 1).
  { intros v Hv. pose proof (cnt_upd is_woken t v (cs s) Ht) as E. unfold cnt in E. rewrite Hv in E.
    destruct Hc as [Hc|[b Hc]]; rewrite Hc in E; cbn in E; lia. }
  unfold pop_body. destruct (ctrl s) as [|c cr] eqn:Ec; [destruct (req s) as [|r rr] eqn:Er|].
  - destruct (closed s) eqn:Ecl; cbn; rewrite ?Ec, ?Er, Hw; cbn; intros Hp.
    + rewrite Nat.add_0_r in Hp. destruct (HI Hp) as [Hcl _]. congruence.
    + split; [exact Ecl|lia].
  - destruct (take_ok k a s) eqn:Et; cbn; rewrite Hw; cbn; rewrite Nat.add_0_r; intros Hp;
      destruct (HI Hp) as [Hcl Hle]; (split; [exact Hcl|]).
    + cbn in Hle. pose proof (Hk (Done (RItem r)) eq_refl). lia.
    + unfold take_ok in Et. rewrite Hcl in Et. cbn in Et. discriminate.
  - destruct (take_ok k a s) eqn:Et; cbn; rewrite Hw; cbn; rewrite Nat.add_0_r; intros Hp;
      destruct (HI Hp) as [Hcl Hle]; (split; [exact Hcl|]).
    + cbn in Hle. pose proof (Hk (Done (RItem c)) eq_refl). lia.
    + unfold take_ok in Et. rewrite Hcl in Et. cbn in Et. discriminate.
Qed.

(* Broadcast: nobody is left waiting *)
Lemma wake_all_inv s : Inv (wake_all s).
Proof. unfold Inv, nwaiting, wake_all. cbn. pose proof (cnt_wake_waiting (cs s)) as E. unfold cnt in E. rewrite E. lia. Qed.

Theorem step_inv c s l s' o : Inv s -> step c s l = Some (s', o) -> Inv s'.
Proof.
  intros HI H. destruct l; cbn [step] in H.
  - (* LPop *)
    destruct (Nat.ltb t (length (cs s))) eqn:Et; [|discriminate]. apply Nat.ltb_lt in Et.
    destruct (getc t (cs s)) eqn:Eg; try discriminate. inversion H; subst.
    apply pop_body_inv; auto.
  - (* LResume *)
    destruct (getc t (cs s)) eqn:Eg; try discriminate. inversion H; subst.
    apply pop_body_inv; eauto. apply getc_lt. congruence.
  - (* LAdd *)
    destruct (is_sync (knd c)).
    + destruct (closed s) eqn:Ecl.
      * destruct w; [discriminate|]. inversion H; subst. exact HI.
      * destruct w as [t|].
        -- destruct (getc t (cs s)) eqn:Eg; try discriminate. inversion H; subst.
           assert (Ht : t < length (cs s)) by (apply getc_lt; congruence).
           unfold Inv, nwaiting, nwoken, items in *. cbn.
           pose proof (cnt_upd is_waiting t (Woken a) (cs s) Ht) as E1.
           pose proof (cnt_upd is_woken t (Woken a) (cs s) Ht) as E2.
           unfold cnt in E1, E2. rewrite Eg in E1, E2. cbn in E1, E2. intros Hp. split; [exact Ecl|].
           rewrite app_length, app_length. cbn.
           destruct (HI ltac:(lia)) as [_ Hle]. rewrite app_length in Hle. lia.
        -- destruct (existsb is_waiting (cs s)) eqn:Ee; [discriminate|]. inversion H; subst.
           apply existsb_cnt in Ee. unfold cnt in Ee. unfold Inv, nwaiting. cbn. lia.
    + destruct w; [discriminate|]. destruct (closed s); [inversion H; subst; exact HI|].
      destruct (full (reqmax c) (req s)); inversion H; subst; [exact HI|apply wake_all_inv].
  - (* LAddPrior *)
    destruct (is_sync (knd c)); [discriminate|]. destruct (closed s); inversion H; subst; [exact HI|apply wake_all_inv].
  - destruct (negb (is_mq (knd c))); [discriminate|]. destruct (closed s); [inversion H; subst; exact HI|].
    destruct (full (ctrlmax c) (ctrl s)); inversion H; subst; [exact HI|apply wake_all_inv].
  - destruct (negb (is_mq (knd c))); [discriminate|]. destruct (closed s); inversion H; subst; [exact HI|apply wake_all_inv].
  - (* LClose *)
    destruct (closed s); inversion H; subst; [exact HI|apply wake_all_inv].
  - (* LTryClose *)
    destruct (negb (is_mq (knd c))); [discriminate|]. destruct (closed s); [inversion H; subst; exact HI|].
    destruct (ctrl s); [destruct (req s)|]; inversion H; subst; try exact HI. apply wake_all_inv.
  - (* LTryPop *)
    destruct (negb (is_sync (knd c))); [discriminate|]. destruct (req s) as [|x r] eqn:Er.
    + destruct (closed s); inversion H; subst; exact HI.
    + inversion H; subst. unfold Inv, nwaiting, nwoken, items in *. cbn. intros Hp.
      destruct (HI Hp) as [Hcl Hle]. split; [exact Hcl|]. rewrite Er in Hle. rewrite app_length in *. cbn in Hle. lia.
  - (* LTryClear *)
    destruct (negb (is_mq (knd c))); [discriminate|]. inversion H; subst. exact HI.
Qed.

Lemma init_inv c : Inv (init c).
Proof.
  unfold Inv, nwaiting, init. cbn. induction (nthr c) as [|n IH]; cbn; [lia|exact IH].
Qed.

Theorem run_inv c : forall ls s s', Inv s -> run c s ls = Some s' -> Inv s'.
Proof.
  induction ls as [|l ls IH]; intros s s' HI H; cbn in H; [inversion H; subst; exact HI|].
  destruct (step c s l) as [[s1 o]|] eqn:E; [|discriminate]. eapply IH; [eapply step_inv; eauto|exact H].
Qed.

(* the property's first clause, for every label sequence (every number of producers and consumers, every
   interleaving): in a reachable state a parked consumer sits beside an open queue whose every item is promised to
   a consumer that has been woken and has not run yet *)
Theorem no_lost_wakeup c ls s :
  run c (init c) ls = Some s -> 0 < nwaiting s -> closed s = false /\ length (items s) <= nwoken s.
Proof. intros H. exact (run_inv c ls _ _ (init_inv c) H). Qed.

Lemma quiescent_nwoken s : quiescent s = true -> nwoken s = 0.
Proof. unfold quiescent, nwoken. intros H. apply negb_true_iff in H. now apply existsb_cnt in H. Qed.

(* at quiescence (every woken consumer has run) a parked consumer sees an open and empty queue *)
Corollary quiescent_parked_means_open_empty c ls s :
  run c (init c) ls = Some s -> quiescent s = true -> 0 < nwaiting s -> closed s = false /\ items s = [].
Proof.
  intros H Hq Hw. destruct (no_lost_wakeup c ls s H Hw) as [Hc Hl]. split; [exact Hc|].
  rewrite (quiescent_nwoken s Hq) in Hl. destruct (items s); [reflexivity|cbn in Hl; lia].
Qed.

(* ---------------- 2. how one step moves one thread ---------------- *)
Definition actor (l : label) : option nat :=
  match l with LPop t _ => Some t | LResume t => Some t | LAdd _ (Some t) => Some t | _ => None end.

Lemma getc_wake u l : getc u (map wake1 l) = wake1 (getc u l).
Proof. unfold getc. change Idle with (wake1 Idle) at 1. apply map_nth. Qed.

Lemma pop_body_cs_other k a t s u : t <> u -> getc u (cs (pop_body k a t s)) = getc u (cs s).
Proof.
  intros H. unfold pop_body.
  destruct (ctrl s); [destruct (req s)|]; [destruct (closed s)| |]; try destruct (take_ok k a s); cbn;
    apply getc_upd_other; exact H.
Qed.

Lemma pop_body_closed k a t s : closed (pop_body k a t s) = closed s.
Proof.
  unfold pop_body. destruct (ctrl s); [destruct (req s)|]; [destruct (closed s) eqn:E| |]; try destruct (take_ok k a s); cbn; auto.
Qed.

Lemma pop_body_length k a t s : length (cs (pop_body k a t s)) = length (cs s).
Proof.
  unfold pop_body. destruct (ctrl s); [destruct (req s)|]; [destruct (closed s) eqn:E| |]; try destruct (take_ok k a s); cbn;
    apply upd_length.
Qed.

(* every thread other than the label's actor keeps its state, or is woken by a Broadcast *)
Lemma step_thread c s l s' o u : step c s l = Some (s', o) ->
  getc u (cs s') = getc u (cs s) \/ getc u (cs s') = wake1 (getc u (cs s)) \/ actor l = Some u.
Proof.
  intros H. destruct l; cbn [step] in H; cbn [actor].
  - destruct (Nat.ltb t (length (cs s))); [|discriminate]. destruct (getc t (cs s)); try discriminate. inversion H; subst.
    destruct (Nat.eq_dec t u) as [->|N]; [auto|]. left. now apply pop_body_cs_other.
  - destruct (getc t (cs s)); try discriminate. inversion H; subst.
    destruct (Nat.eq_dec t u) as [->|N]; [auto|]. left. now apply pop_body_cs_other.
  - destruct (is_sync (knd c)).
    + destruct (closed s).
      * destruct w; [discriminate|]. inversion H; subst. auto.
      * destruct w as [t|].
        -- destruct (getc t (cs s)); try discriminate. inversion H; subst. cbn.
           destruct (Nat.eq_dec t u) as [->|N]; [auto|]. left. now apply getc_upd_other.
        -- destruct (existsb is_waiting (cs s)); [discriminate|]. inversion H; subst. auto.
    + destruct w; [discriminate|]. destruct (closed s); [inversion H; subst; auto|].
      destruct (full (reqmax c) (req s)); inversion H; subst; auto. right. left. apply getc_wake.
  - destruct (is_sync (knd c)); [discriminate|]. destruct (closed s); inversion H; subst; auto. right. left. apply getc_wake.
  - destruct (negb (is_mq (knd c))); [discriminate|]. destruct (closed s); [inversion H; subst; auto|].
    destruct (full (ctrlmax c) (ctrl s)); inversion H; subst; auto. right. left. apply getc_wake.
  - destruct (negb (is_mq (knd c))); [discriminate|]. destruct (closed s); inversion H; subst; auto. right. left. apply getc_wake.
  - destruct (closed s); inversion H; subst; auto. right. left. apply getc_wake.
  - destruct (negb (is_mq (knd c))); [discriminate|]. destruct (closed s); [inversion H; subst; auto|].
    destruct (ctrl s); [destruct (req s)|]; inversion H; subst; auto. right. left. apply getc_wake.
  - destruct (negb (is_sync (knd c))); [discriminate|]. destruct (req s); [destruct (closed s)|]; inversion H; subst; auto.
  - destruct (negb (is_mq (knd c))); [discriminate|]. inversion H; subst; auto.
Qed.

Lemma step_closed_stays c s l s' o : step c s l = Some (s', o) -> closed s = true -> closed s' = true.
Proof.
  intros H Hc. destruct l; cbn [step] in H; rewrite ?Hc in H.
  - destruct (Nat.ltb t (length (cs s))); [|discriminate]. destruct (getc t (cs s)); try discriminate. inversion H; subst.
    now rewrite pop_body_closed.
  - destruct (getc t (cs s)); try discriminate. inversion H; subst. now rewrite pop_body_closed.
  - destruct (is_sync (knd c)); destruct w; try discriminate; inversion H; subst; auto.
  - destruct (is_sync (knd c)); [discriminate|]. inversion H; subst; auto.
  - destruct (negb (is_mq (knd c))); [discriminate|]. inversion H; subst; auto.
  - destruct (negb (is_mq (knd c))); [discriminate|]. inversion H; subst; auto.
  - inversion H; subst; auto.
  - destruct (negb (is_mq (knd c))); [discriminate|]. inversion H; subst; auto.
  - destruct (negb (is_sync (knd c))); [discriminate|]. destruct (req s); inversion H; subst; auto.
  - destruct (negb (is_mq (knd c))); [discriminate|]. inversion H; subst; auto.
Qed.

(* on a closed queue one pass of the loop always returns *)
Lemma pop_body_closed_returns k a t s : t < length (cs s) -> closed s = true -> exists r, getc t (cs (pop_body k a t s)) = Done r.
Proof.
  intros Ht Hc. unfold pop_body. rewrite Hc.
  destruct (ctrl s); [destruct (req s)|]; try destruct (take_ok k a s); cbn [cs set_cs set_lists]; rewrite getc_upd_same by exact Ht; eauto.
Qed.

(* ---------------- 3. Close releases every blocked consumer ---------------- *)
Theorem close_leaves_nobody_waiting c s s' o : Inv s -> step c s LClose = Some (s', o) -> closed s' = true /\ nwaiting s' = 0.
Proof.
  intros HI H. cbn in H. destruct (closed s) eqn:E; inversion H; subst.
  - split; [exact E|]. destruct (Nat.eq_dec (nwaiting s') 0) as [Z|N]; [exact Z|].
    destruct (HI ltac:(lia)) as [Hc _]. congruence.
  - split; [reflexivity|]. unfold nwaiting, wake_all. cbn. apply cnt_wake_waiting.
Qed.

Definition on_way_out (c : cst) : Prop := match c with Woken _ | Done _ => True | _ => False end.

Lemma closed_run_keeps_leaving c u : forall ls s s', closed s = true -> on_way_out (getc u (cs s)) ->
  run c s ls = Some s' -> closed s' = true /\ on_way_out (getc u (cs s')).
Proof.
  induction ls as [|l ls IH]; intros s s' Hc Hu H; cbn in H; [inversion H; subst; auto|].
  destruct (step c s l) as [[s1 o]|] eqn:E; [|discriminate].
  apply (IH s1 s'); [eapply step_closed_stays; eauto| |exact H].
  destruct (step_thread c s l s1 o u E) as [Q|[Q|Q]].
  - now rewrite Q.
  - rewrite Q. destruct (getc u (cs s)); cbn in *; auto.
  - (* u itself moves: on a closed queue it returns *)
    destruct l; cbn in Q; try discriminate.
    + inversion Q; subst. cbn [step] in E. destruct (Nat.ltb u (length (cs s))); [|discriminate].
      destruct (getc u (cs s)); try discriminate. destruct Hu.
    + inversion Q; subst. cbn [step] in E. destruct (getc u (cs s)) eqn:Eg; try discriminate. inversion E; subst.
      assert (Ht : u < length (cs s)) by (apply getc_lt; congruence).
      destruct (pop_body_closed_returns (knd c) a u s Ht Hc) as [r Hr]. rewrite Hr. exact I.
    + destruct w as [t|]; [|discriminate]. inversion Q; subst. cbn [step] in E. rewrite Hc in E.
      destruct (is_sync (knd c)); discriminate.
Qed.

(* if k consumers are blocked and the queue is closed, all k return: every consumer parked at the moment of Close
   has returned at the next quiescent point, whatever else happens in between *)
Theorem close_releases_all c ls s s1 o ls' s2 u :
  run c (init c) ls = Some s -> step c s LClose = Some (s1, o) -> run c s1 ls' = Some s2 -> quiescent s2 = true ->
  is_waiting (getc u (cs s)) = true -> exists r, getc u (cs s2) = Done r.
Proof.
  intros Hr Hs Hr2 Hq Hu.
  assert (HI : Inv s) by (eapply run_inv; [apply init_inv|exact Hr]).
  assert (Hopen : closed s = false).
  { apply HI. unfold nwaiting. apply (ex_cnt_pos is_waiting (cs s) u Hu eq_refl). }
  cbn in Hs. rewrite Hopen in Hs. inversion Hs; subst.
  assert (H1 : on_way_out (getc u (cs (wake_all (set_closed s))))).
  { unfold wake_all. cbn [cs set_cs set_closed]. rewrite getc_wake. destruct (getc u (cs s)); cbn in *; try discriminate; exact I. }
  assert (Hc1 : closed (wake_all (set_closed s)) = true) by reflexivity.
  destruct (closed_run_keeps_leaving c u ls' _ s2 Hc1 H1 Hr2) as [_ H2].
  destruct (getc u (cs s2)) eqn:E; cbn in H2; try contradiction; eauto.
  exfalso. unfold quiescent in Hq. apply negb_true_iff in Hq. apply existsb_cnt in Hq.
  pose proof (ex_cnt_pos is_woken (cs s2) u) as P. rewrite E in P. specialize (P eq_refl eq_refl). lia.
Qed.

(* ---------------- 4. progress: woken consumers always can run, and their number is a decreasing measure ---------------- *)
Lemma resume_enabled c s u : is_woken (getc u (cs s)) = true -> exists s' o, step c s (LResume u) = Some (s', o).
Proof. intros H. cbn [step]. destruct (getc u (cs s)); try discriminate. eauto. Qed.

Lemma resume_decreases c s u s' o : step c s (LResume u) = Some (s', o) -> nwoken s' + 1 = nwoken s.
Proof.
  cbn [step]. destruct (getc u (cs s)) eqn:Eg; try discriminate. intros H. inversion H; subst; clear H.
  assert (Ht : u < length (cs s)) by (apply getc_lt; congruence).
  assert (E : forall v, is_woken v = false -> length (filter is_woken (upd u v (cs s))) + 1 = length (filter is_woken (cs s))).
  { intros v Hv. pose proof (cnt_upd is_woken u v (cs s) Ht) as P. unfold cnt in P. rewrite Eg, Hv in P. cbn in P. lia. }
  unfold nwoken, pop_body. destruct (ctrl s); [destruct (req s)|]; [destruct (closed s)| |]; try destruct (take_ok (knd c) a s); cbn;
    apply E; reflexivity.
Qed.

(* from every state the woken consumers can all be run, after exactly nwoken steps the state is quiescent *)
Theorem resumes_terminate c : forall n s, nwoken s = n ->
  exists ls s', length ls = n /\ run c s ls = Some s' /\ quiescent s' = true.
Proof.
  induction n as [|n IH]; intros s Hn.
  - exists [], s. repeat split; auto. unfold quiescent. apply negb_true_iff. apply existsb_cnt. exact Hn.
  - destruct (cnt_pos_ex is_woken (cs s)) as [u Hu]; [unfold nwoken in Hn; unfold cnt; lia|].
    destruct (resume_enabled c s u Hu) as (s1 & o & E).
    pose proof (resume_decreases c s u s1 o E) as D.
    destruct (IH s1 ltac:(lia)) as (ls & s' & Hl & Hr & Hq).
    exists (LResume u :: ls), s'. repeat split; auto; [cbn; lia|]. cbn [run]. rewrite E. exact Hr.
Qed.
