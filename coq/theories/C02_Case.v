(* C02: the observed case, the model match and the monitor (what the driver evaluates on every observed case; C02_Check.v
   adds case_accept and case_sound).

   A case is one forced schedule on one locker.  The harness performs one API-level action at a time (a caller
   enters Lock/RLock/Locks/RLocks in its own goroutine, or a caller that has returned performs the matching
   unlock), waits until every goroutine has returned or is parked, and records what it sees: who has returned,
   the hook's (readCount, writeCount) for every present key, the number of entries.  For every action it also
   supplies the fine-grained labels (found by its own untrusted search) that resolve the runtime's choices.

   case_accept : the labels are of the kinds this action may cause, they are a run of the model, the state
                 reached is quiescent, and it implies exactly the observation made.
   case_holds  : the property's clauses on the actions and observations alone. *)
From Coq Require Import List Bool Arith ZArith Lia.
Require Export C02_Model.
Import ListNotations.

(* ACall / ARel: one caller enters / one returned caller unlocks, then the harness waits for quiescence.
   ABurst: several callers enter AT ONCE (their goroutines race through the table sections and the locks; the runtime
   picks the interleaving), then the harness waits for quiescence. *)
Inductive act := ACall (t : nat) (ks : list nat) (w : bool) | ARel (t : nat) | ABurst (cs : list (nat * (list nat * bool))).
Record obs := Ob { o_ret : list nat;                       (* callers whose call has returned, not yet unlocked; ascending *)
                o_counts : list (nat * (Z * Z));         (* present keys, ascending: (key, (readCount, writeCount)); Go ints, may be negative in a broken locker *)
                o_entries : nat;                         (* VerifEntries *)
                o_blocked : bool }.                      (* the unlock call of this round, or a hook read, never came back *)
Record round := Rd { r_act : act; r_labels : list flabel; r_obs : obs }.
Record case := Cs { c_shard : list (nat * nat);   (* routing of the keys used (absent = shard 0) *)
                 c_nthreads : nat; c_nkeys : nat;
                 c_rounds : list round }.

Fixpoint shard_of (m : list (nat * nat)) (k : nat) : nat :=
  match m with [] => 0 | (k', i) :: r => if Nat.eqb k k' then i else shard_of r k end.

Definition mem (x : nat) (l : list nat) : bool := existsb (Nat.eqb x) l.
Fixpoint nlist_eqb (a b : list nat) : bool :=
  match a, b with [] , [] => true | x :: a', y :: b' => Nat.eqb x y && nlist_eqb a' b' | _, _ => false end.
Definition pair_eqb (a b : nat * (Z * Z)) : bool :=
  Nat.eqb (fst a) (fst b) && Z.eqb (fst (snd a)) (fst (snd b)) && Z.eqb (snd (snd a)) (snd (snd b)).
Fixpoint counts_eqb (a b : list (nat * (Z * Z))) : bool :=
  match a, b with [], [] => true | x :: a', y :: b' => pair_eqb x y && counts_eqb a' b' | _, _ => false end.
Definition obs_eqb (a b : obs) : bool :=
  nlist_eqb (o_ret a) (o_ret b) && counts_eqb (o_counts a) (o_counts b) && Nat.eqb (o_entries a) (o_entries b) &&
  Bool.eqb (o_blocked a) (o_blocked b).

(* ---------------- accept ---------------- *)
Definition internal (l : flabel) : bool :=
  match l with FArrive _ | FAnnounce _ _ | FGrant _ | FToken _ _ => true | _ => false end.
(* a burst: the FCall labels of the callers in the order given, then internal labels and table sections of those callers *)
Fixpoint burst_labels (ids : list nat) (cs : list (nat * (list nat * bool))) (ls : list flabel) : bool :=
  match cs, ls with
  | [], rest => forallb (fun l => internal l || match l with FReg x => mem x ids | _ => false end) rest
  | (t, (ks, w)) :: cs', FCall t' ks' w' :: ls' => Nat.eqb t t' && nlist_eqb ks ks' && Bool.eqb w w' && burst_labels ids cs' ls'
  | _, _ => false
  end.
Definition labels_ok (a : act) (ls : list flabel) : bool :=
  match a, ls with
  | ACall t ks w, FCall t' ks' w' :: rest =>
      Nat.eqb t t' && nlist_eqb ks ks' && Bool.eqb w w' &&
      forallb (fun l => internal l || match l with FReg x => Nat.eqb x t | _ => false end) rest
  | ARel t, FRelease t' :: rest =>
      Nat.eqb t t' && forallb (fun l => internal l || match l with FUnlock x => Nat.eqb x t | _ => false end) rest
  | ABurst cs, _ => burst_labels (map fst cs) cs ls
  | _, _ => false
  end.
Definition act_in_range (nt nk : nat) (a : act) : bool :=
  match a with
  | ACall t ks _ => (t <? nt) && forallb (fun k => k <? nk) ks
  | ARel t => t <? nt
  | ABurst cs => forallb (fun c => (fst c <? nt) && forallb (fun k => k <? nk) (fst (snd c))) cs
  end.

Definition present_counts (nk : nat) (s : fstate) : list (nat * (Z * Z)) :=
  flat_map (fun k => match key_counts s k with Some c => [(k, (Z.of_nat (fst c), Z.of_nat (snd c)))] | None => [] end) (seq 0 nk).
Definition model_obs (nt nk : nat) (s : fstate) : obs :=
  {| o_ret := filter (returned s) (seq 0 nt); o_counts := present_counts nk s; o_entries := length (present_counts nk s);
     o_blocked := false |}.

Fixpoint accept_rounds (sh : nat -> nat) (nt nk : nat) (s : fstate) (rs : list round) : bool :=
  match rs with
  | [] => true
  | r :: rest =>
      act_in_range nt nk (r_act r) && labels_ok (r_act r) (r_labels r) &&
      match frun sh s (r_labels r) with
      | Some s' => quiescent nt s' && obs_eqb (model_obs nt nk s') (r_obs r) && accept_rounds sh nt nk s' rest
      | None => false
      end
  end.
Definition model_matches (c : case) : bool :=
  accept_rounds (shard_of (c_shard c)) (c_nthreads c) (c_nkeys c) finit (c_rounds c).

(* ---------------- holds: the clauses of the property on actions and observations ---------------- *)
Definition caller := (nat * (list nat * bool))%type.
Definition cid (c : caller) := fst c.
Definition cks (c : caller) := fst (snd c).
Definition cw (c : caller) := snd (snd c).
Definition live_after (L : list caller) (a : act) : list caller :=
  match a with
  | ACall t ks w => L ++ [(t, (ks, w))]
  | ARel t => filter (fun c => negb (Nat.eqb (cid c) t)) L
  | ABurst cs => L ++ cs
  end.
Definition shares (c c' : caller) : bool := existsb (fun k => mem k (cks c')) (cks c).
Definition conflicts (c c' : caller) : bool := (cw c || cw c') && shares c c'.

(* exclusion: among callers that have returned and not unlocked, a key of a writer is a key of nobody else
   (all keys of a returned multi-key caller count as held: "holds all listed keys at once") *)
Definition excl_ok (L : list caller) (o : obs) : bool :=
  let R := filter (fun c => mem (cid c) (o_ret o)) L in
  forallb (fun c => forallb (fun c' => Nat.eqb (cid c) (cid c') || negb (conflicts c c')) R) R.
(* whoever has returned is a live caller *)
Definition ret_live (L : list caller) (o : obs) : bool := forallb (fun t => existsb (fun c => Nat.eqb (cid c) t) L) (o_ret o).
(* key independence: a live caller that has not returned shares a key, in a conflicting mode, with another live caller *)
Definition indep_ok (L : list caller) (o : obs) : bool :=
  forallb (fun c => mem (cid c) (o_ret o) || existsb (fun c' => negb (Nat.eqb (cid c) (cid c')) && conflicts c c') L) L.
(* per-key state = exactly the live callers (holders and waiters); hence no per-key state once all are released *)
Definition expect_counts (nk : nat) (L : list caller) : list (nat * (Z * Z)) :=
  flat_map (fun k => let r := length (filter (fun c => negb (cw c) && mem k (cks c)) L) in
                     let w := length (filter (fun c => cw c && mem k (cks c)) L) in
                     if Nat.eqb (r + w) 0 then [] else [(k, (Z.of_nat r, Z.of_nat w))]) (seq 0 nk).
Definition counts_ok (nk : nat) (L : list caller) (o : obs) : bool :=
  counts_eqb (o_counts o) (expect_counts nk L) && Nat.eqb (o_entries o) (length (expect_counts nk L)).
(* no deadlock: while somebody is inside the locker somebody has returned (and can unlock) *)
Definition progress_ok (L : list caller) (o : obs) : bool := is_nil L || negb (is_nil (o_ret o)).

Fixpoint increasing (l : list nat) : bool :=
  match l with x :: ((y :: _) as r) => (x <? y) && increasing r | _ => true end.
Definition act_ordered (a : act) : bool :=
  match a with ACall _ ks _ => increasing ks | ARel _ => true | ABurst cs => forallb (fun c => increasing (fst (snd c))) cs end.
Definition all_ordered (rs : list round) : bool := forallb (fun r => act_ordered (r_act r)) rs.

Fixpoint holds_rounds (ordered : bool) (nk : nat) (L : list caller) (rs : list round) : bool :=
  match rs with
  | [] => negb ordered || is_nil L            (* every ordered program ran to completion *)
  | r :: rest =>
      let L' := live_after L (r_act r) in
      negb (o_blocked (r_obs r)) && ret_live L' (r_obs r) && excl_ok L' (r_obs r) && indep_ok L' (r_obs r) && counts_ok nk L' (r_obs r) &&
      (negb ordered || progress_ok L' (r_obs r)) && holds_rounds ordered nk L' rest
  end.

Definition case_holds (c : case) : bool := holds_rounds (all_ordered (c_rounds c)) (c_nkeys c) [] (c_rounds c).

(* the schedule was driven to the end: every caller of an ordered program has been released.  A fact about the action
   list alone (the harness drains every schedule; a deadlock stops the drain with live callers) *)
Definition final_live (L : list caller) (rs : list round) : list caller := fold_left (fun L r => live_after L (r_act r)) rs L.
Definition drained (c : case) : bool := negb (all_ordered (c_rounds c)) || is_nil (final_live [] (c_rounds c)).
