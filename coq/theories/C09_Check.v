(* C09: what the driver evaluates on every observed case *)
From Coq Require Import List Bool ZArith.
Require Export C09_Model C09_Case.
Require Import C09_Sound C09_Rev.
Import ListNotations.

Definition case := C09_Case.case.
(* the implementation behaved exactly as the model (inputs well-formed, every observable equal to what the model computes) *)
Definition case_accept (c : case) : bool := case_matches c.
(* the property's observable clauses on the observed behaviour *)
Definition case_holds (c : case) : bool := C09_Case.case_holds c.

Theorem case_sound : forall c, case_accept c = true -> case_holds c = true.
Proof. exact matches_holds. Qed.
