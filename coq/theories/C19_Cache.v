(* C19 vcode: facts about the LRU list of the model (lookup / remove / take) *)
From Coq Require Import ZArith List Bool Lia String Ascii.
Require Import C19_Model.
Import ListNotations.
Open Scope Z_scope.

Definition keys (l : cache) : list string := map fst l.

Lemma lookup_remove_eq k l : lookup k (remove k l) = None.
Proof.
  induction l as [|[k' v] l IH]; cbn [remove lookup]; [reflexivity|].
  destruct (String.eqb_spec k k') as [E|E]; [exact IH|].
  cbn [lookup]. destruct (String.eqb_spec k k'); [contradiction|exact IH].
Qed.

Lemma lookup_remove_neq k k' l : k' <> k -> lookup k' (remove k l) = lookup k' l.
Proof.
  intros Hne. induction l as [|[k0 v] l IH]; cbn [remove lookup]; [reflexivity|].
  destruct (String.eqb_spec k k0) as [E|E].
  - subst k0. destruct (String.eqb_spec k' k); [contradiction|exact IH].
  - cbn [lookup]. destruct (String.eqb_spec k' k0); [reflexivity|exact IH].
Qed.

Lemma lookup_In k l v : lookup k l = Some v -> In k (keys l).
Proof.
  induction l as [|[k0 w] l IH]; cbn [lookup keys map fst]; [discriminate|].
  destruct (String.eqb_spec k k0) as [E|E]; intros H.
  - left. now subst.
  - right. apply IH, H.
Qed.

Lemma In_lookup k l : In k (keys l) -> exists v, lookup k l = Some v.
Proof.
  induction l as [|[k0 w] l IH]; cbn [lookup keys map fst In]; [contradiction|].
  intros H. destruct (String.eqb_spec k k0) as [E|E]; [eauto|].
  destruct H as [H|H]; [congruence|]. apply IH, H.
Qed.

Lemma lookup_None_notin k l : lookup k l = None -> ~ In k (keys l).
Proof. intros H Hin. apply In_lookup in Hin as [v Hv]. congruence. Qed.

Lemma keys_remove k l x : In x (keys (remove k l)) -> In x (keys l) /\ x <> k.
Proof.
  induction l as [|[k0 w] l IH]; cbn [remove keys map fst In]; [contradiction|].
  destruct (String.eqb_spec k k0) as [E|E].
  - intros H. apply IH in H as [H1 H2]. split; [right; exact H1|exact H2].
  - cbn [keys map fst In]. intros [H|H].
    + subst x. split; [left; reflexivity|congruence].
    + apply IH in H as [H1 H2]. split; [right; exact H1|exact H2].
Qed.

Lemma NoDup_remove k l : NoDup (keys l) -> NoDup (keys (remove k l)).
Proof.
  induction l as [|[k0 w] l IH]; cbn [remove keys map fst]; intros H; [constructor|].
  inversion H as [|x xs Hn Hd]; subst.
  destruct (String.eqb_spec k k0) as [E|E]; [apply IH, Hd|].
  cbn [keys map fst]. constructor; [|apply IH, Hd].
  intros Hin. apply keys_remove in Hin as [Hin _]. exact (Hn Hin).
Qed.

Lemma NoDup_front k v l : NoDup (keys l) -> NoDup (keys ((k, v) :: remove k l)).
Proof.
  intros H. cbn [keys map fst]. constructor; [|apply NoDup_remove, H].
  intros Hin. apply keys_remove in Hin as [_ Hne]. congruence.
Qed.

Lemma take_lookup n : forall l k v, lookup k (take n l) = Some v -> lookup k l = Some v.
Proof.
  intros l. revert n. induction l as [|[k0 w] l IH]; intros n k v; cbn [take lookup]; [discriminate|].
  destruct (n <=? 0); [discriminate|]. cbn [lookup].
  destruct (String.eqb k k0); [auto|]. apply IH.
Qed.

Lemma take_keys n : forall l x, In x (keys (take n l)) -> In x (keys l).
Proof.
  intros l. revert n. induction l as [|[k0 w] l IH]; intros n x; cbn [take keys map fst In]; [auto|].
  destruct (n <=? 0); [contradiction|]. cbn [keys map fst In]. intros [H|H]; [left; exact H|right; eapply IH, H].
Qed.

Lemma NoDup_take n : forall l, NoDup (keys l) -> NoDup (keys (take n l)).
Proof.
  intros l. revert n. induction l as [|[k0 w] l IH]; intros n H; cbn [take keys map fst]; [constructor|].
  destruct (n <=? 0); [constructor|]. inversion H as [|x xs Hn Hd]; subst.
  cbn [keys map fst]. constructor; [|apply IH, Hd].
  intros Hin. apply take_keys in Hin. exact (Hn Hin).
Qed.

Lemma take_all : forall l n, Z.of_nat (List.length l) <= n -> take n l = l.
Proof.
  induction l as [|x l IH]; intros n H; cbn [take]; [reflexivity|].
  cbn [List.length] in H. destruct (n <=? 0) eqn:E; [apply Z.leb_le in E; lia|].
  f_equal. apply IH. lia.
Qed.

Lemma take_length : forall l n, 0 <= n -> Z.of_nat (List.length (take n l)) <= n.
Proof.
  induction l as [|x l IH]; intros n H; cbn [take]; [cbn; lia|].
  destruct (n <=? 0) eqn:E; [cbn; lia|]. apply Z.leb_gt in E. cbn [List.length].
  specialize (IH (n - 1)). lia.
Qed.

Lemma keys_length l : List.length (keys l) = List.length l.
Proof. apply map_length. Qed.
