(* C07: the snowflake id codec of idgen/snowflake/snowflake.go as executable Gallina.
   No proofs in this file (they are in C07_Proofs.v), so it still evaluates when a proof breaks.

   Modelling conventions (DESIGN 2.3): int64 values are Z; an operation that can wrap in Go is written with
   wrap64; `>>` on int64 is the arithmetic shift = Z.shiftr (floor), `&`/`|` are Z.land/Z.lor (two's complement
   on negative Z, as in Go).  timeLoc (Asia/Shanghai) is the constant offset +8 h: true for every instant after
   1991-09-15 (trusted-base assumption; the harness samples Go's tzdata on every run, case kind CZone). *)
From Coq Require Import ZArith List Lia Bool.
Require Import Decimal Civil BitField Cn.
Import ListNotations.
Open Scope Z_scope.

(* _epoch (ms), _nodeBits, _nodeAtLowest: snowflake.go:36-45 *)
Record cfg := mkcfg { epoch : Z; node_bits : Z; node_low : bool }.

(* ---- the public configuration API: snowflake.go:85-124 ----
   UseEpoch(t) stores t.UnixMilli() (the instant is carried as nanoseconds since 1970, UnixMilli is the floor to the
   millisecond; no wrap for |ms| < 2^63, which every case satisfies); UseNodeMode(m) keeps Node256 (8) and Node512 (9)
   and turns EVERY other value (also 0, 7, 11, 255) into Node1024 (10); NodeAtLowest() can only switch the flag on.
   Setup starts from the CURRENT globals, not from the package defaults, applies the options left to right and writes
   the three globals back - so it is cumulative (a later Setup() without NodeAtLowest keeps the flag). *)
Inductive opt := OEpoch (ns : Z) | OMode (m : Z) | OLowest.
Definition apply_opt (c : cfg) (o : opt) : cfg :=
  match o with
  | OEpoch ns => mkcfg (ns / 1000000) (node_bits c) (node_low c)
  | OMode m => mkcfg (epoch c) (if (m =? 8) || (m =? 9) then m else 10) (node_low c)
  | OLowest => mkcfg (epoch c) (node_bits c) true
  end.
Definition setup_from (cur : cfg) (opts : list opt) : cfg := fold_left apply_opt opts cur.
Definition default_cfg : cfg := mkcfg 1609430400000 10 false.       (* the initial values of the three globals *)
Definition setup (opts : list opt) : cfg := setup_from default_cfg opts.

Definition STEP_BITS : Z := 12.
Definition OFF : Z := 28800000.                    (* zone offset of timeLoc in ms *)
Definition wrap64 (x : Z) : Z := (x + 2 ^ 63) mod 2 ^ 64 - 2 ^ 63.

(* figureShift: snowflake.go:248-258 *)
Definition time_shift (c : cfg) : Z := node_bits c + STEP_BITS.
Definition node_shift (c : cfg) : Z := if node_low c then 0 else STEP_BITS.
Definition step_shift (c : cfg) : Z := if node_low c then node_bits c else 0.

(* IDFields: snowflake.go:129-139 *)
Definition id_fields (c : cfg) (id : Z) : Z * Z * Z :=
  let node_max := 2 ^ node_bits c - 1 in
  let step_max := 2 ^ STEP_BITS - 1 in
  (Z.shiftr id (time_shift c),
   Z.land (Z.shiftr id (node_shift c)) node_max,
   Z.land (Z.shiftr id (step_shift c)) step_max).

(* IDParse: snowflake.go:141-147 (timeMs += _epoch; no wrap for |epoch| < 2^62, which every case satisfies) *)
Definition id_parse (c : cfg) (id : Z) : Z * Z * Z :=
  let '(t, n, s) := id_fields c id in (t + epoch c, n, s).

(* IDParseEx: snowflake.go:149-157; time.Unix(ts/1000, (ts%1000)*1e6) is the instant ts ms (time.Unix normalises a
   negative nsec), observed through UnixMilli *)
Definition id_parse_ex (c : cfg) (id : Z) : Z * Z * Z := id_parse c id.

(* the recombination, as HardNode.Generate writes it: time<<timeShift | node<<nodeShift | step<<stepShift *)
Definition compose (c : cfg) (t n s : Z) : Z :=
  Z.lor (Z.lor (Z.shiftl t (time_shift c)) (Z.shiftl n (node_shift c))) (Z.shiftl s (step_shift c)).

(* an instant handed to the range functions is a time.Time = (sec, nsec) with 0 <= nsec < 1e9; the case files carry
   it as one number of nanoseconds since 1970, t.Unix() is the floor to the second *)
Definition unix_s (ns : Z) : Z := ns / 1000000000.

(* TimeIDRange: snowflake.go:159-170 *)
Definition time_id_range (c : cfg) (t : Z) : Z * Z :=
  let ts := unix_s t in
  let time_ms := wrap64 (ts * 1000 - epoch c) in
  let time_ms := wrap64 (Z.shiftl time_ms (time_shift c)) in
  let re_max := 2 ^ time_shift c - 1 in
  (time_ms, Z.lor time_ms re_max).

(* TimeBetweenID: snowflake.go:172-182 *)
Definition time_between_id (c : cfg) (b e : Z) : Z * Z :=
  let begin_ms := wrap64 (unix_s b * 1000 - epoch c) in
  let mn := wrap64 (Z.shiftl begin_ms (time_shift c)) in
  let re_max := 2 ^ time_shift c - 1 in
  let end_ms := wrap64 (unix_s e * 1000 - epoch c) in
  (mn, Z.lor (wrap64 (Z.shiftl end_ms (time_shift c))) re_max).

(* CnStyle: snowflake.go:189-207 = Cn.cn_style (the instant (id >> shift) + epoch in the zone, eight %0Nd fields) *)
Definition cn_style (c : cfg) (id : Z) : list Z := Cn.cn_style (time_shift c) (epoch c) OFF id.

(* strconv.Atoi, the fast path taken for 0 < len < 19 (every field here has at most 7 characters):
   optional sign, then the digit loop; "" / "+" / "-" / a non-digit are syntax errors *)
Definition atoi (l : list Z) : option Z :=
  match l with
  | [] => None
  | c :: r =>
      if (c =? 45) || (c =? 43) then
        match r with
        | [] => None
        | _ => match parse_acc r 0 with
               | Some n => Some (if c =? 45 then - n else n)
               | None => None
               end
        end
      else parse_acc l 0
  end.

Inductive res := Ok (v : Z) | ErrLen | ErrSyntax
  | Other.   (* any other error or a panic: never produced by the model, never accepted *)

(* FromChStyle: snowflake.go:209-246.  time.Date normalises the month into the year (floor) and is linear in day,
   hour, minute, second, nanosecond; then UnixMilli - epoch, << timeShift (wraps), | left *)
Definition from_ch (c : cfg) (v : list Z) : res :=
  if negb (Nat.eqb (length v) 24) then ErrLen else
  let '(fy, v1) := cut 4 v in let '(fm, v2) := cut 2 v1 in let '(fd, v3) := cut 2 v2 in let '(fh, v4) := cut 2 v3 in
  let '(fi, v5) := cut 2 v4 in let '(fs, v6) := cut 2 v5 in let '(fms, fl) := cut 3 v6 in
  match atoi fy, atoi fm, atoi fd, atoi fh, atoi fi, atoi fs, atoi fms, atoi fl with
  | Some y, Some m, Some d, Some hh, Some mi, Some ss, Some ms, Some lft =>
      let y' := y + (m - 1) / 12 in
      let m' := (m - 1) mod 12 + 1 in
      let t := days_from_civil y' m' d * DAY + hh * 3600000 + mi * 60000 + ss * 1000 + ms - OFF in
      let tms := wrap64 (t - epoch c) in
      Ok (Z.lor (wrap64 (Z.shiftl tms (time_shift c))) lft)
  | _, _, _, _, _, _, _, _ => ErrSyntax
  end.

(* the code before `fix: snowflake reads milliseconds with UnixMilli`: t.UnixNano()/MsDivNs, UnixNano wraps in int64,
   `/` truncates *)
Definition from_ch_unixnano (c : cfg) (v : list Z) : res :=
  if negb (Nat.eqb (length v) 24) then ErrLen else
  let '(fy, v1) := cut 4 v in let '(fm, v2) := cut 2 v1 in let '(fd, v3) := cut 2 v2 in let '(fh, v4) := cut 2 v3 in
  let '(fi, v5) := cut 2 v4 in let '(fs, v6) := cut 2 v5 in let '(fms, fl) := cut 3 v6 in
  match atoi fy, atoi fm, atoi fd, atoi fh, atoi fi, atoi fs, atoi fms, atoi fl with
  | Some y, Some m, Some d, Some hh, Some mi, Some ss, Some ms, Some lft =>
      let y' := y + (m - 1) / 12 in
      let m' := (m - 1) mod 12 + 1 in
      let t := days_from_civil y' m' d * DAY + hh * 3600000 + mi * 60000 + ss * 1000 + ms - OFF in
      let tms := wrap64 (Z.quot (wrap64 (t * 1000000)) 1000000 - epoch c) in
      Ok (Z.lor (wrap64 (Z.shiftl tms (time_shift c))) lft)
  | _, _, _, _, _, _, _, _ => ErrSyntax
  end.

(* the zone assumption, as a function of the instant (ms since 1970): +8 h from 1991-09-15 00:00 local on *)
Definition ZONE_FROM : Z := 684979200000.           (* 1991-09-16T00:00:00Z, after the last transition of Asia/Shanghai *)
