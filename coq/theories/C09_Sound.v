(* C09: what the model produces satisfies the property's clauses (model_holds style lemmas), per kind of case *)
From Coq Require Import ZArith List Bool Lia Sorted.
Require Import Cases_Common LE Marshal C09_Model C09_Lists C09_Bits C09_Case.
Import ListNotations.
Open Scope Z_scope.

(* ------------------------------------------------------------------ small reflections *)
Lemma zlist_eqb_refl l : zlist_eqb l l = true.
Proof. apply list_eqb_refl. apply Z.eqb_refl. Qed.
Lemma iobs_eqb_refl a : iobs_eqb a a = true.
Proof. destruct a; cbn; [reflexivity|apply zlist_eqb_refl]. Qed.
Lemma boollist_eqb_refl l : list_eqb Bool.eqb l l = true.
Proof. apply list_eqb_refl. apply Bool.eqb_reflx. Qed.

Lemma wfb_wf b : wfb b = true -> wf b.
Proof.
  unfold wfb, wf. intros H. apply andb_prop in H. destruct H as [H1 H2]. apply Z.eqb_eq in H1. unfold zlen in H1.
  split; [lia|]. apply Forall_forall. intros w Hw. rewrite forallb_forall in H2. specialize (H2 w Hw).
  apply andb_prop in H2. destruct H2 as [Ha Hb]. apply Z.leb_le in Ha. apply Z.ltb_lt in Hb. lia.
Qed.
Lemma bytes_okb_ok bs : bytes_okb bs = true -> bytes_ok bs.
Proof.
  unfold bytes_okb, bytes_ok. intros H. apply Forall_forall. intros x Hx. rewrite forallb_forall in H. specialize (H x Hx).
  apply andb_prop in H. destruct H as [Ha Hb]. apply Z.leb_le in Ha. apply Z.ltb_lt in Hb. lia.
Qed.

(* ------------------------------------------------------------------ Unmarshal by cases of the length *)
Lemma unmarshal_nil b : unmarshal b [] = UOk b.
Proof. reflexivity. Qed.
Lemma unmarshal_long b bs : 128 < zlen bs -> unmarshal b bs = UErr.
Proof.
  intros H. unfold unmarshal. replace (zlen bs =? 0) with false by (symmetry; apply Z.eqb_neq; lia).
  replace (128 <? zlen bs) with true by (symmetry; apply Z.ltb_lt; lia). reflexivity.
Qed.
Lemma rem2 n : 0 <= n -> Z.rem n 2 = n mod 2.
Proof. intros H. apply Z.rem_mod_nonneg; lia. Qed.
Lemma unmarshal_odd b bs : zlen bs <= 128 -> zlen bs mod 2 <> 0 -> unmarshal b bs = UErr.
Proof.
  intros H Ho. unfold unmarshal. pose proof (zlen_nonneg bs) as Hn.
  replace (zlen bs =? 0) with false by (symmetry; apply Z.eqb_neq; intros E; rewrite E in Ho; apply Ho; reflexivity).
  replace (128 <? zlen bs) with false by (symmetry; apply Z.ltb_ge; lia).
  rewrite rem2 by exact Hn. replace (zlen bs mod 2 =? 0) with false by (symmetry; apply Z.eqb_neq; exact Ho). reflexivity.
Qed.
Lemma unmarshal_sparse b bs : 0 < zlen bs < 128 -> zlen bs mod 2 = 0 -> unmarshal b bs = unm_sparse b bs.
Proof.
  intros H He. unfold unmarshal.
  replace (zlen bs =? 0) with false by (symmetry; apply Z.eqb_neq; lia).
  replace (128 <? zlen bs) with false by (symmetry; apply Z.ltb_ge; lia).
  rewrite rem2 by lia. rewrite He. cbn [Z.eqb negb].
  replace (zlen bs <? 128) with true by (symmetry; apply Z.ltb_lt; lia). reflexivity.
Qed.
Lemma unmarshal_dense b bs : zlen bs = 128 -> unmarshal b bs = UOk (undense 16 bs).
Proof. intros H. unfold unmarshal. rewrite H. reflexivity. Qed.

(* ------------------------------------------------------------------ the sparse form *)
Lemma pairs_ind (P : list Z -> Prop) :
  P [] -> (forall x, P [x]) -> (forall x y r, P r -> P (x :: y :: r)) -> forall l, P l.
Proof.
  intros H0 H1 H2. fix IH 1. intros [|x [|y r]]; [exact H0|apply H1|apply H2, IH].
Qed.

Lemma unm_sparse_spec bs : bytes_ok bs -> forall b,
  unm_sparse b bs = if forallb (fun u => u <=? 1023) (pair_vals bs) then UOk (fold_left set_i16 (pair_vals bs) b) else UErr.
Proof.
  induction bs as [| x | x y r IH] using pairs_ind; intros Hok b; [reflexivity|reflexivity|].
  unfold bytes_ok in Hok. inversion Hok as [|? ? Hx Hr1]; subst. inversion Hr1 as [|? ? Hy Hr]; subst.
  cbn [unm_sparse pair_vals forallb fold_left].
  destruct (x + 256 * y <? 32768) eqn:E1.
  - apply Z.ltb_lt in E1. replace (x + 256 * y <? 0) with false by (symmetry; apply Z.ltb_ge; lia). cbn [orb].
    destruct (x + 256 * y <=? 1023) eqn:E2.
    + apply Z.leb_le in E2. replace (1023 <? x + 256 * y) with false by (symmetry; apply Z.ltb_ge; lia). cbn [andb]. apply IH, Hr.
    + apply Z.leb_gt in E2. replace (1023 <? x + 256 * y) with true by (symmetry; apply Z.ltb_lt; lia). reflexivity.
  - apply Z.ltb_ge in E1. replace (x + 256 * y - 65536 <? 0) with true by (symmetry; apply Z.ltb_lt; lia). cbn [orb].
    replace (x + 256 * y <=? 1023) with false by (symmetry; apply Z.leb_gt; lia). reflexivity.
Qed.

Lemma pair_vals_encode ms : Forall in_range ms -> pair_vals (encode_sparse ms) = ms.
Proof.
  induction 1 as [|m ms Hm _ IH]; [reflexivity|]. unfold in_range in Hm.
  cbn [encode_sparse flat_map app pair_vals]. fold (encode_sparse ms). rewrite IH. f_equal.
  pose proof (Z.div_mod m 256 ltac:(lia)). lia.
Qed.
Lemma encode_sparse_ok ms : Forall in_range ms -> bytes_ok (encode_sparse ms).
Proof.
  induction 1 as [|m ms Hm _ IH]; [constructor|]. unfold in_range in Hm.
  cbn [encode_sparse flat_map app]. fold (encode_sparse ms).
  constructor; [apply Z.mod_pos_bound; lia|]. constructor; [|exact IH].
  split; [apply Z.div_pos; lia|apply Z.div_lt_upper_bound; lia].
Qed.
Lemma zlen_encode_sparse ms : zlen (encode_sparse ms) = 2 * zlen ms.
Proof. unfold zlen. rewrite encode_length. lia. Qed.
Lemma forallb_range ms : Forall in_range ms -> forallb (fun u => u <=? 1023) ms = true.
Proof. intros H. apply forallb_forall. intros u Hu. rewrite Forall_forall in H. specialize (H u Hu). unfold in_range in H. apply Z.leb_le. lia. Qed.

(* ------------------------------------------------------------------ Marshal then Unmarshal *)
Lemma iter_all_members b : length b = 16%nat -> iter1024 false idz b 0 (blen b) = members b.
Proof.
  intros Hl. rewrite iter1024_fwd by exact Hl. rewrite (blen_members b Hl), take_all by lia.
  rewrite <- (map_id (members b)) at 2. apply map_ext. intros m. unfold idz. lia.
Qed.

Theorem marshal_unmarshal b : wf b -> unmarshal zero (marshal b) = UOk b.
Proof.
  intros Hw. pose proof Hw as [Hl Hf]. unfold marshal.
  pose proof (blen_members b Hl) as Hn. pose proof (zlen_nonneg (members b)) as Hnn.
  destruct (blen b =? 0) eqn:E0.
  - apply Z.eqb_eq in E0. rewrite unmarshal_nil. f_equal.
    rewrite <- (fold_set_members b Hw). rewrite (zlen_nil_inv (members b)) by lia. reflexivity.
  - apply Z.eqb_neq in E0. destruct (blen b <? 64) eqn:E1.
    + apply Z.ltb_lt in E1. rewrite (iter_all_members b Hl).
      rewrite unmarshal_sparse.
      * rewrite unm_sparse_spec by (apply encode_sparse_ok, members_range).
        rewrite pair_vals_encode by apply members_range. rewrite forallb_range by apply members_range.
        f_equal. apply fold_set_members, Hw.
      * rewrite zlen_encode_sparse. lia.
      * rewrite zlen_encode_sparse. rewrite Z.mul_comm. apply Z.mod_mul. lia.
    + rewrite unmarshal_dense.
      * f_equal. replace 16%nat with (length b). apply dense_roundtrip. exact Hf.
      * unfold zlen. rewrite dense_length, Hl. reflexivity.
Qed.

Lemma card_members b : card b = zlen (members b).
Proof. unfold card, members. reflexivity. Qed.

(* the form Marshal chooses: two bytes per member below 64 members, 128 bytes from 64 on *)
Theorem marshal_length b : length b = 16%nat ->
  zlen (marshal b) = if card b <? 64 then 2 * card b else 128.
Proof.
  intros Hl. unfold marshal. rewrite card_members. rewrite (blen_members b Hl).
  pose proof (zlen_nonneg (members b)) as Hnn.
  destruct (zlen (members b) =? 0) eqn:E0.
  - apply Z.eqb_eq in E0. rewrite E0. reflexivity.
  - destruct (zlen (members b) <? 64) eqn:E1.
    + replace (iter1024 false idz b 0 (zlen (members b))) with (members b)
        by (rewrite <- (blen_members b Hl); symmetry; apply iter_all_members, Hl).
      apply zlen_encode_sparse.
    + unfold zlen at 1. rewrite dense_length, Hl. reflexivity.
Qed.

Theorem marshal_case_sound b bytes r : case_matches (CMarshal b bytes r) = true -> case_holds (CMarshal b bytes r) = true.
Proof.
  cbn [case_matches case_holds]. intros H. apply andb_prop in H. destruct H as [H H3]. apply andb_prop in H. destruct H as [H1 H2].
  apply wfb_wf in H1. apply zlist_eqb_eq in H2. apply ures_eqb_eq in H3. subst bytes.
  rewrite (marshal_unmarshal b H1) in H3. subst r. rewrite zlist_eqb_refl. cbn [andb].
  apply Z.eqb_eq. apply marshal_length. apply H1.
Qed.

(* ------------------------------------------------------------------ arbitrary bytes: the dense form, bit by bit *)
Lemma nth_nil0 k : nth k (@nil Z) 0 = 0.
Proof. destruct k; reflexivity. Qed.

Lemma testbit_le_val bs : bytes_ok bs -> forall i, 0 <= i ->
  Z.testbit (le_val bs) i = Z.testbit (nth (Z.to_nat (i / 8)) bs 0) (i mod 8).
Proof.
  unfold bytes_ok. induction 1 as [|x r Hx Hr IH]; intros i Hi.
  - cbn [le_val]. rewrite nth_nil0. now rewrite !Z.bits_0.
  - cbn [le_val]. destruct (Z.lt_ge_cases i 8) as [H8|H8].
    + replace (i / 8) with 0 by (Z.to_euclidean_division_equations; lia).
      replace (i mod 8) with i by (Z.to_euclidean_division_equations; lia). cbn [Z.to_nat nth].
      rewrite <- (Z.mod_pow2_bits_low (x + 256 * le_val r) 8 i) by lia.
      f_equal. change (2 ^ 8) with 256. Z.to_euclidean_division_equations; lia.
    + replace i with ((i - 8) + 8) at 1 by lia. rewrite <- (Z.div_pow2_bits (x + 256 * le_val r) 8 (i - 8)) by lia.
      replace ((x + 256 * le_val r) / 2 ^ 8) with (le_val r) by (change (2 ^ 8) with 256; Z.to_euclidean_division_equations; lia).
      rewrite IH by lia.
      replace (Z.to_nat (i / 8)) with (S (Z.to_nat ((i - 8) / 8))) by (Z.to_euclidean_division_equations; lia).
      cbn [nth]. f_equal. Z.to_euclidean_division_equations; lia.
Qed.

Lemma nth_firstn_lt {A} (d : A) n : forall k l, (k < n)%nat -> nth k (firstn n l) d = nth k l d.
Proof.
  induction n as [|n IH]; intros k l H; [lia|]. destruct l as [|x l]; [now rewrite firstn_nil|].
  cbn [firstn]. destruct k as [|k]; [reflexivity|]. cbn [nth]. apply IH. lia.
Qed.
Lemma nth_skipn' {A} (d : A) n : forall k l, nth k (skipn n l) d = nth (n + k) l d.
Proof.
  induction n as [|n IH]; intros k l; [reflexivity|]. destruct l as [|x l]; [cbn [skipn]; now destruct k|].
  cbn [skipn Nat.add nth]. apply IH.
Qed.
Lemma bytes_ok_firstn n bs : bytes_ok bs -> bytes_ok (firstn n bs).
Proof. unfold bytes_ok. intros H. rewrite <- (firstn_skipn n bs) in H. apply Forall_app in H. tauto. Qed.
Lemma bytes_ok_skipn n bs : bytes_ok bs -> bytes_ok (skipn n bs).
Proof. unfold bytes_ok. intros H. rewrite <- (firstn_skipn n bs) in H. apply Forall_app in H. tauto. Qed.

Lemma undense_bit k : forall bs j, bytes_ok bs -> 0 <= j < 64 * Z.of_nat k ->
  Z.testbit (nth (Z.to_nat (j / 64)) (undense k bs) 0) (j mod 64) = Z.testbit (nth (Z.to_nat (j / 8)) bs 0) (j mod 8).
Proof.
  induction k as [|k IH]; intros bs j Hok Hj; [lia|]. cbn [undense].
  destruct (Z.lt_ge_cases j 64) as [H64|H64].
  - replace (j / 64) with 0 by (Z.to_euclidean_division_equations; lia).
    replace (j mod 64) with j by (Z.to_euclidean_division_equations; lia). cbn [Z.to_nat nth].
    rewrite testbit_le_val by (try apply bytes_ok_firstn; auto; lia).
    rewrite nth_firstn_lt by (Z.to_euclidean_division_equations; lia). reflexivity.
  - replace (Z.to_nat (j / 64)) with (S (Z.to_nat ((j - 64) / 64))) by (Z.to_euclidean_division_equations; lia).
    cbn [nth]. replace (j mod 64) with ((j - 64) mod 64) by (Z.to_euclidean_division_equations; lia).
    rewrite IH by (try apply bytes_ok_skipn; auto; lia). rewrite nth_skipn'.
    replace (8 + Z.to_nat ((j - 64) / 8))%nat with (Z.to_nat (j / 8)) by (Z.to_euclidean_division_equations; lia).
    f_equal. Z.to_euclidean_division_equations; lia.
Qed.

Theorem member_undense bs j : bytes_ok bs -> in_range j ->
  member (undense 16 bs) j = Z.testbit (nth (Z.to_nat (j / 8)) bs 0) (j mod 8).
Proof.
  intros Hok Hj. rewrite member_bit by exact Hj. unfold bit. apply undense_bit; [exact Hok|]. unfold in_range in Hj. lia.
Qed.

Lemma pair_vals_range bs : bytes_ok bs -> forallb (fun u => u <=? 1023) (pair_vals bs) = true -> Forall in_range (pair_vals bs).
Proof.
  induction bs as [| x | x y r IH] using pairs_ind; intros Hok H; [constructor|constructor|].
  unfold bytes_ok in Hok. inversion Hok as [|? ? Hx Hr1]; subst. inversion Hr1 as [|? ? Hy Hr]; subst.
  cbn [pair_vals forallb] in *. apply andb_prop in H. destruct H as [H1 H2]. apply Z.leb_le in H1.
  constructor; [unfold in_range; lia|apply IH; assumption].
Qed.

(* every byte string: refused exactly when it denotes nothing, otherwise exactly the denoted set; never a panic *)
Theorem unmarshal_denoted bs : bytes_ok bs ->
  match denoted bs with
  | None => unmarshal zero bs = UErr
  | Some dn => exists b, unmarshal zero bs = UOk b /\ length b = 16%nat /\ forall j, in_range j -> member b j = dn j
  end.
Proof.
  intros Hok. unfold denoted. pose proof (zlen_nonneg bs) as Hn.
  destruct (zlen bs =? 0) eqn:E0.
  { apply Z.eqb_eq in E0. rewrite (zlen_nil_inv bs E0). exists zero. split; [reflexivity|]. split; [reflexivity|]. intros j _. apply member_zero. }
  apply Z.eqb_neq in E0. destruct (zlen bs =? 128) eqn:E128.
  { apply Z.eqb_eq in E128. exists (undense 16 bs). split; [apply unmarshal_dense, E128|]. split.
    - clear. generalize 16%nat. intros k. revert bs. induction k as [|k IH]; intros bs; cbn [undense length]; [reflexivity|]. now rewrite IH.
    - intros j Hj. apply member_undense; assumption. }
  apply Z.eqb_neq in E128. destruct (zlen bs <? 128) eqn:Elt; cbn [andb].
  - apply Z.ltb_lt in Elt. destruct (zlen bs mod 2 =? 0) eqn:Ee; cbn [andb].
    + apply Z.eqb_eq in Ee. rewrite unmarshal_sparse by lia. rewrite unm_sparse_spec by exact Hok.
      destruct (forallb (fun u => u <=? 1023) (pair_vals bs)) eqn:Ef; [|reflexivity].
      exists (fold_left set_i16 (pair_vals bs) zero). split; [reflexivity|]. split; [now rewrite fold_set_length|].
      intros j _. rewrite member_fold_set by (try apply pair_vals_range; auto). now rewrite member_zero.
    + apply Z.eqb_neq in Ee. apply unmarshal_odd; [lia|exact Ee].
  - apply Z.ltb_ge in Elt. apply unmarshal_long. lia.
Qed.

Lemma holds_of_denoted bs st : bytes_ok bs ->
  match denoted bs, from_unm st (unmarshal zero bs) with
  | None, DErr => true
  | Some dn, DOk blk => (start blk =? st) && forallb (fun j => Bool.eqb (member (bits blk) j) (dn j)) z1024
  | _, _ => false
  end = true.
Proof.
  intros Hok. pose proof (unmarshal_denoted bs Hok) as H. destruct (denoted bs) as [dn|].
  - destruct H as (b & E & _ & Hm). rewrite E. cbn [from_unm start bits]. rewrite Z.eqb_refl. cbn [andb].
    apply forallb_forall. intros j Hj. apply in_z1024 in Hj. rewrite Hm by exact Hj. apply Bool.eqb_reflx.
  - rewrite H. reflexivity.
Qed.

Theorem unm_case_sound via st bytes r : case_matches (CUnm via st bytes r) = true -> case_holds (CUnm via st bytes r) = true.
Proof.
  cbn [case_matches case_holds]. intros H. apply andb_prop in H. destruct H as [H H2]. apply andb_prop in H. destruct H as [H H1].
  apply andb_prop in H. destruct H as [Hv0 Hv2]. apply Z.leb_le in Hv0. apply Z.leb_le in Hv2.
  apply bytes_okb_ok in H1. apply dres_eqb_eq in H2. subst r.
  destruct (via =? 0) eqn:E0.
  { apply Z.eqb_eq in E0. subst via. cbn [Z.eqb andb]. apply holds_of_denoted, H1. }
  destruct (via =? 1) eqn:E1.
  { apply Z.eqb_eq in E1. subst via. cbn [Z.eqb andb]. apply holds_of_denoted, H1. }
  apply Z.eqb_neq in E0. apply Z.eqb_neq in E1. assert (via = 2) by lia. subst via. cbn [Z.eqb andb].
  unfold tip_from_data. destruct (MAXTIP <? st) eqn:Em; [reflexivity|]. apply holds_of_denoted, H1.
Qed.

(* ------------------------------------------------------------------ first n of a sorted set *)
Section FirstN.
  Variable R : Z -> Z -> bool.
  Variable Rp : Z -> Z -> Prop.
  Hypothesis R_of : forall x y, Rp x y -> R x y = true.

  Lemma sortedb_of l : StronglySorted Rp l -> sortedb R l = true.
  Proof.
    induction 1 as [|x l Hs IH Hx]; cbn [sortedb]; [reflexivity|]. rewrite IH, andb_true_r.
    apply forallb_forall. intros y Hy. rewrite Forall_forall in Hx. apply R_of, Hx, Hy.
  Qed.

  Lemma first_n_sound ss n M : 0 <= n -> StronglySorted Rp M -> (forall x, In x M <-> In x ss) ->
    first_n_of R ss n (take n M) = true.
  Proof.
    intros Hn Hs Hm. unfold first_n_of.
    destruct (take_split n M) as (rest & E & Hrest).
    assert (Hs' : StronglySorted Rp (take n M ++ rest)) by (rewrite <- E; exact Hs).
    apply sorted_app_inv in Hs'. destruct Hs' as (Hst & _ & Hlt).
    rewrite (sortedb_of _ Hst). cbn [andb].
    replace (forallb (fun x => memz x ss) (take n M)) with true.
    2:{ symmetry. apply forallb_forall. intros x Hx. apply memz_In, Hm. eapply in_take, Hx. }
    cbn [andb]. replace (zlen (take n M) <=? n) with true by (symmetry; apply Z.leb_le; rewrite zlen_take; lia).
    cbn [andb]. apply forallb_forall. intros s Hs0. apply Hm in Hs0. rewrite E in Hs0. apply in_app_or in Hs0.
    destruct Hs0 as [Hin|Hin].
    - apply orb_true_intro. left. apply memz_In, Hin.
    - apply orb_true_intro. right.
      assert (Hne : rest <> []) by (intros ->; destruct Hin).
      destruct (Hrest Hne) as [Hl|Hl]; [|lia]. rewrite Hl, Z.eqb_refl. cbn [andb].
      apply forallb_forall. intros x Hx. apply R_of. apply Hlt; assumption.
  Qed.
End FirstN.

Lemma ltb_of x y : x < y -> (x <? y) = true. Proof. apply Z.ltb_lt. Qed.
Lemma gtb_of x y : x > y -> (x >? y) = true. Proof. intros H. rewrite Z.gtb_ltb. apply Z.ltb_lt. lia. Qed.

(* ------------------------------------------------------------------ one block *)
Section Block.
  (* the Set method of the block type: accepts u exactly when ok (Start) u, and then sets position u mod 1024 *)
  Variable ok : Z -> Z -> bool.
  Variable st : block -> Z -> option block.
  Hypothesis st_spec : forall b u,
    st b u = if ok (start b) u then Some {| start := start b; bits := set_i16 (bits b) (u mod 1024) |} else None.

  Lemma sets_spec us : forall b,
    sets st b us = (map (ok (start b)) us,
                    {| start := start b; bits := fold_left set_i16 (map (fun u => u mod 1024) (filter (ok (start b)) us)) (bits b) |}).
  Proof.
    induction us as [|u us IH]; intros b; cbn [sets map filter fold_left]; [destruct b; reflexivity|].
    rewrite st_spec. destruct (ok (start b) u) eqn:E.
    - rewrite IH. cbn [start bits map fold_left]. reflexivity.
    - rewrite IH. reflexivity.
  Qed.

  Variable gn : bool -> block -> Z -> iobs.
  Variable same : Z -> Z -> bool.
  Variable v : Z.
  Let s := v / 1024.
  Hypothesis same_ok : forall u, same v u = ok s u.
  Hypothesis ok_block : forall u, ok s u = true -> u / 1024 = s.
  Hypothesis gn_spec : forall rv b k, 0 <= k -> length (bits b) = 16%nat -> start b = s ->
    gn rv b k = IList (map (fun m => m + 1024 * s) (take k (if rv then rev (members (bits b)) else members (bits b)))).

  Lemma mod_range u : in_range (u mod 1024).
  Proof. unfold in_range. apply Z.mod_pos_bound. lia. Qed.

  Lemma block_run_holds us n b0 : start b0 = s -> bits b0 = set_i16 zero (v mod 1024) ->
    block_holds same v us n (model_block_run (Some b0) st gn us n) = true.
  Proof.
    intros Hs0 Hb0. unfold model_block_run. rewrite sets_spec. rewrite Hs0. unfold block_holds.
    fold s. rewrite Z.eqb_refl. cbn [andb].
    replace (map (same v) us) with (map (ok s) us) by (apply map_ext; intros u; symmetry; apply same_ok).
    rewrite boollist_eqb_refl. cbn [andb].
    destruct (n <? 0) eqn:En; [reflexivity|]. apply Z.ltb_ge in En. cbn [orb].
    set (acc := filter (ok s) us).
    set (bf := {| start := s; bits := fold_left set_i16 (map (fun u => u mod 1024) acc) (bits b0) |}).
    assert (Hlen : length (bits bf) = 16%nat).
    { cbn [bits bf]. rewrite fold_set_length, Hb0, set_i16_length. reflexivity. }
    rewrite !gn_spec by (auto; reflexivity).
    replace (filter (same v) us) with acc by (apply filter_ext_in'; intros u _; symmetry; apply same_ok).
    set (M := map (fun m => m + 1024 * s) (members (bits bf))).
    assert (HM : StronglySorted Z.lt M).
    { apply (sorted_map (R:=Z.lt)); [intros x y; lia|apply members_sorted]. }
    assert (Hmem : forall x, In x M <-> In x (v :: acc)).
    { intros x. unfold M. rewrite in_map_iff. split.
      - intros (m & <- & Hm). apply in_members in Hm. cbn [bits bf] in Hm.
        rewrite member_fold_set in Hm.
        2:{ apply Forall_forall. intros y Hy. apply in_map_iff in Hy. destruct Hy as (u & <- & _). apply mod_range. }
        2:{ rewrite Hb0, set_i16_length. reflexivity. }
        rewrite Hb0, member_set_i16, member_zero in Hm by (try reflexivity; apply mod_range). cbn [orb] in Hm.
        apply orb_prop in Hm. destruct Hm as [Hm|Hm].
        + apply Z.eqb_eq in Hm. subst m. left. unfold s. pose proof (Z.div_mod v 1024 ltac:(lia)). lia.
        + apply memz_In in Hm. apply in_map_iff in Hm. destruct Hm as (u & <- & Hu). right.
          replace (u mod 1024 + 1024 * s) with u; [exact Hu|].
          unfold acc in Hu. apply filter_In in Hu. destruct Hu as [_ Hu]. apply ok_block in Hu.
          pose proof (Z.div_mod u 1024 ltac:(lia)). lia.
      - intros Hx. assert (Hxs : x / 1024 = s /\ (x = v \/ In x acc)).
        { destruct Hx as [<-|Hx]; [split; [reflexivity|now left]|]. split; [|now right].
          unfold acc in Hx. apply filter_In in Hx. apply ok_block. tauto. }
        destruct Hxs as [Hxs Hx']. exists (x mod 1024). split; [pose proof (Z.div_mod x 1024 ltac:(lia)); lia|].
        apply in_members. cbn [bits bf]. rewrite member_fold_set.
        2:{ apply Forall_forall. intros y Hy. apply in_map_iff in Hy. destruct Hy as (u & <- & _). apply mod_range. }
        2:{ rewrite Hb0, set_i16_length. reflexivity. }
        rewrite Hb0, member_set_i16, member_zero by (try reflexivity; apply mod_range). cbn [orb].
        destruct Hx' as [->|Hx']; [rewrite Z.eqb_refl; reflexivity|].
        apply orb_true_intro. right. apply memz_In. apply in_map_iff. exists x. tauto. }
    rewrite <- !take_map. fold M. rewrite map_rev. fold M.
    rewrite (first_n_sound Z.ltb Z.lt ltb_of (v :: acc) n M En HM Hmem). cbn [andb].
    apply (first_n_sound Z.gtb Z.gt gtb_of (v :: acc) n (rev M) En (sorted_rev M HM)).
    intros x. rewrite <- in_rev. apply Hmem.
  Qed.
End Block.

(* ---- BigU32 ---- *)
Definition ok_big (s u : Z) : bool := (0 <=? u) && (u <? MAXI64) && (u / 1024 =? s).

Lemma big_range_quot u : 0 <= u < MAXI64 -> u32 (Z.quot u 1024) = u / 1024 /\ Z.rem u 1024 = u mod 1024.
Proof.
  intros H. unfold MAXI64 in H. rewrite Z.quot_div_nonneg, Z.rem_mod_nonneg by lia. split; [|reflexivity].
  unfold u32. apply Z.mod_small. split; [apply Z.div_pos; lia|apply Z.div_lt_upper_bound; lia].
Qed.

Lemma big_set_spec b u :
  big_set b u = if ok_big (start b) u then Some {| start := start b; bits := set_i16 (bits b) (u mod 1024) |} else None.
Proof.
  unfold big_set, ok_big. destruct (u <? 0) eqn:E1.
  { apply Z.ltb_lt in E1. replace (0 <=? u) with false by (symmetry; apply Z.leb_gt; lia). reflexivity. }
  apply Z.ltb_ge in E1. replace (0 <=? u) with true by (symmetry; apply Z.leb_le; lia). cbn [orb andb].
  destruct (u >=? MAXI64) eqn:E2.
  { apply Z.geb_le in E2. replace (u <? MAXI64) with false by (symmetry; apply Z.ltb_ge; lia). reflexivity. }
  rewrite Z.geb_leb in E2. apply Z.leb_gt in E2. replace (u <? MAXI64) with true by (symmetry; apply Z.ltb_lt; lia).
  destruct (big_range_quot u ltac:(lia)) as [Hq Hr]. rewrite Hq, Hr.
  destruct (u / 1024 =? start b); reflexivity.
Qed.

Lemma big_getn_spec s rv b k : 0 <= k -> length (bits b) = 16%nat -> start b = s ->
  big_getn rv b k = IList (map (fun m => m + 1024 * s) (take k (if rv then rev (members (bits b)) else members (bits b)))).
Proof.
  intros Hk Hl Hs. unfold big_getn, big_iter. replace (k <? 0) with false by (symmetry; apply Z.ltb_ge; lia). f_equal.
  destruct rv; [rewrite iter1024_rev by exact Hl|rewrite iter1024_fwd by exact Hl]; apply map_ext; intros m; unfold idz; rewrite Hs; lia.
Qed.

Theorem big_case_sound v us n o : case_matches (CBig v us n o) = true -> case_holds (CBig v us n o) = true.
Proof.
  cbn [case_matches case_holds]. intros H. apply bobs_eqb_eq in H. subst o. unfold big_new.
  destruct ((v <? 0) || (v >=? MAXI64)) eqn:Er; [reflexivity|].
  apply orb_false_iff in Er. destruct Er as [E1 E2]. apply Z.ltb_ge in E1. rewrite Z.geb_leb in E2. apply Z.leb_gt in E2.
  destruct (big_range_quot v ltac:(lia)) as [Hq Hr]. rewrite Hq, Hr.
  apply (block_run_holds ok_big big_set big_set_spec big_getn same_block_i64 v).
  - intros u. reflexivity.
  - intros u Hu. unfold ok_big in Hu. apply andb_prop in Hu. destruct Hu as [_ Hu]. apply Z.eqb_eq in Hu. exact Hu.
  - intros rv b k. apply big_getn_spec.
  - reflexivity.
  - reflexivity.
Qed.

(* ---- U32BitTip ---- *)
Definition ok_tip (s u : Z) : bool := u / 1024 =? s.
Lemma tip_set_spec b u :
  tip_set b u = if ok_tip (start b) u then Some {| start := start b; bits := set_i16 (bits b) (u mod 1024) |} else None.
Proof. unfold tip_set, ok_tip. destruct (u / 1024 =? start b); reflexivity. Qed.

Lemma tip_getn_spec v s rv b k : 0 <= v < 2 ^ 32 -> s = v / 1024 -> 0 <= k -> length (bits b) = 16%nat -> start b = s ->
  tip_getn rv b k = IList (map (fun m => m + 1024 * s) (take k (if rv then rev (members (bits b)) else members (bits b)))).
Proof.
  intros Hv Hs Hk Hl Hst. unfold tip_getn, tip_iter. replace (k <? 0) with false by (symmetry; apply Z.ltb_ge; lia). f_equal.
  assert (Hin : forall m, In m (take k (if rv then rev (members (bits b)) else members (bits b))) -> in_range m).
  { intros m Hm. apply in_take in Hm. assert (In m (members (bits b))) by (destruct rv; [now apply in_rev|exact Hm]).
    pose proof (members_range (bits b)) as Hr. rewrite Forall_forall in Hr. now apply Hr. }
  assert (Hsr : 0 <= s * 1024 /\ s * 1024 + 1023 < 2 ^ 32).
  { subst s. pose proof (Z.div_mod v 1024 ltac:(lia)). pose proof (Z.mod_pos_bound v 1024 ltac:(lia)). lia. }
  destruct rv; [rewrite iter1024_rev by exact Hl|rewrite iter1024_fwd by exact Hl]; apply map_ext_in; intros m Hm;
    apply Hin in Hm; unfold in_range in Hm; rewrite Hst; unfold u32; rewrite (Z.mod_small (s * 1024)) by lia; rewrite Z.mod_small by lia; lia.
Qed.

Theorem tip_case_sound v us n o : case_matches (CTip v us n o) = true -> case_holds (CTip v us n o) = true.
Proof.
  cbn [case_matches case_holds]. intros H. apply andb_prop in H. destruct H as [H H3]. apply andb_prop in H. destruct H as [H1 _].
  apply bobs_eqb_eq in H3. subst o. unfold in_u32 in H1. apply andb_prop in H1. destruct H1 as [Ha Hb]. apply Z.leb_le in Ha. apply Z.ltb_lt in Hb.
  apply (block_run_holds ok_tip tip_set tip_set_spec tip_getn same_block_u32 v).
  - intros u. reflexivity.
  - intros u Hu. unfold ok_tip in Hu. apply Z.eqb_eq in Hu. exact Hu.
  - intros rv b k. apply (tip_getn_spec v); [lia|reflexivity].
  - reflexivity.
  - reflexivity.
Qed.

(* ------------------------------------------------------------------ list forms *)
Lemma list_getn_spec (it : block -> Z -> list Z) bl n : 0 <= n ->
  (forall b, In b bl -> forall k, it b k = take k (it b 1024)) ->
  list_getn it bl n = IList (take n (flat_map (fun b => it b 1024) bl)).
Proof.
  intros Hn Hit. unfold list_getn. destruct bl as [|b0 bl']; [cbn [flat_map]; now rewrite take_nil|].
  replace (n <? 0) with false by (symmetry; apply Z.ltb_ge; lia). f_equal.
  rewrite (iter_loop_spec it (fun b => it b 1024) _ Hit). cbn [app]. now rewrite Z.sub_0_r.
Qed.

Lemma iter1024_take rv wr b add k : length b = 16%nat -> iter1024 rv wr b add k = take k (iter1024 rv wr b add 1024).
Proof.
  intros Hl. assert (Hle : zlen (if rv then rev (members b) else members b) <= 1024).
  { destruct rv; [rewrite zlen_rev|]; apply zlen_members_le. }
  destruct rv; [rewrite !iter1024_rev by exact Hl|rewrite !iter1024_fwd by exact Hl];
    rewrite (take_all 1024) by exact Hle; now rewrite take_map.
Qed.

Lemma mk_block_length st ms : length (bits (mk_block st ms)) = 16%nat.
Proof. cbn [mk_block bits]. now rewrite fold_set_length. Qed.

Lemma per_fst {A B C} (f : A -> B) (g : A -> C) l : map fst (map (fun x => (f x, g x)) l) = map f l.
Proof. rewrite map_map. reflexivity. Qed.
Lemma per_snd {A B C} (f : A -> B) (g : A -> C) l : map snd (map (fun x => (f x, g x)) l) = map g l.
Proof. rewrite map_map. reflexivity. Qed.

Lemma blocks_len (bl : list (Z * list Z)) b : In b (map (fun x => mk_block (fst x) (snd x)) bl) -> length (bits b) = 16%nat.
Proof. intros H. apply in_map_iff in H. destruct H as (x & <- & _). apply mk_block_length. Qed.

Theorem bigs_case_sound bl n per fw rv : case_matches (CBigs bl n per fw rv) = true -> case_holds (CBigs bl n per fw rv) = true.
Proof.
  cbn [case_matches case_holds]. set (blocks := map (fun x => mk_block (fst x) (snd x)) bl). intros H.
  apply andb_prop in H. destruct H as [H H4]. apply andb_prop in H. destruct H as [H H3]. apply andb_prop in H. destruct H as [_ H2].
  apply (list_eqb_eq pair_eqb pair_eqb_eq) in H2. apply iobs_eqb_eq in H3. apply iobs_eqb_eq in H4. subst per fw rv.
  destruct (n <? 0) eqn:En; [reflexivity|]. apply Z.ltb_ge in En. cbn [orb].
  assert (Hit : forall r b, In b blocks -> forall k, big_iter r b k = take k (big_iter r b 1024)).
  { intros r b Hb k. unfold big_iter. apply iter1024_take. eapply blocks_len, Hb. }
  unfold bigs_getn. rewrite !list_getn_spec by (auto; apply Hit).
  rewrite per_fst, per_snd, !concat_map_flat_map. rewrite !iobs_eqb_refl. reflexivity.
Qed.

Theorem tips_case_sound bl n per fw rv : case_matches (CTips bl n per fw rv) = true -> case_holds (CTips bl n per fw rv) = true.
Proof.
  cbn [case_matches case_holds]. set (blocks := map (fun x => mk_block (fst x) (snd x)) bl). intros H.
  apply andb_prop in H. destruct H as [H H4]. apply andb_prop in H. destruct H as [H H3]. apply andb_prop in H. destruct H as [_ H2].
  apply (list_eqb_eq pair_eqb pair_eqb_eq) in H2. apply iobs_eqb_eq in H3. apply iobs_eqb_eq in H4. subst per fw rv.
  destruct (n <? 0) eqn:En; [reflexivity|]. apply Z.ltb_ge in En. cbn [orb].
  assert (Hit : forall r b, In b blocks -> forall k, tip_iter r b k = take k (tip_iter r b 1024)).
  { intros r b Hb k. unfold tip_iter. apply iter1024_take. eapply blocks_len, Hb. }
  unfold tips_getn. rewrite !list_getn_spec by (auto; try apply Hit; intros b Hb; apply Hit; now apply in_rev).
  rewrite per_fst, per_snd, <- map_rev, !concat_map_flat_map. rewrite !iobs_eqb_refl. cbn [andb]. apply orb_true_r.
Qed.

